/-
  C05 for ALL sources (split tabs included), third part — the frame invariant `FIV`
  (Lemmas/C05TabsDefs3.lean: boundaries + text clauses with the code-span exemption + the two
  anchors `tanch` / `anch`) through the inline tokenizer.  Part 1: list lemmas, lowering
  (`tx_sel_within`, `tx_sel_brk`, strictness), `Within` / `Anchored`, pushing a node,
  `trailing_text_push`, and the rules text, fall-back, escape, entity, autolink.

  Template: Lemmas/C05RestInline.lean (`C05R.FI` under `Ctx`); here the table is only `MapT` and the
  content only `PFthV`, so every text clause is obtained either from `PFthV.copy` inside a solid
  stretch (`Within`) or from `PFthV.brk` across a line feed.

  Shape of every rule lemma (`tx_rule<X>`):
    CtxV src0 st.src st.srcmap → tv_RInv A lo st → tx_FInv src0 st →
    rule<X> … st false = .ok (o, st') →
    FIV src0 st.src st.srcmap st.posMax (st'.pos + o.getD 0) st'.children
-/
import MdIt.Lemmas.C05TabsDefs3
import MdIt.Lemmas.C05TabsRanges3

namespace MdIt.C05T
open MdIt.Inline
open MdIt.InlineOps (Srcmap getSourcePosFor getMap byteLen slice)
open MdIt.C05R (Cut Bdy Sel Adj Adjd StrictTop TextLike textOf)

/-- the invariant of a state (`pm` is the state's own `posMax`) -/
def tx_FInv (src0 : List Char) (st : IState) : Prop :=
  FIV src0 st.src st.srcmap st.posMax st.pos st.children

/-! ## sibling lists, single nodes -/

theorem tx_fthL_append (src : List Char) (ex : Bool) (a b : List Node) :
    FthLV src ex (a ++ b) ↔ FthLV src ex a ∧ FthLV src ex b := by
  simp only [fthLV_iff, List.mem_append]
  constructor
  · intro h; exact ⟨fun n hn => h n (Or.inl hn), fun n hn => h n (Or.inr hn)⟩
  · rintro ⟨h1, h2⟩ n (hn | hn)
    · exact h1 n hn
    · exact h2 n hn

theorem tx_fthL_single (src : List Char) (ex : Bool) (n : Node) :
    FthLV src ex [n] ↔ FthNV src ex n := by
  simp [FthLV]

/-- a childless `Text` whose range selects its content — or that is exempt (child of a code span) -/
theorem tx_fthN_text {src0 : List Char} {ex : Bool} {n : Node} (ht : n.isText = true)
    (hc : n.children = []) {a b : Nat} (hr : n.range = some (a, b)) (ha : Bdy src0 a)
    (hb : Bdy src0 b) (hs : ex = false → Sel src0 a b n.content) : FthNV src0 ex n := by
  rw [FthNV_eq]
  have hv := C05R.fi_val_of_isText ht
  refine ⟨⟨a, b, hr, ha, hb, ?_, ?_, ?_, by rw [hc]; trivial⟩, by rw [hc]; trivial⟩
  · intro hex t e; rw [hv] at e; cases e; exact hs hex
  · intro ct mu info e; rw [hv] at e; cases e
  · intro mk l rem o cl e; rw [hv] at e; cases e

/-- a `Text` leaf -/
theorem tx_fthN_newText {src0 : List Char} {ex : Bool} {t : List Char} {a b : Nat} (ha : Bdy src0 a)
    (hb : Bdy src0 b) (hs : ex = false → Sel src0 a b t) :
    FthNV src0 ex (Node.newText t (some (a, b))) :=
  tx_fthN_text (n := Node.newText t (some (a, b))) rfl rfl rfl ha hb hs

/-- a node that is neither `Text`, `TextSpecial` nor `EmphMarker`; its children are judged under the
    exemption flag of its value -/
theorem tx_fthN_plain {src0 : List Char} {ex : Bool} {v : Val} {a b : Nat} {cs : List Node}
    (ha : Bdy src0 a) (hb : Bdy src0 b) (h1 : ∀ t, v ≠ .text t) (h2 : ∀ x y z, v ≠ .special x y z)
    (h3 : ∀ mk l rem o c, v ≠ .emphMarker mk l rem o c) (hadj : Adjd cs)
    (hd : FthLV src0 (isCode v) cs) : FthNV src0 ex (Node.mk v (some (a, b)) cs) := by
  rw [FthNV_eq]
  exact ⟨⟨a, b, rfl, ha, hb, fun _ t e => absurd e (h1 t), fun x y z e => absurd e (h2 x y z),
    fun mk l rem o c e => absurd e (h3 mk l rem o c), hadj⟩, hd⟩

/-- a `TextSpecial` leaf whose range selects its markup -/
theorem tx_fthN_special {src0 : List Char} {ex : Bool} {ct mu info : List Char} {a b : Nat}
    (ha : Bdy src0 a) (hb : Bdy src0 b) (hs : Sel src0 a b mu) :
    FthNV src0 ex (Node.leaf (.special ct mu info) (some (a, b))) := by
  unfold Node.leaf
  rw [FthNV_eq]
  refine ⟨⟨a, b, rfl, ha, hb, (fun _ t e => by cases e), ?_, (fun mk l rem o c e => by cases e),
    trivial⟩, trivial⟩
  intro x y z e
  simp only [Val.special.injEq] at e
  obtain ⟨_, rfl, _⟩ := e
  exact hs

/-! ## strings: `Cut`, `CharAt`, `Within`, `Anchored` -/

theorem tx_cut_len {s : List Char} {a b : Nat} {w : List Char} (h : Cut s a b w) :
    a + byteLen w = b := by
  obtain ⟨_, _, _, _, hb⟩ := h; exact hb

theorem tx_charAt_of_cut {c : List Char} {p q : Nat} {x : Char} {w : List Char}
    (h : Cut c p q (x :: w)) : CharAt c p x := by
  obtain ⟨pre, post, e, hp, _⟩ := h
  exact ⟨pre, w ++ post, by rw [e]; simp, hp⟩

theorem tx_charAt_unique {c : List Char} {p : Nat} {x y : Char} (h1 : CharAt c p x)
    (h2 : CharAt c p y) : x = y := by
  obtain ⟨p1, q1, e1, l1⟩ := h1
  obtain ⟨p2, q2, e2, l2⟩ := h2
  have := (C05R.prefix_unique (show p1 ++ x :: q1 = p2 ++ y :: q2 by rw [← e1, ← e2])
    (by omega)).2
  simp only [List.cons.injEq] at this
  exact this.1

/-- a solid stretch lies within itself -/
theorem tx_within_of_solid {c : List Char} {p q : Nat} {ch : Char} {w : List Char}
    (hc : Cut c p q (ch :: w)) (h1 : ch ≠ ' ') (h2 : ch ≠ '\n') (h3 : '\n' ∉ w) : Within c p q :=
  ⟨p, q, ch, w, hc, h1, h2, h3, Nat.le_refl _, hc.le, Nat.le_refl _⟩

/-- a line-feed-free stretch behind an anchor -/
theorem tx_within_of_anchored {c : List Char} {pos stop : Nat} {w : List Char}
    (ha : Anchored c pos) (hc : Cut c pos stop w) (hn : '\n' ∉ w) : Within c pos stop := by
  obtain ⟨p, ch0, w0, hcut, h1, h2, h3⟩ := ha
  refine ⟨p, stop, ch0, w0 ++ w, ?_, h1, h2, ?_, hcut.le, hc.le, Nat.le_refl _⟩
  · have := hcut.append hc; simpa using this
  · intro hm
    rcases List.mem_append.mp hm with h | h
    · exact h3 h
    · exact hn h

theorem tx_within_sub {c : List Char} {p1 p2 q1 q2 : Nat} (h : Within c p1 p2) (h1 : p1 ≤ q1)
    (h2 : q1 ≤ q2) (h3 : q2 ≤ p2) : Within c q1 q2 := by
  obtain ⟨p, q, ch0, w0, hcut, k1, k2, k3, hp1, _, hp2⟩ := h
  exact ⟨p, q, ch0, w0, hcut, k1, k2, k3, by omega, h2, by omega⟩

/-- appending a line-feed-free piece to a stretch that lies `Within` a solid stretch -/
theorem tx_within_extend {c : List Char} {s e e' : Nat} {piece : List Char} (h : Within c s e)
    (hc : Cut c e e' piece) (hn : '\n' ∉ piece) : Within c s e' := by
  obtain ⟨p, q, ch0, w0, hcut, h1, h2, h3, hps, hse, heq⟩ := h
  have hle := hc.le
  by_cases hq : e' ≤ q
  · exact ⟨p, q, ch0, w0, hcut, h1, h2, h3, hps, by omega, hq⟩
  · obtain ⟨u, v, huv, _, c2⟩ := hc.split hcut.bdy_right heq (by omega)
    have hcat := hcut.append c2
    refine ⟨p, e', ch0, w0 ++ v, by simpa using hcat, h1, h2, ?_, hps, by omega, Nat.le_refl _⟩
    intro hm
    rcases List.mem_append.mp hm with h | h
    · exact h3 h
    · exact hn (by rw [huv]; exact List.mem_append_right _ h)

/-- a solid single-byte character in front of `p` anchors `p` -/
theorem tx_anchored_of_charAt {c : List Char} {p : Nat} {x : Char} (h : CharAt c (p - 1) x)
    (hp : 1 ≤ p) (hs : x.utf8Size = 1) (h1 : x ≠ ' ') (h2 : x ≠ '\n') : Anchored c p := by
  obtain ⟨pre, post, e, hl⟩ := h
  refine ⟨p - 1, x, [], ⟨pre, post, by rw [e]; simp, hl, ?_⟩, h1, h2, by simp⟩
  simp only [byteLen, hs]; omega

/-- the consumed stretch anchors the position behind it -/
theorem tx_anchored_of_cut {c : List Char} {p q : Nat} {ch : Char} {w : List Char}
    (hc : Cut c p q (ch :: w)) (h1 : ch ≠ ' ') (h2 : ch ≠ '\n') (h3 : '\n' ∉ w) : Anchored c q :=
  ⟨p, ch, w, hc, h1, h2, h3⟩

/-- behind a prefix `u` of a window whose rest does not start with a space, no space stands -/
theorem tx_no_space_at {c : List Char} {a b : Nat} {u v : List Char}
    (h : slice c a b = .ok (u ++ v)) (hv : ∀ x r, v = x :: r → x ≠ ' ')
    (hlt : a + byteLen u < b) : ¬ CharAt c (a + byteLen u) ' ' := by
  intro hca
  obtain ⟨p, q, e, l1, l2⟩ := (C05.slice_ok_iff _ _ _ _).mp h
  obtain ⟨pre, post, e', l'⟩ := hca
  have he : (p ++ u) ++ (v ++ q) = pre ++ (' ' :: post) := by rw [← e', e]; simp
  obtain ⟨_, hr⟩ := C05R.prefix_unique he (by rw [C05.byteLen_append]; omega)
  cases v with
  | nil =>
    rw [C05.byteLen_append] at l2
    simp only [byteLen] at l2; omega
  | cons x r =>
    simp only [List.cons_append, List.cons.injEq] at hr
    exact hv x r rfl hr.1

/-! ## lowering: text clauses and strictness -/

/-- **lowering a text clause inside a solid stretch**: `PFthV.copy` gives the exact selection -/
theorem tx_sel_within {src c : List Char} {m : Srcmap} (h : PFthV src c m) {p1 p2 a b : Nat}
    {w : List Char} (hw : Within c p1 p2) (hc : Cut c p1 p2 w) (ha : getSourcePosFor m p1 = .ok a)
    (hb : getSourcePosFor m p2 = .ok b) : Sel src a b w := by
  obtain ⟨p, q, ch0, w0, hcut, h1, h2, h3, hp1, _, hp2⟩ := hw
  exact C05R.Sel.of_cut (h.copy p q ch0 w0 p1 p2 w a b hcut h1 h2 h3 hp1 hp2 hc ha hb)

/-- **lowering a text clause across a line feed**: the translated range holds a line break, so the
    clause is vacuous (for any text `t`) -/
theorem tx_sel_brk {src c : List Char} {m : Srcmap} (h : PFthV src c m) {p q a b : Nat}
    {w t : List Char} (hc : Cut c p q w) (hl : '\n' ∈ w) (ha : getSourcePosFor m p = .ok a)
    (hb : getSourcePosFor m q = .ok b) : Sel src a b t := by
  intro w' hw' hn
  exact absurd hn (h.brk p q w a b w' hc hl ha hb hw')

/-- strictness inside a solid stretch: the translation is a shift there -/
theorem tx_strict_within {c : List Char} {m : Srcmap} (hm : MapT c m) {p1 p2 a b : Nat}
    (hw : Within c p1 p2) (hlt : p1 < p2) (ha : getSourcePosFor m p1 = .ok a)
    (hb : getSourcePosFor m p2 = .ok b) : a < b := by
  obtain ⟨p, q, ch0, w0, hcut, h1, h2, h3, hp1, hp12, hp2⟩ := hw
  have := hm.shift p q ch0 w0 p1 p2 a b hcut h1 h2 h3 hp1 hp12 hp2 ha hb
  omega

/-- strictness across a line feed: the translated range holds a line break, so it is not empty -/
theorem tx_strict_brk {src0 c : List Char} {m : Srcmap} (hctx : CtxV src0 c m) {p q a b : Nat}
    {w : List Char} (hc : Cut c p q w) (hl : '\n' ∈ w) (ha : getSourcePosFor m p = .ok a)
    (hb : getSourcePosFor m q = .ok b) : a < b := by
  have hle : a ≤ b := hctx.map.mono p q a b hc.le ha hb
  have hba := hctx.fth.bdy p a hc.bdy_left ha
  have hbb := hctx.fth.bdy q b hc.bdy_right hb
  obtain ⟨w', hw'⟩ := hba.cut hbb hle
  have hnb := hctx.fth.brk p q w a b w' hc hl ha hb hw'
  rcases Nat.lt_or_ge a b with h | h
  · exact h
  · exfalso
    have : a = b := by omega
    subst this
    have : w' = [] := hw'.unique hba.cut_nil
    subst this
    exact hnb ⟨by simp, by simp⟩

/-! ## pushing a node that is not text-like -/

/-- pushing a node that the join pass will never merge onto a list that satisfies the list clauses
    of the invariant, and moving the cursor to a boundary `p'` where a space (if any) is anchored
    (`tail`, `tanch` are vacuous for the new list, `anch` is the last hypothesis) -/
theorem tx_push_of {src0 c : List Char} {m : Srcmap} {pm : Nat} {cs : List Node}
    (hd : FthLV src0 false cs) (hadj : Adjd cs) (hst : StrictTop cs) {n : Node} {p' : Nat}
    (hb : Bdy c p') (hn : FthNV src0 false n)
    (hnt : ¬ TextLike n) (ha : p' < pm → CharAt c p' ' ' → Anchored c p') :
    FIV src0 c m pm p' (cs ++ [n]) := by
  refine ⟨hb, (tx_fthL_append _ _ _ _).mpr ⟨hd, (tx_fthL_single _ _ _).mpr hn⟩, ?_, ?_, ?_, ?_, ?_⟩
  · exact (C05R.fi_adjd_snoc _ _).mpr ⟨hadj, fun y _ _ ht => absurd ht hnt⟩
  · exact (C05R.fi_strict_append _ _).mpr
      ⟨hst, (C05R.fi_strict_single _).mpr (fun ht => absurd ht hnt)⟩
  · intro init last hcs hlt
    obtain ⟨_, rfl⟩ := snoc_inj hcs
    exact absurd hlt hnt
  · intro init last hcs hlt
    obtain ⟨_, rfl⟩ := snoc_inj hcs
    exact absurd (C05R.fi_textLike_of_isText hlt) hnt
  · intro _ h1 h2; exact ha h1 h2

/-- pushing a node that the join pass will never merge, and moving the cursor to a boundary `p'`
    where a space (if any) is anchored -/
theorem tx_push {src0 c : List Char} {m : Srcmap} {pm pos : Nat} {cs : List Node}
    (h : FIV src0 c m pm pos cs) {n : Node} {p' : Nat} (hb : Bdy c p') (hn : FthNV src0 false n)
    (hnt : ¬ TextLike n) (ha : p' < pm → CharAt c p' ' ' → Anchored c p') :
    FIV src0 c m pm p' (cs ++ [n]) :=
  tx_push_of h.deep h.adj h.strict hb hn hnt ha

/-! ## `trailing_text_push` -/

/-- what `trailing_text_push(pos, stop)` does to the child list: content and range of the new last
    child -/
theorem tx_push_shape {src : List Char} {m : Srcmap} {cs out : List Node} {pos stop : Nat}
    (hp : trailingTextPush src m cs pos stop = .ok out) :
    ∃ piece, slice src pos stop = .ok piece ∧
      ((∃ x y, out = cs ++ [Node.newText piece (some (x, y))] ∧
          (∀ y0, cs.getLast? = some y0 → y0.isText = false) ∧
          getSourcePosFor m pos = .ok x ∧ getSourcePosFor m stop = .ok y) ∨
       (∃ init last r, cs = init ++ [last] ∧ last.isText = true ∧
          out = init ++ [Node.mk (.text (last.content ++ piece)) r last.children] ∧
          ∀ a b, last.range = some (a, b) →
            ∃ b', getSourcePosFor m stop = .ok b' ∧ r = some (a, b'))) := by
  have hfresh : ∀ out, (match liftOps (slice src pos stop) with
      | .error e => (.error e : Except RPanic (List Node))
      | .ok piece =>
        match liftOps (getMap m pos stop) with
        | .error e => .error e
        | .ok r => .ok (cs ++ [Node.newText piece (some r)])) = .ok out →
      ∃ piece, slice src pos stop = .ok piece ∧
        ∃ x y, out = cs ++ [Node.newText piece (some (x, y))] ∧
          getSourcePosFor m pos = .ok x ∧ getSourcePosFor m stop = .ok y := by
    intro out ho
    split at ho
    · simp at ho
    · next piece hpiece =>
      split at ho
      · simp at ho
      · next r hr =>
        simp only [Except.ok.injEq] at ho; subst ho
        obtain ⟨rx, ry⟩ := r
        obtain ⟨e1, e2, _⟩ := getMapRaw_eq hr
        exact ⟨piece, liftOps_ok.mp hpiece, rx, ry, rfl, e1, e2⟩
  unfold trailingTextPush at hp
  simp only at hp
  rcases popLast_spec cs with ⟨hpop, hnil⟩ | ⟨init, last, hpop, hcs⟩
  · rw [hpop] at hp
    obtain ⟨piece, h1, x, y, h2, h3, h4⟩ := hfresh out hp
    exact ⟨piece, h1, Or.inl ⟨x, y, h2, by intro y0 hy0; rw [hnil] at hy0; simp at hy0, h3, h4⟩⟩
  · rw [hpop] at hp
    simp only at hp
    split at hp
    · next hlt =>
      split at hp
      · simp at hp
      · next piece hpiece =>
        split at hp
        · next hnone =>
          simp only [Except.ok.injEq] at hp; subst hp
          refine ⟨piece, liftOps_ok.mp hpiece, Or.inr ⟨init, last, last.range, hcs, hlt, rfl, ?_⟩⟩
          intro a b hab; rw [hnone] at hab; cases hab
        · next ms me hsome =>
          split at hp
          · simp at hp
          · next mapEnd hme =>
            simp only [Except.ok.injEq] at hp; subst hp
            refine ⟨piece, liftOps_ok.mp hpiece,
              Or.inr ⟨init, last, some (ms, mapEnd), hcs, hlt, rfl, ?_⟩⟩
            intro a b hab; rw [hsome] at hab
            simp only [Option.some.injEq, Prod.mk.injEq] at hab
            obtain ⟨rfl, _⟩ := hab
            exact ⟨mapEnd, liftOps_ok.mp hme, rfl⟩
    · next hlt =>
      obtain ⟨piece, h1, x, y, h2, h3, h4⟩ := hfresh out hp
      refine ⟨piece, h1, Or.inl ⟨x, y, h2, ?_, h3, h4⟩⟩
      intro y0 hy0
      rw [hcs] at hy0; simp at hy0; subst hy0
      simpa using hlt

/-- **`trailing_text_push(pos, stop)` keeps the frame invariant** (`pos < stop ≤ pm`, `stop` a
    boundary).  A piece or a grown text with a line feed gets its clause from `PFthV.brk`; otherwise
    the new content lies `Within` a solid stretch — a grown text by `tanch`, a fresh text because
    it starts with a solid character or, if it starts with a space, by `anch`. -/
theorem tx_pushText {src0 c : List Char} {m : Srcmap} {lo pm pos stop : Nat} {cs out : List Node}
    (hctx : CtxV src0 c m) (hr : RI c m lo pos cs) (hf : FIV src0 c m pm pos cs) (hlt : pos < stop)
    (hpm : stop ≤ pm) (hb : Bdy c stop) (hp : trailingTextPush c m cs pos stop = .ok out) :
    FIV src0 c m pm stop out := by
  obtain ⟨piece, hsl, hshape⟩ := tx_push_shape hp
  have hcp : Cut c pos stop piece := (C05R.cut_iff_ops _ _ _ _).mp hsl
  rcases hshape with ⟨x, y, hout, hnt, hx, hy⟩ | ⟨init, last, r, hcs, hlast_t, hout, hrg⟩
  · -- a fresh node
    have hntl : NoTextLast cs := fun i l hil => hnt l (C05R.fi_getLast_snoc hil)
    have hW : '\n' ∉ piece → Within c pos stop := by
      intro hn
      cases hpc : piece with
      | nil =>
        exfalso
        have := tx_cut_len hcp
        rw [hpc] at this; simp only [byteLen] at this; omega
      | cons ch rest =>
        rw [hpc] at hcp hn
        have hch : ch ≠ '\n' := fun e => hn (by rw [e]; simp)
        have hrest : '\n' ∉ rest := fun e => hn (by simp [e])
        by_cases hsp : ch = ' '
        · subst hsp
          exact tx_within_of_anchored (hf.anch hntl (by omega) (tx_charAt_of_cut hcp)) hcp hn
        · exact tx_within_of_solid hcp hsp hch hrest
    have hsel : Sel src0 x y piece := by
      by_cases hn : '\n' ∈ piece
      · exact tx_sel_brk hctx.fth hcp hn hx hy
      · exact tx_sel_within hctx.fth (hW hn) hcp hx hy
    have hstrict : x < y := by
      by_cases hn : '\n' ∈ piece
      · exact tx_strict_brk hctx hcp hn hx hy
      · exact tx_strict_within hctx.map (hW hn) hlt hx hy
    have hfn : FthNV src0 false (Node.newText piece (some (x, y))) :=
      tx_fthN_newText (hctx.fth.bdy _ _ hf.bpos hx) (hctx.fth.bdy _ _ hb hy) (fun _ => hsel)
    subst hout
    refine ⟨hb, (tx_fthL_append _ _ _ _).mpr ⟨hf.deep, (tx_fthL_single _ _ _).mpr hfn⟩,
      ?_, ?_, ?_, ?_, ?_⟩
    · refine (C05R.fi_adjd_snoc _ _).mpr ⟨hf.adj, ?_⟩
      intro y0 hy0 ht0 _
      obtain ⟨i0, hi0⟩ := C05R.fi_snoc_of_getLast hy0
      obtain ⟨a, b, hab, hbpos⟩ := hf.tail i0 y0 hi0 ht0
      rw [hx] at hbpos; simp only [Except.ok.injEq] at hbpos; subst hbpos
      exact ⟨a, x, y, hab, rfl⟩
    · exact (C05R.fi_strict_append _ _).mpr
        ⟨hf.strict, (C05R.fi_strict_single _).mpr (fun _ => ⟨x, y, rfl, hstrict⟩)⟩
    · intro i l hil _
      obtain ⟨_, rfl⟩ := snoc_inj hil
      exact ⟨x, y, rfl, hy⟩
    · intro i l hil _ hnl
      obtain ⟨_, rfl⟩ := snoc_inj hil
      exact ⟨pos, hcp, hW hnl⟩
    · intro hno
      have := hno cs _ rfl
      simp [Node.newText, Node.isText] at this
  · -- the trailing text grows
    obtain ⟨hch, start, xs, xe, hsl0, hxs, hxe, hrange⟩ := hr.trail init last hcs hlast_t
    have hc0 : Cut c start pos last.content := (C05R.cut_iff_ops _ _ _ _).mp hsl0
    obtain ⟨b', hb', hr'⟩ := hrg xs xe hrange
    subst hr'
    have hcat : Cut c start stop (last.content ++ piece) := hc0.append hcp
    have htl := C05R.fi_textLike_of_isText hlast_t
    have hW : '\n' ∉ last.content ++ piece → Within c start stop := by
      intro hn
      have hn1 : '\n' ∉ last.content := fun e => hn (List.mem_append_left _ e)
      have hn2 : '\n' ∉ piece := fun e => hn (List.mem_append_right _ e)
      obtain ⟨s', hc', hw'⟩ := hf.tanch init last hcs hlast_t hn1
      have e1 := tx_cut_len hc'
      have e2 := tx_cut_len hc0
      have : s' = start := by omega
      subst this
      exact tx_within_extend hw' hcp hn2
    have hsel : Sel src0 xs b' (last.content ++ piece) := by
      by_cases hn : '\n' ∈ last.content ++ piece
      · exact tx_sel_brk hctx.fth hcat hn hxs hb'
      · exact tx_sel_within hctx.fth (hW hn) hcat hxs hb'
    have hfn : FthNV src0 false
        (Node.mk (.text (last.content ++ piece)) (some (xs, b')) last.children) :=
      tx_fthN_text (n := Node.mk (.text (last.content ++ piece)) (some (xs, b')) last.children)
        rfl hch rfl (hctx.fth.bdy _ _ hc0.bdy_left hxs) (hctx.fth.bdy _ _ hb hb') (fun _ => hsel)
    have hab_lt : xs < xe := by
      obtain ⟨a', b'', e, hlt''⟩ := hf.strict last (by rw [hcs]; simp) htl
      rw [hrange] at e; simp only [Option.some.injEq, Prod.mk.injEq] at e
      obtain ⟨rfl, rfl⟩ := e; exact hlt''
    have hmono : xe ≤ b' := tv_mono hctx.map (Nat.le_of_lt hlt) hxe hb'
    subst hcs hout
    have hd := (tx_fthL_append _ _ _ _).mp hf.deep
    have hadj := (C05R.fi_adjd_snoc _ _).mp hf.adj
    refine ⟨hb, (tx_fthL_append _ _ _ _).mpr ⟨hd.1, (tx_fthL_single _ _ _).mpr hfn⟩, ?_, ?_, ?_, ?_, ?_⟩
    · refine (C05R.fi_adjd_snoc _ _).mpr ⟨hadj.1, ?_⟩
      intro y0 hy0 ht0 _
      obtain ⟨a1, b1, b2, e1, e2⟩ := hadj.2 y0 hy0 ht0 htl
      rw [hrange] at e2; simp only [Option.some.injEq, Prod.mk.injEq] at e2
      obtain ⟨rfl, rfl⟩ := e2
      exact ⟨a1, xs, b', e1, rfl⟩
    · exact (C05R.fi_strict_append _ _).mpr ⟨((C05R.fi_strict_append _ _).mp hf.strict).1,
        (C05R.fi_strict_single _).mpr (fun _ => ⟨xs, b', rfl, by omega⟩)⟩
    · intro i l hil _
      obtain ⟨_, rfl⟩ := snoc_inj hil
      exact ⟨xs, b', rfl, hb'⟩
    · intro i l hil _ hnl
      obtain ⟨_, rfl⟩ := snoc_inj hil
      exact ⟨start, hcat, hW hnl⟩
    · intro hno
      have := hno init _ rfl
      simp [Node.isText] at this

/-! ## the rules: text, fall-back -/

theorem tx_none {src0 : List Char} {st : IState} (hf : tx_FInv src0 st) :
    FIV src0 st.src st.srcmap st.posMax (st.pos + (none : Option Nat).getD 0) st.children := by
  simp only [Option.getD_none, Nat.add_zero]; exact hf

theorem tx_ruleText {A : Prop} {src0 : List Char} {lo : Nat} {st st' : IState} {o : Option Nat}
    (hctx : CtxV src0 st.src st.srcmap) (hi : tv_RInv A lo st) (hf : tx_FInv src0 st)
    (h : ruleText st false = .ok (o, st')) :
    FIV src0 st.src st.srcmap st.posMax (st'.pos + o.getD 0) st'.children := by
  unfold ruleText at h
  split at h
  · simp at h
  · next w hw =>
    simp only at h
    split at h
    · simp only [Except.ok.injEq, Prod.mk.injEq] at h; obtain ⟨rfl, rfl⟩ := h; exact tx_none hf
    · next hne =>
      simp only [Bool.false_eq_true, if_false] at h
      split at h
      · simp at h
      · next st2 hp =>
        simp only [Except.ok.injEq, Prod.mk.injEq] at h; obtain ⟨rfl, rfl⟩ := h
        obtain ⟨cs, hcs, rfl⟩ := pushText_eq hp
        simp only [Option.getD_some]
        obtain ⟨u, v, huv, hu⟩ := textLen_prefix w
        have hsl := window_eq hw
        have hb : Bdy st.src (st.pos + textLen w) := by
          rw [← hu]; exact boundary_in_slice (by rw [← huv]; exact hsl)
        have hle : st.pos + textLen w ≤ st.posMax := by
          obtain ⟨_, _, hl⟩ := slice_boundaries hsl
          have := congrArg byteLen huv
          rw [C05.byteLen_append] at this; omega
        exact tx_pushText hctx hi.ri hf
          (by show st.pos < st.pos + textLen w; unfold textLen; omega) hle hb hcs

/-- the fall-back of the tokenizer loop: the first character of the window goes to the pending text -/
theorem tx_fallback {A : Prop} {src0 : List Char} {lo : Nat} {st st' : IState} {ch : Char}
    (hctx : CtxV src0 st.src st.srcmap) (hi : tv_RInv A lo st) (hf : tx_FInv src0 st)
    (hch : firstChar st = .ok ch) (h : st.pushText st.pos (st.pos + ch.utf8Size) = .ok st') :
    FIV src0 st.src st.srcmap st.posMax (st'.pos + ch.utf8Size) st'.children := by
  obtain ⟨cs, hcs, rfl⟩ := pushText_eq h
  unfold firstChar at hch
  split at hch
  · simp at hch
  · simp at hch
  · next c rest hw =>
    simp only [Except.ok.injEq] at hch; subst hch
    have hsl := window_eq (liftR_ok.mp hw)
    have hb : Bdy st.src (st.pos + c.utf8Size) := by
      have := boundary_in_slice (u := [c]) (v := rest) hsl
      simp only [byteLen, Nat.add_zero] at this
      exact this
    have hle : st.pos + c.utf8Size ≤ st.posMax := by
      obtain ⟨_, _, hl⟩ := slice_boundaries hsl
      simp only [byteLen] at hl; omega
    have := Char.utf8Size_pos c
    exact tx_pushText hctx hi.ri hf (by show st.pos < st.pos + c.utf8Size; omega) hle hb hcs

/-! ## escape, entity -/

theorem tx_charAt_of_slice {c : List Char} {a b : Nat} {u v : List Char} {x : Char}
    (h : slice c a b = .ok (u ++ x :: v)) : CharAt c (a + byteLen u) x := by
  obtain ⟨P, Q, e, l1, _⟩ := (C05.slice_ok_iff _ _ _ _).mp h
  exact ⟨P ++ u, v ++ Q, by rw [e]; simp, by rw [C05.byteLen_append]; omega⟩

/-- `Inline.escapeCore_special` plus: the escaped character is not the line feed -/
theorem tx_escapeCore_special {w : List Char} {sp : Entity.Special}
    (h : Entity.escapeCore w = .ok (some (.special sp))) :
    ∃ chr w', w = '\\' :: chr :: w' ∧ sp.markup = ['\\', chr] ∧ chr ≠ '\n' := by
  unfold Entity.escapeCore at h
  split at h
  · simp at h
  · next c w1 =>
    split at h
    · simp at h
    · next hc =>
      split at h
      · simp at h
      · next chr w' =>
        split at h
        · simp at h
        · next hn =>
          simp only [Except.ok.injEq, Option.some.injEq, Entity.EscOut.special.injEq] at h
          have hc' : c = '\\' := by simpa using hc
          subst hc'
          exact ⟨chr, w', rfl, by rw [← h], by simpa using hn⟩

/-- the extent of `\` + line feed + blanks: the blanks are ALL the blanks behind the line feed -/
theorem tx_hardbreak_split {w : List Char} {len : Nat}
    (h : Entity.escapeCore w = .ok (some (.hardbreak len))) :
    ∃ run rest, w = ('\\' :: '\n' :: run) ++ rest ∧ byteLen ('\\' :: '\n' :: run) = len ∧
      (∀ x r, rest = x :: r → x ≠ ' ') := by
  obtain ⟨w', hw', hlen⟩ := escapeCore_hardbreak h
  obtain ⟨hall, hsplit, hhead⟩ := Entity.splitRun_sound (fun x => x == ' ' || x == '\t') w'
  refine ⟨(Entity.splitRun (fun x => x == ' ' || x == '\t') w').1,
    (Entity.splitRun (fun x => x == ' ' || x == '\t') w').2, ?_, ?_, ?_⟩
  · rw [hw']
    simp only [List.cons_append]
    exact congrArg (fun l => '\\' :: '\n' :: l) hsplit
  · have hsz : ∀ c ∈ (Entity.splitRun (fun x => x == ' ' || x == '\t') w').1, c.utf8Size = 1 := by
      intro c hc
      have := hall c hc
      simp only [Bool.or_eq_true, beq_iff_eq] at this
      rcases this with rfl | rfl <;> decide
    have e1 : ('\\' : Char).utf8Size = 1 := by decide
    have e2 : ('\n' : Char).utf8Size = 1 := by decide
    simp only [byteLen, e1, e2, byteLen_ascii _ hsz]
    omega
  · intro x r hr hx
    have := hhead x (by rw [hr]; simp)
    subst hx
    simp at this

theorem tx_ruleEscape {src0 : List Char} {st st' : IState} {o : Option Nat}
    (hctx : CtxV src0 st.src st.srcmap) (hf : tx_FInv src0 st)
    (h : ruleEscape st false = .ok (o, st')) :
    FIV src0 st.src st.srcmap st.posMax (st'.pos + o.getD 0) st'.children := by
  unfold ruleEscape at h
  split at h
  · simp at h
  · next w hw =>
    have hsl := window_eq hw
    split at h
    · simp at h
    · simp only [Except.ok.injEq, Prod.mk.injEq] at h; obtain ⟨rfl, rfl⟩ := h; exact tx_none hf
    · next len hc =>
      obtain ⟨run, rest2, hw', hbl, hhead⟩ := tx_hardbreak_split hc
      simp only [Bool.false_eq_true, if_false] at h
      split at h
      · simp at h
      · next r hr =>
        simp only [Except.ok.injEq, Prod.mk.injEq] at h; obtain ⟨rfl, rfl⟩ := h
        obtain ⟨rx, ry⟩ := r
        obtain ⟨e1, e2, _⟩ := getMap_eq hr
        simp only [Option.getD_some, IState.push]
        rw [hw'] at hsl
        have hb : Bdy st.src (st.pos + len) := by
          rw [← hbl]; exact boundary_in_slice hsl
        have hb2 : Bdy st.src (st.pos + 2) := by
          have := boundary_in_slice (u := ['\\', '\n']) (v := run ++ rest2) (by simpa using hsl)
          have e1 : ('\\' : Char).utf8Size = 1 := by decide
          have e2 : ('\n' : Char).utf8Size = 1 := by decide
          simp only [byteLen, e1, e2] at this
          exact this
        refine tx_push hf hb (tx_fthN_plain (hctx.fth.bdy _ _ hf.bpos e1) (hctx.fth.bdy _ _ hb2 e2)
          (by intro t e; cases e) (by intro x y z e; cases e) (by intro mk l rem o c e; cases e)
          trivial trivial)
          (C05R.fi_not_textLike (by intro t e; cases e) (by intro mk l rem o c e; cases e)) ?_
        -- behind the blanks no blank stands
        intro hlt hca
        exfalso
        rw [← hbl] at hlt hca
        exact tx_no_space_at hsl hhead hlt hca
    · next sp hc =>
      obtain ⟨chr, w', hw', hmk, hnl⟩ := tx_escapeCore_special hc
      simp only [Bool.false_eq_true, if_false] at h
      split at h
      · simp at h
      · next r hr =>
        simp only [Except.ok.injEq, Prod.mk.injEq] at h; obtain ⟨rfl, rfl⟩ := h
        obtain ⟨rx, ry⟩ := r
        obtain ⟨e1, e2, _⟩ := getMap_eq hr
        simp only [Option.getD_some, IState.push]
        have hcut : Cut st.src st.pos (st.pos + byteLen sp.markup) sp.markup := by
          rw [hmk]
          exact C05R.fi_cut_of_slice_prefix (u := ['\\', chr]) (v := w') (by rw [hw'] at hsl; exact hsl)
        have hcut' : Cut st.src st.pos (st.pos + byteLen sp.markup) ('\\' :: [chr]) := by
          rw [← hmk]; exact hcut
        have hnl' : '\n' ∉ [chr] := by
          intro hm; simp only [List.mem_singleton] at hm; exact hnl hm.symm
        have hwi := tx_within_of_solid hcut' (by decide) (by decide) hnl'
        exact tx_push hf hcut.bdy_right (tx_fthN_special (hctx.fth.bdy _ _ hf.bpos e1)
          (hctx.fth.bdy _ _ hcut.bdy_right e2) (tx_sel_within hctx.fth hwi hcut e1 e2))
          (C05R.fi_not_textLike (by intro t e; cases e) (by intro mk l rem o c e; cases e))
          (fun _ _ => tx_anchored_of_cut hcut' (by decide) (by decide) hnl')

theorem tx_entChar_not_lf {t : List Char} (h : ∀ c ∈ t, isEntChar c = true) : '\n' ∉ t := by
  intro hm
  have := h _ hm
  revert this; decide

theorem tx_ruleEntity {src0 : List Char} {cfg : Cfg} {st st' : IState} {o : Option Nat}
    (hctx : CtxV src0 st.src st.srcmap) (hf : tx_FInv src0 st)
    (h : ruleEntity cfg st false = .ok (o, st')) :
    FIV src0 st.src st.srcmap st.posMax (st'.pos + o.getD 0) st'.children := by
  unfold ruleEntity at h
  split at h
  · simp at h
  · split at h
    · simp at h
    · split at h
      · simp only [Except.ok.injEq, Prod.mk.injEq] at h; obtain ⟨rfl, rfl⟩ := h; exact tx_none hf
      · split at h
        · simp at h
        · next suffix hsuf =>
          split at h
          · simp at h
          · simp only [Except.ok.injEq, Prod.mk.injEq] at h; obtain ⟨rfl, rfl⟩ := h
            exact tx_none hf
          · next sp hc =>
            obtain ⟨t, rest, hmk, hsfx, hent⟩ := entityCore_some hc
            simp only [Bool.false_eq_true, if_false] at h
            split at h
            · simp at h
            · next r hr =>
              simp only [Except.ok.injEq, Prod.mk.injEq] at h; obtain ⟨rfl, rfl⟩ := h
              obtain ⟨rx, ry⟩ := r
              obtain ⟨e1, e2, _⟩ := getMap_eq hr
              simp only [Option.getD_some, IState.push]
              have hcut : Cut st.src st.pos (st.pos + byteLen sp.markup) sp.markup :=
                C05R.fi_cut_of_slice_prefix (u := sp.markup) (v := rest)
                  (by rw [← hsfx]; exact liftOps_ok.mp hsuf)
              have hcut' : Cut st.src st.pos (st.pos + byteLen sp.markup) ('&' :: t) := by
                rw [← hmk]; exact hcut
              have hnl := tx_entChar_not_lf hent
              have hwi := tx_within_of_solid hcut' (by decide) (by decide) hnl
              exact tx_push hf hcut.bdy_right (tx_fthN_special (hctx.fth.bdy _ _ hf.bpos e1)
                (hctx.fth.bdy _ _ hcut.bdy_right e2) (tx_sel_within hctx.fth hwi hcut e1 e2))
                (C05R.fi_not_textLike (by intro t e; cases e) (by intro mk l rem o c e; cases e))
                (fun _ _ => tx_anchored_of_cut hcut' (by decide) (by decide) hnl)

/-! ## autolinks -/

/-- a node with one `Text` child -/
theorem tx_fthN_oneText {src0 : List Char} {v : Val} {a b x y : Nat} {t : List Char}
    (ha : Bdy src0 a) (hb : Bdy src0 b) (h1 : ∀ t, v ≠ .text t) (h2 : ∀ x y z, v ≠ .special x y z)
    (h3 : ∀ mk l rem o c, v ≠ .emphMarker mk l rem o c) (hx : Bdy src0 x) (hy : Bdy src0 y)
    (hs : isCode v = false → Sel src0 x y t) :
    FthNV src0 false (Node.mk v (some (a, b)) [Node.newText t (some (x, y))]) :=
  tx_fthN_plain ha hb h1 h2 h3 trivial ((tx_fthL_single _ _ _).mpr (tx_fthN_newText hx hy hs))

theorem tx_ruleAutolink {src0 : List Char} {st st' : IState} {o : Option Nat}
    (hctx : CtxV src0 st.src st.srcmap) (hf : tx_FInv src0 st)
    (h : ruleAutolink st false = .ok (o, st')) :
    FIV src0 st.src st.srcmap st.posMax (st'.pos + o.getD 0) st'.children := by
  unfold ruleAutolink at h
  split at h
  · simp at h
  · simp at h
  · next c rest hw =>
    have hsl := window_eq hw
    split at h
    · simp only [Except.ok.injEq, Prod.mk.injEq] at h; obtain ⟨rfl, rfl⟩ := h; exact tx_none hf
    · next hc =>
      have hc' : c = '<' := by simpa using hc
      subst hc'
      split at h
      · simp only [Except.ok.injEq, Prod.mk.injEq] at h; obtain ⟨rfl, rfl⟩ := h; exact tx_none hf
      · next p hscan =>
        obtain ⟨u, v, hr, hp⟩ := autolinkScan_spec hscan
        split at h
        · simp at h
        · next url hurl =>
          simp only at h
          split at h
          · simp only [Except.ok.injEq, Prod.mk.injEq] at h; obtain ⟨rfl, rfl⟩ := h
            exact tx_none hf
          · split at h
            · simp only [Except.ok.injEq, Prod.mk.injEq] at h; obtain ⟨rfl, rfl⟩ := h
              exact tx_none hf
            · simp only [Bool.false_eq_true, if_false] at h
              split at h
              · simp at h
              · next r hr' =>
                split at h
                · simp at h
                · next ri hri =>
                  simp only [Except.ok.injEq, Prod.mk.injEq] at h; obtain ⟨rfl, rfl⟩ := h
                  obtain ⟨rx, ry⟩ := r
                  obtain ⟨ix, iy⟩ := ri
                  obtain ⟨e1, e2, _⟩ := getMap_eq hr'
                  obtain ⟨f1, f2, _⟩ := getMap_eq hri
                  simp only [Option.getD_some, IState.push]
                  have e : st.pos + (p - st.pos) = p := by omega
                  rw [e]
                  have c1 : ('<' : Char).utf8Size = 1 := by decide
                  have c2 : ('>' : Char).utf8Size = 1 := by decide
                  have hbp : Bdy st.src p := by
                    have := boundary_in_slice (u := '<' :: u ++ ['>']) (v := v)
                      (by rw [hr] at hsl; simpa using hsl)
                    have hbl : byteLen ('<' :: u ++ ['>']) = p - st.pos := by
                      simp only [List.cons_append, byteLen, C05.byteLen_append, c1, c2]; omega
                    rw [hbl, e] at this; exact this
                  have hcut := (C05R.cut_iff_ops _ _ _ _).mp (liftOps_ok.mp hurl)
                  -- `<` anchors the url, `>` anchors what follows
                  have hlt1 : Cut st.src st.pos (st.pos + 1) ['<'] := by
                    have := C05R.fi_cut_of_slice_prefix (u := ['<']) (v := rest) hsl
                    simpa [byteLen, c1] using this
                  have ha1 : Anchored st.src (st.pos + 1) :=
                    tx_anchored_of_cut hlt1 (by decide) (by decide) (by simp)
                  have hgt : CharAt st.src (p - 1) '>' := by
                    have := tx_charAt_of_slice (u := '<' :: u) (x := '>') (v := v)
                      (by rw [hr] at hsl; simpa using hsl)
                    have hbl : st.pos + byteLen ('<' :: u) = p - 1 := by
                      simp only [byteLen, c1]; omega
                    rw [hbl] at this; exact this
                  have hsel : Sel src0 ix iy url := by
                    by_cases hn : '\n' ∈ url
                    · exact tx_sel_brk hctx.fth hcut hn f1 f2
                    · exact tx_sel_within hctx.fth (tx_within_of_anchored ha1 hcut hn) hcut f1 f2
                  exact tx_push hf hbp (tx_fthN_oneText (hctx.fth.bdy _ _ hf.bpos e1)
                    (hctx.fth.bdy _ _ hbp e2)
                    (by intro t e; cases e) (by intro x y z e; cases e)
                    (by intro mk l rem o c e; cases e) (hctx.fth.bdy _ _ hcut.bdy_left f1)
                    (hctx.fth.bdy _ _ hcut.bdy_right f2) (fun _ => hsel))
                    (C05R.fi_not_textLike (by intro t e; cases e) (by intro mk l rem o c e; cases e))
                    (fun _ _ => tx_anchored_of_charAt hgt (by omega) c2 (by decide) (by decide))

end MdIt.C05T
