/-
  The geometric invariant of the block pass (`Block.Geo2`, `Lemmas/C05InlineGeo.lean`; the claim about every
  placeholder table, `Block.PMapF`) lifted to the ten-rule engine of `Model/BlockH.lean`.

  As the other loop lemmas: `Block.tokLoop_geo2` is generic in the runner and applies through
  `BlockH.tokLoopG_eq`; the nine rules' `runRule_geo2` applies verbatim; new is `html_geo` (the html rule
  pushes a childless leaf with range `get_map(start, next_line - 1)` — the proof text of `Block.fence_geo`).
-/
import MdIt.Lemmas.PipelineH
import MdIt.Lemmas.C05InlineGeo
import MdIt.Lemmas.C05InlineSplice
import MdIt.Props.C05Inline

namespace MdIt.BlockH
open MdIt.Block
open MdIt.Lines (LineOffset)
open MdIt.Pipeline (InlNoRange)

theorem html_geo {P : InlP} {s s' : BState} {b : Bool} (h : htmlRule s false = .ok (b, s')) :
    KeepsGeo P s s' := by
  cases b with
  | false => rw [htmlRule_false_same h]; exact KeepsGeo.refl _ _
  | true =>
    obtain ⟨s1, nd, he, hc⟩ := htmlRule_ok h
    rcases Html.htmlBlockRule_ok he with ⟨h0, _⟩ | ⟨ind, lt, i, _, _, _, _, _, hmode⟩
    · cases h0
    · rcases hmode with ⟨hs, _⟩ | ⟨_, _, nl, content, mp, e1, r, hscan, rfl, _, hps, hmap, rfl⟩
      · cases hs
      · rcases hc with ⟨hn, _⟩ | ⟨n', hn, rfl⟩
        · cases hn
        · cases hn
          have hlt : s.line < nl := by
            split at hscan
            · injection hscan with hscan; subst hscan; simp
            · have := (Html.blockScan_bounds s i _ _ _ (Nat.le_refl _) hscan).1
              omega
          intro lo hg hs hk
          obtain ⟨hab, oa, ob, ha, hb, rfl⟩ := getMap_ok5 hmap
          obtain ⟨hle, rfl⟩ := psub_ok hps
          have ha' : s.offs[s.line]? = some oa := ha
          have hb' : s.offs[nl - 1]? = some ob := hb
          obtain ⟨g1, g2, g3, g4⟩ := hg.map_ok hab ha' hb'
          refine hk.push hg ha' hb' hab spanB_range (rangedB_leaf _ g2 g3 g4) (hs _ _ (Nat.le_refl _) ha').1
            g1 g2 (Nat.le_refl _) rfl rfl rfl ?_
          show nl - 1 < nl
          omega

theorem runRuleH_geo2 {src0 : List Char} {P : InlP} (hP : InlSpec2 src0 P) {cfg : Cfg} {tok : Tok} {test : Test}
    (hk : TokSpec tok) (hsh : TokGeo2 src0 P tok) (ht : TestPure test) (fuel : Nat) (r : RuleIdH)
    {s s' : BState} {b : Bool} (h : runRuleH cfg tok test fuel r s false = .ok (b, s'))
    (hl : s.line < s.lineMax) (hi : IndentOk s) : KeepsGeo2 src0 P s s' := by
  cases r with
  | base r => exact runRule_geo2 hP hk hsh ht fuel r h hl hi
  | html => exact (html_geo h).to2

theorem chain_geo2 {src0 : List Char} {P : InlP} {ι : Type} {run : ι → BState → Bool → Res} (hr : RunSpecG run)
    (hsh : ∀ r s b s', run r s false = .ok (b, s') → s.line < s.lineMax → IndentOk s → KeepsGeo2 src0 P s s') :
    ∀ (chain : List ι) (s : BState) (b : Bool) (s' : BState),
      runChainG run chain s false = .ok (b, s') → s.line < s.lineMax → IndentOk s → KeepsGeo2 src0 P s s' := by
  intro chain
  induction chain with
  | nil => intro s b s' h _ _; simp [runChainG] at h; rw [← h.2]; exact KeepsGeo2.refl _ _ _
  | cons r rs ih =>
    intro s b s' h hl hi
    simp only [runChainG] at h
    split at h
    · cases h
    · rename_i s1 h1
      cases h
      exact hsh _ _ _ _ h1 hl hi
    · rename_i s1 h1
      have := hr.false_same _ _ _ h1
      subst this
      exact ih _ _ _ h hl hi

/-- the tokenizer with the html rule keeps the strengthened invariant (paragraph rule in the chain) -/
theorem tokenizeH_geo2 {src0 : List Char} {P : InlP} (cfg : Cfg) (chain : List RuleIdH)
    (hpara : hasParaH chain = true) (hP : InlSpec2 src0 P) :
    ∀ fuel : Nat, TokGeo2 src0 P (tokenizeH cfg chain fuel) := by
  intro fuel
  induction fuel with
  | zero => intro s s' h; simp [tokenizeH, engineH] at h
  | succ f ih =>
    intro s s' h
    simp only [tokenizeH, engineH] at h
    rw [tokLoopG_eq] at h
    have hk := tokenizeH_tokSpec cfg chain f
    have ht := testRulesH_pure cfg chain f
    have hspec := runRuleH_spec (cfg := cfg) hk ht (f + 1)
    refine tokLoop_geo2 (cfg := oneCfg cfg) (chain_runSpec hspec chain)
      (fun _ s b s' h hl hi =>
        chain_geo2 hspec (fun r s b s' h hl hi => runRuleH_geo2 hP hk ih ht _ r h hl hi) chain s b s' h hl hi)
      ?_ _ _ _ _ h
    intro s b s' hc
    simp only [oneCfg, runChain_one] at hc
    exact runChainG_para _ _ _ _ (by simpa [hasParaH] using hpara) hc

/-- **the block tree with html blocks, with the strengthened claim about placeholders**
    (`Block.parseBlocks_geo2`) -/
theorem parseBlocksH_geo2 {P : InlP} {cfg : CfgH} {src : List Char} (hpara : hasParaH cfg.chain = true)
    (hP : InlSpec2 src P) {root : BNode} {refs : Refs.RefMap}
    (hsmall : 4 * Lines.byteLen src + 8 < 2147483648)
    (h : parseBlocksH cfg src = .ok (root, refs)) :
    root.range = some (0, Lines.byteLen src) ∧ RangedB P src root := by
  unfold parseBlocksH at h
  split at h
  · cases h
  · rename_i s hs
    simp only [Except.ok.injEq, Prod.mk.injEq] at h
    obtain ⟨rfl, _⟩ := h
    refine ⟨rfl, ?_⟩
    have hfr := (tokenizeH_spec cfg.base cfg.chain _ _ _ hs).frame
    have hg2 := geo2_fresh src hsmall .root []
    have hg := hg2.geo
    have hk := tokenizeH_geo2 cfg.base cfg.chain hpara hP _ _ _ hs 0 hg2
      (fun k o _ _ => ⟨Nat.zero_le _, fun _ _ => Nat.zero_le _⟩) (kidsOk_nil rfl 0)
    obtain ⟨⟨hi, hord, hbd⟩, hdeep⟩ := hk
    have hsrc : s.src = src := hfr.src
    rw [hsrc] at hdeep
    refine .mk _ (fun a b h => ?_) (fun h => by cases h) hdeep
    simp only [Option.some.injEq, Prod.mk.injEq] at h
    obtain ⟨rfl, rfl⟩ := h
    refine ⟨Nat.zero_le _, ⟨[], src, rfl, rfl⟩, ⟨src, [], by simp, rfl⟩, hord.widen (Nat.le_refl _) ?_⟩
    rcases hbd with hbd | ⟨e, o, he, hoe, hle⟩
    · omega
    · rw [hfr.offs] at hoe
      have := (hg.table _ _ hoe).bounds
      simp only [BState.fresh] at this
      omega

/-- **`docH_placeholder_tables`** (block level): with the paragraph rule in the ten-rule chain, within the
    `i32` bound, every ranged node of the block tree is proper and every placeholder WITHOUT range
    satisfies `Block.PMapF src` (well-formed monotone table, `Inline.MapOK` unless a tab was split — and no
    tab is split in a tab-free source —, content translated into the block's own range) -/
theorem parseBlocksH_placeholder_tables (cfg : CfgH) (src : List Char)
    (hsmall : 4 * Lines.byteLen src + 8 < 2147483648) (hpara : hasParaH cfg.chain = true)
    {root : BNode} {refs : Refs.RefMap} (hb : parseBlocksH cfg src = .ok (root, refs)) :
    RangedB (PMapF src) src root ∧ AllInl (fun c m => ∃ a b, PMapF src c m a b) root := by
  obtain ⟨hr, hg⟩ := parseBlocksH_geo2 hpara (inlSpec2_pmapF src) hsmall hb
  refine ⟨hg, hg.allInl (fun c m a b h => ⟨a, b, h⟩) ?_⟩
  intro c m _ hnone
  rw [hr] at hnone
  cases hnone

/-! ## placeholders have no range (`Block.parseBlocks_inlNoRange`) -/

theorem html_nr {s s' : BState} {b : Bool} (h : htmlRule s false = .ok (b, s')) : c05s_KeepsNR s s' := by
  cases b with
  | false => rw [htmlRule_false_same h]; exact fun hg => hg
  | true =>
    obtain ⟨n, l, _, rfl, _, _⟩ := htmlRule_true h
    exact fun hg => hg.push (c05s_nr_leaf _ _ (by simp [htmlNode, htmlKind]))

theorem runRuleH_nr {cfg : Cfg} {tok : Tok} {test : Test} (hk : TokSpec tok)
    (hsh : c05s_TokNR tok) (ht : TestPure test) (fuel : Nat) (r : RuleIdH) {s s' : BState} {b : Bool}
    (h : runRuleH cfg tok test fuel r s false = .ok (b, s')) (hl : s.line < s.lineMax) :
    c05s_KeepsNR s s' := by
  cases r with
  | base r => exact c05s_runRule_nr hk hsh ht fuel r h hl
  | html => exact html_nr h

theorem chain_nr {ι : Type} {run : ι → BState → Bool → Res} (hr : RunSpecG run)
    (hsh : ∀ r s b s', run r s false = .ok (b, s') → s.line < s.lineMax → c05s_KeepsNR s s') :
    ∀ (chain : List ι) (s : BState) (b : Bool) (s' : BState),
      runChainG run chain s false = .ok (b, s') → s.line < s.lineMax → c05s_KeepsNR s s' := by
  intro chain
  induction chain with
  | nil => intro s b s' h _; simp [runChainG] at h; rw [← h.2]; exact fun hg => hg
  | cons r rs ih =>
    intro s b s' h hl
    simp only [runChainG] at h
    split at h
    · cases h
    · rename_i s1 h1
      cases h
      exact hsh _ _ _ _ h1 hl
    · rename_i s1 h1
      have := hr.false_same _ _ _ h1
      subst this
      exact ih _ _ _ h hl

theorem tokenizeH_nr (cfg : Cfg) (chain : List RuleIdH) : ∀ fuel : Nat, c05s_TokNR (tokenizeH cfg chain fuel) := by
  intro fuel
  induction fuel with
  | zero => intro s s' h; simp [tokenizeH, engineH] at h
  | succ f ih =>
    intro s s' h
    simp only [tokenizeH, engineH] at h
    rw [tokLoopG_eq] at h
    have hk := tokenizeH_tokSpec cfg chain f
    have ht := testRulesH_pure cfg chain f
    have hspec := runRuleH_spec (cfg := cfg) hk ht (f + 1)
    exact c05s_tokLoop_nr (cfg := oneCfg cfg) (chain_runSpec hspec chain)
      (fun _ s b s' h hl => chain_nr hspec (fun r s b s' h hl => runRuleH_nr hk ih ht _ r h hl) chain s b s' h hl)
      _ _ _ _ h

/-- in every tree the ten-rule block parser returns an `InlineRoot` placeholder has no range -/
theorem parseBlocksH_inlNoRange {cfg : CfgH} {src : List Char} {root : BNode} {refs : Refs.RefMap}
    (h : parseBlocksH cfg src = .ok (root, refs)) : InlNoRange root := by
  unfold parseBlocksH at h
  split at h
  · cases h
  · rename_i s hs
    simp only [Except.ok.injEq, Prod.mk.injEq] at h
    obtain ⟨rfl, _⟩ := h
    have hfr := (tokenizeH_spec cfg.base cfg.chain _ _ _ hs).frame
    have hg := tokenizeH_nr cfg.base cfg.chain _ _ _ hs c05s_AllNR.nil
    have hk : s.nodeKind = .root := hfr.nodeKind
    refine c05s_nr_node ?_ hg
    rw [hk]; simp

end MdIt.BlockH
