/-
  Helper development for `Props/Inline.lean`: the induction on fuel that discharges the contracts
  of `InlineLink.lean` for the real `skipToken` / `tokLoop`.
-/
import MdIt.Lemmas.InlineLink

namespace MdIt.Inline
open MdIt.InlineOps (Srcmap getSourcePosFor getMap byteLen slice)

/-- fuel `tokenize` needs for a window of `L` bytes with `d` nesting levels left:
    `(L + 2) * (d + 1)` -/
def need (L : Nat) : Nat → Nat
  | 0 => L + 2
  | d + 1 => need L d + (L + 2)

theorem need_ge (L d : Nat) : L + d + 2 ≤ need L d := by
  induction d with
  | zero => simp [need]
  | succ d ih => simp only [need]; omega

theorem need_ge' (L : Nat) {d : Nat} (hd : 1 ≤ d) : L + d + 3 ≤ need L d := by
  cases d with
  | zero => omega
  | succ d => have := need_ge L d; simp only [need]; omega

theorem need_mono {L' L : Nat} (h : L' ≤ L) (d : Nat) : need L' d ≤ need L d := by
  induction d with
  | zero => simp only [need]; omega
  | succ d ih => simp only [need]; omega

theorem need_step {L' L : Nat} (h : L' < L) (d : Nat) : need L' d + 1 ≤ need L d := by
  induction d with
  | zero => simp only [need]; omega
  | succ d ih => simp only [need]; omega

theorem need_eq (L d : Nat) : need L d = (L + 2) * (d + 1) := by
  induction d with
  | zero => simp [need]
  | succ d ih => rw [need, ih, Nat.mul_succ (L + 2) (d + 1)]

theorem need_le_topFuel (cfg : Cfg) (src : List Char) (L : Nat) (hL : L ≤ byteLen src) (d : Nat)
    (hd : d ≤ cfg.maxNesting) : need L d ≤ topFuel cfg src := by
  rw [need_eq]
  unfold topFuel
  exact Nat.mul_le_mul (by omega) (by omega)

/-- the contracts hold for the real functions at every sufficient fuel -/
theorem contracts (cfg : Cfg) : ∀ fuel : Nat,
    (∀ st : IState, MemoInv st → st.pos < st.posMax →
      (st.posMax - st.pos) + (cfg.maxNesting - st.level) + 2 ≤ fuel →
      SkipSpec st (skipToken cfg fuel st)) ∧
    (∀ st : IState, MemoInv st → need (st.posMax - st.pos) (cfg.maxNesting - st.level) ≤ fuel →
      TokSpec st (tokLoop cfg fuel st.posMax st)) := by
  intro fuel
  induction fuel with
  | zero =>
    refine ⟨fun st _ _ h => by omega, fun st _ h => ?_⟩
    have := need_ge (st.posMax - st.pos) (cfg.maxNesting - st.level); omega
  | succ f ih =>
    obtain ⟨ihS, ihT⟩ := ih
    -- the callees at fuel `f` as hypotheses of the step lemmas
    have hSkipHyp : ∀ (lvl pm L : Nat), L + (cfg.maxNesting - lvl) + 2 ≤ f →
        SkipHyp (fun s => skipToken cfg f s) lvl pm L := by
      intro lvl pm L hf s hm hl hp hlt hw
      exact ihS s hm (by rw [hp]; exact hlt) (by rw [hp, hl]; omega)
    have hTokHyp : ∀ (lvl L : Nat), need L (cfg.maxNesting - lvl) ≤ f →
        TokHyp (fun s => tokLoop cfg f s.posMax s) lvl L := by
      intro lvl L hf s hm hl hw
      exact ihT s hm (by rw [hl]; exact Nat.le_trans (need_mono hw _) hf)
    constructor
    · -- skip_token
      intro st hm hlt hfuel
      unfold skipToken
      split
      · next x hx =>
        refine ⟨by simp, ?_⟩
        intro st' h
        simp only [Except.ok.injEq] at h; subst h
        exact ⟨⟨rfl, rfl, rfl, rfl, rfl⟩, ⟨rfl, rfl⟩, hm, hm _ _ (lookup_mem hx)⟩
      · split
        · next hlev =>
          exact skipStep_spec (L := st.posMax - st.pos) f st
            (hSkipHyp (st.level + 1) st.posMax (st.posMax - st.pos) (by omega)) hm (by omega) (by omega)
        · refine ⟨by simp, ?_⟩
          intro st' h
          simp only [Except.ok.injEq] at h; subst h
          exact ⟨⟨rfl, rfl, rfl, rfl, rfl⟩, ⟨rfl, rfl⟩, MemoInv.insert hm hlt, hlt⟩
    · -- tokenize
      intro st hm hfuel
      unfold tokLoop
      split
      · next hlt =>
        simp only
        have hge := need_ge (st.posMax - st.pos) (cfg.maxNesting - st.level)
        have hstep := tokStep_spec (cfg := cfg) (skip := fun s => skipToken cfg f s)
          (tok := fun s => tokLoop cfg f s.posMax s) (L := st.posMax - st.pos) f st
          (fun hlev => hSkipHyp st.level st.posMax (st.posMax - st.pos) (by
            have := need_ge' (st.posMax - st.pos) (d := cfg.maxNesting - st.level) (by omega)
            omega))
          (fun hlev => hTokHyp (st.level + 1) (st.posMax - st.pos) (by
            have : cfg.maxNesting - st.level = (cfg.maxNesting - (st.level + 1)) + 1 := by omega
            rw [this, need] at hfuel
            omega))
          hm (by omega) (by omega)
        split
        · next e he =>
          refine ⟨?_, by intro st' h; simp at h⟩
          intro h; simp only [Except.error.injEq] at h; subst h; exact hstep.1 he
        · next st1 he =>
          obtain ⟨a, b, c⟩ := hstep.2 st1 he
          have hrec := ihT st1 b (by
            rw [a.posMax, a.level]
            have := need_step (L' := st.posMax - st1.pos) (L := st.posMax - st.pos) (by omega)
              (cfg.maxNesting - st.level)
            omega)
          rw [a.posMax] at hrec
          refine ⟨hrec.noFuel, ?_⟩
          intro st' h
          obtain ⟨a', b'⟩ := hrec.ok st' h
          exact ⟨a.trans a', b'⟩
      · refine ⟨by simp, ?_⟩
        intro st' h
        simp only [Except.ok.injEq] at h; subst h
        exact ⟨Frame.refl _, hm⟩

end MdIt.Inline
