/-
  C10 with the sourcepos plugin, block simulation part 4: the chain, the tokenizer loop and the fuel
  induction in lock step on `LX`-related states — a copy of `MdIt/Lemmas/C10DocEngine.lean` for an
  offset relation that is only closed under shifts inside a line.
-/
import MdIt.Lemmas.C10SourceposSimLeaf
import MdIt.Lemmas.C10SourceposSimPara
import MdIt.Lemmas.C10SourceposSimQuote
import MdIt.Lemmas.C10SourceposSimList

namespace MdIt.Block.LX
open MdIt.Block.LE
open MdIt.Lines (LineOffset)
variable {ρ : Nat → Nat → Prop} {G : Geo}


theorem runRule_sim (cfg : Cfg) (C : Ctx ρ G) {tok₁ tok₂ : Tok} (TK : TokSim ρ G tok₁ tok₂) {test₁ test₂ : Test}
    (TS : TestSim ρ G test₁ test₂) {f₁ f₂ : Nat} (hf : f₁ ≤ f₂) (r : RuleId) {s₁ s₂ : BState}
    (S : SRel ρ G s₁ s₂) (silent : Bool) :
    FRel (ResRel ρ G) (runRule cfg tok₁ test₁ f₁ r s₁ silent) (runRule cfg tok₂ test₂ f₂ r s₂ silent) := by
  cases r <;> simp only [runRule]
  · exact code_sim C S silent
  · exact fence_sim C S silent
  · exact blockquote_sim C TK TS hf S silent
  · exact hr_sim C S silent
  · exact list_sim C TK TS hf S silent
  · exact reference_sim cfg C TS hf S silent
  · exact heading_sim C S silent
  · exact lheading_sim C TS hf S silent
  · exact paragraph_sim C TS hf S silent

/-- what `runChain_sim` needs of the two rule runners -/
def RunSim (ρ : Nat → Nat → Prop) (G : Geo) (run₁ run₂ : RuleId → BState → Bool → Res) : Prop :=
  ∀ r s₁ s₂ b, SRel ρ G s₁ s₂ → FRel (ResRel ρ G) (run₁ r s₁ b) (run₂ r s₂ b)

theorem runChain_sim {run₁ run₂ : RuleId → BState → Bool → Res} (R : RunSim ρ G run₁ run₂) :
    ∀ (chain : List RuleId) (s₁ s₂ : BState) (b : Bool), SRel ρ G s₁ s₂ →
      FRel (ResRel ρ G) (runChain run₁ chain s₁ b) (runChain run₂ chain s₂ b) := by
  intro chain
  induction chain with
  | nil => intro s₁ s₂ b S; exact frel_ok ⟨rfl, S⟩
  | cons r rs ih =>
    intro s₁ s₂ b S
    simp only [runChain]
    rcases R r s₁ s₂ b S with h | ⟨x, y, h1, h2, hv, hs⟩ | ⟨e, h1, h2⟩
    · rw [h]; exact frel_fuel _
    · rw [h1, h2]
      obtain ⟨v₁, t₁⟩ := x
      obtain ⟨v₂, t₂⟩ := y
      simp only at hv hs
      subst hv
      cases v₁ with
      | true => exact frel_ok ⟨rfl, hs⟩
      | false => exact ih t₁ t₂ b hs
    · rw [h1, h2]; exact frel_err _

theorem afterChain_sim (_C : Ctx ρ G) {s₁ s₂ : BState} (S : SRel ρ G s₁ s₂) (ok : Bool) (prev : Nat) :
    FRel (SRel ρ G) (afterChain ok s₁ prev) (afterChain ok s₂ prev) := by
  unfold afterChain
  rw [S.line, S.getLine]
  split
  · split
    · exact frel_pure S
    · exact frel_err _
  · refine frel_bind_same _ ?_
    intro l _
    refine frel_bind (S.off _) ?_
    intro o₁ o₂ he
    refine frel_pure ?_
    srelx_fields S
    exact S.children.push (nrel_inline (MRel.single he.first))

/-- side 2 is side 1 with another source, table and children -/
theorem SRel.shape {s₁ s₂ : BState} (S : SRel ρ G s₁ s₂) :
    ∃ a b c, s₂ = { s₁ with src := a, offs := b, children := c } := by
  refine ⟨s₂.src, s₂.offs, s₂.children, ?_⟩
  cases s₂
  have h1 := S.blkIndent; have h2 := S.line; have h3 := S.lineMax; have h4 := S.tight
  have h5 := S.listIndent; have h6 := S.level; have h7 := S.nodeKind; have h8 := S.refs
  simp only at h1 h2 h3 h4 h5 h6 h7 h8
  simp only [h1, h2, h3, h4, h5, h6, h7, h8]

theorem tokLoop_sim (cfg : Cfg) (C : Ctx ρ G) {run₁ run₂ : RuleId → BState → Bool → Res} (R : RunSim ρ G run₁ run₂) :
    ∀ (f₁ f₂ : Nat) (he : Bool) (s₁ s₂ : BState), f₁ ≤ f₂ → SRel ρ G s₁ s₂ →
      FRel (SRel ρ G) (tokLoop cfg run₁ f₁ he s₁) (tokLoop cfg run₂ f₂ he s₂) := by
  intro f₁
  induction f₁ with
  | zero => intro f₂ he s₁ s₂ _ _; exact frel_fuel _
  | succ f ih =>
    intro f₂ he s₁ s₂ hf S
    obtain ⟨g, rfl⟩ : ∃ g, f₂ = g + 1 := ⟨f₂ - 1, by omega⟩
    have hskip := S.skipEmpty s₁.lineMax s₁.line
    obtain ⟨src₂, offs₂, ch₂, rfl⟩ := S.shape
    simp only at hskip
    simp only [tokLoop]
    rw [hskip]
    split
    · exact frel_ok S
    have S1 : SRel ρ G { s₁ with line := Lines.skipEmptyLines s₁.offs s₁.lineMax s₁.line }
        { s₁ with src := src₂, offs := offs₂, children := ch₂,
                  line := Lines.skipEmptyLines s₁.offs s₁.lineMax s₁.line } := S.withLine _
    split
    · exact frel_ok S1
    rw [S1.lineIndent]
    refine frel_bind_same _ ?_
    intro ind _
    split
    · exact frel_ok S1
    split
    · exact frel_ok (S.withLine _)
    refine frel_bind (runChain_sim R cfg.chain _ _ false S1) ?_
    intro p₁ p₂ hp
    obtain ⟨ok₁, t₁⟩ := p₁
    obtain ⟨ok₂, t₂⟩ := p₂
    obtain ⟨hok, St⟩ := hp
    simp only at hok St ⊢
    subst hok
    refine frel_bind (afterChain_sim C St ok₁ _) ?_
    intro u₁ u₂ Su
    obtain ⟨a, b, c, rfl⟩ := Su.shape
    simp only
    refine frel_bind_same _ ?_
    intro l1 _
    have Sv : SRel ρ G { u₁ with tight := !he } { u₁ with src := a, offs := b, children := c, tight := !he } := by
      srelx_fields Su
      exact Su.children
    rw [Sv.isEmpty, Sv.isEmpty]
    split
    · exact ih g true _ _ (by omega) (Sv.withLine _)
    · exact ih g _ _ _ (by omega) Sv

theorem engine_sim (cfg : Cfg) (C : Ctx ρ G) : ∀ (f₁ f₂ : Nat), f₁ ≤ f₂ →
    TokSim ρ G (tokenize cfg f₁) (tokenize cfg f₂) ∧ TestSim ρ G (testRules cfg f₁) (testRules cfg f₂) := by
  intro f₁
  induction f₁ with
  | zero =>
    intro f₂ _
    exact ⟨fun s₁ s₂ _ => frel_fuel _, fun s₁ s₂ _ => frel_fuel _⟩
  | succ f ih =>
    intro f₂ hf
    obtain ⟨g, rfl⟩ : ∃ g, f₂ = g + 1 := ⟨f₂ - 1, by omega⟩
    obtain ⟨TK, TS⟩ := ih g (by omega)
    have R : RunSim ρ G (runRule cfg (tokenize cfg f) (testRules cfg f) (f + 1))
        (runRule cfg (tokenize cfg g) (testRules cfg g) (g + 1)) :=
      fun r s₁ s₂ b S => runRule_sim cfg C TK TS (by omega) r S b
    constructor
    · intro s₁ s₂ S
      simp only [tokenize, engine]
      exact tokLoop_sim cfg C R _ _ _ _ _ (by omega) S
    · intro s₁ s₂ S
      simp only [testRules, engine]
      exact runChain_sim R _ _ _ _ S

/-- **the block tokenizer on related states, side 2 with at least as much fuel** -/
theorem tokenize_sim (cfg : Cfg) (C : Ctx ρ G) {f₁ f₂ : Nat} (hf : f₁ ≤ f₂) {s₁ s₂ : BState}
    (S : SRel ρ G s₁ s₂) : FRel (SRel ρ G) (tokenize cfg f₁ s₁) (tokenize cfg f₂ s₂) :=
  (engine_sim cfg C f₁ f₂ hf).1 s₁ s₂ S

end MdIt.Block.LX
