/-
  Helper development for `Props/InlineTotal.lean`: the inline tokenizer with a GUARDED memo.

  `tokLoopG cfg g` / `skipTokenG cfg g` are `tokLoop cfg` / `skipToken cfg` (`Model/Inline.lean`) with
  ONE extra test when `g = true`: a memo hit of `skip_token` whose stored end position lies BEYOND
  the current `pos_max` stops the run (reported as `Panic.fuel`, the non-Rust outcome) instead of
  being followed.  With `g = false` they are the model functions (`tokLoopG_false`,
  `skipTokenG_false` in `InlineTotalMono.lean`).  They are a specification device only (never run
  against the crate): `Props/InlineTotal.lean` proves that the guarded tokenizer never panics, i.e.
  that a memo hit beyond `pos_max` is the ONLY way the inline pass can panic.
-/
import MdIt.Props.Inline

namespace MdIt.Inline
open MdIt.InlineOps (Srcmap getSourcePosFor getMap byteLen slice)

mutual
/-- `tokLoop` over the guarded `skip_token` -/
def tokLoopG (cfg : Cfg) (g : Bool) : Nat → Nat → IState → Except Panic IState
  | fuel, end_, st =>
    if st.pos < end_ then
      match fuel with
      | 0 => .error .fuel
      | fuel + 1 =>
        match tokStep cfg (fun s => skipTokenG cfg g fuel s) (fun s => tokLoopG cfg g fuel s.posMax s)
            fuel st with
        | .error e => .error e
        | .ok st' => tokLoopG cfg g fuel end_ st'
    else .ok st
/-- `skipToken` with the guard on memo hits -/
def skipTokenG (cfg : Cfg) (g : Bool) : Nat → IState → Except Panic IState
  | 0, _ => .error .fuel
  | fuel + 1, st =>
    match st.cache.lookup st.pos with
    | some x =>
      -- the guard: a memoised end beyond the current `pos_max`
      if g = true ∧ st.posMax < x then .error .fuel else .ok { st with pos := x }
    | none =>
      if st.level < cfg.maxNesting then
        skipStep cfg (fun s => skipTokenG cfg g fuel s) (fun s => tokLoopG cfg g fuel s.posMax s) fuel st
      else
        .ok { st with pos := st.posMax, cache := cacheInsert st.cache st.pos st.posMax }
end

/-- `parseInline` over the guarded tokenizer -/
def parseInlineG (cfg : Cfg) (content : List Char) (mapping : Srcmap) : Except Panic (List Node) :=
  match tokLoopG cfg true (topFuel cfg content) (IState.init content mapping).posMax
      (IState.init content mapping) with
  | .error e => .error e
  | .ok st => .ok st.children

/-- the executable memo check: the guarded run completes (no memo hit beyond `pos_max` on the way) -/
def memoSafe (cfg : Cfg) (content : List Char) (mapping : Srcmap) : Bool :=
  match parseInlineG cfg content mapping with
  | .ok _ => true
  | .error _ => false

/-- the result is not a Rust panic (it is a value, or the non-Rust outcome `Panic.fuel`) -/
def NoRust {α : Type} (r : Except Panic α) : Prop := ∀ p, r ≠ .error (.rust p)

theorem NoRust.ok {α : Type} (a : α) : NoRust (Except.ok a : Except Panic α) := by intro p h; cases h

theorem NoRust.fuel {α : Type} : NoRust (Except.error Panic.fuel : Except Panic α) := by
  intro p h; cases h

end MdIt.Inline
