/-
  Helper development for `Props/C16Doc.lean`, part 3a: `parse_link` in the TOP frame against the witness
  of a memo entry.  The copy of `Inline.parseLinkL2_core` (`Lemmas/MemoSafeLamImage.lean`) for a real state
  whose `pos_max` IS the `pos_max` of the witness: nothing is cut, the walks over the memo are the same
  walks (`witness_summary`, `parseLink_hits`), so no frame invariant is needed at all.
-/
import MdIt.Lemmas.C16DocRun

namespace MdIt.Inline.ES.C16Doc
open MdIt.Inline
open MdIt.InlineOps (Srcmap getSourcePosFor getMap byteLen slice)

set_option maxHeartbeats 400000 in
/-- **L2 for `parse_link` under the same `pos_max`**: the witness `w` ran `parse_link` (look-ahead) at the
    position of the state `s` — same text, same `pos_max` — with result `r0`, and the memo of `s` extends
    the memo the witness returned.  Then `parse_link` at `s`, over ANY `skip_token` that follows memo
    hits, at any fuel `n`, is a fixed result `R` that leaves the state alone and, unless it is an error
    (out of fuel), is the witness's result. -/
theorem parseLinkL2_top {cfg : Cfg} (offset : Nat) (en : Bool)
    (skip0 : IState → Except Panic IState) (f0 : Nat) (w w1 : IState)
    (r0 : Option LinkRes) (s : IState)
    (hq : CalmFn skip0) (hs : SkipHypT skip0) (hg : SkipGrowHyp skip0)
    (hiw : LInv w) (hwsrc : w.src = s.src) (hwmax : w.posMax = s.posMax) (hwpos : w.pos = s.pos)
    (hwit : parseLink cfg skip0 f0 w (w.pos + offset) en = .ok (r0, w1))
    (hmono : LookupMono w1.cache s.cache)
    (hf : ∀ k v, (k, v) ∈ s.cache → k < v)
    (hb1 : Boundary s.src (s.pos + offset + 1)) (hle1 : s.pos + offset + 1 ≤ s.posMax) (n : Nat) :
    ∃ R : Except Panic (Option LinkRes),
      (∀ skip, FollowsHits skip →
        parseLink cfg skip n s (s.pos + offset) en =
          match R with
          | .ok r => .ok (r, s)
          | .error e => .error e) ∧
      (∀ r, R = .ok r → r = r0) := by
  rw [hwpos] at hwit
  obtain ⟨r1, x1, hw1, hWS⟩ := witness_summary (cfg := cfg) hq hs hg f0 w (s.pos + offset) en hiw
    (by rw [hwsrc]; exact hb1) (by rw [hwmax]; exact hle1) hwit hmono
  rw [hwsrc, hwmax] at hw1 hWS
  have hhits : ∀ skip, FollowsHits skip →
      parseLink cfg skip n s (s.pos + offset) en = parseLinkP cfg n s (s.pos + offset) en := by
    intro skip hsk
    apply parseLink_hits hsk s (s.pos + offset) en n hw1
    intro lq t hsl hlab htl
    have hd := labelOf_some hlab
    obtain ⟨hr1, hx1⟩ := pwalk_det hf hw1 hd
    subst hx1
    rcases hWS with ⟨h, _⟩ | ⟨_, il, htl0, _⟩ | ⟨_, _, w0, hw0, hcase⟩
    · exact absurd hr1 h
    · rw [htl] at htl0; cases htl0
    · rw [hsl] at hw0
      simp only [Except.ok.injEq] at hw0
      subst hw0
      rcases hcase with ⟨hne, _⟩ | ⟨_, r2, x2, hw2, _⟩
      · exact absurd rfl (hne t)
      · exact ⟨f0, r2, x2, hw2⟩
  refine ⟨match parseLinkP cfg n s (s.pos + offset) en with
    | .ok (r, _) => .ok r
    | .error e => .error e, ?_, ?_⟩
  · intro skip hsk
    rw [hhits skip hsk]
    cases hP : parseLinkP cfg n s (s.pos + offset) en with
    | error e => rfl
    | ok t =>
      obtain ⟨r, s'⟩ := t
      have := parseLinkP_state hP
      subst this
      rfl
  · intro r hR
    cases hP : parseLinkP cfg n s (s.pos + offset) en with
    | error e => rw [hP] at hR; cases hR
    | ok t =>
      obtain ⟨r', s'⟩ := t
      rw [hP] at hR
      simp only [Except.ok.injEq] at hR
      subst hR
      unfold parseLinkP at hP
      cases hlab : labelOf (pwalk s.src s.posMax s.cache en n 1 (s.pos + offset + 1)) with
      | error e => rw [hlab] at hP; simp at hP
      | ok lab =>
        rw [hlab] at hP
        cases lab with
        | none =>
          simp only [Except.ok.injEq, Prod.mk.injEq] at hP
          obtain ⟨rfl, _⟩ := hP
          obtain ⟨ra, xa, hda, hna⟩ := labelOf_none hlab
          obtain ⟨rfl, rfl⟩ := pwalk_det hf hw1 hda
          rcases hWS with ⟨_, h0⟩ | ⟨h, _⟩ | ⟨h, _⟩
          · exact h0.symm
          · exact absurd h hna
          · exact absurd h hna
        | some lq =>
          have hd := labelOf_some hlab
          obtain ⟨hr1, hx1⟩ := pwalk_det hf hw1 hd
          subst hx1
          simp only at hP
          cases htl : tailOf cfg s.src (x1 + 1) s.posMax with
          | error e => rw [htl] at hP; simp at hP
          | ok tl =>
            rw [htl] at hP
            cases tl with
            | some il =>
              simp only [Except.ok.injEq, Prod.mk.injEq] at hP
              obtain ⟨rfl, _⟩ := hP
              rcases hWS with ⟨h, _⟩ | ⟨_, il0, htl0, h0⟩ | ⟨_, htl0, _⟩
              · exact absurd hr1 h
              · rw [htl] at htl0
                simp only [Except.ok.injEq, Option.some.injEq] at htl0
                subst htl0
                exact h0.symm
              · rw [htl] at htl0; cases htl0
            | none =>
              simp only at hP
              rcases hWS with ⟨h, _⟩ | ⟨_, il0, htl0, h0⟩ | ⟨_, htl0, w0, hw0, hcase⟩
              · exact absurd hr1 h
              · rw [htl] at htl0; cases htl0
              · cases hsl : slice s.src (x1 + 1) s.posMax with
                | error e => rw [hsl] at hP; simp [liftOps, liftR] at hP
                | ok wr =>
                  rw [hsl] at hP
                  simp only [liftOps, liftR] at hP
                  rw [hsl] at hw0
                  simp only [Except.ok.injEq] at hw0
                  subst hw0
                  by_cases hbr : ∃ t, wr = '[' :: t
                  · obtain ⟨t, rfl⟩ := hbr
                    rcases hcase with ⟨hne, _⟩ | ⟨_, r2, x2, hw2, hc2⟩
                    · exact absurd rfl (hne t)
                    · simp only [refSecondP] at hP
                      cases hlab2 : labelOf (pwalk s.src s.posMax s.cache false n 1 (x1 + 1 + 1)) with
                      | error e => rw [hlab2] at hP; simp at hP
                      | ok lab2 =>
                        rw [hlab2] at hP
                        cases lab2 with
                        | none =>
                          simp only at hP
                          obtain ⟨rb, xb, hdb, hnb⟩ := labelOf_none hlab2
                          obtain ⟨rfl, rfl⟩ := pwalk_det hf hw2 hdb
                          rcases hc2 with ⟨h, _⟩ | ⟨_, hfin⟩
                          · exact absurd h hnb
                          · rw [hfin] at hP
                            simp only [Except.ok.injEq, Prod.mk.injEq] at hP
                            exact hP.1.symm
                        | some xx =>
                          have hd2 := labelOf_some hlab2
                          obtain ⟨hr2, hx2⟩ := pwalk_det hf hw2 hd2
                          subst hx2
                          simp only at hP
                          rcases hc2 with ⟨_, l, hl, hfin⟩ | ⟨h, _⟩
                          · rw [hl] at hP
                            simp only [liftOps, liftR] at hP
                            rw [hfin] at hP
                            simp only [Except.ok.injEq, Prod.mk.injEq] at hP
                            exact hP.1.symm
                          · exact absurd hr2 h
                  · rcases hcase with ⟨_, hfin⟩ | ⟨h, _⟩
                    · have hsec : refSecondP s n x1 wr = .ok (none, x1 + 1, s) := by
                        unfold refSecondP
                        split
                        · exact absurd ⟨_, rfl⟩ hbr
                        · rfl
                      rw [hsec] at hP
                      simp only at hP
                      rw [hfin] at hP
                      simp only [Except.ok.injEq, Prod.mk.injEq] at hP
                      exact hP.1.symm
                    · exact absurd h hbr

end MdIt.Inline.ES.C16Doc
