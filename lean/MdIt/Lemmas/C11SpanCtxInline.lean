/-
  C11, code SPANS, paragraph lines IN FRONT OF the opening line and BEHIND the closing line — INLINE level
  (`Props/C11SpanCtx.lean`, part 2).

  `C11M.parseInline_raw` runs the inline parser on `pre ++ `ᵏ⁺¹ R `ᵏ⁺¹ ++ post` with `pre`, `post` plain text — no
  character of the text rule's stop set, so no line feed.  Here `pre` and `post` are plain LINES joined by line feeds
  (`docOf As`, `docOf Bs`; `SoftOk`: every piece plain, no piece in front of a line feed ends with a space — no hard
  break, nothing to pop from the trailing text —, no blank behind a line feed — nothing for the `newline` rule to
  skip).  One more kind of iteration in the tokenizer loop: at a line feed the text rule answers `None`, the
  `newline` rule (second in the chain) pushes a `Softbreak` node over the line feed (`tokLoop_newline`).

    `tokLoop_lines`      the loop over `docOf As`: text, break, text, …, text (`linesInl`)
    `parseInline_mid`    the inline parser on `docOf As ++ `ᵏ⁺¹ R `ᵏ⁺¹ ++ docOf Bs`, any table with a total translation
-/
import MdIt.Lemmas.C11SpanMultiInline
import MdIt.Lemmas.C11SpanMultiDefs
set_option linter.unusedSimpArgs false
set_option linter.unusedVariables false

namespace MdIt.C11X
open MdIt.Inline MdIt.C11M
open MdIt.Block (docOf)
open MdIt.InlineOps (Srcmap getSourcePosFor getMap byteLen slice)
open MdIt.C05 (byteLen_append slice_ok_iff)
open MdIt.C11S (PlainTxt QuietTick NoTrailText noTrailText_nil noTrailText_snoc splitRun_plain runRule_quiet_tick
  firstRule_quiet tokLoop_step tokLoop_done tick_stop)

/-! ## 1. vocabulary -/

/-- plain lines joined by line feeds, followed by `b`: every piece plain text; a piece in front of a line feed does
    not end with a space; what follows a line feed does not start with a blank -/
def SoftOk : List (List Char) → List Char → Prop
  | [], _ => True
  | [A], _ => PlainTxt A
  | A :: B :: r, b =>
    PlainTxt A ∧ A.getLast? ≠ some ' ' ∧ (∀ ch ∈ (docOf (B :: r) ++ b).head?, isSpTab ch = false) ∧ SoftOk (B :: r) b

instance (s : List Char) : Decidable (PlainTxt s) := by unfold PlainTxt; infer_instance

instance : ∀ (As : List (List Char)) (b : List Char), Decidable (SoftOk As b)
  | [], _ => isTrue trivial
  | [A], _ => by unfold SoftOk; infer_instance
  | A :: B :: r, b => by
    have := instDecidableSoftOk (B :: r) b
    unfold SoftOk; infer_instance

/-- the `Softbreak` node over the line feed at inline offset `p` -/
def brkNode (tr : Nat → Nat) (p : Nat) : Node := Node.leaf .softbreak (some (tr p, tr (p + 1)))

/-- the inline nodes of the lines `As` from inline offset `p`: text (none for an empty piece), break, text, … -/
def linesInl (tr : Nat → Nat) : Nat → List (List Char) → List Node
  | _, [] => []
  | p, [A] => textNodesT tr p A
  | p, A :: B :: r => textNodesT tr p A ++ brkNode tr (p + byteLen A) :: linesInl tr (p + byteLen A + 1) (B :: r)

theorem lf_stop : '\n' ∈ Entity.textStop := by decide

theorem docOf_cons2 (A B : List Char) (r : List (List Char)) : docOf (A :: B :: r) = A ++ '\n' :: docOf (B :: r) := rfl

/-! ## 2. the rules at a line feed -/

theorem ruleText_stopT {st : IState} {c : List Char} {tr : Nat → Nat} (h : OnT st c tr) (a b : List Char) (ch : Char)
    (hc : c = a ++ ch :: b) (hp : st.pos = byteLen a) (hs : ch ∈ Entity.textStop) (silent : Bool) :
    ruleText st silent = .ok (none, st) := by
  have hw := h.window a (ch :: b) hc hp
  unfold ruleText
  rw [hw]
  simp [Entity.splitRun, hs, byteLen]

/-- no space at the end of the trailing text: nothing for the `newline` rule to pop -/
theorem tailSpaces_fresh (tr : Nat → Nat) (cs : List Node) (hnt : NoTrailText cs) (p : Nat) (A : List Char)
    (hA : A.getLast? ≠ some ' ') : tailSpaces (trailingTextGet (cs ++ textNodesT tr p A)) = 0 := by
  unfold textNodesT
  split
  · rw [List.append_nil]
    unfold trailingTextGet
    rcases popLast_spec cs with ⟨h0, _⟩ | ⟨i, l, h1, h2⟩
    · rw [h0]; rfl
    · rw [h1]
      have := hnt i l h2
      simp [this, tailSpaces]
  · rename_i hne
    unfold trailingTextGet
    rcases popLast_spec (cs ++ [Node.newText A (some (tr p, tr (p + byteLen A)))]) with ⟨h0, h0'⟩ | ⟨i, l, h1, h2⟩
    · simp at h0'
    · rw [h1]
      have := List.append_inj' h2 rfl
      simp only [List.cons.injEq, and_true] at this
      rw [← this.2]
      simp only [Node.isText, Node.newText, if_true, Node.content]
      unfold tailSpaces
      obtain ⟨init, last, hi⟩ : ∃ init last, A = init ++ [last] := by
        rcases List.eq_nil_or_concat A with h | ⟨i', l', h⟩
        · exact absurd h hne
        · exact ⟨i', l', by simpa using h⟩
      have hl : last ≠ ' ' := by
        intro e; apply hA; rw [hi, List.getLast?_concat, e]
      rw [hi]
      simp [List.takeWhile, hl]

/-- **the `newline` rule at a soft line break**: `Some(1)`, a `Softbreak` node over the line feed -/
theorem ruleNewline_soft {st : IState} {c : List Char} {tr : Nat → Nat} (h : OnT st c tr) (a b : List Char)
    (hc : c = a ++ '\n' :: b) (hp : st.pos = byteLen a) (hb : ∀ ch ∈ b.head?, isSpTab ch = false)
    (htail : tailSpaces (trailingTextGet st.children) = 0) :
    ruleNewline st false = .ok (some 1, { st with children := st.children ++ [brkNode tr (byteLen a)] }) := by
  have hw := h.window a ('\n' :: b) hc hp
  have htw : (b.takeWhile isSpTab).length = 0 := by
    cases b with
    | nil => rfl
    | cons d t => simp [List.takeWhile, hb d (by simp)]
  unfold ruleNewline
  rw [hw]
  simp only [ne_eq, not_true_eq_false, if_false, Bool.false_eq_true, htail, trailingTextPop, if_true, htw, Nat.add_zero,
    Nat.sub_zero, Nat.not_lt_zero]
  rw [h.getMap (by omega), hp]
  simp [brkNode]

/-! ## 3. the tokenizer loop over plain lines -/

/-- the iteration at a line feed: the text rule answers `None`, the `newline` rule pushes the break -/
theorem tokLoop_newline (cfg : Cfg) (hmn : 0 < cfg.maxNesting) (rest : List RuleId)
    (hchain : cfg.chain = .text :: .newline :: rest)
    {st : IState} {c : List Char} {tr : Nat → Nat} (h : OnT st c tr) (a b : List Char)
    (hc : c = a ++ '\n' :: b) (hp : st.pos = byteLen a) (hb : ∀ ch ∈ b.head?, isSpTab ch = false)
    (htail : tailSpaces (trailingTextGet st.children) = 0) (F : Nat) :
    tokLoop cfg (F + 1) (byteLen c) st =
      tokLoop cfg F (byteLen c) { st with children := st.children ++ [brkNode tr (byteLen a)], pos := byteLen a + 1 } := by
  have hlt : st.pos < byteLen c := by
    rw [hp, hc, byteLen_append]
    simp only [byteLen, show '\n'.utf8Size = 1 by decide]
    omega
  rw [tokLoop_step cfg F (byteLen c) hlt
    (st' := { st with children := st.children ++ [brkNode tr (byteLen a)], pos := byteLen a + 1 })]
  have hl : st.level < cfg.maxNesting := by rw [h.level]; exact hmn
  unfold tokStep
  simp only [hl, if_true, hchain, firstRule, runRule, ruleText_stopT h a b '\n' hc hp lf_stop false,
    ruleNewline_soft h a b hc hp hb htail, liftR, hp]

theorem byteLen_docOf_cons2 (A B : List Char) (r : List (List Char)) :
    byteLen (docOf (A :: B :: r)) = byteLen A + 1 + byteLen (docOf (B :: r)) := by
  rw [docOf_cons2, byteLen_append]
  simp only [byteLen, show '\n'.utf8Size = 1 by decide]
  omega

/-- **the loop over plain lines**: `text, break, text, …, text` -/
theorem tokLoop_lines (cfg : Cfg) (hmn : 0 < cfg.maxNesting) (rest : List RuleId)
    (hchain : cfg.chain = .text :: .newline :: rest) {c : List Char} {tr : Nat → Nat} :
    ∀ (As : List (List Char)) (a b : List Char) (st : IState), OnT st c tr → As ≠ [] →
      c = a ++ docOf As ++ b → st.pos = byteLen a → SoftOk As b →
      (∀ ch ∈ b.head?, ch ∈ Entity.textStop) → NoTrailText st.children →
      ∀ F, 2 * As.length ≤ F →
      ∃ F', F ≤ F' + 2 * As.length ∧ tokLoop cfg F (byteLen c) st =
        tokLoop cfg F' (byteLen c) { st with children := st.children ++ linesInl tr (byteLen a) As,
                                              pos := byteLen a + byteLen (docOf As) }
  | [], _, _, _, _, hne, _, _, _, _, _, _, _ => absurd rfl hne
  | [A], a, b, st, h, _, hc, hp, hso, hb, hnt, F, hF => by
    have hd : docOf [A] = A := by simp [docOf, Lines.joinLines]
    rw [hd] at hc ⊢
    simp only [List.length_cons, List.length_nil] at hF ⊢
    obtain ⟨F', hF', e⟩ := tokLoop_plain cfg hmn _ hchain h a A b hc hp hso hb hnt F (by omega)
    exact ⟨F', by omega, e⟩
  | A :: B :: r, a, b, st, h, _, hc, hp, hso, hb, hnt, F, hF => by
    obtain ⟨hA, hAl, hnb, hso'⟩ := hso
    rw [byteLen_docOf_cons2]
    simp only [List.length_cons] at hF ⊢
    have hc1 : c = a ++ A ++ ('\n' :: docOf (B :: r) ++ b) := by rw [hc, docOf_cons2]; simp
    obtain ⟨F1, hF1, e1⟩ := tokLoop_plain cfg hmn _ hchain h a A ('\n' :: docOf (B :: r) ++ b) hc1 hp hA
      (by intro ch hch; simp at hch; subst hch; exact lf_stop) hnt F (by omega)
    obtain ⟨G, rfl⟩ : ∃ G, F1 = G + 1 := ⟨F1 - 1, by omega⟩
    have h1 := h.upd (st.children ++ textNodesT tr (byteLen a) A) (byteLen a + byteLen A) st.backticks
    have hc2 : c = (a ++ A) ++ '\n' :: (docOf (B :: r) ++ b) := by rw [hc1]; simp
    have e2 := tokLoop_newline cfg hmn _ hchain h1 (a ++ A) (docOf (B :: r) ++ b) hc2 (by simp [byteLen_append]) hnb
      (tailSpaces_fresh tr st.children hnt (byteLen a) A hAl) G
    have h2 := h.upd (st.children ++ textNodesT tr (byteLen a) A ++ [brkNode tr (byteLen (a ++ A))])
      (byteLen (a ++ A) + 1) st.backticks
    have hc3 : c = (a ++ A ++ ['\n']) ++ docOf (B :: r) ++ b := by rw [hc1]; simp
    obtain ⟨F3, hF3, e3⟩ := tokLoop_lines cfg hmn rest hchain (B :: r) (a ++ A ++ ['\n']) b _ h2 (by simp) hc3
      (by simp [byteLen_append, byteLen, show '\n'.utf8Size = 1 by decide]; omega) hso' hb (noTrailText_snoc _ _ rfl) G
      (by simp only [List.length_cons]; omega)
    simp only [List.length_cons] at hF3
    refine ⟨F3, by omega, ?_⟩
    rw [e1, e2, e3]
    congr 1
    simp only [linesInl, byteLen_append, byteLen, show '\n'.utf8Size = 1 by decide, List.append_assoc,
      List.singleton_append, Nat.add_zero]
    congr 1
    omega

/-! ## 4. `parseInline` on plain lines, a code span, plain lines -/

theorem head?_append_of_head? {α : Type} (x : List α) {b b' : List α} (h : b.head? = b'.head?) :
    (x ++ b).head? = (x ++ b').head? := by
  cases x with
  | nil => simpa using h
  | cons d t => rfl

/-- `SoftOk` looks at the first character of what follows only -/
theorem softOk_congr : ∀ (As : List (List Char)) {b b' : List Char}, b.head? = b'.head? → SoftOk As b → SoftOk As b'
  | [], _, _, _, _ => trivial
  | [A], _, _, _, h => h
  | A :: B :: r, b, b', hb, ⟨h1, h2, h3, h4⟩ =>
    ⟨h1, h2, by rw [← head?_append_of_head? _ hb]; exact h3, softOk_congr (B :: r) hb h4⟩

/-- plain lines do not start with a backtick -/
theorem softOk_head (Bs : List (List Char)) (b : List Char) (h : SoftOk Bs b) : (docOf Bs).head? ≠ some '`' := by
  have key : ∀ (B t : List Char), PlainTxt B → t.head? ≠ some '`' → (B ++ t).head? ≠ some '`' := by
    intro B t hB ht
    cases B with
    | nil => simpa using ht
    | cons d t' =>
      simp only [List.cons_append, List.head?_cons, ne_eq, Option.some.injEq]
      intro e
      exact hB d (by simp) (e ▸ tick_stop)
  match Bs, h with
  | [], _ => simp [docOf, Lines.joinLines]
  | [B], h =>
    have := key B [] h (by simp)
    simpa [docOf, Lines.joinLines] using this
  | B :: B2 :: r, h =>
    rw [docOf_cons2]
    exact key B _ h.1 (by simp)

theorem length_le_docOf : ∀ (As : List (List Char)), As.length ≤ byteLen (docOf As) + 1
  | [] => by simp
  | [A] => by simp
  | A :: B :: r => by
    have := length_le_docOf (B :: r)
    rw [byteLen_docOf_cons2]
    simp only [List.length_cons] at this ⊢
    omega

/-- **the inline parser on `docOf As ++ `ᵏ⁺¹ R `ᵏ⁺¹ ++ docOf Bs`, any table.**  `As`, `Bs` non-empty lists of plain
    pieces (any of them may be empty) joined by SOFT line breaks (`SoftOk`), `R` as in `C11M.parseInline_raw`, the
    chain `text, newline, c1 …, backticks, …` (`c1` quiet at a backtick).  The result: the pieces of `As` as `Text`
    nodes with a `Softbreak` node per line feed between them, ONE `CodeInline` node over the span whose single text
    child is `spanContent R`, the pieces of `Bs` likewise; every range is `tr` of the inline offsets. -/
theorem parseInline_mid (cfg : Cfg) (hmn : 0 < cfg.maxNesting) (c1 c2 : List RuleId)
    (hchain : cfg.chain = .text :: .newline :: (c1 ++ .backticks :: c2)) (hq : ∀ r ∈ c1, QuietTick r)
    (As Bs : List (List Char)) (R : List Char) (k : Nat) (m : Srcmap) (tr : Nat → Nat)
    (hm : ∀ a, getSourcePosFor m a = .ok (tr a))
    (hAs : As ≠ []) (hBs : Bs ≠ []) (hpre : SoftOk As ['`']) (hpost : SoftOk Bs []) (hR : CodePair.RawOk '`' k R)
    (htrim : trimSrc (docOf As ++ rawSpan k R ++ docOf Bs) = (0, byteLen (docOf As ++ rawSpan k R ++ docOf Bs))) :
    parseInline cfg (docOf As ++ rawSpan k R ++ docOf Bs) m =
      .ok (linesInl tr 0 As ++ [codeNodeR tr (byteLen (docOf As)) k R] ++
        linesInl tr (byteLen (docOf As) + (2 * (k + 1) + byteLen R)) Bs) := by
  obtain ⟨c, hcdef⟩ : ∃ c, c = docOf As ++ rawSpan k R ++ docOf Bs := ⟨_, rfl⟩
  rw [← hcdef] at htrim ⊢
  obtain ⟨st0, hst0⟩ : ∃ s : IState, s = ⟨c, m, 0, byteLen c, 0, 0, [], CodePair.Cache.empty, [], []⟩ := ⟨_, rfl⟩
  have hinit : IState.init c m = st0 := by rw [hst0]; simp [IState.init, htrim]
  have hon0 : OnT st0 c tr := by rw [hst0]; exact ⟨rfl, hm, rfl, rfl⟩
  have hlen : byteLen c = byteLen (docOf As) + (2 * (k + 1) + byteLen R) + byteLen (docOf Bs) := by
    rw [hcdef, byteLen_append, byteLen_append, byteLen_rawSpan]
  have hR1 : 1 ≤ byteLen R := by
    cases hRc : R with
    | nil => exact absurd hRc hR.ne
    | cons d t => have := Char.utf8Size_pos d; simp only [byteLen]; omega
  have hlA := length_le_docOf As
  have hlB := length_le_docOf Bs
  have hfuel : 2 * As.length + 1 + 2 * Bs.length ≤ topFuel cfg c := by
    unfold topFuel
    calc 2 * As.length + 1 + 2 * Bs.length ≤ (byteLen c + 2) * 2 := by omega
      _ ≤ (byteLen c + 2) * (cfg.maxNesting + 2) := Nat.mul_le_mul (Nat.le_refl _) (by omega)
  obtain ⟨r0, hr0⟩ := rawSpan_head k R
  have hchain' : cfg.chain = .text :: .newline :: (c1 ++ .backticks :: c2) := hchain
  -- the lines in front
  obtain ⟨F1, hF1, hA⟩ := tokLoop_lines cfg hmn _ hchain As [] (rawSpan k R ++ docOf Bs) st0 hon0 hAs
    (by rw [hcdef]; simp) (by rw [hst0]; rfl) (softOk_congr As (by rw [hr0]; rfl) hpre)
    (by intro ch hch; rw [hr0] at hch; simp at hch; subst hch; exact tick_stop)
    (by rw [hst0]; exact noTrailText_nil) (topFuel cfg c) (by omega)
  -- the span
  obtain ⟨G, rfl⟩ : ∃ G, F1 = G + 1 := ⟨F1 - 1, by omega⟩
  obtain ⟨c', hB⟩ := tokLoop_raw cfg hmn (.text :: .newline :: c1) c2 (by rw [hchain]; rfl)
    (fun r hr => by
      rcases List.mem_cons.mp hr with rfl | h
      · exact ⟨(by intro e; cases e), (by intro csw e; cases e)⟩
      · rcases List.mem_cons.mp h with rfl | h
        · exact ⟨(by intro e; cases e), (by intro csw e; cases e)⟩
        · exact hq r h)
    (hon0.upd (st0.children ++ linesInl tr (byteLen ([] : List Char)) As)
      (byteLen ([] : List Char) + byteLen (docOf As)) st0.backticks) (docOf As) R (docOf Bs) k hcdef (by simp [byteLen]) hR
    (softOk_head Bs [] hpost) (by rw [hst0]) G
  -- the lines behind
  have hon2 := (hon0.upd (st0.children ++ linesInl tr (byteLen ([] : List Char)) As ++ [codeNodeR tr (byteLen (docOf As)) k R])
    (byteLen (docOf As) + (2 * (k + 1) + byteLen R)) c')
  obtain ⟨F3, _, hC⟩ := tokLoop_lines cfg hmn _ hchain Bs (docOf As ++ rawSpan k R) [] _ hon2 hBs
    (by rw [hcdef]; simp) (by simp [byteLen_append, byteLen_rawSpan]) hpost (by simp)
    (noTrailText_snoc _ _ rfl) G (by omega)
  unfold parseInline tokenize
  rw [hinit, hon0.posMax, hA]
  simp only [hst0] at hB hC ⊢
  rw [hB, hC, tokLoop_done _ _ _ (by simp only [hlen, byteLen_append, byteLen_rawSpan]; omega)]
  simp [byteLen, byteLen_append, byteLen_rawSpan]

end MdIt.C11X
