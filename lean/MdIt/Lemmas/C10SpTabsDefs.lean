/-
  C10 with the sourcepos plugin, ALL sources (split tabs included): the interface between the exact
  inline simulation for `C05T.MapT` tables (`Lemmas/C10SpTabsInline*.lean`) and its consumers.
-/
import MdIt.Model.Inline

namespace MdIt.C10SP
open MdIt.InlineOps (Srcmap getSourcePosFor byteLen)

/-- a character other than the line feed and the space STARTS at byte `p` of `c` -/
def CharSolid (c : List Char) (p : Nat) : Prop :=
  ∃ u ch w, c = u ++ ch :: w ∧ byteLen u = p ∧ ch ≠ '\n' ∧ ch ≠ ' '

/-- the two ranges are the translations, under the two tables, of ONE stretch `[p, q]` of the inline
    text `c` that starts at a solid character and ends inside the text -/
def SameSpanT (c : List Char) (m₁ m₂ : Srcmap) (r₁ r₂ : Option (Nat × Nat)) : Prop :=
  ∃ p q a₁ b₁ a₂ b₂, r₁ = some (a₁, b₁) ∧ r₂ = some (a₂, b₂) ∧ q ≤ byteLen c ∧ CharSolid c p ∧
    getSourcePosFor m₁ p = .ok a₁ ∧ getSourcePosFor m₁ q = .ok b₁ ∧
    getSourcePosFor m₂ p = .ok a₂ ∧ getSourcePosFor m₂ q = .ok b₂

/-- (copy of `C10SP.attrVal`, so that this file does not depend on `C10SpFullDefs`) the inline values whose
    `render` shows `node.attrs` -/
def attrValT : Inline.Val → Bool
  | .codeInline _ _ => true
  | .wrap _ _ => true
  | .link _ _ => true
  | .image _ _ => true
  | .autolink _ => true
  | _ => false

mutual
/-- two inline trees of the same shape and values whose attribute-rendering nodes are `SameSpanT` -/
def XNT (c : List Char) (m₁ m₂ : Srcmap) : Inline.Node → Inline.Node → Prop
  | ⟨v₁, r₁, cs₁⟩, ⟨v₂, r₂, cs₂⟩ =>
    v₁ = v₂ ∧ (attrValT v₁ = true → SameSpanT c m₁ m₂ r₁ r₂) ∧ XLT c m₁ m₂ cs₁ cs₂
def XLT (c : List Char) (m₁ m₂ : Srcmap) : List Inline.Node → List Inline.Node → Prop
  | [], [] => True
  | a :: as, b :: bs => XNT c m₁ m₂ a b ∧ XLT c m₁ m₂ as bs
  | _, _ => False
end

end MdIt.C10SP
