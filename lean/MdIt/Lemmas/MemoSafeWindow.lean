/-
  Helper development for `Props/MemoSafe.lean` (the open memo lemma of C01's inline totality):
  WINDOW INDEPENDENCE of the flat rules (the rules without look-ahead recursion) in look-ahead mode.

  The `skip_token` memo is shared between frames with different `pos_max`: a verdict computed under
  `posMax = M` is reused in a nested label frame whose `posMax = M' ≤ M` is the position of the
  label's closing `]`.  For every flat rule `R` the verdict at `pos` does not change when `posMax`
  shrinks from `M` to `M'`, provided the verdict ends at or before `M'` and the character AT `M'` is
  `]` (or `M' = M`):

      ((∃ s1, R st true = .ok (some n, s1)) ∧ st.pos + n ≤ M') ↔ (∃ s2, R (st.shrink M') true = .ok (some n, s2))

    * `WinHyp st M'`            — the common hypotheses;
    * `Cut w' w`                — the two windows: `w = w'` or `w = w' ++ ']' :: r`;
    * `window_split`            — `WinHyp` gives the two windows in this shape;
    * `window_generic`          — the plumbing shared by all rules: a rule whose look-ahead run is a
                                  function `V src pos window` of the window inherits a window lemma from `V`;
    * `ruleText_window`, `ruleNewline_window`, `ruleEscape_window`, `ruleAutolink_window`
      (`ruleAutolink_window'`: no hypothesis on the character at `M'` is needed),
      `ruleEntity_window` (needs `EntStop st.src st.posMax`: the regexes read `src[pos..]`).

  Beside each lemma an `example` showing the equivalence fail without the `cut` hypothesis.
-/
import MdIt.Lemmas.MemoSafeDef

namespace MdIt.Inline
open MdIt.InlineOps (Srcmap getSourcePosFor getMap byteLen slice)
open MdIt.C05 (WFMap byteLen_append slice_ok_iff)

/-! ## the two windows -/

/-- the common hypotheses: `pos < M' ≤ posMax`, and `M'` is `posMax` or the position of a `]` -/
structure WinHyp (st : IState) (M' : Nat) : Prop where
  bpos : Boundary st.src st.pos
  bmax : Boundary st.src st.posMax
  lt : st.pos < M'
  le : M' ≤ st.posMax
  cut : M' = st.posMax ∨ ∃ r, slice st.src M' st.posMax = .ok (']' :: r)

/-- the small window `w'` against the big window `w` -/
def Cut (w' w : List Char) : Prop := w = w' ∨ ∃ r, w = w' ++ ']' :: r

theorem shrink_window (st : IState) (M' : Nat) :
    (st.shrink M').window = liftOps (slice st.src st.pos M') := rfl

/-- `M'` is a character boundary -/
theorem WinHyp.bcut {st : IState} {M' : Nat} (h : WinHyp st M') : Boundary st.src M' := by
  rcases h.cut with e | ⟨r, hr⟩
  · rw [e]; exact h.bmax
  · exact (slice_boundaries hr).1

/-- **the decomposition of the two windows** -/
theorem window_split {st : IState} {M' : Nat} (h : WinHyp st M') :
    ∃ w' w, (st.shrink M').window = .ok w' ∧ st.window = .ok w ∧ w' ≠ [] ∧
      st.pos + byteLen w' = M' ∧ Cut w' w := by
  obtain ⟨pre, w', post, hs, hp, hw, hsl⟩ := slice_of_boundaries h.bpos h.bcut (Nat.le_of_lt h.lt)
  have hne : w' ≠ [] := by
    intro e; subst e; have := h.lt; simp only [byteLen] at hw; omega
  rcases h.cut with e | ⟨r, hr⟩
  · refine ⟨w', w', ?_, ?_, hne, hw, .inl rfl⟩
    · rw [shrink_window, hsl]; rfl
    · unfold IState.window; rw [← e, hsl]; rfl
  · refine ⟨w', w' ++ ']' :: r, ?_, ?_, hne, hw, .inr ⟨r, rfl⟩⟩
    · rw [shrink_window, hsl]; rfl
    · unfold IState.window; rw [C05.slice_append _ _ _ _ _ _ hsl hr]; rfl

/-- the text behind the window start (what the entity regexes see) -/
theorem window_suffix {st : IState} {w : List Char} (hw : st.window = .ok w) :
    ∃ post, slice st.src st.pos (byteLen st.src) = .ok (w ++ post) ∧
      ∃ pre, st.src = pre ++ w ++ post ∧ byteLen pre = st.pos := by
  obtain ⟨p, q, e, l1, l2⟩ := (slice_ok_iff _ _ _ _).mp (window_eq hw)
  refine ⟨q, (slice_ok_iff _ _ _ _).mpr ⟨p, [], by rw [e]; simp, l1, ?_⟩, p, e, l1⟩
  rw [e, byteLen_append, byteLen_append, byteLen_append]; omega

/-! ## the shared plumbing -/

/-- a rule whose look-ahead run is a function `V src pos window` of the window (leaving the state
    alone) inherits its window lemma from `V` -/
theorem window_generic {R : IState → Bool → SRes}
    {V : List Char → Nat → List Char → Except RPanic (Option Nat)}
    (hR : ∀ st : IState, R st true =
      match st.window with
      | .error e => .error e
      | .ok w =>
        match V st.src st.pos w with
        | .error e => .error e
        | .ok o => .ok (o, st))
    {st : IState} {M' : Nat} {w' w : List Char} (hw' : (st.shrink M').window = .ok w')
    (hw : st.window = .ok w) (n : Nat)
    (hV : (V st.src st.pos w = .ok (some n) ∧ st.pos + n ≤ M') ↔ V st.src st.pos w' = .ok (some n)) :
    ((∃ s1, R st true = .ok (some n, s1)) ∧ st.pos + n ≤ M') ↔
      (∃ s2, R (st.shrink M') true = .ok (some n, s2)) := by
  have e1 : (∃ s1, R st true = .ok (some n, s1)) ↔ V st.src st.pos w = .ok (some n) := by
    rw [hR, hw]
    simp only
    cases hv : V st.src st.pos w with
    | error e => simp
    | ok o => simp
  have e2 : (∃ s2, R (st.shrink M') true = .ok (some n, s2)) ↔ V st.src st.pos w' = .ok (some n) := by
    rw [hR, hw']
    simp only
    show (∃ s2, (match V st.src st.pos w' with
      | .error e => .error e
      | .ok o => .ok (o, st.shrink M')) = (.ok (some n, s2) : SRes)) ↔ _
    cases hv : V st.src st.pos w' with
    | error e => simp
    | ok o => simp
  rw [e1, e2]; exact hV

/-- what the examples look at: the verdict of a rule call -/
def verdictOf : SRes → Option (Option Nat)
  | .ok (o, _) => some o
  | .error _ => none

/-- a state for the examples: `src`, `pos`, `posMax` (everything else empty) -/
def exState (src : List Char) (pos posMax : Nat) : IState :=
  { src := src, srcmap := [(0, 0)], pos := pos, posMax := posMax, level := 0, linkLevel := 0,
    cache := [], backticks := CodePair.Cache.empty, children := [], bottoms := [] }

/-! ## text -/

/-- a stop character ends the run: what follows it is not looked at -/
theorem splitRun_append_stop (p : Char → Bool) (a : List Char) (c : Char) (r : List Char)
    (hc : p c = false) : (Entity.splitRun p (a ++ c :: r)).1 = (Entity.splitRun p a).1 := by
  induction a with
  | nil => simp [Entity.splitRun, hc]
  | cons x a ih =>
    simp only [List.cons_append, Entity.splitRun]
    split
    · simp only [ih]
    · rfl

/-- the look-ahead run of the text rule as a function of the window -/
def textV (_ : List Char) (_ : Nat) (w : List Char) : Except RPanic (Option Nat) :=
  .ok (if textLen w = 0 then none else some (textLen w))

theorem ruleText_silent (st : IState) : ruleText st true =
    match st.window with
    | .error e => .error e
    | .ok w =>
      match textV st.src st.pos w with
      | .error e => .error e
      | .ok o => .ok (o, st) := by
  unfold ruleText textV textLen
  cases st.window with
  | error e => rfl
  | ok w =>
    simp only
    split <;> simp_all

theorem textLen_le (w : List Char) : textLen w ≤ byteLen w := by
  obtain ⟨u, v, huv, hu⟩ := textLen_prefix w
  rw [← hu, huv, byteLen_append]; omega

theorem textLen_cut {w' w : List Char} (h : Cut w' w) : textLen w = textLen w' := by
  rcases h with rfl | ⟨r, rfl⟩
  · rfl
  · unfold textLen
    rw [splitRun_append_stop _ _ _ _ (by decide)]

/-- **window independence of the text rule**: `]` is a stop character, a run never crosses `M'` -/
theorem ruleText_window {st : IState} {M' : Nat} (h : WinHyp st M') (n : Nat) :
    ((∃ s1, ruleText st true = .ok (some n, s1)) ∧ st.pos + n ≤ M') ↔
      (∃ s2, ruleText (st.shrink M') true = .ok (some n, s2)) := by
  obtain ⟨w', w, hw', hw, _, hlen, hcut⟩ := window_split h
  refine window_generic (V := textV) ruleText_silent hw' hw n ?_
  have hle := textLen_le w'
  unfold textV
  rw [textLen_cut hcut]
  constructor
  · exact fun h => h.1
  · intro hv
    refine ⟨hv, ?_⟩
    split at hv
    · simp at hv
    · simp only [Except.ok.injEq, Option.some.injEq] at hv; omega

/-- without the `cut` hypothesis: `ab` with `M' = 1` — the run crosses `M'`; the big window answers 2,
    the small one 1 -/
example :
    verdictOf (ruleText (exState ['a', 'b'] 0 2) true) = some (some 2) ∧
    verdictOf (ruleText ((exState ['a', 'b'] 0 2).shrink 1) true) = some (some 1) := by
  decide +kernel

/-- with it (`a]`, `M' = 1`): both answer 1 -/
example :
    verdictOf (ruleText (exState ['a', ']'] 0 2) true) = some (some 1) ∧
    verdictOf (ruleText ((exState ['a', ']'] 0 2).shrink 1) true) = some (some 1) := by
  decide +kernel

/-! ## newline -/

theorem takeWhile_append_stop {α : Type} (p : α → Bool) (a : List α) (c : α) (r : List α)
    (hc : p c = false) : (a ++ c :: r).takeWhile p = a.takeWhile p := by
  induction a with
  | nil => simp [List.takeWhile, hc]
  | cons x a ih =>
    simp only [List.cons_append, List.takeWhile_cons]
    split
    · rw [ih]
    · rfl

theorem byteLen_takeWhile_le (p : Char → Bool) (l : List Char) :
    byteLen (l.takeWhile p) ≤ byteLen l := by
  have := congrArg byteLen (List.takeWhile_append_dropWhile (p := p) (l := l))
  rw [byteLen_append] at this; omega

/-- the look-ahead run of the newline rule as a function of the window -/
def newlineV (_ : List Char) (_ : Nat) (w : List Char) : Except RPanic (Option Nat) :=
  match w with
  | [] => .error .unwrap
  | c :: rest => .ok (if c ≠ '\n' then none else some (newlineLen rest))

theorem ruleNewline_silent (st : IState) : ruleNewline st true =
    match st.window with
    | .error e => .error e
    | .ok w =>
      match newlineV st.src st.pos w with
      | .error e => .error e
      | .ok o => .ok (o, st) := by
  unfold ruleNewline newlineV newlineLen
  cases st.window with
  | error e => rfl
  | ok w =>
    cases w with
    | nil => rfl
    | cons c rest =>
      simp only
      have e : st.pos + 1 + (List.takeWhile isSpTab rest).length - st.pos
          = 1 + (List.takeWhile isSpTab rest).length := by omega
      split <;> simp_all

/-- **window independence of the newline rule** (look-ahead mode reads nothing of the tree):
    `]` is not a blank, the blanks behind the line feed never cross `M'` -/
theorem ruleNewline_window {st : IState} {M' : Nat} (h : WinHyp st M') (n : Nat) :
    ((∃ s1, ruleNewline st true = .ok (some n, s1)) ∧ st.pos + n ≤ M') ↔
      (∃ s2, ruleNewline (st.shrink M') true = .ok (some n, s2)) := by
  obtain ⟨w', w, hw', hw, hne, hlen, hcut⟩ := window_split h
  refine window_generic (V := newlineV) ruleNewline_silent hw' hw n ?_
  cases w' with
  | nil => exact absurd rfl hne
  | cons c rest' =>
    -- the big window starts with the same character, and the blanks behind it are the same
    have hw2 : ∃ rest, w = c :: rest ∧ newlineLen rest = newlineLen rest' := by
      rcases hcut with rfl | ⟨r, rfl⟩
      · exact ⟨rest', rfl, rfl⟩
      · refine ⟨rest' ++ ']' :: r, rfl, ?_⟩
        unfold newlineLen
        rw [takeWhile_append_stop _ _ _ _ (by decide)]
    obtain ⟨rest, rfl, hnl⟩ := hw2
    unfold newlineV
    simp only [hnl]
    constructor
    · exact fun h => h.1
    · intro hv
      refine ⟨hv, ?_⟩
      split at hv
      · simp at hv
      · next hc =>
        have hc' : c = '\n' := by simpa using hc
        subst hc'
        simp only [Except.ok.injEq, Option.some.injEq] at hv
        have e1 : ('\n' : Char).utf8Size = 1 := by decide
        have := byteLen_takeWhile_le isSpTab rest'
        rw [byteLen_takeWhile_spTab] at this
        unfold newlineLen at hv
        simp only [byteLen, e1] at hlen
        omega

/-- without the `cut` hypothesis: line feed + two blanks with `M' = 2` — the big window answers 3, the
    small one 2 -/
example :
    verdictOf (ruleNewline (exState ['\n', ' ', ' '] 0 3) true) = some (some 3) ∧
    verdictOf (ruleNewline ((exState ['\n', ' ', ' '] 0 3).shrink 2) true) = some (some 2) := by
  decide +kernel

/-! ## escape -/

theorem length_le_byteLen (l : List Char) : l.length ≤ byteLen l := by
  induction l with
  | nil => simp [byteLen]
  | cons c r ih => have := Char.utf8Size_pos c; simp only [byteLen, List.length_cons]; omega

theorem byteLen_splitRun_le (p : Char → Bool) (l : List Char) :
    byteLen (Entity.splitRun p l).1 ≤ byteLen l := by
  have := congrArg byteLen (Entity.splitRun_sound p l).2.1
  rw [byteLen_append] at this; omega

/-- the look-ahead run of the escape rule as a function of the window -/
def escapeV (_ : List Char) (_ : Nat) (w : List Char) : Except RPanic (Option Nat) :=
  match Entity.escapeCore w with
  | .error e => .error (RPanic.ofEntity e)
  | .ok none => .ok none
  | .ok (some (.hardbreak len)) => .ok (some len)
  | .ok (some (.special sp)) => .ok (some (byteLen sp.markup))

theorem ruleEscape_silent (st : IState) : ruleEscape st true =
    match st.window with
    | .error e => .error e
    | .ok w =>
      match escapeV st.src st.pos w with
      | .error e => .error e
      | .ok o => .ok (o, st) := by
  unfold ruleEscape escapeV
  cases st.window with
  | error e => rfl
  | ok w =>
    simp only
    split <;> simp_all

/-- the escape rule on the two windows -/
theorem escapeV_cut {w' w : List Char} (hcut : Cut w' w) (hne : w' ≠ []) (src : List Char)
    (pos n : Nat) :
    (escapeV src pos w = .ok (some n) ∧ n ≤ byteLen w') ↔ escapeV src pos w' = .ok (some n) := by
  have e1 : ('\\' : Char).utf8Size = 1 := by decide
  have e2 : (']' : Char).utf8Size = 1 := by decide
  have e3 : ('\n' : Char).utf8Size = 1 := by decide
  cases w' with
  | nil => exact absurd rfl hne
  | cons c t =>
    by_cases hc : c = '\\'
    · subst hc
      cases t with
      | nil =>
        -- the window ends behind the backslash: no verdict; the big window takes `\]`, too long
        rcases hcut with rfl | ⟨r, rfl⟩
        · simp [escapeV, Entity.escapeCore]
        · simp [escapeV, Entity.escapeCore, byteLen, e1, e2]
          intro hv; omega
      | cons chr t' =>
        by_cases hn : chr = '\n'
        · subst hn
          have hrun : ∀ r, (Entity.splitRun (fun x => x == ' ' || x == '\t') (t' ++ ']' :: r)).1
              = (Entity.splitRun (fun x => x == ' ' || x == '\t') t').1 :=
            fun r => splitRun_append_stop _ _ _ _ (by decide)
          have hle := byteLen_splitRun_le (fun x => x == ' ' || x == '\t') t'
          have hll := length_le_byteLen (Entity.splitRun (fun x => x == ' ' || x == '\t') t').1
          rcases hcut with rfl | ⟨r, rfl⟩
          · simp only [escapeV, Entity.escapeCore, byteLen, e1, e3]
            simp
            intro hv; omega
          · simp only [escapeV, Entity.escapeCore, byteLen, e1, e3, List.cons_append, hrun]
            simp
            intro hv; omega
        · have := Char.utf8Size_pos chr
          rcases hcut with rfl | ⟨r, rfl⟩
          · simp only [escapeV, Entity.escapeCore, byteLen, e1]
            simp [hn, byteLen, e1]
            intro hv; omega
          · simp only [escapeV, Entity.escapeCore, byteLen, e1, List.cons_append]
            simp [hn, byteLen, e1]
            intro hv; omega
    · rcases hcut with rfl | ⟨r, rfl⟩
      · simp [escapeV, Entity.escapeCore, hc]
      · simp [escapeV, Entity.escapeCore, hc]

/-- **window independence of the escape rule**: `\` + one character (`pos + n ≤ M'` decides), or
    `\` + line feed + blanks (`]` is not a blank) -/
theorem ruleEscape_window {st : IState} {M' : Nat} (h : WinHyp st M') (n : Nat) :
    ((∃ s1, ruleEscape st true = .ok (some n, s1)) ∧ st.pos + n ≤ M') ↔
      (∃ s2, ruleEscape (st.shrink M') true = .ok (some n, s2)) := by
  obtain ⟨w', w, hw', hw, hne, hlen, hcut⟩ := window_split h
  refine window_generic (V := escapeV) ruleEscape_silent hw' hw n ?_
  have := escapeV_cut hcut hne st.src st.pos n
  rw [← this]
  constructor
  · exact fun ⟨a, b⟩ => ⟨a, by omega⟩
  · exact fun ⟨a, b⟩ => ⟨a, by omega⟩

/-- without the `cut` hypothesis: `\` + line feed + blank with `M' = 2` — the big window answers 3, the
    small one 2 -/
example :
    verdictOf (ruleEscape (exState ['\\', '\n', ' '] 0 3) true) = some (some 3) ∧
    verdictOf (ruleEscape ((exState ['\\', '\n', ' '] 0 3).shrink 2) true) = some (some 2) := by
  decide +kernel

/-- the `pos + n ≤ M'` part of the left side is needed even with it: `\]` with `M' = 1` — the big window
    answers 2 (an escaped bracket), the small one nothing -/
example :
    verdictOf (ruleEscape (exState ['\\', ']'] 0 2) true) = some (some 2) ∧
    verdictOf (ruleEscape ((exState ['\\', ']'] 0 2).shrink 1) true) = some none := by
  decide +kernel

/-! ## autolink -/

/-- the hypotheses without the condition on the character at `M'` (enough for the autolink rule) -/
structure WinHyp0 (st : IState) (M' : Nat) : Prop where
  bpos : Boundary st.src st.pos
  bcut : Boundary st.src M'
  bmax : Boundary st.src st.posMax
  lt : st.pos < M'
  le : M' ≤ st.posMax

theorem WinHyp.toWinHyp0 {st : IState} {M' : Nat} (h : WinHyp st M') : WinHyp0 st M' :=
  ⟨h.bpos, h.bcut, h.bmax, h.lt, h.le⟩

/-- the two windows when nothing is known about the character at `M'` -/
theorem window_split0 {st : IState} {M' : Nat} (h : WinHyp0 st M') :
    ∃ w' s, (st.shrink M').window = .ok w' ∧ st.window = .ok (w' ++ s) ∧ w' ≠ [] ∧
      st.pos + byteLen w' = M' := by
  obtain ⟨pre, w', post, hs, hp, hw, hsl⟩ := slice_of_boundaries h.bpos h.bcut (Nat.le_of_lt h.lt)
  obtain ⟨_, s, _, _, _, _, hsl2⟩ := slice_of_boundaries h.bcut h.bmax h.le
  have hne : w' ≠ [] := by
    intro e; subst e; have := h.lt; simp only [byteLen] at hw; omega
  refine ⟨w', s, ?_, ?_, hne, hw⟩
  · rw [shrink_window, hsl]; rfl
  · unfold IState.window; rw [C05.slice_append _ _ _ _ _ _ hsl hsl2]; rfl

/-- the scan is monotone in the window -/
theorem autolinkScan_append {l : List Char} {p0 p : Nat} (h : autolinkScan l p0 = some p)
    (s : List Char) : autolinkScan (l ++ s) p0 = some p := by
  induction l generalizing p0 with
  | nil => simp [autolinkScan] at h
  | cons c r ih =>
    unfold autolinkScan at h
    simp only [List.cons_append]
    unfold autolinkScan
    split at h
    · simp at h
    · next h1 =>
      rw [if_neg h1]
      split at h
      · next h2 => rw [if_pos h2]; exact h
      · next h2 => rw [if_neg h2]; exact ih h

/-- a `>` found in the big window strictly before the end of the small one is found there -/
theorem autolinkScan_of_append {l s : List Char} {p0 p : Nat}
    (h : autolinkScan (l ++ s) p0 = some p) (hlt : p < p0 + byteLen l) :
    autolinkScan l p0 = some p := by
  induction l generalizing p0 with
  | nil =>
    obtain ⟨_, _, _, hp⟩ := autolinkScan_spec h
    simp only [byteLen] at hlt; omega
  | cons c r ih =>
    simp only [List.cons_append] at h
    unfold autolinkScan at h
    unfold autolinkScan
    split at h
    · simp at h
    · next h1 =>
      rw [if_neg h1]
      split at h
      · next h2 => rw [if_pos h2]; exact h
      · next h2 =>
        rw [if_neg h2]
        exact ih h (by simp only [byteLen] at hlt; omega)

/-- what the autolink rule does with the position behind `>` -/
def autolinkTail (src : List Char) (pos : Nat) : Option Nat → Except RPanic (Option Nat)
  | none => .ok none
  | some p =>
    match liftOps (slice src (pos + 1) (p - 1)) with
    | .error e => .error e
    | .ok url =>
      if !matchAutolinkRe url && !matchEmailRe url then .ok none
      else
        match Link.autolinkDest (matchAutolinkRe url) url with
        | none => .ok none
        | some _ => .ok (some (p - pos))

theorem autolinkTail_some {src : List Char} {pos n : Nat} {o : Option Nat}
    (h : autolinkTail src pos o = .ok (some n)) : ∃ p, o = some p ∧ n = p - pos := by
  unfold autolinkTail at h
  split at h
  · simp at h
  · next p =>
    refine ⟨p, rfl, ?_⟩
    split at h
    · simp at h
    · split at h
      · simp at h
      · split at h
        · simp at h
        · simp only [Except.ok.injEq, Option.some.injEq] at h; exact h.symm

/-- the look-ahead run of the autolink rule as a function of the window (the url is cut from `src`) -/
def autolinkV (src : List Char) (pos : Nat) (w : List Char) : Except RPanic (Option Nat) :=
  match w with
  | [] => .error .unwrap
  | c :: rest => if c ≠ '<' then .ok none else autolinkTail src pos (autolinkScan rest (pos + 2))

theorem ruleAutolink_silent (st : IState) : ruleAutolink st true =
    match st.window with
    | .error e => .error e
    | .ok w =>
      match autolinkV st.src st.pos w with
      | .error e => .error e
      | .ok o => .ok (o, st) := by
  unfold ruleAutolink autolinkV autolinkTail
  cases st.window with
  | error e => rfl
  | ok w =>
    cases w with
    | nil => rfl
    | cons c rest =>
      simp only
      split
      · rfl
      · cases autolinkScan rest (st.pos + 2) with
        | none => rfl
        | some p =>
          simp only
          cases liftOps (slice st.src (st.pos + 1) (p - 1)) with
          | error e => rfl
          | ok url =>
            simp only
            split
            · rfl
            · cases Link.autolinkDest (matchAutolinkRe url) url with
              | none => rfl
              | some full => rfl

/-- the autolink rule on a window and a longer one -/
theorem autolinkV_append (src : List Char) (pos n : Nat) {w' : List Char} (hne : w' ≠ [])
    (s : List Char) :
    (autolinkV src pos (w' ++ s) = .ok (some n) ∧ n ≤ byteLen w') ↔
      autolinkV src pos w' = .ok (some n) := by
  cases w' with
  | nil => exact absurd rfl hne
  | cons c rest =>
    simp only [List.cons_append, autolinkV]
    by_cases hc : c = '<'
    · subst hc
      have e1 : ('<' : Char).utf8Size = 1 := by decide
      simp only [ne_eq, not_true_eq_false, if_false, byteLen, e1]
      constructor
      · rintro ⟨hv, hle⟩
        obtain ⟨p, hp, hn⟩ := autolinkTail_some hv
        obtain ⟨_, _, _, hpu⟩ := autolinkScan_spec hp
        rw [hp] at hv
        rw [autolinkScan_of_append hp (by omega)]
        exact hv
      · intro hv
        obtain ⟨p, hp, hn⟩ := autolinkTail_some hv
        obtain ⟨u, v, hr, hpu⟩ := autolinkScan_spec hp
        rw [hp] at hv
        rw [autolinkScan_append hp]
        refine ⟨hv, ?_⟩
        have e2 : ('>' : Char).utf8Size = 1 := by decide
        rw [hr, byteLen_append]
        simp only [byteLen, e2]
        omega
    · simp [hc]

/-- **window independence of the autolink rule, without any condition on the character at `M'`**:
    the scan stops at the first `>` or `<`; a `>` beyond `M'` means `pos + n > M'`; the url is cut from
    `src`, the regexes see only it -/
theorem ruleAutolink_window' {st : IState} {M' : Nat} (h : WinHyp0 st M') (n : Nat) :
    ((∃ s1, ruleAutolink st true = .ok (some n, s1)) ∧ st.pos + n ≤ M') ↔
      (∃ s2, ruleAutolink (st.shrink M') true = .ok (some n, s2)) := by
  obtain ⟨w', s, hw', hw, hne, hlen⟩ := window_split0 h
  refine window_generic (V := autolinkV) ruleAutolink_silent hw' hw n ?_
  rw [← autolinkV_append st.src st.pos n hne s]
  constructor
  · exact fun ⟨a, b⟩ => ⟨a, by omega⟩
  · exact fun ⟨a, b⟩ => ⟨a, by omega⟩

/-- **window independence of the autolink rule** -/
theorem ruleAutolink_window {st : IState} {M' : Nat} (h : WinHyp st M') (n : Nat) :
    ((∃ s1, ruleAutolink st true = .ok (some n, s1)) ∧ st.pos + n ≤ M') ↔
      (∃ s2, ruleAutolink (st.shrink M') true = .ok (some n, s2)) :=
  ruleAutolink_window' h.toWinHyp0 n

/-- no `cut` hypothesis is needed, but `pos + n ≤ M'` is: `<ab:c>` with `M' = 4` — the big window answers
    6, the small one nothing (no `>` in sight) -/
example :
    verdictOf (ruleAutolink (exState ['<', 'a', 'b', ':', 'c', '>'] 0 6) true) = some (some 6) ∧
    verdictOf (ruleAutolink ((exState ['<', 'a', 'b', ':', 'c', '>'] 0 6).shrink 4) true) = some none := by
  decide +kernel

/-- `]` inside the url: `<ab:]>` with `M' = 4` (the position of the `]`) satisfies `WinHyp`; the big window
    answers 6 > 4 -/
example :
    verdictOf (ruleAutolink (exState ['<', 'a', 'b', ':', ']', '>'] 0 6) true) = some (some 6) ∧
    verdictOf (ruleAutolink ((exState ['<', 'a', 'b', ':', ']', '>'] 0 6).shrink 4) true) = some none := by
  decide +kernel

/-! ## entity -/

/-- the look-ahead run of the entity rule as a function of the window: the window decides the branch
    (its first two characters), the regexes see `src[pos..]` -/
def entityV (cfg : Cfg) (src : List Char) (pos : Nat) (w : List Char) : Except RPanic (Option Nat) :=
  match w with
  | [] => .error .unwrap
  | c :: _ =>
    if c ≠ '&' then .ok none
    else
      match liftOps (slice src pos (byteLen src)) with
      | .error e => .error e
      | .ok suffix =>
        match Entity.entityCore cfg.entity w suffix with
        | .error e => .error (RPanic.ofEntity e)
        | .ok none => .ok none
        | .ok (some sp) => .ok (some (byteLen sp.markup))

theorem ruleEntity_silent (cfg : Cfg) (st : IState) : ruleEntity cfg st true =
    match st.window with
    | .error e => .error e
    | .ok w =>
      match entityV cfg st.src st.pos w with
      | .error e => .error e
      | .ok o => .ok (o, st) := by
  unfold ruleEntity entityV
  cases st.window with
  | error e => rfl
  | ok w =>
    cases w with
    | nil => rfl
    | cons c rest =>
      simp only
      split
      · rfl
      · cases liftOps (slice st.src st.pos (byteLen st.src)) with
        | error e => rfl
        | ok suffix =>
          simp only
          split <;> simp_all

/-- the entity rule looks at the first two characters of the window only, and `]` is not `#` -/
theorem entityCore_cut (lookup : List Char → Option (List Char)) {w' w : List Char} (hcut : Cut w' w)
    (hne : w' ≠ []) (suffix : List Char) :
    Entity.entityCore lookup w suffix = Entity.entityCore lookup w' suffix := by
  rcases hcut with rfl | ⟨r, rfl⟩
  · rfl
  · cases w' with
    | nil => exact absurd rfl hne
    | cons c t =>
      cases t with
      | nil => simp [Entity.entityCore]
      | cons x t' =>
        by_cases hx : x = '#'
        · subst hx; simp [Entity.entityCore]
        · simp [Entity.entityCore, hx]

/-- a reference matched in `src[pos..]` ends inside the window when the character at the window's end
    cannot continue a reference -/
theorem entity_fits {lookup : List Char → Option (List Char)} {w suffix : List Char}
    {sp : Entity.Special} (hcore : Entity.entityCore lookup w suffix = .ok (some sp))
    {src pre w' post : List Char} (hsrc : src = pre ++ w' ++ post) (hsuf : suffix = w' ++ post)
    (hne : w' ≠ []) (hstop : EntStop src (byteLen pre + byteLen w')) :
    byteLen sp.markup ≤ byteLen w' := by
  obtain ⟨t, rest, hmk, hsf, hall⟩ := entityCore_some hcore
  rcases Nat.lt_or_ge (byteLen w') (byteLen sp.markup) with hlt | hge
  · exfalso
    rw [hsuf] at hsf
    obtain ⟨x, hx1, hx2⟩ := append_prefix w' post sp.markup rest hsf (by omega)
    cases x with
    | nil => simp at hx1; rw [hx1] at hlt; omega
    | cons p x' =>
      cases w' with
      | nil => exact absurd rfl hne
      | cons c0 w1 =>
        have hp : isEntChar p = true := by
          apply hall
          have : '&' :: t = c0 :: w1 ++ p :: x' := by rw [← hmk, hx1]
          simp only [List.cons_append, List.cons.injEq] at this
          rw [this.2]; simp
        have := hstop (pre ++ c0 :: w1) p (x' ++ rest) (by rw [hsrc, hx2]; simp)
          (by rw [byteLen_append])
        rw [hp] at this; cases this
  · exact hge

/-- the character at `M'` cannot continue a reference: it is `]`, or `M'` is the outer `posMax` -/
theorem WinHyp.entStop {st : IState} {M' : Nat} (h : WinHyp st M')
    (hstop : EntStop st.src st.posMax) : EntStop st.src M' := by
  rcases h.cut with e | ⟨r, hr⟩
  · rw [e]; exact hstop
  · intro pre c post hsrc hpre
    obtain ⟨p, q, e, l1, _⟩ := (slice_ok_iff _ _ _ _).mp hr
    have := C05.append_inj_byteLen pre (c :: post) p (']' :: r ++ q)
      (by rw [← hsrc, e]; simp) (by omega)
    simp only [List.cons_append, List.cons.injEq] at this
    rw [this.2.1]; decide

/-- **window independence of the entity rule.**  The regexes read `src[pos..]`, not the window; the
    window decides only whether the numeric or the named pattern is tried (`]` is not `#`).  The match
    cannot run over a `]`; when `M'` is the outer `posMax` this is the hypothesis `EntStop`. -/
theorem ruleEntity_window (cfg : Cfg) {st : IState} {M' : Nat} (h : WinHyp st M')
    (hstop : EntStop st.src st.posMax) (n : Nat) :
    ((∃ s1, ruleEntity cfg st true = .ok (some n, s1)) ∧ st.pos + n ≤ M') ↔
      (∃ s2, ruleEntity cfg (st.shrink M') true = .ok (some n, s2)) := by
  obtain ⟨w', w, hw', hw, hne, hlen, hcut⟩ := window_split h
  refine window_generic (V := entityV cfg) (ruleEntity_silent cfg) hw' hw n ?_
  -- the two windows give the same verdict
  have hV : entityV cfg st.src st.pos w = entityV cfg st.src st.pos w' := by
    cases w' with
    | nil => exact absurd rfl hne
    | cons c t =>
      have hw2 : ∃ t2, w = c :: t2 := by
        rcases hcut with rfl | ⟨r, rfl⟩
        · exact ⟨t, rfl⟩
        · exact ⟨t ++ ']' :: r, rfl⟩
      obtain ⟨t2, rfl⟩ := hw2
      unfold entityV
      simp only [entityCore_cut cfg.entity hcut hne]
  rw [hV]
  constructor
  · exact fun h => h.1
  · intro hv
    refine ⟨hv, ?_⟩
    -- the match fits into the small window
    obtain ⟨post, hsuf, pre, hsrc, hpre⟩ := window_suffix hw'
    change slice st.src st.pos (byteLen st.src) = .ok (w' ++ post) at hsuf
    change st.src = pre ++ w' ++ post at hsrc
    change byteLen pre = st.pos at hpre
    cases w' with
    | nil => exact absurd rfl hne
    | cons c t =>
      unfold entityV at hv
      simp only at hv
      split at hv
      · simp at hv
      · rw [hsuf] at hv
        simp only [liftOps] at hv
        split at hv
        · simp at hv
        · simp at hv
        · next sp hcore =>
          simp only [Except.ok.injEq, Option.some.injEq] at hv
          have := entity_fits hcore hsrc rfl hne
            (by rw [hpre, hlen]; exact h.entStop hstop)
          omega

/-- a configuration for the examples (no named references) -/
def exWinCfg : Cfg :=
  { maxNesting := 100, chain := [], fns := fun _ _ => none, refs := none, normRef := id,
    entity := fun _ => none, isWhite := fun _ => false, isPunctChar := fun _ => false }

/-- without the `cut` hypothesis: `&#35;` with `M' = 4` (in front of the `;`) — both windows answer 5,
    the match runs over `M'`: the right side holds, the left side does not -/
example :
    verdictOf (ruleEntity exWinCfg (exState ['&', '#', '3', '5', ';'] 0 5) true) = some (some 5) ∧
    verdictOf (ruleEntity exWinCfg ((exState ['&', '#', '3', '5', ';'] 0 5).shrink 4) true) = some (some 5) := by
  decide +kernel

/-- the window decides the branch: `&#35;` with `M' = 1` (in front of the `#`) — the big window answers 5,
    the small one nothing (it tries the NAMED pattern on `&#35;`) -/
example :
    verdictOf (ruleEntity exWinCfg (exState ['&', '#', '3', '5', ';'] 0 5) true) = some (some 5) ∧
    verdictOf (ruleEntity exWinCfg ((exState ['&', '#', '3', '5', ';'] 0 5).shrink 1) true) = some none := by
  decide +kernel

end MdIt.Inline
