/-
  Helper development for `Props/MemoSafe.lean` (continued): WINDOW INDEPENDENCE of the two remaining
  rules pieces without look-ahead recursion — code spans and the inline link tail.

    * `CodePair.scan_window`   — the closer loop under `pos_max = M` and under `pos_max = M' ≤ M`, when the
                                 text `S = src[M'..M]` does not start with the marker: same closer, provided
                                 it ends at or before `M'`;
    * `CodePair.run_window`    — the same for one call of the rule, on ANY cache satisfying `CacheInv`
                                 (through `cache_transparent`: the closer table never changes a verdict);
    * `ruleBackticks_window`   — the statement for `ruleBackticks` in look-ahead mode (verdict only: the
                                 rule also updates the code-span cache);
    * `parseInlineTail_window` — `Link.parseInlineTail dec src a M` against `… a M'`.
-/
import MdIt.Lemmas.MemoSafeWindow

/-! ## the code-span rule of `MdIt.CodePair` -/

namespace MdIt.CodePair

theorem head_append_ne {m : Char} {T S : List Char} (hT : T.head? ≠ some m) (hS : S.head? ≠ some m) :
    (T ++ S).head? ≠ some m := by
  cases T with
  | nil => simpa using hS
  | cons t T => simpa using hT

theorem head_ne_of_not_mem {m : Char} {M : List Char} (hM : m ∉ M) : M.head? ≠ some m := by
  cases M with
  | nil => simp
  | cons a M =>
    simp only [List.mem_cons, not_or] at hM
    simp only [List.head?_cons, ne_eq, Option.some.injEq]
    exact fun e => hM.1 e.symm

theorem runLen_append_stop (m : Char) (a S : List Char) (hS : S.head? ≠ some m) :
    runLen m (a ++ S) = runLen m a := by
  induction a with
  | nil =>
    cases S with
    | nil => rfl
    | cons s S =>
      simp only [List.head?_cons, ne_eq, Option.some.injEq] at hS
      simp [runLen, hS]
  | cons c a ih =>
    simp only [List.cons_append, runLen, ih]

/-- **the closer loop under two values of `pos_max`**: `M` is the text from `match_end` to the small
    `pos_max = M'`, `S` the text from there to the big one; `S` does not start with the marker (no run is
    cut).  The loop finds the same closer under both, provided the closer ends at or before `M'`; the
    caches the two runs write to are arbitrary. -/
theorem scan_window (v : Variant) (m : Char) (hm1 : m.utf8Size = 1) (src : List Char)
    (pos p posMax M' n : Nat) (X0 Z S : List Char) (hS : S.head? ≠ some m) :
    ∀ (M X1 : List Char) (matchEnd : Nat) (c d : Cache) (o : Outcome),
      Frame src pos p posMax matchEnd X0 X1 (M ++ S) Z →
      Frame src pos p M' matchEnd X0 X1 M (S ++ Z) →
      (((∃ c', scan v m src pos posMax n p true matchEnd c = .ok (some o, c')) ∧ pos + o.len ≤ M') ↔
        ∃ d', scan v m src pos M' n p true matchEnd d = .ok (some o, d')) := by
  intro M
  induction M using runs_induction (m := m) with
  | nomark M hM =>
    intro X1 matchEnd c d o fb fs
    have hX : byteLen (X0 ++ X1) = matchEnd := by rw [byteLen_append, fs.hp, fs.hme]
    rw [scan_nomarker v m pos n p true d fs.hsrc hX fs.hpm hM]
    constructor
    · rintro ⟨⟨c', hc'⟩, hle⟩
      exfalso
      have hh : (M ++ S).head? ≠ some m := head_append_ne (head_ne_of_not_mem hM) hS
      obtain ⟨ms, R, hms, hrun, _, ho, _, _⟩ :=
        scan_some v m hm1 src pos p posMax n true X0 Z (M ++ S) X1 matchEnd c o c' fb hh hc'
      obtain ⟨hl, hle2, hall, _, _⟩ := hrun
      have hge : M' ≤ ms := by
        rcases Nat.lt_or_ge ms M' with hlt | hge
        · exfalso
          have hc := hall ms (Nat.le_refl _) (by omega)
          have e : ms = byteLen (X0 ++ X1) + (ms - matchEnd) := by omega
          have hsrc : src = (X0 ++ X1) ++ (M ++ (S ++ Z)) := by rw [fs.hsrc]; simp
          rw [hsrc, e, charAt_append_add] at hc
          exact hM (charAt_mem M _ _ (by have := fs.hpm; omega) m hc)
        · exact hge
      subst ho
      simp only at hle
      have := fs.hpos; have := fs.hme
      omega
    · rintro ⟨d', hd'⟩; cases hd'
  | hit A k T hA hT ih =>
    intro X1 matchEnd c d o fb fs
    have e : A ++ List.replicate (k + 1) m ++ T ++ S = A ++ List.replicate (k + 1) m ++ (T ++ S) := by
      simp
    have fb' : Frame src pos p posMax matchEnd X0 X1 (A ++ List.replicate (k + 1) m ++ (T ++ S)) Z :=
      e ▸ fb
    have hTS := head_append_ne hT hS
    obtain ⟨h1, h2, h3⟩ := fb'.hit_args hm1
    obtain ⟨g1, g2, g3⟩ := fs.hit_args hm1
    rw [scan_hit v m hm1 pos n p true c h1 h2 h3 hA hTS, scan_hit v m hm1 pos n p true d g1 g2 g3 hA hT]
    have hge : pos ≤ matchEnd := by have := fs.hme; have := fs.hpos; omega
    split
    · -- the closer is found under both
      have hnu : ¬ matchEnd + byteLen A + (k + 1) < pos := by omega
      simp only [if_neg hnu, if_true]
      constructor
      · rintro ⟨⟨c', hc'⟩, _⟩; cases hc'; exact ⟨d, rfl⟩
      · rintro ⟨d', hd'⟩; cases hd'; exact ⟨⟨c, rfl⟩, by simp only; omega⟩
    · obtain ⟨mx, hmx, _⟩ := record_spec v.monotone c.max (k + 1) (matchEnd + byteLen A)
      obtain ⟨mx', hmx', _⟩ := record_spec v.monotone d.max (k + 1) (matchEnd + byteLen A)
      rw [hmx, hmx']
      exact ih _ _ _ _ _ (fb'.next hm1) (fs.next hm1)

theorem map_fst_ex {α β ε : Type} {x y : Except ε (α × β)} (h : x.map Prod.fst = y.map Prod.fst)
    (a : α) : (∃ b, x = .ok (a, b)) ↔ (∃ b, y = .ok (a, b)) := by
  cases x with
  | error e1 =>
    cases y with
    | error e2 => simp
    | ok q => simp [Except.map] at h
  | ok p =>
    cases y with
    | error e2 => simp [Except.map] at h
    | ok q =>
      obtain ⟨p1, p2⟩ := p
      obtain ⟨q1, q2⟩ := q
      simp only [Except.map, Except.ok.injEq] at h
      subst h
      simp

theorem append_inj_byteLen' (a b c d : List Char) (h : a ++ b = c ++ d)
    (hl : byteLen a = byteLen c) : a = c ∧ b = d :=
  MdIt.C05.append_inj_byteLen a b c d h
    (by rw [← MdIt.Inline.codeByteLen_eq, ← MdIt.Inline.codeByteLen_eq]; exact hl)

/-- **one call of the rule under two values of `pos_max`**, same cache `c` (any cache satisfying the
    invariant of the closer table): `w' = src[pos..M']`, `S = src[M'..posMax]` does not start with the
    marker.  The verdict `Some(len)` is the same, provided it ends at or before `M'`. -/
theorem run_window (v : Variant) (hr : v.ranged = true) (hck : v.checked = true) (m : Char)
    (hm1 : m.utf8Size = 1) (src : List Char) (pos posMax M' : Nat) (prev : Bool) (c : Cache)
    (hinv : CacheInv m src c)
    (hcutO : posMax = c.scannedTo ∨ NoCut m src posMax)
    (hcutI : M' = c.scannedTo ∨ NoCut m src M')
    {w' S : List Char} (hw' : slice src pos M' = some w') (hne : w' ≠ [])
    (hS : slice src M' posMax = some S) (hSh : S.head? ≠ some m) (o : Outcome) :
    ((∃ c', run v m src pos posMax prev true c = .ok (some o, c')) ∧ pos + o.len ≤ M') ↔
      ∃ d', run v m src pos M' prev true c = .ok (some o, d') := by
  rw [map_fst_ex (cache_transparent v hr hck m hm1 src pos posMax prev true c hinv hcutO) (some o),
    map_fst_ex (cache_transparent v hr hck m hm1 src pos M' prev true c hinv hcutI) (some o)]
  generalize hc0 : ({ c with scanned := false } : Cache) = c0
  have hnc : ∀ q, consultable v pos q c0 = false := by intro q; subst hc0; simp [consultable]
  obtain ⟨x, z', hs1, hx, hxl⟩ := slice_some hw'
  obtain ⟨y, z, hs2, hy, hyl⟩ := slice_some hS
  -- the big window is `w' ++ S`
  have hz' : z' = S ++ z :=
    (append_inj_byteLen' (x ++ w') z' y (S ++ z) (by rw [← hs1, hs2]; simp)
      (by rw [byteLen_append]; omega)).2
  subst hz'
  have hbig : slice src pos posMax = some (w' ++ S) := by
    have := slice_mid x (w' ++ S) z
    rw [byteLen_append, hx] at this
    have e : src = x ++ (w' ++ S) ++ z := by rw [hs1]; simp
    have hpm : posMax = pos + (byteLen w' + byteLen S) := by omega
    rw [hpm]
    rw [← e] at this
    exact this
  cases w' with
  | nil => exact absurd rfl hne
  | cons ch rest' =>
    have hbig' : slice src pos posMax = some (ch :: (rest' ++ S)) := by simpa using hbig
    by_cases hch : ch = m
    · subst hch
      rw [run_marker v ch prev true c0 hbig', run_marker v ch prev true c0 hw']
      simp only [runLen_append_stop ch rest' S hSh, hnc, Bool.false_eq_true, if_false]
      split
      · simp
      · split
        · simp
        · obtain ⟨x2, T, Z', _, _, _, _, fs⟩ := run_frame hm1 hw'
          have hZ : Z' = S ++ z := by
            have h1 := fs.hsrc
            have h2 := fs.hp
            have h3 := fs.hme
            have h4 := fs.hpm
            refine (append_inj_byteLen' (x2 ++ List.replicate (runLen ch rest' + 1) ch ++ [] ++ T) Z' y
              (S ++ z) (by rw [← h1, hs2]; simp) ?_).2
            rw [byteLen_append, byteLen_append, h2]
            simp only [byteLen] at h3 ⊢
            omega
          subst hZ
          have fb : Frame src pos (pos + 1 + runLen ch rest') posMax (pos + 1 + runLen ch rest')
              (x2 ++ List.replicate (runLen ch rest' + 1) ch) [] (T ++ S) z := by
            refine ⟨?_, fs.hp, fs.hme, ?_, fs.hpos⟩
            · rw [fs.hsrc]; simp
            · have := fs.hpm; rw [byteLen_append]; omega
          exact scan_window v ch hm1 src pos _ posMax M' _ _ z S hSh T [] _ c0 c0 o fb fs
    · rw [run_other v m prev true c0 hbig' hch, run_other v m prev true c0 hw' hch]
      simp

end MdIt.CodePair

/-! ## the code-span rule of the inline parser -/

namespace MdIt.Inline
open MdIt.InlineOps (Srcmap getSourcePosFor getMap byteLen slice)
open MdIt.C05 (WFMap byteLen_append slice_ok_iff)

/-- the look-ahead verdict of `ruleBackticks` is the verdict of `CodePair.run` (no node, no `get_map`) -/
theorem ruleBackticks_silent_some (st : IState) (n : Nat) :
    (∃ s1, ruleBackticks st true = .ok (some n, s1)) ↔
      ∃ c', CodePair.run CodePair.Variant.current '`' st.src st.pos st.posMax false true st.backticks
        = .ok (some ⟨n, none⟩, c') := by
  constructor
  · rintro ⟨s1, h⟩
    unfold ruleBackticks at h
    split at h
    · simp at h
    · simp at h
    · next o c hrun =>
      have hn := run_silent_node _ _ _ _ _ _ _ _ _ hrun
      simp only [hn, Except.ok.injEq, Prod.mk.injEq, Option.some.injEq] at h
      refine ⟨c, ?_⟩
      rw [hrun]
      obtain ⟨len, node⟩ := o
      simp only at hn h
      rw [hn, h.1]
  · rintro ⟨c', h⟩
    unfold ruleBackticks
    rw [h]
    exact ⟨_, rfl⟩

/-- **window independence of the code-span rule** (verdict; the rule also updates the code-span cache).
    `CacheInv` is the invariant of the closer table (`CodePair.cacheInv_run`: kept by every call from the
    empty cache); `hnc` is the hypothesis on the OUTER `pos_max` of `CodePair.cache_transparent` (it does
    not cut a run of backticks in two, or is the `pos_max` the table was filled under).  No run is cut at
    `M'`: the character there is `]`. -/
theorem ruleBackticks_window {st : IState} {M' : Nat} (h : WinHyp st M')
    (hinv : CodePair.CacheInv '`' st.src st.backticks)
    (hnc : st.posMax = st.backticks.scannedTo ∨ CodePair.NoCut '`' st.src st.posMax) (n : Nat) :
    ((∃ s1, ruleBackticks st true = .ok (some n, s1)) ∧ st.pos + n ≤ M') ↔
      (∃ s2, ruleBackticks (st.shrink M') true = .ok (some n, s2)) := by
  rw [ruleBackticks_silent_some, ruleBackticks_silent_some]
  show _ ↔ ∃ c', CodePair.run CodePair.Variant.current '`' st.src st.pos M' false true st.backticks = _
  obtain ⟨_, w', _, _, _, hw'len, hsl'⟩ := slice_of_boundaries h.bpos h.bcut (Nat.le_of_lt h.lt)
  obtain ⟨_, S, _, _, _, hSlen, hslS⟩ := slice_of_boundaries h.bcut h.bmax h.le
  have hne : w' ≠ [] := by
    intro e; subst e; have := h.lt; simp only [byteLen] at hw'len; omega
  have hS : S.head? ≠ some '`' ∧
      (M' = st.backticks.scannedTo ∨ CodePair.NoCut '`' st.src M') := by
    rcases h.cut with e | ⟨r, hr⟩
    · have : S = [] := byteLen_eq_zero (by omega)
      subst this; exact ⟨by simp, by rw [e]; exact hnc⟩
    · rw [hslS] at hr
      simp only [Except.ok.injEq] at hr
      subst hr
      refine ⟨by simp, .inr ?_⟩
      rintro ⟨_, _, hc⟩
      obtain ⟨p, q, e, l1, _⟩ := (slice_ok_iff _ _ _ _).mp hslS
      have hat : CodePair.charAt st.src M' = some ']' := by
        have := CodePair.charAt_append_add p (']' :: r ++ q) 0
        rw [CodePair.charAt_zero, codeByteLen_eq, l1] at this
        rw [e, List.append_assoc]
        simpa using this
      rw [hat] at hc
      exact absurd hc (by decide)
  exact CodePair.run_window CodePair.Variant.current rfl rfl '`' backtick_size st.src st.pos st.posMax M'
    false st.backticks hinv hnc hS.2 ((codeSlice_eq _ _ _ _).mpr hsl') hne
    ((codeSlice_eq _ _ _ _).mpr hslS) hS.1 ⟨n, none⟩

/-- without the `cut` hypothesis: `` `a`` `` with `M' = 3` cuts the run of two backticks — the big window
    finds no closer of length 1, the small one does (`CodePair.cut_posmax_needs_hypothesis`) -/
example :
    verdictOf (ruleBackticks (exState ['`', 'a', '`', '`'] 0 4) true) = some none ∧
    verdictOf (ruleBackticks ((exState ['`', 'a', '`', '`'] 0 4).shrink 3) true) = some (some 3) := by
  decide +kernel

/-- with it (`` `a`] ``, `M' = 3`): both answer 3 -/
example :
    verdictOf (ruleBackticks (exState ['`', 'a', '`', ']'] 0 4) true) = some (some 3) ∧
    verdictOf (ruleBackticks ((exState ['`', 'a', '`', ']'] 0 4).shrink 3) true) = some (some 3) := by
  decide +kernel

end MdIt.Inline

/-! ## the inline link tail `(<dest> "title")`

  The scanners of `Link.parseInlineTail` (`skipWs`, `angleLoop`, `bareLoop`, `titleLoop`) read
  `src[p..max]` from the left and stop at a character they recognise; their answers are determined by
  the text up to and including that character.  First the converses of the shape theorems of
  `Props/C04.lean` (`angleLoop_spec`, `bareLoop_spec`, `titleLoop_spec`), then the transfer of an answer
  from one window `u ++ t1` to another `u ++ t2` with the same beginning `u`. -/

namespace MdIt.Link

theorem append_prefix' (a b c d : List Char) (h : a ++ b = c ++ d) (hl : byteLen a ≤ byteLen c) :
    ∃ w, c = a ++ w ∧ b = w ++ d :=
  MdIt.Inline.append_prefix a b c d h
    (by rw [← MdIt.Inline.linkByteLen_eq, ← MdIt.Inline.linkByteLen_eq]; exact hl)

theorem byteLen_pos' {l : List Char} (h : l ≠ []) : 0 < byteLen l := by
  cases l with
  | nil => exact absurd rfl h
  | cons c r => have := clen_pos c; simp only [byteLen]; omega

/-- converse of `angleLoop_spec` -/
theorem angleLoop_complete {pre : List Char} (h : AngleToks pre) (suf : List Char) (p0 : Nat) :
    angleLoop (pre ++ '>' :: suf) p0 = some (p0 + byteLen pre) := by
  induction h generalizing p0 with
  | nil => rw [angleLoop.eq_def]; simp [byteLen]
  | esc x r hx _ ih =>
    rw [List.cons_append, List.cons_append, angleLoop.eq_def]
    simp [hx, ih, byteLen, clen_bs]; omega
  | plain c r h1 h2 h3 h4 _ ih =>
    rw [List.cons_append, angleLoop.eq_def]
    simp [h1, h2, h3, h4, ih, byteLen]; omega

/-- converse of `bareLoop_spec` -/
theorem bareLoop_complete {l0 l : Nat} {pre : List Char} (h : BareToks l0 pre l) (suf : List Char)
    (he : BareEnd l suf) (p0 : Nat) : bareLoop (pre ++ suf) p0 l0 = some (p0 + byteLen pre, l) := by
  induction h generalizing p0 with
  | nil l =>
    simp only [List.nil_append, byteLen, Nat.add_zero]
    rw [bareLoop.eq_def]
    rcases he with rfl | ⟨c, r, rfl, hc⟩ | rfl | ⟨x, r, rfl, hx⟩ | ⟨rfl, r, rfl⟩
    · simp
    · simp [hc]
    · simp [isBareStop_bs]
    · simp [isBareStop_bs, hx]
    · simp [isBareStop_rp]
  | esc l l' x r hx _ ih =>
    rw [List.cons_append, List.cons_append, bareLoop.eq_def]
    simp [isBareStop_bs, hx, ih he, byteLen, clen_bs]; omega
  | opn l l' r hl _ ih =>
    rw [List.cons_append, bareLoop.eq_def]
    simp [isBareStop_lp, ih he, show ¬ 32 < l + 1 by omega, byteLen, clen_lp]; omega
  | cls l l' r hl _ ih =>
    rw [List.cons_append, bareLoop.eq_def]
    simp [isBareStop_rp, ih he, hl, byteLen, clen_rp]; omega
  | plain l l' c r h1 h2 h3 h4 _ ih =>
    rw [List.cons_append, bareLoop.eq_def]
    simp [h1, h2, h3, h4, ih he, byteLen]; omega

/-- converse of `titleLoop_spec` (the closing markers are `"`, `'`, `)`: neither line feed nor
    backslash) -/
theorem titleLoop_complete {m : Char} (hm1 : m ≠ '\n') (hm2 : m ≠ '\\') {pre : List Char} {n : Nat}
    (h : TitleToks m pre n) (suf : List Char) (p0 l0 : Nat) :
    titleLoop m (pre ++ m :: suf) p0 l0 = some (p0 + byteLen pre, l0 + n) := by
  induction h generalizing p0 l0 with
  | nil => rw [titleLoop.eq_def]; simp [byteLen]
  | nl r n _ ih =>
    rw [List.cons_append, titleLoop.eq_def]
    simp [Ne.symm hm1, ih, byteLen, clen_nl]; omega
  | esc x r n _ ih =>
    rw [List.cons_append, List.cons_append, titleLoop.eq_def]
    by_cases hx : x = '\n' <;> simp [Ne.symm hm2, ih, byteLen, clen_bs, hx] <;> omega
  | plain c r n h1 h2 h3 h4 _ ih =>
    rw [List.cons_append, titleLoop.eq_def]
    simp [h1, h2, h3, h4, ih, byteLen]; omega

/-! ### transfer between two windows with the same beginning -/

theorem append_inj' (a b c d : List Char) (h : a ++ b = c ++ d) (hl : byteLen a = byteLen c) :
    a = c ∧ b = d :=
  MdIt.C05.append_inj_byteLen a b c d h
    (by rw [← MdIt.Inline.linkByteLen_eq, ← MdIt.Inline.linkByteLen_eq]; exact hl)

/-- `skipWs`: an answer inside the common beginning `u` does not depend on what follows `u` -/
theorem skipWs_transfer (u t1 t2 : List Char) (p : Nat) (h : skipWs (u ++ t1) p < p + byteLen u) :
    skipWs (u ++ t2) p = skipWs (u ++ t1) p := by
  induction u generalizing p with
  | nil => have := MdIt.Inline.skipWs_ge t1 p; simp only [List.nil_append, byteLen] at h; omega
  | cons c cs ih =>
    simp only [List.cons_append, skipWs] at h ⊢
    by_cases hw : isWs c = true
    · simp only [hw, if_true] at h ⊢
      exact ih (p + 1) (by simp only [byteLen, isWs_clen c hw] at h; omega)
    · simp only [hw] at h ⊢
      simp

theorem angleLoop_transfer (u t1 t2 : List Char) (p0 pos : Nat)
    (h : angleLoop (u ++ t1) p0 = some pos) (hlt : pos < p0 + byteLen u) :
    angleLoop (u ++ t2) p0 = some pos := by
  obtain ⟨pre, suf, e, hp, ht⟩ := angleLoop_spec _ _ _ h
  obtain ⟨w, hw, hsuf⟩ := append_prefix' pre ('>' :: suf) u t1 e.symm (by omega)
  cases w with
  | nil => rw [hw] at hlt; simp only [List.append_nil] at hlt; omega
  | cons x w' =>
    simp only [List.cons_append, List.cons.injEq] at hsuf
    obtain ⟨rfl, _⟩ := hsuf
    rw [hw, hp, List.append_assoc, List.cons_append]
    exact angleLoop_complete ht _ _

theorem titleLoop_transfer {m : Char} (hm1 : m ≠ '\n') (hm2 : m ≠ '\\') (u t1 t2 : List Char)
    (p0 l0 pos l : Nat) (h : titleLoop m (u ++ t1) p0 l0 = some (pos, l))
    (hlt : pos < p0 + byteLen u) : titleLoop m (u ++ t2) p0 l0 = some (pos, l) := by
  obtain ⟨pre, suf, n, e, hp, hl, ht⟩ := titleLoop_spec _ _ _ _ _ _ h
  obtain ⟨w, hw, hsuf⟩ := append_prefix' pre (m :: suf) u t1 e.symm (by omega)
  cases w with
  | nil => rw [hw] at hlt; simp only [List.append_nil] at hlt; omega
  | cons x w' =>
    simp only [List.cons_append, List.cons.injEq] at hsuf
    obtain ⟨rfl, _⟩ := hsuf
    rw [hw, hp, hl, List.append_assoc, List.cons_append]
    exact titleLoop_complete hm1 hm2 ht _ _ _

/-- the bare scan: besides `pos < end of u`, the character the scan stopped at must not be a backslash
    (a backslash at the very end of the window stops the scan, a backslash followed by an ordinary
    character does not) -/
theorem bareLoop_transfer (u t1 t2 : List Char) (p0 l0 pos l : Nat)
    (h : bareLoop (u ++ t1) p0 l0 = some (pos, l)) (hlt : pos < p0 + byteLen u)
    (hbs : ∀ pre c r, u = pre ++ c :: r → p0 + byteLen pre = pos → c ≠ '\\') :
    bareLoop (u ++ t2) p0 l0 = some (pos, l) := by
  obtain ⟨pre, suf, e, hp, ht, he⟩ := bareLoop_spec _ _ _ _ _ h
  obtain ⟨w, hw, hsuf⟩ := append_prefix' pre suf u t1 e.symm (by omega)
  cases w with
  | nil => rw [hw] at hlt; simp only [List.append_nil] at hlt; omega
  | cons c r =>
    have hc := hbs pre c r hw hp.symm
    have he2 : BareEnd l (c :: r ++ t2) := by
      subst hsuf
      rcases he with h0 | ⟨c', r', h1, hst⟩ | h1 | ⟨x, r', h1, _⟩ | ⟨hl, r', h1⟩
      · simp at h0
      · simp only [List.cons_append, List.cons.injEq] at h1
        obtain ⟨rfl, _⟩ := h1
        exact .inr (.inl ⟨c, r ++ t2, rfl, hst⟩)
      · simp only [List.cons_append, List.cons.injEq] at h1
        exact absurd h1.1 hc
      · simp only [List.cons_append, List.cons.injEq] at h1
        exact absurd h1.1 hc
      · simp only [List.cons_append, List.cons.injEq] at h1
        obtain ⟨rfl, _⟩ := h1
        exact .inr (.inr (.inr (.inr ⟨hl, r ++ t2, rfl⟩)))
    rw [hw, hp, List.append_assoc]
    exact bareLoop_complete ht _ he2 _

/-! ### the two windows of a source -/

/-- two values `m1`, `m2` of `max` behind a common boundary `K`: `t1 = src[K..m1]`, `t2 = src[K..m2]` -/
structure Win (src : List Char) (K m1 m2 : Nat) (t1 t2 : List Char) : Prop where
  s1 : slice src K m1 = .ok t1
  s2 : slice src K m2 = .ok t2

theorem Win.symm {src : List Char} {K m1 m2 : Nat} {t1 t2 : List Char} (w : Win src K m1 m2 t1 t2) :
    Win src K m2 m1 t2 t1 := ⟨w.s2, w.s1⟩

theorem slice_boundary_left {src t : List Char} {a b : Nat} (h : slice src a b = .ok t) :
    Boundary src a := by
  obtain ⟨pre, post, e, l1, _⟩ := (slice_ok_iff _ _ _ _).1 h
  exact ⟨pre, t ++ post, by rw [e]; simp, l1⟩

/-- from a boundary `q ≤ K` the two windows are `u ++ t1` and `u ++ t2` with `u = src[q..K]` -/
theorem Win.at {src : List Char} {K m1 m2 : Nat} {t1 t2 : List Char} (w : Win src K m1 m2 t1 t2)
    {q : Nat} (hq : Boundary src q) (hle : q ≤ K) :
    ∃ u, q + byteLen u = K ∧ slice src q m1 = .ok (u ++ t1) ∧ slice src q m2 = .ok (u ++ t2) := by
  obtain ⟨P, Q, hPQ, hP⟩ := hq
  obtain ⟨A, B1, e1, lA, lm1⟩ := (slice_ok_iff _ _ _ _).1 w.s1
  obtain ⟨A', B2, e2, lA', lm2⟩ := (slice_ok_iff _ _ _ _).1 w.s2
  have hAA : A = A' ∧ t1 ++ B1 = t2 ++ B2 :=
    append_inj' A (t1 ++ B1) A' (t2 ++ B2) (by rw [← List.append_assoc, ← List.append_assoc, ← e1, ← e2])
      (by omega)
  obtain ⟨u, hu, hQ⟩ := append_prefix' P Q A (t1 ++ B1) (by rw [← hPQ, e1]; simp) (by omega)
  have hlen : q + byteLen u = K := by rw [← lA, hu, byteLen_append]; omega
  refine ⟨u, hlen, ?_, ?_⟩
  · refine (slice_ok_iff _ _ _ _).2 ⟨P, B1, ?_, hP, ?_⟩
    · rw [hPQ, hQ]; simp
    · rw [byteLen_append]; omega
  · refine (slice_ok_iff _ _ _ _).2 ⟨P, B2, ?_, hP, ?_⟩
    · rw [hPQ, hQ, hAA.2]; simp
    · rw [byteLen_append]; omega

/-- the character at a position before `K` is the same in both windows -/
theorem Win.head {src : List Char} {K m1 m2 : Nat} {t1 t2 : List Char} (w : Win src K m1 m2 t1 t2)
    {q : Nat} (hlt : q < K) {c : Char} {r : List Char} (h : slice src q m1 = .ok (c :: r)) :
    ∃ r2, slice src q m2 = .ok (c :: r2) := by
  obtain ⟨u, hlen, h1, h2⟩ := w.at (slice_boundary_left h) (Nat.le_of_lt hlt)
  cases u with
  | nil => simp only [byteLen] at hlen; omega
  | cons c' u' =>
    rw [h1] at h
    simp only [Except.ok.injEq, List.cons_append, List.cons.injEq] at h
    exact ⟨u' ++ t2, by rw [h2, ← h.1]; rfl⟩

/-- **destination**: the same answer under both windows when it ends before `K` and the character it
    stopped at is not a backslash -/
theorem dest_transfer {src : List Char} {p m1 m2 : Nat} {u t1 t2 : List Char} {res : Frag}
    (h1 : slice src p m1 = .ok (u ++ t1)) (h2 : slice src p m2 = .ok (u ++ t2))
    (hd : parseLinkDestination src p m1 = .ok (some res)) (hlt : res.pos < p + byteLen u)
    (hbs : ∀ c r, slice src res.pos m1 = .ok (c :: r) → c ≠ '\\') :
    parseLinkDestination src p m2 = .ok (some res) := by
  have hge := (dest_pos_bounds src p m1 res hd).1
  cases u with
  | nil => simp only [byteLen] at hlt; omega
  | cons c0 u' =>
    unfold parseLinkDestination at hd ⊢
    rw [h1] at hd
    rw [h2]
    by_cases hc0 : c0 = '<'
    · subst hc0
      simp only [List.cons_append] at hd ⊢
      cases ha : angleLoop (u' ++ t1) (p + 1) with
      | none => simp [ha] at hd
      | some pos =>
        simp only [ha] at hd
        cases hr : slice src (p + 1) pos with
        | error e => simp [hr] at hd
        | ok raw =>
          simp only [hr, Except.ok.injEq, Option.some.injEq] at hd
          subst hd
          simp only [byteLen, clen_lt] at hlt
          rw [angleLoop_transfer u' t1 t2 (p + 1) pos ha (by omega)]
          simp only [hr]
    · simp only [List.cons_append] at hd ⊢
      split at hd
      · next rest heq => simp only [List.cons.injEq] at heq; exact absurd heq.1 hc0
      · split
        · next rest heq => simp only [List.cons.injEq] at heq; exact absurd heq.1 hc0
        · cases hb : bareLoop (c0 :: (u' ++ t1)) p 0 with
          | none => simp [hb] at hd
          | some pl =>
            obtain ⟨pos, l⟩ := pl
            simp only [hb] at hd
            split at hd
            · simp at hd
            · next hl0 =>
              cases hr : slice src p pos with
              | error e => simp [hr] at hd
              | ok raw =>
                simp only [hr, Except.ok.injEq, Option.some.injEq] at hd
                subst hd
                have hb' : bareLoop ((c0 :: u') ++ t1) p 0 = some (pos, l) := hb
                have := bareLoop_transfer (c0 :: u') t1 t2 p 0 pos l hb' hlt (by
                  intro pre c r hu hp
                  apply hbs c (r ++ t1)
                  have := slice_drop src pre (c :: r ++ t1) p m1 (by rw [h1, hu]; simp)
                  rw [hp] at this
                  exact this)
                simp only [List.cons_append] at this
                simp only [this, hr, if_neg hl0]

/-- **title**: the same answer under both windows when it ends at or before `K` -/
theorem title_transfer {src : List Char} {p m1 m2 : Nat} {u t1 t2 : List Char} {t : Frag}
    (h1 : slice src p m1 = .ok (u ++ t1)) (h2 : slice src p m2 = .ok (u ++ t2))
    (ht : parseLinkTitle src p m1 = .ok (some t)) (hle : t.pos ≤ p + byteLen u) :
    parseLinkTitle src p m2 = .ok (some t) := by
  obtain ⟨_, _, _, _, _, hpos, _⟩ := title_delims src p m1 t ht
  cases u with
  | nil => simp only [byteLen] at hle; omega
  | cons c0 u' =>
    unfold parseLinkTitle at ht ⊢
    rw [h1] at ht
    rw [h2]
    simp only [List.cons_append] at ht ⊢
    cases hmk : titleMarker c0 with
    | none => simp [hmk] at ht
    | some mk =>
      simp only [hmk] at ht ⊢
      cases hl : titleLoop mk (u' ++ t1) (p + 1) 0 with
      | none => simp [hl] at ht
      | some pl =>
        obtain ⟨pos, lines⟩ := pl
        simp only [hl] at ht
        cases hr : slice src (p + 1) pos with
        | error e => simp [hr] at ht
        | ok raw =>
          simp only [hr, Except.ok.injEq, Option.some.injEq] at ht
          subst ht
          have hmk' := titleMarker_some c0 mk hmk
          have hm1 : mk ≠ '\n' := by
            rcases hmk' with ⟨_, rfl⟩ | ⟨_, rfl⟩ | ⟨_, rfl⟩ <;> decide
          have hm2 : mk ≠ '\\' := by
            rcases hmk' with ⟨_, rfl⟩ | ⟨_, rfl⟩ | ⟨_, rfl⟩ <;> decide
          have hc := (titleMarker_clen c0 mk hmk).1
          simp only [byteLen, hc] at hle
          rw [titleLoop_transfer hm1 hm2 u' t1 t2 (p + 1) 0 pos lines hl (by omega)]
          simp only [hr]

/-- what stands right behind a destination that is followed by a successful rest `… )`: not a
    backslash (a backslash is neither a blank, nor a title opener, nor `)`) -/
theorem titlePart_first {dec : List Char → List Char} {src : List Char} {max q p4 : Nat}
    {href h' : Option (List Nat)} {title : Option (List Char)} {c : Char} {r r' : List Char}
    (hs : slice src q max = .ok (c :: r))
    (hst : inlineTitlePart dec src max href q = .ok (h', title, p4))
    (hfin : slice src p4 max = .ok (')' :: r')) : c ≠ '\\' := by
  rintro rfl
  have htn : parseLinkTitle src q max = .ok none := by
    unfold parseLinkTitle
    rw [hs]
    have : titleMarker '\\' = none := by decide
    simp only [this]
  unfold inlineTitlePart at hst
  rw [hs] at hst
  simp only [skipWs_nonws '\\' r q (by decide), htn, Except.ok.injEq, Prod.mk.injEq] at hst
  obtain ⟨_, _, rfl⟩ := hst
  rw [hs] at hfin
  simp only [Except.ok.injEq, List.cons.injEq] at hfin
  exact absurd hfin.1 (by decide)

/-- **blanks, optional title, blanks, `)`**: the same answer under both windows when the `)` stands
    before `K` -/
theorem titlePart_transfer {dec : List Char → List Char} {src : List Char} {K m1 m2 : Nat}
    {t1 t2 : List Char} (w : Win src K m1 m2 t1 t2) {q p4 : Nat} {href h' : Option (List Nat)}
    {title : Option (List Char)} {r : List Char} (hq : Boundary src q) (hqK : q ≤ K)
    (hst : inlineTitlePart dec src m1 href q = .ok (h', title, p4))
    (hfin : slice src p4 m1 = .ok (')' :: r)) (hlt : p4 < K) :
    inlineTitlePart dec src m2 href q = .ok (h', title, p4) ∧
      ∃ r2, slice src p4 m2 = .ok (')' :: r2) := by
  refine ⟨?_, w.head hlt hfin⟩
  obtain ⟨u, hlen, hu1, hu2⟩ := w.at hq hqK
  have hge := MdIt.Inline.titlePart_ge hst
  unfold inlineTitlePart at hst ⊢
  rw [hu1] at hst
  rw [hu2]
  simp only at hst ⊢
  have hb3 : Boundary src (skipWs (u ++ t1) q) := by
    obtain ⟨c3, hs3⟩ := inwin_skipWs src (u ++ t1) m1 q hu1
    exact slice_boundary_left hs3
  cases ht : parseLinkTitle src (skipWs (u ++ t1) q) m1 with
  | error e => simp [ht] at hst
  | ok topt =>
    cases topt with
    | none =>
      simp only [ht, Except.ok.injEq, Prod.mk.injEq] at hst
      obtain ⟨rfl, rfl, rfl⟩ := hst
      rw [skipWs_transfer u t1 t2 q (by omega)]
      -- the character there is `)`: no title under the other window either
      obtain ⟨r2, hr2⟩ := w.head hlt hfin
      have htn : parseLinkTitle src (skipWs (u ++ t1) q) m2 = .ok none := by
        unfold parseLinkTitle
        rw [hr2]
        have : titleMarker ')' = none := by decide
        simp only [this]
      simp only [htn]
    | some t =>
      simp only [ht] at hst
      obtain ⟨_, _, _, _, _, hpos, _, _, _, hbt⟩ := title_delims src _ m1 t ht
      cases hs4 : slice src t.pos m1 with
      | error e => simp [hs4] at hst
      | ok chars4 =>
        simp only [hs4, Except.ok.injEq, Prod.mk.injEq] at hst
        obtain ⟨rfl, rfl, rfl⟩ := hst
        have hge4 := MdIt.Inline.skipWs_ge chars4 t.pos
        obtain ⟨u4, hlen4, hu41, hu42⟩ := w.at hbt (by omega)
        rw [hu41] at hs4
        simp only [Except.ok.injEq] at hs4
        subst hs4
        have hge3 : skipWs (u ++ t1) q ≤ t.pos := by omega
        rw [skipWs_transfer u t1 t2 q (by omega)]
        obtain ⟨u3, hlen3, hu31, hu32⟩ := w.at hb3 (by omega)
        rw [title_transfer hu31 hu32 ht (by omega)]
        simp only [hu42]
        rw [skipWs_transfer u4 t1 t2 t.pos (by omega)]

/-- **the inline tail under two windows**: an inline link found under `max = m1` that ends at or before
    the common boundary `K` is found under `max = m2` too.  (`DecOk`: the decoder keeps a leading `"`,
    `'`, `(` — then a destination that starts with a title opener is never rejected,
    `inlineDest_opener`; without it the lemma is false, see `tail_window_needs_decOk`.) -/
theorem tail_transfer {dec : List Char → List Char} (hdec : DecOk dec) {src : List Char}
    {K m1 m2 : Nat} {t1 t2 : List Char} (w : Win src K m1 m2 t1 t2) {a : Nat} {il : InlineLink}
    (h : parseInlineTail dec src a m1 = .ok (some il)) (hK : il.endPos ≤ K) :
    parseInlineTail dec src a m2 = .ok (some il) := by
  have hgt := MdIt.Inline.tail_end_gt h
  unfold parseInlineTail at h
  cases hs : slice src a m1 with
  | error e => simp [hs] at h
  | ok chars =>
    obtain ⟨u, hlen, hu1, hu2⟩ := w.at (slice_boundary_left hs) (by omega)
    rw [hu1] at hs
    simp only [Except.ok.injEq] at hs
    subst hs
    simp only [hu1] at h
    cases u with
    | nil => simp only [byteLen] at hlen; omega
    | cons c0 u' =>
      by_cases hc0 : c0 = '('
      · subst hc0
        simp only [List.cons_append] at h hu1 hu2
        simp only [byteLen, clen_lp] at hlen
        have hrest : slice src (a + 1) m1 = .ok (u' ++ t1) := by
          have := slice_drop src ['('] (u' ++ t1) a m1 (by simpa using hu1)
          simpa [byteLen, clen_lp] using this
        have hb1 : Boundary src (skipWs (u' ++ t1) (a + 1)) := by
          obtain ⟨c1, hs1⟩ := inwin_skipWs src (u' ++ t1) m1 (a + 1) hrest
          exact slice_boundary_left hs1
        have hge1 := MdIt.Inline.skipWs_ge (u' ++ t1) (a + 1)
        cases hd : parseLinkDestination src (skipWs (u' ++ t1) (a + 1)) m1 with
        | error e => simp [hd] at h
        | ok dest =>
          simp only [hd] at h
          cases dest with
          | none =>
            simp only at h
            split at h
            · cases h
            · rename_i r hfin
              rw [dest_of_rparen src r _ m1 hfin] at hd
              cases hd
            · cases h
          | some res =>
            simp only at h
            cases hst : inlineAfterDest dec src (skipWs (u' ++ t1) (a + 1)) m1 res with
            | error e => simp [hst] at h
            | ok st =>
              obtain ⟨href, title, p4⟩ := st
              simp only [hst] at h
              split at h
              · cases h
              · rename_i r hfin
                simp only [Except.ok.injEq, Option.some.injEq] at h
                subst h
                simp only at hK
                cases hacc : inlineDest dec res.raw with
                | none =>
                  exact (afterDest_rejected dec hdec src _ m1 res hd hacc href title p4 hst r hfin).elim
                | some uu =>
                  have hst' : inlineTitlePart dec src m1 (some uu) res.pos = .ok (href, title, p4) := by
                    unfold inlineAfterDest at hst
                    simpa only [hacc] using hst
                  obtain ⟨hge2, _, hbres⟩ := dest_pos_bounds src _ m1 res hd
                  have hge3 := MdIt.Inline.titlePart_ge hst'
                  -- blanks behind `(`
                  have hsk := skipWs_transfer u' t1 t2 (a + 1) (by omega)
                  -- destination
                  obtain ⟨u1, hlen1, hu11, hu12⟩ := w.at hb1 (by omega)
                  have hd2 := dest_transfer hu11 hu12 hd (by omega)
                    (fun c r hs => titlePart_first hs hst' hfin)
                  -- the rest
                  obtain ⟨hst2, r2, hfin2⟩ := titlePart_transfer w hbres (by omega) hst' hfin (by omega)
                  unfold parseInlineTail
                  simp only [hu2, hsk, hd2, inlineAfterDest, hacc, hst2, hfin2]
              · cases h
      · simp only [List.cons_append] at h
        split at h
        · next rest heq => simp only [List.cons.injEq] at heq; exact absurd heq.1 hc0
        · cases h

end MdIt.Link

/-! ### the statement -/

namespace MdIt.Inline
open MdIt.InlineOps (Srcmap getSourcePosFor getMap byteLen slice)
open MdIt.C05 (WFMap byteLen_append slice_ok_iff)

/-- **window independence of the inline link tail** `(<dest> "title")`.  No condition on the character
    at `M'` is needed (the inline form ends with its `)`: everything the scanners looked at lies before
    `il.endPos`), only that `M'` and `M` are character boundaries; `Link.DecOk dec` is the hypothesis of
    `Link.rejected_stays_literal` on the decoder (`decOk_unescapeAll`: `unescape_all` satisfies it). -/
theorem parseInlineTail_window {dec : List Char → List Char} (hdec : Link.DecOk dec) {src : List Char}
    {a M' M : Nat} (hM' : Boundary src M') (hM : Boundary src M) (hle : M' ≤ M)
    (il : Link.InlineLink) :
    (Link.parseInlineTail dec src a M = .ok (some il) ∧ il.endPos ≤ M') ↔
      Link.parseInlineTail dec src a M' = .ok (some il) := by
  obtain ⟨_, S, _, _, _, _, hS⟩ := slice_of_boundaries hM' hM hle
  obtain ⟨_, E, _, _, hE0, _, hE⟩ := slice_of_boundaries hM' hM' (Nat.le_refl _)
  have w : Link.Win src M' M M' S E := ⟨(linkSlice_eq _ _ _ _).mpr hS, (linkSlice_eq _ _ _ _).mpr hE⟩
  constructor
  · rintro ⟨h, hK⟩
    exact Link.tail_transfer hdec w h hK
  · intro h
    have hK := (tail_end_bounds h).1
    exact ⟨Link.tail_transfer hdec w.symm h hK, hK⟩

/-- `unescape_all` satisfies `Link.DecOk`: the empty text stays empty, and a leading `"`, `'`, `(`
    (neither a backslash nor an ampersand) is copied -/
theorem decOk_unescapeAll (lookup : List Char → Option (List Char)) :
    Link.DecOk (Entity.unescapeAll lookup) := by
  refine ⟨by simp [Entity.unescapeAll], ?_⟩
  intro o m r hm
  rcases Link.titleMarker_some o m hm with ⟨rfl, _⟩ | ⟨rfl, _⟩ | ⟨rfl, _⟩
  all_goals
    unfold Entity.unescapeAll
    split
    · exact ⟨r, rfl⟩
    · refine ⟨Entity.unescapeScan lookup 0 r, ?_⟩
      simp [Entity.unescapeScan, Entity.matchUnescapeAllRe, Entity.matchEscapeRe, Entity.matchEntityRe]

section TailExamples

local instance {α : Type} [DecidableEq α] : DecidableEq (Except Link.Panic α) := Link.resultDecEq

/-- `(/u)]x` with `M = 6`, `M' = 4` (the position of the `]`): the same link under both -/
example :
    Link.parseInlineTail id ['(', '/', 'u', ')', ']', 'x'] 0 6 = .ok (some ⟨some [47, 117], none, 4⟩) ∧
    Link.parseInlineTail id ['(', '/', 'u', ')', ']', 'x'] 0 4 = .ok (some ⟨some [47, 117], none, 4⟩) := by
  decide +kernel

/-- `il.endPos ≤ M'` is needed: `(a]b)` with `M' = 2` (the position of the `]`; a `]` is an ordinary
    character of a destination) — the big window finds the link, the small one nothing -/
example :
    Link.parseInlineTail id ['(', 'a', ']', 'b', ')'] 0 5 = .ok (some ⟨some [97, 37, 53, 68, 98], none, 5⟩) ∧
    Link.parseInlineTail id ['(', 'a', ']', 'b', ')'] 0 2 = .ok none := by
  decide +kernel

/-- a decoder that does NOT satisfy `DecOk`: it turns one text that starts with `"` into `javascript:` -/
def badDec (raw : List Char) : List Char :=
  if raw = ['"', '(', '"', ')', 'x', ']', 'y'] then ['j', 'a', 'v', 'a', 's', 'c', 'r', 'i', 'p', 't', ':']
  else raw

/-- **`DecOk` is needed**: `("(")x]y)` with `M' = 6` (the position of the `]`).  Under the big window the
    bare destination `"(")x]y` is REJECTED, `parse_link` goes on from the old position, reads `"("` as
    the title and ends at the first `)` (5 ≤ `M'`); under the small window the destination is `"(")x`,
    accepted, and nothing follows it. -/
theorem tail_window_needs_decOk :
    Link.parseInlineTail badDec ['(', '"', '(', '"', ')', 'x', ']', 'y', ')'] 0 9 =
        .ok (some ⟨none, some ['('], 5⟩) ∧
    Link.parseInlineTail badDec ['(', '"', '(', '"', ')', 'x', ']', 'y', ')'] 0 6 = .ok none := by
  decide +kernel

end TailExamples

/-- the same under `WinHyp` (the window of a state) -/
theorem parseInlineTail_window' {dec : List Char → List Char} (hdec : Link.DecOk dec) {st : IState}
    {M' : Nat} (h : WinHyp st M') (a : Nat) (il : Link.InlineLink) :
    (Link.parseInlineTail dec st.src a st.posMax = .ok (some il) ∧ il.endPos ≤ M') ↔
      Link.parseInlineTail dec st.src a M' = .ok (some il) :=
  parseInlineTail_window hdec h.bcut h.bmax h.le il

end MdIt.Inline
