/-
  Every block range starts at a byte of its own.

      parseBlocks_anchored   parseBlocks cfg src = .ok (root, refs)  →
          AllRangesL (fun a b => a < b ∧ OnByte src a) root.children

  for EVERY configuration (any chain, any `max_nesting`) and every source: each node below the root
  that carries a range `(a, b)` has `a < b`, and a character that is neither LF nor CR starts at byte
  offset `a` of `src` (placeholders `⟨.inlineRoot c m, none, []⟩` carry no range; the root's own range
  `(0, |src|)` is not covered — it is empty for the empty document).

  How (files `MdIt/Lemmas/C10SpFullBlock{Core,Leaf,Para,Quote,List,Engine}.lean`, namespace
  `MdIt.Block.LX.Y`): a variant of the lock-step simulation `LX` (`MdIt/Lemmas/C10SourceposSim*.lean`) in
  which the ranges of the two trees are related AS PAIRS by a relation `τ` that the context supplies
  from the geometry of the two line tables — `Ctx.rng`: for lines `i ≤ j`, `τ` holds of
  `(line_startᵢ + d, line_endⱼ)` on both sides for every `d` strictly inside line `i` on a character
  boundary.  Every range the nine rules build has this form, provided its START LINE IS NOT EMPTY:
    * all ranges but one are `get_map(start, e) = (first_nonspace(start), line_end(e))`, `start ≤ e`;
      the indented code block starts at `line_start + first` with `first ≤ first_nonspace - line_start`
      (`getLines_head_sim`);
    * a rule runs in real mode only from `tokLoop`, behind `skip_empty_lines` and below `line_max`
      (`skipEmpty_live`), rules that answer `false` hand the state back (`RunSpec.false_same`), so the
      line a rule starts on is not empty (`Live`); the containers call `get_map` on the table they
      started with (block quote: `bqScan_spec` + frame of the nested tokenizer; list: `listLoop_spec`;
      list item: right after writing the item's first-line entry back), and every list item but the
      first starts on a line on which `listContinue` has just read a marker.
  Instantiated with both sides equal, `τ x y := x = y ∧ x.1 < x.2 ∧ OnByte src x.1` (lines of
  `linesT src` contain neither LF nor CR: `Lines.split_entry`).  NO rule that can produce an empty
  range or a range starting at a line terminator was found.

  Second instance (two documents, STRICT on placeholders): `parseBlocks_crlf_strict` — the trees of
  `src` and `lfToCrlf src` are related with `C10SP.crlfRel src` on both ends of every range AND on every
  value of every placeholder table (`KRelS`: unlike `LE.KRel`, two placeholders are related only
  through `MRel` of their tables).
-/
import MdIt.Lemmas.C10SpFullBlockEngine
import MdIt.Lemmas.BlockTotalCore

namespace MdIt.Block

/-- a character that is neither LF nor CR starts at byte offset `a` of `src` -/
def OnByte (src : List Char) (a : Nat) : Prop :=
  ∃ p c q, src = p ++ c :: q ∧ Lines.byteLen p = a ∧ c ≠ '\n' ∧ c ≠ '\r'

mutual
def AllRanges (P : Nat → Nat → Prop) : BNode → Prop
  | ⟨_, r, cs⟩ => (∀ a b, r = some (a, b) → P a b) ∧ AllRangesL P cs
def AllRangesL (P : Nat → Nat → Prop) : List BNode → Prop
  | [] => True
  | c :: cs => AllRanges P c ∧ AllRangesL P cs
end

end MdIt.Block

namespace MdIt.Block.LX.Y
open MdIt.Lines (LineOffset linesT lfToCrlf)
open MdIt.Block.LE

/-! ## the block pass on two sources -/

/-- the states `BlockState::new` makes for two sources with `LX.StartRel` line lists -/
theorem srel_fresh {τ : Nat × Nat → Nat × Nat → Prop} {ρ : Nat → Nat → Prop} {s₁ s₂ : List Char}
    (h : StartRel ρ 0 0 (linesT s₁) (linesT s₂)) (k : Kind) (refs : Refs.RefMap) :
    SRel τ ρ (geoOf s₁ s₂) (BState.fresh s₁ k refs) (BState.fresh s₂ k refs) := by
  have hlen : (Lines.splitLines s₂).length = (Lines.splitLines s₁).length := by
    rw [Lines.splitLines_eq, Lines.splitLines_eq, Lines.offsetsOf_length, Lines.offsetsOf_length, h.length]
  refine ⟨rfl, rfl, hlen, ?_, rfl, rfl, rfl, rfl, ?_, rfl, rfl, rfl, rfl, rfl, NRelL.nil⟩
  · intro i o₁ o₂ h₁ h₂
    exact erel_of_startRel h h₁ h₂
  · simp only [BState.fresh, hlen]

/-- what `parseBlocks_rel` says of two successful block passes -/
def BlocksRel (τ : Nat × Nat → Nat × Nat → Prop) (ρ : Nat → Nat → Prop) (r₁ r₂ : BNode × Refs.RefMap) : Prop :=
  r₁.1.kind = r₂.1.kind ∧ NRelL τ ρ r₁.1.children r₂.1.children ∧ r₁.2 = r₂.2

/-- **the block pass in lock step, ranges related as pairs** -/
theorem parseBlocks_rel {τ : Nat × Nat → Nat × Nat → Prop} {ρ : Nat → Nat → Prop} (cfg : Cfg) {s₁ s₂ : List Char}
    (h : StartRel ρ 0 0 (linesT s₁) (linesT s₂)) (C : Ctx τ ρ (geoOf s₁ s₂))
    (hf : fuelFor cfg s₁ ≤ fuelFor cfg s₂) :
    FRel (BlocksRel τ ρ) (parseBlocks cfg s₁) (parseBlocks cfg s₂) := by
  unfold parseBlocks
  rcases tokenize_sim cfg C hf (srel_fresh h .root []) with h | ⟨a, b, h1, h2, S⟩ | ⟨e, h1, h2⟩
  · rw [h]; exact frel_fuel _
  · rw [h1, h2]; exact frel_ok ⟨S.nodeKind.symm, S.children, S.refs.symm⟩
  · rw [h1, h2]; exact frel_err _

/-- related results or the same panic -/
def BRes (τ : Nat × Nat → Nat × Nat → Prop) (ρ : Nat → Nat → Prop) (p₁ p₂ : Except Panic (BNode × Refs.RefMap)) : Prop :=
  (∃ a b, p₁ = .ok a ∧ p₂ = .ok b ∧ BlocksRel τ ρ a b) ∨ (∃ e, p₁ = .error e ∧ p₂ = .error e)

theorem parseBlocks_res {τ : Nat × Nat → Nat × Nat → Prop} {ρ : Nat → Nat → Prop} (cfg : Cfg) {s₁ s₂ : List Char}
    (h : StartRel ρ 0 0 (linesT s₁) (linesT s₂)) (C : Ctx τ ρ (geoOf s₁ s₂))
    (hb : Lines.byteLen s₁ ≤ Lines.byteLen s₂) : BRes τ ρ (parseBlocks cfg s₁) (parseBlocks cfg s₂) := by
  rcases parseBlocks_rel cfg h C (LX.fuelFor_le cfg h hb) with hA | hok | herr
  · exact absurd hA (parseBlocks_fuel cfg s₁)
  · exact .inl hok
  · exact .inr herr

/-! ## the geometry of a line table -/

theorem geo_entry {s : List Char} {i : Nat} {g : Nat × Nat} (h : ((Lines.splitLines s).map geom)[i]? = some g) :
    ∃ o, (Lines.splitLines s)[i]? = some o ∧ g = geom o := by
  simp only [List.getElem?_map, Option.map_eq_some_iff] at h
  obtain ⟨o, ho, rfl⟩ := h
  exact ⟨o, ho, rfl⟩

/-- a text that starts with `P` and is cut at or behind the end of `P` -/
theorem prefix_of_byteLen : ∀ (P R x y : List Char), P ++ R = x ++ y → Lines.byteLen P ≤ Lines.byteLen x →
    ∃ u, x = P ++ u ∧ R = u ++ y
  | [], R, x, y, h, _ => ⟨x, rfl, h⟩
  | c :: P, R, x, y, h, hl => by
    cases x with
    | nil => have := Lines.utf8Size_pos' c; simp at hl; omega
    | cons c' x' =>
      simp only [List.cons_append, List.cons.injEq] at h
      obtain ⟨rfl, h⟩ := h
      obtain ⟨u, hu, hR⟩ := prefix_of_byteLen P R x' y h (by simp at hl; omega)
      exact ⟨u, by rw [hu]; rfl, hR⟩

/-- a character boundary strictly inside the part `L` of `P ++ L ++ Q` is the start of a character of `L` -/
theorem char_at_boundary {P L Q : List Char} {d : Nat} (hd : d < Lines.byteLen L)
    (hb : Lines.onBoundary (P ++ L ++ Q) (Lines.byteLen P + d) = true) :
    ∃ u c v, L = u ++ c :: v ∧ Lines.byteLen u = d := by
  obtain ⟨x, y, hxy, hx⟩ := Lines.onBoundary_iff.mp hb
  rw [List.append_assoc] at hxy
  obtain ⟨u, hu, hR⟩ := prefix_of_byteLen P (L ++ Q) x y hxy (by omega)
  have hud : Lines.byteLen u = d := by
    have := congrArg Lines.byteLen hu
    simp only [Lines.byteLen_append] at this; omega
  obtain ⟨w, hw, _⟩ := prefix_of_byteLen u y L Q hR.symm (by omega)
  cases w with
  | nil =>
    have := congrArg Lines.byteLen hw
    simp at this; omega
  | cons c v => exact ⟨u, c, v, hw, hud⟩

/-- an offset strictly inside a line of the table of `src`, on a character boundary: a character other
    than LF and CR starts there -/
theorem onByte_in_line {src : List Char} {i : Nat} {o : LineOffset} (ho : (Lines.splitLines src)[i]? = some o)
    {d : Nat} (hd : o.lineStart + d < o.lineEnd) (hb : Lines.onBoundary src (o.lineStart + d) = true) :
    OnByte src (o.lineStart + d) := by
  obtain ⟨A, lt, B, _, _, rfl, hsrc, hnt, _⟩ := Lines.split_entry ho
  simp only [Lines.mkOff] at hd hb ⊢
  rw [hsrc] at hb
  obtain ⟨u, c, v, hl, hu⟩ := char_at_boundary (by omega) hb
  have hc := hnt c (by rw [hl]; simp)
  refine ⟨Lines.flat A ++ u, c, v ++ (lt.2 ++ Lines.flat B), ?_, by simp [hu], hc.1, hc.2⟩
  conv => lhs; rw [hsrc, hl]
  simp [List.append_assoc]

/-! ## instance 1: one source -/

/-- equal ranges, not empty, starting at a byte of their own -/
def anchRel (src : List Char) (x y : Nat × Nat) : Prop := x = y ∧ x.1 < x.2 ∧ OnByte src x.1

theorem ctx_self (src : List Char) : Ctx (anchRel src) (fun _ _ => True) (geoOf src src) := by
  refine ⟨incT_split src, incT_split src, ?_⟩
  intro i j g₁ h₁ g₂ h₂ hij hg₁ hh₁ hg₂ hh₂ d hd hb
  simp only [geoOf] at hg₁ hh₁ hg₂ hh₂ hb
  rw [hg₁] at hg₂; cases hg₂
  rw [hh₁] at hh₂; cases hh₂
  obtain ⟨o, ho, rfl⟩ := geo_entry hg₁
  obtain ⟨o', ho', rfl⟩ := geo_entry hh₁
  have hmono := endsMono_of_valid (Lines.split_offsets_valid src) i j o o' hij ho ho'
  simp only [geom] at hd hb ⊢
  exact ⟨rfl, by omega, onByte_in_line ho hd hb⟩

mutual
theorem allRanges_of_nrel {τ : Nat × Nat → Nat × Nat → Prop} {ρ : Nat → Nat → Prop} {P : Nat → Nat → Prop}
    (hτ : ∀ x y, τ x y → P x.1 x.2) {n₁ n₂ : BNode} (h : NRel τ ρ n₁ n₂) : AllRanges P n₁ := by
  match n₁, n₂ with
  | ⟨k₁, r₁, c₁⟩, ⟨k₂, r₂, c₂⟩ =>
    simp only [NRel] at h
    simp only [AllRanges]
    refine ⟨?_, allRangesL_of_nrelL hτ h.2.2⟩
    intro a b hr
    subst hr
    match r₂, h.2.1 with
    | some y, hr => exact hτ _ _ hr
theorem allRangesL_of_nrelL {τ : Nat × Nat → Nat × Nat → Prop} {ρ : Nat → Nat → Prop} {P : Nat → Nat → Prop}
    (hτ : ∀ x y, τ x y → P x.1 x.2) {a b : List BNode} (h : NRelL τ ρ a b) : AllRangesL P a := by
  match a, b with
  | [], _ => simp only [AllRangesL]
  | _ :: _, [] => simp only [NRelL] at h
  | x :: xs, y :: ys =>
    obtain ⟨h1, h2⟩ := h.cons_inv
    simp only [AllRangesL]
    exact ⟨allRanges_of_nrel hτ h1, allRangesL_of_nrelL hτ h2⟩
end

/-! ## instance 2: LF ↦ CR LF, strict on placeholder tables -/

/-- both ends of a range moved by the exact offset translation -/
def crlfRg (src : List Char) (x y : Nat × Nat) : Prop := C10SP.crlfRel src x.1 y.1 ∧ C10SP.crlfRel src x.2 y.2

theorem ctx_crlf (src : List Char) (h : '\r' ∉ src) :
    Ctx (crlfRg src) (C10SP.crlfRel src) (geoOf src (lfToCrlf src)) := by
  refine ⟨incT_split _, incT_split _, ?_⟩
  intro i j g₁ h₁ g₂ h₂ _ hg₁ hh₁ hg₂ hh₂ d hd _
  simp only [geoOf] at hg₁ hh₁ hg₂ hh₂
  obtain ⟨o₁, ho₁, rfl⟩ := geo_entry hg₁
  obtain ⟨o₁', ho₁', rfl⟩ := geo_entry hh₁
  obtain ⟨o₂, ho₂, rfl⟩ := geo_entry hg₂
  obtain ⟨o₂', ho₂', rfl⟩ := geo_entry hh₂
  have he := erel_of_startRel (linesT_crlf_exact src h) ho₁ ho₂
  have he' := erel_of_startRel (linesT_crlf_exact src h) ho₁' ho₂'
  simp only [geom] at hd ⊢
  exact ⟨he.at_ d (by omega), he'.end_⟩

/-- **LF ↦ CR LF at the block level, exact and strict**: both passes panic alike, or both succeed with
    roots of the same kind, the same reference map, and children related by `NRelL`: equal kinds and
    payloads (`KRelS`), both ends of every range and EVERY value of every placeholder table moved by
    `a ↦ a + #LF of src before a` -/
theorem parseBlocks_crlf_strict (cfg : Cfg) (src : List Char) (h : '\r' ∉ src) :
    BRes (crlfRg src) (C10SP.crlfRel src) (parseBlocks cfg src) (parseBlocks cfg (lfToCrlf src)) :=
  parseBlocks_res cfg (linesT_crlf_exact src h) (ctx_crlf src h) (byteLen_lfToCrlf src)

/-- back to the relations of `LE` (for the consumers of `LE.BRes`) -/
theorem BRes.toLE {τ : Nat × Nat → Nat × Nat → Prop} {ρ ρ' : Nat → Nat → Prop}
    (hτ : ∀ x y, τ x y → ρ' x.1 y.1 ∧ ρ' x.2 y.2) (hρ : ∀ a b, ρ a b → ρ' a b)
    {p₁ p₂ : Except Panic (BNode × Refs.RefMap)} (h : BRes τ ρ p₁ p₂) : LE.BRes ρ' p₁ p₂ := by
  rcases h with ⟨a, b, h1, h2, hk, hc, hr⟩ | herr
  · exact .inl ⟨a, b, h1, h2, hk, hc.toLE hτ hρ, hr⟩
  · exact .inr herr

end MdIt.Block.LX.Y

namespace MdIt.Block
open MdIt.Block.LX.Y

/-- **every block range starts at a byte of its own**: each node below the root of the tree
    `parseBlocks` returns that carries a range `(a, b)` has `a < b`, and a character other than LF and
    CR starts at byte `a` of the source — for every configuration and every source -/
theorem parseBlocks_anchored (cfg : Cfg) (src : List Char) {root : BNode} {refs : Refs.RefMap}
    (h : parseBlocks cfg src = .ok (root, refs)) :
    AllRangesL (fun a b => a < b ∧ OnByte src a) root.children := by
  have hs : LX.StartRel (fun _ _ => True) 0 0 (Lines.linesT src) (Lines.linesT src) :=
    LX.startRel_self _ _ (fun _ _ _ _ _ => trivial)
  have := LX.Y.parseBlocks_rel cfg hs (ctx_self src) (Nat.le_refl _)
  rw [h] at this
  obtain ⟨b, hb, hr⟩ := LE.frel_ok_left this
  cases hb
  exact allRangesL_of_nrelL (fun x y hxy => hxy.2) hr.2.1

/-! ### instances -/

/-- heading, block quote with a lazy line, list with two items, indented code in an item, fence: the
    ranges of the tree (depth first) -/
example :
    let src := "# a\n> b\nc\n\n- d\n\n      e\n- f\n```\ng".toList
    let cfg := (MdIt.Pipeline.exCfg false 100).blockCfg
    (parseBlocks cfg src).toOption.map (fun r => r.1.children.map (·.range)) =
      some [some (0, 3), some (4, 9), some (11, 27), some (28, 33)] := by
  decide +kernel

/-- the ranges of a tree, depth first -/
def c10fb_ranges : Nat → BNode → List (Nat × Nat)
  | 0, _ => []
  | k + 1, n => (match n.range with | some r => [r] | none => []) ++ n.children.flatMap (c10fb_ranges k)

/-- … all of them, nested ones included (item `(11, 23)` with paragraph `(13, 14)` and the indented code
    block `(22, 23)`, which starts behind the six blanks at the `e`) -/
example :
    let src := "# a\n> b\nc\n\n- d\n\n      e\n- f\n```\ng".toList
    let cfg := (MdIt.Pipeline.exCfg false 100).blockCfg
    (parseBlocks cfg src).toOption.map (fun r => r.1.children.flatMap (c10fb_ranges 6)) =
      some [(0, 3), (4, 9), (6, 9), (11, 27), (11, 23), (13, 14), (22, 23), (24, 27), (26, 27), (28, 33)] := by
  decide +kernel

/-- why the root is excluded: its range is `(0, |src|)`, empty for the empty document and starting at
    a line feed for a document that begins with a blank line -/
example :
    let cfg := (MdIt.Pipeline.exCfg false 100).blockCfg
    (parseBlocks cfg []).toOption.map (fun r => r.1.range) = some (some (0, 0)) ∧
    (parseBlocks cfg ['\n']).toOption.map (fun r => r.1.range) = some (some (0, 1)) := by
  decide +kernel

end MdIt.Block
