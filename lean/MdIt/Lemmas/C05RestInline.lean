/-
  C05, the remaining clauses — the frame invariant `FI` (Lemmas/C05RestDefs.lean) through the inline
  tokenizer.  Part 1: list lemmas, pushing a node, `trailing_text_push`, and the rules without
  look-ahead recursion other than emphasis and newline (text, fall-back, escape, entity, autolink).

  Shape of every rule lemma (`fi_rule<X>`):
    Ctx src0 st.src st.srcmap → RInv lo st → FInv src0 st → st.pos < st.posMax →
    rule<X> … st false = .ok (o, st') → FI src0 st.src st.srcmap (st'.pos + o.getD 0) st'.children
-/
import MdIt.Lemmas.C05RestDefs

namespace MdIt.C05R
open MdIt.Inline
open MdIt.InlineOps (Srcmap getSourcePosFor getMap byteLen slice)

/-! ## sibling lists -/

theorem fi_adjd_snoc (l : List Node) (x : Node) :
    Adjd (l ++ [x]) ↔ Adjd l ∧ ∀ y, l.getLast? = some y → Adj y x := by
  induction l with
  | nil => simp [Adjd]
  | cons a r ih =>
    cases r with
    | nil => simp [Adjd]
    | cons b r' =>
      show Adjd (a :: b :: (r' ++ [x])) ↔ _
      simp only [Adjd]
      rw [show b :: (r' ++ [x]) = (b :: r') ++ [x] from rfl, ih, List.getLast?_cons_cons, and_assoc]

theorem fi_getLast_snoc {α : Type} {l init : List α} {x : α} (h : l = init ++ [x]) :
    l.getLast? = some x := by subst h; simp

theorem fi_snoc_of_getLast {α : Type} {l : List α} {x : α} (h : l.getLast? = some x) :
    ∃ init, l = init ++ [x] := List.getLast?_eq_some_iff.mp h

theorem fi_fthL_append (src : List Char) (a b : List Node) :
    FthL src (a ++ b) ↔ FthL src a ∧ FthL src b := by
  simp only [fthL_iff, List.mem_append]
  constructor
  · intro h; exact ⟨fun n hn => h n (Or.inl hn), fun n hn => h n (Or.inr hn)⟩
  · rintro ⟨h1, h2⟩ n (hn | hn)
    · exact h1 n hn
    · exact h2 n hn

theorem fi_fthL_single (src : List Char) (n : Node) : FthL src [n] ↔ FthN src n := by
  simp [FthL]

theorem fi_strict_append (a b : List Node) : StrictTop (a ++ b) ↔ StrictTop a ∧ StrictTop b := by
  unfold StrictTop
  simp only [List.mem_append]
  constructor
  · intro h; exact ⟨fun n hn => h n (Or.inl hn), fun n hn => h n (Or.inr hn)⟩
  · rintro ⟨h1, h2⟩ n (hn | hn)
    · exact h1 n hn
    · exact h2 n hn

theorem fi_strict_single (n : Node) :
    StrictTop [n] ↔ (TextLike n → ∃ a b, n.range = some (a, b) ∧ a < b) := by
  unfold StrictTop; simp

theorem fi_textLike_of_isText {n : Node} (h : n.isText = true) : TextLike n := by
  unfold Node.isText at h
  unfold TextLike
  split at h
  · next c hv => rw [hv]; rfl
  · cases h

theorem fi_val_of_isText {n : Node} (h : n.isText = true) : n.val = .text n.content := by
  unfold Node.isText at h
  split at h
  · next c hv => rw [text_content hv]; exact hv
  · cases h

/-- a childless `Text` whose range selects its content -/
theorem fi_fthN_text {src0 : List Char} {n : Node} (ht : n.isText = true) (hc : n.children = [])
    {a b : Nat} (hr : n.range = some (a, b)) (ha : Bdy src0 a) (hb : Bdy src0 b)
    (hs : Sel src0 a b n.content) : FthN src0 n := by
  rw [FthN_eq]
  have hv := fi_val_of_isText ht
  refine ⟨⟨a, b, hr, ha, hb, ?_, ?_, ?_, by rw [hc]; trivial⟩, by rw [hc]; trivial⟩
  · intro t e; rw [hv] at e; cases e; exact hs
  · intro ct mu info e; rw [hv] at e; cases e
  · intro mk l rem o cl e; rw [hv] at e; cases e

/-- a `Text` leaf whose range selects its content -/
theorem fi_fthN_newText {src0 : List Char} {t : List Char} {a b : Nat} (ha : Bdy src0 a)
    (hb : Bdy src0 b) (hs : Sel src0 a b t) : FthN src0 (Node.newText t (some (a, b))) :=
  fi_fthN_text (n := Node.newText t (some (a, b))) rfl rfl rfl ha hb hs

/-! ## strings -/

theorem fi_cut_of_slice_prefix {s : List Char} {a b : Nat} {u v : List Char}
    (h : slice s a b = .ok (u ++ v)) : Cut s a (a + byteLen u) u := by
  obtain ⟨p, q, e, l1, _⟩ := (C05.slice_ok_iff _ _ _ _).mp h
  exact ⟨p, v ++ q, by rw [e]; simp, l1, rfl⟩

theorem fi_bdy_of_slice {s : List Char} {a b : Nat} {w : List Char} (h : slice s a b = .ok w) :
    Bdy s a ∧ Bdy s b := by
  obtain ⟨h1, h2, _⟩ := slice_boundaries h
  exact ⟨h1, h2⟩

/-! ## pushing a node that is not text-like -/

theorem FI.same {src0 c : List Char} {m : Srcmap} {pos : Nat} {cs : List Node}
    (h : FI src0 c m pos cs) : FI src0 c m pos cs := h

/-- pushing a node that the join pass will never merge, and moving the cursor to a boundary -/
theorem FI.push {src0 c : List Char} {m : Srcmap} {pos : Nat} {cs : List Node}
    (h : FI src0 c m pos cs) {n : Node} {p' : Nat} (hb : Bdy c p') (hn : FthN src0 n)
    (hnt : ¬ TextLike n) : FI src0 c m p' (cs ++ [n]) := by
  refine ⟨hb, (fi_fthL_append _ _ _).mpr ⟨h.deep, (fi_fthL_single _ _).mpr hn⟩, ?_, ?_, ?_⟩
  · exact (fi_adjd_snoc _ _).mpr ⟨h.adj, fun y _ _ ht => absurd ht hnt⟩
  · exact (fi_strict_append _ _).mpr ⟨h.strict, (fi_strict_single _).mpr (fun ht => absurd ht hnt)⟩
  · intro init last hcs hlt
    obtain ⟨_, rfl⟩ := snoc_inj hcs
    exact absurd hlt hnt

/-- a leaf that is neither `Text`, `TextSpecial` nor `EmphMarker` -/
theorem fi_fthN_plain {src0 : List Char} {v : Val} {a b : Nat} {cs : List Node}
    (ha : Bdy src0 a) (hb : Bdy src0 b) (h1 : ∀ t, v ≠ .text t) (h2 : ∀ x y z, v ≠ .special x y z)
    (h3 : ∀ mk l rem o c, v ≠ .emphMarker mk l rem o c) (hadj : Adjd cs) (hd : FthL src0 cs) :
    FthN src0 (Node.mk v (some (a, b)) cs) := by
  rw [FthN_eq]
  exact ⟨⟨a, b, rfl, ha, hb, fun t e => absurd e (h1 t), fun x y z e => absurd e (h2 x y z),
    fun mk l rem o c e => absurd e (h3 mk l rem o c), hadj⟩, hd⟩

/-- a `TextSpecial` leaf whose range selects its markup -/
theorem fi_fthN_special {src0 : List Char} {ct mu info : List Char} {a b : Nat}
    (ha : Bdy src0 a) (hb : Bdy src0 b) (hs : Sel src0 a b mu) :
    FthN src0 (Node.leaf (.special ct mu info) (some (a, b))) := by
  unfold Node.leaf
  rw [FthN_eq]
  refine ⟨⟨a, b, rfl, ha, hb, (fun t e => by cases e), ?_, (fun mk l rem o c e => by cases e),
    trivial⟩, trivial⟩
  intro x y z e
  simp only [Val.special.injEq] at e
  obtain ⟨_, rfl, _⟩ := e
  exact hs

theorem fi_not_textLike {v : Val} {r : Option (Nat × Nat)} {cs : List Node} (h1 : ∀ t, v ≠ .text t)
    (h3 : ∀ mk l rem o c, v ≠ .emphMarker mk l rem o c) : ¬ TextLike (Node.mk v r cs) := by
  unfold TextLike
  cases v with
  | text t => exact absurd rfl (h1 t)
  | emphMarker mk l rem o c => exact absurd rfl (h3 mk l rem o c)
  | _ => simp [textOf]

/-! ## `trailing_text_push` -/

/-- what `trailing_text_push(pos, stop)` does to the child list -/
theorem fi_push_shape {src : List Char} {m : Srcmap} {cs out : List Node} {pos stop : Nat}
    (hp : trailingTextPush src m cs pos stop = .ok out) :
    ∃ last', last'.isText = true ∧
      ((out = cs ++ [last'] ∧ (∀ y, cs.getLast? = some y → y.isText = false) ∧
          ∃ x y, getSourcePosFor m pos = .ok x ∧ getSourcePosFor m stop = .ok y ∧
            last'.range = some (x, y)) ∨
       (∃ init last, cs = init ++ [last] ∧ last.isText = true ∧ out = init ++ [last'] ∧
          ∀ a b, last.range = some (a, b) → ∃ b', last'.range = some (a, b'))) := by
  have hfresh : ∀ out, (match liftOps (slice src pos stop) with
      | .error e => (.error e : Except RPanic (List Node))
      | .ok piece =>
        match liftOps (getMap m pos stop) with
        | .error e => .error e
        | .ok r => .ok (cs ++ [Node.newText piece (some r)])) = .ok out →
      ∃ last', last'.isText = true ∧ out = cs ++ [last'] ∧
        ∃ x y, getSourcePosFor m pos = .ok x ∧ getSourcePosFor m stop = .ok y ∧
          last'.range = some (x, y) := by
    intro out ho
    split at ho
    · simp at ho
    · next piece _ =>
      split at ho
      · simp at ho
      · next r hr =>
        simp only [Except.ok.injEq] at ho; subst ho
        obtain ⟨rx, ry⟩ := r
        obtain ⟨e1, e2, _⟩ := getMapRaw_eq hr
        exact ⟨Node.newText piece (some (rx, ry)), rfl, rfl, rx, ry, e1, e2, rfl⟩
  unfold trailingTextPush at hp
  simp only at hp
  rcases popLast_spec cs with ⟨hpop, hnil⟩ | ⟨init, last, hpop, hcs⟩
  · rw [hpop] at hp
    obtain ⟨l, h1, h2, h3⟩ := hfresh out hp
    exact ⟨l, h1, Or.inl ⟨h2, by intro y hy; rw [hnil] at hy; simp at hy, h3⟩⟩
  · rw [hpop] at hp
    simp only at hp
    split at hp
    · next hlt =>
      split at hp
      · simp at hp
      · next piece _ =>
        split at hp
        · next hnone =>
          simp only [Except.ok.injEq] at hp; subst hp
          refine ⟨_, ?_, Or.inr ⟨init, last, hcs, hlt, rfl, ?_⟩⟩
          · rfl
          · intro a b hab; rw [hnone] at hab; cases hab
        · next ms me hsome =>
          split at hp
          · simp at hp
          · next mapEnd _ =>
            simp only [Except.ok.injEq] at hp; subst hp
            refine ⟨_, ?_, Or.inr ⟨init, last, hcs, hlt, rfl, ?_⟩⟩
            · rfl
            · intro a b hab; rw [hsome] at hab
              simp only [Option.some.injEq, Prod.mk.injEq] at hab
              obtain ⟨rfl, _⟩ := hab
              exact ⟨mapEnd, rfl⟩
    · next hlt =>
      obtain ⟨l, h1, h2, h3⟩ := hfresh out hp
      refine ⟨l, h1, Or.inl ⟨h2, ?_, h3⟩⟩
      intro y hy
      rw [hcs] at hy; simp at hy; subst hy
      simpa using hlt

/-- **`trailing_text_push(pos, stop)` keeps the frame invariant** (`pos < stop`, `stop` a
    boundary): the new or grown text gets its clause from the NEW `RI.trail` -/
theorem fi_pushText {src0 c : List Char} {m : Srcmap} {lo pos stop : Nat} {cs out : List Node}
    (hctx : Ctx src0 c m) (hr : RI c m lo pos cs) (hf : FI src0 c m pos cs) (hlt : pos < stop)
    (hb : Bdy c stop) (hp : trailingTextPush c m cs pos stop = .ok out) : FI src0 c m stop out := by
  have hr' : RI c m lo stop out := RI.pushText hr hctx.map (Nat.le_of_lt hlt) hp
  obtain ⟨last', hlt', hshape⟩ := fi_push_shape hp
  -- the clause of the last node, from the new `RI`
  have hlast : ∀ init, out = init ++ [last'] →
      ∃ xs xe, last'.range = some (xs, xe) ∧ getSourcePosFor m stop = .ok xe ∧ FthN src0 last' := by
    intro init hout
    obtain ⟨hch, start, xs, xe, hsl, hxs, hxe, hrange⟩ := hr'.trail init last' hout hlt'
    have hcut := (cut_iff_ops _ _ _ _).mp hsl
    refine ⟨xs, xe, hrange, hxe, fi_fthN_text hlt' hch hrange (hctx.fth.bdy hcut.bdy_left hxs)
      (hctx.fth.bdy hb hxe) (hctx.fth.sel hcut (fun _ => rfl) hxs hxe)⟩
  rcases hshape with ⟨hout, hnt, x, y, hx, hy, hrg⟩ | ⟨init, last, hcs, hlast_t, hout, hrg⟩
  · -- a fresh node
    obtain ⟨xs, xe, hrange, hxe, hfn⟩ := hlast cs hout
    rw [hrg] at hrange
    simp only [Option.some.injEq, Prod.mk.injEq] at hrange
    obtain ⟨rfl, rfl⟩ := hrange
    have hstrict : x < y := by
      have := translate_expand m hctx.map.wf hctx.map.mono pos stop (Nat.le_of_lt hlt) x y hx hy
      omega
    subst hout
    refine ⟨hb, (fi_fthL_append _ _ _).mpr ⟨hf.deep, (fi_fthL_single _ _).mpr hfn⟩, ?_, ?_, ?_⟩
    · refine (fi_adjd_snoc _ _).mpr ⟨hf.adj, ?_⟩
      intro y0 hy0 ht0 _
      obtain ⟨i0, hi0⟩ := fi_snoc_of_getLast hy0
      obtain ⟨a, b, hab, hbpos⟩ := hf.tail i0 y0 hi0 ht0
      rw [hx] at hbpos; simp only [Except.ok.injEq] at hbpos; subst hbpos
      exact ⟨a, x, y, hab, hrg⟩
    · exact (fi_strict_append _ _).mpr ⟨hf.strict, (fi_strict_single _).mpr (fun _ => ⟨x, y, hrg, hstrict⟩)⟩
    · intro i l hil _
      obtain ⟨_, rfl⟩ := snoc_inj hil
      exact ⟨x, y, hrg, hy⟩
  · -- the trailing text grows
    obtain ⟨xs, xe, hrange, hxe, hfn⟩ := hlast init hout
    have htl := fi_textLike_of_isText hlast_t
    obtain ⟨a, b, hab, hbpos⟩ := hf.tail init last hcs htl
    obtain ⟨b', hb'⟩ := hrg a b hab
    rw [hb'] at hrange
    simp only [Option.some.injEq, Prod.mk.injEq] at hrange
    obtain ⟨rfl, rfl⟩ := hrange
    have hab_lt : a < b := by
      obtain ⟨a', b'', e, hlt''⟩ := hf.strict last (by rw [hcs]; simp) htl
      rw [hab] at e; simp only [Option.some.injEq, Prod.mk.injEq] at e
      obtain ⟨rfl, rfl⟩ := e; exact hlt''
    have hmono : b ≤ b' := tr_mono hctx.map (Nat.le_of_lt hlt) hbpos hxe
    subst hcs hout
    have hd := (fi_fthL_append _ _ _).mp hf.deep
    have hadj := (fi_adjd_snoc _ _).mp hf.adj
    refine ⟨hb, (fi_fthL_append _ _ _).mpr ⟨hd.1, (fi_fthL_single _ _).mpr hfn⟩, ?_, ?_, ?_⟩
    · refine (fi_adjd_snoc _ _).mpr ⟨hadj.1, ?_⟩
      intro y0 hy0 ht0 _
      obtain ⟨a1, b1, b2, e1, e2⟩ := hadj.2 y0 hy0 ht0 htl
      rw [hab] at e2; simp only [Option.some.injEq, Prod.mk.injEq] at e2
      obtain ⟨rfl, rfl⟩ := e2
      exact ⟨a1, a, b', e1, hb'⟩
    · exact (fi_strict_append _ _).mpr ⟨((fi_strict_append _ _).mp hf.strict).1,
        (fi_strict_single _).mpr (fun _ => ⟨a, b', hb', by omega⟩)⟩
    · intro i l hil _
      obtain ⟨_, rfl⟩ := snoc_inj hil
      exact ⟨a, b', hb', hxe⟩

/-! ## the rules: text, fall-back -/

theorem fi_none {src0 : List Char} {st : IState} (hf : FInv src0 st) :
    FI src0 st.src st.srcmap (st.pos + (none : Option Nat).getD 0) st.children := by
  simp only [Option.getD_none, Nat.add_zero]; exact hf

theorem fi_ruleText {src0 : List Char} {lo : Nat} {st st' : IState} {o : Option Nat}
    (hctx : Ctx src0 st.src st.srcmap) (hi : RInv lo st) (hf : FInv src0 st)
    (h : ruleText st false = .ok (o, st')) :
    FI src0 st.src st.srcmap (st'.pos + o.getD 0) st'.children := by
  unfold ruleText at h
  split at h
  · simp at h
  · next w hw =>
    simp only at h
    split at h
    · simp only [Except.ok.injEq, Prod.mk.injEq] at h; obtain ⟨rfl, rfl⟩ := h; exact fi_none hf
    · next hne =>
      simp only [Bool.false_eq_true, if_false] at h
      split at h
      · simp at h
      · next st2 hp =>
        simp only [Except.ok.injEq, Prod.mk.injEq] at h; obtain ⟨rfl, rfl⟩ := h
        obtain ⟨cs, hcs, rfl⟩ := pushText_eq hp
        simp only [Option.getD_some]
        obtain ⟨u, v, huv, hu⟩ := textLen_prefix w
        have hb : Bdy st.src (st.pos + textLen w) := by
          rw [← hu]; exact boundary_in_slice (by rw [← huv]; exact window_eq hw)
        exact fi_pushText hctx hi hf (by show st.pos < st.pos + textLen w; unfold textLen; omega) hb hcs

/-- the fall-back of the tokenizer loop: the first character of the window goes to the pending text -/
theorem fi_fallback {src0 : List Char} {lo : Nat} {st st' : IState} {ch : Char}
    (hctx : Ctx src0 st.src st.srcmap) (hi : RInv lo st) (hf : FInv src0 st)
    (hch : firstChar st = .ok ch) (h : st.pushText st.pos (st.pos + ch.utf8Size) = .ok st') :
    FI src0 st.src st.srcmap (st'.pos + ch.utf8Size) st'.children := by
  obtain ⟨cs, hcs, rfl⟩ := pushText_eq h
  unfold firstChar at hch
  split at hch
  · simp at hch
  · simp at hch
  · next c rest hw =>
    simp only [Except.ok.injEq] at hch; subst hch
    have hsl := window_eq (liftR_ok.mp hw)
    have hb : Bdy st.src (st.pos + c.utf8Size) := by
      have := boundary_in_slice (u := [c]) (v := rest) hsl
      simp only [byteLen, Nat.add_zero] at this
      exact this
    have := Char.utf8Size_pos c
    exact fi_pushText hctx hi hf (by show st.pos < st.pos + c.utf8Size; omega) hb hcs

/-! ## escape, entity -/

theorem fi_ruleEscape {src0 : List Char} {st st' : IState} {o : Option Nat}
    (hctx : Ctx src0 st.src st.srcmap) (hf : FInv src0 st)
    (h : ruleEscape st false = .ok (o, st')) :
    FI src0 st.src st.srcmap (st'.pos + o.getD 0) st'.children := by
  unfold ruleEscape at h
  split at h
  · simp at h
  · next w hw =>
    have hsl := window_eq hw
    split at h
    · simp at h
    · simp only [Except.ok.injEq, Prod.mk.injEq] at h; obtain ⟨rfl, rfl⟩ := h; exact fi_none hf
    · next len hc =>
      have hel : escapeLen w = some len := by unfold escapeLen; rw [hc]
      obtain ⟨_, u, v, huv, hu⟩ := escapeLen_prefix hel
      obtain ⟨w', hw', _⟩ := escapeCore_hardbreak hc
      simp only [Bool.false_eq_true, if_false] at h
      split at h
      · simp at h
      · next r hr =>
        simp only [Except.ok.injEq, Prod.mk.injEq] at h; obtain ⟨rfl, rfl⟩ := h
        obtain ⟨rx, ry⟩ := r
        obtain ⟨e1, e2, _⟩ := getMap_eq hr
        simp only [Option.getD_some, IState.push]
        have hb : Bdy st.src (st.pos + len) := by
          rw [← hu]; exact boundary_in_slice (by rw [← huv]; exact hsl)
        have hb2 : Bdy st.src (st.pos + 2) := by
          have := boundary_in_slice (u := ['\\', '\n']) (v := w') (by rw [hw'] at hsl; exact hsl)
          have e1 : ('\\' : Char).utf8Size = 1 := by decide
          have e2 : ('\n' : Char).utf8Size = 1 := by decide
          simp only [byteLen, e1, e2] at this
          exact this
        exact hf.push hb (fi_fthN_plain (hctx.fth.bdy hf.bpos e1) (hctx.fth.bdy hb2 e2)
          (by intro t e; cases e) (by intro x y z e; cases e) (by intro mk l rem o c e; cases e)
          trivial trivial) (fi_not_textLike (by intro t e; cases e) (by intro mk l rem o c e; cases e))
    · next sp hc =>
      obtain ⟨chr, w', hw', hmk⟩ := escapeCore_special hc
      simp only [Bool.false_eq_true, if_false] at h
      split at h
      · simp at h
      · next r hr =>
        simp only [Except.ok.injEq, Prod.mk.injEq] at h; obtain ⟨rfl, rfl⟩ := h
        obtain ⟨rx, ry⟩ := r
        obtain ⟨e1, e2, _⟩ := getMap_eq hr
        simp only [Option.getD_some, IState.push]
        have hcut : Cut st.src st.pos (st.pos + byteLen sp.markup) sp.markup := by
          rw [hmk]
          exact fi_cut_of_slice_prefix (u := ['\\', chr]) (v := w') (by rw [hw'] at hsl; exact hsl)
        exact hf.push hcut.bdy_right (fi_fthN_special (hctx.fth.bdy hf.bpos e1)
          (hctx.fth.bdy hcut.bdy_right e2) (hctx.fth.sel hcut (fun _ => rfl) e1 e2))
          (fi_not_textLike (by intro t e; cases e) (by intro mk l rem o c e; cases e))

theorem fi_ruleEntity {src0 : List Char} {cfg : Cfg} {st st' : IState} {o : Option Nat}
    (hctx : Ctx src0 st.src st.srcmap) (hf : FInv src0 st)
    (h : ruleEntity cfg st false = .ok (o, st')) :
    FI src0 st.src st.srcmap (st'.pos + o.getD 0) st'.children := by
  unfold ruleEntity at h
  split at h
  · simp at h
  · split at h
    · simp at h
    · split at h
      · simp only [Except.ok.injEq, Prod.mk.injEq] at h; obtain ⟨rfl, rfl⟩ := h; exact fi_none hf
      · split at h
        · simp at h
        · next suffix hsuf =>
          split at h
          · simp at h
          · simp only [Except.ok.injEq, Prod.mk.injEq] at h; obtain ⟨rfl, rfl⟩ := h
            exact fi_none hf
          · next sp hc =>
            obtain ⟨t, rest, _, hsfx, _⟩ := entityCore_some hc
            simp only [Bool.false_eq_true, if_false] at h
            split at h
            · simp at h
            · next r hr =>
              simp only [Except.ok.injEq, Prod.mk.injEq] at h; obtain ⟨rfl, rfl⟩ := h
              obtain ⟨rx, ry⟩ := r
              obtain ⟨e1, e2, _⟩ := getMap_eq hr
              simp only [Option.getD_some, IState.push]
              have hcut : Cut st.src st.pos (st.pos + byteLen sp.markup) sp.markup :=
                fi_cut_of_slice_prefix (u := sp.markup) (v := rest)
                  (by rw [← hsfx]; exact liftOps_ok.mp hsuf)
              exact hf.push hcut.bdy_right (fi_fthN_special (hctx.fth.bdy hf.bpos e1)
                (hctx.fth.bdy hcut.bdy_right e2) (hctx.fth.sel hcut (fun _ => rfl) e1 e2))
                (fi_not_textLike (by intro t e; cases e) (by intro mk l rem o c e; cases e))

/-! ## autolinks -/

/-- a node with one `Text` child -/
theorem fi_fthN_oneText {src0 : List Char} {v : Val} {a b x y : Nat} {t : List Char}
    (ha : Bdy src0 a) (hb : Bdy src0 b) (h1 : ∀ t, v ≠ .text t) (h2 : ∀ x y z, v ≠ .special x y z)
    (h3 : ∀ mk l rem o c, v ≠ .emphMarker mk l rem o c) (hx : Bdy src0 x) (hy : Bdy src0 y)
    (hs : Sel src0 x y t) :
    FthN src0 (Node.mk v (some (a, b)) [Node.newText t (some (x, y))]) :=
  fi_fthN_plain ha hb h1 h2 h3 trivial ((fi_fthL_single _ _).mpr (fi_fthN_newText hx hy hs))

theorem fi_ruleAutolink {src0 : List Char} {st st' : IState} {o : Option Nat}
    (hctx : Ctx src0 st.src st.srcmap) (hf : FInv src0 st)
    (h : ruleAutolink st false = .ok (o, st')) :
    FI src0 st.src st.srcmap (st'.pos + o.getD 0) st'.children := by
  unfold ruleAutolink at h
  split at h
  · simp at h
  · simp at h
  · next c rest hw =>
    have hsl := window_eq hw
    split at h
    · simp only [Except.ok.injEq, Prod.mk.injEq] at h; obtain ⟨rfl, rfl⟩ := h; exact fi_none hf
    · next hc =>
      have hc' : c = '<' := by simpa using hc
      subst hc'
      split at h
      · simp only [Except.ok.injEq, Prod.mk.injEq] at h; obtain ⟨rfl, rfl⟩ := h; exact fi_none hf
      · next p hscan =>
        obtain ⟨u, v, hr, hp⟩ := autolinkScan_spec hscan
        split at h
        · simp at h
        · next url hurl =>
          simp only at h
          split at h
          · simp only [Except.ok.injEq, Prod.mk.injEq] at h; obtain ⟨rfl, rfl⟩ := h
            exact fi_none hf
          · split at h
            · simp only [Except.ok.injEq, Prod.mk.injEq] at h; obtain ⟨rfl, rfl⟩ := h
              exact fi_none hf
            · simp only [Bool.false_eq_true, if_false] at h
              split at h
              · simp at h
              · next r hr' =>
                split at h
                · simp at h
                · next ri hri =>
                  simp only [Except.ok.injEq, Prod.mk.injEq] at h; obtain ⟨rfl, rfl⟩ := h
                  obtain ⟨rx, ry⟩ := r
                  obtain ⟨ix, iy⟩ := ri
                  obtain ⟨e1, e2, _⟩ := getMap_eq hr'
                  obtain ⟨f1, f2, _⟩ := getMap_eq hri
                  simp only [Option.getD_some, IState.push]
                  have e : st.pos + (p - st.pos) = p := by omega
                  rw [e]
                  have c1 : ('<' : Char).utf8Size = 1 := by decide
                  have c2 : ('>' : Char).utf8Size = 1 := by decide
                  have hbp : Bdy st.src p := by
                    have := boundary_in_slice (u := '<' :: u ++ ['>']) (v := v)
                      (by rw [hr] at hsl; simpa using hsl)
                    have hbl : byteLen ('<' :: u ++ ['>']) = p - st.pos := by
                      simp only [List.cons_append, byteLen, C05.byteLen_append, c1, c2]; omega
                    rw [hbl, e] at this; exact this
                  have hcut := (cut_iff_ops _ _ _ _).mp (liftOps_ok.mp hurl)
                  exact hf.push hbp (fi_fthN_oneText (hctx.fth.bdy hf.bpos e1) (hctx.fth.bdy hbp e2)
                    (by intro t e; cases e) (by intro x y z e; cases e)
                    (by intro mk l rem o c e; cases e) (hctx.fth.bdy hcut.bdy_left f1)
                    (hctx.fth.bdy hcut.bdy_right f2) (hctx.fth.sel hcut (fun _ => rfl) f1 f2))
                    (fi_not_textLike (by intro t e; cases e) (by intro mk l rem o c e; cases e))

end MdIt.C05R
