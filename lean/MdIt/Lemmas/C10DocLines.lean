/-
  C10 at whole-document level, part 5: the line tables of `src`, `lfToCrlf src`, `lfToCr src`,
  `src ++ "\n"` are entrywise related (`ERel`): the same lines, starts moved right (`≤`, CR LF) or not
  at all (`=`, CR and the final newline); hence the fresh parser states are related (`SRel`).
-/
import MdIt.Lemmas.C10DocCore

namespace MdIt.Block.LE
open MdIt.Lines (LineOffset linesT afterLine termOf flat mkOff offsetsOf lfToCrlf lfToCr)

/-- two lists of (line, terminator) pairs laid out from `st₁` / `st₂`: the same lines, and every
    line start `ρ`-related -/
def StartRel (ρ : Nat → Nat → Prop) : Nat → Nat → List (List Char × List Char) → List (List Char × List Char) → Prop
  | _, _, [], [] => True
  | st₁, st₂, x :: r₁, y :: r₂ =>
    x.1 = y.1 ∧ ρ st₁ st₂ ∧
      StartRel ρ (st₁ + Lines.byteLen x.1 + Lines.byteLen x.2) (st₂ + Lines.byteLen y.1 + Lines.byteLen y.2) r₁ r₂
  | _, _, [], _ :: _ => False
  | _, _, _ :: _, [] => False

theorem StartRel.length {ρ : Nat → Nat → Prop} : ∀ {st₁ st₂ : Nat} {L₁ L₂ : List (List Char × List Char)},
    StartRel ρ st₁ st₂ L₁ L₂ → L₁.length = L₂.length
  | _, _, [], [], _ => rfl
  | _, _, [], _ :: _, h => by simp [StartRel] at h
  | _, _, _ :: _, [], h => by simp [StartRel] at h
  | _, _, _ :: _, _ :: _, h => by
    simp only [StartRel] at h
    simp [StartRel.length h.2.2]

/-- the pair at the same index: the same line, `ρ`-related starts -/
theorem StartRel.at {ρ : Nat → Nat → Prop} : ∀ {A₁ A₂ : List (List Char × List Char)} {st₁ st₂ : Nat}
    {x y : List Char × List Char} {B₁ B₂ : List (List Char × List Char)},
    StartRel ρ st₁ st₂ (A₁ ++ x :: B₁) (A₂ ++ y :: B₂) → A₁.length = A₂.length →
    x.1 = y.1 ∧ ρ (st₁ + Lines.byteLen (flat A₁)) (st₂ + Lines.byteLen (flat A₂))
  | [], [], _, _, _, _, _, _, h, _ => by
    simp only [List.nil_append, StartRel] at h
    simpa using ⟨h.1, h.2.1⟩
  | [], _ :: _, _, _, _, _, _, _, _, hl => by simp at hl
  | _ :: _, [], _, _, _, _, _, _, _, hl => by simp at hl
  | a :: A₁, b :: A₂, st₁, st₂, x, y, B₁, B₂, h, hl => by
    simp only [List.cons_append, StartRel] at h
    have := StartRel.at h.2.2 (by simpa using hl)
    refine ⟨this.1, ?_⟩
    have e := this.2
    simp only [Lines.flat_cons, Lines.byteLen_append] at e ⊢
    simpa [Nat.add_assoc] using e

/-- entries at the same index of two tables cut from sources with `StartRel` line lists -/
theorem erel_of_startRel {ρ : Nat → Nat → Prop} {s₁ s₂ : List Char}
    (h : StartRel ρ 0 0 (linesT s₁) (linesT s₂)) {i : Nat} {o₁ o₂ : LineOffset}
    (h₁ : (Lines.splitLines s₁)[i]? = some o₁) (h₂ : (Lines.splitLines s₂)[i]? = some o₂) :
    ERel ρ s₁ s₂ o₁ o₂ := by
  obtain ⟨A₁, x, B₁, hL₁, hA₁, rfl, hs₁, _, _⟩ := Lines.split_entry h₁
  obtain ⟨A₂, y, B₂, hL₂, hA₂, rfl, hs₂, _, _⟩ := Lines.split_entry h₂
  rw [hL₁, hL₂] at h
  obtain ⟨hxy, hr⟩ := h.at (hA₁.trans hA₂.symm)
  simp only [Nat.zero_add] at hr
  have hl := Lines.lead_append_rest x.1
  refine ⟨Lines.lead x.1, x.1.dropWhile Lines.isBlank, flat A₁, x.2 ++ flat B₁, flat A₂, y.2 ++ flat B₂,
    ?_, ?_, rfl, rfl, ?_, ?_, ?_, ?_, ?_, hr⟩
  · rw [hl]; conv => lhs; rw [hs₁]
  · rw [hl, hxy]; conv => lhs; rw [hs₂]
  · simp [mkOff, Lines.byteLen_lead]
  · simp [mkOff, Lines.byteLen_lead, hxy]
  · have := congrArg Lines.byteLen hl
    simp only [Lines.byteLen_append] at this
    simp [mkOff]; omega
  · have := congrArg Lines.byteLen hl
    simp only [Lines.byteLen_append] at this
    simp [mkOff, ← hxy]; omega
  · simp [mkOff, hxy]

/-! ## the three rewritings -/

theorem lfToCrlf_noTerm {l : List Char} (h : Lines.NoTerm l) (r : List Char) :
    lfToCrlf (l ++ r) = l ++ lfToCrlf r := by
  induction l with
  | nil => rfl
  | cons c t ih =>
    have hc := h c (by simp)
    simp only [List.cons_append, lfToCrlf, if_neg hc.1, ih h.tail]

theorem lfToCr_noTerm {l : List Char} (h : Lines.NoTerm l) (r : List Char) :
    lfToCr (l ++ r) = l ++ lfToCr r := by
  induction l with
  | nil => rfl
  | cons c t ih =>
    have hc := h c (by simp)
    simp only [List.cons_append, lfToCr, if_neg hc.1, ih h.tail]

/-- the first line of `l ++ x` for a terminator-free `l` and an `x` that starts with a terminator
    or is empty -/
theorem lineOf_append_term {l x : List Char} (hl : Lines.NoTerm l) (hx : ∀ c r, x = c :: r → c = '\n' ∨ c = '\r') :
    Lines.lineOf (l ++ x) = l ∧ afterLine (l ++ x) = x := by
  unfold Lines.lineOf afterLine
  have h1 : ∀ c ∈ l, Lines.notTerm c = true := fun c hc => Lines.notTerm_iff.mpr (hl c hc)
  have h2 : x.takeWhile Lines.notTerm = [] ∧ x.dropWhile Lines.notTerm = x := by
    cases x with
    | nil => simp
    | cons c r =>
      have := hx c r rfl
      have hn : Lines.notTerm c = false := by
        rcases this with rfl | rfl <;> decide
      simp [List.takeWhile, List.dropWhile, hn]
  constructor
  · rw [List.takeWhile_append_of_pos h1, h2.1]; simp
  · rw [List.dropWhile_append_of_pos h1, h2.2]


/-- one step of `linesT` on `l ++ x` -/
theorem linesT_step {l x : List Char} (hl : Lines.NoTerm l) (hx : ∀ c r, x = c :: r → c = '\n' ∨ c = '\r') :
    linesT (l ++ x) = if (termOf x).2 = [] then [(l, (termOf x).1)]
      else (l, (termOf x).1) :: linesT (termOf x).2 := by
  rw [linesT, (lineOf_append_term hl hx).1, (lineOf_append_term hl hx).2]

theorem lfToCrlf_eq_nil {r : List Char} : lfToCrlf r = [] ↔ r = [] := by
  cases r with
  | nil => simp [lfToCrlf]
  | cons c t => simp only [lfToCrlf]; split <;> simp

theorem lfToCr_eq_nil {r : List Char} : lfToCr r = [] ↔ r = [] := by
  cases r with
  | nil => simp [lfToCr]
  | cons c t => simp only [lfToCr]; split <;> simp

theorem lfToCr_head (r : List Char) : (lfToCr r).head? ≠ some '\n' := by
  cases r with
  | nil => simp [lfToCr]
  | cons c t =>
    simp only [lfToCr]
    split
    · simp
    · rename_i h; simpa using h

/-- a CR-free text: its first line, and either nothing or an LF and the rest -/
theorem crfree_split {s : List Char} (h : '\r' ∉ s) :
    s = Lines.lineOf s ++ afterLine s ∧
    (afterLine s = [] ∨ ∃ r, afterLine s = '\n' :: r ∧ '\r' ∉ r ∧ r.length < s.length) := by
  have hs := Lines.lineOf_append_afterLine s
  refine ⟨hs.symm, ?_⟩
  cases hx : afterLine s with
  | nil => left; rfl
  | cons c r =>
    right
    have hc := Lines.afterLine_head s hx
    have hmem : c ∈ s ∧ ∀ d ∈ r, d ∈ s := by
      rw [← hs, hx]; simp
      intro d hd; right; right; exact hd
    have : c = '\n' := by
      rcases hc with rfl | rfl
      · rfl
      · exact absurd hmem.1 h
    subst this
    refine ⟨r, rfl, fun hr => h (hmem.2 _ hr), ?_⟩
    have := congrArg List.length hs
    rw [hx] at this
    simp at this; omega

/-- LF ↦ CR LF: the same lines, every line start at or right of where it was -/
theorem linesT_crlf : ∀ (n : Nat) (s : List Char), s.length = n → '\r' ∉ s → ∀ st₁ st₂, st₁ ≤ st₂ →
    StartRel (· ≤ ·) st₁ st₂ (linesT s) (linesT (lfToCrlf s)) := by
  intro n
  induction n using Nat.strongRecOn with
  | _ n ih =>
    intro s hn hcr st₁ st₂ hst
    obtain ⟨hs, hx⟩ := crfree_split hcr
    have hl := Lines.lineOf_noTerm s
    rcases hx with hx | ⟨r, hx, hr, hlen⟩
    · rw [hx] at hs
      rw [hs, lfToCrlf_noTerm hl]
      simp only [lfToCrlf]
      rw [linesT_step hl (by intro c r h; cases h)]
      simp [termOf, StartRel, hst]
    · rw [hx] at hs
      rw [hs, lfToCrlf_noTerm hl]
      simp only [lfToCrlf, if_true]
      rw [linesT_step hl (by intro c r h; cases h; exact .inl rfl),
        linesT_step hl (by intro c r h; cases h; exact .inr rfl)]
      have t1 : termOf ('\n' :: r) = (['\n'], r) := by simp [termOf]
      have t2 : termOf ('\r' :: '\n' :: lfToCrlf r) = (['\r', '\n'], lfToCrlf r) := by simp [termOf]
      rw [t1, t2]
      simp only
      by_cases hr0 : r = []
      · subst hr0
        simp [lfToCrlf, StartRel, hst]
      · have hr0' : lfToCrlf r ≠ [] := fun h => hr0 (lfToCrlf_eq_nil.mp h)
        rw [if_neg hr0, if_neg hr0']
        simp only [StartRel]
        refine ⟨trivial, hst, ?_⟩
        apply ih r.length (by omega) r rfl hr
        simp
        omega

/-- LF ↦ CR: the same lines at the same offsets -/
theorem linesT_cr : ∀ (n : Nat) (s : List Char), s.length = n → '\r' ∉ s → ∀ st : Nat,
    StartRel Eq st st (linesT s) (linesT (lfToCr s)) := by
  intro n
  induction n using Nat.strongRecOn with
  | _ n ih =>
    intro s hn hcr st
    obtain ⟨hs, hx⟩ := crfree_split hcr
    have hl := Lines.lineOf_noTerm s
    rcases hx with hx | ⟨r, hx, hr, hlen⟩
    · rw [hx] at hs
      rw [hs, lfToCr_noTerm hl]
      simp only [lfToCr]
      rw [linesT_step hl (by intro c r h; cases h)]
      simp [termOf, StartRel]
    · rw [hx] at hs
      rw [hs, lfToCr_noTerm hl]
      simp only [lfToCr, if_true]
      rw [linesT_step hl (by intro c r h; cases h; exact .inl rfl),
        linesT_step hl (by intro c r h; cases h; exact .inr rfl)]
      have t1 : termOf ('\n' :: r) = (['\n'], r) := by simp [termOf]
      have t2 : termOf ('\r' :: lfToCr r) = (['\r'], lfToCr r) := by
        simp only [termOf]
        rw [if_neg (by intro h; exact lfToCr_head r h.2)]
      rw [t1, t2]
      simp only
      by_cases hr0 : r = []
      · subst hr0
        simp [lfToCr, StartRel]
      · have hr0' : lfToCr r ≠ [] := fun h => hr0 (lfToCr_eq_nil.mp h)
        rw [if_neg hr0, if_neg hr0']
        simp only [StartRel]
        refine ⟨trivial, trivial, ?_⟩
        have e : Lines.byteLen ['\n'] = Lines.byteLen ['\r'] := by decide
        rw [e]
        exact ih r.length (by omega) r rfl hr _

/-- `termOf` of a text that goes on behind its first terminator does not look further -/
theorem termOf_append_right {x : List Char} (h : (termOf x).2 ≠ []) (z : List Char) :
    termOf (x ++ z) = ((termOf x).1, (termOf x).2 ++ z) := by
  cases x with
  | nil => simp [termOf] at h
  | cons c r =>
    simp only [List.cons_append, termOf] at h ⊢
    cases r with
    | nil => simp at h
    | cons d r' =>
      simp only [List.cons_append, List.head?_cons, List.tail_cons] at h ⊢
      by_cases hc : c = '\r' ∧ some d = some '\n'
      · simp only [hc, and_self, if_true] at h ⊢
      · simp only [hc, if_false] at h ⊢
        simp

/-- a final LF behind a text that does not end with a terminator: the same lines at the same offsets -/
theorem linesT_final : ∀ (n : Nat) (s : List Char), s.length = n →
    s.getLast? ≠ some '\n' ∧ s.getLast? ≠ some '\r' → ∀ st : Nat,
    StartRel Eq st st (linesT s) (linesT (s ++ ['\n'])) := by
  intro n
  induction n using Nat.strongRecOn with
  | _ n ih =>
    intro s hn hlast st
    have hs := Lines.lineOf_append_afterLine s
    have hl := Lines.lineOf_noTerm s
    cases hx : afterLine s with
    | nil =>
      rw [hx] at hs
      have e1 : linesT s = [(Lines.lineOf s, [])] := by
        conv => lhs; rw [← hs]
        rw [linesT_step hl (by intro c r h; cases h)]
        simp [termOf]
      have e2 : linesT (s ++ ['\n']) = [(Lines.lineOf s, ['\n'])] := by
        conv => lhs; rw [← hs]
        simp only [List.append_nil]
        rw [linesT_step hl (by intro c r h; cases h; exact .inl rfl)]
        simp [termOf]
      rw [e1, e2]
      simp [StartRel]
    | cons c r =>
      have hc := Lines.afterLine_head s hx
      have hta := Lines.termOf_append (c :: r)
      have hterm := Lines.termOf_isTerminator hc r
      -- the text goes on behind the terminator
      have hy : (termOf (c :: r)).2 ≠ [] := by
        intro h0
        rw [h0, List.append_nil] at hta
        have : s = Lines.lineOf s ++ (termOf (c :: r)).1 := by rw [hta, ← hx, hs]
        rcases hterm with ht | ht | ht <;> rw [ht] at this <;> rw [this] at hlast <;> simp at hlast
      have e1 : linesT s = (Lines.lineOf s, (termOf (c :: r)).1) :: linesT (termOf (c :: r)).2 := by
        conv => lhs; rw [← hs, hx]
        rw [linesT_step hl (by intro c' r' h; cases h; exact hc), if_neg hy]
      have e2 : linesT (s ++ ['\n']) =
          (Lines.lineOf s, (termOf (c :: r)).1) :: linesT ((termOf (c :: r)).2 ++ ['\n']) := by
        conv => lhs; rw [← hs, hx, List.append_assoc]
        rw [linesT_step hl (by intro c' r' h; simp at h; rw [← h.1]; exact hc),
          termOf_append_right hy]
        simp only
        rw [if_neg (by simp)]
      rw [e1, e2]
      simp only [StartRel]
      refine ⟨trivial, trivial, ?_⟩
      have hsy : s = (Lines.lineOf s ++ (termOf (c :: r)).1) ++ (termOf (c :: r)).2 := by
        rw [List.append_assoc, hta, ← hx, hs]
      have hlast' : (termOf (c :: r)).2.getLast? = s.getLast? := by
        conv => rhs; rw [hsy]
        rw [List.getLast?_append]
        cases hg : (termOf (c :: r)).2.getLast? with
        | none => exact absurd (List.getLast?_eq_none_iff.mp hg) hy
        | some v => simp
      have hlen : (termOf (c :: r)).2.length < s.length := by
        have := congrArg List.length hsy
        have hpos : 0 < (termOf (c :: r)).1.length := by
          rcases hterm with ht | ht | ht <;> rw [ht] <;> simp
        simp only [List.length_append] at this
        omega
      exact ih _ (by omega) _ rfl (by rw [hlast']; exact hlast) _

/-! ## the fresh states -/

/-- the geometry of the two line tables -/
def geoOf (s₁ s₂ : List Char) : Geo :=
  ⟨s₁, s₂, (Lines.splitLines s₁).map geom, (Lines.splitLines s₂).map geom⟩

theorem incT_split (s : List Char) : IncT ((Lines.splitLines s).map geom) := by
  intro i j a b hij ha hb
  simp only [List.getElem?_map, Option.map_eq_some_iff] at ha hb
  obtain ⟨o, ho, rfl⟩ := ha
  obtain ⟨o', ho', rfl⟩ := hb
  have := Lines.offsets_increasing (Lines.split_offsets_valid s) i j o o' hij ho ho'
  simp only [geom]; omega

theorem ctx_of {ρ : Nat → Nat → Prop} (hs : Shift ρ) (s₁ s₂ : List Char) : Ctx ρ (geoOf s₁ s₂) :=
  ⟨hs, incT_split s₁, incT_split s₂⟩

/-- the states `BlockState::new` makes for two sources with `StartRel` line lists -/
theorem srel_fresh {ρ : Nat → Nat → Prop} {s₁ s₂ : List Char}
    (h : StartRel ρ 0 0 (linesT s₁) (linesT s₂)) (k : Kind) (refs : Refs.RefMap) :
    SRel ρ (geoOf s₁ s₂) (BState.fresh s₁ k refs) (BState.fresh s₂ k refs) := by
  have hlen : (Lines.splitLines s₂).length = (Lines.splitLines s₁).length := by
    rw [Lines.splitLines_eq, Lines.splitLines_eq, Lines.offsetsOf_length, Lines.offsetsOf_length, h.length]
  refine ⟨rfl, rfl, hlen, ?_, rfl, rfl, rfl, rfl, ?_, rfl, rfl, rfl, rfl, rfl, NRelL.nil⟩
  · intro i o₁ o₂ h₁ h₂
    exact erel_of_startRel h h₁ h₂
  · simp only [BState.fresh, hlen]

end MdIt.Block.LE
