/-
  C05 for ALL sources (split tabs included), inline half, part 4 — non-vacuity of `pinl_of_mapT`
  (Lemmas/C05TabsRanges3.lean) on split-tab tables, and why the clause `RIv.nolf` is conditional.

  EXAMPLES ONLY (nothing here is needed by the deliverable).  Imports Lemmas/C05TabsShift.lean for
  `mapT_of_virt` and the worked split-tab table `sh_exM`.
-/
import MdIt.Lemmas.C05TabsRanges3
import MdIt.Lemmas.C05TabsShift

namespace MdIt.C05T
open MdIt.Inline
open MdIt.InlineOps (Srcmap getSourcePosFor getMap byteLen slice)
open MdIt.C05R (Cut)
open MdIt.C05I (KeysLFV)

/-- the example configuration (`*` emphasis) has solid markers -/
theorem tv_exSolid (n : Nat) : SolidMarkers (exCfg n).chain := by
  intro mk csw h
  simp [exCfg] at h
  obtain ⟨rfl, _⟩ := h
  decide

/-- (for the examples) a translated offset, if any, lies in `[A, B]` -/
def tv_okIn (r : Except InlineOps.Panic Nat) (A B : Nat) : Bool :=
  match r with
  | .ok y => decide (A ≤ y ∧ y ≤ B)
  | .error _ => true

/-- the ranges of the top-level nodes and of their children -/
def tv_show (r : Except Inline.Panic (List Node)) : List (Option (Nat × Nat) × List (Option (Nat × Nat))) :=
  match r with
  | .ok cs => cs.map (fun (n : Node) => (n.range, n.children.map (fun (k : Node) => k.range)))
  | .error _ => []

/-! ## a hard break and an emphasis pair behind a split tab

  The paragraph of the list item "-    a  \n\t\tb *c*" (content indent 5): line 2 is cut at column 5
  inside the second tab, 3 virtual spaces (content offsets 4, 5, 6) stand for its rest; table
  `sh_exM = [(0, 5), (4, 11), (7, 11)]`. -/

def tv_exC : List Char := ['a', ' ', ' ', '\n', ' ', ' ', ' ', 'b', ' ', '*', 'c', '*']

theorem tv_exC_eq : "a  \n   b *c*".toList = tv_exC := by decide +kernel

theorem tv_exM_keys : KeysLFV tv_exC sh_exM := by
  intro i k v h
  match i with
  | 0 =>
    simp [sh_exM] at h
    obtain ⟨rfl, rfl⟩ := h
    exact .inl ⟨['a', ' ', ' '], [' ', ' ', ' ', 'b', ' ', '*', 'c', '*'], rfl, by decide⟩
  | 1 =>
    simp [sh_exM] at h
    obtain ⟨rfl, rfl⟩ := h
    exact .inr ⟨4, rfl⟩
  | n + 2 => simp [sh_exM] at h

theorem tv_exM_virt : VirtSp tv_exC sh_exM := by
  constructor
  · intro i k0 v k h0 h1 p hp hp'
    match i with
    | 0 => simp [sh_exM] at h0 h1; omega
    | 1 =>
      simp [sh_exM] at h0 h1
      obtain ⟨rfl, rfl⟩ := h0
      obtain ⟨rfl, _⟩ := h1
      have : p = 4 ∨ p = 5 ∨ p = 6 := by omega
      rcases this with rfl | rfl | rfl
      · exact ⟨['a', ' ', ' ', '\n'], [' ', ' ', 'b', ' ', '*', 'c', '*'], rfl, by decide⟩
      · exact ⟨['a', ' ', ' ', '\n', ' '], [' ', 'b', ' ', '*', 'c', '*'], rfl, by decide⟩
      · exact ⟨['a', ' ', ' ', '\n', ' ', ' '], ['b', ' ', '*', 'c', '*'], rfl, by decide⟩
    | n + 2 => simp [sh_exM] at h1
  · intro i k0 v k h0 h1
    match i with
    | 0 => simp [sh_exM] at h0 h1; omega
    | 1 =>
      simp [sh_exM] at h0 h1
      obtain ⟨rfl, rfl⟩ := h0
      exact .inr ⟨['a', ' ', ' '], [' ', ' ', ' ', 'b', ' ', '*', 'c', '*'], rfl, by decide⟩
    | n + 2 => simp [sh_exM] at h1

/-- the split-tab table of "-    a  \n\t\tb *c*" is `MapT` (and not `MapOK`: `sh_exTab_not_mapOK`
    is about the table alone) -/
theorem tv_exTab_mapT : MapT "a  \n   b *c*".toList [(0, 5), (4, 11), (7, 11)] := by
  rw [tv_exC_eq]
  exact mapT_of_virt sh_exM_wf sh_exM_monoV tv_exM_keys tv_exM_virt

/-- **`pinl_of_mapT` at work**: the inline nodes of the item lie inside its content stretch
    `[5, 16]` of the source … -/
example : MdIt.Pipeline.PInl (exCfg 100) "a  \n   b *c*".toList [(0, 5), (4, 11), (7, 11)] 5 16 := by
  apply pinl_of_mapT (exCfg 100) tv_exTab_mapT (tv_exSolid 100)
  intro pos x _ h2 hx
  have e2 : (trimSrc "a  \n   b *c*".toList).2 = 12 := by decide +kernel
  rw [e2] at h2
  have key : ∀ p, p < 13 → tv_okIn (getSourcePosFor [(0, 5), (4, 11), (7, 11)] p) 5 16 = true := by
    decide +kernel
  have hk := key pos (by omega)
  rw [hx] at hk
  simpa [tv_okIn] using hk

/-- … and these are the nodes: text `a` `(5,6)`; the hard break `(6,11)` — the newline rule popped
    the two trailing blanks off the text `a  ` (range end `8 − 2`, the SHIFT behind the solid `a`)
    and the break runs over the line feed and both tabs; text `b ` `(11,13)`; the emphasis pair
    `(13,16)` with its text `(14,15)` (one delimiter cut off either marker, the shift on `*`) -/
example : tv_show (parseInline (exCfg 100) "a  \n   b *c*".toList [(0, 5), (4, 11), (7, 11)]) =
    [(some (5, 6), []), (some (6, 11), []), (some (11, 13), []), (some (13, 16), [some (14, 15)])] := by
  decide +kernel

/-- `pinl_of_mapT` on the code span of Lemmas/C05TabsShift.lean (`sh_exTab_mapT`) -/
example : MdIt.Pipeline.PInl (exCfg 100) "` a\n   `".toList [(0, 5), (4, 11), (7, 11)] 5 12 := by
  apply pinl_of_mapT (exCfg 100) sh_exTab_mapT (tv_exSolid 100)
  intro pos x _ h2 hx
  have e2 : (trimSrc "` a\n   `".toList).2 = 8 := by decide +kernel
  rw [e2] at h2
  have key : ∀ p, p < 9 → tv_okIn (getSourcePosFor [(0, 5), (4, 11), (7, 11)] p) 5 12 = true := by
    decide +kernel
  have hk := key pos (by omega)
  rw [hx] at hk
  simpa [tv_okIn] using hk

/-! ## why `RIv.nolf` is conditional on the newline rule being active

  At or above the nesting limit no rule runs: the fall-back pushes EVERY character, line feeds
  included, into the pending text.  Such a text may hold `"\n   "` with virtual spaces — but the
  newline rule, the only one that subtracts from a text's range end, never sees it. -/

/-- `maxNesting = 0`: the whole content is one text, line feed and virtual spaces inside -/
example : (parseInline (exCfg 0) "a  \n   b *c*".toList [(0, 5), (4, 11), (7, 11)]).map
    (fun cs => cs.map (fun (n : Node) => (n.range, n.content == "a  \n   b *c*".toList))) =
    .ok [(some (5, 16), true)] := by decide +kernel

/-- the label of a link at `maxNesting = 1` (nested frame at level 1): the same inside the link -/
example : tv_show (parseInline (exCfg 1) "[a  \n   b *c*](u)".toList [(0, 5), (5, 11), (8, 11)]) =
    [(some (5, 20), [some (6, 16)])] := by decide +kernel

end MdIt.C05T
