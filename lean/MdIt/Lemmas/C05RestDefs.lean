/-
  C05, the remaining clauses (character boundaries at inline nodes, text faithfulness): shared
  definitions — the interfaces between
    * the block invariant with line terminators (`Geo3`, `InlSpec3`: Lemmas/C05RestGeo.lean),
    * the faithfulness of `get_lines` (`PFth`, `PFull`: Lemmas/C05RestFaith.lean),
    * the inline induction (`FthN`, `FI`, `EmphOK`: Lemmas/C05RestInline.lean, C05RestEmph.lean),
    * the transport through splice / join / sourcepos (`PreOk`, `PostOk`, `PInlF`:
      Lemmas/C05RestSplice.lean),
  and the small lemmas all of them use (`Cut`, `Sel`, lowering from content to source offsets).

  Conventions: all byte lengths here are `InlineOps.byteLen` (`C05I.linesLen_eq` converts);
  `Cut s a b w` is "`s[a..b] = w`" independent of the two `slice` functions of the models
  (`cut_iff_lines`, `cut_iff_ops`).
-/
import MdIt.Props.C05Inline

namespace MdIt.C05R
open MdIt.InlineOps (Srcmap getSourcePosFor byteLen)
open MdIt.Inline (Node Val IState)
open MdIt.Lines (LineOffset)

/-! ## strings -/

/-- `s[a..b] = w` -/
def Cut (s : List Char) (a b : Nat) (w : List Char) : Prop :=
  ∃ p q, s = p ++ w ++ q ∧ byteLen p = a ∧ a + byteLen w = b

/-- `x` is a character boundary of `s` (`= Inline.Boundary`, `Block.Bd` up to `linesLen_eq`) -/
def Bdy (s : List Char) (x : Nat) : Prop := ∃ p q, s = p ++ q ∧ byteLen p = x

/-- no line break character -/
def NoBrk (w : List Char) : Prop := '\n' ∉ w ∧ '\r' ∉ w

/-- a line break character starts at byte `g` of `s` -/
def BrkAt (s : List Char) (g : Nat) : Prop :=
  ∃ p c q, s = p ++ c :: q ∧ byteLen p = g ∧ (c = '\n' ∨ c = '\r')

/-- clause 3 of C05 for the range `(a, b)` and the text `t`: if the range selects something without
    a line break, it selects `t` -/
def Sel (src : List Char) (a b : Nat) (t : List Char) : Prop :=
  ∀ w, Cut src a b w → NoBrk w → w = t

theorem cut_iff_ops (s : List Char) (a b : Nat) (w : List Char) :
    InlineOps.slice s a b = .ok w ↔ Cut s a b w := C05.slice_ok_iff s a b w

theorem cut_iff_lines (s : List Char) (a b : Nat) (w : List Char) :
    Lines.slice s a b = .ok w ↔ Cut s a b w := by
  rw [Lines.slice_eq_ok_iff]
  unfold Cut
  constructor
  · rintro ⟨p, q, h1, h2, h3⟩
    exact ⟨p, q, h1, by rw [← C05I.linesLen_eq]; exact h2, by rw [← C05I.linesLen_eq]; exact h3⟩
  · rintro ⟨p, q, h1, h2, h3⟩
    exact ⟨p, q, h1, by rw [C05I.linesLen_eq]; exact h2, by rw [C05I.linesLen_eq]; exact h3⟩

theorem bdy_iff_boundary (s : List Char) (x : Nat) : Bdy s x ↔ Inline.Boundary s x := Iff.rfl

theorem bdy_iff_bd (s : List Char) (x : Nat) : Bdy s x ↔ Block.Bd s x := by
  unfold Bdy Block.Bd
  constructor
  · rintro ⟨p, q, h1, h2⟩; exact ⟨p, q, h1, by rw [C05I.linesLen_eq]; exact h2⟩
  · rintro ⟨p, q, h1, h2⟩; exact ⟨p, q, h1, by rw [← C05I.linesLen_eq]; exact h2⟩

theorem Bdy.onBoundary {s : List Char} {x : Nat} (h : Bdy s x) : Lines.onBoundary s x = true :=
  ((bdy_iff_bd s x).mp h).onBoundary

theorem Bdy.le {s : List Char} {x : Nat} (h : Bdy s x) : x ≤ byteLen s := by
  obtain ⟨p, q, rfl, rfl⟩ := h
  rw [C05.byteLen_append]; omega

/-- two prefixes of one string with the same byte length are equal -/
theorem prefix_unique {p p' r r' : List Char} (h : p ++ r = p' ++ r') (hl : byteLen p = byteLen p') :
    p = p' ∧ r = r' := by
  obtain ⟨w, hw1, hw2⟩ := Inline.append_prefix p r p' r' h (by omega)
  have : byteLen w = 0 := by
    have := congrArg byteLen hw1
    rw [C05.byteLen_append] at this; omega
  have hw : w = [] := Inline.byteLen_eq_zero this
  subst hw
  simp at hw1 hw2
  exact ⟨hw1.symm, hw2⟩

/-- a range selects at most one string -/
theorem Cut.unique {s : List Char} {a b : Nat} {w w' : List Char} (h : Cut s a b w) (h' : Cut s a b w') :
    w = w' := by
  obtain ⟨p, q, e, hp, hb⟩ := h
  obtain ⟨p', q', e', hp', hb'⟩ := h'
  have e2 : p ++ (w ++ q) = p' ++ (w' ++ q') := by
    rw [← List.append_assoc, ← List.append_assoc, ← e, ← e']
  obtain ⟨rfl, e3⟩ := prefix_unique e2 (by omega)
  exact (prefix_unique e3 (by omega)).1

theorem Cut.bdy_left {s : List Char} {a b : Nat} {w : List Char} (h : Cut s a b w) : Bdy s a := by
  obtain ⟨p, q, e, hp, _⟩ := h
  exact ⟨p, w ++ q, by rw [e, List.append_assoc], hp⟩

theorem Cut.bdy_right {s : List Char} {a b : Nat} {w : List Char} (h : Cut s a b w) : Bdy s b := by
  obtain ⟨p, q, e, hp, hb⟩ := h
  exact ⟨p ++ w, q, e, by rw [C05.byteLen_append]; omega⟩

theorem Cut.le {s : List Char} {a b : Nat} {w : List Char} (h : Cut s a b w) : a ≤ b := by
  obtain ⟨_, _, _, _, hb⟩ := h; omega

theorem Bdy.cut_nil {s : List Char} {x : Nat} (h : Bdy s x) : Cut s x x [] := by
  obtain ⟨p, q, e, hp⟩ := h
  exact ⟨p, q, by simpa using e, hp, by simp [byteLen]⟩

/-- between two boundaries there is a string -/
theorem Bdy.cut {s : List Char} {a b : Nat} (ha : Bdy s a) (hb : Bdy s b) (hab : a ≤ b) :
    ∃ w, Cut s a b w := by
  obtain ⟨p, q, e, hp⟩ := ha
  obtain ⟨p', q', e', hp'⟩ := hb
  obtain ⟨w, hw1, hw2⟩ := Inline.append_prefix p q p' q' (by rw [← e, ← e']) (by omega)
  refine ⟨w, p, q', ?_, hp, ?_⟩
  · rw [e', hw1]
  · have := congrArg byteLen hw1
    rw [C05.byteLen_append] at this; omega

/-- an exact selection is a selection -/
theorem Sel.of_cut {src : List Char} {a b : Nat} {t : List Char} (h : Cut src a b t) : Sel src a b t :=
  fun _ hw _ => hw.unique h

/-- splitting a selection at an inner boundary -/
theorem Cut.split {s : List Char} {a m b : Nat} {w : List Char} (h : Cut s a b w) (hm : Bdy s m)
    (h1 : a ≤ m) (h2 : m ≤ b) : ∃ w1 w2, w = w1 ++ w2 ∧ Cut s a m w1 ∧ Cut s m b w2 := by
  obtain ⟨w1, c1⟩ := h.bdy_left.cut hm h1
  obtain ⟨w2, c2⟩ := hm.cut h.bdy_right h2
  refine ⟨w1, w2, ?_, c1, c2⟩
  obtain ⟨p, q, e, hp, hb⟩ := c1
  obtain ⟨p', q', e', hp', hb'⟩ := c2
  -- `p' = p ++ w1`
  have e2 : (p ++ w1) ++ q = p' ++ (w2 ++ q') := by rw [← e, e', List.append_assoc]
  obtain ⟨e3, e4⟩ := prefix_unique e2 (by rw [C05.byteLen_append]; omega)
  have c3 : Cut s a b (w1 ++ w2) :=
    ⟨p, q', by rw [e', ← e3]; simp [List.append_assoc], hp, by rw [C05.byteLen_append]; omega⟩
  exact h.unique c3

theorem Cut.append {s : List Char} {a m b : Nat} {w1 w2 : List Char} (h1 : Cut s a m w1)
    (h2 : Cut s m b w2) : Cut s a b (w1 ++ w2) := by
  obtain ⟨w, hw⟩ := h1.bdy_left.cut h2.bdy_right (by have := h1.le; have := h2.le; omega)
  obtain ⟨x1, x2, e, c1, c2⟩ := hw.split h1.bdy_right h1.le h2.le
  rw [h1.unique c1, h2.unique c2, ← e]; exact hw

/-- a line break inside a selected string -/
theorem BrkAt.mem_cut {s : List Char} {a b g : Nat} {w : List Char} (hg : BrkAt s g) (h : Cut s a b w)
    (h1 : a ≤ g) (h2 : g < b) : ¬ NoBrk w := by
  obtain ⟨p, c, q, e, hp, hc⟩ := hg
  have hb : Bdy s g := ⟨p, c :: q, e, hp⟩
  obtain ⟨w1, w2, rfl, c1, c2⟩ := h.split hb h1 (by omega)
  obtain ⟨p', q', e', hp', hb'⟩ := c2
  have e2 : p ++ (c :: q) = p' ++ (w2 ++ q') := by rw [← e, e', List.append_assoc]
  obtain ⟨_, e3⟩ := prefix_unique e2 (by omega)
  cases w2 with
  | nil => simp [byteLen] at hb'; omega
  | cons d w2' =>
    simp only [List.cons_append, List.cons.injEq] at e3
    obtain ⟨rfl, _⟩ := e3
    intro ⟨n1, n2⟩
    rcases hc with rfl | rfl
    · exact n1 (by simp)
    · exact n2 (by simp)

theorem BrkAt.lt {s : List Char} {g : Nat} (h : BrkAt s g) : g < byteLen s := by
  obtain ⟨p, c, q, rfl, rfl, _⟩ := h
  have := Char.utf8Size_pos c
  rw [C05.byteLen_append]; simp only [byteLen]; omega

/-! ## the content of a placeholder is a faithful excerpt of the document -/

/-- `(c, m)`: inline text and per-line table of one placeholder; `src`: the document.
    `copy`: a stretch of the inline text without a line feed is a copy of the source bytes between
    the translated offsets; `brk`: across a line feed of the inline text the translated range holds
    a line break of the source. -/
structure PFth (src c : List Char) (m : Srcmap) : Prop where
  copy : ∀ p q w a b, Cut c p q w → '\n' ∉ w → getSourcePosFor m p = .ok a →
    getSourcePosFor m q = .ok b → Cut src a b w
  brk : ∀ p q w a b w', Cut c p q w → '\n' ∈ w → getSourcePosFor m p = .ok a →
    getSourcePosFor m q = .ok b → Cut src a b w' → ¬ NoBrk w'

/-- **lowering a boundary**: the translation of a character boundary of the inline text is a
    character boundary of the document -/
theorem PFth.bdy {src c : List Char} {m : Srcmap} (h : PFth src c m) {p a : Nat} (hp : Bdy c p)
    (ha : getSourcePosFor m p = .ok a) : Bdy src a :=
  (h.copy p p [] a a hp.cut_nil (by simp) ha ha).bdy_left

/-- **lowering a text clause**: if the inline stretch `(p, q)` is `t` whenever it holds no line
    feed, the translated range selects `t` in the document (or holds a line break) -/
theorem PFth.sel {src c : List Char} {m : Srcmap} (h : PFth src c m) {p q a b : Nat} {w t : List Char}
    (hc : Cut c p q w) (ht : '\n' ∉ w → w = t) (ha : getSourcePosFor m p = .ok a)
    (hb : getSourcePosFor m q = .ok b) : Sel src a b t := by
  intro w' hw' hn
  by_cases hl : '\n' ∈ w
  · exact absurd hn (h.brk p q w a b w' hc hl ha hb hw')
  · have := h.copy p q w a b hc hl ha hb
    rw [hw'.unique this]; exact ht hl

/-! ## the inline tree -/

/-- the text a text-like node (`Text`, or an `EmphMarker` the join pass will turn into one) stands for -/
def textOf : Val → Option (List Char)
  | .text c => some c
  | .emphMarker m _ rem _ _ => some (Join.markerText m rem)
  | _ => none

def TextLike (n : Node) : Prop := (textOf n.val).isSome = true

/-- two neighbours that the join pass may merge are adjacent in the source -/
def Adj (x y : Node) : Prop :=
  TextLike x → TextLike y → ∃ a1 b1 b2, x.range = some (a1, b1) ∧ y.range = some (b1, b2)

/-- every two consecutive members are `Adj` -/
def Adjd : List Node → Prop
  | [] => True
  | [_] => True
  | x :: y :: r => Adj x y ∧ Adjd (y :: r)

/-- text-like members have a non-empty range -/
def StrictTop (l : List Node) : Prop :=
  ∀ n ∈ l, TextLike n → ∃ a b, n.range = some (a, b) ∧ a < b

mutual
/-- C05 clauses 2 (boundaries) and 3 (text) at every node of an inline tree, plus what the join
    pass needs: range ends on character boundaries of the document; a `Text` selects its content, a
    `TextSpecial` its markup (unless the range holds a line break); an `EmphMarker` covers exactly
    its `remaining` (single-byte) delimiters; mergeable neighbours among the children are adjacent -/
def FthN (src : List Char) : Node → Prop
  | ⟨v, r, cs⟩ =>
    (∃ a b, r = some (a, b) ∧ Bdy src a ∧ Bdy src b ∧
      (∀ t, v = .text t → Sel src a b t) ∧
      (∀ ct mu info, v = .special ct mu info → Sel src a b mu) ∧
      (∀ mk l rem o c, v = .emphMarker mk l rem o c →
        Cut src a b (List.replicate rem mk) ∧ mk.utf8Size = 1) ∧
      Adjd cs) ∧ FthL src cs
def FthL (src : List Char) : List Node → Prop
  | [] => True
  | c :: cs => FthN src c ∧ FthL src cs
end

theorem FthN_eq (src : List Char) (n : Node) :
    FthN src n ↔ (∃ a b, n.range = some (a, b) ∧ Bdy src a ∧ Bdy src b ∧
      (∀ t, n.val = .text t → Sel src a b t) ∧
      (∀ ct mu info, n.val = .special ct mu info → Sel src a b mu) ∧
      (∀ mk l rem o c, n.val = .emphMarker mk l rem o c →
        Cut src a b (List.replicate rem mk) ∧ mk.utf8Size = 1) ∧
      Adjd n.children) ∧ FthL src n.children := by
  cases n; simp [FthN]

theorem fthL_iff (src : List Char) (l : List Node) : FthL src l ↔ ∀ n ∈ l, FthN src n := by
  induction l with
  | nil => simp [FthL]
  | cons c cs ih => simp [FthL, ih]

/-- what one inline run works in: a monotone table whose keys sit behind line feeds, and a content
    that is a faithful excerpt of the document `src0` -/
structure Ctx (src0 c : List Char) (m : Srcmap) : Prop where
  map : Inline.MapOK c m
  fth : PFth src0 c m

/-- **the frame invariant** of one `tokenize` run (beside `Inline.RI`): the cursor is on a
    character boundary; every child is `FthN`; mergeable neighbours are adjacent; text-like
    children have non-empty ranges; a text-like LAST child ends exactly at the translated cursor -/
structure FI (src0 c : List Char) (m : Srcmap) (pos : Nat) (cs : List Node) : Prop where
  bpos : Bdy c pos
  deep : FthL src0 cs
  adj : Adjd cs
  strict : StrictTop cs
  tail : ∀ init last, cs = init ++ [last] → TextLike last →
    ∃ a b, last.range = some (a, b) ∧ getSourcePosFor m pos = .ok b

/-- the invariant of a state -/
def FInv (src0 : List Char) (st : IState) : Prop := FI src0 st.src st.srcmap st.pos st.children

/-- the contract of the emphasis-marker rule (proved in Lemmas/C05RestEmph.lean, consumed by the
    induction of Lemmas/C05RestInline.lean) -/
def EmphOK (cfg : Inline.Cfg) (src0 : List Char) : Prop :=
  ∀ (mk : Char) (csw : Bool) (lo : Nat) (st st' : IState) (o : Option Nat),
    mk.utf8Size = 1 → mk ≠ '\n' → Ctx src0 st.src st.srcmap → Inline.RInv lo st → FInv src0 st →
    Inline.ruleEmph cfg mk csw st false = .ok (o, st') →
    FI src0 st.src st.srcmap (st'.pos + o.getD 0) st'.children

/-- every emphasis-like rule of the chain has a single-byte marker (`*`, `_`, `~` in the shipped
    plugins; `scan_delims` counts characters and the rule advances by that count, so a multi-byte
    marker leaves the cursor inside a character), which is not the line feed (a run of line-feed
    "delimiters" would not be a copy of source bytes behind a container prefix) -/
def AsciiMarkers (chain : List Inline.RuleId) : Prop :=
  ∀ mk csw, Inline.RuleId.emph mk csw ∈ chain → mk.utf8Size = 1 ∧ mk ≠ '\n'

/-! ## the block side -/

/-- every line of the table ends at the end of the document or in front of a line break -/
def TermOk (src : List Char) (offs : List LineOffset) : Prop :=
  ∀ (k : Nat) (o : LineOffset), offs[k]? = some o → o.lineEnd = byteLen src ∨ BrkAt src o.lineEnd

end MdIt.C05R

namespace MdIt.Block
open MdIt.Lines (LineOffset)
open MdIt.C05I (KeptBlank)

/-- `Geo2` plus: every line ends in front of a line terminator (or at the end of the document) -/
structure Geo3 (src0 : List Char) (s : BState) : Prop where
  g2 : Geo2 src0 s
  term : C05R.TermOk s.src s.offs

/-- `InlSpec2` from the stronger invariant -/
structure InlSpec3 (src0 : List Char) (P : InlP) : Prop where
  /-- paragraph, setext heading: `get_lines(b, e, blk_indent, false)` -/
  lines : ∀ (s : BState) (b e : Nat) (c : List Char) (m : List (Nat × Nat)) (ob oe : LineOffset),
    Geo3 src0 s → s.getLines b e s.blkIndent false = .ok (c, m) → b < e →
    s.offs[b]? = some ob → s.offs[e - 1]? = some oe → KeptBlank s.src s.blkIndent ob →
    P c m ob.firstNonspace oe.lineEnd
  /-- ATX heading: a slice of the line -/
  heading : ∀ (s : BState) (o : LineOffset) (line content : List Char) (textPos textMax : Nat),
    Geo3 src0 s → s.offs[s.line]? = some o → s.getLine s.line = .ok line →
    liftL (Lines.slice line textPos textMax) = .ok content →
    P content [(0, o.firstNonspace + textPos)] o.firstNonspace o.lineEnd

/-- the full claim about a placeholder: `PMapF`, faithfulness in a tab-free document, and the end of
    its stretch is the end of a line -/
def PFull (src0 : List Char) : InlP := fun c m a b =>
  PMapF src0 c m a b ∧ ('\t' ∉ src0 → C05R.PFth src0 c m) ∧
    (b = InlineOps.byteLen src0 ∨ C05R.BrkAt src0 b)

end MdIt.Block

namespace MdIt.C05R
open MdIt.InlineOps (Srcmap getSourcePosFor byteLen)

/-! ## the document tree -/

/-- the text a text-like node of the document stands for -/
def textOfK : Pipeline.Kind → Option (List Char)
  | .inl v => textOf v
  | .blk _ => none

/-- two neighbours the join pass may merge: adjacent in the source, or separated by a line break
    that the hull of the two contains -/
def Glue (src : List Char) (x y : Pipeline.Node) : Prop :=
  ∀ tx ty, textOfK x.kind = some tx → textOfK y.kind = some ty →
    ∃ a1 b1 a2 b2, x.range = some (a1, b1) ∧ y.range = some (a2, b2) ∧
      (b1 = a2 ∨ ∃ g, b1 ≤ g ∧ g < b2 ∧ BrkAt src g)

def Glued (src : List Char) : List Pipeline.Node → Prop
  | [] => True
  | [_] => True
  | x :: y :: r => Glue src x y ∧ Glued src (y :: r)

/-- a node of the tree BEFORE the join pass: range ends on character boundaries; a text-like node
    selects its text, a `TextSpecial` its markup; mergeable neighbours among the children are
    `Glue`d -/
def PreOk (src : List Char) (n : Pipeline.Node) : Prop :=
  ∃ a b, n.range = some (a, b) ∧ Bdy src a ∧ Bdy src b ∧
    (∀ t, textOfK n.kind = some t → Sel src a b t) ∧
    (∀ ct mu info, n.kind = .inl (.special ct mu info) → Sel src a b mu) ∧
    Glued src n.children

/-- a node of the FINISHED tree: range ends on character boundaries; a `Text` selects its content,
    a `TextSpecial` its markup (unless the range holds a line break) -/
def PostOk (src : List Char) (n : Pipeline.Node) : Prop :=
  ∃ a b, n.range = some (a, b) ∧ Bdy src a ∧ Bdy src b ∧
    (∀ t, n.kind = .inl (.text t) → Sel src a b t) ∧
    (∀ ct mu info, n.kind = .inl (.special ct mu info) → Sel src a b mu)

/-- the claim about an `InlineRoot` placeholder the splice walk consumes (`Pipeline.PInl` plus the
    new clauses): its stretch `[a, b]` ends at the end of a line, and whatever the inline parser
    returns for it is ordered inside the stretch, well ranged, `FthN` at every node, with adjacent
    mergeable neighbours and non-empty text-like members -/
def PInlF (icfg : Inline.Cfg) (src : List Char) : Block.InlP := fun c m a b =>
  (b = byteLen src ∨ BrkAt src b) ∧
  ∀ ns, Inline.parseInline icfg c m = .ok ns →
    Inline.OrderedN a b ns ∧ Inline.WellRangedList ns ∧ FthL src ns ∧ Adjd ns ∧ StrictTop ns

end MdIt.C05R
