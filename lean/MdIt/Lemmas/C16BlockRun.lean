/-
  C16 on the block side, part 2: ONE ITERATION OF THE TOKENIZER LOOP, THE SCAN OF THE PARAGRAPH-LIKE RULES,
  THE CHAIN.  Everything here is generic in the id type of the chain and in the rule function `run`.
-/
import MdIt.Lemmas.C16BlockCongr

namespace MdIt.BlockH.C16
open MdIt.Block
open MdIt.Lines (LineOffset)

/-! ## one iteration of `BlockParser::tokenize` -/

/-- what one iteration of the `while state.line < state.line_max` loop does: leave the loop with a
    state, or go round again with `has_empty_lines` and a state -/
inductive StepRes where
  | done (s : BState)
  | next (hasEmpty : Bool) (s : BState)

/-- the body of `tokLoopG`, statement by statement -/
def tokStepG {ι : Type} (maxNesting : Nat) (chain : List ι) (run : ι → BState → Bool → Res)
    (hasEmpty : Bool) (s : BState) : Except Panic StepRes :=
  if ¬ s.line < s.lineMax then .ok (.done s) else
  let s := { s with line := Lines.skipEmptyLines s.offs s.lineMax s.line }
  if s.line ≥ s.lineMax then .ok (.done s) else do
  let ind ← s.lineIndent s.line
  if ind < 0 then .ok (.done s) else
  if s.level ≥ maxNesting then .ok (.done { s with line := s.lineMax }) else do
  let prevLine := s.line
  let (ok, s) ← runChainG run chain s false
  let s ← afterChain ok s prevLine
  let s := { s with tight := !hasEmpty }
  let l1 ← psub s.line 1
  let hasEmpty := hasEmpty || s.isEmpty l1
  if s.line < s.lineMax ∧ s.isEmpty s.line then .ok (.next true { s with line := s.line + 1 })
  else .ok (.next hasEmpty s)

/-- how the loop goes on after an iteration -/
def contG {ι : Type} (maxNesting : Nat) (chain : List ι) (run : ι → BState → Bool → Res) (k : Nat) :
    StepRes → Except Panic BState
  | .done s => .ok s
  | .next he s => tokLoopG maxNesting chain run k he s

/-- **faithfulness of `tokStepG`**: the loop with `k + 1` iterations left is one `tokStepG` and then the
    loop with `k` iterations left (a panic of the step is the panic of the loop) -/
theorem tokLoopG_succ {ι : Type} (mn : Nat) (chain : List ι) (run : ι → BState → Bool → Res)
    (k : Nat) (he : Bool) (s : BState) :
    tokLoopG mn chain run (k + 1) he s = (tokStepG mn chain run he s >>= contG mn chain run k) := by
  simp only [tokLoopG, tokStepG, bind, Except.bind, contG]
  repeat' (first | rfl | split)
  all_goals simp_all


/-! ## the look-ahead contract of a run with custom rules: quiet up to `line` -/

/-- the sweep hands back the state it was given, except possibly `state.line` (a custom rule may advance
    the line in look-ahead mode — the documented contract, `examples/ferris/block_rule.rs`) -/
def TestQuiet (test : Test) : Prop := ∀ s b s', test s = .ok (b, s') → { s' with line := s.line } = s

theorem TestQuiet.of_pure {test : Test} (h : TestPure test) : TestQuiet test := by
  intro s b s' ht
  have := h s (b, s') ht
  simp only at this
  subst this
  cases s'; rfl

/-- the callers' `state.line = old_line` after the sweep gives back the caller's state -/
theorem quiet_restore {s s1 : BState} {nl : Nat}
    (h : { s1 with line := nl } = { s with line := nl }) : { s1 with line := s.line } = s := by
  cases s; cases s1
  simp only [BState.mk.injEq] at h ⊢
  simp [h]

/-- the scan stopped at `l` BECAUSE THE SWEEP ANSWERED YES THERE: `l` is an existing, non-blank line,
    less than 4 columns in, not a lazy continuation line of a quote (`indent_nonspace ≥ 0`), and
    `test_rules_at_line` — called on the caller's state with `line := l` — answered `true` -/
structure SweepStop (test : Test) (s : BState) (l : Nat) : Prop where
  lt : l < s.lineMax
  nonblank : s.isEmpty l = false
  ind : ∃ ind, s.lineIndent l = .ok ind ∧ ind < 4
  off : ∃ o, s.off l = .ok o ∧ 0 ≤ o.indentNonspace
  yes : ∃ s1, test { s with line := l } = .ok (true, s1)

/-- **the scan of the paragraph / lheading / reference rule** under a quiet sweep: it hands back the
    state it was given (the model restores `line` after every sweep: `s2 := { s1 with line := oldLine }`
    in `lazyScan`), moves forward, and stops for exactly one of three reasons -/
theorem lazyScan_stop {test : Test} (ht : TestQuiet test) (setext : Bool) :
    ∀ (fuel : Nat) (s : BState) (n l lvl : Nat) (s' : BState),
      lazyScan test setext fuel s n = .ok (l, lvl, s') →
      s' = s ∧ n < l ∧
      ((lvl = 0 ∧ (l ≥ s.lineMax ∨ s.isEmpty l = true)) ∨
       (lvl ≠ 0 ∧ setext = true ∧ l < s.lineMax) ∨
       (lvl = 0 ∧ SweepStop test s l)) := by
  intro fuel
  induction fuel with
  | zero => intro s n l lvl s' h; simp [lazyScan] at h
  | succ f ih =>
    intro s n l lvl s' h
    simp only [lazyScan] at h
    crack h
    · subst_vars
      exact ⟨rfl, by omega, .inl ⟨rfl, ‹_ ∨ _›⟩⟩
    · obtain ⟨h1, h2, h3⟩ := ih _ _ _ _ _ h
      exact ⟨h1, by omega, h3⟩
    · have hc : ¬(_ ∨ _) := ‹_›
      have hsx : setextCheck setext s _ (n + 1) = .ok _ := ‹_›
      have hl : _ ≠ 0 := ‹_›
      subst_vars
      simp only [not_or] at hc
      refine ⟨rfl, by omega, .inr (.inl ⟨hl, ?_, by omega⟩)⟩
      unfold setextCheck at hsx
      split at hsx
      · rename_i hh; exact hh.1
      · simp only [pure_ok] at hsx; exact absurd hsx.symm hl
    · obtain ⟨h1, h2, h3⟩ := ih _ _ _ _ _ h
      exact ⟨h1, by omega, h3⟩
    · have hc : ¬(_ ∨ _) := ‹_›
      have hind : s.lineIndent (n + 1) = .ok _ := ‹_›
      have h4 : ¬ _ ≥ (4 : Int) := ‹_›
      have ho : s.off (n + 1) = .ok _ := ‹_›
      have hneg : ¬ _ < (0 : Int) := ‹_›
      have htest : test _ = .ok _ := ‹_›
      have hb : _ = true := ‹_›
      rename_i w _ _ _ _
      obtain ⟨b, s1⟩ := w
      simp only at hb
      subst hb
      have hr := quiet_restore (ht _ _ _ htest)
      subst_vars
      simp only [not_or] at hc
      refine ⟨hr, by omega, .inr (.inr ⟨rfl, ?_⟩)⟩
      exact ⟨by omega, by simpa using hc.2, ⟨_, hind, by omega⟩, ⟨_, ho, by omega⟩, ⟨_, htest⟩⟩
    · have htest : test _ = .ok _ := ‹_›
      rename_i w _ _
      obtain ⟨b, s1⟩ := w
      have hr := quiet_restore (ht _ _ _ htest)
      simp only at h
      rw [show ({ s1 with line := s.line } : BState) = s from hr] at h
      obtain ⟨h1, h2, h3⟩ := ih _ _ _ _ _ h
      exact ⟨h1, by omega, h3⟩


/-- what the paragraph rule does in real mode, under a quiet sweep: it always accepts; the new state is
    the old one at the line where the scan stopped, with one `Paragraph` node more -/
theorem paragraph_ok {test : Test} (ht : TestQuiet test) {fuel : Nat} {s s' : BState} {b : Bool}
    (h : paragraphRule test fuel s false = .ok (b, s')) :
    b = true ∧ ∃ l lvl r content mapping, lazyScan test false fuel s s.line = .ok (l, lvl, s) ∧
      s' = upd { s with line := l }
        (s.children ++ [⟨.paragraph, some r, [⟨.inlineRoot content mapping, none, []⟩]⟩]) s.tight s.refs := by
  unfold paragraphRule at h
  simp only [Bool.false_eq_true, if_false] at h
  obtain ⟨⟨l, lvl, s0⟩, hs, h⟩ := bind_ok.mp h
  obtain ⟨rfl, _, _⟩ := lazyScan_stop ht false _ _ _ _ _ _ hs
  dsimp only at h
  obtain ⟨⟨content, mapping⟩, hg, h⟩ := bind_ok.mp h
  dsimp only at h
  obtain ⟨e, he, h⟩ := bind_ok.mp h
  obtain ⟨r, hr, h⟩ := bind_ok.mp h
  simp only [pure_ok, Prod.mk.injEq] at h
  obtain ⟨rfl, rfl⟩ := h
  exact ⟨rfl, l, lvl, r, content, mapping, hs, by cases s0; rfl⟩

/-! ## the chain -/

section chain
variable {ι : Type} {run : ι → BState → Bool → Res}

/-- every member of `pre` declines on `s` and leaves it as it was -/
def Declined (run : ι → BState → Bool → Res) (pre : List ι) (s : BState) (silent : Bool) : Prop :=
  ∀ j ∈ pre, run j s silent = .ok (false, s)

theorem declined_nil {s : BState} {silent : Bool} : Declined run [] s silent := fun _ h => nomatch h

theorem declined_cons {p : ι} {pre : List ι} {s : BState} {silent : Bool} (hp : run p s silent = .ok (false, s))
    (h : Declined run pre s silent) : Declined run (p :: pre) s silent := by
  intro k hk
  rcases List.mem_cons.mp hk with rfl | hk
  · exact hp
  · exact h k hk

/-- **faithfulness of `Declined`**: the chain goes through a declining prefix and calls the next member
    on the very state -/
theorem runChainG_declined {pre : List ι} {s : BState} {silent : Bool} (h : Declined run pre s silent)
    (post : List ι) : runChainG run (pre ++ post) s silent = runChainG run post s silent := by
  induction pre with
  | nil => rfl
  | cons p pre ih =>
    simp only [List.cons_append, runChainG, h p (List.mem_cons_self ..)]
    exact ih (fun j hj => h j (List.mem_cons_of_mem _ hj))

/-- a `true` of the chain comes from its first member that says `true`, reached on the untouched state -/
theorem chain_true_split (hno : ∀ i s s', run i s silent = .ok (false, s') → s' = s) :
    ∀ (chain : List ι) {s s1 : BState}, runChainG run chain s silent = .ok (true, s1) →
      ∃ pre j post, chain = pre ++ j :: post ∧ Declined run pre s silent ∧ run j s silent = .ok (true, s1) := by
  intro chain
  induction chain with
  | nil => intro s s1 h; simp [runChainG] at h
  | cons r rs ih =>
    intro s s1 h
    simp only [runChainG] at h
    split at h
    · cases h
    · rename_i s' hr
      simp only [Except.ok.injEq, Prod.mk.injEq, true_and] at h
      subst h
      exact ⟨[], r, rs, rfl, declined_nil, hr⟩
    · rename_i s' hr
      have := hno _ _ _ hr
      subst this
      obtain ⟨pre, j, post, rfl, hd, hj⟩ := ih h
      exact ⟨r :: pre, j, post, rfl, declined_cons hr hd, hj⟩

/-- **look-ahead and real parsing agree on the chain**: if the first look-ahead yes on `s` is member `j`
    (behind `pre`), then the real chain on `s`, when it returns, accepts — with `j` itself, or with a
    member of `pre` (one that declines in look-ahead mode and accepts in real mode) -/
theorem chain_agree (hfs : ∀ i s s', run i s false = .ok (false, s') → s' = s)
    (hsr : ∀ i s s1 s2 b, run i s true = .ok (true, s1) → run i s false = .ok (b, s2) → b = true) :
    ∀ (pre : List ι) (j : ι) (post : List ι) {s s1 s2 : BState} {b : Bool},
      run j s true = .ok (true, s1) → runChainG run (pre ++ j :: post) s false = .ok (b, s2) →
      b = true ∧ ∃ pre' j' post', pre ++ j :: post = pre' ++ j' :: post' ∧ Declined run pre' s false ∧
        run j' s false = .ok (true, s2) ∧ pre'.length ≤ pre.length ∧ ((pre' = pre ∧ j' = j) ∨ j' ∈ pre) := by
  intro pre
  induction pre with
  | nil =>
    intro j post s s1 s2 b hj h
    simp only [List.nil_append, runChainG] at h
    split at h
    · cases h
    · rename_i s' hr
      simp only [Except.ok.injEq, Prod.mk.injEq] at h
      obtain ⟨rfl, rfl⟩ := h
      exact ⟨rfl, [], j, post, rfl, declined_nil, hr, Nat.le_refl _, .inl ⟨rfl, rfl⟩⟩
    · rename_i s' hr
      exact absurd (hsr _ _ _ _ _ hj hr) (by simp)
  | cons p pre ih =>
    intro j post s s1 s2 b hj h
    simp only [List.cons_append, runChainG] at h
    split at h
    · cases h
    · rename_i s' hr
      simp only [Except.ok.injEq, Prod.mk.injEq] at h
      obtain ⟨rfl, rfl⟩ := h
      exact ⟨rfl, [], p, pre ++ j :: post, rfl, declined_nil, hr, Nat.zero_le _, .inr (List.mem_cons_self ..)⟩
    · rename_i s' hr
      have := hfs _ _ _ hr
      subst this
      obtain ⟨hb, pre', j', post', he, hd, hj', hlen, heq⟩ := ih j post hj h
      refine ⟨hb, p :: pre', j', post', by rw [List.cons_append, he]; rfl, declined_cons hr hd, hj',
        by simp only [List.length_cons]; omega, ?_⟩
      rcases heq with ⟨rfl, rfl⟩ | hm
      · exact .inl ⟨rfl, rfl⟩
      · exact .inr (List.mem_cons_of_mem _ hm)


/-- two rule functions that agree in look-ahead mode sweep alike -/
theorem runChainG_silent_ext {run run' : ι → BState → Bool → Res} (h : ∀ i s, run i s true = run' i s true) :
    ∀ (chain : List ι) (s : BState), runChainG run chain s true = runChainG run' chain s true := by
  intro chain
  induction chain with
  | nil => intro s; rfl
  | cons r rs ih =>
    intro s
    simp only [runChainG, h, ih]

/-- a sweep whose members do not read the tree / `tight` / the reference map does not read them -/
theorem runChainG_silent_upd (hc : ∀ i s c b m, run i (upd s c b m) true = Except.map (mp c b m) (run i s true))
    (c : List BNode) (b : Bool) (m : Refs.RefMap) :
    ∀ (chain : List ι) (s : BState),
      runChainG run chain (upd s c b m) true = Except.map (mp c b m) (runChainG run chain s true) := by
  intro chain
  induction chain with
  | nil => intro s; rfl
  | cons r rs ih =>
    intro s
    simp only [runChainG, hc]
    cases run r s true with
    | error e => rfl
    | ok w =>
      obtain ⟨v, s'⟩ := w
      cases v
      · exact ih s'
      · rfl

end chain

/-! ## an iteration that runs the chain -/

/-- the loop standing at `s` runs the chain, on the state `sE` (`s` behind its blank lines) -/
structure RunsChain (mn : Nat) (s sE : BState) : Prop where
  lt : s.line < s.lineMax
  eq : sE = { s with line := Lines.skipEmptyLines s.offs s.lineMax s.line }
  ltE : sE.line < sE.lineMax
  ind : ∃ ind, sE.lineIndent sE.line = .ok ind ∧ 0 ≤ ind
  lvl : sE.level < mn

/-- the statements of the loop body behind the chain -/
def afterStep (hasEmpty : Bool) (prevLine : Nat) (r : Bool × BState) : Except Panic StepRes := do
  let s ← afterChain r.1 r.2 prevLine
  let s := { s with tight := !hasEmpty }
  let l1 ← psub s.line 1
  let hasEmpty := hasEmpty || s.isEmpty l1
  if s.line < s.lineMax ∧ s.isEmpty s.line then .ok (.next true { s with line := s.line + 1 })
  else .ok (.next hasEmpty s)

/-- **faithfulness of `RunsChain`**: the iteration IS the real chain on `sE`, then `afterStep` -/
theorem tokStepG_runs {ι : Type} {mn : Nat} {chain : List ι} {run : ι → BState → Bool → Res} {he : Bool}
    {s sE : BState} (h : RunsChain mn s sE) :
    tokStepG mn chain run he s = (runChainG run chain sE false >>= afterStep he sE.line) := by
  obtain ⟨h1, rfl, h2, ⟨ind, h3, h4⟩, h5⟩ := h
  dsimp only at h2 h3 h5
  unfold tokStepG
  simp only [h1, not_true_eq_false, if_false]
  rw [if_neg (by omega)]
  simp only [h3, ok_bind]
  rw [if_neg (by omega), if_neg (by omega)]
  rfl


/-- after an iteration in which the chain accepted and moved to an existing non-blank line `l`, the loop
    goes round again AT `l` -/
theorem step_after_accept {ι : Type} {mn : Nat} {chain : List ι} {run : ι → BState → Bool → Res} {he : Bool}
    {s sE : BState} {l : Nat} {c : List BNode} {m : Refs.RefMap} (hR : RunsChain mn s sE)
    (hch : runChainG run chain sE false = .ok (true, upd { sE with line := l } c sE.tight m))
    (hlt : sE.line < l) (_hl : l < sE.lineMax) (hne : sE.isEmpty l = false) :
    tokStepG mn chain run he s =
      .ok (.next (he || sE.isEmpty (l - 1)) (upd { sE with line := l } c (!he) m)) := by
  rw [tokStepG_runs hR, hch, ok_bind]
  unfold afterStep afterChain
  have hp : psub l 1 = .ok (l - 1) := by unfold psub; rw [if_pos (by omega)]
  have hne' : Lines.isEmpty sE.offs l = false := hne
  simp only [upd, if_true, gt_iff_lt, hlt, pure, Except.pure, ok_bind, hp, BState.isEmpty, hne',
    Bool.false_eq_true, and_false, if_false]

/-- **the next iteration**: the loop standing at an existing non-blank line below the nesting limit runs
    the chain there when the line is not outdented, and leaves the frame there when it is -/
theorem next_iteration {ι : Type} {mn : Nat} {chain : List ι} {run : ι → BState → Bool → Res}
    {u : BState} (hl : u.line < u.lineMax) (hne : u.isEmpty u.line = false) (hlv : u.level < mn)
    {ind : Int} (hind : u.lineIndent u.line = .ok ind) :
    (0 ≤ ind → RunsChain mn u u) ∧
    (ind < 0 → ∀ he, tokStepG mn chain run he u = .ok (.done u)) := by
  have hsk : Lines.skipEmptyLines u.offs u.lineMax u.line = u.line := (skipEmpty_spec _ _ _).2.2.1 hne
  have hu : ({ u with line := Lines.skipEmptyLines u.offs u.lineMax u.line } : BState) = u := by
    rw [hsk]
  constructor
  · intro h0
    exact ⟨hl, hu.symm, hl, ⟨ind, hind, h0⟩, hlv⟩
  · intro hneg he
    unfold tokStepG
    simp only [hl, not_true_eq_false, if_false, hu]
    rw [if_neg (by omega)]
    simp only [hsk, hind, ok_bind, hneg, if_true]

end MdIt.BlockH.C16
