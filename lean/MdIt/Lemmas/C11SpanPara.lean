/-
  C11, code SPANS, BLOCK level at the top: a ONE-LINE document whose first character no block rule but
  `paragraph` claims is one paragraph over the whole line (`parseBlocks_line`), and the run ends `tight`
  (`tokenize_line_tight`) — the two hypotheses `hbase` / `htight` of `C11N.doc_para_blocks_nested`.

  The chain may hold any rules in any order in front of `paragraph` (`paragraph ∉ pre`); each of them answers
  `false` on the line (`quiet_on_para`): `code` (indent 0), `fence`, `blockquote`, `hr`, `list`, `reference`,
  `heading` (the first character, `ParaFirst`), `lheading` (there is no second line).
-/
import MdIt.Lemmas.C14DocVerbatim
set_option linter.unusedSimpArgs false
set_option linter.unusedVariables false

namespace MdIt.Block
open MdIt.Lines (LineOffset NoTerm lead)

/-- a first character that no block rule but `paragraph` claims: not a blank, none of `` ` ~ > * - _ + # [ ``,
    not a digit -/
def ParaFirst (c : Char) : Prop :=
  c ≠ ' ' ∧ c ≠ '\t' ∧ c ≠ '`' ∧ c ≠ '~' ∧ c ≠ '>' ∧ c ≠ '*' ∧ c ≠ '-' ∧ c ≠ '_' ∧ c ≠ '+' ∧ c ≠ '#' ∧ c ≠ '[' ∧
    isDigit c = false

instance (c : Char) : Decidable (ParaFirst c) := by unfold ParaFirst; infer_instance

theorem ParaFirst.notBlank {c : Char} (h : ParaFirst c) : Lines.isBlank c = false := by
  simp [Lines.isBlank, h.1, h.2.1]

/-- the rules in front of `paragraph` on the last line of a document, at indent 0, first character `ParaFirst` -/
theorem quiet_on_para {cfg : Cfg} {tok : Tok} {test : Test} {fuel : Nat} {r : RuleId}
    (hr : r ≠ .paragraph) {s : BState} {c : Char} {rest : List Char}
    (hind : s.lineIndent s.line = .ok 0) (hgl : s.getLine s.line = .ok (c :: rest)) (hc : ParaFirst c)
    (hli : s.listIndent = none) (hlast : s.lineMax ≤ s.line + 1) :
    runRule cfg tok test (fuel + 1) r s false = .ok (false, s) := by
  obtain ⟨h1, h2, h3, h4, h5, h6, h7, h8, h9, h10, h11, h12⟩ := hc
  cases r with
  | code => simp [runRule, codeRule, hind, pure, Except.pure]
  | fence => simp [runRule, fenceRule, hind, hgl, h3, h4, pure, Except.pure]
  | blockquote => simp [runRule, blockquoteRule, hind, hgl, h5, pure, Except.pure]
  | hr => simp [runRule, hrRule, hind, hgl, h6, h7, h8, pure, Except.pure]
  | list =>
    simp [runRule, listRule, hind, hgl, hli, listSpecial, detectMarker, skipOrdered, skipBullet, h12, h6, h7, h9,
      pure, Except.pure]
  | reference => simp [runRule, referenceRule, hind, hgl, h11, pure, Except.pure]
  | heading => simp [runRule, headingRule, hind, hgl, h10, pure, Except.pure]
  | lheading =>
    have : s.line + 1 ≥ s.lineMax := hlast
    simp [runRule, lheadingRule, hind, lazyScan, this, pure, Except.pure, bind, Except.bind]
  | paragraph => exact absurd rfl hr

/-- the tokenizer's own result in the situation of `parseBlocks_single`: the state the rule left, `tight` -/
theorem tokenize_single {cfg : Cfg} {src : List Char} {s' : BState} {i : Int}
    (hmn : 0 < cfg.maxNesting)
    (hlt : 0 < (BState.fresh src .root []).lineMax)
    (hne : (BState.fresh src .root []).isEmpty 0 = false)
    (hind : (BState.fresh src .root []).lineIndent 0 = .ok i) (hi : 0 ≤ i)
    (hchain : ∀ f, runChain (ruleAt cfg f) cfg.chain (BState.fresh src .root []) false = .ok (true, s'))
    (hprog : 0 < s'.line) (hend : s'.line = s'.lineMax) :
    tokenize cfg (fuelFor cfg src) (BState.fresh src .root []) = .ok { s' with tight := true } := by
  obtain ⟨f, hf⟩ : ∃ f, fuelFor cfg src = f + 2 :=
    ⟨(Lines.splitLines src).length + min cfg.maxNesting (Lines.byteLen src) + 6, by unfold fuelFor; omega⟩
  rw [hf, tokenize_succ,
    tokLoop_single (cfg := cfg) f false (s := BState.fresh src .root []) hlt hne hind hi hmn (hchain _) hprog hend]
  rfl

/-- the fresh state over the one line `c :: r` -/
theorem onDoc_line {c : Char} {r : List Char} (hnt : NoTerm (c :: r)) (k : Kind) (refs : Refs.RefMap) :
    OnDoc [c :: r] (BState.fresh (docOf [c :: r]) k refs) :=
  OnDoc.fresh (by simp) (by intro l hl; simp at hl; subst hl; exact hnt) (by simp) k refs

theorem docOf_one (l : List Char) : docOf [l] = l := by simp [docOf, Lines.joinLines]

/-- the paragraph rule on the fresh state over the one line `l = c :: r` (first character not blank): one
    paragraph over the whole line, inline text `l`, table `[(0, 0)]` -/
theorem paragraph_line {c : Char} {r : List Char} (hnt : NoTerm (c :: r)) (hc : Lines.isBlank c = false)
    (test : Test) (fuel : Nat) :
    paragraphRule test (fuel + 1) (BState.fresh (c :: r) .root []) false =
      .ok (true, { (BState.fresh (c :: r) .root []) with
        line := 1,
        children := [⟨.paragraph, some (0, Lines.byteLen (c :: r)), [⟨.inlineRoot (c :: r) [(0, 0)], none, []⟩]⟩] }) := by
  have hon := onDoc_line hnt .root []
  rw [docOf_one] at hon
  obtain ⟨s, hs⟩ : ∃ s, s = BState.fresh (c :: r) .root [] := ⟨_, rfl⟩
  rw [← hs] at hon ⊢
  have h0 : 0 < [c :: r].length := by simp
  have hlen : s.offs.length = 1 := hon.length
  have hmax : s.lineMax = 1 := by rw [hs]; simp only [BState.fresh]; rw [hs] at hlen; exact hlen
  have hline : s.line = 0 := by rw [hs]; rfl
  have hblk : s.blkIndent = 0 := hon.blk
  have hld := lead_nonblank_cons r hc
  -- the table entry of line 0
  obtain ⟨o, ho, hsh⟩ := hon.entry h0
  simp only [List.getElem_cons_zero, hld.1, hld.2] at hsh
  have hst : o.lineStart = 0 :=
    (Lines.split_offsets_valid (docOf [c :: r])).first o (by rw [← hon.offs]; exact ho)
  have hfn : o.firstNonspace = 0 := by
    have := hon.firstNonspace_first h0 ho
    simpa [hld.1] using this
  have hle : o.lineEnd = Lines.byteLen (c :: r) := by
    have := hon.lineEnd_last (o := o) (by simpa using ho)
    rw [this, hon.src, docOf_one]
  -- `get_lines(0, 1, 0, false)`
  have hgl : s.getLines 0 1 0 false = .ok (c :: r, [(0, 0)]) := by
    obtain ⟨content, hg, hcont, _⟩ := Lines.get_lines_faithful s.src s.offs 0 0 false
      [(o, (([] : List Char), c :: r, ((Lines.indentWidth ([] : List Char) : Nat) : Int)))]
      (by
        intro j hj
        have : j = 0 := by simp at hj; omega
        subst this
        exact ⟨by simpa using ho, hsh⟩)
    have e0 : Lines.usizeAsI32 0 = 0 := by decide
    have hcw : Lines.calcRightWs ([] : List Char) ((Lines.indentWidth ([] : List Char) : Nat) : Int) = (0, 0) :=
      Lines.cut_full_indent []
    have hvp : Lines.viewPiece 0 (([] : List Char), c :: r, ((Lines.indentWidth ([] : List Char) : Nat) : Int)) = c :: r := by
      simp [Lines.viewPiece, e0, hcw, Lines.dropB]
    have hmap : Lines.mapOf 0 0 [(o, (([] : List Char), c :: r, ((Lines.indentWidth ([] : List Char) : Nat) : Int)))] =
        [(0, 0)] := by
      simp [Lines.mapOf, e0, hcw, hst]
    rw [hmap] at hg
    simp only [List.map_cons, List.map_nil, hvp, Lines.joinLines, Bool.false_eq_true, if_false] at hcont
    subst hcont
    simp only [BState.getLines, liftL]
    simp only [List.length_cons, List.length_nil, Nat.zero_add] at hg
    rw [hg]
  have hmap : ∀ t : BState, t.offs = s.offs → t.getMap 0 (1 - 1) = .ok (0, Lines.byteLen (c :: r)) := by
    intro t ht
    simp [BState.getMap, Lines.getMap, ht, ho, liftL, hfn, hle]
  unfold paragraphRule
  simp only [Bool.false_eq_true, if_false, lazyScan, hline, hmax, Nat.zero_add, ge_iff_le, Nat.le_refl, true_or,
    if_true, bind, Except.bind, hblk, hgl, psub, pure, Except.pure, BState.push]
  rw [hmap _ (by rfl)]
  rw [hs]
  rfl

theorem hend_line {c : Char} {r : List Char} (hnt : NoTerm (c :: r)) :
    1 = (BState.fresh (c :: r) .root []).lineMax := by
  have := (onDoc_line hnt .root []).length
  rw [docOf_one] at this
  simp only [BState.fresh] at this ⊢
  exact this.symm

section line
variable {c : Char} {r : List Char} (hnt : NoTerm (c :: r)) (hc : ParaFirst c)
  {cfg : Cfg} {pre post : List RuleId} (hchain : cfg.chain = pre ++ .paragraph :: post)
  (hpre : .paragraph ∉ pre) (hmn : 0 < cfg.maxNesting)
include hnt hc hchain hpre

theorem line_facts :
    0 < (BState.fresh (c :: r) .root []).lineMax ∧ (BState.fresh (c :: r) .root []).isEmpty 0 = false ∧
    (BState.fresh (c :: r) .root []).lineIndent 0 = .ok 0 ∧
    ∀ f, runChain (ruleAt cfg f) cfg.chain (BState.fresh (c :: r) .root []) false =
      .ok (true, { (BState.fresh (c :: r) .root []) with
        line := 1,
        children := [⟨.paragraph, some (0, Lines.byteLen (c :: r)), [⟨.inlineRoot (c :: r) [(0, 0)], none, []⟩]⟩] }) := by
  have hon := onDoc_line hnt .root []
  rw [docOf_one] at hon
  have h0 : 0 < [c :: r].length := by simp
  have hld := lead_nonblank_cons r hc.notBlank
  have hlen := hon.length
  have hmax : (BState.fresh (c :: r) .root []).lineMax = 1 := by simp only [BState.fresh] at hlen ⊢; exact hlen
  have hli : (BState.fresh (c :: r) .root []).lineIndent 0 = .ok 0 := by
    have := hon.lineIndent h0
    simpa [hld.1, Lines.indentWidth, Lines.widthFrom] using this
  have hgl : (BState.fresh (c :: r) .root []).getLine 0 = .ok (c :: r) := by
    have := hon.getLine h0
    simpa [hld.2] using this
  refine ⟨by omega, ?_, hli, ?_⟩
  · rw [hon.isEmpty h0]; simp [hld.2]
  · intro f
    rw [hchain]
    refine runChain_reach (fun q hq => ?_) ?_
    · exact quiet_on_para (fun e => hpre (e ▸ hq)) hli hgl hc rfl (by rw [hmax]; exact Nat.le_refl _)
    · exact paragraph_line hnt hc.notBlank _ f

include hmn

/-- **the block pass on a one-line paragraph**: `Root[Paragraph[InlineRoot l [(0, 0)]]]`, both nodes over the
    whole source, no reference -/
theorem parseBlocks_line :
    parseBlocks cfg (c :: r) =
      .ok (⟨.root, some (0, Lines.byteLen (c :: r)),
            [⟨.paragraph, some (0, Lines.byteLen (c :: r)), [⟨.inlineRoot (c :: r) [(0, 0)], none, []⟩]⟩]⟩, []) := by
  obtain ⟨h1, h2, h3, h4⟩ := line_facts hnt hc hchain hpre
  exact parseBlocks_single hmn h1 h2 h3 (by omega) h4 (by simp) (hend_line hnt)
    rfl

/-- … and the run ends `tight` -/
theorem tokenize_line_tight (t : BState)
    (ht : tokenize cfg (fuelFor cfg (c :: r)) (BState.fresh (c :: r) .root []) = .ok t) : t.tight = true := by
  obtain ⟨h1, h2, h3, h4⟩ := line_facts hnt hc hchain hpre
  rw [tokenize_single hmn h1 h2 h3 (by omega) h4 (by simp)
    (hend_line hnt)] at ht
  cases ht
  rfl

end line

end MdIt.Block
