/-
  C11, code SPANS, the general form at RULE and INLINE level.

  `Lemmas/C11SpanInline.lean` runs the inline parser on `pre ++ `ᵏ⁺¹ ␠ T ␠ `ᵏ⁺¹ ++ post` (the PADDED form) with a
  ONE-entry table.  Here both restrictions go:

    * the content between the backtick runs is any `R ≠ []` that neither starts nor ends with a backtick and has
      no run of `k + 1` backticks (`RawOk`) — padded or not; the text child of the `CodeInline` node is
      `CodePair.unpad (CodePair.normalise R)` (`spanContent`), its range the inside of the span, moved inwards by
      one byte on either side exactly when the padding pair is stripped (`padW`);
    * the table is ANY table whose offset translation is total, `get_source_pos_for m a = Ok (tr a)` for every `a`
      (`OnT`) — the ranges are `tr` of the inline offsets.  (A one-entry table `[(0, x)]`: `tr a = x + a`; the
      table `get_lines` builds for an `n`-line top-level paragraph: `tr a = a`, `C11M.idTable_translate`.)

    `CodePair.span_scan_raw`, `CodePair.span_raw_ctx`   the rule (`span_scan` / `span_verbatim_ctx` for any last
                                                         character of the content in place of the padding space)
    `C11M.parseInline_raw`                               the inline parser
-/
import MdIt.Lemmas.C11SpanInline
set_option linter.unusedSimpArgs false
set_option linter.unusedVariables false

namespace MdIt.CodePair

/-- `span_scan` with any character `e ≠ m` in place of the padding space in front of the closing run -/
theorem span_scan_raw (v : Variant) (m : Char) (hm1 : m.utf8Size = 1) (e : Char) (hm : m ≠ e) (src : List Char)
    (pos p posMax k : Nat) (X0 W Z : List Char) (hW : W.head? ≠ some m) :
    ∀ (M0 X1 : List Char) (matchEnd : Nat) (c : Cache),
      ¬ List.replicate (k + 1) m <:+: M0 →
      Frame src pos p posMax matchEnd X0 X1 (M0 ++ [e] ++ List.replicate (k + 1) m ++ W) Z →
      ∃ c', scan v m src pos posMax (k + 1) p false matchEnd c =
        .ok (some ⟨matchEnd + byteLen (M0 ++ [e]) + (k + 1) - pos,
              some (nodeOf pos p (matchEnd + byteLen (M0 ++ [e])) (matchEnd + byteLen (M0 ++ [e]) + (k + 1))
                (k + 1) (X1 ++ (M0 ++ [e])))⟩, c') := by
  intro M0
  induction M0 using runs_induction (m := m) with
  | nomark M0 hM0 =>
    intro X1 matchEnd c _ f
    have hA : m ∉ M0 ++ [e] := by simp [hM0, hm]
    obtain ⟨h1, h2, h3⟩ := f.hit_args hm1
    have hge : pos ≤ matchEnd := by have := f.hme; have := f.hpos; omega
    rw [scan_hit v m hm1 pos (k + 1) p false c h1 h2 h3 hA hW, if_pos rfl, if_neg (by omega),
      if_neg (by simp), f.mkNode (k + 1)]
    exact ⟨c, rfl⟩
  | hit A j T hA hT ih =>
    intro X1 matchEnd c hni f
    have hjk : j + 1 ≠ k + 1 := by
      intro e'; apply hni; rw [e']; exact ⟨A, T, rfl⟩
    have hT' : (T ++ [e] ++ List.replicate (k + 1) m ++ W).head? ≠ some m := by
      cases T with
      | nil => simp; exact fun e' => hm e'.symm
      | cons t T => simpa using hT
    have f' : Frame src pos p posMax matchEnd X0 X1
        (A ++ List.replicate (j + 1) m ++ (T ++ [e] ++ List.replicate (k + 1) m ++ W)) Z := by
      have e' : A ++ List.replicate (j + 1) m ++ T ++ [e] ++ List.replicate (k + 1) m ++ W =
          A ++ List.replicate (j + 1) m ++ (T ++ [e] ++ List.replicate (k + 1) m ++ W) := by simp
      rw [← e']; exact f
    obtain ⟨h1, h2, h3⟩ := f'.hit_args hm1
    rw [scan_hit v m hm1 pos (k + 1) p false c h1 h2 h3 hA hT', if_neg hjk]
    obtain ⟨mx, hmx, _⟩ := record_spec v.monotone c.max (j + 1) (matchEnd + byteLen A)
    rw [hmx]
    have hni' : ¬ List.replicate (k + 1) m <:+: T := by
      intro ⟨a, b, hab⟩
      apply hni
      exact ⟨A ++ List.replicate (j + 1) m ++ a, b, by rw [← hab]; simp⟩
    obtain ⟨c', hc'⟩ := ih (X1 ++ A ++ List.replicate (j + 1) m) _ { c with max := mx } hni' (f'.next hm1)
    refine ⟨c', ?_⟩
    simp only at hc' ⊢
    rw [hc']
    have e1 : matchEnd + byteLen A + (j + 1) + byteLen (T ++ [e]) =
        matchEnd + byteLen (A ++ List.replicate (j + 1) m ++ T ++ [e]) := by
      simp only [byteLen_append, byteLen_replicate hm1]; omega
    have e2 : X1 ++ A ++ List.replicate (j + 1) m ++ (T ++ [e]) =
        X1 ++ (A ++ List.replicate (j + 1) m ++ T ++ [e]) := by simp
    rw [e1, e2]

/-- the content between the runs: not empty, no marker at either end, no run of `k + 1` markers -/
structure RawOk (m : Char) (k : Nat) (R : List Char) : Prop where
  ne : R ≠ []
  head : R.head? ≠ some m
  last : R.getLast? ≠ some m
  runs : ¬ List.replicate (k + 1) m <:+: R

/-- **the code-span rule on the general span** `pre ++ mᵏ⁺¹ R mᵏ⁺¹ ++ W ++ Z` (`RawOk m k R`), called in real
    mode at the opener: `Some(len)` with `len` the whole span; the node is `nodeOf …  R` — content
    `unpad (normalise R)`, inner range moved inwards by one byte on either side iff the padding pair goes. -/
theorem span_raw_ctx (m : Char) (hm1 : m.utf8Size = 1)
    (pre R W Z : List Char) (k : Nat) (hR : RawOk m k R)
    (hW : W.head? ≠ some m) (prev : Bool) (c : Cache)
    (hinv : CacheInv m (pre ++ (List.replicate (k + 1) m ++ R ++ List.replicate (k + 1) m) ++ W ++ Z) c)
    (hins : c.insideFailed.contains (byteLen pre) = false)
    (hcut : byteLen pre + (2 * (k + 1) + byteLen R) + byteLen W = c.scannedTo ∨
      NoCut m (pre ++ (List.replicate (k + 1) m ++ R ++ List.replicate (k + 1) m) ++ W ++ Z)
        (byteLen pre + (2 * (k + 1) + byteLen R) + byteLen W)) :
    ∃ c', run Variant.current m
        (pre ++ (List.replicate (k + 1) m ++ R ++ List.replicate (k + 1) m) ++ W ++ Z)
        (byteLen pre) (byteLen pre + (2 * (k + 1) + byteLen R) + byteLen W) prev false c =
      .ok (some ⟨2 * (k + 1) + byteLen R,
        some (nodeOf (byteLen pre) (byteLen pre + (k + 1)) (byteLen pre + (k + 1) + byteLen R)
          (byteLen pre + (2 * (k + 1) + byteLen R)) (k + 1) R)⟩, c') := by
  have hrep := byteLen_replicate hm1
  obtain ⟨M0, e, hMe⟩ : ∃ M0 e, R = M0 ++ [e] := by
    rcases List.eq_nil_or_concat R with h | ⟨i, l, h⟩
    · exact absurd h hR.ne
    · exact ⟨i, l, by simpa using h⟩
  have hme : m ≠ e := by
    intro h
    apply hR.last
    rw [hMe, List.getLast?_concat, h]
  have hniM : ¬ List.replicate (k + 1) m <:+: M0 := by
    intro ⟨a, b, hab⟩
    apply hR.runs
    exact ⟨a, b ++ [e], by rw [hMe, ← hab]; simp⟩
  generalize hsrc : pre ++ (List.replicate (k + 1) m ++ R ++ List.replicate (k + 1) m) ++ W ++ Z = src at hinv hcut ⊢
  generalize hpm : byteLen pre + (2 * (k + 1) + byteLen R) + byteLen W = posMax at hcut ⊢
  let rest := List.replicate k m ++ (R ++ List.replicate (k + 1) m ++ W)
  have hu : slice src (byteLen pre) posMax = some (m :: rest) := by
    have := slice_mid pre (m :: rest) Z
    have e1 : src = pre ++ (m :: rest) ++ Z := by
      rw [← hsrc]; simp [rest, List.replicate_succ]
    have e2 : byteLen pre + byteLen (m :: rest) = posMax := by
      rw [← hpm]; simp [rest, byteLen, byteLen_append, hrep, hm1]; omega
    rw [e1, ← e2]; exact this
  have hrl : runLen m rest = k := by
    apply runLen_replicate
    cases R with
    | nil => exact absurd rfl hR.ne
    | cons d t => simpa using hR.head
  have key : ∀ d : Cache, d.scanned = false → d.insideFailed.contains (byteLen pre) = false →
      ∃ c', run Variant.current m src (byteLen pre) posMax prev false d =
        .ok (some ⟨2 * (k + 1) + byteLen R,
          some (nodeOf (byteLen pre) (byteLen pre + (k + 1)) (byteLen pre + (k + 1) + byteLen R)
            (byteLen pre + (2 * (k + 1) + byteLen R)) (k + 1) R)⟩, c') := by
    intro d hd hdi
    rw [run_marker Variant.current m prev false d hu, if_neg (by simp [Variant.current]),
      if_neg (fun h => by rw [hdi] at h; exact Bool.false_ne_true h.2),
      if_neg (by simp [consultable, hd]), hrl]
    have f : Frame src (byteLen pre) (byteLen pre + 1 + k) posMax (byteLen pre + 1 + k)
        (pre ++ List.replicate (k + 1) m) []
        (M0 ++ [e] ++ List.replicate (k + 1) m ++ W) Z := by
      refine ⟨?_, ?_, ?_, ?_, by omega⟩
      · rw [← hsrc, hMe]; simp
      · rw [byteLen_append, hrep]; omega
      · simp [byteLen]
      · rw [← hpm, hMe]; simp only [byteLen_append, hrep]; omega
    obtain ⟨c', hc'⟩ := span_scan_raw Variant.current m hm1 e hme src (byteLen pre) (byteLen pre + 1 + k)
      posMax k (pre ++ List.replicate (k + 1) m) W Z hW M0 [] (byteLen pre + 1 + k) d hniM f
    refine ⟨c', ?_⟩
    rw [show 1 + k = k + 1 by omega, hc', ← hMe, List.nil_append]
    have e_len : byteLen pre + 1 + k + byteLen R + (k + 1) - byteLen pre = 2 * (k + 1) + byteLen R := by omega
    have e_end : byteLen pre + 1 + k + byteLen R + (k + 1) = byteLen pre + (2 * (k + 1) + byteLen R) := by omega
    have e_p : byteLen pre + 1 + k = byteLen pre + (k + 1) := by omega
    rw [e_len, e_end, e_p]
  obtain ⟨c0, hc0⟩ := key { c with scanned := false } rfl hins
  have ht := cache_transparent Variant.current rfl rfl m hm1 src (byteLen pre) posMax prev false c hinv hcut
  rw [hc0] at ht
  cases hrun : run Variant.current m src (byteLen pre) posMax prev false c with
  | error e => rw [hrun] at ht; cases ht
  | ok x =>
    rw [hrun] at ht
    obtain ⟨r, c'⟩ := x
    have hr : (r, c').1 = ((some ⟨2 * (k + 1) + byteLen R,
        some (nodeOf (byteLen pre) (byteLen pre + (k + 1)) (byteLen pre + (k + 1) + byteLen R)
          (byteLen pre + (2 * (k + 1) + byteLen R)) (k + 1) R)⟩ : Option Outcome), c0).1 := by
      injection ht
    simp only at hr
    exact ⟨c', by rw [hr]⟩

end MdIt.CodePair

namespace MdIt.C11M
open MdIt.Inline
open MdIt.InlineOps (Srcmap getSourcePosFor getMap byteLen slice)
open MdIt.C05 (byteLen_append slice_ok_iff)
open MdIt.C11S (PlainTxt QuietTick NoTrailText noTrailText_nil noTrailText_snoc splitRun_plain runRule_quiet_tick
  firstRule_quiet tokLoop_step tokLoop_done tick_stop)

/-! ## 1. vocabulary -/

/-- a run of `k + 1` backticks -/
def ticks (k : Nat) : List Char := List.replicate (k + 1) '`'

/-- the code span `` `ᵏ⁺¹ R `ᵏ⁺¹ `` -/
def rawSpan (k : Nat) (R : List Char) : List Char := ticks k ++ R ++ ticks k

/-- the text of the code node: line feeds to spaces, then ONE pair of padding spaces off if the result starts with
    a space, ends with a space and is longer than 2 bytes -/
def spanContent (R : List Char) : List Char := CodePair.unpad (CodePair.normalise R)

/-- the width of the padding stripped on either side: 1 or 0 -/
def padW (R : List Char) : Nat := if CodePair.padded (CodePair.normalise R) = true then 1 else 0

theorem byteLen_ticks (k : Nat) : byteLen (ticks k) = k + 1 := by
  rw [ticks, ← codeByteLen_eq]; exact CodePair.byteLen_replicate CodePair.backtick_size _

theorem byteLen_rawSpan (k : Nat) (R : List Char) : byteLen (rawSpan k R) = 2 * (k + 1) + byteLen R := by
  simp only [rawSpan, byteLen_append, byteLen_ticks]; omega

theorem rawSpan_head (k : Nat) (R : List Char) : ∃ r, rawSpan k R = '`' :: r := by
  simp [rawSpan, ticks, List.replicate_succ]

/-- the padded form is an instance: `spanOf k T = rawSpan k (␠ T ␠)` -/
theorem spanOf_eq_rawSpan (k : Nat) (T : List Char) : C11S.spanOf k T = rawSpan k (' ' :: T ++ [' ']) := by
  simp [C11S.spanOf, rawSpan, ticks]

theorem padW_le (R : List Char) : 2 * padW R + 1 ≤ byteLen R ∨ padW R = 0 := by
  unfold padW
  split
  · rename_i h
    left
    unfold CodePair.padded at h
    simp only [Bool.and_eq_true, decide_eq_true_eq] at h
    have := CodePair.byteLen_normalise R
    simp only [codeByteLen_eq] at this h
    omega
  · right; rfl

/-! ## 2. states on the text `c` under a table with total translation `tr` -/

/-- a top-level state over the whole text `c`; the table translates every offset: `a ↦ tr a` -/
structure OnT (st : IState) (c : List Char) (tr : Nat → Nat) : Prop where
  src : st.src = c
  map : ∀ a, getSourcePosFor st.srcmap a = .ok (tr a)
  posMax : st.posMax = byteLen c
  level : st.level = 0

theorem OnT.window {st : IState} {c : List Char} {tr : Nat → Nat} (h : OnT st c tr) (a b : List Char) (hc : c = a ++ b)
    (hp : st.pos = byteLen a) : st.window = .ok b := by
  unfold IState.window
  rw [h.src, h.posMax, hp]
  have : slice c (byteLen a) (byteLen c) = .ok b :=
    (slice_ok_iff _ _ _ _).mpr ⟨a, [], by simp [hc], rfl, by rw [hc, byteLen_append]⟩
  rw [this]; rfl

theorem OnT.getMap {st : IState} {c : List Char} {tr : Nat → Nat} (h : OnT st c tr) {a b : Nat} (hab : a ≤ b) :
    st.getMap a b = .ok (tr a, tr b) := by
  unfold IState.getMap InlineOps.getMap
  rw [if_neg (by omega), h.map a, h.map b]; rfl

theorem OnT.sliceAt {st : IState} {c : List Char} {tr : Nat → Nat} (h : OnT st c tr) (a mid b : List Char)
    (hc : c = a ++ mid ++ b) : liftOps (InlineOps.slice st.src (byteLen a) (byteLen a + byteLen mid)) = .ok mid := by
  rw [h.src]
  have : InlineOps.slice c (byteLen a) (byteLen a + byteLen mid) = .ok mid :=
    (slice_ok_iff _ _ _ _).mpr ⟨a, b, hc, rfl, rfl⟩
  rw [this]; rfl

theorem pushText_fresh {st : IState} {c : List Char} {tr : Nat → Nat} (h : OnT st c tr) (a mid b : List Char)
    (hc : c = a ++ mid ++ b) (hnt : NoTrailText st.children) :
    st.pushText (byteLen a) (byteLen a + byteLen mid) =
      .ok { st with children := st.children ++
        [Node.newText mid (some (tr (byteLen a), tr (byteLen a + byteLen mid)))] } := by
  have hs := h.sliceAt a mid b hc
  have hm : liftOps (getMap st.srcmap (byteLen a) (byteLen a + byteLen mid)) =
      .ok (tr (byteLen a), tr (byteLen a + byteLen mid)) := h.getMap (Nat.le_add_right _ _)
  unfold IState.pushText trailingTextPush
  simp only [hs, hm]
  cases hpl : popLast st.children with
  | none => rfl
  | some p =>
    obtain ⟨init, last⟩ := p
    rcases popLast_spec st.children with ⟨h0, _⟩ | ⟨i, l, h1, h2⟩
    · rw [hpl] at h0; cases h0
    · rw [hpl] at h1
      simp only [Option.some.injEq, Prod.mk.injEq] at h1
      have := hnt init last (by rw [h1.1, h1.2]; exact h2)
      simp [this]

/-! ## 3. the text rule on a plain stretch -/

theorem ruleText_plain {st : IState} {c : List Char} {tr : Nat → Nat} (h : OnT st c tr) (a mid b : List Char)
    (hc : c = a ++ mid ++ b) (hp : st.pos = byteLen a) (hne : mid ≠ []) (hmid : PlainTxt mid)
    (hb : ∀ ch ∈ b.head?, ch ∈ Entity.textStop) (hnt : NoTrailText st.children) :
    ruleText st false = .ok (some (byteLen mid), { st with children := st.children ++
      [Node.newText mid (some (tr (byteLen a), tr (byteLen a + byteLen mid)))] }) := by
  have hw := h.window a (mid ++ b) (by rw [hc, List.append_assoc]) hp
  have hpos : byteLen mid ≠ 0 := by
    intro h0
    cases mid with
    | nil => exact hne rfl
    | cons d r => have := Char.utf8Size_pos d; simp only [byteLen] at h0; omega
  unfold ruleText
  rw [hw]
  simp only [splitRun_plain mid b hmid hb, hpos, if_false, Bool.false_eq_true, hp,
    pushText_fresh h a mid b hc hnt]

/-! ## 4. the code-span rule on the span -/

/-- the node the code-span rule makes: `CodeInline` over the whole span (inline offsets `p .. p + 2(k+1) + |R|`),
    one text child `spanContent R` over the inside — without the padding bytes when they are stripped -/
def codeNodeR (tr : Nat → Nat) (p k : Nat) (R : List Char) : Node :=
  { val := .codeInline '`' (k + 1), range := some (tr p, tr (p + (2 * (k + 1) + byteLen R))),
    children := [Node.newText (spanContent R)
      (some (tr (p + (k + 1) + padW R), tr (p + (k + 1) + byteLen R - padW R)))] }

theorem ruleBackticks_raw {st : IState} {c : List Char} {tr : Nat → Nat} (h : OnT st c tr) (pre R post : List Char)
    (k : Nat) (hc : c = pre ++ rawSpan k R ++ post) (hp : st.pos = byteLen pre) (hR : CodePair.RawOk '`' k R)
    (hpost : post.head? ≠ some '`') (hcache : st.backticks = CodePair.Cache.empty) :
    ∃ c', ruleBackticks st false = .ok (some (2 * (k + 1) + byteLen R),
      { st with backticks := c', children := st.children ++ [codeNodeR tr (byteLen pre) k R] }) := by
  have hsrc : pre ++ (List.replicate (k + 1) '`' ++ R ++ List.replicate (k + 1) '`') ++ post ++ [] = c := by
    rw [hc]; simp [rawSpan, ticks]
  have hlen : CodePair.byteLen pre + (2 * (k + 1) + CodePair.byteLen R) + CodePair.byteLen post = CodePair.byteLen c := by
    simp only [codeByteLen_eq]
    rw [hc, byteLen_append, byteLen_append, byteLen_rawSpan]
  have hcut : CodePair.NoCut '`' c (CodePair.byteLen c) := CodePair.noCut_end '`' c
  obtain ⟨c', hrun⟩ := CodePair.span_raw_ctx '`' CodePair.backtick_size pre R post [] k hR hpost
    false CodePair.Cache.empty (CodePair.CacheInv.empty _ _) rfl (Or.inr (by rw [hsrc, hlen]; exact hcut))
  rw [hsrc, hlen] at hrun
  simp only [codeByteLen_eq] at hrun
  refine ⟨c', ?_⟩
  unfold ruleBackticks
  rw [h.src, hp, h.posMax, hcache, hrun]
  simp only [CodePair.nodeOf]
  have hpw := padW_le R
  by_cases hpad : CodePair.padded (CodePair.normalise R) = true
  · have hw : padW R = 1 := by simp [padW, hpad]
    rw [hw] at hpw
    simp only [hpad, if_true]
    rw [h.getMap (by omega), h.getMap (by omega)]
    simp only [codeNodeR, hw, spanContent]
  · have hw : padW R = 0 := by simp [padW, hpad]
    simp only [hpad, if_false, Bool.false_eq_true]
    rw [h.getMap (by omega), h.getMap (by omega)]
    simp only [codeNodeR, hw, spanContent, Nat.add_zero, Nat.sub_zero]

/-! ## 5. the tokenizer loop -/

/-- the text node for a stretch `mid` at inline offset `p` — none for an empty stretch -/
def textNodesT (tr : Nat → Nat) (p : Nat) (mid : List Char) : List Node :=
  if mid = [] then [] else [Node.newText mid (some (tr p, tr (p + byteLen mid)))]

theorem OnT.upd {st : IState} {c : List Char} {tr : Nat → Nat} (h : OnT st c tr) (cs : List Node) (p : Nat)
    (bt : CodePair.Cache) : OnT { st with children := cs, pos := p, backticks := bt } c tr :=
  ⟨h.src, h.map, h.posMax, h.level⟩

theorem tokLoop_plain (cfg : Cfg) (hmn : 0 < cfg.maxNesting) (rest : List RuleId) (hchain : cfg.chain = .text :: rest)
    {st : IState} {c : List Char} {tr : Nat → Nat} (h : OnT st c tr) (a mid b : List Char)
    (hc : c = a ++ mid ++ b) (hp : st.pos = byteLen a) (hmid : PlainTxt mid)
    (hb : ∀ ch ∈ b.head?, ch ∈ Entity.textStop) (hnt : NoTrailText st.children) (F : Nat) (hF : 1 ≤ F) :
    ∃ F', F ≤ F' + 1 ∧ tokLoop cfg F (byteLen c) st =
      tokLoop cfg F' (byteLen c) { st with children := st.children ++ textNodesT tr (byteLen a) mid,
                                            pos := byteLen a + byteLen mid } := by
  by_cases hne : mid = []
  · subst hne
    refine ⟨F, by omega, ?_⟩
    congr 1
    cases st
    simp only [textNodesT, if_true, List.append_nil, byteLen, Nat.add_zero] at hp ⊢
    simp [hp]
  · obtain ⟨G, rfl⟩ : ∃ G, F = G + 1 := ⟨F - 1, by omega⟩
    refine ⟨G, by omega, ?_⟩
    have hrt := ruleText_plain h a mid b hc hp hne hmid hb hnt
    have hpos : 0 < byteLen mid := by
      cases mid with
      | nil => exact absurd rfl hne
      | cons d r => have := Char.utf8Size_pos d; simp only [byteLen]; omega
    have hlt : st.pos < byteLen c := by
      rw [hp, hc, byteLen_append, byteLen_append]; omega
    rw [tokLoop_step cfg G (byteLen c) hlt (st' := { st with children := st.children ++ textNodesT tr (byteLen a) mid, pos := byteLen a + byteLen mid })]
    have hl : st.level < cfg.maxNesting := by rw [h.level]; exact hmn
    unfold tokStep
    simp only [hl, if_true, hchain, firstRule, runRule, hrt, liftR, textNodesT, hne, if_false, hp]

theorem tokLoop_raw (cfg : Cfg) (hmn : 0 < cfg.maxNesting) (c1 c2 : List RuleId)
    (hchain : cfg.chain = c1 ++ .backticks :: c2) (hq : ∀ r ∈ c1, QuietTick r)
    {st : IState} {c : List Char} {tr : Nat → Nat} (h : OnT st c tr) (pre R post : List Char) (k : Nat)
    (hc : c = pre ++ rawSpan k R ++ post) (hp : st.pos = byteLen pre) (hR : CodePair.RawOk '`' k R)
    (hpost : post.head? ≠ some '`')
    (hcache : st.backticks = CodePair.Cache.empty) (F : Nat) :
    ∃ c', tokLoop cfg (F + 1) (byteLen c) st =
      tokLoop cfg F (byteLen c) { st with backticks := c', children := st.children ++ [codeNodeR tr (byteLen pre) k R],
                                          pos := byteLen pre + (2 * (k + 1) + byteLen R) } := by
  obtain ⟨c', hbt⟩ := ruleBackticks_raw h pre R post k hc hp hR hpost hcache
  refine ⟨c', ?_⟩
  obtain ⟨r, hr⟩ := rawSpan_head k R
  have hw : st.window = .ok ('`' :: (r ++ post)) := by
    refine h.window pre _ ?_ hp
    rw [hc, hr]; simp
  have hlt : st.pos < byteLen c := by
    rw [hp, hc, byteLen_append, byteLen_append, byteLen_rawSpan]; omega
  rw [tokLoop_step cfg F (byteLen c) hlt (st' := { st with backticks := c', children := st.children ++ [codeNodeR tr (byteLen pre) k R], pos := byteLen pre + (2 * (k + 1) + byteLen R) })]
  have hl : st.level < cfg.maxNesting := by rw [h.level]; exact hmn
  unfold tokStep
  simp only [hl, if_true, hchain]
  rw [firstRule_quiet _ st c1 _ (fun q hq' => runRule_quiet_tick cfg _ _ F hw q (hq q hq'))]
  simp only [firstRule, runRule, hbt, liftR, hp]

/-! ## 6. `parseInline` on plain text, a code span, plain text -/

/-- **the inline parser on `pre ++ `ᵏ⁺¹ R `ᵏ⁺¹ ++ post`, any table.**  `pre`, `post` plain text (either may be
    empty), `R` non-empty, no backtick at either end, no run of `k + 1` backticks (`RawOk`) — line feeds allowed —,
    the whole text neither starts nor ends with a blank, the chain as in `C11S.parseInline_span`, the table `m`
    translating every offset (`tr`).  The result: the text node of `pre` (if any), ONE `CodeInline` node over the
    span whose single text child is `spanContent R` — `R` with every line feed turned into ONE space and one
    pair of padding spaces removed (`padded`), nothing else touched —, the text node of `post` (if any); every
    range is `tr` of the inline offsets. -/
theorem parseInline_raw (cfg : Cfg) (hmn : 0 < cfg.maxNesting) (c1 c2 : List RuleId)
    (hchain : cfg.chain = .text :: (c1 ++ .backticks :: c2)) (hq : ∀ r ∈ c1, QuietTick r)
    (pre R post : List Char) (k : Nat) (m : Srcmap) (tr : Nat → Nat)
    (hm : ∀ a, getSourcePosFor m a = .ok (tr a))
    (hpre : PlainTxt pre) (hpost : PlainTxt post) (hR : CodePair.RawOk '`' k R)
    (htrim : trimSrc (pre ++ rawSpan k R ++ post) = (0, byteLen (pre ++ rawSpan k R ++ post))) :
    parseInline cfg (pre ++ rawSpan k R ++ post) m =
      .ok (textNodesT tr 0 pre ++ [codeNodeR tr (byteLen pre) k R] ++
        textNodesT tr (byteLen pre + (2 * (k + 1) + byteLen R)) post) := by
  obtain ⟨c, hcdef⟩ : ∃ c, c = pre ++ rawSpan k R ++ post := ⟨_, rfl⟩
  rw [← hcdef] at htrim ⊢
  obtain ⟨st0, hst0⟩ : ∃ s : IState, s = ⟨c, m, 0, byteLen c, 0, 0, [], CodePair.Cache.empty, [], []⟩ := ⟨_, rfl⟩
  have hinit : IState.init c m = st0 := by rw [hst0]; simp [IState.init, htrim]
  have hon0 : OnT st0 c tr := by rw [hst0]; exact ⟨rfl, hm, rfl, rfl⟩
  have hfuel : 3 ≤ topFuel cfg c := by
    unfold topFuel
    calc 3 ≤ 2 * 2 := by omega
      _ ≤ (byteLen c + 2) * (cfg.maxNesting + 2) := Nat.mul_le_mul (by omega) (by omega)
  have hposthead : ∀ ch ∈ post.head?, ch ≠ '`' := by
    intro ch hch e
    subst e
    cases post with
    | nil => simp at hch
    | cons d t => simp at hch; subst hch; exact hpost _ (by simp) tick_stop
  obtain ⟨r0, hr0⟩ := rawSpan_head k R
  obtain ⟨F1, hF1, hA⟩ := tokLoop_plain cfg hmn _ hchain hon0 [] pre (rawSpan k R ++ post)
    (by rw [hcdef]; simp) (by rw [hst0]; rfl) hpre
    (by intro ch hch; rw [hr0] at hch; simp at hch; subst hch; exact tick_stop)
    (by rw [hst0]; exact noTrailText_nil) (topFuel cfg c) (by omega)
  obtain ⟨G, rfl⟩ : ∃ G, F1 = G + 1 := ⟨F1 - 1, by omega⟩
  obtain ⟨c', hB⟩ := tokLoop_raw cfg hmn (.text :: c1) c2 (by rw [hchain]; rfl)
    (fun r hr => by
      rcases List.mem_cons.mp hr with rfl | h
      · exact ⟨(by intro e; cases e), (by intro csw e; cases e)⟩
      · exact hq r h)
    (hon0.upd (st0.children ++ textNodesT tr (byteLen ([] : List Char)) pre) (byteLen ([] : List Char) + byteLen pre)
      st0.backticks) pre R post k hcdef (by simp [byteLen]) hR
    (by intro e; cases post with
        | nil => simp at e
        | cons d t => simp at e; exact hposthead d (by simp) e)
    (by rw [hst0]) G
  have hon2 := (hon0.upd (st0.children ++ textNodesT tr (byteLen ([] : List Char)) pre ++ [codeNodeR tr (byteLen pre) k R])
    (byteLen pre + (2 * (k + 1) + byteLen R)) c')
  obtain ⟨F3, _, hC⟩ := tokLoop_plain cfg hmn _ hchain hon2 (pre ++ rawSpan k R) post []
    (by rw [hcdef]; simp) (by simp [byteLen_append, byteLen_rawSpan]) hpost (by simp)
    (noTrailText_snoc _ _ rfl) G (by omega)
  unfold parseInline tokenize
  rw [hinit, hon0.posMax, hA]
  simp only [hst0] at hB hC ⊢
  rw [hB, hC, tokLoop_done _ _ _ (by simp only [hcdef, byteLen_append, byteLen_rawSpan]; omega)]
  simp [byteLen, byteLen_append, byteLen_rawSpan]

end MdIt.C11M
