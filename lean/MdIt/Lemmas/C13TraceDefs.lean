/-
  C13 tied to SOURCE LINES, definitions (namespace `MdIt.Block.Tr`).

  An INSTRUMENTED READING of the block tokenizer: `tokenizeT cfg fuel s` returns the state the model's
  `tokenize cfg fuel s` returns, plus the list of the successful real-mode rule calls of the run
  (`Call` = rule, state before, state after) in EXECUTION order, the calls of a nested tokenizer
  (block quote, list item) directly behind the call of the container rule that started it.
  `Trace := List (RuleId × Nat × Nat)` (rule, first line, line behind the last line) is its
  projection `traceOf`.

  The functions `…Calls` follow the control flow of the model (`tokLoop`, `runChain`, `blockquoteRule`,
  `listRule`, `listLoop`, `listItem`) and re-run the model's own functions for every state they
  need, so the states in the trace ARE the states of the run; agreement with the model on the state
  is therefore by construction (`tokenizeT_state`).  What makes the trace faithful is proved in
  `Lemmas/C13TraceInv.lean`: every entry is a successful call of `ruleAt` (`Good.fired`), the
  reference map of the run is threaded through exactly the `reference` entries (`Thread`), and the
  entries are laminar in their line ranges (`Lam`).
-/
import MdIt.Props.LinksDoc

namespace MdIt.Block.Tr
open MdIt.Lines (LineOffset)
open MdIt.Block

/-- a successful real-mode rule call: the rule, the state it got, the state it handed back -/
abbrev Call := RuleId × BState × BState

def Call.rule (c : Call) : RuleId := c.1
def Call.pre (c : Call) : BState := c.2.1
def Call.post (c : Call) : BState := c.2.2
/-- the line the rule was called on -/
def Call.start (c : Call) : Nat := c.2.1.line
/-- the line behind the last line it consumed -/
def Call.stop (c : Call) : Nat := c.2.2.line

@[simp] theorem Call.rule_mk (r : RuleId) (s s' : BState) : Call.rule (r, s, s') = r := rfl
@[simp] theorem Call.pre_mk (r : RuleId) (s s' : BState) : Call.pre (r, s, s') = s := rfl
@[simp] theorem Call.post_mk (r : RuleId) (s s' : BState) : Call.post (r, s, s') = s' := rfl
@[simp] theorem Call.start_mk (r : RuleId) (s s' : BState) : Call.start (r, s, s') = s.line := rfl
@[simp] theorem Call.stop_mk (r : RuleId) (s s' : BState) : Call.stop (r, s, s') = s'.line := rfl

abbrev Calls := List Call

/-- the trace of the task statement: (rule, start line, end line) -/
abbrev Trace := List (RuleId × Nat × Nat)

def traceOf (cs : Calls) : Trace := cs.map fun c => (c.rule, c.start, c.stop)

/-- the calls of a nested tokenizer run, as a function of the state it is started on -/
abbrev TokTr := BState → Calls

/-! ## the instrumented reading -/

/-- the state `blockquoteRule` starts the nested tokenizer on (`s1` = the state behind `bqScan`) -/
abbrev bqNest (s1 : BState) (line nextLine : Nat) : BState :=
  { s1 with blkIndent := 0, nodeKind := .blockquote, children := [], line := line,
            lineMax := nextLine, level := s1.level + 1 }

/-- the state `listItem` rewrites the item's first line in -/
abbrev itemNest (s : BState) (indent : Nat) : BState :=
  { s with nodeKind := .listItem, children := [], listIndent := some s.blkIndent,
           blkIndent := indent, tight := true }

/-- `blockquoteRule`: the calls of the nested tokenizer (started on the state behind `bqScan`) -/
def bqCalls (tokTr : TokTr) (test : Test) (fuel : Nat) (s : BState) : Calls :=
  match bqScan test fuel s s.line [] false with
  | .ok (nextLine, _, s1) => tokTr (bqNest s1 s.line nextLine)
  | .error _ => []

/-- `listItem`: the calls of the nested tokenizer of one item (none for the empty-item workaround) -/
def itemCalls (tokTr : TokTr) (s : BState) (nextLine pos : Nat) : Calls :=
  match s.off nextLine with
  | .error _ => []
  | .ok o =>
    match itemRewrite s.src o pos with
    | .error _ => []
    | .ok (o', indent, reachedEnd) =>
      match (itemNest s indent).setOff nextLine o' with
      | .error _ => []
      | .ok s2 =>
        if reachedEnd ∧ s2.isEmpty (nextLine + 1) then []
        else tokTr { s2 with line := nextLine, level := s2.level + 1 }

/-- `listLoop`: the items' calls, one item after the other -/
def listLoopCalls (tokTr : TokTr) (tok : Tok) (test : Test) (ordered : Bool) (mc : Char) :
    Nat → BState → Nat → Nat → Bool → Bool → Calls
  | 0, _, _, _, _, _ => []
  | fuel + 1, s, nextLine, pos, pee, tight =>
    if ¬ nextLine < s.lineMax then [] else
    match listItem tok s nextLine pos pee tight with
    | .error _ => []
    | .ok (s1, tight1, pee1) =>
      itemCalls tokTr s nextLine pos ++
      match listContinue test ordered mc s1 s1.line with
      | .ok (some p, s2) => listLoopCalls tokTr tok test ordered mc fuel s2 s1.line p pee1 tight1
      | _ => []

/-- `listRule`: marker detection as in the rule, then the item loop -/
def listCalls (tokTr : TokTr) (tok : Tok) (test : Test) (fuel : Nat) (s : BState) : Calls :=
  match s.getLine s.line with
  | .error _ => []
  | .ok cur =>
    match detectMarker cur with
    | .ok (some (pos, mv)) =>
      match markerCharOf cur pos with
      | .error _ => []
      | .ok mc =>
        listLoopCalls tokTr tok test mv.isSome mc fuel
          { s with nodeKind := (match mv with
                                | some v => Kind.orderedList v mc
                                | none => Kind.bulletList mc),
                   children := [], level := s.level + 1 } s.line pos false true
    | _ => []

/-- the nested calls of one successful rule call (only the two container rules have any) -/
def ruleCalls (tokTr : TokTr) (tok : Tok) (test : Test) (fuel : Nat) : RuleId → BState → Calls
  | .blockquote, s => bqCalls tokTr test fuel s
  | .list, s => listCalls tokTr tok test fuel s
  | _, _ => []

/-- `runChain` in real mode: the call of the rule that fires, followed by its nested calls -/
def chainCalls (run : RuleId → BState → Bool → Res) (inner : RuleId → BState → Calls) :
    List RuleId → BState → Calls
  | [], _ => []
  | r :: rs, s =>
    match run r s false with
    | .error _ => []
    | .ok (true, s') => (r, s, s') :: inner r s
    | .ok (false, s') => chainCalls run inner rs s'

/-- `tokLoop`: the calls of one iteration after the other -/
def tokLoopCalls (cfg : Cfg) (run : RuleId → BState → Bool → Res) (inner : RuleId → BState → Calls) :
    Nat → Bool → BState → Calls
  | 0, _, _ => []
  | fuel + 1, hasEmpty, s =>
    if ¬ s.line < s.lineMax then [] else
    let s := { s with line := Lines.skipEmptyLines s.offs s.lineMax s.line }
    if s.line ≥ s.lineMax then [] else
    match s.lineIndent s.line with
    | .error _ => []
    | .ok ind =>
      if ind < 0 then [] else
      if s.level ≥ cfg.maxNesting then [] else
      match runChain run cfg.chain s false with
      | .error _ => []
      | .ok (ok, s1) =>
        match afterChain ok s1 s.line with
        | .error _ => []
        | .ok s2 =>
          let s3 := { s2 with tight := !hasEmpty }
          match psub s3.line 1 with
          | .error _ => []
          | .ok l1 =>
            chainCalls run inner cfg.chain s ++
            (if s3.line < s3.lineMax ∧ s3.isEmpty s3.line then
              tokLoopCalls cfg run inner fuel true { s3 with line := s3.line + 1 }
            else tokLoopCalls cfg run inner fuel (hasEmpty || s3.isEmpty l1) s3)

/-- the calls of `tokenize cfg fuel` (same recursion on `fuel` as `engine`) -/
def engineCalls (cfg : Cfg) : Nat → TokTr
  | 0 => fun _ => []
  | f + 1 =>
    let p := engine cfg f
    tokLoopCalls cfg (runRule cfg p.1 p.2 (f + 1)) (ruleCalls (engineCalls cfg f) p.1 p.2 (f + 1)) (f + 1) false

/-- **the instrumented tokenizer**: the model's state, and the calls of the run -/
def tokenizeT (cfg : Cfg) (fuel : Nat) (s : BState) : Except Panic (BState × Calls) :=
  match tokenize cfg fuel s with
  | .error e => .error e
  | .ok s' => .ok (s', engineCalls cfg fuel s)

/-- it agrees with the model on the state (and on the panic) -/
theorem tokenizeT_state (cfg : Cfg) (fuel : Nat) (s : BState) :
    Except.map Prod.fst (tokenizeT cfg fuel s) = tokenize cfg fuel s := by
  unfold tokenizeT
  cases tokenize cfg fuel s <;> rfl

theorem tokenizeT_ok {cfg : Cfg} {fuel : Nat} {s s' : BState} {cs : Calls}
    (h : tokenizeT cfg fuel s = .ok (s', cs)) : tokenize cfg fuel s = .ok s' ∧ cs = engineCalls cfg fuel s := by
  unfold tokenizeT at h
  split at h
  · cases h
  · rename_i s1 h1
    cases h
    exact ⟨h1, rfl⟩

/-- the calls of the block pass of a document -/
def docCalls (cfg : Cfg) (src : List Char) : Calls :=
  engineCalls cfg (fuelFor cfg src) (BState.fresh src .root [])

/-- **the trace of a document**: (rule, start line, end line) of every successful rule call of the
    block pass, in execution order -/
def docTrace (cfg : Cfg) (src : List Char) : Trace := traceOf (docCalls cfg src)

/-! ## laminar line ranges -/

def isContainer : RuleId → Bool
  | .blockquote => true
  | .list => true
  | _ => false

/-- `c₂` (later in the list) lies behind `c₁`, or inside the container `c₁` -/
def Follows (c₁ c₂ : Call) : Prop :=
  c₁.stop ≤ c₂.start ∨ (isContainer c₁.rule = true ∧ c₁.start ≤ c₂.start ∧ c₂.stop ≤ c₁.stop)

/-- the calls lie in `[a, b]`, each consumes at least one line, and any two are disjoint with the
    earlier one in front — or the later one lies inside the earlier one, which is a container -/
structure Lam (a b : Nat) (cs : Calls) : Prop where
  le : a ≤ b
  bounds : ∀ c ∈ cs, a ≤ c.start ∧ c.start < c.stop ∧ c.stop ≤ b
  pw : cs.Pairwise Follows

theorem Lam.nil {a b : Nat} (h : a ≤ b) : Lam a b [] := ⟨h, by simp, List.Pairwise.nil⟩

theorem Lam.widen {a b a' b' : Nat} {cs : Calls} (h : Lam a b cs) (ha : a' ≤ a) (hb : b ≤ b') :
    Lam a' b' cs :=
  ⟨by have := h.le; omega, fun c hc => by have := h.bounds c hc; omega, h.pw⟩

theorem Lam.append {a m m' b : Nat} {cs₁ cs₂ : Calls} (h₁ : Lam a m cs₁) (h₂ : Lam m' b cs₂)
    (hm : m ≤ m') : Lam a b (cs₁ ++ cs₂) := by
  have := h₁.le
  have := h₂.le
  refine ⟨by omega, ?_, ?_⟩
  · intro c hc
    rcases List.mem_append.mp hc with hc | hc
    · have := h₁.bounds c hc; omega
    · have := h₂.bounds c hc; omega
  · rw [List.pairwise_append]
    refine ⟨h₁.pw, h₂.pw, ?_⟩
    intro c₁ hc₁ c₂ hc₂
    left
    have := h₁.bounds c₁ hc₁
    have := h₂.bounds c₂ hc₂
    omega

/-- a call with its nested calls behind it -/
theorem Lam.cons {a b : Nat} {c : Call} {cs : Calls} (ha : a ≤ c.start) (hlt : c.start < c.stop)
    (hb : c.stop ≤ b) (hcs : cs = [] ∨ isContainer c.rule = true) (h : Lam c.start c.stop cs) :
    Lam a b (c :: cs) := by
  refine ⟨by omega, ?_, ?_⟩
  · intro x hx
    rcases List.mem_cons.mp hx with rfl | hx
    · exact ⟨ha, hlt, hb⟩
    · have := h.bounds x hx; omega
  · rw [List.pairwise_cons]
    refine ⟨?_, h.pw⟩
    intro x hx
    rcases hcs with rfl | hcs
    · simp at hx
    · right
      have := h.bounds x hx
      exact ⟨hcs, by omega, by omega⟩

/-- the calls of one rule: in execution order they are sorted by line, with disjoint line ranges,
    whenever the rule is not a container -/
theorem Lam.sorted {a b : Nat} {cs : Calls} (h : Lam a b cs) (r : RuleId) (hr : isContainer r = false) :
    (cs.filter (fun c => c.rule = r)).Pairwise (fun c₁ c₂ => c₁.stop ≤ c₂.start) := by
  have hsub : (cs.filter (fun c => c.rule = r)).Pairwise Follows :=
    h.pw.sublist List.filter_sublist
  refine List.Pairwise.imp_of_mem ?_ hsub
  intro c₁ c₂ h₁ _ hf
  have e : c₁.rule = r := by simpa using (List.mem_filter.mp h₁).2
  rcases hf with hf | ⟨hc, _⟩
  · exact hf
  · rw [e, hr] at hc; cases hc

/-! ## the reference map along the calls -/

/-- the call `(reference, u, u')` read a definition off the lines `u.line .. n` of the view of its
    container (`u.offs`, `u.blk_indent`): `d` is what `refParse` made of that text (trimmed), the
    definition itself ends on line `u'.line - 1 < n`, and its label is not blank -/
def IsDefAt (cfg : Cfg) (u u' : BState) (d : Refs.Def) : Prop :=
  ∃ (n : Nat) (txt : List Char) (mp : List (Nat × Nat)) (lines : Nat),
    u'.line = u.line + lines + 1 ∧ u'.line ≤ n ∧ n ≤ u.lineMax ∧
    u.getLines u.line n u.blkIndent false = .ok (txt, mp) ∧
    refParse cfg (trimStr txt) = .ok (some (d.label, d.entry.dest, d.entry.title, lines)) ∧
    cfg.N d.label ≠ []

theorem IsDefAt.isDef {cfg : Cfg} {u u' : BState} {d : Refs.Def} (h : IsDefAt cfg u u' d) : IsDef cfg d := by
  obtain ⟨n, txt, mp, lines, _, _, _, _, hp, _⟩ := h
  exact ⟨_, _, hp⟩

/-- the map `m` becomes `m'` along the calls: every `reference` call finds the map its predecessor
    left, and leaves it with ONE `Refs.addDef` of the definition it read (`IsDefAt`); the other
    calls do not matter -/
def Thread (cfg : Cfg) : Refs.RefMap → Refs.RefMap → Calls → Prop
  | m, m', [] => m' = m
  | m, m', c :: rest =>
    if c.rule = .reference then
      c.pre.refs = m ∧ (∃ d, IsDefAt cfg c.pre c.post d ∧ c.post.refs = Refs.addDef cfg.N m d) ∧
        Thread cfg c.post.refs m' rest
    else Thread cfg m m' rest

theorem Thread.append {cfg : Cfg} : ∀ {cs₁ cs₂ : Calls} {m m₁ m₂ : Refs.RefMap},
    Thread cfg m m₁ cs₁ → Thread cfg m₁ m₂ cs₂ → Thread cfg m m₂ (cs₁ ++ cs₂)
  | [], _, _, _, _, h₁, h₂ => by simp only [Thread] at h₁; subst h₁; exact h₂
  | c :: rest, cs₂, m, m₁, m₂, h₁, h₂ => by
    simp only [Thread, List.cons_append] at h₁ ⊢
    split
    · rename_i hr
      rw [if_pos hr] at h₁
      exact ⟨h₁.1, h₁.2.1, Thread.append h₁.2.2 h₂⟩
    · rename_i hr
      rw [if_neg hr] at h₁
      exact Thread.append h₁ h₂

theorem Thread.cons_other {cfg : Cfg} {c : Call} {cs : Calls} {m m' : Refs.RefMap}
    (hr : c.rule ≠ .reference) (h : Thread cfg m m' cs) : Thread cfg m m' (c :: cs) := by
  simp only [Thread, if_neg hr]; exact h

/-- the definitions the `reference` calls read, with their calls -/
structure Located (cfg : Cfg) (c : Call) (d : Refs.Def) : Prop where
  rule : c.rule = .reference
  isDef : IsDefAt cfg c.pre c.post d

/-- what a thread amounts to: the `reference` calls, each with the definition it read, and the final
    map is the fold of `Refs.addDef` over these definitions in execution order -/
theorem Thread.defs {cfg : Cfg} : ∀ {cs : Calls} {m m' : Refs.RefMap}, Thread cfg m m' cs →
    ∃ L : List (Call × Refs.Def), L.map Prod.fst = cs.filter (fun c => c.rule = .reference) ∧
      (∀ x ∈ L, Located cfg x.1 x.2) ∧ m' = (L.map Prod.snd).foldl (Refs.addDef cfg.N) m
  | [], m, m', h => by simp only [Thread] at h; exact ⟨[], rfl, by simp, by simp [h]⟩
  | c :: rest, m, m', h => by
    simp only [Thread] at h
    split at h
    · rename_i hr
      obtain ⟨_, ⟨d, hd, hm⟩, hrest⟩ := h
      obtain ⟨L, h1, h2, h3⟩ := Thread.defs hrest
      refine ⟨(c, d) :: L, ?_, ?_, ?_⟩
      · simp [hr, h1]
      · intro x hx
        rcases List.mem_cons.mp hx with rfl | hx
        · exact ⟨hr, hd⟩
        · exact h2 x hx
      · simp only [List.map_cons, List.foldl_cons]
        rw [← hm]; exact h3
    · rename_i hr
      obtain ⟨L, h1, h2, h3⟩ := Thread.defs h
      exact ⟨L, by simp [hr, h1], h2, h3⟩

end MdIt.Block.Tr
