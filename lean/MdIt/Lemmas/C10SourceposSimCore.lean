/-
  C10 with the sourcepos plugin, block simulation part 1 (core): a copy of the lock-step simulation
  of `MdIt/Lemmas/C10DocCore.lean` (namespace `MdIt.Block.LE`) in which the offset relation `ρ` does
  NOT have to be translation invariant.  The only thing the simulation ever does with `ρ` is to go
  from the two starts of a line to two offsets at the same distance `d` INSIDE that line
  (`d ≤ line_end - line_start`), so the entry relation `ERel` below carries
        ∀ d ≤ |line|, ρ (o₁.lineStart + d) (o₂.lineStart + d)
  instead of `ρ o₁.lineStart o₂.lineStart` + `Shift ρ`.  This admits the EXACT relation of
  LF ↦ CR LF, `C10SP.crlfRel src a b : b = a + #LF of src before a`, which is invariant under shifts
  inside a line only.

  Reused unchanged from `LE` (defined there for an arbitrary `ρ`): `FRel`, `geom`, `IncT`, `MRel`,
  `RgRel`, `KRel`, `NRel`, `NRelL`, `Geo`, `slice_inside` and their lemmas.  Redefined here: `ERel`,
  `SRel`, `Ctx` (no `shift` field), `ResRel`, `TokSim`, `TestSim`, and every lemma about them.
-/
import MdIt.Lemmas.C10DocEngine
import MdIt.Lemmas.C10DocLines
import MdIt.Lemmas.C10SourceposDefs

namespace MdIt.Block.LX
open MdIt.Lines (LineOffset)
open MdIt.Block.LE

/-- the two entries show the same line: the same bytes `a ++ b` at `line_start .. line_end`,
    `first_nonspace` behind `a` on both sides, the same indent; offsets at the same distance from the
    two starts, up to the end of the line, are `ρ`-related -/
def ERel (ρ : Nat → Nat → Prop) (src₁ src₂ : List Char) (o₁ o₂ : LineOffset) : Prop :=
  ∃ a b p₁ q₁ p₂ q₂, src₁ = p₁ ++ (a ++ b) ++ q₁ ∧ src₂ = p₂ ++ (a ++ b) ++ q₂ ∧
    Lines.byteLen p₁ = o₁.lineStart ∧ Lines.byteLen p₂ = o₂.lineStart ∧
    o₁.firstNonspace = o₁.lineStart + Lines.byteLen a ∧ o₂.firstNonspace = o₂.lineStart + Lines.byteLen a ∧
    o₁.lineEnd = o₁.lineStart + Lines.byteLen a + Lines.byteLen b ∧
    o₂.lineEnd = o₂.lineStart + Lines.byteLen a + Lines.byteLen b ∧
    o₁.indentNonspace = o₂.indentNonspace ∧
    ∀ d, d ≤ Lines.byteLen a + Lines.byteLen b → ρ (o₁.lineStart + d) (o₂.lineStart + d)

/-! ## states -/

structure SRel (ρ : Nat → Nat → Prop) (G : Geo) (s₁ s₂ : BState) : Prop where
  src₁ : s₁.src = G.src₁
  src₂ : s₂.src = G.src₂
  len : s₂.offs.length = s₁.offs.length
  ent : ∀ (i : Nat) (o₁ o₂ : LineOffset), s₁.offs[i]? = some o₁ → s₂.offs[i]? = some o₂ → ERel ρ G.src₁ G.src₂ o₁ o₂
  geo₁ : s₁.offs.map geom = G.T₁
  geo₂ : s₂.offs.map geom = G.T₂
  blkIndent : s₂.blkIndent = s₁.blkIndent
  line : s₂.line = s₁.line
  lineMax : s₂.lineMax = s₁.lineMax
  tight : s₂.tight = s₁.tight
  listIndent : s₂.listIndent = s₁.listIndent
  level : s₂.level = s₁.level
  nodeKind : s₂.nodeKind = s₁.nodeKind
  refs : s₂.refs = s₁.refs
  children : NRelL ρ s₁.children s₂.children

/-- what the rule simulations assume about the two runs (no translation invariance of `ρ`) -/
structure Ctx (ρ : Nat → Nat → Prop) (G : Geo) : Prop where
  inc₁ : IncT G.T₁
  inc₂ : IncT G.T₂

/-- verdict and state of a rule call -/
def ResRel (ρ : Nat → Nat → Prop) (G : Geo) (r₁ r₂ : Bool × BState) : Prop :=
  r₁.1 = r₂.1 ∧ SRel ρ G r₁.2 r₂.2

/-- the nested tokenizers of the two runs -/
def TokSim (ρ : Nat → Nat → Prop) (G : Geo) (tok₁ tok₂ : Tok) : Prop :=
  ∀ s₁ s₂, SRel ρ G s₁ s₂ → FRel (SRel ρ G) (tok₁ s₁) (tok₂ s₂)

/-- the look-aheads of the two runs -/
def TestSim (ρ : Nat → Nat → Prop) (G : Geo) (test₁ test₂ : Test) : Prop :=
  ∀ s₁ s₂, SRel ρ G s₁ s₂ → FRel (ResRel ρ G) (test₁ s₁) (test₂ s₂)

section reads
variable {ρ : Nat → Nat → Prop} {G : Geo} {s₁ s₂ : BState}

/-! ### what an `ERel` pair shows -/

theorem ERel.indent {src₁ src₂ : List Char} {o₁ o₂ : LineOffset} (h : ERel ρ src₁ src₂ o₁ o₂) :
    o₂.indentNonspace = o₁.indentNonspace := by
  obtain ⟨a, b, p₁, q₁, p₂, q₂, _, _, _, _, _, _, _, _, hi, _⟩ := h
  exact hi.symm

/-- the numbers: both entries are `line_start ≤ first_nonspace ≤ line_end` with the same distances -/
theorem ERel.nums {src₁ src₂ : List Char} {o₁ o₂ : LineOffset} (h : ERel ρ src₁ src₂ o₁ o₂) :
    o₁.lineStart ≤ o₁.firstNonspace ∧ o₁.firstNonspace ≤ o₁.lineEnd ∧
    o₂.firstNonspace = o₂.lineStart + (o₁.firstNonspace - o₁.lineStart) ∧
    o₂.lineEnd = o₂.lineStart + (o₁.lineEnd - o₁.lineStart) := by
  obtain ⟨a, b, p₁, q₁, p₂, q₂, _, _, _, _, h1, h2, h3, h4, _, _⟩ := h
  omega

/-- any offset inside the line (its end included), at the same distance from the start -/
theorem ERel.at_ {src₁ src₂ : List Char} {o₁ o₂ : LineOffset} (h : ERel ρ src₁ src₂ o₁ o₂)
    (d : Nat) (hd : o₁.lineStart + d ≤ o₁.lineEnd) : ρ (o₁.lineStart + d) (o₂.lineStart + d) := by
  obtain ⟨a, b, p₁, q₁, p₂, q₂, _, _, _, _, _, _, h3, _, _, hr⟩ := h
  exact hr d (by omega)

theorem ERel.start {src₁ src₂ : List Char} {o₁ o₂ : LineOffset} (h : ERel ρ src₁ src₂ o₁ o₂) :
    ρ o₁.lineStart o₂.lineStart := by
  have := h.at_ 0 (by have := h.nums; omega)
  simpa using this

/-- `first_nonspace`s are `ρ`-related -/
theorem ERel.first {src₁ src₂ : List Char} {o₁ o₂ : LineOffset} (h : ERel ρ src₁ src₂ o₁ o₂) :
    ρ o₁.firstNonspace o₂.firstNonspace := by
  have hn := h.nums
  have := h.at_ (o₁.firstNonspace - o₁.lineStart) (by omega)
  rw [hn.2.2.1, show o₁.firstNonspace = o₁.lineStart + (o₁.firstNonspace - o₁.lineStart) by omega]
  simpa using this

/-- `line_end`s are `ρ`-related -/
theorem ERel.end_ {src₁ src₂ : List Char} {o₁ o₂ : LineOffset} (h : ERel ρ src₁ src₂ o₁ o₂) :
    ρ o₁.lineEnd o₂.lineEnd := by
  have hn := h.nums
  have := h.at_ (o₁.lineEnd - o₁.lineStart) (by omega)
  rw [hn.2.2.2, show o₁.lineEnd = o₁.lineStart + (o₁.lineEnd - o₁.lineStart) by omega]
  simpa using this

/-- an offset `first_nonspace + d` that is still inside the line -/
theorem ERel.first_add {src₁ src₂ : List Char} {o₁ o₂ : LineOffset} (h : ERel ρ src₁ src₂ o₁ o₂)
    (d : Nat) (hd : o₁.firstNonspace + d ≤ o₁.lineEnd) : ρ (o₁.firstNonspace + d) (o₂.firstNonspace + d) := by
  have hn := h.nums
  have := h.at_ (o₁.firstNonspace - o₁.lineStart + d) (by omega)
  rw [hn.2.2.1, show o₁.firstNonspace + d = o₁.lineStart + (o₁.firstNonspace - o₁.lineStart + d) by omega]
  simpa [Nat.add_assoc] using this

/-- everything a rule slices out of a line, relative to the line's own bytes `L` -/
theorem ERel.slices {src₁ src₂ : List Char} {o₁ o₂ : LineOffset} (h : ERel ρ src₁ src₂ o₁ o₂) :
    ∃ L, o₁.lineEnd = o₁.lineStart + Lines.byteLen L ∧
      (∀ x y, y ≤ Lines.byteLen L →
        Lines.slice src₁ (o₁.lineStart + x) (o₁.lineStart + y) = Lines.slice L x y) ∧
      (∀ x y, y ≤ Lines.byteLen L →
        Lines.slice src₂ (o₂.lineStart + x) (o₂.lineStart + y) = Lines.slice L x y) := by
  obtain ⟨a, b, p₁, q₁, p₂, q₂, e1, e2, hp1, hp2, _, _, h3, _, _, _⟩ := h
  refine ⟨a ++ b, by simp; omega, ?_, ?_⟩
  · intro x y hy; rw [e1, ← hp1]; exact slice_inside p₁ (a ++ b) q₁ x y hy
  · intro x y hy; rw [e2, ← hp2]; exact slice_inside p₂ (a ++ b) q₂ x y hy

/-- the whole line -/
theorem ERel.line {src₁ src₂ : List Char} {o₁ o₂ : LineOffset} (h : ERel ρ src₁ src₂ o₁ o₂) :
    ∃ L, Lines.slice src₁ o₁.lineStart o₁.lineEnd = .ok L ∧ Lines.slice src₂ o₂.lineStart o₂.lineEnd = .ok L ∧
      o₁.lineEnd = o₁.lineStart + Lines.byteLen L ∧ o₂.lineEnd = o₂.lineStart + Lines.byteLen L := by
  obtain ⟨a, b, p₁, q₁, p₂, q₂, e1, e2, hp1, hp2, _, _, h3, h4, _, _⟩ := h
  refine ⟨a ++ b, ?_, ?_, by simp; omega, by simp; omega⟩
  · exact Lines.slice_eq_ok_iff.mpr ⟨p₁, q₁, e1, hp1, by simp; omega⟩
  · exact Lines.slice_eq_ok_iff.mpr ⟨p₂, q₂, e2, hp2, by simp; omega⟩

/-- `src[first_nonspace..line_end]` -/
theorem ERel.text {src₁ src₂ : List Char} {o₁ o₂ : LineOffset} (h : ERel ρ src₁ src₂ o₁ o₂) :
    Lines.slice src₂ o₂.firstNonspace o₂.lineEnd = Lines.slice src₁ o₁.firstNonspace o₁.lineEnd := by
  obtain ⟨L, hl, h1, h2⟩ := h.slices
  have hn := h.nums
  have e1 := h1 (o₁.firstNonspace - o₁.lineStart) (Lines.byteLen L) (Nat.le_refl _)
  have e2 := h2 (o₁.firstNonspace - o₁.lineStart) (Lines.byteLen L) (Nat.le_refl _)
  rw [show o₁.lineStart + (o₁.firstNonspace - o₁.lineStart) = o₁.firstNonspace by omega, ← hl] at e1
  rw [← hn.2.2.1, show o₂.lineStart + Lines.byteLen L = o₂.lineEnd by omega] at e2
  rw [e1, e2]

/-- `src[line_start..first_nonspace]` -/
theorem ERel.ws {src₁ src₂ : List Char} {o₁ o₂ : LineOffset} (h : ERel ρ src₁ src₂ o₁ o₂) :
    Lines.slice src₂ o₂.lineStart o₂.firstNonspace = Lines.slice src₁ o₁.lineStart o₁.firstNonspace := by
  obtain ⟨L, hl, h1, h2⟩ := h.slices
  have hn := h.nums
  have e1 := h1 0 (o₁.firstNonspace - o₁.lineStart) (by omega)
  have e2 := h2 0 (o₁.firstNonspace - o₁.lineStart) (by omega)
  rw [Nat.add_zero, show o₁.lineStart + (o₁.firstNonspace - o₁.lineStart) = o₁.firstNonspace by omega] at e1
  rw [Nat.add_zero, ← hn.2.2.1] at e2
  rw [e1, e2]

/-- `src[line_start + d..line_end]` for `d` inside the line -/
theorem ERel.from_ {src₁ src₂ : List Char} {o₁ o₂ : LineOffset} (h : ERel ρ src₁ src₂ o₁ o₂) (d : Nat) :
    Lines.slice src₂ (o₂.lineStart + d) o₂.lineEnd = Lines.slice src₁ (o₁.lineStart + d) o₁.lineEnd := by
  obtain ⟨L, hl, h1, h2⟩ := h.slices
  have hn := h.nums
  have e1 := h1 d (Lines.byteLen L) (Nat.le_refl _)
  have e2 := h2 d (Lines.byteLen L) (Nat.le_refl _)
  rw [← hl] at e1
  rw [show o₂.lineStart + Lines.byteLen L = o₂.lineEnd by omega] at e2
  rw [e1, e2]

/-- `is_empty` -/
theorem ERel.empty {src₁ src₂ : List Char} {o₁ o₂ : LineOffset} (h : ERel ρ src₁ src₂ o₁ o₂) :
    (o₂.firstNonspace ≥ o₂.lineEnd) ↔ (o₁.firstNonspace ≥ o₁.lineEnd) := by
  have hn := h.nums
  omega


/-- changing the indent on both sides alike -/
theorem ERel.setIndent {src₁ src₂ : List Char} {o₁ o₂ : LineOffset} (h : ERel ρ src₁ src₂ o₁ o₂) (x : Int) :
    ERel ρ src₁ src₂ { o₁ with indentNonspace := x } { o₂ with indentNonspace := x } := by
  obtain ⟨a, b, p₁, q₁, p₂, q₂, e1, e2, hp1, hp2, h1, h2, h3, h4, _, hr⟩ := h
  exact ⟨a, b, p₁, q₁, p₂, q₂, e1, e2, hp1, hp2, h1, h2, h3, h4, rfl, hr⟩

/-- the rewriting both containers perform: `first_nonspace := fn + line_start` for a boundary `fn`
    of the line's bytes, any indent (the split point between `a` and `b` moves, `|a| + |b|` stays) -/
theorem ERel.rewrite {src₁ src₂ : List Char} {o₁ o₂ : LineOffset} (h : ERel ρ src₁ src₂ o₁ o₂)
    {L : List Char} (hL : Lines.slice src₁ o₁.lineStart o₁.lineEnd = .ok L) {fn : Nat}
    (hb : Lines.onBoundary L fn = true) (x : Int) :
    ERel ρ src₁ src₂ { o₁ with firstNonspace := fn + o₁.lineStart, indentNonspace := x }
      { o₂ with firstNonspace := fn + o₂.lineStart, indentNonspace := x } := by
  obtain ⟨L', hL1, _, _, _⟩ := h.line
  rw [hL] at hL1; cases hL1
  obtain ⟨a, b, p₁, q₁, p₂, q₂, e1, e2, hp1, hp2, h1, h2, h3, h4, _, hr⟩ := h
  have hab : L = a ++ b := by
    have := Lines.slice_eq_ok_iff.mpr ⟨p₁, q₁, e1, hp1, (by simp; omega : o₁.lineStart + Lines.byteLen (a ++ b) = o₁.lineEnd)⟩
    rw [hL] at this; cases this; rfl
  obtain ⟨a', b', hab', hfa⟩ := Lines.onBoundary_iff.mp hb
  have hlen : Lines.byteLen a' + Lines.byteLen b' = Lines.byteLen a + Lines.byteLen b := by
    have := congrArg Lines.byteLen (hab.symm.trans hab')
    simp at this; omega
  refine ⟨a', b', p₁, q₁, p₂, q₂, ?_, ?_, hp1, hp2, ?_, ?_, ?_, ?_, rfl, ?_⟩
  · rw [e1, ← hab, hab']
  · rw [e2, ← hab, hab']
  · simp; omega
  · simp; omega
  · simp; omega
  · simp; omega
  · intro d hd; exact hr d (by omega)

theorem ERel.geom_setIndent (o : LineOffset) (x : Int) : geom { o with indentNonspace := x } = geom o := rfl
theorem ERel.geom_rewrite (o : LineOffset) (f : Nat) (x : Int) :
    geom { o with firstNonspace := f, indentNonspace := x } = geom o := rfl

/-! ### the table -/

/-- the two tables have an entry at the same indices, and the entries are related -/
theorem SRel.get (S : SRel ρ G s₁ s₂) (n : Nat) :
    (s₁.offs[n]? = none ∧ s₂.offs[n]? = none) ∨
    ∃ o₁ o₂, s₁.offs[n]? = some o₁ ∧ s₂.offs[n]? = some o₂ ∧ ERel ρ G.src₁ G.src₂ o₁ o₂ := by
  by_cases hn : n < s₁.offs.length
  · right
    have hn2 : n < s₂.offs.length := by rw [S.len]; exact hn
    exact ⟨s₁.offs[n], s₂.offs[n], List.getElem?_eq_getElem hn, List.getElem?_eq_getElem hn2,
      S.ent n _ _ (List.getElem?_eq_getElem hn) (List.getElem?_eq_getElem hn2)⟩
  · left
    exact ⟨List.getElem?_eq_none (by omega), List.getElem?_eq_none (by rw [S.len]; omega)⟩

/-- `&state.line_offsets[n]` -/
theorem SRel.off (S : SRel ρ G s₁ s₂) (n : Nat) :
    FRel (ERel ρ G.src₁ G.src₂) (s₁.off n) (s₂.off n) := by
  unfold BState.off
  rcases S.get n with ⟨h1, h2⟩ | ⟨o₁, o₂, h1, h2, he⟩
  · rw [h1, h2]; exact frel_err _
  · rw [h1, h2]; exact frel_ok he

theorem SRel.off_ok (S : SRel ρ G s₁ s₂) {n : Nat} {o₁ : LineOffset} (h : s₁.off n = .ok o₁) :
    ∃ o₂, s₂.off n = .ok o₂ ∧ ERel ρ G.src₁ G.src₂ o₁ o₂ := by
  have := S.off n
  rw [h] at this
  exact frel_ok_left this

theorem SRel.lineIndent (S : SRel ρ G s₁ s₂) (n : Nat) : s₂.lineIndent n = s₁.lineIndent n := by
  unfold BState.lineIndent Lines.lineIndent
  rcases S.get n with ⟨h1, h2⟩ | ⟨o₁, o₂, h1, h2, he⟩
  · rw [h1, h2]
  · rw [h1, h2]; simp only; rw [he.indent, S.blkIndent]

theorem SRel.isEmpty (S : SRel ρ G s₁ s₂) (n : Nat) : s₂.isEmpty n = s₁.isEmpty n := by
  unfold BState.isEmpty Lines.isEmpty
  rcases S.get n with ⟨h1, h2⟩ | ⟨o₁, o₂, h1, h2, he⟩
  · rw [h1, h2]
  · rw [h1, h2]
    have := he.empty
    simp only [ge_iff_le, decide_eq_decide]
    exact this

theorem SRel.getLine (S : SRel ρ G s₁ s₂) (n : Nat) : s₂.getLine n = s₁.getLine n := by
  unfold BState.getLine Lines.getLine
  rcases S.get n with ⟨h1, h2⟩ | ⟨o₁, o₂, h1, h2, he⟩
  · rw [h1, h2]
  · rw [h1, h2]; simp only; rw [S.src₁, S.src₂, he.text]

theorem SRel.skipEmpty (S : SRel ρ G s₁ s₂) (lineMax : Nat) :
    ∀ line, Lines.skipEmptyLines s₂.offs lineMax line = Lines.skipEmptyLines s₁.offs lineMax line := by
  intro line
  have he : ∀ n, Lines.isEmpty s₂.offs n = Lines.isEmpty s₁.offs n := S.isEmpty
  generalize hk : s₁.offs.length - line = k
  induction k using Nat.strongRecOn generalizing line with
  | _ k ih =>
    rw [Lines.skipEmptyLines]
    conv => rhs; rw [Lines.skipEmptyLines]
    simp only [he line]
    split
    · rename_i h
      have hlt : line < s₁.offs.length := by
        have := h.2
        unfold Lines.isEmpty at this
        split at this
        · rename_i o ho
          exact (List.getElem?_eq_some_iff.mp ho).1
        · simp at this
      exact ih (s₁.offs.length - (line + 1)) (by omega) (line + 1) rfl
    · rfl

/-- `get_map`: the same verdict, `ρ`-related ranges -/
theorem SRel.getMap (S : SRel ρ G s₁ s₂) (a b : Nat) :
    FRel (fun r₁ r₂ => RgRel ρ (some r₁) (some r₂)) (s₁.getMap a b) (s₂.getMap a b) := by
  unfold BState.getMap Lines.getMap
  by_cases hab : a > b
  · rw [if_pos hab, if_pos hab]; exact frel_err _
  · rw [if_neg hab, if_neg hab]
    rcases S.get a with ⟨h1, h2⟩ | ⟨o₁, o₂, h1, h2, he⟩
    · rw [h1, h2]; exact frel_err _
    · rcases S.get b with ⟨h1', h2'⟩ | ⟨o₁', o₂', h1', h2', he'⟩
      · rw [h1, h2, h1', h2']; exact frel_err _
      · rw [h1, h2, h1', h2']
        exact frel_ok ⟨he.first, he'.end_⟩

/-- writing related entries with the geometry of the entries they replace -/
theorem SRel.setOff (S : SRel ρ G s₁ s₂) (n : Nat) {o₁ o₂ : LineOffset}
    (he : ERel ρ G.src₁ G.src₂ o₁ o₂)
    (hg₁ : ∀ o, s₁.offs[n]? = some o → geom o₁ = geom o)
    (hg₂ : ∀ o, s₂.offs[n]? = some o → geom o₂ = geom o) :
    FRel (SRel ρ G) (s₁.setOff n o₁) (s₂.setOff n o₂) := by
  unfold BState.setOff
  by_cases hn : n < s₁.offs.length
  · have hn2 : n < s₂.offs.length := by rw [S.len]; exact hn
    rw [if_pos hn, if_pos hn2]
    refine frel_ok ⟨S.src₁, S.src₂, by simp [S.len], ?_, ?_, ?_, S.blkIndent, S.line, S.lineMax, S.tight, S.listIndent,
      S.level, S.nodeKind, S.refs, S.children⟩
    · intro i x y hx hy
      simp only [List.getElem?_set] at hx hy
      by_cases hi : n = i
      · subst hi
        simp only [hn, hn2, if_true] at hx hy
        cases hx; cases hy; exact he
      · simp only [hi, if_false] at hx hy
        exact S.ent i x y hx hy
    · rw [← S.geo₁]
      simp only [List.map_set]
      rw [hg₁ _ (List.getElem?_eq_getElem hn)]
      apply List.ext_getElem?
      intro i
      simp only [List.getElem?_set, List.getElem?_map]
      split
      · rename_i h; subst h; simp [List.getElem?_eq_getElem hn]; exact hn
      · rfl
    · rw [← S.geo₂]
      simp only [List.map_set]
      rw [hg₂ _ (List.getElem?_eq_getElem hn2)]
      apply List.ext_getElem?
      intro i
      simp only [List.getElem?_set, List.getElem?_map]
      split
      · rename_i h; subst h; simp [List.getElem?_eq_getElem hn2]; exact hn2
      · rfl
  · have hn2 : ¬ n < s₂.offs.length := by rw [S.len]; exact hn
    rw [if_neg hn, if_neg hn2]; exact frel_err _


/-! ### `get_lines` -/

/-- the loop of `get_lines` on related tables: the same text, related per-line tables, or the same
    panic -/
theorem getLinesGo_sim (S : SRel ρ G s₁ s₂) (end_ indent : Nat) (keep : Bool) :
    ∀ (k line : Nat) (result : List Char) (m₁ m₂ : List (Nat × Nat)), end_ - line = k → MRel ρ m₁ m₂ →
      (∃ c m₁' m₂', Lines.getLinesGo s₁.src s₁.offs end_ indent keep line result m₁ = .ok (c, m₁') ∧
        Lines.getLinesGo s₂.src s₂.offs end_ indent keep line result m₂ = .ok (c, m₂') ∧ MRel ρ m₁' m₂') ∨
      (∃ e, Lines.getLinesGo s₁.src s₁.offs end_ indent keep line result m₁ = .error e ∧
        Lines.getLinesGo s₂.src s₂.offs end_ indent keep line result m₂ = .error e) := by
  intro k
  induction k with
  | zero =>
    intro line result m₁ m₂ hk hm
    left
    rw [Lines.getLinesGo, Lines.getLinesGo, if_neg (by omega), if_neg (by omega)]
    exact ⟨_, _, _, rfl, rfl, hm⟩
  | succ k ih =>
    intro line result m₁ m₂ hk hm
    rw [S.src₁, S.src₂] at *
    rw [Lines.getLinesGo, Lines.getLinesGo, if_pos (by omega), if_pos (by omega)]
    rcases S.get line with ⟨h1, h2⟩ | ⟨o₁, o₂, h1, h2, he⟩
    · right; rw [h1, h2]; exact ⟨_, rfl, rfl⟩
    · rw [h1, h2]
      simp only
      rw [he.ws, he.indent]
      cases hws : Lines.slice G.src₁ o₁.lineStart o₁.firstNonspace with
      | error e => right; exact ⟨_, rfl, rfl⟩
      | ok ws =>
        simp only
        generalize Lines.calcRightWs ws (o₁.indentNonspace - Lines.usizeAsI32 indent) = p
        obtain ⟨ns, first⟩ := p
        simp only
        rw [he.from_ first]
        cases ht : Lines.slice G.src₁ (o₁.lineStart + first) o₁.lineEnd with
        | error e => right; exact ⟨_, rfl, rfl⟩
        | ok t =>
          simp only
          apply ih (line + 1) _ _ _ (by omega)
          -- the slice `src[line_start + first .. line_end]` exists: the offset is inside the line
          have hin : o₁.lineStart + first ≤ o₁.lineEnd := by
            obtain ⟨_, _, _, _, hq⟩ := Lines.slice_eq_ok_iff.mp ht
            omega
          have h1 : MRel ρ (m₁ ++ [(Lines.byteLen result, o₁.lineStart + first)])
              (m₂ ++ [(Lines.byteLen result, o₂.lineStart + first)]) :=
            hm.append (MRel.single (he.at_ first hin))
          split
          · exact h1.append (MRel.single (he.at_ first hin))
          · exact h1

/-- `get_lines` -/
theorem SRel.getLines (S : SRel ρ G s₁ s₂) (b e indent : Nat) (keep : Bool) :
    FRel (fun r₁ r₂ => r₁.1 = r₂.1 ∧ MRel ρ r₁.2 r₂.2) (s₁.getLines b e indent keep)
      (s₂.getLines b e indent keep) := by
  unfold BState.getLines Lines.getLines
  by_cases hbe : b > e
  · rw [if_pos hbe, if_pos hbe]; exact frel_err _
  · rw [if_neg hbe, if_neg hbe]
    rcases getLinesGo_sim S e indent keep _ b [] [] [] rfl MRel.nil with
      ⟨c, m₁', m₂', h1, h2, hm⟩ | ⟨e', h1, h2⟩
    · rw [h1, h2]; exact frel_ok ⟨rfl, hm⟩
    · rw [h1, h2]; cases e' <;> exact frel_err _

/-! ### updates that keep the relation -/

theorem SRel.withLine (S : SRel ρ G s₁ s₂) (l : Nat) :
    SRel ρ G { s₁ with line := l } { s₂ with line := l } :=
  ⟨S.src₁, S.src₂, S.len, S.ent, S.geo₁, S.geo₂, S.blkIndent, rfl, S.lineMax, S.tight, S.listIndent, S.level, S.nodeKind,
    S.refs, S.children⟩

theorem SRel.push (S : SRel ρ G s₁ s₂) {n₁ n₂ : BNode} (hn : NRel ρ n₁ n₂) :
    SRel ρ G (s₁.push n₁) (s₂.push n₂) :=
  ⟨S.src₁, S.src₂, S.len, S.ent, S.geo₁, S.geo₂, S.blkIndent, S.line, S.lineMax, S.tight, S.listIndent, S.level, S.nodeKind,
    S.refs, S.children.push hn⟩

/-- any update of the fields the table relation does not mention -/
theorem SRel.upd (S : SRel ρ G s₁ s₂) {t₁ t₂ : BState}
    (h1 : t₁.src = s₁.src ∧ t₁.offs = s₁.offs) (h2 : t₂.src = s₂.src ∧ t₂.offs = s₂.offs)
    (hb : t₂.blkIndent = t₁.blkIndent) (hl : t₂.line = t₁.line) (hm : t₂.lineMax = t₁.lineMax)
    (ht : t₂.tight = t₁.tight) (hli : t₂.listIndent = t₁.listIndent) (hlv : t₂.level = t₁.level)
    (hk : t₂.nodeKind = t₁.nodeKind) (hr : t₂.refs = t₁.refs) (hc : NRelL ρ t₁.children t₂.children) :
    SRel ρ G t₁ t₂ := by
  refine ⟨h1.1.trans S.src₁, h2.1.trans S.src₂, by rw [h1.2, h2.2]; exact S.len, ?_, by rw [h1.2]; exact S.geo₁,
    by rw [h2.2]; exact S.geo₂, hb, hl, hm, ht, hli, hlv, hk, hr, hc⟩
  rw [h1.2, h2.2]; exact S.ent


/-- `srelx_fields S`: prove `SRel ρ G t₁ t₂` for states `t₁`, `t₂` that are record updates of `s₁`, `s₂`
    (with `S : SRel ρ G s₁ s₂`) leaving `src` and `offs` alone; the scalar fields are closed with
    `S`'s equations, what remains (typically the `children` goal) is left to the caller -/
syntax "srelx_fields " ident : tactic
macro_rules
| `(tactic| srelx_fields $S:ident) => `(tactic|
    (refine SRel.upd $S ⟨rfl, rfl⟩ ⟨rfl, rfl⟩ ?_ ?_ ?_ ?_ ?_ ?_ ?_ ?_ ?_ <;>
     (try simp only [BState.push, SRel.blkIndent $S, SRel.line $S, SRel.lineMax $S, SRel.tight $S,
        SRel.listIndent $S, SRel.level $S, SRel.nodeKind $S, SRel.refs $S])))

end reads

