/-
  C05 for ALL sources (split tabs included), third part — the frame invariant `FIV` through the
  inline tokenizer.  Part 2: the code-span rule (its `Text` child is the ONE node under the
  exemption: boundaries only) and the newline rule (`trailing_text_pop`: the shortened text is a
  sub-stretch of the solid stretch `tanch` provides; the shift of `MapT` there gives the new range
  end).
-/
import MdIt.Lemmas.C05TabsText

namespace MdIt.C05T
open MdIt.Inline
open MdIt.InlineOps (Srcmap getSourcePosFor getMap byteLen slice)
open MdIt.C05R (Cut Bdy Sel Adj Adjd StrictTop TextLike textOf)

/-! ## code spans -/

theorem tx_ruleBackticks {src0 : List Char} {st st' : IState} {o : Option Nat}
    (hctx : CtxV src0 st.src st.srcmap) (hcc : CodeCloserOK) (hf : tx_FInv src0 st)
    (h : ruleBackticks st false = .ok (o, st')) :
    FIV src0 st.src st.srcmap st.posMax (st'.pos + o.getD 0) st'.children := by
  have h0 := h
  unfold ruleBackticks at h
  split at h
  · simp at h
  · simp only [Except.ok.injEq, Prod.mk.injEq] at h; obtain ⟨rfl, rfl⟩ := h
    exact tx_none hf
  · next oc c hrun =>
    split at h
    · next hnone =>
      exfalso
      have : ∀ (v : CodePair.Variant) (m : Char) (src : List Char) (pos posMax n p matchEnd : Nat)
          (c : CodePair.Cache) (o : CodePair.Outcome) (c' : CodePair.Cache),
          CodePair.scan v m src pos posMax n p false matchEnd c = .ok (some o, c') → o.node ≠ none := by
        intro v m src pos posMax n p matchEnd c o c' hs
        fun_induction CodePair.scan v m src pos posMax n p false matchEnd c <;> simp_all
        all_goals (try (obtain ⟨rfl, _⟩ := hs; simp))
      have hrn : oc.node ≠ none := by
        unfold CodePair.run at hrun
        repeat' split at hrun
        all_goals first
          | exact this _ _ _ _ _ _ _ _ _ _ _ hrun
          | simp at hrun
      exact hrn hnone
    · next nd hnd =>
      split at h
      · simp at h
      · next r hr =>
        split at h
        · simp at h
        · next ri hri =>
          simp only [Except.ok.injEq, Prod.mk.injEq] at h; obtain ⟨rfl, rfl⟩ := h
          obtain ⟨rx, ry⟩ := r
          obtain ⟨ix, iy⟩ := ri
          obtain ⟨e1, e2, _⟩ := getMap_eq hr
          obtain ⟨f1, f2, _⟩ := getMap_eq hri
          obtain ⟨s1, s2, _, _, _⟩ := run_node_shape _ _ _ _ _ _ _ _ _ _ nd hrun hnd
          rw [s1] at e1
          rw [s2] at e2
          obtain ⟨hlen, hclose⟩ := hcc _ _ _ h0
          simp only [Option.getD_some]
          have hb : Bdy st.src (st.pos + oc.len) :=
            (codeBoundary_iff _ _).mp
              (CodePair.codepair_progress _ _ backtick_size _ _ _ _ _ _ _ _ hrun).2.2
          obtain ⟨p, ms, me, n, hmk⟩ := C05R.fi_run_node _ _ _ _ _ _ _ _ _ _ nd hrun hnd
          obtain ⟨w, hcut, _⟩ := C05R.fi_mkNode_cut hmk
          exact tx_push hf hb (tx_fthN_oneText (hctx.fth.bdy _ _ hf.bpos e1) (hctx.fth.bdy _ _ hb e2)
            (by intro t e; cases e) (by intro x y z e; cases e)
            (by intro mk l rem o c e; cases e) (hctx.fth.bdy _ _ hcut.bdy_left f1)
            (hctx.fth.bdy _ _ hcut.bdy_right f2) (fun hex => by simp [isCode] at hex))
            (C05R.fi_not_textLike (by intro t e; cases e) (by intro mk l rem o c e; cases e))
            (fun _ _ => tx_anchored_of_charAt hclose (by omega) (by decide) (by decide) (by decide))

/-! ## the newline rule -/

theorem tx_dropWhile_head {p : Char → Bool} {l : List Char} {x : Char} {r : List Char}
    (h : l.dropWhile p = x :: r) : p x = false := by
  induction l with
  | nil => simp at h
  | cons a t ih =>
    rw [List.dropWhile_cons] at h
    split at h
    · exact ih h
    · next hp =>
      simp only [List.cons.injEq] at h
      rw [← h.1]; simpa using hp

/-- **`trailing_text_pop` of the blanks before a line feed**, in a frame where the newline rule is
    active (the trailing text holds no line feed: `RIv.nolf`): the list clauses of the invariant
    survive, and `pos - tail` is a boundary.  The trailing text lies `Within` a solid stretch
    (`tanch`); the kept part is a sub-stretch, and the translation is a shift there, so the
    shortened range `(xs, xe - tail)` is the translated `(start, pos - tail)`. -/
theorem tx_pop {A : Prop} {src0 c : List Char} {m : Srcmap} {lo pm pos : Nat} {cs out : List Node}
    (hctx : CtxV src0 c m) (hA : A) (hr : RIv A c m lo pos cs) (hf : FIV src0 c m pm pos cs)
    (hpop : trailingTextPop cs (tailSpaces (trailingTextGet cs)) = .ok out)
    (hge : ¬ pos < tailSpaces (trailingTextGet cs)) :
    Bdy c (pos - tailSpaces (trailingTextGet cs)) ∧ FthLV src0 false out ∧ Adjd out ∧
      StrictTop out := by
  have hm := hctx.map
  rcases pop_tail_cases hpop with ⟨h0, rfl⟩ | ⟨init, last, pre, hcs, hlt, htail, hget, hpre, hcase⟩
  · rw [h0]; exact ⟨hf.bpos, hf.deep, hf.adj, hf.strict⟩
  · rw [hget] at hge ⊢
    obtain ⟨hch, start, xs, xe, hsl, hxs, hxe, hrange⟩ := hr.ri.trail init last hcs hlt
    obtain ⟨_, _, hse⟩ := slice_boundaries hsl
    have hbl : byteLen last.content = byteLen pre + tailSpaces last.content := by
      conv => lhs; rw [hpre]
      rw [C05.byteLen_append, byteLen_replicate_space]
    -- the trailing text holds no line feed, so it lies within a solid stretch
    have hnolf : '\n' ∉ last.content := hr.nolf hA init last hcs hlt
    obtain ⟨s', hc', hw'⟩ := hf.tanch init last hcs hlt hnolf
    have hs' : s' = start := by have := tx_cut_len hc'; omega
    subst hs'
    have hstart : s' + byteLen pre = pos - tailSpaces last.content := by omega
    -- the kept part
    have hcutpre : Cut c s' (pos - tailSpaces last.content) pre := by
      rw [← hstart]
      exact C05R.fi_cut_of_slice_prefix (u := pre) (v := List.replicate (tailSpaces last.content) ' ')
        (by rw [← hpre]; exact hsl)
    have hwpre : Within c s' (pos - tailSpaces last.content) :=
      tx_within_sub hw' (Nat.le_refl _) hcutpre.le (by omega)
    have htl := C05R.fi_textLike_of_isText hlt
    subst hcs
    have hd := (tx_fthL_append _ _ _ _).mp hf.deep
    have hadj := (C05R.fi_adjd_snoc _ _).mp hf.adj
    have hst := (C05R.fi_strict_append _ _).mp hf.strict
    rcases hcase with ⟨hpnil, rfl⟩ | ⟨hpne, a', b', hr', hle', rfl⟩ | ⟨_, hr', _⟩
    · -- the whole node goes
      exact ⟨hcutpre.bdy_right, hd.1, hadj.1, hst.1⟩
    · -- the node keeps `pre`, its range end moves left by `tail`
      rw [hrange] at hr'; simp only [Option.some.injEq, Prod.mk.injEq] at hr'
      obtain ⟨hr1, hr2⟩ := hr'
      subst hr1 hr2
      obtain ⟨rx, e1⟩ := C05.translate_total m hm.wf (pos - tailSpaces last.content)
      have hend : xe - tailSpaces last.content = rx := by
        obtain ⟨p, q, ch0, w0, hcut, k1, k2, k3, hp1, _, hp2⟩ := hw'
        have := hm.shift p q ch0 w0 (pos - tailSpaces last.content) pos rx xe hcut k1 k2 k3
          (by omega) (by omega) hp2 e1 hxe
        omega
      rw [hend]
      have hbp : 0 < byteLen pre := byteLen_pos_of_ne_nil hpne
      have hlt' : xs < rx := tx_strict_within hm hwpre (by omega) hxs e1
      have hfn : FthNV src0 false (Node.mk (.text pre) (some (xs, rx)) last.children) :=
        tx_fthN_text (n := Node.mk (.text pre) (some (xs, rx)) last.children) rfl hch rfl
          (hctx.fth.bdy _ _ hcutpre.bdy_left hxs) (hctx.fth.bdy _ _ hcutpre.bdy_right e1)
          (fun _ => tx_sel_within hctx.fth hwpre hcutpre hxs e1)
      refine ⟨hcutpre.bdy_right, (tx_fthL_append _ _ _ _).mpr ⟨hd.1, (tx_fthL_single _ _ _).mpr hfn⟩,
        ?_, ?_⟩
      · refine (C05R.fi_adjd_snoc _ _).mpr ⟨hadj.1, ?_⟩
        intro y hy hty _
        obtain ⟨a1, b1, b2, q1, q2⟩ := hadj.2 y hy hty htl
        rw [hrange] at q2; simp only [Option.some.injEq, Prod.mk.injEq] at q2
        exact ⟨a1, b1, rx, q1, by rw [← q2.1]⟩
      · exact (C05R.fi_strict_append _ _).mpr ⟨hst.1,
          (C05R.fi_strict_single _).mpr (fun _ => ⟨xs, rx, rfl, hlt'⟩)⟩
    · rw [hrange] at hr'; cases hr'

theorem tx_ruleNewline {A : Prop} {src0 : List Char} {lo : Nat} {st st' : IState} {o : Option Nat}
    (hctx : CtxV src0 st.src st.srcmap) (hA : A) (hi : tv_RInv A lo st) (hf : tx_FInv src0 st)
    (h : ruleNewline st false = .ok (o, st')) :
    FIV src0 st.src st.srcmap st.posMax (st'.pos + o.getD 0) st'.children := by
  unfold ruleNewline at h
  split at h
  · simp at h
  · simp at h
  · next c rest hw =>
    have hsl := window_eq hw
    split at h
    · simp only [Except.ok.injEq, Prod.mk.injEq] at h; obtain ⟨rfl, rfl⟩ := h; exact tx_none hf
    · next hc =>
      have hc' : c = '\n' := by simpa using hc
      subst hc'
      simp only [Bool.false_eq_true, if_false] at h
      split at h
      · simp at h
      · next cs hpop =>
        split at h
        · simp at h
        · next hge =>
          split at h
          · simp at h
          · next r hr =>
            simp only [Except.ok.injEq, Prod.mk.injEq] at h; obtain ⟨rfl, rfl⟩ := h
            obtain ⟨rx, ry⟩ := r
            obtain ⟨e1, e2, _⟩ := getMap_eq hr
            simp only [Option.getD_some]
            have epos : st.pos + (st.pos + 1 + (List.takeWhile isSpTab rest).length - st.pos)
                = st.pos + 1 + (List.takeWhile isSpTab rest).length := by omega
            rw [epos]
            -- the cursor behind the line feed and the leading blanks of the next line
            have hsplit : '\n' :: rest
                = ('\n' :: List.takeWhile isSpTab rest) ++ List.dropWhile isSpTab rest := by
              simp [List.takeWhile_append_dropWhile]
            rw [hsplit] at hsl
            have e0 : ('\n' : Char).utf8Size = 1 := by decide
            have hbl : st.pos + byteLen ('\n' :: List.takeWhile isSpTab rest)
                = st.pos + 1 + (List.takeWhile isSpTab rest).length := by
              simp only [byteLen, e0, byteLen_takeWhile_spTab]; omega
            have hb : Bdy st.src (st.pos + 1 + (List.takeWhile isSpTab rest).length) := by
              rw [← hbl]; exact boundary_in_slice hsl
            obtain ⟨hbp, hdeep, hadj, hstr⟩ := tx_pop hctx hA hi hf hpop hge
            refine tx_push_of hdeep hadj hstr hb
              (tx_fthN_plain (hctx.fth.bdy _ _ hbp e1) (hctx.fth.bdy _ _ hb e2)
                (by intro t e; split at e <;> cases e) (by intro x y z e; split at e <;> cases e)
                (by intro mk l rem o c e; split at e <;> cases e) trivial trivial)
              (C05R.fi_not_textLike (by intro t e; split at e <;> cases e)
                (by intro mk l rem o c e; split at e <;> cases e)) ?_
            -- behind the blanks no blank stands
            intro hlt hca
            exfalso
            rw [← hbl] at hlt hca
            refine tx_no_space_at hsl ?_ hlt hca
            intro x r hxr hx
            have := tx_dropWhile_head hxr
            subst hx
            simp [isSpTab] at this

end MdIt.C05T
