/-
  C10 with the sourcepos plugin, full version — the exact inline simulation, part 3: links, the chain, both loop bodies, the induction on fuel (see
  `Lemmas/C10SpTabsInlineBase.lean`).
-/
import MdIt.Lemmas.C10SpTabsInlineEmph

namespace MdIt.Inline.XT
open MdIt.InlineOps (Srcmap getSourcePosFor getMap byteLen slice)
open MdIt.Pipeline (MLe)
open MdIt.C10SP (CharSolid)
set_option linter.unusedSimpArgs false
set_option linter.unusedVariables false

variable {K : Ctx}

/-! ## links -/

theorem IRel.pos {s : Bool} {a b : IState} (h : IRel K s a b) : b.pos = a.pos := by
  obtain ⟨m, cs, rfl, _, _⟩ := h.out; rfl
theorem IRel.posMax {s : Bool} {a b : IState} (h : IRel K s a b) : b.posMax = a.posMax := by
  obtain ⟨m, cs, rfl, _, _⟩ := h.out; rfl
theorem IRel.src {s : Bool} {a b : IState} (h : IRel K s a b) : b.src = a.src := by
  obtain ⟨m, cs, rfl, _, _⟩ := h.out; rfl
theorem IRel.level {s : Bool} {a b : IState} (h : IRel K s a b) : b.level = a.level := by
  obtain ⟨m, cs, rfl, _, _⟩ := h.out; rfl
theorem IRel.linkLevel {s : Bool} {a b : IState} (h : IRel K s a b) : b.linkLevel = a.linkLevel := by
  obtain ⟨m, cs, rfl, _, _⟩ := h.out; rfl
theorem IRel.cache {s : Bool} {a b : IState} (h : IRel K s a b) : b.cache = a.cache := by
  obtain ⟨m, cs, rfl, _, _⟩ := h.out; rfl
theorem IRel.bottoms {s : Bool} {a b : IState} (h : IRel K s a b) : b.bottoms = a.bottoms := by
  obtain ⟨m, cs, rfl, _, _⟩ := h.out; rfl
theorem IRel.window {s : Bool} {a b : IState} (h : IRel K s a b) : b.window = a.window := by
  obtain ⟨m, cs, rfl, _, _⟩ := h.out; rfl

/-- a look-ahead / recursive call preserves the relation -/
def SimFn (K : Ctx) (s : Bool) (f : IState → Except Panic IState) : Prop :=
  ∀ a b a', IRel K s a b → f a = .ok a' → Sim s (IRel K s) a' (f b)

/-- results of the label loop and of `parse_link`: same answer, related states -/
def PRel (K : Ctx) (s : Bool) {α : Type} (x y : α × IState) : Prop := y.1 = x.1 ∧ IRel K s x.2 y.2

theorem labelLoop_sim {s : Bool} {skip : IState → Except Panic IState} (hs : SimFn K s skip) (en : Bool) :
    ∀ (n : Nat) (level : Int) (a b : IState) (r : Option Bool × IState), IRel K s a b →
      labelLoop skip en n level a = .ok r → Sim s (PRel K s) r (labelLoop skip en n level b) := by
  intro n
  induction n with
  | zero => intro level a b r rel h; simp [labelLoop] at h
  | succ n ih =>
    intro level a b r rel h
    unfold labelLoop at h ⊢
    rw [rel.window]
    split at h
    · simp at h
    · simp only [Except.ok.injEq] at h; subst h; exact ⟨rfl, rel⟩
    · next ch rest hw =>
      split at h
      · next hif => simp only [Except.ok.injEq] at h; subst h; rw [if_pos hif]; exact ⟨rfl, rel⟩
      · next hif =>
        rw [if_neg hif]
        simp only [] at h ⊢
        split at h
        · simp at h
        · next a1 hsk =>
          rcases (hs _ _ _ rel hsk).cases with ⟨b1, e2, rel1⟩ | ⟨hs', e, e2⟩
          · rw [e2]; simp only [rel1.pos, rel.pos]
            split at h
            · next hch =>
              rw [if_pos hch]
              split at h
              · simp at h
              · next h0 =>
                rw [if_neg h0]
                split at h
                · next hp => rw [if_pos hp]; exact ih _ _ _ _ rel1 h
                · next hp =>
                  rw [if_neg hp]
                  split at h
                  · next hen =>
                    rw [if_pos hen]
                    simp only [Except.ok.injEq] at h; subst h; exact ⟨rfl, rel1⟩
                  · next hen => rw [if_neg hen]; exact ih _ _ _ _ rel1 h
            · next hch => rw [if_neg hch]; exact ih _ _ _ _ rel1 h
          · rw [e2]; exact hs'

theorem IRel.setPos {s : Bool} {a b : IState} (h : IRel K s a b) (p : Nat) :
    IRel K s { a with pos := p } { b with pos := p } := by
  obtain ⟨m, cs, rfl, hm, hc⟩ := h.out
  exact IRel.mk' (a := { a with pos := p }) hm hc h.ks

theorem parseLinkLabel_sim {s : Bool} {skip : IState → Except Panic IState} (hs : SimFn K s skip)
    {fuel : Nat} {a b : IState} {start : Nat} {en : Bool} {r : Option Nat × IState} (rel : IRel K s a b)
    (h : parseLinkLabel skip fuel a start en = .ok r) :
    Sim s (PRel K s) r (parseLinkLabel skip fuel b start en) := by
  unfold parseLinkLabel at h ⊢
  simp only [rel.pos] at h ⊢
  split at h
  · simp at h
  · next a1 hl =>
    simp only [Except.ok.injEq] at h; subst h
    rcases (labelLoop_sim hs en _ _ _ _ _ (rel.setPos (start + 1)) hl).cases with
      ⟨⟨o₂, b1⟩, e2, ho, rel1⟩ | ⟨hs', e, e2⟩
    · simp only [] at ho rel1; subst ho
      rw [e2]; exact ⟨rfl, rel1.setPos _⟩
    · rw [e2]; exact hs'
  · next found a1 hl =>
    simp only [Except.ok.injEq] at h; subst h
    rcases (labelLoop_sim hs en _ _ _ _ _ (rel.setPos (start + 1)) hl).cases with
      ⟨⟨o₂, b1⟩, e2, ho, rel1⟩ | ⟨hs', e, e2⟩
    · simp only [] at ho rel1; subst ho
      rw [e2]; exact ⟨by simp only [rel1.pos], rel1.setPos _⟩
    · rw [e2]; exact hs'

theorem parseLinkRef_sim {s : Bool} {cfg : Cfg} {skip : IState → Except Panic IState} (hs : SimFn K s skip)
    {fuel : Nat} {a b : IState} {ls le : Nat} {r : Option LinkRes × IState} (rel : IRel K s a b)
    (h : parseLinkRef cfg skip fuel a ls le = .ok r) :
    Sim s (PRel K s) r (parseLinkRef cfg skip fuel b ls le) := by
  unfold parseLinkRef at h ⊢
  simp only [rel.src, rel.posMax] at h ⊢
  split at h
  · simp at h
  · next w hw =>
    split at h
    · simp at h
    · next ml pos a1 hsec =>
      split at hsec
      · next tail =>
        split at hsec
        · simp at hsec
        · next x st' hpl =>
          rcases (parseLinkLabel_sim hs rel hpl).cases with ⟨⟨o₂, b1⟩, e2, ho, rel1⟩ | ⟨hs', e, e2⟩
          · simp only [] at ho rel1; subst ho; rw [e2]; simp only []
            split at hsec
            · simp at hsec
            · next l hl =>
              simp only [Except.ok.injEq, Prod.mk.injEq] at hsec; obtain ⟨rfl, rfl, rfl⟩ := hsec
              simp only []
              repeat' split at h
              all_goals try (simp at h; done)
              all_goals (simp only [Except.ok.injEq] at h; subst h; (try simp only [*]); exact ⟨rfl, rel1⟩)
          · rw [e2]; exact hs'
        · next st' hpl =>
          rcases (parseLinkLabel_sim hs rel hpl).cases with ⟨⟨o₂, b1⟩, e2, ho, rel1⟩ | ⟨hs', e, e2⟩
          · simp only [] at ho rel1; subst ho; rw [e2]; simp only []
            simp only [Except.ok.injEq, Prod.mk.injEq] at hsec; obtain ⟨rfl, rfl, rfl⟩ := hsec
            repeat' split at h
            all_goals try (simp at h; done)
            all_goals (simp only [Except.ok.injEq] at h; subst h; (try simp only [*]); exact ⟨rfl, rel1⟩)
          · rw [e2]; exact hs'
      · next hne =>
        simp only [Except.ok.injEq, Prod.mk.injEq] at hsec; obtain ⟨rfl, rfl, rfl⟩ := hsec
        simp only []
        repeat' split at h
        all_goals try (simp at h; done)
        all_goals (simp only [Except.ok.injEq] at h; subst h; (try simp only [*]); exact ⟨rfl, rel⟩)

theorem IRel.backticks {s : Bool} {a b : IState} (h : IRel K s a b) : b.backticks = a.backticks := by
  obtain ⟨m, cs, rfl, _, _⟩ := h.out; rfl

theorem IRel.of_eqs {s : Bool} {a b : IState} (h1 : b.src = a.src) (h2 : b.pos = a.pos)
    (h3 : b.posMax = a.posMax) (h4 : b.level = a.level) (h5 : b.linkLevel = a.linkLevel)
    (h6 : b.cache = a.cache) (h7 : b.backticks = a.backticks) (h8 : b.bottoms = a.bottoms)
    (hm : MRel s a.srcmap b.srcmap) (hc : LRel K s a.children b.children) (hk : KS K a b) :
    IRel K s a b := by
  refine ⟨?_, hm, hc, hk⟩
  cases a; cases b; simp only [] at *
  simp only [h1, h2, h3, h4, h5, h6, h7, h8]

theorem parseLink_sim {s : Bool} {cfg : Cfg} {skip : IState → Except Panic IState} (hs : SimFn K s skip)
    {fuel : Nat} {a b : IState} {pos : Nat} {en : Bool} {r : Option LinkRes × IState} (rel : IRel K s a b)
    (h : parseLink cfg skip fuel a pos en = .ok r) :
    Sim s (PRel K s) r (parseLink cfg skip fuel b pos en) := by
  unfold parseLink at h ⊢
  split at h
  · simp at h
  · next a1 hl =>
    simp only [Except.ok.injEq] at h; subst h
    rcases (parseLinkLabel_sim hs rel hl).cases with ⟨⟨o₂, b1⟩, e2, ho, rel1⟩ | ⟨hs', e, e2⟩
    · simp only [] at ho rel1; subst ho; rw [e2]; exact ⟨rfl, rel1⟩
    · rw [e2]; exact hs'
  · next le a1 hl =>
    rcases (parseLinkLabel_sim hs rel hl).cases with ⟨⟨o₂, b1⟩, e2, ho, rel1⟩ | ⟨hs', e, e2⟩
    · simp only [] at ho rel1; subst ho; rw [e2]
      simp only [rel1.src, rel1.posMax] at h ⊢
      split at h
      · simp at h
      · simp only [Except.ok.injEq] at h; subst h; exact ⟨rfl, rel1⟩
      · exact parseLinkRef_sim hs rel1 h
    · rw [e2]; exact hs'

/-! ### where the label ends (single run) -/

theorem parseLinkRef_labelEnd {cfg : Cfg} {skip : IState → Except Panic IState} {fuel : Nat} {st : IState}
    {ls le : Nat} {res : LinkRes} {st' : IState}
    (h : parseLinkRef cfg skip fuel st ls le = .ok (some res, st')) : res.labelEnd = le := by
  unfold parseLinkRef at h
  simp only [] at h
  repeat' split at h
  all_goals try (simp at h; done)
  all_goals (simp only [Except.ok.injEq, Prod.mk.injEq, Option.some.injEq] at h; obtain ⟨rfl, _⟩ := h; rfl)

theorem parseLink_labelEnd {cfg : Cfg} {skip : IState → Except Panic IState} (hq : CalmFn skip)
    {fuel : Nat} {st : IState} {pos : Nat} {en : Bool} {res : LinkRes} {st' : IState}
    (h : parseLink cfg skip fuel st pos en = .ok (some res, st')) : res.labelEnd ≤ st.posMax := by
  unfold parseLink at h
  split at h
  · simp at h
  · simp at h
  · next le st1 hl =>
    obtain ⟨r, hr⟩ := parseLinkLabel_end hq hl
    obtain ⟨_, _, _, _, hb⟩ := (C05.slice_ok_iff _ _ _ _).mp hr
    simp only [] at h
    split at h
    · simp at h
    · simp only [Except.ok.injEq, Prod.mk.injEq, Option.some.injEq] at h
      obtain ⟨rfl, _⟩ := h
      simp only []; omega
    · rw [parseLinkRef_labelEnd h]; omega

theorem linkRule_sim {s : Bool} {cfg : Cfg} {skip tok : IState → Except Panic IState} (hs : SimFn K s skip)
    (ht : SimFn K s tok) (hq : CalmFn skip) {fuel : Nat} {mk : List Nat → Option (List Char) → Val} {en : Bool} {offset : Nat}
    (hmk : ∀ u t r₁ r₂, Span K r₁ r₂ → Extra K (mk u t) r₁ r₂)
    {a b : IState} {silent : Bool} {r : Option Nat × IState} (hst : CharSolid a.src a.pos)
    (rel : IRel K s a b)
    (h : linkRule cfg skip tok fuel mk en offset a silent = .ok r) :
    Sim s (ORel K s) r (linkRule cfg skip tok fuel mk en offset b silent) := by
  unfold linkRule at h ⊢
  simp only [rel.pos] at h ⊢
  split at h
  · simp at h
  · next a1 hpl =>
    simp only [Except.ok.injEq] at h; subst h
    rcases (parseLink_sim hs rel hpl).cases with ⟨⟨o₂, b1⟩, e2, ho, rel1⟩ | ⟨hs', e, e2⟩
    · simp only [] at ho rel1; subst ho; rw [e2]; exact ⟨rfl, rel1⟩
    · rw [e2]; exact hs'
  · next res a1 hpl =>
    have hend : res.endPos ≤ byteLen K.c := Nat.le_trans (parseLink_end hq hpl).1 rel.ks.2.2.2
    have hlab : res.labelEnd ≤ byteLen K.c := Nat.le_trans (parseLink_labelEnd hq hpl) rel.ks.2.2.2
    rcases (parseLink_sim hs rel hpl).cases with ⟨⟨o₂, b1⟩, e2, ho, rel1⟩ | ⟨hs', e, e2⟩
    · simp only [] at ho rel1; subst ho; rw [e2]
      simp only [rel1.pos, rel1.posMax, rel1.level, rel1.linkLevel, rel1.bottoms] at h ⊢
      split at h
      · next hsil =>
        rw [if_pos hsil]
        split at h
        · simp at h
        · next hu => rw [if_neg hu]; simp only [Except.ok.injEq] at h; subst h; exact ⟨rfl, rel1⟩
      · next hsil =>
        rw [if_neg hsil]
        have rel2 : IRel K s
            { a1 with children := [], bottoms := [], linkLevel := a1.linkLevel + 1, level := a1.level + 1,
                      pos := res.labelStart, posMax := res.labelEnd }
            { b1 with children := [], bottoms := [], linkLevel := a1.linkLevel + 1, level := a1.level + 1,
                      pos := res.labelStart, posMax := res.labelEnd } := by
          exact IRel.of_eqs rel1.src rfl rfl rfl rfl rel1.cache rel1.backticks rfl rel1.map (by simp)
            ⟨rel1.ks.1, rel1.ks.2.1, rel1.ks.2.2.1, hlab⟩
        split at h
        · simp at h
        · next a3 htok =>
          rcases (ht _ _ _ rel2 htok).cases with ⟨b3, e3, rel3⟩ | ⟨hs', e, e3⟩
          · rw [e3]; simp only [rel3.level, rel3.pos, rel3.linkLevel]
            split at h
            · simp at h
            · next hlv =>
              rw [if_neg hlv]
              split at h
              · simp at h
              · next rr hg =>
                obtain ⟨m3, cs3, rfl, hm3, hc3⟩ := rel3.out
                rcases (getMapSt_sim (cs := cs3) hm3 (liftR_ok.mp hg)).liftR.cases with
                  ⟨r₂, e4, hr⟩ | ⟨hs', e, e4⟩
                · rw [e4]; simp only []
                  split at h
                  · simp at h
                  · next hu =>
                    rw [if_neg hu]
                    simp only [Except.ok.injEq] at h; subst h
                    exact ⟨rfl, IRel.of_eqs rfl rfl rfl rfl rfl rfl rfl rfl hm3 (rel1.ch.snoc
                      (NRel.mk' hr.1 (fun _ => hmk _ _ _ _ (span_of_GM
                        (by have := hr.2
                            have k3 := rel3.ks.2.2.1
                            simp only [] at k3
                            rw [rel3.ks.2.1, k3] at this; exact this)
                        (by rw [← rel.ks.1]; exact hst) hend)) hc3))
                      ⟨rel3.ks.1, rel3.ks.2.1, rel3.ks.2.2.1, rel1.ks.2.2.2⟩⟩
                · rw [e4]; exact hs'
          · rw [e3]; exact hs'
    · rw [e2]; exact hs'

/-! ## the chain, both loop bodies, the induction on fuel -/

theorem ruleLink_sim {s : Bool} {cfg : Cfg} {skip tok : IState → Except Panic IState} (hs : SimFn K s skip)
    (ht : SimFn K s tok) (hq : CalmFn skip) {fuel : Nat} {a b : IState} {silent : Bool} {r : Option Nat × IState}
    (rel : IRel K s a b) (h : ruleLink cfg skip tok fuel a silent = .ok r) :
    Sim s (ORel K s) r (ruleLink cfg skip tok fuel b silent) := by
  unfold ruleLink at h ⊢
  rw [rel.window]
  split at h
  · simp at h
  · simp at h
  · next c w hw =>
    split at h
    · next hc => rw [if_pos hc]; simp only [Except.ok.injEq] at h; subst h; exact ⟨rfl, rel⟩
    · next hc =>
      rw [if_neg hc]
      have hst : CharSolid a.src a.pos :=
        (charSolid_of_window (liftR_ok.mp hw) (by have e : c = '[' := by simpa using hc
                                                  rw [e]; decide)).1
      exact linkRule_sim (mk := Val.link) hs ht hq (fun _ _ _ _ h => h) hst rel h

theorem ruleImage_sim {s : Bool} {cfg : Cfg} {skip tok : IState → Except Panic IState} (hs : SimFn K s skip)
    (ht : SimFn K s tok) (hq : CalmFn skip) {fuel : Nat} {a b : IState} {silent : Bool} {r : Option Nat × IState}
    (rel : IRel K s a b) (h : ruleImage cfg skip tok fuel a silent = .ok r) :
    Sim s (ORel K s) r (ruleImage cfg skip tok fuel b silent) := by
  unfold ruleImage at h ⊢
  rw [rel.window]
  split at h
  · simp at h
  · next w hw =>
    exact linkRule_sim (mk := Val.image) hs ht hq (fun _ _ _ _ h => h)
      (charSolid_of_window (liftR_ok.mp hw) (by decide)).1 rel h
  · simp only [Except.ok.injEq] at h; subst h; exact ⟨rfl, rel⟩

theorem runRule_sim {s : Bool} {cfg : Cfg} {skip tok : IState → Except Panic IState} (hs : SimFn K s skip)
    (ht : SimFn K s tok) (hq : CalmFn skip) {fuel : Nat} {id : RuleId}
    (hid : ∀ mk csw, id = .emph mk csw → mk.utf8Size = 1 ∧ mk ≠ '\n' ∧ mk ≠ ' ') {a b : IState} {silent : Bool}
    {r : Option Nat × IState} (rel : IRel K s a b) (h : runRule cfg skip tok fuel id a silent = .ok r) :
    Sim s (ORel K s) r (runRule cfg skip tok fuel id b silent) := by
  unfold runRule at h ⊢
  cases id with
  | text => exact liftR_sim (fun _ h' => ruleText_sim rel h') h
  | newline => exact liftR_sim (fun _ h' => ruleNewline_sim rel h') h
  | escape => exact liftR_sim (fun _ h' => ruleEscape_sim rel h') h
  | backticks => exact liftR_sim (fun _ h' => ruleBackticks_sim rel h') h
  | emph mk csw => exact liftR_sim (fun _ h' => ruleEmph_sim (hid _ _ rfl).1 (hid _ _ rfl).2.1 (hid _ _ rfl).2.2 rel h') h
  | link => exact ruleLink_sim hs ht hq rel h
  | image => exact ruleImage_sim hs ht hq rel h
  | linkEnd => simp only [Except.ok.injEq] at h; subst h; exact ⟨rfl, rel⟩
  | autolink => exact liftR_sim (fun _ h' => ruleAutolink_sim rel h') h
  | entity => exact liftR_sim (fun _ h' => ruleEntity_sim rel h') h

theorem firstRule_sim {s : Bool} {run : RuleId → IState → RuleRes} :
    ∀ (rules : List RuleId)
      (hrun : ∀ id, id ∈ rules → ∀ a b r, IRel K s a b → run id a = .ok r → Sim s (ORel K s) r (run id b))
      (a b : IState) (r : Option Nat × IState), IRel K s a b →
      firstRule run rules a = .ok r → Sim s (ORel K s) r (firstRule run rules b) := by
  intro rules
  induction rules with
  | nil =>
    intro hrun a b r rel h
    simp only [firstRule, Except.ok.injEq] at h ⊢; subst h; exact ⟨rfl, rel⟩
  | cons id rs ih =>
    intro hrun' a b r rel h
    have hrun := hrun' id (List.mem_cons_self ..)
    have ih := ih (fun id' h' => hrun' id' (List.mem_cons_of_mem _ h'))
    unfold firstRule at h ⊢
    split at h
    · simp at h
    · next n a1 hr =>
      simp only [Except.ok.injEq] at h; subst h
      rcases (hrun _ _ _ rel hr).cases with ⟨⟨o₂, b1⟩, e2, ho, rel1⟩ | ⟨hs', e, e2⟩
      · simp only [] at ho rel1; subst ho; rw [e2]; exact ⟨rfl, rel1⟩
      · rw [e2]; exact hs'
    · next a1 hr =>
      rcases (hrun _ _ _ rel hr).cases with ⟨⟨o₂, b1⟩, e2, ho, rel1⟩ | ⟨hs', e, e2⟩
      · simp only [] at ho rel1; subst ho; rw [e2]; exact ih _ _ _ rel1 h
      · rw [e2]; exact hs'

theorem silentBumped_sim {s : Bool} {run : IState → Bool → RuleRes}
    (hrun : ∀ a b r, IRel K s a b → run a true = .ok r → Sim s (ORel K s) r (run b true))
    {a b : IState} {r : Option Nat × IState} (rel : IRel K s a b) (h : silentBumped run a = .ok r) :
    Sim s (ORel K s) r (silentBumped run b) := by
  unfold silentBumped at h ⊢
  have rel0 : IRel K s { a with level := a.level + 1 } { b with level := b.level + 1 } :=
    IRel.of_eqs rel.src rel.pos rel.posMax (by simp only [rel.level]) rel.linkLevel rel.cache
      rel.backticks rel.bottoms rel.map rel.ch rel.ks
  split at h
  · simp at h
  · next o a1 hr =>
    rcases (hrun _ _ _ rel0 hr).cases with ⟨⟨o₂, b1⟩, e2, ho, rel1⟩ | ⟨hs', e, e2⟩
    · simp only [] at ho rel1; subst ho; rw [e2]; simp only [rel1.level]
      split at h
      · simp at h
      · next hl =>
        rw [if_neg hl]
        simp only [Except.ok.injEq] at h; subst h
        exact ⟨rfl, IRel.of_eqs rel1.src rel1.pos rel1.posMax rfl rel1.linkLevel rel1.cache
          rel1.backticks rel1.bottoms rel1.map rel1.ch rel1.ks⟩
    · rw [e2]; exact hs'

theorem firstChar_rel {s : Bool} {a b : IState} (rel : IRel K s a b) : firstChar b = firstChar a := by
  unfold firstChar; rw [rel.window]

theorem tokStep_sim {s : Bool} {cfg : Cfg} {skip tok : IState → Except Panic IState} (hs : SimFn K s skip)
    (ht : SimFn K s tok) (hq : CalmFn skip) (hmk : ∀ mk csw, RuleId.emph mk csw ∈ cfg.chain → mk.utf8Size = 1 ∧ mk ≠ '\n' ∧ mk ≠ ' ') {fuel : Nat} {a b a' : IState} (rel : IRel K s a b)
    (h : tokStep cfg skip tok fuel a = .ok a') : Sim s (IRel K s) a' (tokStep cfg skip tok fuel b) := by
  unfold tokStep at h ⊢
  simp only [rel.level] at h ⊢
  have hok : ∀ r, (if a.level < cfg.maxNesting then
        firstRule (fun id s => runRule cfg skip tok fuel id s false) cfg.chain a else .ok (none, a)) = .ok r →
      Sim s (ORel K s) r (if a.level < cfg.maxNesting then
        firstRule (fun id s => runRule cfg skip tok fuel id s false) cfg.chain b else .ok (none, b)) := by
    intro r hr
    split at hr
    · next hl =>
      rw [if_pos hl]
      exact firstRule_sim (run := fun id s => runRule cfg skip tok fuel id s false) cfg.chain
        (fun id hid a b r rel h => runRule_sim hs ht hq (fun mk csw e => hmk mk csw (e ▸ hid)) rel h) _ _ _ rel hr
    · next hl =>
      rw [if_neg hl]
      simp only [Except.ok.injEq] at hr; subst hr; exact ⟨rfl, rel⟩
  split at h
  · simp at h
  · next len a1 hr =>
    simp only [Except.ok.injEq] at h; subst h
    rcases (hok _ hr).cases with ⟨⟨o₂, b1⟩, e2, ho, rel1⟩ | ⟨hs', e, e2⟩
    · simp only [] at ho rel1; subst ho; rw [e2]
      exact IRel.of_eqs rel1.src (by simp only [rel1.pos]) rel1.posMax rel1.level rel1.linkLevel rel1.cache
        rel1.backticks rel1.bottoms rel1.map rel1.ch rel1.ks
    · rw [e2]; exact hs'
  · next a1 hr =>
    rcases (hok _ hr).cases with ⟨⟨o₂, b1⟩, e2, ho, rel1⟩ | ⟨hs', e, e2⟩
    · simp only [] at ho rel1; subst ho; rw [e2]
      simp only [firstChar_rel rel1, rel1.pos]
      split at h
      · simp at h
      · next ch hch =>
        split at h
        · simp at h
        · next a2 hp =>
          simp only [Except.ok.injEq] at h; subst h
          rcases (pushText_sim rel1 (liftR_ok.mp hp)).liftR.cases with ⟨b2, e3, rel2⟩ | ⟨hs', e, e3⟩
          · rw [e3]
            exact IRel.of_eqs rel2.src (by simp only [rel2.pos]) rel2.posMax rel2.level rel2.linkLevel
              rel2.cache rel2.backticks rel2.bottoms rel2.map rel2.ch rel2.ks
          · rw [e3]; exact hs'
    · rw [e2]; exact hs'

theorem skipStep_sim {s : Bool} {cfg : Cfg} {skip tok : IState → Except Panic IState} (hs : SimFn K s skip)
    (ht : SimFn K s tok) (hq : CalmFn skip) (hmk : ∀ mk csw, RuleId.emph mk csw ∈ cfg.chain → mk.utf8Size = 1 ∧ mk ≠ '\n' ∧ mk ≠ ' ') {fuel : Nat} {a b a' : IState} (rel : IRel K s a b)
    (h : skipStep cfg skip tok fuel a = .ok a') : Sim s (IRel K s) a' (skipStep cfg skip tok fuel b) := by
  unfold skipStep at h ⊢
  simp only [rel.pos] at h ⊢
  have hok := fun r => firstRule_sim (K := K) (s := s)
    (run := fun id s => silentBumped (runRule cfg skip tok fuel id) s) cfg.chain
    (fun id hid a b r rel h => silentBumped_sim
      (fun a b r rel h => runRule_sim hs ht hq (fun mk csw e => hmk mk csw (e ▸ hid)) rel h) rel h)
    a b r rel
  split at h
  · simp at h
  · next len a1 hr =>
    simp only [Except.ok.injEq] at h; subst h
    rcases (hok _ hr).cases with ⟨⟨o₂, b1⟩, e2, ho, rel1⟩ | ⟨hs', e, e2⟩
    · simp only [] at ho rel1; subst ho; rw [e2]
      exact IRel.of_eqs rel1.src (by simp only [rel1.pos]) rel1.posMax rel1.level rel1.linkLevel
        (by simp only [rel1.cache, rel1.pos]) rel1.backticks rel1.bottoms rel1.map rel1.ch rel1.ks
    · rw [e2]; exact hs'
  · next a1 hr =>
    rcases (hok _ hr).cases with ⟨⟨o₂, b1⟩, e2, ho, rel1⟩ | ⟨hs', e, e2⟩
    · simp only [] at ho rel1; subst ho; rw [e2]
      simp only [firstChar_rel rel1]
      split at h
      · simp at h
      · next ch hch =>
        simp only [Except.ok.injEq] at h; subst h
        exact IRel.of_eqs rel1.src (by simp only [rel1.pos]) rel1.posMax rel1.level rel1.linkLevel
          (by simp only [rel1.cache, rel1.pos]) rel1.backticks rel1.bottoms rel1.map rel1.ch rel1.ks
    · rw [e2]; exact hs'

/-- **the lock-step simulation through the whole tokenizer**, by induction on the fuel -/
theorem sim_induction (s : Bool) (cfg : Cfg) (hmk : ∀ mk csw, RuleId.emph mk csw ∈ cfg.chain → mk.utf8Size = 1 ∧ mk ≠ '\n' ∧ mk ≠ ' ') : ∀ fuel : Nat,
    SimFn K s (fun st => skipToken cfg fuel st) ∧
    (∀ (e : Nat) (a b a' : IState), IRel K s a b → tokLoop cfg fuel e a = .ok a' →
      Sim s (IRel K s) a' (tokLoop cfg fuel e b)) := by
  intro fuel
  induction fuel with
  | zero =>
    constructor
    · intro a b a' rel h; simp [skipToken] at h
    · intro e a b a' rel h
      unfold tokLoop at h ⊢
      rw [rel.pos]
      split at h
      · simp at h
      · next hp => rw [if_neg hp]; simp only [Except.ok.injEq] at h; subst h; exact rel
  | succ f ih =>
    obtain ⟨ihS, ihT⟩ := ih
    have ht : SimFn K s (fun st => tokLoop cfg f st.posMax st) := by
      intro a b a' rel h
      have := ihT _ _ _ _ rel h
      simp only [rel.posMax]; exact this
    constructor
    · intro a b a' rel h
      simp only [] at h ⊢
      unfold skipToken at h ⊢
      simp only [rel.cache, rel.pos, rel.level, rel.posMax] at h ⊢
      split at h
      · next x hx =>
        simp only [Except.ok.injEq] at h; subst h
        exact IRel.of_eqs rel.src rfl rfl rfl rel.linkLevel rfl rel.backticks
          rel.bottoms rel.map rel.ch rel.ks
      · next hx =>
        split at h
        · next hl => rw [if_pos hl]; exact skipStep_sim ihS ht (skipToken_calm cfg f) hmk rel h
        · next hl =>
          rw [if_neg hl]
          simp only [Except.ok.injEq] at h; subst h
          exact IRel.of_eqs rel.src rfl rfl rfl rel.linkLevel rfl
            rel.backticks rel.bottoms rel.map rel.ch rel.ks
    · intro e a b a' rel h
      unfold tokLoop at h ⊢
      rw [rel.pos]
      split at h
      · next hp =>
        rw [if_pos hp]
        simp only [] at h ⊢
        split at h
        · simp at h
        · next a1 hstep =>
          rcases (tokStep_sim ihS ht (skipToken_calm cfg f) hmk rel hstep).cases with ⟨b1, e2, rel1⟩ | ⟨hs', e', e2⟩
          · rw [e2]; exact ihT _ _ _ _ rel1 h
          · rw [e2]; exact hs'
      · next hp => rw [if_neg hp]; simp only [Except.ok.injEq] at h; subst h; exact rel

/-! ## `md.inline.parse` -/

theorem parseInline_sim (K : Ctx) (s : Bool) (cfg : Cfg)
    (hmk : ∀ mk csw, RuleId.emph mk csw ∈ cfg.chain → mk.utf8Size = 1 ∧ mk ≠ '\n' ∧ mk ≠ ' ')
    (hm : MRel s K.m₁ K.m₂) {ns₁ : List Node} (h : parseInline cfg K.c K.m₁ = .ok ns₁) :
    Sim s (LRel K s) ns₁ (parseInline cfg K.c K.m₂) := by
  unfold parseInline tokenize at h ⊢
  have rel0 : IRel K s (IState.init K.c K.m₁) (IState.init K.c K.m₂) :=
    IRel.of_eqs rfl rfl rfl rfl rfl rfl rfl rfl hm (by simp [IState.init]) ⟨rfl, rfl, rfl, Inline.trimSrc_le K.c⟩
  split at h
  · simp at h
  · next a' ha =>
    simp only [Except.ok.injEq] at h; subst h
    have hpm : (IState.init K.c K.m₂).posMax = (IState.init K.c K.m₁).posMax := rfl
    rcases ((sim_induction s cfg hmk _).2 _ _ _ _ rel0 ha).cases with ⟨b', e2, rel1⟩ | ⟨hs', e, e2⟩
    · rw [hpm, e2]; exact rel1.ch
    · rw [hpm, e2]; exact hs'

end MdIt.Inline.XT
