/-
  C05 for ALL sources, clause 2 (both range ends are character boundaries): transport through the
  three passes behind the block pass, on the full `Pipeline.Node` tree (the companion of
  Lemmas/C05InlineSplice.lean — geometry `NodeOrd` — and Lemmas/C05RestSplice.lean — `PreOk` /
  `PostOk` without split tabs).  `PostBd src n` reads the RANGE of `n` only, so neither the order
  of the siblings nor any gluing of neighbours is needed here.

    * `bs_ofInline_every`        `BdN` on the inline parser's nodes becomes `Every (PostBd src)` on
                                 the document's nodes (`ofInline` keeps every range)
    * `bs_spliceNode_bd` / `bs_spliceList_bd`   the splice walk: block nodes have their boundaries
                                 from `RangedB.at`, the nodes a placeholder is replaced by from the
                                 third component of `PInlB`
    * `bs_merged_postBd`         the hull `(a1, b2)` of `(a1, b1)`, `(a2, b2)` has boundaries at both ends
      `bs_mergeLoop_bd` / `bs_fragmentsJoin_bd`   `fragments_join` keeps `Every (PostBd src)` (on
                                 every member, the emptied ones included)
      `bs_joinNode_every`        … and so does the join pass
    * `bs_sourceposNode_every`   … and the sourcepos pass (attributes only)
    * `afterBlocks_postBd`       the composition (the deliverable)
-/
import MdIt.Lemmas.C05TabsDefs2

namespace MdIt.Pipeline
open MdIt.C05T
open MdIt.C05R (Bdy)

/-! ## generalities -/

/-- `Every (PostBd src)` reads range and children only -/
theorem bs_every_congr {src : List Char} {n n' : Node} (hr : n'.range = n.range)
    (hc : n'.children = n.children) (h : Every (PostBd src) n) : Every (PostBd src) n' := by
  refine .mk _ ?_ (by rw [hc]; exact h.child)
  obtain ⟨a, b, h1, h2, h3⟩ := h.here
  exact ⟨a, b, by rw [hr]; exact h1, h2, h3⟩

/-! ## step 1: `ofInline` -/

mutual
/-- an inline node with boundaries everywhere is `PostBd` at every node of its image -/
theorem bs_ofInline_every {src : List Char} (n : Inline.Node) (h : BdN src n) :
    Every (PostBd src) (ofInline n) := by
  match n with
  | ⟨v, r, cs⟩ =>
    rw [BdN_eq] at h
    obtain ⟨⟨a, b, hr, ha, hb, _⟩, hcs⟩ := h
    simp only at hr hcs
    unfold ofInline
    exact .mk _ ⟨a, b, hr, ha, hb⟩ (bs_ofInlineList_every cs hcs)
theorem bs_ofInlineList_every {src : List Char} (ns : List Inline.Node) (h : BdL src ns) :
    ∀ c ∈ ofInlineList ns, Every (PostBd src) c := by
  match ns with
  | [] => simp [ofInlineList]
  | n :: r =>
    simp only [BdL] at h
    intro x hx
    simp only [ofInlineList, List.mem_cons] at hx
    rcases hx with rfl | hx
    · exact bs_ofInline_every n h.1
    · exact bs_ofInlineList_every r h.2 x hx
end

/-! ## step 2: the splice walk -/

mutual
/-- a walked block: its own range ends on boundaries (`RangedB`), below it everything is `PostBd` -/
theorem bs_spliceNode_bd {icfg : Inline.Cfg} {src : List Char} (b : Block.BNode) (t : Node)
    (hg : Block.RangedB (PInlB icfg src) src b) (hn : InlNoRange b) (a z : Nat)
    (hr : b.range = some (a, z)) (h : spliceNode icfg b = .ok t) : Every (PostBd src) t := by
  match b with
  | ⟨k, r, cs⟩ =>
    simp only [spliceNode] at h
    split at h
    · cases h
    · rename_i cs' hcs
      cases h
      obtain ⟨_, h2, h3, h4⟩ := hg.at a z hr
      have l1 := bs_spliceList_bd cs cs' a z h4 hg.child hn.child hcs
      exact .mk _ ⟨a, z, hr, (C05R.bdy_iff_bd _ _).mpr h2, (C05R.bdy_iff_bd _ _).mpr h3⟩ l1
/-- the children: every member of the output is `PostBd` at every node -/
theorem bs_spliceList_bd {icfg : Inline.Cfg} {src : List Char} (cs : List Block.BNode)
    (out : List Node) (lo hi : Nat) (ho : Block.OrderedB (PInlB icfg src) lo hi cs)
    (hg : ∀ c ∈ cs, Block.RangedB (PInlB icfg src) src c) (hn : ∀ c ∈ cs, InlNoRange c)
    (h : spliceList icfg cs = .ok out) : ∀ x ∈ out, Every (PostBd src) x := by
  match cs with
  | [] => simp [spliceList] at h; subst h; simp
  | c :: rest =>
    obtain ⟨a, b, hsp, h1, h2, h3⟩ := ho
    have hgr : ∀ x ∈ rest, Block.RangedB (PInlB icfg src) src x :=
      fun x hx => hg x (List.mem_cons_of_mem _ hx)
    have hnr : ∀ x ∈ rest, InlNoRange x := fun x hx => hn x (List.mem_cons_of_mem _ hx)
    simp only [spliceList] at h
    split at h
    · -- a placeholder: it has no range, its span is a stretch `PInlB` accepts
      rename_i content mapping hk
      split at h
      · cases h
      · rename_i ns hns
        split at h
        · cases h
        · rename_i rest' hrest
          cases h
          have i1 := bs_spliceList_bd rest rest' b hi h3 hgr hnr hrest
          have hnone : c.range = none := (hn c (by simp)).at content mapping hk
          unfold Block.SpanB at hsp
          rw [hnone] at hsp
          obtain ⟨c', m', hk', _, hp⟩ := hsp
          rw [hk] at hk'
          cases hk'
          obtain ⟨_, _, p3⟩ := hp ns hns
          intro x hx
          rcases List.mem_append.mp hx with hx | hx
          · exact bs_ofInlineList_every ns p3 x hx
          · exact i1 x hx
    · -- any other child: walked
      rename_i hk
      split at h
      · cases h
      · rename_i c' hc'
        split at h
        · cases h
        · rename_i rest' hrest
          cases h
          have i1 := bs_spliceList_bd rest rest' b hi h3 hgr hnr hrest
          have hrange := Block.spanB_kind hsp (fun c' m hc => hk c' m hc)
          have j2 := bs_spliceNode_bd c c' (hg c (by simp)) (hn c (by simp)) a b hrange hc'
          intro x hx
          rcases List.mem_cons.mp hx with rfl | hx
          · exact j2
          · exact i1 x hx
end

/-! ## step 3: the join pass -/

/-- the merged text takes the hull `(a1, b2)` of `(a1, b1)` and `(a2, b2)`: boundaries at both ends -/
theorem bs_merged_postBd {src : List Char} {cur nxt : Node} (hc : PostBd src cur)
    (hx : PostBd src nxt) : PostBd src (merged cur nxt) := by
  obtain ⟨a, b, q1, ha, _⟩ := hc
  obtain ⟨c, d, r1, _, hd⟩ := hx
  exact ⟨a, d, by simp [merged, q1, r1], ha, hd⟩

/-- … and it keeps `cur`'s children -/
theorem bs_merged_every {src : List Char} {cur nxt : Node} (hc : Every (PostBd src) cur)
    (hx : Every (PostBd src) nxt) : Every (PostBd src) (merged cur nxt) :=
  .mk _ (bs_merged_postBd hc.here hx.here) hc.child

/-- pass 2: every member of the output — the emptied ones included, which keep range and children
    until they are filtered — is `PostBd` at every node -/
theorem bs_mergeLoop_bd {src : List Char} (rest : List Node) : ∀ (cur : Node),
    (∀ x ∈ cur :: rest, Every (PostBd src) x) → ∀ x ∈ mergeLoop cur rest, Every (PostBd src) x := by
  induction rest with
  | nil =>
    intro cur he x hx
    simp only [mergeLoop, List.mem_singleton] at hx
    subst hx
    exact he _ (by simp)
  | cons nxt rest ih =>
    intro cur he x hx
    have hcur := he cur (by simp)
    have hnxt := he nxt (by simp)
    simp only [mergeLoop] at hx
    split at hx
    · rcases List.mem_cons.mp hx with rfl | hx
      · exact bs_every_congr (n := nxt) rfl rfl hnxt
      · refine ih (merged cur nxt) ?_ x hx
        intro y hy
        rcases List.mem_cons.mp hy with rfl | hy
        · exact bs_merged_every hcur hnxt
        · exact he y (by simp [hy])
    · rcases List.mem_cons.mp hx with rfl | hx
      · exact hcur
      · exact ih nxt (fun y hy => he y (List.mem_cons_of_mem _ hy)) x hx

/-- **`fragments_join` keeps the boundaries.** -/
theorem bs_fragmentsJoin_bd {src : List Char} {cs : List Node}
    (he : ∀ x ∈ cs, Every (PostBd src) x) : ∀ x ∈ fragmentsJoin cs, Every (PostBd src) x := by
  have he1 : ∀ x ∈ pass1 cs, Every (PostBd src) x := by
    intro x hx
    obtain ⟨c, hc, rfl⟩ := List.mem_map.mp hx
    exact bs_every_congr (c05s_markerToText_range c) (c05s_markerToText_children c) (he c hc)
  unfold fragmentsJoin
  cases hp : pass1 cs with
  | nil => simp [mergeAll]
  | cons c r =>
    rw [hp] at he1
    intro x hx
    exact bs_mergeLoop_bd r c he1 x (List.mem_filter.mp hx).1

theorem bs_joinNode_every_aux {src : List Char} (k : Nat) : ∀ n : Node, nsize n ≤ k →
    Every (PostBd src) n → Every (PostBd src) (joinNode n) := by
  induction k with
  | zero => intro n hn; rw [nsize_eq] at hn; omega
  | succ k ih =>
    intro n hn he
    have j2 := bs_fragmentsJoin_bd he.child
    rw [joinNode_eq, joinList_eq_map]
    refine .mk _ he.here ?_
    intro y hy
    simp only at hy
    obtain ⟨x, hx, rfl⟩ := List.mem_map.mp hy
    apply ih x ?_ (j2 x hx)
    have s1 := nsize_le_of_mem hx
    have s2 := nsizeList_fragmentsJoin_le n.children
    rw [nsize_eq] at hn
    omega

/-- **the join pass keeps the boundaries**, at every node of the document -/
theorem bs_joinNode_every {src : List Char} {n : Node} (he : Every (PostBd src) n) :
    Every (PostBd src) (joinNode n) :=
  bs_joinNode_every_aux _ n (Nat.le_refl _) he

/-! ## step 4: the sourcepos pass -/

mutual
theorem bs_sourceposNode_every {src0 src : List Char} {marks : List SourceMap.Mark} (t t' : Node)
    (he : Every (PostBd src0) t) (h : sourceposNode src marks t = .ok t') :
    Every (PostBd src0) t' := by
  match t with
  | ⟨k, r, at_, cs⟩ =>
    simp only [sourceposNode] at h
    split at h
    · cases h
    · split at h
      · cases h
      · rename_i cs' hcs
        cases h
        exact .mk _ he.here (bs_sourceposList_every cs cs' he.child hcs)
theorem bs_sourceposList_every {src0 src : List Char} {marks : List SourceMap.Mark}
    (cs cs' : List Node) (he : ∀ c ∈ cs, Every (PostBd src0) c)
    (h : sourceposList src marks cs = .ok cs') : ∀ c ∈ cs', Every (PostBd src0) c := by
  match cs with
  | [] => simp [sourceposList] at h; subst h; simp
  | c :: r =>
    simp only [sourceposList] at h
    split at h
    · cases h
    · rename_i c' hc
      split at h
      · cases h
      · rename_i r' hr
        cases h
        intro x hx
        rcases List.mem_cons.mp hx with rfl | hx
        · exact bs_sourceposNode_every c _ (he c (by simp)) hc
        · exact bs_sourceposList_every r r' (fun y hy => he y (List.mem_cons_of_mem _ hy)) hr x hx
end

/-! ## step 5: the composition -/

theorem bs_pinlB_pinl {icfg : Inline.Cfg} {src : List Char} {root : Block.BNode}
    (hg : Block.RangedB (PInlB icfg src) src root) : Block.RangedB (PInl icfg) src root :=
  hg.imp (fun _ _ _ _ _ h ns hns => ⟨(h ns hns).1, (h ns hns).2.1⟩)

/-- the boundary half of the deliverable -/
theorem bs_afterBlocks_bd {cfg : DocCfg} {src : List Char} {root : Block.BNode} {refs : Refs.RefMap}
    {t : Node} {a z : Nat} (hroot : root.range = some (a, z))
    (hg : Block.RangedB (PInlB (cfg.inlineCfg refs) src) src root) (hn : InlNoRange root)
    (h : afterBlocks cfg src root refs = .ok t) : Every (PostBd src) t := by
  unfold afterBlocks at h
  split at h
  · cases h
  · rename_i t0 hs
    have f0 := bs_spliceNode_bd root t0 hg hn a z hroot hs
    have h1 : Every (PostBd src) (if cfg.hasJoin = true then joinNode t0 else t0) := by
      split
      · exact bs_joinNode_every f0
      · exact f0
    simp only at h
    split at h
    · exact bs_sourceposNode_every _ _ h1 h
    · cases h; exact h1

/-- **`afterBlocks_postBd`.**  If the tree of the block pass is `RangedB` for the claim `PInlB` (every
    placeholder's inline run yields well-ranged nodes in order inside the placeholder's stretch,
    every one of them with both range ends on character boundaries of the document), then in the
    tree the core chain returns EVERY node has a range `(a, b)`, `a ≤ b ≤ |src|`, on character
    boundaries, its children's ranges inside in source order; the root keeps its range.  For ALL
    sources (nothing is assumed about the tables). -/
theorem afterBlocks_postBd {cfg : DocCfg} {src : List Char} {root : Block.BNode} {refs : Refs.RefMap}
    {t : Node} {a z : Nat} (hroot : root.range = some (a, z))
    (hg : Block.RangedB (C05T.PInlB (cfg.inlineCfg refs) src) src root) (hn : InlNoRange root)
    (h : afterBlocks cfg src root refs = .ok t) :
    t.range = some (a, z) ∧ Every (fun n => NodeOrd src n ∧ C05T.PostBd src n) t := by
  obtain ⟨r0, e0⟩ := afterBlocks_nodeOrd hroot (bs_pinlB_pinl hg) hn h
  exact ⟨r0, sp_every_and e0 (bs_afterBlocks_bd hroot hg hn h)⟩

/-! ## non-vacuity: the hypotheses of `afterBlocks_postBd` are satisfiable — on a SPLIT TAB -/

/-- the clauses of `BdN` about one value at the range `(a, b)`, as a test -/
def bs_valb (src : List Char) (a b : Nat) (v : Inline.Val) : Bool :=
  match InlineOps.slice src a b with
  | .error _ => false
  | .ok w =>
    match v with
    | .emphMarker mk _ rem _ _ => w == List.replicate rem mk && mk.utf8Size == 1
    | _ => true

mutual
/-- `BdN`, as a test -/
def bs_bdb (src : List Char) : Inline.Node → Bool
  | ⟨v, r, cs⟩ =>
    (match r with
     | some (a, b) => bs_valb src a b v
     | none => false) && bs_bdbList src cs
def bs_bdbList (src : List Char) : List Inline.Node → Bool
  | [] => true
  | c :: cs => bs_bdb src c && bs_bdbList src cs
end

theorem bs_valb_sound {src : List Char} {a b : Nat} {v : Inline.Val} (h : bs_valb src a b v = true) :
    Bdy src a ∧ Bdy src b ∧ (∀ mk l rem o c, v = .emphMarker mk l rem o c →
      C05R.Cut src a b (List.replicate rem mk) ∧ mk.utf8Size = 1) := by
  unfold bs_valb at h
  split at h
  · cases h
  · rename_i w hw
    have hc : C05R.Cut src a b w := (C05R.cut_iff_ops src a b w).mp hw
    refine ⟨hc.bdy_left, hc.bdy_right, ?_⟩
    rintro mk l rem o c rfl
    simp only [Bool.and_eq_true, beq_iff_eq] at h
    rw [← h.1]
    exact ⟨hc, h.2⟩

mutual
theorem bs_bdb_sound {src : List Char} (n : Inline.Node) (h : bs_bdb src n = true) : BdN src n := by
  match n with
  | ⟨v, r, cs⟩ =>
    simp only [bs_bdb, Bool.and_eq_true] at h
    obtain ⟨h1, h2⟩ := h
    simp only [BdN]
    refine ⟨?_, bs_bdbList_sound cs h2⟩
    split at h1
    · rename_i a b
      obtain ⟨v1, v2, v3⟩ := bs_valb_sound h1
      exact ⟨a, b, rfl, v1, v2, v3⟩
    · cases h1
theorem bs_bdbList_sound {src : List Char} (l : List Inline.Node) (h : bs_bdbList src l = true) :
    BdL src l := by
  match l with
  | [] => trivial
  | c :: cs =>
    simp only [bs_bdbList, Bool.and_eq_true] at h
    exact ⟨bs_bdb_sound c h.1, bs_bdbList_sound cs h.2⟩
end

/-- `PInlB` for one placeholder, by evaluation -/
theorem bs_pinlB_of_check {icfg : Inline.Cfg} {src c : List Char} {m : List (Nat × Nat)} {a b : Nat}
    (h : (match Inline.parseInline icfg c m with
          | .ok ns => c05s_ordNb b a ns && c05s_wrbList ns && bs_bdbList src ns
          | .error _ => true) = true) : PInlB icfg src c m a b := by
  intro ns hns
  rw [hns] at h
  simp only [Bool.and_eq_true] at h
  exact ⟨c05s_ordNb_sound ns a h.1.1, c05s_wrbList_sound ns h.1.2, bs_bdbList_sound ns h.2⟩

/-! ### the example: `"> a\n>\té*c"` (10 bytes: `é` has two).  The tab behind the second `>` stands at
    column 1 and is three columns wide; the quote marker takes one of them, the other two are
    VIRTUAL spaces of the paragraph's text `"a\n  é*c"`: the table `[(0, 2), (2, 6), (4, 6)]` has
    the virtual-space entry pair `(2, 6)`, `(4, 6)` (same source offset: the table is not `MapOK`).
    The inline run yields `Text "a"` `(2, 3)`, `Softbreak` `(3, 6)` — its end is the clamped translation
    of a position behind the virtual spaces —, `Text "é"` `(6, 8)`, the left-over `EmphMarker` `(8, 9)`,
    `Text "c"` `(9, 10)`; the join pass merges the last three into `Text "é*c"` `(6, 10)`.  Byte `7`
    (inside `é`) is not a boundary, so the boundary clause is not trivial here. -/

def bs_exSrc : List Char := ['>', ' ', 'a', '\n', '>', '\t', 'é', '*', 'c']
def bs_exTxt : List Char := ['a', '\n', ' ', ' ', 'é', '*', 'c']
def bs_exMap : List (Nat × Nat) := [(0, 2), (2, 6), (4, 6)]
def bs_exRoot : Block.BNode :=
  ⟨.root, some (0, 10), [⟨.blockquote, some (0, 10), [⟨.paragraph, some (2, 10),
    [⟨.inlineRoot bs_exTxt bs_exMap, none, []⟩]⟩]⟩]⟩

/-- … is what the block pass returns for it -/
example : (Block.parseBlocks (exCfg false 100).blockCfg bs_exSrc).toOption.map
      (fun x => c05s_flatB 0 x.1) = some (c05s_flatB 0 bs_exRoot) ∧
    (Block.parseBlocks (exCfg false 100).blockCfg bs_exSrc).toOption.map (fun x => x.2.isEmpty) =
      some true := by decide +kernel

theorem bs_exRoot_ranged :
    Block.RangedB (PInlB ((exCfg false 100).inlineCfg []) bs_exSrc) bs_exSrc bs_exRoot := by
  have hp : PInlB ((exCfg false 100).inlineCfg []) bs_exSrc bs_exTxt bs_exMap 2 10 :=
    bs_pinlB_of_check (by decide +kernel)
  have h0 : Block.Bd bs_exSrc 0 := c05s_bd_zero _
  have h2 : Block.Bd bs_exSrc 2 := ⟨['>', ' '], ['a', '\n', '>', '\t', 'é', '*', 'c'], rfl, by decide⟩
  have h10 : Block.Bd bs_exSrc 10 := c05s_bd_len bs_exSrc
  have hpar := Block.rangedB_text (P := PInlB ((exCfg false 100).inlineCfg []) bs_exSrc)
    (src := bs_exSrc) .paragraph (a := 2) (b := 10) (by omega) h2 h10 hp (Nat.le_refl _) (by omega)
    (Nat.le_refl _)
  have hbq : Block.RangedB (PInlB ((exCfg false 100).inlineCfg []) bs_exSrc) bs_exSrc
      ⟨.blockquote, some (0, 10), [⟨.paragraph, some (2, 10),
        [⟨.inlineRoot bs_exTxt bs_exMap, none, []⟩]⟩]⟩ := by
    refine .mk _ (fun a b h => ?_) (fun h => by cases h) ?_
    · cases h
      exact ⟨by omega, h0, h10, 2, 10, rfl, by omega, by omega, Nat.le_refl 10⟩
    · intro c hc
      simp only [List.mem_singleton] at hc
      subst hc
      exact hpar
  refine .mk _ (fun a b h => ?_) (fun h => by cases h) ?_
  · cases h
    exact ⟨by omega, h0, h10, 0, 10, rfl, Nat.le_refl _, by omega, Nat.le_refl 10⟩
  · intro c hc
    simp only [bs_exRoot, List.mem_singleton] at hc
    subst hc
    exact hbq

theorem bs_exRoot_noRange : InlNoRange bs_exRoot := by
  refine .mk _ (fun c m h => by cases h) ?_
  intro c hc
  simp only [bs_exRoot, List.mem_singleton] at hc
  subst hc
  refine .mk _ (fun c m h => by cases h) ?_
  intro c hc
  simp only [List.mem_singleton] at hc
  subst hc
  refine .mk _ (fun c m h => by cases h) ?_
  intro c hc
  simp only [List.mem_singleton] at hc
  subst hc
  exact .mk _ (fun _ _ _ => rfl) (by simp)

/-- all hypotheses of `afterBlocks_postBd` hold of the block tree of `"> a\n>\té*c"` -/
example : ∃ t, afterBlocks (exCfg false 100) bs_exSrc bs_exRoot [] = .ok t ∧
    t.range = some (0, 10) ∧ Every (fun n => NodeOrd bs_exSrc n ∧ PostBd bs_exSrc n) t := by
  have h : (afterBlocks (exCfg false 100) bs_exSrc bs_exRoot []).toOption.isSome = true := by
    decide +kernel
  cases hp : afterBlocks (exCfg false 100) bs_exSrc bs_exRoot [] with
  | error e => rw [hp] at h; cases h
  | ok t => exact ⟨t, rfl, afterBlocks_postBd rfl bs_exRoot_ranged bs_exRoot_noRange hp⟩

/-- the splice walk's output and the joined tree of the example -/
example : (spliceNode ((exCfg false 100).inlineCfg []) bs_exRoot).toOption.map (sp_flat 0) =
    some [(0, 0, 10, []), (1, 0, 10, []), (2, 2, 10, []), (3, 2, 3, ['a']), (3, 3, 6, []),
      (3, 6, 8, ['é']), (3, 8, 9, []), (3, 9, 10, ['c'])] := by decide +kernel

example : (afterBlocks (exCfg false 100) bs_exSrc bs_exRoot []).toOption.map (sp_flat 0) =
    some [(0, 0, 10, []), (1, 0, 10, []), (2, 2, 10, []), (3, 2, 3, ['a']), (3, 3, 6, []),
      (3, 6, 10, ['é', '*', 'c'])] := by decide +kernel

/-- the table of the example is NOT `MonoMap`, hence not `Inline.MapOK` (the tab-free development
    does not apply): its keys `2` and `4` carry the same source offset `6`, whereas `MonoMap` asks
    for `6 + (4 - 2) ≤ 6`; the clamped translation is constant on `[2, 4]` -/
example : ¬ C05.MonoMap bs_exMap ∧
    InlineOps.getSourcePosFor bs_exMap 2 = .ok 6 ∧ InlineOps.getSourcePosFor bs_exMap 3 = .ok 6 ∧
    InlineOps.getSourcePosFor bs_exMap 4 = .ok 6 ∧ InlineOps.getSourcePosFor bs_exMap 5 = .ok 7 := by
  refine ⟨fun h => absurd (h 1 2 6 4 6 rfl rfl) (by decide), ?_⟩
  decide +kernel

/-- **the third component of `PInlB` is needed**: over the source `"> a\n>\téé*"` (same length, same
    block ranges; the hand-made tree keeps the text `"a\n  é*c"`) the first two components of `PInlB`
    (order, well-rangedness) hold of the placeholder all the same, but byte `9` lies inside the
    second `é`: the `EmphMarker` `(8, 9)` / `Text "c"` `(9, 10)` do not end / begin on a boundary -/
def bs_badSrc : List Char := ['>', ' ', 'a', '\n', '>', '\t', 'é', 'é', '*']

example : PInl ((exCfg false 100).inlineCfg []) bs_exTxt bs_exMap 2 10 ∧
    (spliceNode ((exCfg false 100).inlineCfg []) bs_exRoot).toOption.map (sp_flat 0) =
      some [(0, 0, 10, []), (1, 0, 10, []), (2, 2, 10, []), (3, 2, 3, ['a']), (3, 3, 6, []),
        (3, 6, 8, ['é']), (3, 8, 9, []), (3, 9, 10, ['c'])] ∧
    ¬ Bdy bs_badSrc 9 := by
  refine ⟨c05s_pinl_of_check (by decide +kernel), by decide +kernel, ?_⟩
  intro h
  have := h.onBoundary
  revert this
  decide +kernel

end MdIt.Pipeline
