/-
  Helper development for `Props/MemoSafe.lean`, second part: L2 for `parse_link` inside a nested frame
  (`ParseLinkL2`, `Lemmas/MemoSafeLamNF.lean`), link rule (`[`).

  On the constant memo `m` of a nested frame, every label walk the real link rule performs has a
  verdict that lies inside the frame and is the verdict the witness recorded:
    * `just_unit_at_closer`, `just_at_bracket` — what the witness of an entry at `]` / `[` says;
    * `walk_below_bracket` (BR) — behind a `[` on the outer walk, the level-1 walk ends inside the frame;
    * `parseLinkL2_link`  — the statement for `offset = 0`, `en = false`.
-/
import MdIt.Lemmas.MemoSafeLamWalk

namespace MdIt.Inline
open MdIt.InlineOps (Srcmap getSourcePosFor getMap byteLen slice)

/-- at a one-byte character at which no rule of the chain fires, every rule declines in look-ahead mode -/
theorem chain_declines_nofire {cfg : Cfg}
    {skip tok : IState → Except Panic IState} (hq : CalmFn skip) (hs : SkipHypT skip) (fuel : Nat)
    {m : Char} (hsz : m.utf8Size = 1) (hfire : ∀ id ∈ cfg.chain, id.firesAt m = false)
    {rest : List Char} :
    ∀ (rules : List RuleId), (∀ id ∈ rules, id ∈ cfg.chain) →
      ∀ (st : IState), LInv st → st.window = .ok (m :: rest) →
      ∀ o st', firstRule (fun id s => silentBumped (runRule cfg skip tok fuel id) s) rules st
          = .ok (o, st') →
        o = none ∧ LInv st' ∧ st'.window = .ok (m :: rest) ∧ st'.pos = st.pos := by
  intro rules
  induction rules with
  | nil =>
    intro _ st hi hw o st' h
    simp only [firstRule, Except.ok.injEq, Prod.mk.injEq] at h
    obtain ⟨rfl, rfl⟩ := h
    exact ⟨rfl, hi, hw, rfl⟩
  | cons r rs ih =>
    intro hall st hi hw o st' h
    have hlt : st.pos < st.posMax := by
      obtain ⟨w, hw2, _, hlen⟩ := hi.window
      rw [hw] at hw2
      simp only [Except.ok.injEq] at hw2
      subst hw2
      simp only [byteLen] at hlen; omega
    -- the call of rule `r`
    have hr : ∀ o1 s1, silentBumped (runRule cfg skip tok fuel r) st = .ok (o1, s1) →
        o1 = none ∧ LInv s1 ∧ s1.window = .ok (m :: rest) ∧ s1.pos = st.pos := by
      intro o1 s1 hb
      have hiB : LInv { st with level := st.level + 1 } :=
        ⟨hi.le, hi.bpos, hi.bmax, hi.wf, hi.stop, hi.memo⟩
      have hwB : ({ st with level := st.level + 1 } : IState).window = .ok (m :: rest) := hw
      have hT := runRule_silent_T (cfg := cfg) (tok := tok) hq hs fuel r _ hiB hlt
      unfold silentBumped at hb
      split at hb
      · simp at hb
      · next r0 s0 he =>
        split at hb
        · simp at hb
        · simp only [Except.ok.injEq, Prod.mk.injEq] at hb
          obtain ⟨rfl, rfl⟩ := hb
          have hnone := silent_declines hwB (hfire r (hall r (by simp))) _ _ he
          obtain ⟨a, b, c, _⟩ := hT.ok _ _ he
          refine ⟨hnone, ⟨a.le, a.bpos, a.bmax, a.wf, a.stop, a.memo⟩, ?_, c⟩
          rw [← hw]
          exact window_congr b.src c b.posMax
    unfold firstRule at h
    split at h
    · simp at h
    · next n st1 he =>
      have := (hr _ _ he).1
      simp at this
    · next st1 he =>
      obtain ⟨_, hi1, hw1, hp1⟩ := hr _ _ he
      obtain ⟨a, b, c, d⟩ := ih (fun id hid => hall id (List.mem_cons_of_mem _ hid)) st1 hi1 hw1 o st' h
      exact ⟨a, b, c, by rw [d, hp1]⟩

/-- the look-ahead token at such a character is the single character -/
theorem skipStep_unit_nofire {cfg : Cfg}
    {skip tok : IState → Except Panic IState} (hq : CalmFn skip) (hs : SkipHypT skip) (fuel : Nat)
    (st : IState) (hi : LInv st) {m : Char} (hsz : m.utf8Size = 1)
    (hfire : ∀ id ∈ cfg.chain, id.firesAt m = false)
    {rest : List Char} (hw : st.window = .ok (m :: rest)) :
    ∀ st', skipStep cfg skip tok fuel st = .ok st' →
      st'.pos = st.pos + 1 ∧ st'.cache.lookup st.pos = some (st.pos + 1) := by
  intro st' h
  unfold skipStep at h
  simp only at h
  split at h
  · simp at h
  · next len st1 he =>
    have := (chain_declines_nofire hq hs fuel hsz hfire cfg.chain (fun _ h => h) st hi hw _ _ he).1
    simp at this
  · next st1 he =>
    obtain ⟨_, _, hw1, hp1⟩ :=
      chain_declines_nofire hq hs fuel hsz hfire cfg.chain (fun _ h => h) st hi hw _ _ he
    unfold firstChar at h
    rw [hw1] at h
    simp only [liftR] at h
    simp only [Except.ok.injEq] at h
    subst h
    simp only
    rw [hsz, hp1]
    exact ⟨rfl, lookup_cacheInsert_self _ _ _⟩


theorem firesAt_closer0 : True := trivial

theorem firesAt_closer (id : RuleId) : id.firesAt ']' = false := by
  cases id <;> first | rfl | decide

variable {cfg : Cfg} {B : List Char → CodePair.Cache → Prop} {src : List Char} {Mtop : Nat}

theorem window_of_slice {st : IState} {w : List Char} (h : slice st.src st.pos st.posMax = .ok w) :
    st.window = .ok w := by
  unfold IState.window; rw [h]; rfl

/-- the witness of an entry at a `]`: the single character -/
theorem just_unit_at_closer {m : List (Nat × Nat)} {k v : Nat} (h : Just cfg B src Mtop m k v)
    {rest : List Char} (hs : slice src k Mtop = .ok (']' :: rest)) : v = k + 1 := by
  obtain ⟨skip0, tok0, f0, st0, st0', a1, a2, _, a4, a5, a6, a7, _, _, _, a11, a12, _⟩ := h
  have hw : st0.window = .ok (']' :: rest) := window_of_slice (by rw [a5, a6, a7]; exact hs)
  have := (skipStep_unit_nofire (cfg := cfg) (tok := tok0) a1 a2 f0 st0 a4 (by decide)
    (fun id _ => firesAt_closer id) hw st0' a11).1
  omega

/-- the witness of an entry at a `[`: the single character, or a recorded label walk -/
theorem just_at_bracket {m : List (Nat × Nat)} {k v : Nat} (h : Just cfg B src Mtop m k v)
    {rest : List Char} (hs : slice src k Mtop = .ok ('[' :: rest)) :
    v = k + 1 ∨ ∃ lq N, k + 1 ≤ lq ∧ lq < v ∧
      pwalk src Mtop m false N 1 (k + 1) = .done (some true) lq := by
  obtain ⟨skip0, tok0, f0, st0, st0', a1, a2, a3, a4, a5, a6, a7, _, _, a10, a11, a12, a13⟩ := h
  have hw : st0.window = .ok ('[' :: rest) := window_of_slice (by rw [a5, a6, a7]; exact hs)
  obtain ⟨_, hr⟩ := skipStep_records_link (cfg := cfg) (tok := tok0) a1 a2 a3 f0 st0 a4 hw
    (by rw [a7]; exact a10) st0' a11
  rcases hr with hr | ⟨lq, h1, h2, h3⟩
  · left; omega
  · right
    refine ⟨lq, f0, by omega, by omega, ?_⟩
    have := h3 m a13
    rw [a5, a6, a7] at this
    exact this

/-- the fixed data give: the frame end lies strictly below the top `pos_max`, on a boundary -/
theorem cut_facts {le : Nat} {r : List Char} (h : slice src le Mtop = .ok (']' :: r)) :
    le + 1 ≤ Mtop ∧ Boundary src le :=
  ⟨(after_bracket h).1, (slice_boundaries h).1⟩

/-- a verdict that lies inside the frame `[·, le)` -/
def Inside (le : Nat) (r : Option Bool) (x : Nat) : Prop :=
  (r = some true ∧ x < le) ∨ (r = none ∧ x ≤ le)

/-- **BR**: behind a `[` that lies on the outer walk (inside the frame), the level-1 label walk — with
    either nesting flag — has a verdict inside the frame -/
theorem walk_below_bracket {m : List (Nat × Nat)} (hc : NCtx cfg B src Mtop m) {le q : Nat}
    {r : List Char} (hcut : slice src le Mtop = .ok (']' :: r))
    (ho : Outer src Mtop m le q 1) (hq : q < le) {rest : List Char}
    (hs : slice src q Mtop = .ok ('[' :: rest)) (en' : Bool) :
    ∃ N r' x', pwalk src Mtop m en' N 1 (q + 1) = .done r' x' ∧ Inside le r' x' := by
  have hf : ∀ k v, (k, v) ∈ m → k < v := fun k v h => (hc.memo k v h).1
  obtain ⟨ch, rest', v, h1, h2, h3, h4, h5, h6⟩ := outer_step hf ho hq
  rw [hs] at h1
  simp only [Except.ok.injEq, List.cons.injEq] at h1
  obtain ⟨rfl, _⟩ := h1
  have hle := (cut_facts hcut).1
  rcases hc.just q v (lookup_mem h2) with hv | hj
  · omega
  · rcases just_at_bracket hj hs with hv | ⟨lq, N, g1, g2, g3⟩
    · obtain ⟨en, N, l, hl, hw⟩ := h6 rfl hv
      rw [hv] at hw
      obtain ⟨r', x', a, b⟩ := pwalk_below hf en en' N l 1 (q + 1) le (by omega) (by omega) hw
      exact ⟨N, r', x', a, b⟩
    · cases en' with
      | false => exact ⟨N, _, _, g3, .inl ⟨rfl, by omega⟩⟩
      | true => exact ⟨N, _, _, pwalk_en _ _ _ _ g3, .inl ⟨rfl, by omega⟩⟩

/-- what `parse_link_label` records, whatever its verdict -/
theorem parseLinkLabel_records_all {skip : IState → Except Panic IState} (hq : CalmFn skip)
    (hs : SkipHypT skip) (hg : SkipGrowHyp skip) (en : Bool) (fuel : Nat) (st : IState)
    (start : Nat) (hi : LInv st) (hb : Boundary st.src (start + 1)) (hle : start + 1 ≤ st.posMax) :
    ∀ o st', parseLinkLabel skip fuel st start en = .ok (o, st') →
      ∃ r x, o = (if r = some true then some x else none) ∧
        ∀ c', LookupMono st'.cache c' →
          pwalk st.src st.posMax c' en fuel 1 (start + 1) = .done r x := by
  have hi0 : LInv { st with pos := start + 1 } :=
    ⟨hle, hb, hi.bmax, hi.wf, hi.stop, hi.memo⟩
  have hl := labelLoop_records hq hs hg.toRec en fuel 1 { st with pos := start + 1 } hi0
  intro o st' h
  unfold parseLinkLabel at h
  simp only at h
  split at h
  · simp at h
  · next st1 he =>
    simp only [Except.ok.injEq, Prod.mk.injEq] at h
    obtain ⟨rfl, rfl⟩ := h
    obtain ⟨_, hw⟩ := hl _ _ he
    exact ⟨none, st1.pos, by simp, hw⟩
  · next found st1 he =>
    simp only [Except.ok.injEq, Prod.mk.injEq] at h
    obtain ⟨rfl, rfl⟩ := h
    obtain ⟨_, hw⟩ := hl _ _ he
    refine ⟨some found, st1.pos, ?_, hw⟩
    cases found <;> simp

/-! ## a normal form of `parse_link`'s reference part -/

/-- the optional second label of the reference form -/
def refSecond (skip : IState → Except Panic IState) (fuel : Nat) (st : IState) (labelEnd : Nat)
    (w : List Char) : Except Panic (Option (List Char) × Nat × IState) :=
  match w with
  | '[' :: _ =>
    match parseLinkLabel skip fuel st (labelEnd + 1) false with
    | .error e => .error e
    | .ok (some x, st') =>
      match liftR (liftOps (slice st.src (labelEnd + 1 + 1) x)) with
      | .error e => .error e
      | .ok l => .ok (some l, x + 1, st')
    | .ok (none, st') => .ok (none, labelEnd + 1, st')
  | _ => .ok (none, labelEnd + 1, st)

/-- the lookup behind the labels: a function of the text alone -/
def refFinish (cfg : Cfg) (src : List Char) (labelStart labelEnd : Nat) (maybeLabel : Option (List Char))
    (pos : Nat) : Except Panic (Option LinkRes) :=
  match cfg.refs with
  | none => .ok none
  | some refs =>
    let labelE : Except Panic (List Char) :=
      match maybeLabel with
      | none => liftR (liftOps (slice src labelStart labelEnd))
      | some [] => liftR (liftOps (slice src labelStart labelEnd))
      | some l => .ok l
    match labelE with
    | .error e => .error e
    | .ok label =>
      match Refs.lookup cfg.normRef refs (label.map Char.toNat) with
      | none => .ok none
      | some r =>
        .ok (some { labelStart := labelStart, labelEnd := labelEnd, href := some r.dest,
                    title := r.title.map (fun t => t.map Char.ofNat), endPos := pos })

set_option linter.unusedSimpArgs false in
theorem parseLinkRef_nf (cfg : Cfg) (skip : IState → Except Panic IState) (fuel : Nat) (st : IState)
    (labelStart labelEnd : Nat) :
    parseLinkRef cfg skip fuel st labelStart labelEnd =
      match liftR (liftOps (slice st.src (labelEnd + 1) st.posMax)) with
      | .error e => .error e
      | .ok w =>
        match refSecond skip fuel st labelEnd w with
        | .error e => .error e
        | .ok (ml, pos, st') =>
          match refFinish cfg st.src labelStart labelEnd ml pos with
          | .error e => .error e
          | .ok o => .ok (o, st') := by
  unfold parseLinkRef refSecond refFinish
  cases liftR (liftOps (slice st.src (labelEnd + 1) st.posMax)) with
  | error e => rfl
  | ok w =>
    simp only
    rcases w with _ | ⟨c, tl⟩
    · simp only
      cases cfg.refs with
      | none => rfl
      | some refs =>
        simp only
        cases liftR (liftOps (slice st.src labelStart labelEnd)) with
        | error e => rfl
        | ok label =>
          simp only
          cases Refs.lookup cfg.normRef refs (label.map Char.toNat) <;> rfl
    · by_cases hc : c = '['
      · subst hc
        simp only
        cases parseLinkLabel skip fuel st (labelEnd + 1) false with
        | error e => rfl
        | ok t =>
          obtain ⟨o, st'⟩ := t
          cases o with
          | none =>
            simp only
            cases cfg.refs with
            | none => rfl
            | some refs =>
              simp only
              cases liftR (liftOps (slice st.src labelStart labelEnd)) with
              | error e => rfl
              | ok label =>
                simp only
                cases Refs.lookup cfg.normRef refs (label.map Char.toNat) <;> rfl
          | some x =>
            simp only
            cases liftR (liftOps (slice st.src (labelEnd + 1 + 1) x)) with
            | error e => rfl
            | ok l =>
              simp only
              cases cfg.refs with
              | none => rfl
              | some refs =>
                simp only
                cases l with
                | nil =>
                  simp only
                  cases liftR (liftOps (slice st.src labelStart labelEnd)) with
                  | error e => rfl
                  | ok label =>
                    simp only
                    cases Refs.lookup cfg.normRef refs (label.map Char.toNat) <;> rfl
                | cons a l' =>
                  simp only
                  cases Refs.lookup cfg.normRef refs ((a :: l').map Char.toNat) <;> rfl
      · have hne : ∀ t, c :: tl ≠ '[' :: t := by
          intro t h; simp only [List.cons.injEq] at h; exact hc h.1
        simp only [hne, List.cons.injEq, hc, false_and, imp_self, implies_true]
        cases cfg.refs with
        | none => rfl
        | some refs =>
          simp only
          cases liftR (liftOps (slice st.src labelStart labelEnd)) with
          | error e => rfl
          | ok label =>
            simp only
            cases Refs.lookup cfg.normRef refs (label.map Char.toNat) <;> rfl

/-! ## what the witness's `parse_link` did, read off the memo -/

/-- the tail `(dest "title")` as the model calls it -/
abbrev tailOf (cfg : Cfg) (src : List Char) (a M : Nat) :=
  Link.parseInlineTail (Entity.unescapeAll cfg.entity) src a M

/-- **witness summary**: a completed `parse_link` (look-ahead, callee meeting the contracts), in terms
    of memo walks over any extension `m` of the memo it returned -/
theorem witness_summary {skip0 : IState → Except Panic IState} (hq : CalmFn skip0)
    (hs : SkipHypT skip0) (hg : SkipGrowHyp skip0) (f0 : Nat) (w : IState) (pos : Nat) (en : Bool)
    (hi : LInv w) (hb : Boundary w.src (pos + 1)) (hle : pos + 1 ≤ w.posMax)
    {r0 : Option LinkRes} {w1 : IState} (h : parseLink cfg skip0 f0 w pos en = .ok (r0, w1))
    {m : List (Nat × Nat)} (hm : LookupMono w1.cache m) :
    ∃ r1 x1, pwalk w.src w.posMax m en f0 1 (pos + 1) = .done r1 x1 ∧
      ((r1 ≠ some true ∧ r0 = none) ∨
       (r1 = some true ∧ ∃ il, tailOf cfg w.src (x1 + 1) w.posMax = .ok (some il) ∧
          r0 = some ⟨pos + 1, x1, il.href, il.title, il.endPos⟩) ∨
       (r1 = some true ∧ tailOf cfg w.src (x1 + 1) w.posMax = .ok none ∧
          ∃ w0, slice w.src (x1 + 1) w.posMax = .ok w0 ∧
            (((∀ t, w0 ≠ '[' :: t) ∧ refFinish cfg w.src (pos + 1) x1 none (x1 + 1) = .ok r0) ∨
             ((∃ t, w0 = '[' :: t) ∧ ∃ r2 x2,
                pwalk w.src w.posMax m false f0 1 (x1 + 1 + 1) = .done r2 x2 ∧
                ((r2 = some true ∧ ∃ l, slice w.src (x1 + 1 + 1) x2 = .ok l ∧
                    refFinish cfg w.src (pos + 1) x1 (some l) (x2 + 1) = .ok r0) ∨
                 (r2 ≠ some true ∧ refFinish cfg w.src (pos + 1) x1 none (x1 + 1) = .ok r0)))))) := by
  have hlabT := parseLinkLabel_T hq hs en f0 w pos hi hb hle
  have hrec := parseLinkLabel_records_all hq hs hg en f0 w pos hi hb hle
  unfold parseLink at h
  cases hpl : parseLinkLabel skip0 f0 w pos en with
  | error e => rw [hpl] at h; simp at h
  | ok t =>
    obtain ⟨lab0, wA⟩ := t
    rw [hpl] at h
    obtain ⟨r1, x1, hlab, hw1⟩ := hrec _ _ hpl
    obtain ⟨hiA, hcA, hpA, hx⟩ := hlabT.2 _ _ hpl
    cases lab0 with
    | none =>
      simp only [Except.ok.injEq, Prod.mk.injEq] at h
      obtain ⟨rfl, rfl⟩ := h
      refine ⟨r1, x1, hw1 m hm, .inl ⟨?_, rfl⟩⟩
      intro hr; rw [hr] at hlab; simp at hlab
    | some lq =>
      have hr1 : r1 = some true ∧ x1 = lq := by
        by_cases hr : r1 = some true
        · rw [if_pos hr] at hlab
          simp only [Option.some.injEq] at hlab
          exact ⟨hr, hlab.symm⟩
        · rw [if_neg hr] at hlab; simp at hlab
      obtain ⟨hr1, rfl⟩ := hr1
      obtain ⟨hx1, rx, hrx⟩ := hx x1 rfl
      simp only at h
      rw [hcA.src, hcA.posMax] at h
      cases htl : tailOf cfg w.src (x1 + 1) w.posMax with
      | error e => rw [show Link.parseInlineTail (Entity.unescapeAll cfg.entity) w.src (x1 + 1) w.posMax
            = tailOf cfg w.src (x1 + 1) w.posMax from rfl, htl] at h; simp at h
      | ok t =>
        rw [show Link.parseInlineTail (Entity.unescapeAll cfg.entity) w.src (x1 + 1) w.posMax
            = tailOf cfg w.src (x1 + 1) w.posMax from rfl, htl] at h
        cases t with
        | some il =>
          simp only [Except.ok.injEq, Prod.mk.injEq] at h
          obtain ⟨rfl, rfl⟩ := h
          exact ⟨_, x1, hw1 m hm, .inr (.inl ⟨hr1, il, htl, rfl⟩)⟩
        | none =>
          simp only at h
          -- the reference part
          have hend : ∃ r, slice wA.src x1 wA.posMax = .ok (']' :: r) := by
            rw [hcA.src, hcA.posMax]; exact ⟨rx, hrx⟩
          have hgrow := parseLinkRef_grow (cfg := cfg) hq hs hg f0 wA (pos + 1) x1 hiA hend _ _ h
          have hmA : LookupMono wA.cache m := hgrow.mono.trans hm
          refine ⟨_, x1, hw1 m hmA, .inr (.inr ⟨hr1, htl, ?_⟩)⟩
          rw [parseLinkRef_nf] at h
          rw [hcA.src, hcA.posMax] at h
          cases hsl : slice w.src (x1 + 1) w.posMax with
          | error e => rw [hsl] at h; simp [liftOps, liftR] at h
          | ok w0 =>
            rw [hsl] at h
            simp only [liftOps, liftR] at h
            refine ⟨w0, rfl, ?_⟩
            by_cases hbr : ∃ t, w0 = '[' :: t
            · right
              refine ⟨hbr, ?_⟩
              obtain ⟨t, rfl⟩ := hbr
              simp only [refSecond] at h
              obtain ⟨hle1, hb1⟩ := after_bracket hrx
              -- the second label
              have hb2 : Boundary wA.src (x1 + 1 + 1) ∧ x1 + 1 + 1 ≤ wA.posMax := by
                rw [hcA.src, hcA.posMax]
                have e1 : ('[' : Char).utf8Size = 1 := by decide
                constructor
                · have := boundary_in_slice (u := ['[']) (v := t) hsl
                  simpa [byteLen, e1] using this
                · have := (slice_boundaries hsl).2.2
                  simp only [byteLen, e1] at this; omega
              have hrec2 := parseLinkLabel_records_all hq hs hg false f0 wA (x1 + 1) hiA hb2.1 hb2.2
              cases hp2 : parseLinkLabel skip0 f0 wA (x1 + 1) false with
              | error e => rw [hp2] at h; simp at h
              | ok t2 =>
                obtain ⟨lab2, wB⟩ := t2
                rw [hp2] at h
                obtain ⟨r2, x2, hlab2, hw2⟩ := hrec2 _ _ hp2
                rw [hcA.src, hcA.posMax] at hw2
                cases lab2 with
                | none =>
                  simp only at h
                  cases hfin : refFinish cfg w.src (pos + 1) x1 none (x1 + 1) with
                  | error e => rw [hfin] at h; simp at h
                  | ok o =>
                    rw [hfin] at h
                    simp only [Except.ok.injEq, Prod.mk.injEq] at h
                    obtain ⟨rfl, rfl⟩ := h
                    refine ⟨r2, x2, hw2 m hm, .inr ⟨?_, rfl⟩⟩
                    intro hr; rw [hr] at hlab2; simp at hlab2
                | some xx =>
                  have hr2 : r2 = some true ∧ x2 = xx := by
                    by_cases hr : r2 = some true
                    · rw [if_pos hr] at hlab2
                      simp only [Option.some.injEq] at hlab2
                      exact ⟨hr, hlab2.symm⟩
                    · rw [if_neg hr] at hlab2; simp at hlab2
                  obtain ⟨hr2, rfl⟩ := hr2
                  simp only at h
                  rw [hcA.src] at h
                  cases hl : slice w.src (x1 + 1 + 1) x2 with
                  | error e => rw [hl] at h; simp [liftOps, liftR] at h
                  | ok l =>
                    rw [hl] at h
                    simp only [liftOps, liftR] at h
                    cases hfin : refFinish cfg w.src (pos + 1) x1 (some l) (x2 + 1) with
                    | error e => rw [hfin] at h; simp at h
                    | ok o =>
                      rw [hfin] at h
                      simp only [Except.ok.injEq, Prod.mk.injEq] at h
                      obtain ⟨rfl, rfl⟩ := h
                      exact ⟨_, x2, hw2 m hm, .inl ⟨hr2, l, hl, hfin⟩⟩
            · left
              have hne : ∀ t, w0 ≠ '[' :: t := fun t ht => hbr ⟨t, ht⟩
              refine ⟨hne, ?_⟩
              have hsec : refSecond skip0 f0 wA x1 w0 = .ok (none, x1 + 1, wA) := by
                unfold refSecond
                split
                · exact absurd rfl (hne _)
                · rfl
              rw [hsec] at h
              simp only at h
              cases hfin : refFinish cfg w.src (pos + 1) x1 none (x1 + 1) with
              | error e => rw [hfin] at h; simp at h
              | ok o =>
                rw [hfin] at h
                simp only [Except.ok.injEq, Prod.mk.injEq] at h
                rw [h.1]

/-! ## `parse_link` over memo hits, as a function of the memo -/

/-- the second label, read off the memo -/
def refSecondP (s : IState) (n : Nat) (labelEnd : Nat) (w : List Char) :
    Except Panic (Option (List Char) × Nat × IState) :=
  match w with
  | '[' :: _ =>
    match labelOf (pwalk s.src s.posMax s.cache false n 1 (labelEnd + 1 + 1)) with
    | .error e => .error e
    | .ok (some x) =>
      match liftR (liftOps (slice s.src (labelEnd + 1 + 1) x)) with
      | .error e => .error e
      | .ok l => .ok (some l, x + 1, s)
    | .ok none => .ok (none, labelEnd + 1, s)
  | _ => .ok (none, labelEnd + 1, s)

theorem refSecond_hits {skip : IState → Except Panic IState} (hs : FollowsHits skip) (s : IState)
    (n labelEnd : Nat) (w : List Char)
    (h2 : ∀ t, w = '[' :: t → ∃ N r x,
      pwalk s.src s.posMax s.cache false N 1 (labelEnd + 1 + 1) = .done r x) :
    refSecond skip n s labelEnd w = refSecondP s n labelEnd w := by
  unfold refSecond refSecondP
  rcases w with _ | ⟨c, tl⟩
  · rfl
  · by_cases hc : c = '['
    · subst hc
      obtain ⟨N, r, x, hw⟩ := h2 tl rfl
      simp only
      rw [parseLinkLabel_hits hs s (labelEnd + 1) false n hw]
      cases labelOf (pwalk s.src s.posMax s.cache false n 1 (labelEnd + 1 + 1)) with
      | error e => rfl
      | ok o => cases o <;> rfl
    · have e1 : ∀ (α : Type) (a b : α), (match c :: tl with | '[' :: _ => a | _ => b) = b := by
        intro α a b
        split
        · next h => simp only [List.cons.injEq] at h; exact absurd h.1 hc
        · rfl
      split
      · next h => simp only [List.cons.injEq] at h; exact absurd h.1 hc
      · rfl

/-- `parse_link`, read off the memo -/
def parseLinkP (cfg : Cfg) (n : Nat) (s : IState) (pos : Nat) (en : Bool) :
    Except Panic (Option LinkRes × IState) :=
  match labelOf (pwalk s.src s.posMax s.cache en n 1 (pos + 1)) with
  | .error e => .error e
  | .ok none => .ok (none, s)
  | .ok (some lq) =>
    match tailOf cfg s.src (lq + 1) s.posMax with
    | .error e => .error (.rust (RPanic.ofLink e))
    | .ok (some il) => .ok (some ⟨pos + 1, lq, il.href, il.title, il.endPos⟩, s)
    | .ok none =>
      match liftR (liftOps (slice s.src (lq + 1) s.posMax)) with
      | .error e => .error e
      | .ok w =>
        match refSecondP s n lq w with
        | .error e => .error e
        | .ok (ml, p, st') =>
          match refFinish cfg s.src (pos + 1) lq ml p with
          | .error e => .error e
          | .ok o => .ok (o, st')

theorem parseLink_hits {skip : IState → Except Panic IState} (hs : FollowsHits skip) (s : IState)
    (pos : Nat) (en : Bool) (n : Nat) {N1 : Nat} {r1 : Option Bool} {x1 : Nat}
    (h1 : pwalk s.src s.posMax s.cache en N1 1 (pos + 1) = .done r1 x1)
    (h2 : ∀ lq t, slice s.src (lq + 1) s.posMax = .ok ('[' :: t) →
      labelOf (pwalk s.src s.posMax s.cache en n 1 (pos + 1)) = .ok (some lq) →
      tailOf cfg s.src (lq + 1) s.posMax = .ok none →
      ∃ N r x, pwalk s.src s.posMax s.cache false N 1 (lq + 1 + 1) = .done r x) :
    parseLink cfg skip n s pos en = parseLinkP cfg n s pos en := by
  unfold parseLink parseLinkP
  rw [parseLinkLabel_hits hs s pos en n h1]
  cases hlab : labelOf (pwalk s.src s.posMax s.cache en n 1 (pos + 1)) with
  | error e => rfl
  | ok o =>
    cases o with
    | none => rfl
    | some lq =>
      simp only
      rw [show Link.parseInlineTail (Entity.unescapeAll cfg.entity) s.src (lq + 1) s.posMax
        = tailOf cfg s.src (lq + 1) s.posMax from rfl]
      cases htl : tailOf cfg s.src (lq + 1) s.posMax with
      | error e => rfl
      | ok t =>
        cases t with
        | some il => rfl
        | none =>
          simp only
          rw [parseLinkRef_nf]
          cases hsl : slice s.src (lq + 1) s.posMax with
          | error e => rfl
          | ok w =>
            simp only [liftOps, liftR]
            rw [refSecond_hits hs s n lq w (fun t ht => h2 lq t (by rw [hsl, ht]) hlab htl)]

theorem refSecondP_state {s : IState} {n labelEnd : Nat} {w : List Char} {ml : Option (List Char)}
    {p : Nat} {st' : IState} (h : refSecondP s n labelEnd w = .ok (ml, p, st')) : st' = s := by
  unfold refSecondP at h
  split at h
  · split at h
    · simp at h
    · split at h
      · simp at h
      · simp only [Except.ok.injEq, Prod.mk.injEq] at h; exact h.2.2.symm
    · simp only [Except.ok.injEq, Prod.mk.injEq] at h; exact h.2.2.symm
  · simp only [Except.ok.injEq, Prod.mk.injEq] at h; exact h.2.2.symm

theorem parseLinkP_state {n : Nat} {s : IState} {pos : Nat} {en : Bool} {r : Option LinkRes}
    {s' : IState} (h : parseLinkP cfg n s pos en = .ok (r, s')) : s' = s := by
  unfold parseLinkP at h
  split at h
  · simp at h
  · simp only [Except.ok.injEq, Prod.mk.injEq] at h; exact h.2.symm
  · split at h
    · simp at h
    · simp only [Except.ok.injEq, Prod.mk.injEq] at h; exact h.2.symm
    · split at h
      · simp at h
      · split at h
        · simp at h
        · next hsec =>
          split at h
          · simp at h
          · simp only [Except.ok.injEq, Prod.mk.injEq] at h
            rw [← h.2]; exact refSecondP_state hsec

/-- the first character behind a position, seen through the frame window and through the top window -/
theorem head_rel {le a : Nat} {rc wr w0 : List Char} (hcut : slice src le Mtop = .ok (']' :: rc))
    (ha : a ≤ le) (hsmall : slice src a le = .ok wr) (hbig : slice src a Mtop = .ok w0) :
    (∃ t, wr = '[' :: t) ↔ (∃ t, w0 = '[' :: t) := by
  obtain ⟨hleM, hble⟩ := cut_facts hcut
  by_cases hal : a = le
  · subst hal
    rw [hcut] at hbig
    simp only [Except.ok.injEq] at hbig
    subst hbig
    have hl := (slice_boundaries hsmall).2.2
    have : wr = [] := byteLen_eq_zero (by omega)
    subst this
    constructor
    · rintro ⟨t, ht⟩; cases ht
    · rintro ⟨t, ht⟩; simp at ht
  · cases w0 with
    | nil =>
      have hl := (slice_boundaries hbig).2.2
      simp only [byteLen] at hl; omega
    | cons c r0 =>
      obtain ⟨r', hr'⟩ := slice_head_shrink hbig hble (by omega) (by omega)
      rw [hr'] at hsmall
      simp only [Except.ok.injEq] at hsmall
      subst hsmall
      constructor
      · rintro ⟨t, ht⟩; simp only [List.cons.injEq] at ht; exact ⟨r0, by rw [ht.1]⟩
      · rintro ⟨t, ht⟩; simp only [List.cons.injEq] at ht; exact ⟨r', by rw [ht.1]⟩

theorem labelOf_some {pw : PW} {lq : Nat} (h : labelOf pw = .ok (some lq)) :
    pw = .done (some true) lq := by
  cases pw with
  | done r x =>
    simp only [labelOf, Except.ok.injEq] at h
    by_cases hr : r = some true
    · rw [if_pos hr] at h; simp only [Option.some.injEq] at h; rw [hr, h]
    · rw [if_neg hr] at h; cases h
  | miss p => simp [labelOf] at h
  | beyond p y => simp [labelOf] at h
  | stuck => simp [labelOf] at h

theorem labelOf_none {pw : PW} (h : labelOf pw = .ok none) :
    ∃ r x, pw = .done r x ∧ r ≠ some true := by
  cases pw with
  | done r x =>
    simp only [labelOf, Except.ok.injEq] at h
    by_cases hr : r = some true
    · rw [if_pos hr] at h; cases h
    · exact ⟨r, x, rfl, hr⟩
  | miss p => simp [labelOf] at h
  | beyond p y => simp [labelOf] at h
  | stuck => simp [labelOf] at h

/-! ## L2 for `parse_link`, link rule -/

set_option maxHeartbeats 400000 in
/-- **`ParseLinkL2`, the link rule** (`offset = 0`, `en = false`) -/
theorem parseLinkL2_link (skip0 : IState → Except Panic IState) (f0 : Nat) (w w1 : IState)
    (r0 : Option LinkRes) (s : IState) (v : Nat)
    (hq : CalmFn skip0) (hs : SkipHypT skip0) (hg : SkipGrowHyp skip0)
    (hiw : LInv w) (hwsrc : w.src = src) (hwmax : w.posMax = Mtop) (hwpos : w.pos = s.pos)
    (hwit : parseLink cfg skip0 f0 w (w.pos + 0) false = .ok (r0, w1))
    (hmono : LookupMono w1.cache s.cache)
    (hnf : NF cfg B src Mtop s) (hlt : s.pos < s.posMax)
    (hlk : s.cache.lookup s.pos = some v) (hv : v ≤ s.posMax)
    (hhead : ∃ rest, slice src s.pos Mtop = .ok ('[' :: rest))
    (hnone : r0 = none → v = s.pos + 1) (hsome : ∀ res, r0 = some res → v = res.endPos) (n : Nat) :
    ∃ R : Except Panic (Option LinkRes),
      (∀ skip, FollowsHits skip →
        parseLink cfg skip n s (s.pos + 0) false =
          match R with
          | .ok r => .ok (r, s)
          | .error e => .error e) ∧
      (∀ r, R = .ok r → r = r0) := by
  obtain ⟨rest, hhead⟩ := hhead
  obtain ⟨rc, hcut⟩ := hnf.cut
  obtain ⟨hleM, hble⟩ := cut_facts hcut
  have hctx := hnf.ctx
  have hf : ∀ k v, (k, v) ∈ s.cache → k < v := fun k v h => (hctx.memo k v h).1
  have hsrc := hnf.hsrc
  have e1 : ('[' : Char).utf8Size = 1 := by decide
  have hb1 : Boundary src (s.pos + 1) := by
    have := boundary_in_slice (u := ['[']) (v := rest) hhead
    simpa [byteLen, e1] using this
  simp only [Nat.add_zero] at hwit ⊢
  rw [hwpos] at hwit
  -- the witness, on the memo of `s`
  obtain ⟨r1, x1, hw1, hWS⟩ := witness_summary (cfg := cfg) hq hs hg f0 w s.pos false hiw
    (by rw [hwsrc]; exact hb1) (by rw [hwmax]; omega) hwit hmono
  rw [hwsrc, hwmax] at hw1 hWS
  -- the first label: inside the frame
  obtain ⟨N1, r1', x1', hV1, hin1⟩ := walk_below_bracket hctx hcut hnf.outer hlt hhead false
  obtain ⟨rfl, rfl⟩ := pwalk_det hf hV1 hw1
  have h1le : pwalk src s.posMax s.cache false f0 1 (s.pos + 1) = .done r1' x1' :=
    pwalk_shrink hf hble (by omega) false _ _ _ _ _ hw1 hin1
  -- the outer walk behind `s.pos`
  obtain ⟨ch, rest', v', g1, g2, g3, g4, g5, g6⟩ := outer_step hf hnf.outer hlt
  rw [hhead] at g1
  simp only [Except.ok.injEq, List.cons.injEq] at g1
  obtain ⟨rfl, _⟩ := g1
  rw [hlk] at g2
  simp only [Option.some.injEq] at g2
  subst g2
  -- the second label: inside the frame, whenever the real rule gets there
  have hV2 : r1' = some true → ∀ t, slice src (x1' + 1) s.posMax = .ok ('[' :: t) →
      tailOf cfg src (x1' + 1) s.posMax = .ok none →
      ∃ N r2 x2, pwalk src Mtop s.cache false N 1 (x1' + 1 + 1) = .done r2 x2 ∧
        Inside s.posMax r2 x2 := by
    intro hr1 t hsm htl
    have hx1 : x1' < s.posMax := by
      rcases hin1 with ⟨_, h⟩ | ⟨h, _⟩
      · exact h
      · rw [hr1] at h; cases h
    -- the `]` at x1' and the `[` behind it, in the top window
    obtain ⟨rx, hrx⟩ := pwalk_found false _ _ _ _ (hr1 ▸ hw1)
    obtain ⟨hx1M, hbx1⟩ := after_bracket hrx
    have hlt2 : x1' + 1 < s.posMax := by
      have := (slice_boundaries hsm).2.2
      simp only [byteLen, e1] at this; omega
    obtain ⟨w0, hw0⟩ := slice_ok_of hbx1 hctx.bmax (by omega : x1' + 1 ≤ Mtop)
    obtain ⟨t0, rfl⟩ := (head_rel hcut (by omega) hsm hw0).mp ⟨t, rfl⟩
    -- `x1' + 1` lies on the outer walk (then BR), or the verdict is known directly
    have hBR : Outer src Mtop s.cache s.posMax (x1' + 1) 1 →
        ∃ N r2 x2, pwalk src Mtop s.cache false N 1 (x1' + 1 + 1) = .done r2 x2 ∧
          Inside s.posMax r2 x2 :=
      fun hout => walk_below_bracket hctx hcut hout hlt2 hw0 false
    cases hr0 : r0 with
    | none =>
      have hv1 := hnone hr0
      obtain ⟨enF, NF', l, hl, hup⟩ := g6 rfl hv1
      rw [hv1] at hup
      obtain ⟨N', hN'⟩ := pwalk_through enF false NF' f0 l 1 (s.pos + 1) s.posMax x1'
        (by omega) (by omega) hup (hr1 ▸ hw1)
      have ho1 : Outer src Mtop s.cache s.posMax x1' 1 := ⟨enF, N', _, by omega, hN'⟩
      obtain ⟨ch2, rest2, u, k1, k2, k3, k4, k5, _⟩ := outer_step hf ho1 hx1
      rw [hrx] at k1
      simp only [Except.ok.injEq, List.cons.injEq] at k1
      obtain ⟨rfl, _⟩ := k1
      rcases hctx.just x1' u (lookup_mem k2) with hu | hj
      · omega
      · rw [just_unit_at_closer hj hrx] at k5
        exact hBR k5
    | some res =>
      have hve := hsome res hr0
      rcases hWS with ⟨_, h0⟩ | ⟨_, il, htl0, h0⟩ | ⟨_, htl0, w0', hw0', hcase⟩
      · rw [hr0] at h0; cases h0
      · -- the witness's tail answered: so does the real one, which it did not
        exfalso
        rw [hr0] at h0
        simp only [Option.some.injEq] at h0
        have : il.endPos ≤ s.posMax := by rw [h0] at hve; simp only at hve; omega
        have := (parseInlineTail_window (decOk_unescapeAll cfg.entity) hble hctx.bmax
          (by omega) il).mp ⟨htl0, this⟩
        rw [show Link.parseInlineTail (Entity.unescapeAll cfg.entity) src (x1' + 1) s.posMax
          = tailOf cfg src (x1' + 1) s.posMax from rfl, htl] at this
        cases this
      · rw [hw0] at hw0'
        simp only [Except.ok.injEq] at hw0'
        subst hw0'
        rcases hcase with ⟨hne, _⟩ | ⟨_, r2, x2, hw2, hc2⟩
        · exact absurd rfl (hne t0)
        · rcases hc2 with ⟨hr2, l, _, hfin⟩ | ⟨_, hfin⟩
          · -- found: the entry ends right behind the second label, which lies inside the frame
            have hres : res.endPos = x2 + 1 := by
              unfold refFinish at hfin
              rw [hr0] at hfin
              revert hfin
              cases cfg.refs with
              | none => simp
              | some refs =>
                simp only
                split
                · simp
                · split
                  · simp
                  · intro h
                    simp only [Except.ok.injEq, Option.some.injEq] at h
                    rw [← h]
            exact ⟨f0, r2, x2, hw2, .inl ⟨hr2, by omega⟩⟩
          · -- the entry ends at `x1' + 1`
            have : v = x1' + 1 := by
              have hres : res.endPos = x1' + 1 := by
                unfold refFinish at hfin
                rw [hr0] at hfin
                revert hfin
                cases cfg.refs with
                | none => simp
                | some refs =>
                  simp only
                  split
                  · simp
                  · split
                    · simp
                    · intro h
                      simp only [Except.ok.injEq, Option.some.injEq] at h
                      rw [← h]
              rw [hve, hres]
            rw [this] at g5
            exact hBR g5
  -- the real rule: a function of the memo
  have hhits : ∀ skip, FollowsHits skip →
      parseLink cfg skip n s s.pos false = parseLinkP cfg n s s.pos false := by
    intro skip hsk
    apply parseLink_hits hsk s s.pos false n (by rw [hsrc]; exact h1le)
    intro lq t hsl hlab htl
    rw [hsrc] at hsl hlab htl ⊢
    have hd := labelOf_some hlab
    obtain ⟨hr1, rfl⟩ := pwalk_det hf h1le hd
    obtain ⟨N, r2, x2, hw2, hin2⟩ := hV2 hr1 t hsl htl
    exact ⟨N, r2, x2, pwalk_shrink hf hble (by omega) false _ _ _ _ _ hw2 hin2⟩
  refine ⟨match parseLinkP cfg n s s.pos false with
    | .ok (r, _) => .ok r
    | .error e => .error e, ?_, ?_⟩
  · intro skip hsk
    rw [hhits skip hsk]
    cases hP : parseLinkP cfg n s s.pos false with
    | error e => rfl
    | ok t =>
      obtain ⟨r, s'⟩ := t
      have := parseLinkP_state hP
      subst this
      rfl
  · intro r hR
    cases hP : parseLinkP cfg n s s.pos false with
    | error e => rw [hP] at hR; cases hR
    | ok t =>
      obtain ⟨r', s'⟩ := t
      rw [hP] at hR
      simp only [Except.ok.injEq] at hR
      subst hR
      unfold parseLinkP at hP
      rw [hsrc] at hP
      cases hlab : labelOf (pwalk src s.posMax s.cache false n 1 (s.pos + 1)) with
      | error e => rw [hlab] at hP; simp at hP
      | ok lab =>
        rw [hlab] at hP
        cases lab with
        | none =>
          simp only [Except.ok.injEq, Prod.mk.injEq] at hP
          obtain ⟨rfl, _⟩ := hP
          obtain ⟨ra, xa, hda, hna⟩ := labelOf_none hlab
          obtain ⟨rfl, rfl⟩ := pwalk_det hf h1le hda
          rcases hWS with ⟨_, h0⟩ | ⟨h, _⟩ | ⟨h, _⟩
          · exact h0.symm
          · exact absurd h hna
          · exact absurd h hna
        | some lq =>
          have hd := labelOf_some hlab
          obtain ⟨hr1, rfl⟩ := pwalk_det hf h1le hd
          have hx1 : x1' < s.posMax := by
            rcases hin1 with ⟨_, h⟩ | ⟨h, _⟩
            · exact h
            · rw [hr1] at h; cases h
          simp only at hP
          cases htl : tailOf cfg src (x1' + 1) s.posMax with
          | error e => rw [htl] at hP; simp at hP
          | ok tl =>
            rw [htl] at hP
            cases tl with
            | some il =>
              simp only [Except.ok.injEq, Prod.mk.injEq] at hP
              obtain ⟨rfl, _⟩ := hP
              obtain ⟨hbig, hend⟩ := (parseInlineTail_window (decOk_unescapeAll cfg.entity) hble
                hctx.bmax (by omega) il).mpr htl
              rcases hWS with ⟨h, _⟩ | ⟨_, il0, htl0, h0⟩ | ⟨_, htl0, _⟩
              · exact absurd hr1 h
              · rw [show tailOf cfg src (x1' + 1) Mtop = Link.parseInlineTail
                  (Entity.unescapeAll cfg.entity) src (x1' + 1) Mtop from rfl, hbig] at htl0
                simp only [Except.ok.injEq, Option.some.injEq] at htl0
                subst htl0
                exact h0.symm
              · rw [show tailOf cfg src (x1' + 1) Mtop = Link.parseInlineTail
                  (Entity.unescapeAll cfg.entity) src (x1' + 1) Mtop from rfl, hbig] at htl0
                cases htl0
            | none =>
              simp only at hP
              -- the witness's tail declined as well
              rcases hWS with ⟨h, _⟩ | ⟨_, il0, htl0, h0⟩ | ⟨_, htl0, w0, hw0, hcase⟩
              · exact absurd hr1 h
              · exfalso
                have hve := hsome _ h0
                simp only at hve
                have := (parseInlineTail_window (decOk_unescapeAll cfg.entity) hble hctx.bmax
                  (by omega) il0).mp ⟨htl0, by omega⟩
                rw [show Link.parseInlineTail (Entity.unescapeAll cfg.entity) src (x1' + 1) s.posMax
                  = tailOf cfg src (x1' + 1) s.posMax from rfl, htl] at this
                cases this
              · cases hsl : slice src (x1' + 1) s.posMax with
                | error e => rw [hsl] at hP; simp [liftOps, liftR] at hP
                | ok wr =>
                  rw [hsl] at hP
                  simp only [liftOps, liftR] at hP
                  have hrel := head_rel hcut (by omega) hsl hw0
                  by_cases hbr : ∃ t, wr = '[' :: t
                  · obtain ⟨t, rfl⟩ := hbr
                    obtain ⟨t0, rfl⟩ := hrel.mp ⟨t, rfl⟩
                    rcases hcase with ⟨hne, _⟩ | ⟨_, r2, x2, hw2, hc2⟩
                    · exact absurd rfl (hne t0)
                    · obtain ⟨N, r2', x2', hV, hin2⟩ := hV2 hr1 t hsl htl
                      obtain ⟨rfl, rfl⟩ := pwalk_det hf hV hw2
                      have h2le := pwalk_shrink hf hble (by omega) false _ _ _ _ _ hw2 hin2
                      simp only [refSecondP] at hP
                      rw [hsrc] at hP
                      cases hlab2 : labelOf (pwalk src s.posMax s.cache false n 1 (x1' + 1 + 1)) with
                      | error e => rw [hlab2] at hP; simp at hP
                      | ok lab2 =>
                        rw [hlab2] at hP
                        cases lab2 with
                        | none =>
                          simp only at hP
                          obtain ⟨rb, xb, hdb, hnb⟩ := labelOf_none hlab2
                          obtain ⟨rfl, rfl⟩ := pwalk_det hf h2le hdb
                          rcases hc2 with ⟨h, _⟩ | ⟨_, hfin⟩
                          · exact absurd h hnb
                          · rw [hfin] at hP
                            simp only [Except.ok.injEq, Prod.mk.injEq] at hP
                            exact hP.1.symm
                        | some xx =>
                          have hd2 := labelOf_some hlab2
                          obtain ⟨hr2, rfl⟩ := pwalk_det hf h2le hd2
                          simp only at hP
                          rcases hc2 with ⟨_, l, hl, hfin⟩ | ⟨h, _⟩
                          · rw [hl] at hP
                            simp only [liftOps, liftR] at hP
                            rw [hfin] at hP
                            simp only [Except.ok.injEq, Prod.mk.injEq] at hP
                            exact hP.1.symm
                          · exact absurd hr2 h
                  · have hne0 : ¬ ∃ t, w0 = '[' :: t := fun h => hbr (hrel.mpr h)
                    rcases hcase with ⟨_, hfin⟩ | ⟨h, _⟩
                    · have hsec : refSecondP s n x1' wr = .ok (none, x1' + 1, s) := by
                        unfold refSecondP
                        split
                        · exact absurd ⟨_, rfl⟩ hbr
                        · rfl
                      rw [hsec] at hP
                      simp only at hP
                      rw [hfin] at hP
                      simp only [Except.ok.injEq, Prod.mk.injEq] at hP
                      exact hP.1.symm
                    · exact absurd h hne0

end MdIt.Inline
