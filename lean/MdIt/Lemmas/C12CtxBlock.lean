/-
  Helper development for C12 in context (namespace `MdIt.Block.C12X`): symbolic runs of
  `Block.parseBlocks` on a ONE-LINE source whose first character is `[`.

  `C12DocBlock.lean` proves `parseBlocks_one_line` for `Plain w body`, whose `first` field forbids a
  leading `[` (the reference rule looks at such a line).  Here:

    * a GENERIC layer for a one-line source `w ++ body` (`Line w body`: blanks of width < 4, then a
      non-empty terminator-free text that does not start with a blank):
        `parseBlocks_of_decline`   if every rule of the chain other than the paragraph rule declines
                                   the line and hands the state back, the block pass yields
                                   Root[ Paragraph[ InlineRoot(whole line, [(0, 0)]) ] ], no references;
    * `parseBlocks_bracket_line`  the source `'[' :: rest` with `refQuick false rest = false` (the
                                   reference rule's quick `]:` test fails, e.g. `[x](/u "t")`): the
                                   reference rule answers `pure (false, s)`, every other non-paragraph
                                   rule declines on the first character, the paragraph rule takes the line.
-/
import MdIt.Lemmas.C12DocBlock

namespace MdIt.Block.C12X
open MdIt.Lines (LineOffset byteLen NoTerm AllBlank indentWidth lead)
open MdIt.Block.C12 (OneLine oneOff oneParagraph lazyScan_one runChain_only usizeAsI32_zero
  takeWhile_append_stop')

/-! ## the generic layer: one line, no assumption on which rules decline -/

/-- what the line table and the paragraph rule need of the line: blanks of width < 4, then a
    non-empty terminator-free text whose first character is no blank -/
structure Line (w body : List Char) : Prop where
  blank : AllBlank w
  width : indentWidth w < 4
  noTerm : NoTerm body
  first : ∃ f rest, body = f :: rest ∧ f ≠ ' ' ∧ f ≠ '\t'

theorem splitLines_one {w body : List Char} (h : Line w body) :
    Lines.splitLines (w ++ body) = [oneOff w body] := by
  obtain ⟨f, rest, hb, hf1, hf2⟩ := h.first
  have hnt : NoTerm (w ++ body) := by
    intro c hc
    rcases List.mem_append.mp hc with h1 | h1
    · exact h.blank.noTerm c h1
    · exact h.noTerm c h1
  have hlead : lead (w ++ body) = w := by
    unfold lead
    apply takeWhile_append_stop'
    · intro x hx; exact Lines.isBlank_iff.mpr (h.blank x hx)
    · intro x hx
      rw [hb] at hx; simp at hx; subst hx
      cases hx' : Lines.isBlank f
      · rfl
      · rcases Lines.isBlank_iff.mp hx' with h1 | h1
        · exact absurd h1 hf1
        · exact absurd h1 hf2
  obtain ⟨fl, hsp⟩ := Lines.splitGo_line (w ++ body) hnt 0 []
  unfold Lines.splitLines
  rw [List.append_nil] at hsp
  rw [hsp, Lines.splitGo_nil, hlead]
  simp [oneOff]

variable {s : BState} {w body : List Char}

theorem getLine_one (hs : OneLine s w body) (hp : Line w body) : s.getLine s.line = .ok body := by
  have : Lines.slice (w ++ body) w.length (byteLen w + byteLen body) = .ok body :=
    Lines.slice_eq_ok_iff.mpr ⟨w, [], by simp, hp.blank.byteLen, by simp [hp.blank.byteLen]⟩
  simp [BState.getLine, Lines.getLine, hs.offs, hs.line, hs.src, oneOff, this, liftL]

theorem isEmpty_one (hs : OneLine s w body) (hp : Line w body) : s.isEmpty 0 = false := by
  obtain ⟨f, rest, hb, _⟩ := hp.first
  have := Lines.utf8Size_pos' f
  simp [BState.isEmpty, Lines.isEmpty, hs.offs, oneOff, hp.blank.byteLen, hb]
  omega

theorem getLines_one (hs : OneLine s w body) (hp : Line w body) :
    s.getLines 0 1 0 false = .ok (w ++ body, [(0, 0)]) := by
  have h1 : Lines.slice (w ++ body) 0 w.length = .ok w :=
    Lines.slice_eq_ok_iff.mpr ⟨[], body, by simp, rfl, by simp [hp.blank.byteLen]⟩
  have h2 : Lines.slice (w ++ body) 0 (byteLen w + byteLen body) = .ok (w ++ body) :=
    Lines.slice_eq_ok_iff.mpr ⟨[], [], by simp, rfl, by simp⟩
  have h3 := Lines.cut_full_indent w
  unfold BState.getLines Lines.getLines
  rw [if_neg (by omega)]
  unfold Lines.getLinesGo
  rw [if_pos (by omega)]
  simp only [hs.offs, hs.src, oneOff, List.getElem?_cons_zero, h1, usizeAsI32_zero, Int.sub_zero, h3]
  unfold Lines.getLinesGo
  simp [h2, liftL, Lines.byteLen]

/-- the paragraph rule takes the line -/
theorem runRule_paragraph (cfg : Cfg) (tok : Tok) (test : Test) (fuel : Nat) (hs : OneLine s w body)
    (hp : Line w body) :
    runRule cfg tok test (fuel + 1) .paragraph s false =
      .ok (true, { s with line := 1, children := s.children ++
        [⟨.paragraph, some (w.length, byteLen (w ++ body)),
          [⟨.inlineRoot (w ++ body) [(0, 0)], none, []⟩]⟩] }) := by
  have h1 := lazyScan_one hs test false fuel
  have h2 := getLines_one hs hp
  have h3 := hs.getMap
  simp only [runRule, paragraphRule, h1, ok_bind]
  have h3' : liftL (Lines.getMap s.offs 0 0) = .ok (w.length, byteLen (w ++ body)) := h3
  simp only [hs.line, hs.blk, h2, ok_bind, psub, BState.push]
  simp only [BState.getMap, Bool.false_eq_true, if_false, Nat.le_refl, if_true, Nat.sub_self, ok_bind]
  rw [h3']
  rfl

theorem fresh_oneLine (hp : Line w body) (k : Kind) (refs : Refs.RefMap) :
    OneLine (BState.fresh (w ++ body) k refs) w body := by
  refine ⟨rfl, ?_, rfl, rfl, ?_, rfl⟩
  · simp [BState.fresh, splitLines_one hp]
  · simp [BState.fresh, splitLines_one hp]

theorem skipEmpty_one (hs : OneLine s w body) (hp : Line w body) :
    Lines.skipEmptyLines s.offs s.lineMax s.line = 0 := by
  have := isEmpty_one hs hp
  unfold BState.isEmpty at this
  rw [Lines.skipEmptyLines, hs.line]
  simp [this]

/-- the tokenizer loop on the line, given that the other rules of the chain decline it -/
theorem tokLoop_of_decline (cfg : Cfg) (hpar : RuleId.paragraph ∈ cfg.chain) (tok : Tok) (test : Test)
    (f : Nat) (hs : OneLine s w body) (hp : Line w body) (hlv : s.level < cfg.maxNesting)
    (hother : ∀ r ∈ cfg.chain, r ≠ .paragraph →
      runRule cfg tok test (f + 2) r s false = .ok (false, s)) :
    tokLoop cfg (runRule cfg tok test (f + 2)) (f + 2) false s =
      .ok { s with line := 1, children := s.children ++ [oneParagraph w body], tight := true } := by
  have hchain := runChain_only (runRule cfg tok test (f + 2)) cfg.chain s _ .paragraph hpar
    (runRule_paragraph cfg tok test (f + 1) hs hp) hother
  have hskip : Lines.skipEmptyLines s.offs 1 0 = 0 := by
    have := skipEmpty_one hs hp; rwa [hs.line, hs.lineMax] at this
  have hind : Lines.lineIndent s.offs 0 0 = .ok (indentWidth w : Int) := by
    simp [Lines.lineIndent, hs.offs, oneOff]
  have hlvl : ¬ (s.level ≥ cfg.maxNesting) := by omega
  have hemp : Lines.isEmpty s.offs 0 = false := isEmpty_one hs hp
  clear hother
  obtain ⟨h1, h2, h3, h4, h5, h6⟩ := hs
  obtain ⟨src, offs, blk, line, lineMax, tight, li, level, nk, ch, refs⟩ := s
  simp only at h1 h2 h3 h4 h5 h6 hchain hskip hind hlvl hemp
  subst h1 h3 h4 h5 h6
  rw [tokLoop]
  simp [hskip, BState.lineIndent, hind, liftL, hlvl, hchain, afterChain, psub,
    BState.isEmpty, hemp, pure, Except.pure, bind, Except.bind]
  rw [tokLoop]
  simp [oneParagraph]

/-- **the block pass on a one-line source that only the paragraph rule takes**: if every other rule
    of the chain declines the line (on every state that sits on it, with whatever engine below),
    the result is one paragraph holding the whole line, no reference definitions -/
theorem parseBlocks_of_decline (cfg : Cfg) (hpar : RuleId.paragraph ∈ cfg.chain)
    (hmax : 0 < cfg.maxNesting) (w body : List Char) (hp : Line w body)
    (hother : ∀ (tok : Tok) (test : Test) (fuel : Nat) (s : BState), OneLine s w body →
      ∀ r ∈ cfg.chain, r ≠ .paragraph → runRule cfg tok test (fuel + 1) r s false = .ok (false, s)) :
    parseBlocks cfg (w ++ body) =
      .ok (⟨.root, some (0, byteLen (w ++ body)), [oneParagraph w body]⟩, []) := by
  obtain ⟨f, hf⟩ : ∃ f, fuelFor cfg (w ++ body) = f + 2 :=
    ⟨(Lines.splitLines (w ++ body)).length + min cfg.maxNesting (byteLen (w ++ body)) + 6, by
      unfold fuelFor; omega⟩
  have hs := fresh_oneLine hp .root []
  have htok := tokLoop_of_decline cfg hpar (engine cfg (f + 1)).1 (engine cfg (f + 1)).2 f hs hp
    (by show 0 < _; exact hmax)
    (hother (engine cfg (f + 1)).1 (engine cfg (f + 1)).2 (f + 1) _ hs)
  unfold parseBlocks tokenize
  rw [hf, show (engine cfg (f + 2)).1 = tokLoop cfg (runRule cfg (engine cfg (f + 1)).1
    (engine cfg (f + 1)).2 (f + 2)) (f + 2) false from rfl, htok]
  rfl

/-! ## a line that starts with `[` and fails the reference rule's quick test -/

theorem line_bracket {rest : List Char} (hnt : NoTerm ('[' :: rest)) : Line [] ('[' :: rest) :=
  ⟨(fun _ h => by cases h), (by decide), hnt, '[', rest, rfl, (by decide), (by decide)⟩

/-- on `'[' :: rest` with a failing quick `]:` test every rule but the paragraph rule declines the
    line and hands the state back -/
theorem runRule_other_bracket (cfg : Cfg) (tok : Tok) (test : Test) (fuel : Nat) {rest : List Char}
    (hs : OneLine s [] ('[' :: rest)) (hnt : NoTerm ('[' :: rest))
    (hq : refQuick false rest = false) (r : RuleId) (hr : r ≠ .paragraph) :
    runRule cfg tok test (fuel + 1) r s false = .ok (false, s) := by
  have hp := line_bracket hnt
  have hind := hs.lineIndent
  have hline := getLine_one hs hp
  have hw0 : indentWidth ([] : List Char) = 0 := by decide
  rw [hw0] at hind
  cases r with
  | paragraph => exact absurd rfl hr
  | code =>
    simp [runRule, codeRule, hind, pure, Except.pure]
  | fence =>
    simp [runRule, fenceRule, hind, hline, pure, Except.pure]
  | blockquote =>
    simp [runRule, blockquoteRule, hind, hline, pure, Except.pure]
  | hr =>
    simp [runRule, hrRule, hind, hline, pure, Except.pure]
  | list =>
    have hsb : skipBullet ('[' :: rest) = none := by simp [skipBullet]
    have hord : skipOrdered ('[' :: rest) = none := by simp [skipOrdered, isDigit]
    simp [runRule, listRule, hind, listSpecial, hs.li, hline, detectMarker, hord, hsb,
      pure, Except.pure]
  | reference =>
    simp [runRule, referenceRule, hind, hline, hq, pure, Except.pure]
  | heading =>
    simp [runRule, headingRule, hind, hline, pure, Except.pure]
  | lheading =>
    simp [runRule, lheadingRule, hind, lazyScan_one hs, pure, Except.pure]

open MdIt.Lines (byteLen NoTerm)
/-- the block pass on a one-line source that starts with `[` and is no reference definition -/
theorem parseBlocks_bracket_line (cfg : Cfg) (hpar : RuleId.paragraph ∈ cfg.chain) (hmax : 0 < cfg.maxNesting)
    (rest : List Char) (hnt : NoTerm ('[' :: rest)) (hq : refQuick false rest = false) :
    parseBlocks cfg ('[' :: rest) =
      .ok (⟨.root, some (0, byteLen ('[' :: rest)), [C12.oneParagraph [] ('[' :: rest)]⟩, []) :=
  parseBlocks_of_decline cfg hpar hmax [] ('[' :: rest) (line_bracket hnt)
    (fun tok test fuel _ hs r _ hne => runRule_other_bracket cfg tok test fuel hs hnt hq r hne)

/-- the hypotheses hold on `[x](/u "t")` with the stock chain (`exCfg`: nine rules, `max_nesting` 100) -/
example : parseBlocks exCfg "[x](/u \"t\")".toList =
    .ok (⟨.root, some (0, 11), [C12.oneParagraph [] "[x](/u \"t\")".toList]⟩, []) :=
  parseBlocks_bracket_line exCfg (by decide) (by decide) "x](/u \"t\")".toList
    (by unfold Lines.NoTerm; decide) (by decide)

/-- … and with a chain that lists the paragraph rule in front of the reference rule, `max_nesting` 1 -/
example : parseBlocks { exCfg with maxNesting := 1, chain := [.paragraph, .reference] } "[x][y]".toList =
    .ok (⟨.root, some (0, 6), [C12.oneParagraph [] "[x][y]".toList]⟩, []) :=
  parseBlocks_bracket_line _ (by decide) (by decide) "x][y]".toList
    (by unfold Lines.NoTerm; decide) (by decide)

/-- `hq` is necessary: `[x]: /u` passes the quick test, is a reference definition, and the block
    pass yields no paragraph -/
example : refQuick false "x]: /u".toList = true ∧
    (match parseBlocks exCfg "[x]: /u".toList with
     | .ok (n, refs) => n.children.isEmpty && refs.length == 1
     | .error _ => false) = true := by decide +kernel

end MdIt.Block.C12X
