/-
  C05, the remaining clauses: `get_lines` is FAITHFUL — the inline text of a placeholder is a copy of
  the source bytes at the offsets its table names (`C05R.PFth`), in a tab-free document.

  (i)  abstract part (no parser notions): a table `m` and a content `c` such that every entry
       `(k, v)` of `m` names a line-feed-free stretch `t` of `c` at byte `k` that is `src[v .. v+|t|]`,
       the stretch is followed in `c` by exactly one line feed and then the stretch of the next entry,
       the next entry's source offset lies strictly behind `v + |t|`, and a line break of the source
       starts at `v + |t|` (`fa_Seg`, at every entry: `C05I.SegAll (fa_Seg src c) m`)
       ⟹ `PFth src c m` (`fa_pfth_of_seg`).
  (ii) instantiation: the table `Lines.mapOf indent 0 ovs` and the content
       `joinLines false (ovs.map viewPiece)` of `get_lines` satisfy `fa_Seg` at every entry when no
       tab is split (`calcRightWs … .1 = 0`), the lines are strictly separated and every line but the
       last ends in front of a line break (`fa_mapOf_seg`, `fa_lines_pfth`, `fa_getLines_pfth`).
  deliverable: `Block.inlSpec3_pfull : InlSpec3 src0 (PFull src0)`.
-/
import MdIt.Lemmas.C05RestDefs

namespace MdIt.C05R
open MdIt.InlineOps (Srcmap getSourcePosFor byteLen)
open MdIt.Lines (LineOffset)
open MdIt.C05I (SegAll segAll_get)

/-! ## cuts of cuts -/

/-- a sub-cut of a cut -/
theorem fa_cut_sub {s t w : List Char} {a x y : Nat} (h : Cut s a (a + byteLen t) t) (h2 : Cut t x y w) :
    Cut s (a + x) (a + y) w := by
  obtain ⟨p, q, e, hp, _⟩ := h
  obtain ⟨p', q', e', hp', hy⟩ := h2
  refine ⟨p ++ p', q' ++ q, ?_, ?_, ?_⟩
  · rw [e, e']; simp [List.append_assoc]
  · rw [C05.byteLen_append]; omega
  · omega

/-- a cut of `pre ++ t ++ post` that lies inside `t` is a cut of `t` -/
theorem fa_cut_inside {pre t post w : List Char} {p q : Nat} (h : Cut (pre ++ t ++ post) p q w)
    (h1 : byteLen pre ≤ p) (h2 : q ≤ byteLen pre + byteLen t) :
    ∃ x y, p = byteLen pre + x ∧ q = byteLen pre + y ∧ Cut t x y w := by
  obtain ⟨P, Q, e, hP, hq⟩ := h
  have e1 : pre ++ (t ++ post) = P ++ (w ++ Q) := by
    rw [← List.append_assoc, ← List.append_assoc, ← e]
  obtain ⟨u, hu1, hu2⟩ := Inline.append_prefix pre (t ++ post) P (w ++ Q) e1 (by omega)
  have hlu : byteLen P = byteLen pre + byteLen u := by rw [hu1, C05.byteLen_append]
  have e2 : (u ++ w) ++ Q = t ++ post := by rw [hu2]; simp [List.append_assoc]
  obtain ⟨z, hz1, _⟩ := Inline.append_prefix (u ++ w) Q t post e2 (by rw [C05.byteLen_append]; omega)
  refine ⟨byteLen u, byteLen u + byteLen w, by omega, by omega, u, z, hz1, rfl, rfl⟩

theorem fa_cut_subset {s w : List Char} {a b : Nat} (h : Cut s a b w) : ∀ ch ∈ w, ch ∈ s := by
  obtain ⟨p, q, e, _, _⟩ := h
  intro ch hc
  rw [e]; simp [hc]

/-- the character that starts at a byte inside a cut belongs to the cut -/
theorem fa_mem_cut {s w P Q : List Char} {ch : Char} {a b : Nat} (h : Cut s a b w)
    (e : s = P ++ ch :: Q) (h1 : a ≤ byteLen P) (h2 : byteLen P < b) : ch ∈ w := by
  have hb : Bdy s (byteLen P) := ⟨P, ch :: Q, e, rfl⟩
  obtain ⟨w1, w2, rfl, c1, c2⟩ := h.split hb h1 (by omega)
  obtain ⟨p', q', e', hp', hb'⟩ := c2
  have e2 : P ++ (ch :: Q) = p' ++ (w2 ++ q') := by rw [← e, e', List.append_assoc]
  obtain ⟨_, e3⟩ := prefix_unique e2 (by omega)
  cases w2 with
  | nil => simp [byteLen] at hb'; omega
  | cons d w2' =>
    simp only [List.cons_append, List.cons.injEq] at e3
    obtain ⟨rfl, _⟩ := e3
    simp

/-! ## (i) the abstract lemma -/

/-- entry `x = (k, v)` of the table, followed by `next`: the content holds at byte `k` a stretch `t`
    without line feed which is `src[v .. v + |t|]`; it is the end of the content (last entry), or it is
    followed by ONE line feed, behind which the next entry's key points, the next entry's source
    offset lies strictly behind `v + |t|` and a line break of the source starts at `v + |t|` -/
def fa_Seg (src c : List Char) (x : Nat × Nat) (next : Option (Nat × Nat)) : Prop :=
  ∃ pre t post, c = pre ++ t ++ post ∧ byteLen pre = x.1 ∧ '\n' ∉ t ∧
    Cut src x.2 (x.2 + byteLen t) t ∧
    match next with
    | none => post = []
    | some y => ∃ post', post = '\n' :: post' ∧ y.1 = x.1 + byteLen t + 1 ∧ x.2 + byteLen t < y.2 ∧
        BrkAt src (x.2 + byteLen t)

theorem fa_seg_mono {src c : List Char} {m : Srcmap} (hs : SegAll (fa_Seg src c) m) : C05.MonoMap m := by
  intro i k1 v1 k2 v2 h1 h2
  have := segAll_get hs h1
  rw [h2] at this
  obtain ⟨pre, t, post, _, _, _, _, post', _, hk, hv, _⟩ := this
  simp only at hk hv
  omega

/-- the line of a position -/
theorem fa_locate {src c : List Char} {m : Srcmap} (hw : C05.WFMap m) (hs : SegAll (fa_Seg src c) m)
    {p a : Nat} (ha : getSourcePosFor m p = .ok a) :
    ∃ i k v, m[i]? = some (k, v) ∧ k ≤ p ∧ a = v + (p - k) ∧ fa_Seg src c (k, v) m[i + 1]? ∧
      ∀ y, m[i + 1]? = some y → p < y.1 := by
  obtain ⟨i, k, v, h1, h2, h3, h4, e⟩ :=
    C05.lineOf_spec_tr m hw p (C05.clampFree_of_mono m (fa_seg_mono hs) p)
  rw [e] at ha
  simp only [Except.ok.injEq] at ha
  exact ⟨i, k, v, h2, h3, ha.symm, segAll_get hs h2, fun y hy => h4 (i + 1) y.1 y.2 (by omega) hy⟩

/-- **(i)**: a table all of whose entries are `fa_Seg` is faithful -/
theorem fa_pfth_of_seg {src c : List Char} {m : Srcmap} (hw : C05.WFMap m)
    (hs : SegAll (fa_Seg src c) m) : PFth src c m := by
  refine ⟨?_, ?_⟩
  · -- copy
    intro p q w a b hc hn ha hb
    obtain ⟨i, k, v, hi, hk, rfl, ⟨pre, t, post, hcc, hpre, hnt, hsrc, hnext⟩, hlt⟩ := fa_locate hw hs ha
    simp only at hpre hsrc
    have hpq := hc.le
    -- `q` is inside the line
    have hq : q ≤ k + byteLen t := by
      cases hn1 : m[i + 1]? with
      | none =>
        rw [hn1] at hnext
        subst hnext
        have := hc.bdy_right.le
        rw [hcc] at this
        simp only [C05.byteLen_append, List.append_nil] at this
        omega
      | some y =>
        rw [hn1] at hnext
        obtain ⟨post', rfl, hy1, _, _⟩ := hnext
        have hp := hlt y hn1
        rcases Nat.lt_or_ge (k + byteLen t) q with hgt | hle
        · exfalso
          apply hn
          refine fa_mem_cut (P := pre ++ t) (Q := post') hc (by rw [hcc]) ?_ ?_
          · rw [C05.byteLen_append]; omega
          · rw [C05.byteLen_append]; omega
        · exact hle
    -- so `q` is translated by the same entry
    have hb' : getSourcePosFor m q = .ok (v + (q - k)) := by
      apply C05.translate_segment_mono m hw (fa_seg_mono hs) q i k v hi (by omega)
      intro k' v' hn1
      rw [hn1] at hnext
      obtain ⟨post', _, hy1, _, _⟩ := hnext
      simp only at hy1
      omega
    rw [hb'] at hb
    simp only [Except.ok.injEq] at hb
    subst hb
    rw [hcc] at hc
    obtain ⟨x, y, hx, hy, hxy⟩ := fa_cut_inside hc (by omega) (by omega)
    have := fa_cut_sub hsrc hxy
    rw [show v + (p - k) = v + x by omega, show v + (q - k) = v + y by omega]
    exact this
  · -- brk
    intro p q w a b w' hc hn ha hb hw'
    obtain ⟨i, k, v, hi, hk, rfl, ⟨pre, t, post, hcc, hpre, hnt, hsrc, hnext⟩, hlt⟩ := fa_locate hw hs ha
    simp only at hpre hsrc
    have hpq := hc.le
    have hq : k + byteLen t < q := by
      rcases Nat.lt_or_ge (k + byteLen t) q with hgt | hle
      · exact hgt
      · exfalso
        rw [hcc] at hc
        obtain ⟨x, y, hx, hy, hxy⟩ := fa_cut_inside hc (by omega) (by omega)
        exact hnt (fa_cut_subset hxy _ hn)
    cases hn1 : m[i + 1]? with
    | none =>
      exfalso
      rw [hn1] at hnext
      subst hnext
      have := hc.bdy_right.le
      rw [hcc] at this
      simp only [C05.byteLen_append, List.append_nil] at this
      omega
    | some y =>
      rw [hn1] at hnext
      obtain ⟨post', rfl, hy1, hy2, hbrk⟩ := hnext
      simp only at hy1 hy2 hbrk
      have hp := hlt y hn1
      -- `tr y.1 = y.2`
      have hty : getSourcePosFor m y.1 = .ok y.2 := by
        have := C05.translate_affine_mono m hw (fa_seg_mono hs) (i + 1) y.1 y.2 0 hn1 (by
          intro k' v' h2
          obtain ⟨h3, e3⟩ := C05.getElem?_key m (i + 1) y.1 y.2 hn1
          obtain ⟨h4, e4⟩ := C05.getElem?_key m (i + 1 + 1) k' v' h2
          have := List.pairwise_iff_getElem.mp hw.sorted (i + 1) (i + 1 + 1) h3 h4 (by omega)
          omega)
        simpa using this
      have hmono := C05.translate_mono m hw (fa_seg_mono hs) y.1 q (by omega) _ _ hty hb
      exact hbrk.mem_cut hw' (by omega) (by omega)

/-! ## (ii) the table and the content of `get_lines` -/

open MdIt.Lines (Shows mapOf viewPiece joinLines calcRightWs usizeAsI32 dropB)

/-- consecutive lines are strictly separated, and every line but the last ends in front of a line
    break of the source -/
def fa_Chain (src : List Char) : List LineOffset → Prop
  | [] => True
  | [_] => True
  | a :: b :: r => a.lineEnd < b.lineStart ∧ BrkAt src a.lineEnd ∧ fa_Chain src (b :: r)

theorem fa_viewPiece_novirt {indent : Nat} {v : List Char × List Char × Int}
    (h : (calcRightWs v.1 (v.2.2 - usizeAsI32 indent)).1 = 0) :
    viewPiece indent v = dropB v.1 (calcRightWs v.1 (v.2.2 - usizeAsI32 indent)).2 ++ v.2.1 := by
  simp [viewPiece, h]

theorem fa_mapOf_cons_novirt {indent p : Nat} {o : LineOffset} {v : List Char × List Char × Int}
    {r : List (LineOffset × (List Char × List Char × Int))}
    (h : (calcRightWs v.1 (v.2.2 - usizeAsI32 indent)).1 = 0) :
    mapOf indent p ((o, v) :: r)
      = (p, o.lineStart + (calcRightWs v.1 (v.2.2 - usizeAsI32 indent)).2) ::
          mapOf indent (p + byteLen (viewPiece indent v) + 1) r := by
  simp [mapOf, h, C05I.linesLen_eq]

/-- what one line contributes when no tab is split: a line-feed-free copy of the source bytes from
    the table's offset to the end of the line -/
theorem fa_piece {src : List Char} {o : LineOffset} {v : List Char × List Char × Int} {indent : Nat}
    (hs : Shows src o v) (h0 : (calcRightWs v.1 (v.2.2 - usizeAsI32 indent)).1 = 0)
    (hn1 : '\n' ∉ v.1) (hn2 : '\n' ∉ v.2.1) :
    Cut src (o.lineStart + (calcRightWs v.1 (v.2.2 - usizeAsI32 indent)).2)
        (o.lineStart + (calcRightWs v.1 (v.2.2 - usizeAsI32 indent)).2 + byteLen (viewPiece indent v))
        (viewPiece indent v) ∧
      o.lineStart + (calcRightWs v.1 (v.2.2 - usizeAsI32 indent)).2 + byteLen (viewPiece indent v)
        = o.lineEnd ∧
      '\n' ∉ viewPiece indent v := by
  have h1 := Lines.slice_from_view hs.1 hs.2.1 (v.2.2 - usizeAsI32 indent)
  rw [← fa_viewPiece_novirt h0] at h1
  have h2 := (cut_iff_lines _ _ _ _).mp h1
  have h3 : o.lineStart + (calcRightWs v.1 (v.2.2 - usizeAsI32 indent)).2 + byteLen (viewPiece indent v)
      = o.lineEnd := by
    obtain ⟨_, _, _, _, h⟩ := h2
    exact h
  refine ⟨by rw [h3]; exact h2, h3, ?_⟩
  rw [fa_viewPiece_novirt h0]
  intro hm
  rcases List.mem_append.mp hm with hm | hm
  · exact hn1 ((Lines.dropB_suffix _ _).subset hm)
  · exact hn2 hm

/-- **(ii)**: every entry of the table of `get_lines` is `fa_Seg` when no tab is split -/
theorem fa_mapOf_seg (src : List Char) (indent : Nat) :
    ∀ (ovs : List (LineOffset × (List Char × List Char × Int))) (pre : List Char),
      (∀ ov ∈ ovs, Shows src ov.1 ov.2 ∧ '\n' ∉ ov.2.1 ∧ '\n' ∉ ov.2.2.1 ∧
        (calcRightWs ov.2.1 (ov.2.2.2 - usizeAsI32 indent)).1 = 0) →
      fa_Chain src (ovs.map (·.1)) →
      SegAll (fa_Seg src (pre ++ joinLines false (ovs.map fun ov => viewPiece indent ov.2)))
        (mapOf indent (byteLen pre) ovs) := by
  intro ovs
  induction ovs with
  | nil => intro pre _ _; simp [mapOf, SegAll]
  | cons ov rest ih =>
    intro pre hs hc
    obtain ⟨o, v⟩ := ov
    obtain ⟨hsh, hn1, hn2, h0⟩ := hs (o, v) (by simp)
    simp only at hsh hn1 hn2 h0
    obtain ⟨hcut, hend, hnt⟩ := fa_piece hsh h0 hn1 hn2
    rw [fa_mapOf_cons_novirt h0]
    cases rest with
    | nil =>
      simp only [mapOf, SegAll, List.head?_nil, and_true, List.map_cons, List.map_nil, joinLines,
        Bool.false_eq_true, if_false]
      exact ⟨pre, viewPiece indent v, [], by simp, rfl, hnt, hcut, rfl⟩
    | cons ov2 rest' =>
      obtain ⟨o2, v2⟩ := ov2
      obtain ⟨hc1, hc2, hc3⟩ := hc
      simp only at hc1 hc2
      have ih' := ih (pre ++ viewPiece indent v ++ ['\n'])
        (fun ov h => hs ov (List.mem_cons_of_mem _ h)) hc3
      have hcontent : pre ++ joinLines false (((o, v) :: (o2, v2) :: rest').map fun ov => viewPiece indent ov.2)
          = (pre ++ viewPiece indent v ++ ['\n']) ++
            joinLines false (((o2, v2) :: rest').map fun ov => viewPiece indent ov.2) := by
        simp [joinLines, List.append_assoc]
      have hpos : byteLen (pre ++ viewPiece indent v ++ ['\n'])
          = byteLen pre + byteLen (viewPiece indent v) + 1 := by
        simp only [C05.byteLen_append, byteLen, show '\n'.utf8Size = 1 by decide]
      rw [hcontent]
      rw [hpos] at ih'
      refine ⟨?_, ih'⟩
      obtain ⟨_, _, _, h02⟩ := hs (o2, v2) (by simp)
      simp only at h02
      rw [fa_mapOf_cons_novirt h02]
      simp only [List.head?_cons]
      refine ⟨pre, viewPiece indent v,
        '\n' :: joinLines false (((o2, v2) :: rest').map fun ov => viewPiece indent ov.2),
        by simp [List.append_assoc], rfl, hnt, hcut, _, rfl, rfl, ?_, ?_⟩
      · simp only; omega
      · simp only; rw [hend]; exact hc2

/-! ## from the line table -/

theorem fa_ovs_of_tableOk {src : List Char} {offs : List LineOffset}
    (hT : ∀ (k : Nat) (o : LineOffset), offs[k]? = some o → Block.LineOk src o) :
    ∀ (n b : Nat), b + n ≤ offs.length →
      ∃ ovs : List (LineOffset × (List Char × List Char × Int)), ovs.length = n ∧
        ∀ j (h : j < ovs.length), offs[b + j]? = some ovs[j].1 ∧ Shows src ovs[j].1 ovs[j].2 ∧
          '\n' ∉ ovs[j].2.1 ∧ '\n' ∉ ovs[j].2.2.1 := by
  intro n
  induction n with
  | zero => intro b _; exact ⟨[], rfl, fun j h => by simp at h⟩
  | succ n ih =>
    intro b hb
    have hk : b < offs.length := by omega
    obtain ⟨v, hv, hn1, hn2⟩ := Block.shows_of_lineOk (hT b offs[b] (List.getElem?_eq_getElem hk))
    obtain ⟨ovs, hvl, hvs⟩ := ih (b + 1) (by omega)
    refine ⟨(offs[b], v) :: ovs, by simp [hvl], ?_⟩
    intro j hj
    cases j with
    | zero => exact ⟨by simp, hv, hn1, hn2⟩
    | succ j =>
      obtain ⟨ho, hs⟩ := hvs j (by simp at hj; omega)
      exact ⟨by rw [show b + (j + 1) = b + 1 + j by omega, ho]; simp, by simpa using hs⟩

theorem fa_chain_of {src : List Char} : ∀ (l : List LineOffset),
    (∀ j a a', l[j]? = some a → l[j + 1]? = some a' → a.lineEnd < a'.lineStart ∧ BrkAt src a.lineEnd) →
    fa_Chain src l
  | [], _ => trivial
  | [_], _ => trivial
  | a :: a' :: r, h =>
    ⟨(h 0 a a' rfl rfl).1, (h 0 a a' rfl rfl).2,
      fa_chain_of (a' :: r) (fun j x y hx hy => h (j + 1) x y (by simpa using hx) (by simpa using hy))⟩

/-- a `fa_Seg` table that starts at key 0 is well formed -/
theorem fa_seg_wf {src c : List Char} {m : Srcmap} (hs : SegAll (fa_Seg src c) m)
    (h0 : ∃ v rest, m = (0, v) :: rest) : C05.WFMap m := by
  refine ⟨h0, C05I.pairwise_of_segAll ?_ m hs⟩
  intro x y h
  obtain ⟨_, _, _, _, _, _, _, _, _, hk, _, _⟩ := h
  omega

/-- **`get_lines` is faithful** in a tab-free source: on a table whose entries cut line-feed-free
    lines out of the source (`LineOk`), strictly separated (`SortedS`), each ending in front of a
    line break or at the end of the source (`TermOk`), the content `get_lines(b, e, indent, false)`
    returns is, stretch by stretch, a copy of the source bytes its table names -/
theorem fa_getLines_pfth {src : List Char} {offs : List LineOffset}
    (hT : ∀ (k : Nat) (o : LineOffset), offs[k]? = some o → Block.LineOk src o)
    (hord : Block.SortedS offs) (hterm : TermOk src offs) (htab : '\t' ∉ src)
    {b e indent : Nat} {c : List Char} {m : Srcmap} (hbe : b < e)
    (h : Lines.getLines src offs b e indent false = .ok (c, m)) : PFth src c m := by
  have hlen : e ≤ offs.length := by
    unfold Lines.getLines at h
    rw [if_neg (by omega)] at h
    exact Lines.getLinesGo_ok_len h hbe
  obtain ⟨ovs, hvl, hvs⟩ := fa_ovs_of_tableOk hT (e - b) b (by omega)
  obtain ⟨content, hget, hcontent, _⟩ :=
    Lines.get_lines_faithful src offs b indent false ovs (fun j hj => ⟨(hvs j hj).1, (hvs j hj).2.1⟩)
  rw [hvl, show b + (e - b) = e by omega, h] at hget
  simp only [Except.ok.injEq, Prod.mk.injEq] at hget
  obtain ⟨rfl, rfl⟩ := hget
  have hseg := fa_mapOf_seg src indent ovs [] (by
    intro ov hov
    obtain ⟨j, hj, rfl⟩ := List.getElem_of_mem hov
    obtain ⟨_, hs, hn1, hn2⟩ := hvs j hj
    refine ⟨hs, hn1, hn2, ?_⟩
    apply C05I.calcRightWs_fst_zero
    intro ht
    apply htab
    obtain ⟨p, q, hsrc, _, _⟩ := Lines.slice_eq_ok_iff.mp hs.1
    rw [hsrc]; simp [ht]) (by
    apply fa_chain_of
    intro j a a' ha ha'
    simp only [List.getElem?_map, Option.map_eq_some_iff] at ha ha'
    obtain ⟨x, hx, rfl⟩ := ha
    obtain ⟨y, hy, rfl⟩ := ha'
    obtain ⟨hj, rfl⟩ := List.getElem?_eq_some_iff.mp hx
    obtain ⟨hj', rfl⟩ := List.getElem?_eq_some_iff.mp hy
    have h1 := hord (b + j) (b + (j + 1)) _ _ (by omega) (hvs j hj).1 (hvs (j + 1) hj').1
    refine ⟨h1, ?_⟩
    rcases hterm _ _ (hvs j hj).1 with h2 | h2
    · exfalso
      have := (hT _ _ (hvs (j + 1) hj').1).bounds
      rw [C05I.linesLen_eq] at this
      omega
    · exact h2)
  simp only [List.nil_append, byteLen] at hseg
  rw [← hcontent] at hseg
  refine fa_pfth_of_seg (fa_seg_wf hseg ?_) hseg
  cases ovs with
  | nil => simp at hvl; omega
  | cons ov r => exact ⟨_, _, rfl⟩

/-! ## the one-entry table of an ATX heading -/

/-- a line-feed-free content that is `src[x .. x + |content|]`, with the table `[(0, x)]` -/
theorem fa_single_pfth {src content : List Char} {x : Nat}
    (hcut : Cut src x (x + byteLen content) content) (hn : '\n' ∉ content) :
    PFth src content [(0, x)] := by
  have hs : SegAll (fa_Seg src content) [(0, x)] :=
    ⟨⟨[], content, [], by simp, rfl, hn, hcut, rfl⟩, trivial⟩
  exact fa_pfth_of_seg (C05I.single_table content x).1 hs

/-- the text of a line, sliced: a line-feed-free copy of the source -/
theorem fa_heading_cut {src : List Char} {o : LineOffset} (hl : Block.LineOk src o)
    {line content : List Char} {textPos textMax : Nat}
    (hline : Lines.slice src o.firstNonspace o.lineEnd = .ok line)
    (hcontent : Lines.slice line textPos textMax = .ok content) :
    Cut src (o.firstNonspace + textPos) (o.firstNonspace + textPos + byteLen content) content ∧
      '\n' ∉ content := by
  have h1 := (cut_iff_lines _ _ _ _).mp hline
  have h2 := (cut_iff_lines _ _ _ _).mp hcontent
  have h1' : Cut src o.firstNonspace (o.firstNonspace + byteLen line) line := by
    have hh := h1
    obtain ⟨_, _, _, _, h⟩ := hh
    rw [h]; exact h1
  have h3 := fa_cut_sub h1' h2
  have h4 : textPos + byteLen content = textMax := by
    have hh := h2
    obtain ⟨_, _, _, _, h⟩ := hh
    exact h
  refine ⟨by rw [Nat.add_assoc, h4]; exact h3, ?_⟩
  -- the line text is the `b` of `LineOk`
  obtain ⟨p, a, b, q, hsrc, hp, hfn, hle, _, hb⟩ := hl
  have h5 : Cut src o.firstNonspace o.lineEnd b :=
    ⟨p ++ a, q, hsrc, by rw [C05.byteLen_append, ← C05I.linesLen_eq, ← C05I.linesLen_eq]; omega,
      by rw [← C05I.linesLen_eq]; omega⟩
  have h6 : line = b := h1.unique h5
  intro hm
  exact hb (h6 ▸ fa_cut_subset h2 _ hm)

end MdIt.C05R

namespace MdIt.Block
open MdIt.Lines (LineOffset)

/-- **the block pass establishes the full claim at every placeholder**: `PMapF`, faithfulness of the
    content in a tab-free document, and the stretch ends at the end of a line -/
theorem inlSpec3_pfull (src0 : List Char) : InlSpec3 src0 (PFull src0) := by
  refine ⟨?_, ?_⟩
  · intro s b e c m ob oe hg hgl hbe hob hoe hkept
    refine ⟨(inlSpec2_pmapF src0).lines s b e c m ob oe hg.g2 hgl hbe hob hoe hkept, ?_, ?_⟩
    · intro htab
      have := C05R.fa_getLines_pfth hg.g2.geo.table hg.g2.strict hg.term
        (by rw [hg.g2.srcEq]; exact htab) hbe (C05I.getLines_lift hgl)
      rw [hg.g2.srcEq] at this
      exact this
    · have := hg.term (e - 1) oe hoe
      rw [hg.g2.srcEq] at this
      exact this
  · intro s o line content textPos textMax hg ho hline hcontent
    refine ⟨(inlSpec2_pmapF src0).heading s o line content textPos textMax hg.g2 ho hline hcontent, ?_, ?_⟩
    · intro _
      have h1 : Lines.getLine s.src s.offs s.line = .ok line := liftL_ok5 hline
      unfold Lines.getLine at h1
      rw [ho] at h1
      simp only at h1
      obtain ⟨hc, hn⟩ := C05R.fa_heading_cut (hg.g2.geo.table _ _ ho) h1 (liftL_ok5 hcontent)
      rw [hg.g2.srcEq] at hc
      exact C05R.fa_single_pfth hc hn
    · have := hg.term s.line o ho
      rw [hg.g2.srcEq] at this
      exact this

end MdIt.Block

/-! ## non-vacuity -/

namespace MdIt.C05R
open MdIt.Lines (LineOffset)

/-- `"> a\n> b"` -/
def fa_exSrc : List Char := ['>', ' ', 'a', '\n', '>', ' ', 'b']

/-- its line table as the block-quote rule leaves it (`first_nonspace` behind the markers) -/
def fa_exOffs : List LineOffset := [⟨0, 3, 2, 0⟩, ⟨4, 7, 6, 0⟩]

/-- the block pass makes ONE placeholder for the quoted two-line paragraph: content `"a\nb"`, table
    `[(0,2),(2,6)]`; `bqRewrite` produces the two entries of `fa_exOffs`; `get_lines` on them returns
    that content and table -/
example : (Block.parseBlocks (Pipeline.exCfg false 100).blockCfg fa_exSrc).toOption.map
      (fun r => Pipeline.inlOf r.1) = some [(['a', '\n', 'b'], [(0, 2), (2, 6)])] ∧
    (Block.bqRewrite fa_exSrc ⟨0, 3, 0, 0⟩ [' ', 'a']).toOption.map (·.1) = some ⟨0, 3, 2, 0⟩ ∧
    (Block.bqRewrite fa_exSrc ⟨4, 7, 4, 0⟩ [' ', 'b']).toOption.map (·.1) = some ⟨4, 7, 6, 0⟩ ∧
    Lines.getLines fa_exSrc fa_exOffs 0 2 0 false = .ok (['a', '\n', 'b'], [(0, 2), (2, 6)]) := by
  decide +kernel

/-- the hypotheses of `fa_getLines_pfth` hold of that table … -/
theorem fa_ex_pfth : PFth fa_exSrc ['a', '\n', 'b'] [(0, 2), (2, 6)] := by
  have hT : ∀ (k : Nat) (o : LineOffset), fa_exOffs[k]? = some o → Block.LineOk fa_exSrc o := by
    intro k o h
    match k, h with
    | 0, h =>
      simp only [fa_exOffs, List.getElem?_cons_zero, Option.some.injEq] at h
      subst h
      exact ⟨[], ['>', ' '], ['a'], ['\n', '>', ' ', 'b'], by decide, by decide, by decide, by decide,
        by decide, by decide⟩
    | 1, h =>
      simp only [fa_exOffs, List.getElem?_cons_succ, List.getElem?_cons_zero, Option.some.injEq] at h
      subst h
      exact ⟨['>', ' ', 'a', '\n'], ['>', ' '], ['b'], [], by decide, by decide, by decide, by decide,
        by decide, by decide⟩
    | k + 2, h => simp [fa_exOffs] at h
  have hS : Block.SortedS fa_exOffs := by
    intro i j o o' hij hi hj
    match i, j, hij, hi, hj with
    | 0, 1, _, hi, hj =>
      simp only [fa_exOffs, List.getElem?_cons_succ, List.getElem?_cons_zero, Option.some.injEq] at hi hj
      subst hi hj
      decide
    | 0, j + 2, _, _, hj => simp [fa_exOffs] at hj
    | i + 1, j + 2, _, _, hj => simp [fa_exOffs] at hj
    | i + 1, 1, h, _, _ => omega
  have hterm : TermOk fa_exSrc fa_exOffs := by
    intro k o h
    match k, h with
    | 0, h =>
      simp only [fa_exOffs, List.getElem?_cons_zero, Option.some.injEq] at h
      subst h
      exact .inr ⟨['>', ' ', 'a'], '\n', ['>', ' ', 'b'], by decide, by decide, .inl rfl⟩
    | 1, h =>
      simp only [fa_exOffs, List.getElem?_cons_succ, List.getElem?_cons_zero, Option.some.injEq] at h
      subst h
      exact .inl (by decide)
    | k + 2, h => simp [fa_exOffs] at h
  exact fa_getLines_pfth hT hS hterm (by decide) (by decide : 0 < 2) (indent := 0) (by decide +kernel)

/-- … and `copy` maps the second line `c[2..3] = "b"` to `src[6..7]`; across the line feed
    (`c[0..3] = "a\nb"`, translated to `src[2..7]`) `brk` finds the line break of the source -/
example : Cut fa_exSrc 6 7 ['b'] ∧ ∀ w', Cut fa_exSrc 2 7 w' → ¬ NoBrk w' :=
  ⟨fa_ex_pfth.copy 2 3 ['b'] 6 7 ⟨['a', '\n'], [], by decide, by decide, by decide⟩ (by decide)
      (by decide +kernel) (by decide +kernel),
    fun w' h => fa_ex_pfth.brk 0 3 ['a', '\n', 'b'] 2 7 w' ⟨[], [], by decide, by decide, by decide⟩
      (by decide) (by decide +kernel) (by decide +kernel) h⟩

/-- the tab-free hypothesis is needed: `"- `\n\ta `"` (item content at column 2, the tab of the
    continuation line reaches column 4 and is split into two virtual spaces): the placeholder is
    `"`\n  a `"` with the table `[(0,2),(2,5),(4,5)]`; the stretch `c[2..4] = "  "` holds no line feed
    and is translated to `src[5..5] = ""`: `copy` fails -/
example : (Block.parseBlocks (Pipeline.exCfg false 100).blockCfg ['-', ' ', '`', '\n', '\t', 'a', ' ', '`']).toOption.map
      (fun r => Pipeline.inlOf r.1) = some [(['`', '\n', ' ', ' ', 'a', ' ', '`'], [(0, 2), (2, 5), (4, 5)])] ∧
    InlineOps.slice ['`', '\n', ' ', ' ', 'a', ' ', '`'] 2 4 = .ok [' ', ' '] ∧
    InlineOps.getSourcePosFor [(0, 2), (2, 5), (4, 5)] 2 = .ok 5 ∧
    InlineOps.getSourcePosFor [(0, 2), (2, 5), (4, 5)] 4 = .ok 5 ∧
    InlineOps.slice ['-', ' ', '`', '\n', '\t', 'a', ' ', '`'] 5 5 = .ok [] := by decide +kernel

end MdIt.C05R

/-! ## the weakest hypothesis: no virtual-space entry in THIS table (`C05I.NoVirt`) -/

namespace MdIt.C05R
open MdIt.InlineOps (Srcmap getSourcePosFor byteLen)
open MdIt.Lines (LineOffset Shows mapOf viewPiece joinLines calcRightWs usizeAsI32 dropB)
open MdIt.C05I (SegAll NoVirt)

theorem fa_noVirt_tail {x : Nat × Nat} {r : Srcmap} (h : NoVirt (x :: r)) : NoVirt r := by
  intro i k1 v1 k2 v2 h1 h2
  exact h (i + 1) k1 v1 k2 v2 (by simpa using h1) (by simpa using h2)

/-- a table of `get_lines` without virtual-space entry: no line had a split tab -/
theorem fa_noVirt_zero (indent : Nat) :
    ∀ (ovs : List (LineOffset × (List Char × List Char × Int))) (p : Nat),
      NoVirt (mapOf indent p ovs) →
      ∀ ov ∈ ovs, (calcRightWs ov.2.1 (ov.2.2.2 - usizeAsI32 indent)).1 = 0 := by
  intro ovs
  induction ovs with
  | nil => intro p _ ov h; simp at h
  | cons ov0 rest ih =>
    intro p hnv
    obtain ⟨o, v⟩ := ov0
    have h0 : (calcRightWs v.1 (v.2.2 - usizeAsI32 indent)).1 = 0 := by
      rcases Nat.eq_zero_or_pos (calcRightWs v.1 (v.2.2 - usizeAsI32 indent)).1 with h | h
      · exact h
      · exfalso
        have e : mapOf indent p ((o, v) :: rest)
            = (p, o.lineStart + (calcRightWs v.1 (v.2.2 - usizeAsI32 indent)).2) ::
              (p + (calcRightWs v.1 (v.2.2 - usizeAsI32 indent)).1,
                o.lineStart + (calcRightWs v.1 (v.2.2 - usizeAsI32 indent)).2) ::
              mapOf indent (p + Lines.byteLen (viewPiece indent v) + 1) rest := by
          simp [mapOf, h]
        rw [e] at hnv
        exact hnv 0 _ _ _ _ rfl rfl rfl
    rw [fa_mapOf_cons_novirt h0] at hnv
    have ih' := ih _ (fa_noVirt_tail hnv)
    intro ov hov
    rcases List.mem_cons.mp hov with rfl | hov
    · exact h0
    · exact ih' ov hov

/-- the common part of `fa_getLines_pfth` / `fa_getLines_pfth_nv`: `hz` supplies "no tab of the
    lines read is split" for whatever views the lines show -/
theorem fa_getLines_pfth_core {src : List Char} {offs : List LineOffset}
    (hT : ∀ (k : Nat) (o : LineOffset), offs[k]? = some o → Block.LineOk src o)
    (hord : Block.SortedS offs) (hterm : TermOk src offs)
    {b e indent : Nat} {c : List Char} {m : Srcmap} (hbe : b < e)
    (h : Lines.getLines src offs b e indent false = .ok (c, m))
    (hz : ∀ ovs : List (LineOffset × (List Char × List Char × Int)),
      (∀ ov ∈ ovs, Shows src ov.1 ov.2) → m = mapOf indent 0 ovs →
      ∀ ov ∈ ovs, (calcRightWs ov.2.1 (ov.2.2.2 - usizeAsI32 indent)).1 = 0) : PFth src c m := by
  have hlen : e ≤ offs.length := by
    unfold Lines.getLines at h
    rw [if_neg (by omega)] at h
    exact Lines.getLinesGo_ok_len h hbe
  obtain ⟨ovs, hvl, hvs⟩ := fa_ovs_of_tableOk hT (e - b) b (by omega)
  obtain ⟨content, hget, hcontent, _⟩ :=
    Lines.get_lines_faithful src offs b indent false ovs (fun j hj => ⟨(hvs j hj).1, (hvs j hj).2.1⟩)
  rw [hvl, show b + (e - b) = e by omega, h] at hget
  simp only [Except.ok.injEq, Prod.mk.injEq] at hget
  obtain ⟨rfl, hm⟩ := hget
  have hzero := hz ovs (by
    intro ov hov
    obtain ⟨j, hj, rfl⟩ := List.getElem_of_mem hov
    exact (hvs j hj).2.1) hm
  subst hm
  have hseg := fa_mapOf_seg src indent ovs [] (by
    intro ov hov
    have hz0 := hzero ov hov
    obtain ⟨j, hj, rfl⟩ := List.getElem_of_mem hov
    obtain ⟨_, hs, hn1, hn2⟩ := hvs j hj
    exact ⟨hs, hn1, hn2, hz0⟩) (by
    apply fa_chain_of
    intro j a a' ha ha'
    simp only [List.getElem?_map, Option.map_eq_some_iff] at ha ha'
    obtain ⟨x, hx, rfl⟩ := ha
    obtain ⟨y, hy, rfl⟩ := ha'
    obtain ⟨hj, rfl⟩ := List.getElem?_eq_some_iff.mp hx
    obtain ⟨hj', rfl⟩ := List.getElem?_eq_some_iff.mp hy
    have h1 := hord (b + j) (b + (j + 1)) _ _ (by omega) (hvs j hj).1 (hvs (j + 1) hj').1
    refine ⟨h1, ?_⟩
    rcases hterm _ _ (hvs j hj).1 with h2 | h2
    · exfalso
      have := (hT _ _ (hvs (j + 1) hj').1).bounds
      rw [C05I.linesLen_eq] at this
      omega
    · exact h2)
  simp only [List.nil_append, byteLen] at hseg
  rw [← hcontent] at hseg
  refine fa_pfth_of_seg (fa_seg_wf hseg ?_) hseg
  cases ovs with
  | nil => simp at hvl; omega
  | cons ov r => exact ⟨_, _, rfl⟩

/-- **`get_lines` is faithful** whenever the table it returns has no virtual-space entry (no tab of
    the lines read was split — the source may contain tabs) -/
theorem fa_getLines_pfth_nv {src : List Char} {offs : List LineOffset}
    (hT : ∀ (k : Nat) (o : LineOffset), offs[k]? = some o → Block.LineOk src o)
    (hord : Block.SortedS offs) (hterm : TermOk src offs)
    {b e indent : Nat} {c : List Char} {m : Srcmap} (hnv : C05I.NoVirt m) (hbe : b < e)
    (h : Lines.getLines src offs b e indent false = .ok (c, m)) : PFth src c m :=
  fa_getLines_pfth_core hT hord hterm hbe h (fun ovs _ hm => fa_noVirt_zero indent ovs 0 (hm ▸ hnv))

end MdIt.C05R

namespace MdIt.Block
open MdIt.Lines (LineOffset)

/-- `PFull` with the weakest hypothesis: faithfulness whenever THIS table has no virtual-space entry -/
def PFullV (src0 : List Char) : InlP := fun c m a b =>
  PMapF src0 c m a b ∧ (C05I.NoVirt m → C05R.PFth src0 c m) ∧
    (b = InlineOps.byteLen src0 ∨ C05R.BrkAt src0 b)

theorem inlSpec3_pfullV (src0 : List Char) : InlSpec3 src0 (PFullV src0) := by
  refine ⟨?_, ?_⟩
  · intro s b e c m ob oe hg hgl hbe hob hoe hkept
    refine ⟨(inlSpec2_pmapF src0).lines s b e c m ob oe hg.g2 hgl hbe hob hoe hkept, ?_, ?_⟩
    · intro hnv
      have := C05R.fa_getLines_pfth_nv hg.g2.geo.table hg.g2.strict hg.term hnv hbe
        (C05I.getLines_lift hgl)
      rw [hg.g2.srcEq] at this
      exact this
    · have := hg.term (e - 1) oe hoe
      rw [hg.g2.srcEq] at this
      exact this
  · intro s o line content textPos textMax hg ho hline hcontent
    exact ⟨((inlSpec3_pfull src0).heading s o line content textPos textMax hg ho hline hcontent).1,
      fun _ => by
        have h1 : Lines.getLine s.src s.offs s.line = .ok line := liftL_ok5 hline
        unfold Lines.getLine at h1
        rw [ho] at h1
        simp only at h1
        obtain ⟨hc, hn⟩ := C05R.fa_heading_cut (hg.g2.geo.table _ _ ho) h1 (liftL_ok5 hcontent)
        rw [hg.g2.srcEq] at hc
        exact C05R.fa_single_pfth hc hn,
      ((inlSpec3_pfull src0).heading s o line content textPos textMax hg ho hline hcontent).2.2⟩

/-- non-vacuity of the weaker hypothesis: `"> a\tb"` contains a tab that is not split; the table
    `[(0,2)]` is `NoVirt` -/
example : (parseBlocks (Pipeline.exCfg false 100).blockCfg ['>', ' ', 'a', '\t', 'b']).toOption.map
      (fun r => Pipeline.inlOf r.1) = some [(['a', '\t', 'b'], [(0, 2)])] ∧
    C05I.NoVirt [(0, 2)] :=
  ⟨by decide +kernel, (C05I.single_table [] 2).2.2.2.1⟩

end MdIt.Block
