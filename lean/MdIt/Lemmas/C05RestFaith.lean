/-
  C05, the remaining clauses: `get_lines` is FAITHFUL — the inline text of a placeholder is a copy of
  the source bytes at the offsets its table names (`C05R.PFth`), in a tab-free document.

  (i)  abstract part (no parser notions): a table `m` and a content `c` such that every entry
       `(k, v)` of `m` names a line-feed-free stretch `t` of `c` at byte `k` that is `src[v .. v+|t|]`,
       the stretch is followed in `c` by exactly one line feed and then the stretch of the next entry,
       the next entry's source offset lies strictly behind `v + |t|`, and a line break of the source
       starts at `v + |t|` (`fa_Seg`, at every entry: `C05I.SegAll (fa_Seg src c) m`)
       ⟹ `PFth src c m` (`fa_pfth_of_seg`).
  (ii) instantiation: the table `Lines.mapOf indent 0 ovs` and the content
       `joinLines false (ovs.map viewPiece)` of `get_lines` satisfy `fa_Seg` at every entry when no
       tab is split (`calcRightWs … .1 = 0`), the lines are strictly separated and every line but the
       last ends in front of a line break (`fa_mapOf_seg`, `fa_lines_pfth`, `fa_getLines_pfth`).
  deliverable: `Block.inlSpec3_pfull : InlSpec3 src0 (PFull src0)`.
-/
import MdIt.Lemmas.C05RestDefs

namespace MdIt.C05R
open MdIt.InlineOps (Srcmap getSourcePosFor byteLen)
open MdIt.Lines (LineOffset)
open MdIt.C05I (SegAll segAll_get)

/-! ## cuts of cuts -/

/-- a sub-cut of a cut -/
theorem fa_cut_sub {s t w : List Char} {a x y : Nat} (h : Cut s a (a + byteLen t) t) (h2 : Cut t x y w) :
    Cut s (a + x) (a + y) w := by
  obtain ⟨p, q, e, hp, _⟩ := h
  obtain ⟨p', q', e', hp', hy⟩ := h2
  refine ⟨p ++ p', q' ++ q, ?_, ?_, ?_⟩
  · rw [e, e']; simp [List.append_assoc]
  · rw [C05.byteLen_append]; omega
  · omega

/-- a cut of `pre ++ t ++ post` that lies inside `t` is a cut of `t` -/
theorem fa_cut_inside {pre t post w : List Char} {p q : Nat} (h : Cut (pre ++ t ++ post) p q w)
    (h1 : byteLen pre ≤ p) (h2 : q ≤ byteLen pre + byteLen t) :
    ∃ x y, p = byteLen pre + x ∧ q = byteLen pre + y ∧ Cut t x y w := by
  obtain ⟨P, Q, e, hP, hq⟩ := h
  have e1 : pre ++ (t ++ post) = P ++ (w ++ Q) := by
    rw [← List.append_assoc, ← List.append_assoc, ← e]
  obtain ⟨u, hu1, hu2⟩ := Inline.append_prefix pre (t ++ post) P (w ++ Q) e1 (by omega)
  have hlu : byteLen P = byteLen pre + byteLen u := by rw [hu1, C05.byteLen_append]
  have e2 : (u ++ w) ++ Q = t ++ post := by rw [hu2]; simp [List.append_assoc]
  obtain ⟨z, hz1, _⟩ := Inline.append_prefix (u ++ w) Q t post e2 (by rw [C05.byteLen_append]; omega)
  refine ⟨byteLen u, byteLen u + byteLen w, by omega, by omega, u, z, hz1, rfl, rfl⟩

theorem fa_cut_subset {s w : List Char} {a b : Nat} (h : Cut s a b w) : ∀ ch ∈ w, ch ∈ s := by
  obtain ⟨p, q, e, _, _⟩ := h
  intro ch hc
  rw [e]; simp [hc]

/-- the character that starts at a byte inside a cut belongs to the cut -/
theorem fa_mem_cut {s w P Q : List Char} {ch : Char} {a b : Nat} (h : Cut s a b w)
    (e : s = P ++ ch :: Q) (h1 : a ≤ byteLen P) (h2 : byteLen P < b) : ch ∈ w := by
  have hb : Bdy s (byteLen P) := ⟨P, ch :: Q, e, rfl⟩
  obtain ⟨w1, w2, rfl, c1, c2⟩ := h.split hb h1 (by omega)
  obtain ⟨p', q', e', hp', hb'⟩ := c2
  have e2 : P ++ (ch :: Q) = p' ++ (w2 ++ q') := by rw [← e, e', List.append_assoc]
  obtain ⟨_, e3⟩ := prefix_unique e2 (by omega)
  cases w2 with
  | nil => simp [byteLen] at hb'; omega
  | cons d w2' =>
    simp only [List.cons_append, List.cons.injEq] at e3
    obtain ⟨rfl, _⟩ := e3
    simp

/-! ## (i) the abstract lemma -/

/-- entry `x = (k, v)` of the table, followed by `next`: the content holds at byte `k` a stretch `t`
    without line feed which is `src[v .. v + |t|]`; it is the end of the content (last entry), or it is
    followed by ONE line feed, behind which the next entry's key points, the next entry's source
    offset lies strictly behind `v + |t|` and a line break of the source starts at `v + |t|` -/
def fa_Seg (src c : List Char) (x : Nat × Nat) (next : Option (Nat × Nat)) : Prop :=
  ∃ pre t post, c = pre ++ t ++ post ∧ byteLen pre = x.1 ∧ '\n' ∉ t ∧
    Cut src x.2 (x.2 + byteLen t) t ∧
    match next with
    | none => post = []
    | some y => ∃ post', post = '\n' :: post' ∧ y.1 = x.1 + byteLen t + 1 ∧ x.2 + byteLen t < y.2 ∧
        BrkAt src (x.2 + byteLen t)

theorem fa_seg_mono {src c : List Char} {m : Srcmap} (hs : SegAll (fa_Seg src c) m) : C05.MonoMap m := by
  intro i k1 v1 k2 v2 h1 h2
  have := segAll_get hs h1
  rw [h2] at this
  obtain ⟨pre, t, post, _, _, _, _, post', _, hk, hv, _⟩ := this
  simp only at hk hv
  omega

/-- the line of a position -/
theorem fa_locate {src c : List Char} {m : Srcmap} (hw : C05.WFMap m) (hs : SegAll (fa_Seg src c) m)
    {p a : Nat} (ha : getSourcePosFor m p = .ok a) :
    ∃ i k v, m[i]? = some (k, v) ∧ k ≤ p ∧ a = v + (p - k) ∧ fa_Seg src c (k, v) m[i + 1]? ∧
      ∀ y, m[i + 1]? = some y → p < y.1 := by
  obtain ⟨i, k, v, h1, h2, h3, h4⟩ := C05.lineOf_spec m hw p
  rw [C05.getSourcePosFor_of_line m p i k v h1 h2 h3] at ha
  simp only [Except.ok.injEq] at ha
  exact ⟨i, k, v, h2, h3, ha.symm, segAll_get hs h2, fun y hy => h4 (i + 1) y.1 y.2 (by omega) hy⟩

/-- **(i)**: a table all of whose entries are `fa_Seg` is faithful -/
theorem fa_pfth_of_seg {src c : List Char} {m : Srcmap} (hw : C05.WFMap m)
    (hs : SegAll (fa_Seg src c) m) : PFth src c m := by
  refine ⟨?_, ?_⟩
  · -- copy
    intro p q w a b hc hn ha hb
    obtain ⟨i, k, v, hi, hk, rfl, ⟨pre, t, post, hcc, hpre, hnt, hsrc, hnext⟩, hlt⟩ := fa_locate hw hs ha
    simp only at hpre hsrc
    have hpq := hc.le
    -- `q` is inside the line
    have hq : q ≤ k + byteLen t := by
      cases hn1 : m[i + 1]? with
      | none =>
        rw [hn1] at hnext
        subst hnext
        have := hc.bdy_right.le
        rw [hcc] at this
        simp only [C05.byteLen_append, List.append_nil] at this
        omega
      | some y =>
        rw [hn1] at hnext
        obtain ⟨post', rfl, hy1, _, _⟩ := hnext
        have hp := hlt y hn1
        rcases Nat.lt_or_ge (k + byteLen t) q with hgt | hle
        · exfalso
          apply hn
          refine fa_mem_cut (P := pre ++ t) (Q := post') hc (by rw [hcc]) ?_ ?_
          · rw [C05.byteLen_append]; omega
          · rw [C05.byteLen_append]; omega
        · exact hle
    -- so `q` is translated by the same entry
    have hb' : getSourcePosFor m q = .ok (v + (q - k)) := by
      apply C05.translate_segment m hw q i k v hi (by omega)
      intro k' v' hn1
      rw [hn1] at hnext
      obtain ⟨post', _, hy1, _, _⟩ := hnext
      simp only at hy1
      omega
    rw [hb'] at hb
    simp only [Except.ok.injEq] at hb
    subst hb
    rw [hcc] at hc
    obtain ⟨x, y, hx, hy, hxy⟩ := fa_cut_inside hc (by omega) (by omega)
    have := fa_cut_sub hsrc hxy
    rw [show v + (p - k) = v + x by omega, show v + (q - k) = v + y by omega]
    exact this
  · -- brk
    intro p q w a b w' hc hn ha hb hw'
    obtain ⟨i, k, v, hi, hk, rfl, ⟨pre, t, post, hcc, hpre, hnt, hsrc, hnext⟩, hlt⟩ := fa_locate hw hs ha
    simp only at hpre hsrc
    have hpq := hc.le
    have hq : k + byteLen t < q := by
      rcases Nat.lt_or_ge (k + byteLen t) q with hgt | hle
      · exact hgt
      · exfalso
        rw [hcc] at hc
        obtain ⟨x, y, hx, hy, hxy⟩ := fa_cut_inside hc (by omega) (by omega)
        exact hnt (fa_cut_subset hxy _ hn)
    cases hn1 : m[i + 1]? with
    | none =>
      exfalso
      rw [hn1] at hnext
      subst hnext
      have := hc.bdy_right.le
      rw [hcc] at this
      simp only [C05.byteLen_append, List.append_nil] at this
      omega
    | some y =>
      rw [hn1] at hnext
      obtain ⟨post', rfl, hy1, hy2, hbrk⟩ := hnext
      simp only at hy1 hy2 hbrk
      have hp := hlt y hn1
      -- `tr y.1 = y.2`
      have hty : getSourcePosFor m y.1 = .ok y.2 := by
        have := C05.translate_affine m hw (i + 1) y.1 y.2 0 hn1 (by
          intro k' v' h2
          obtain ⟨h3, e3⟩ := C05.getElem?_key m (i + 1) y.1 y.2 hn1
          obtain ⟨h4, e4⟩ := C05.getElem?_key m (i + 1 + 1) k' v' h2
          have := List.pairwise_iff_getElem.mp hw.sorted (i + 1) (i + 1 + 1) h3 h4 (by omega)
          omega)
        simpa using this
      have hmono := C05.translate_mono m hw (fa_seg_mono hs) y.1 q (by omega) _ _ hty hb
      exact hbrk.mem_cut hw' (by omega) (by omega)

end MdIt.C05R
