/-
  C10 with the sourcepos plugin, full version, part 3: the facts about the two block trees, in the form
  the splice lemmas of `Lemmas/C10SpFullDoc.lean` / `Lemmas/C10SourceposDoc.lean` consume.

    * `mrel_shift`, `mapOK_shift`, `mle_shift`   the table of the CR LF document is `shiftMap` of the LF one,
                                                 and as good a table;
    * `bokL_of_facts`   block anchoring (`Block.parseBlocks_anchored`) + the claim about placeholders ⇒ `BOkL`;
    * `plL2_of_nrelL`   the strict block relation (`Block.LX.Y.parseBlocks_crlf_strict`) ⇒ `PlL2`.
-/
import MdIt.Lemmas.C10SpFullDoc
import MdIt.Lemmas.C10SpFullBlock

namespace MdIt.Pipeline
open MdIt
open MdIt.InlineOps (Srcmap getSourcePosFor byteLen)
open MdIt.C05I (NoVirt SegAll segAll_get)
open MdIt.C05R (fa_Seg Cut)

/-! ## the table of the CR LF document -/

theorem mrel_shift (src : List Char) : ∀ (m₁ m₂ : Srcmap), Block.LE.MRel (C10SP.crlfRel src) m₁ m₂ →
    m₂ = shiftMap src m₁
  | [], [], _ => rfl
  | [], _ :: _, h => h.elim
  | _ :: _, [], h => h.elim
  | (k₁, v₁) :: r₁, (k₂, v₂) :: r₂, h => by
    obtain ⟨hk, hv, hr⟩ := h
    simp only at hk hv
    unfold C10SP.crlfRel at hv
    subst hk hv
    have := mrel_shift src r₁ r₂ hr
    simp only [shiftMap, List.map_cons] at this ⊢
    rw [this]

theorem mle_shift (src : List Char) (m : Srcmap) : MLe m (shiftMap src m) := by
  refine ⟨(shiftMap_keys src m).symm, ?_⟩
  intro i k₁ v₁ k₂ v₂ h1 h2
  rw [shiftMap_get, h1] at h2
  simp only [Option.map_some, Option.some.injEq, Prod.mk.injEq] at h2
  omega

theorem mapOK_shift {src c : List Char} {m : Srcmap} (h : TabOK src c m) : Inline.MapOK c (shiftMap src m) := by
  refine ⟨⟨?_, ?_⟩, ?_, ?_⟩
  · obtain ⟨v, rest, hm⟩ := h.wf.first
    exact ⟨v + C10SP.lfBelow src v, shiftMap src rest, by rw [hm]; simp [shiftMap]⟩
  · rw [shiftMap_keys]; exact h.wf.sorted
  · intro i k1 v1 k2 v2 h1 h2
    rw [shiftMap_get] at h1 h2
    cases hm1 : m[i]? with
    | none => rw [hm1] at h1; simp at h1
    | some x =>
      cases hm2 : m[i + 1]? with
      | none => rw [hm2] at h2; simp at h2
      | some y =>
        rw [hm1] at h1; rw [hm2] at h2
        simp only [Option.map_some, Option.some.injEq, Prod.mk.injEq] at h1 h2
        obtain ⟨rfl, rfl⟩ := h1
        obtain ⟨rfl, rfl⟩ := h2
        obtain ⟨pre, t, post, _, _, hnt, hcut, hnext⟩ := segAll_get h.seg hm1
        rw [hm2] at hnext
        obtain ⟨post', _, hk, hv, _⟩ := hnext
        have hlf := lfBelow_cut hcut hnt (byteLen t) (Nat.le_refl _)
        have hmono := lfBelow_mono src (a := x.2 + byteLen t) (b := y.2) (by omega)
        omega
  · intro i k v hi hk
    rw [shiftMap_get] at hi
    cases hm : m[i]? with
    | none => rw [hm] at hi; simp at hi
    | some x =>
      rw [hm] at hi
      simp only [Option.map_some, Option.some.injEq, Prod.mk.injEq] at hi
      obtain ⟨rfl, _⟩ := hi
      exact h.map.lf i x.1 x.2 hm hk

/-! ## the block tree of `src`: `BOkL` -/

theorem allInl_mp {Q R : List Char → List (Nat × Nat) → Prop} {n : Block.BNode}
    (h1 : Block.AllInl (fun c m => Q c m → R c m) n) (h2 : Block.AllInl Q n) : Block.AllInl R n := by
  induction h1 with
  | mk n ha _ ih =>
    exact .mk n (fun c m hk hr => ha c m hk hr (h2.here c m hk hr)) (fun c hc => ih c hc (h2.child c hc))

mutual
theorem bok_of_facts {P : Nat → Nat → Prop} {Q : List Char → Srcmap → Prop} :
    ∀ (n : Block.BNode), Block.AllRangesL P n.children → (∀ c ∈ n.children, Block.AllInl Q c) →
      (∀ c ∈ n.children, InlNoRange c) →
      BOk (fun _ r => ∀ a b, r = some (a, b) → P a b) Q n
  | ⟨k, r, cs⟩, h1, h2, h3 => by
    simp only [BOk]
    exact bokL_of_facts cs h1 h2 h3
theorem bokL_of_facts {P : Nat → Nat → Prop} {Q : List Char → Srcmap → Prop} :
    ∀ (cs : List Block.BNode), Block.AllRangesL P cs → (∀ c ∈ cs, Block.AllInl Q c) →
      (∀ c ∈ cs, InlNoRange c) →
      BOkL (fun _ r => ∀ a b, r = some (a, b) → P a b) Q cs
  | [], _, _, _ => by simp only [BOkL]
  | c :: rest, h1, h2, h3 => by
    simp only [Block.AllRangesL] at h1
    simp only [BOkL]
    refine ⟨?_, bokL_of_facts rest h1.2 (fun y hy => h2 y (List.mem_cons_of_mem _ hy))
      (fun y hy => h3 y (List.mem_cons_of_mem _ hy))⟩
    have hc2 := h2 c (by simp)
    have hc3 := h3 c (by simp)
    have hc1 := h1.1
    cases hk : c.kind with
    | inlineRoot ct m =>
      simp only
      exact hc2.here ct m hk (hc3.at ct m hk)
    | _ =>
      simp only
      obtain ⟨k, r, cs⟩ := c
      simp only [Block.AllRanges] at hc1
      exact ⟨hc1.1, bok_of_facts ⟨k, r, cs⟩ hc1.2 hc2.child hc3.child⟩
end

/-! ## the two block trees: `PlL2` -/

mutual
theorem plN2_of_nrel {src : List Char} {Q : List Char → Srcmap → Prop}
    {P : List Char → Srcmap → Srcmap → Prop} (hQ : ∀ c m, Q c m → P c m (shiftMap src m)) :
    ∀ (x y : Block.BNode), Block.LX.Y.NRel (Block.LX.Y.crlfRg src) (C10SP.crlfRel src) x y →
      (∀ c ∈ x.children, Block.AllInl Q c) → (∀ c ∈ x.children, InlNoRange c) → PlN2 P x y
  | ⟨k₁, r₁, c₁⟩, ⟨k₂, r₂, c₂⟩, hn, h2, h3 => by
    simp only [PlN2]
    exact plL2_of_nrelL hQ c₁ c₂ hn.children h2 h3
theorem plL2_of_nrelL {src : List Char} {Q : List Char → Srcmap → Prop}
    {P : List Char → Srcmap → Srcmap → Prop} (hQ : ∀ c m, Q c m → P c m (shiftMap src m)) :
    ∀ (xs ys : List Block.BNode), Block.LX.Y.NRelL (Block.LX.Y.crlfRg src) (C10SP.crlfRel src) xs ys →
      (∀ c ∈ xs, Block.AllInl Q c) → (∀ c ∈ xs, InlNoRange c) → PlL2 P xs ys
  | [], _, _, _, _ => by simp only [PlL2]
  | _ :: _, [], _, _, _ => by simp only [PlL2]
  | x :: xs, y :: ys, hn, h2, h3 => by
    obtain ⟨hxy, hrest⟩ := hn.cons_inv
    simp only [PlL2]
    refine ⟨?_, plL2_of_nrelL hQ xs ys hrest (fun c hc => h2 c (List.mem_cons_of_mem _ hc))
      (fun c hc => h3 c (List.mem_cons_of_mem _ hc))⟩
    have hx2 := h2 x (by simp)
    have hx3 := h3 x (by simp)
    have hk := hxy.kind
    cases hkx : x.kind with
    | inlineRoot c m₁ =>
      rw [hkx] at hk
      rcases hk with ⟨_, hne⟩ | ⟨c', a, b, e1, e2, hm⟩
      · exact absurd rfl (hne _ _)
      · cases e1
        rw [e2]
        simp only
        have := mrel_shift src _ _ hm
        subst this
        exact hQ c m₁ (hx2.here c m₁ hkx (hx3.at c m₁ hkx))
    | _ =>
      have hky : y.kind = x.kind :=
        hk.eq_of_not_inline (by intro c m e; rw [hkx] at e; cases e)
      rw [hky, hkx]
      simp only
      exact plN2_of_nrel hQ x y hxy hx2.child hx3.child
end

end MdIt.Pipeline
