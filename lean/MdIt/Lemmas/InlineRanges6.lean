/-
  Helper development for `Props/Inline.lean`: source ranges, part 6 — the link rule, one step of
  the tokenizer loop, and the induction on fuel (partial correctness).
-/
import MdIt.Lemmas.InlineRanges5
import MdIt.Lemmas.InlineCalm

namespace MdIt.Inline
open MdIt.InlineOps (Srcmap getSourcePosFor getMap byteLen slice)
open MdIt.C05 (WFMap MonoMap byteLen_append slice_ok_iff)

/-- what a rule call in real mode leaves behind: same text, the frame invariant at the position the
    tokenizer continues from, and an unchanged `pos` when the rule declined -/
structure StepOK (lo : Nat) (st : IState) (o : Option Nat) (st' : IState) : Prop where
  src : st'.src = st.src
  srcmap : st'.srcmap = st.srcmap
  ri : RI st.src st.srcmap lo (st'.pos + o.getD 0) st'.children
  pos : o = none → st'.pos = st.pos

/-- `tok` keeps the frame invariant (of whatever frame it is called for) -/
def RangesFn (tok : IState → Except Panic IState) : Prop :=
  ∀ lo s s', MapOK s.src s.srcmap → tok s = .ok s' → RInv lo s →
    s'.src = s.src ∧ s'.srcmap = s.srcmap ∧ RInv lo s'

theorem StepOK.ofSimple {lo : Nat} {st st' : IState} {o : Option Nat} (hs : Simple st false o st')
    (h : StepRI lo st o st') : StepOK lo st o st' :=
  ⟨hs.frame.src, hs.frame.srcmap, h, fun _ => hs.pos⟩

theorem stepOK_calm {lo : Nat} {st st' : IState} (hi : RInv lo st) (hc : Calm st st')
    (hp : st'.pos = st.pos) : StepOK lo st none st' := by
  refine ⟨hc.src, hc.srcmap, ?_, fun _ => hp⟩
  simp only [Option.getD_none, Nat.add_zero]
  rw [hp, hc.children]; exact hi

theorem linkRule_ranges {cfg : Cfg} {skip tok : IState → Except Panic IState} (hq : CalmFn skip)
    (ht : RangesFn tok) {fuel : Nat} {mk : List Nat → Option (List Char) → Val}
    (hmk : ∀ u t, ∀ c, mk u t ≠ .text c) (hmk2 : ∀ u t r cs, (Node.mk (mk u t) r cs).asMarker = none)
    {en : Bool} {offset : Nat} {lo : Nat} {st : IState} {o : Option Nat} {st' : IState}
    (hm : MapOK st.src st.srcmap) (hi : RInv lo st)
    (h : linkRule cfg skip tok fuel mk en offset st false = .ok (o, st')) : StepOK lo st o st' := by
  unfold linkRule at h
  simp only at h
  split at h
  · simp at h
  · next st1 hpl =>
    simp only [Except.ok.injEq, Prod.mk.injEq] at h; obtain ⟨rfl, rfl⟩ := h
    exact stepOK_calm hi (parseLink_calm hq hpl) (parseLink_pos hpl)
  · next res st1 hpl =>
    have hc := parseLink_calm hq hpl
    have hp := parseLink_pos hpl
    simp only [Bool.false_eq_true, if_false] at h
    split at h
    · simp at h
    · next st3 htok =>
      split at h
      · simp at h
      · split at h
        · simp at h
        · next r hr =>
          split at h
          · simp at h
          · next hnu =>
            simp only [Except.ok.injEq, Prod.mk.injEq] at h; obtain ⟨rfl, rfl⟩ := h
            -- the nested frame
            have hm1 : MapOK st1.src st1.srcmap := by rw [hc.src, hc.srcmap]; exact hm
            obtain ⟨lo', hlo'⟩ := C05.translate_total st1.srcmap hm1.wf res.labelStart
            have hnest : RInv lo' (IState.mk st1.src st1.srcmap res.labelStart res.labelEnd
                (st1.level + 1) (st1.linkLevel + 1) st1.cache st1.backticks [] []) :=
              ⟨⟨lo', hlo', Nat.le_refl _⟩, trivial, markersOK_nil,
                by intro init last hcs; simp at hcs⟩
            obtain ⟨hs3, hm3, hri3⟩ := ht lo' (IState.mk st1.src st1.srcmap res.labelStart res.labelEnd
                (st1.level + 1) (st1.linkLevel + 1) st1.cache st1.backticks [] []) st3 hm1 htok hnest
            have hs3' : st3.src = st1.src := hs3
            have hm3' : st3.srcmap = st1.srcmap := hm3
            clear hs3 hm3
            have hs3 := hs3'
            have hm3 := hm3'
            obtain ⟨rx, ry⟩ := r
            obtain ⟨e1, e2, hle⟩ := getMap_eq (liftR_ok.mp hr)
            rw [hm3, hc.srcmap] at e1 e2
            obtain ⟨h3, hh3, hord3⟩ := hri3.ord
            rw [hm3, hc.srcmap] at hh3
            rw [hc.srcmap] at hlo'
            refine ⟨by simp only; rw [hs3]; exact hc.src, by simp only; rw [hm3]; exact hc.srcmap, ?_,
              by intro hh; simp at hh⟩
            simp only [Option.getD_some]
            have epos : st3.pos + (res.endPos - st3.pos) = res.endPos := by omega
            rw [epos, hc.children]
            -- children of the new node lie inside its range
            have hls := parseLink_labelStart hpl
            have hlo1 := tr_mono hm (by omega : st.pos ≤ res.labelStart) e1 hlo'
            have hhi1 := tr_mono hm (by omega : st3.pos ≤ res.endPos) hh3 e2
            have hwr : WellRanged (Node.mk (mk (res.href.getD []) res.title) (some (rx, ry)) st3.children) := by
              rw [WellRanged_eq]
              exact ⟨⟨rx, ry, rfl, tr_mono hm hle e1 e2, hord3.widen hlo1 hhi1⟩, hri3.deep⟩
            have hnt : (Node.mk (mk (res.href.getD []) res.title) (some (rx, ry)) st3.children).isText = false := by
              unfold Node.isText
              have := hmk (res.href.getD []) res.title
              cases hv : mk (res.href.getD []) res.title <;> simp_all
            exact RI.push hi e1 e2 rfl (Nat.le_refl _) (tr_mono hm hle e1 e2) (Nat.le_refl _) hwr hnt
              (hmk2 _ _ _ _)

theorem runRule_ranges {cfg : Cfg} {skip tok : IState → Except Panic IState} (hq : CalmFn skip)
    (ht : RangesFn tok) {fuel : Nat} {id : RuleId} {lo : Nat} {st : IState} {o : Option Nat}
    {st' : IState} (hm : MapOK st.src st.srcmap) (hi : RInv lo st)
    (h : runRule cfg skip tok fuel id st false = .ok (o, st')) : StepOK lo st o st' := by
  unfold runRule at h
  cases id with
  | text =>
    have h' := liftR_ok.mp h
    exact StepOK.ofSimple (ruleText_simple h') (ruleText_ranges hm hi h')
  | newline =>
    have h' := liftR_ok.mp h
    exact StepOK.ofSimple (ruleNewline_simple h') (ruleNewline_ranges hm hi h')
  | escape =>
    have h' := liftR_ok.mp h
    exact StepOK.ofSimple (ruleEscape_simple h') (ruleEscape_ranges hm hi h')
  | backticks =>
    have h' := liftR_ok.mp h
    exact StepOK.ofSimple (ruleBackticks_simple h') (ruleBackticks_ranges hm hi h')
  | emph mk csw =>
    have h' := liftR_ok.mp h
    exact StepOK.ofSimple (ruleEmph_simple h') (ruleEmph_ranges hm hi h')
  | link =>
    simp only at h
    unfold ruleLink at h
    split at h
    · simp at h
    · simp at h
    · split at h
      · simp only [Except.ok.injEq, Prod.mk.injEq] at h; obtain ⟨rfl, rfl⟩ := h
        exact stepOK_calm hi (Calm.refl _) rfl
      · exact linkRule_ranges hq ht (by intro u t c hc; cases hc) (by intro u t r cs; rfl) hm hi h
  | image =>
    simp only at h
    unfold ruleImage at h
    split at h
    · simp at h
    · exact linkRule_ranges hq ht (by intro u t c hc; cases hc) (by intro u t r cs; rfl) hm hi h
    · simp only [Except.ok.injEq, Prod.mk.injEq] at h; obtain ⟨rfl, rfl⟩ := h
      exact stepOK_calm hi (Calm.refl _) rfl
  | linkEnd =>
    simp only [Except.ok.injEq, Prod.mk.injEq] at h; obtain ⟨rfl, rfl⟩ := h
    exact stepOK_calm hi (Calm.refl _) rfl
  | autolink =>
    have h' := liftR_ok.mp h
    exact StepOK.ofSimple (ruleAutolink_simple h') (ruleAutolink_ranges hm hi h')
  | entity =>
    have h' := liftR_ok.mp h
    exact StepOK.ofSimple (ruleEntity_simple h') (ruleEntity_ranges hm hi h')

theorem firstRule_ranges {run : RuleId → IState → RuleRes} {lo : Nat}
    (hrun : ∀ id s o s', MapOK s.src s.srcmap → RInv lo s → run id s = .ok (o, s') → StepOK lo s o s') :
    ∀ (rules : List RuleId) (st : IState) (o : Option Nat) (st' : IState),
      MapOK st.src st.srcmap → RInv lo st → firstRule run rules st = .ok (o, st') →
      StepOK lo st o st' := by
  intro rules
  induction rules with
  | nil =>
    intro st o st' hm hi h
    simp only [firstRule, Except.ok.injEq, Prod.mk.injEq] at h; obtain ⟨rfl, rfl⟩ := h
    exact stepOK_calm hi (Calm.refl _) rfl
  | cons r rs ih =>
    intro st o st' hm hi h
    unfold firstRule at h
    split at h
    · simp at h
    · next n st1 hr =>
      simp only [Except.ok.injEq, Prod.mk.injEq] at h; obtain ⟨rfl, rfl⟩ := h
      exact hrun _ _ _ _ hm hi hr
    · next st1 hr =>
      have s1 := hrun _ _ _ _ hm hi hr
      have hi1 : RInv lo st1 := by
        have := s1.ri
        simp only [Option.getD_none, Nat.add_zero] at this
        unfold RInv; rw [s1.src, s1.srcmap]; exact this
      have hm1 : MapOK st1.src st1.srcmap := by rw [s1.src, s1.srcmap]; exact hm
      have s2 := ih st1 o st' hm1 hi1 h
      refine ⟨s2.src.trans s1.src, s2.srcmap.trans s1.srcmap, ?_, ?_⟩
      · have := s2.ri; rw [s1.src, s1.srcmap] at this; exact this
      · intro ho; rw [s2.pos ho, s1.pos rfl]

theorem tokStep_ranges {cfg : Cfg} {skip tok : IState → Except Panic IState} (hq : CalmFn skip)
    (ht : RangesFn tok) {fuel : Nat} {lo : Nat} {st st' : IState} (hm : MapOK st.src st.srcmap)
    (hi : RInv lo st) (h : tokStep cfg skip tok fuel st = .ok st') :
    st'.src = st.src ∧ st'.srcmap = st.srcmap ∧ RInv lo st' := by
  have hok : ∀ o st1, (if st.level < cfg.maxNesting then
        firstRule (fun id s => runRule cfg skip tok fuel id s false) cfg.chain st
      else .ok (none, st)) = .ok (o, st1) → StepOK lo st o st1 := by
    intro o st1 hh
    split at hh
    · exact firstRule_ranges (fun id s o s' hms his hr => runRule_ranges hq ht hms his hr) _ _ _ _ hm hi hh
    · simp only [Except.ok.injEq, Prod.mk.injEq] at hh; obtain ⟨rfl, rfl⟩ := hh
      exact stepOK_calm hi (Calm.refl _) rfl
  unfold tokStep at h
  simp only at h
  split at h
  · simp at h
  · next len st1 hr =>
    simp only [Except.ok.injEq] at h; subst h
    have s1 := hok _ _ hr
    refine ⟨s1.src, s1.srcmap, ?_⟩
    have := s1.ri
    simp only [Option.getD_some] at this
    unfold RInv; simp only; rw [s1.src, s1.srcmap]; exact this
  · next st1 hr =>
    have s1 := hok _ _ hr
    have hi1 : RInv lo st1 := by
      have := s1.ri
      simp only [Option.getD_none, Nat.add_zero] at this
      unfold RInv; rw [s1.src, s1.srcmap]; exact this
    have hm1 : MapOK st1.src st1.srcmap := by rw [s1.src, s1.srcmap]; exact hm
    split at h
    · simp at h
    · next ch hch =>
      split at h
      · simp at h
      · next st2 hp =>
        simp only [Except.ok.injEq] at h; subst h
        have hp' := liftR_ok.mp hp
        have := fallback_ranges hm1 hi1 hp'
        obtain ⟨cs, _, rfl⟩ := pushText_eq hp'
        exact ⟨s1.src, s1.srcmap, this⟩

/-- **the frame invariant through the whole tokenizer** (partial correctness, any fuel) -/
theorem ranges_induction (cfg : Cfg) : ∀ fuel : Nat,
    ∀ (e lo : Nat) (st st' : IState), MapOK st.src st.srcmap → tokLoop cfg fuel e st = .ok st' →
      RInv lo st → st'.src = st.src ∧ st'.srcmap = st.srcmap ∧ RInv lo st' := by
  intro fuel
  induction fuel with
  | zero =>
    intro e lo st st' hm h hi
    unfold tokLoop at h
    split at h
    · simp at h
    · simp only [Except.ok.injEq] at h; subst h; exact ⟨rfl, rfl, hi⟩
  | succ f ih =>
    intro e lo st st' hm h hi
    unfold tokLoop at h
    split at h
    · simp only at h
      split at h
      · simp at h
      · next st1 hstep =>
        have ht : RangesFn (fun s => tokLoop cfg f s.posMax s) :=
          fun lo s s' hms hr his => ih _ lo s s' hms hr his
        obtain ⟨a, b, c⟩ := tokStep_ranges (skipToken_calm cfg f) ht hm hi hstep
        have hm1 : MapOK st1.src st1.srcmap := by rw [a, b]; exact hm
        obtain ⟨a', b', c'⟩ := ih e lo st1 st' hm1 h c
        exact ⟨a'.trans a, b'.trans b, c'⟩
    · simp only [Except.ok.injEq] at h; subst h; exact ⟨rfl, rfl, hi⟩

end MdIt.Inline
