/-
  Helper development for `Props/MemoSafe.lean`, second part: THE NESTED FRAMES.

  Inside a nested label frame (the `tokenize` call the real link rule makes on `[labelStart, labelEnd)`)
  the memo `m` is constant and `skip_token` never misses it: the real tokenizer walks along the memo
  entries of the label walk that found `labelEnd` (`NF.outer`, `Lemmas/MemoSafeLamNF.lean`), and each of
  its steps at a position `k` with entry `k ↦ v` is the step the look-ahead took when it MADE the entry
  (the witness `Just`, `Lemmas/MemoSafeLamDef.lean`).  Consequently the guarded nested run EQUALS the
  model's nested run and leaves the memo alone (`nested_eq`), under the per-rule comparison statements
  (L2) of `Lemmas/MemoSafeLamNF.lean`, bundled in `NestHyps`.

    * `over_limit`       — frames at `level ≥ max_nesting`: the chain does not run at all;
    * `rule_L2`          — one rule of the chain: witness call (look-ahead, top `pos_max`) against the
                           real call in the nested frame, guarded side = model side;
    * `chain_L2`         — the chain (induction over a suffix of `cfg.chain`);
    * `outer_marker_run` — a real delimiter run covers single-character look-ahead tokens;
    * `nested_step`      — one iteration of the loop keeps `NF`;
    * `nested_eq`        — the induction on fuel (`nested_tokEq`: the same in the `TokEqAt` shape of
                           `Lemmas/MemoSafeLamTop.lean`).

  Nothing is OPEN here.  NOTE on `B` (the code-span cache invariant): the witness `Just` gives `B` for
  the state the look-ahead step started from, and nothing says the witness's `skip_token` preserves `B`,
  so `B` of the INTERMEDIATE witness states (behind a declining look-ahead link / image call, which ran
  `skip_token`) is not available in general.  It is only needed at a backtick (`BackL2`), where the
  link / image rules decline on the first character and every other flat look-ahead rule returns the
  state it was given (`wit_back`); at any other character the code-span rule declines with the state
  unchanged in both modes (`backticks_other`) and `BackL2` is not used.
-/
import MdIt.Lemmas.MemoSafeLamNF
import MdIt.Lemmas.MemoSafeLamWalk
import MdIt.Lemmas.MemoSafeEntry

namespace MdIt.Inline
open MdIt.InlineOps (Srcmap getSourcePosFor getMap byteLen slice)
open MdIt.C05 (WFMap MonoMap byteLen_append slice_ok_iff)

/-- the hypotheses of the nested induction: a coherent chain with at most one link / image rule, and
    the per-rule comparison statements of `Lemmas/MemoSafeLamNF.lean` -/
structure NestHyps (cfg : Cfg) (B : List Char → CodePair.Cache → Prop) (src : List Char) (Mtop : Nat) :
    Prop where
  coh : ChainCoherent cfg = true
  hB : BackOK B
  flat : FlatL2 cfg
  back : RuleId.backticks ∈ cfg.chain → BackL2 cfg B src Mtop
  keep : RealKeeps cfg
  emph : EmphL2 cfg
  plLink : RuleId.link ∈ cfg.chain → ParseLinkL2Part cfg B src Mtop 0 false
  plImage : RuleId.image ∈ cfg.chain → ParseLinkL2Part cfg B src Mtop 1 true
  one : cfg.chain.count .link ≤ 1 ∧ cfg.chain.count .image ≤ 1

/-! ## step 0: frames over the nesting limit -/

/-- the fall-back of the tokenizer loop (one character to the pending text) -/
theorem fallback_keeps {st1 st' : IState}
    (h : (match firstChar st1 with
        | .error e => .error e
        | .ok ch =>
          match liftR (st1.pushText st1.pos (st1.pos + ch.utf8Size)) with
          | .error e => .error e
          | .ok st'' => .ok { st'' with pos := st''.pos + ch.utf8Size }) = (.ok st' : Except Panic IState)) :
    ∃ ch, firstChar st1 = .ok ch ∧ st'.pos = st1.pos + ch.utf8Size ∧ st'.cache = st1.cache ∧
      st'.backticks = st1.backticks ∧ st'.src = st1.src ∧ st'.posMax = st1.posMax ∧
      st'.level = st1.level := by
  split at h
  · simp at h
  · next ch hch =>
    split at h
    · simp at h
    · next st2 hp =>
      simp only [Except.ok.injEq] at h; subst h
      obtain ⟨cs, _, rfl⟩ := pushText_eq (liftR_ok.mp hp)
      exact ⟨ch, hch, rfl, rfl, rfl, rfl, rfl, rfl⟩

/-- over the nesting limit one iteration uses neither `skip_token` nor `tokenize` -/
theorem tokStep_over {cfg : Cfg} (skip tok skip' tok' : IState → Except Panic IState)
    (fuel fuel' : Nat) {s : IState} (hl : ¬ s.level < cfg.maxNesting) :
    tokStep cfg skip tok fuel s = tokStep cfg skip' tok' fuel' s ∧
    ∀ s', tokStep cfg skip tok fuel s = .ok s' →
      s'.cache = s.cache ∧ s'.backticks = s.backticks ∧ s'.src = s.src ∧ s'.level = s.level := by
  unfold tokStep
  simp only [if_neg hl]
  refine ⟨by trivial, ?_⟩
  intro s' h
  obtain ⟨_, _, _, a, b, c, _, d⟩ := fallback_keeps h
  exact ⟨a, b, c, d⟩

/-- **frames over the nesting limit**: the guarded loop is the model's loop, memo and code-span cache
    are left alone -/
theorem over_limit (cfg : Cfg) (g : Bool) : ∀ (f e : Nat) (s : IState), ¬ s.level < cfg.maxNesting →
    tokLoopG cfg g f e s = tokLoop cfg f e s ∧
    ∀ s', tokLoopG cfg g f e s = .ok s' →
      s'.cache = s.cache ∧ s'.backticks = s.backticks ∧ s'.src = s.src := by
  intro f
  induction f with
  | zero =>
    intro e s _
    unfold tokLoopG tokLoop
    by_cases hlt : s.pos < e
    · simp only [if_pos hlt]
      exact ⟨by trivial, by intro s' h; simp at h⟩
    · simp only [if_neg hlt]
      refine ⟨by trivial, ?_⟩
      intro s' h
      simp only [Except.ok.injEq] at h; subst h
      exact ⟨rfl, rfl, rfl⟩
  | succ f ih =>
    intro e s hl
    unfold tokLoopG tokLoop
    by_cases hlt : s.pos < e
    · simp only [if_pos hlt]
      obtain ⟨e1, n1⟩ := tokStep_over (cfg := cfg) (fun x => skipTokenG cfg g f x)
        (fun x => tokLoopG cfg g f x.posMax x) (fun x => skipToken cfg f x)
        (fun x => tokLoop cfg f x.posMax x) f f hl
      rw [← e1]
      cases hs : tokStep cfg (fun x => skipTokenG cfg g f x) (fun x => tokLoopG cfg g f x.posMax x) f s with
      | error err => exact ⟨rfl, by intro s' h; simp at h⟩
      | ok s1 =>
        simp only
        obtain ⟨a, b, c, d⟩ := n1 s1 hs
        obtain ⟨e2, n2⟩ := ih e s1 (by rw [d]; exact hl)
        refine ⟨e2, ?_⟩
        intro s' h
        obtain ⟨a', b', c'⟩ := n2 s' h
        exact ⟨a'.trans a, b'.trans b, c'.trans c⟩
    · simp only [if_neg hlt]
      refine ⟨by trivial, ?_⟩
      intro s' h
      simp only [Except.ok.injEq] at h; subst h
      exact ⟨rfl, rfl, rfl⟩

/-! ## the fixed data of one real step -/

/-- one real step at position `k` of a nested frame `[·, le)` with memo `m`: the character at `k`
    (as the top window sees it), the memo entry `k ↦ v`, which ends inside the frame -/
structure StepCtx (src : List Char) (Mtop : Nat) (m : List (Nat × Nat)) (k le v : Nat) (ch : Char)
    (rest : List Char) : Prop where
  sl : slice src k Mtop = .ok (ch :: rest)
  lk : m.lookup k = some v
  vle : v ≤ le
  klt : k < le

/-- a witness state `w` (look-ahead, top `pos_max`) and a real state `x` of the nested frame at the same
    position.  `B` of the witness state is only needed (and only available) at a backtick. -/
structure Pair (cfg : Cfg) (B : List Char → CodePair.Cache → Prop) (src : List Char) (Mtop : Nat)
    (m : List (Nat × Nat)) (k le : Nat) (ch : Char) (w x : IState) : Prop where
  wi : LInv w
  wsrc : w.src = src
  wmax : w.posMax = Mtop
  wpos : w.pos = k
  wB : ch = '`' → B w.src w.backticks
  nf : NF cfg B src Mtop x
  xpos : x.pos = k
  xmax : x.posMax = le
  xcache : x.cache = m

/-- `n` copies of the emphasis marker `ch` of the chain from `k`, inside `[k, le)` -/
def MarkerRun (cfg : Cfg) (src : List Char) (ch : Char) (k le n : Nat) : Prop :=
  (∃ csw, RuleId.emph ch csw ∈ cfg.chain) ∧ 1 ≤ n ∧ k + n ≤ le ∧
    ∀ i, i < n → ∃ r, slice src (k + i) le = .ok (ch :: r)

/-- one real rule call (verdict `o`, state `x'`) against its witness call (verdict `o1`): the memo, the
    text, `pos_max` are kept, `B` is kept, and the verdicts are in step — both decline; or the real
    rule answers and ends where the memo entry ends; or the real rule is the emphasis rule at a run of
    its marker (the witness declined: look-ahead never answers there) -/
def RulePost (cfg : Cfg) (B : List Char → CodePair.Cache → Prop) (src : List Char) (ch : Char)
    (v k le : Nat) (o1 : Option Nat) (x : IState) (o : Option Nat) (x' : IState) : Prop :=
  x'.cache = x.cache ∧ x'.src = x.src ∧ x'.posMax = x.posMax ∧ B x'.src x'.backticks ∧
  ((o = none ∧ o1 = none ∧ x'.pos = x.pos ∧ ∃ lo, Good lo x') ∨
   (∃ len, o = some len ∧ (∃ n, o1 = some n) ∧ x'.pos + len = v) ∨
   (∃ n, o = some n ∧ x'.pos = x.pos ∧ MarkerRun cfg src ch k le n))

/-- the callees of one real step: the guarded pair and the model pair -/
structure Callees (cfg : Cfg) (B : List Char → CodePair.Cache → Prop) (src : List Char) (Mtop : Nat)
    (f : Nat) (skipG skipM tokG tokM : IState → Except Panic IState) : Prop where
  calm : CalmFn skipG
  skT : SkipHypT skipG
  tokT : TokHypT tokG
  rng : RangesFn tokG
  hits : f = 0 ∨ (FollowsHits skipG ∧ FollowsHits skipM)
  tokEq : ∀ s, NF cfg B src Mtop s → tokG s = tokM s ∧
    ∀ s', tokG s = .ok s' → s'.cache = s.cache ∧ B s'.src s'.backticks

section
variable {cfg : Cfg} {B : List Char → CodePair.Cache → Prop} {src : List Char} {Mtop : Nat}

theorem NF.top_lt {s : IState} (h : NF cfg B src Mtop s) : s.posMax < Mtop := by
  obtain ⟨r, hr⟩ := h.cut
  have := (after_bracket hr).1
  omega

/-- `NF` reads `src`, `posMax`, `pos`, `cache`, `backticks` and `Good` only -/
theorem NF.of_same {x x' : IState} (h : NF cfg B src Mtop x) (hc : x'.cache = x.cache)
    (hs : x'.src = x.src) (hm : x'.posMax = x.posMax) (hp : x'.pos = x.pos)
    (hb : B x'.src x'.backticks) (hg : ∃ lo, Good lo x') : NF cfg B src Mtop x' :=
  ⟨by rw [hc]; exact h.ctx, hs.trans h.hsrc, hb, hg, by rw [hm]; exact h.cut,
    by rw [hc, hm, hp]; exact h.outer⟩

theorem LInv.bump {w : IState} (h : LInv w) : LInv { w with level := w.level + 1 } :=
  ⟨h.le, h.bpos, h.bmax, h.wf, h.stop, h.memo⟩

theorem WinHyp.bump {w : IState} {M' : Nat} (h : WinHyp w M') :
    WinHyp { w with level := w.level + 1 } M' := ⟨h.bpos, h.bmax, h.lt, h.le, h.cut⟩

variable {m : List (Nat × Nat)} {k le v : Nat} {ch : Char} {rest : List Char} {w x : IState}

theorem Pair.xlt (S : StepCtx src Mtop m k le v ch rest) (P : Pair cfg B src Mtop m k le ch w x) :
    x.pos < x.posMax := by rw [P.xpos, P.xmax]; exact S.klt

theorem Pair.wlt (S : StepCtx src Mtop m k le v ch rest) (P : Pair cfg B src Mtop m k le ch w x) :
    w.pos < w.posMax := by
  have := P.nf.top_lt
  rw [P.wpos, P.wmax]; have := S.klt; rw [P.xmax] at *; omega

theorem Pair.winHyp (S : StepCtx src Mtop m k le v ch rest) (P : Pair cfg B src Mtop m k le ch w x) :
    WinHyp w le := by
  obtain ⟨r, hr⟩ := P.nf.cut
  have hlt := P.nf.top_lt
  rw [P.xmax] at hr hlt
  refine ⟨P.wi.bpos, P.wi.bmax, by rw [P.wpos]; exact S.klt, by rw [P.wmax]; omega, .inr ⟨r, ?_⟩⟩
  rw [P.wsrc, P.wmax]; exact hr

/-- the two windows: the same first character, the small one is a cut of the big one -/
theorem Pair.windows (S : StepCtx src Mtop m k le v ch rest) (P : Pair cfg B src Mtop m k le ch w x) :
    ∃ rest', x.window = .ok (ch :: rest') ∧ w.window = .ok (ch :: rest) ∧
      Cut (ch :: rest') (ch :: rest) := by
  have hW := P.winHyp S
  obtain ⟨w', wb, h1, h2, hne, _, hcut⟩ := window_split hW
  have hwb : w.window = .ok (ch :: rest) := by
    unfold IState.window; rw [P.wsrc, P.wpos, P.wmax, S.sl]; rfl
  rw [hwb] at h2
  simp only [Except.ok.injEq] at h2
  subst h2
  have hx : x.window = .ok w' := by
    rw [← h1, shrink_window]
    unfold IState.window
    rw [P.nf.hsrc, P.xpos, P.xmax, P.wsrc, P.wpos]
  cases w' with
  | nil => exact absurd rfl hne
  | cons c t =>
    have hc : c = ch := by
      rcases hcut with e | ⟨r, e⟩
      · simp only [List.cons.injEq] at e; exact e.1.symm
      · simp only [List.cons_append, List.cons.injEq] at e; exact e.1.symm
    subst hc
    exact ⟨t, hx, hwb, hcut⟩

theorem Pair.real (P : Pair cfg B src Mtop m k le ch w x) {x' : IState} (hc : x'.cache = x.cache)
    (hs : x'.src = x.src) (hm : x'.posMax = x.posMax) (hp : x'.pos = x.pos)
    (hb : B x'.src x'.backticks) (hg : ∃ lo, Good lo x') : Pair cfg B src Mtop m k le ch w x' :=
  ⟨P.wi, P.wsrc, P.wmax, P.wpos, P.wB, P.nf.of_same hc hs hm hp hb hg, hp.trans P.xpos,
    hm.trans P.xmax, hc.trans P.xcache⟩

end

/-! ## the witness side: look-ahead calls -/

theorem silentBumped_ok {run : IState → Bool → RuleRes} {w w1 : IState} {o : Option Nat}
    (h : silentBumped run w = .ok (o, w1)) :
    ∃ wb, run { w with level := w.level + 1 } true = .ok (o, wb) ∧
      w1 = { wb with level := wb.level - 1 } := by
  unfold silentBumped at h
  split at h
  · simp at h
  · next r wb he =>
    split at h
    · simp at h
    · simp only [Except.ok.injEq, Prod.mk.injEq] at h
      obtain ⟨rfl, rfl⟩ := h
      exact ⟨wb, he, rfl⟩

/-- what a look-ahead call of one rule keeps -/
theorem wit_step {cfg : Cfg} {skip tok : IState → Except Panic IState} (hq : CalmFn skip)
    (hs : SkipHypT skip) (fuel : Nat) (id : RuleId) {w : IState} (hi : LInv w)
    (hlt : w.pos < w.posMax) {o1 : Option Nat} {w1 : IState}
    (h : silentBumped (runRule cfg skip tok fuel id) w = .ok (o1, w1)) :
    LInv w1 ∧ w1.src = w.src ∧ w1.posMax = w.posMax ∧ w1.pos = w.pos := by
  have hT : SilT w (silentBumped (runRule cfg skip tok fuel id) w) := by
    apply silentBumped_T
    exact runRule_silent_T hq hs fuel id _ hi.bump hlt
  obtain ⟨a, b, c, _⟩ := hT.ok _ _ h
  exact ⟨a, b.src, b.posMax, c⟩

/-- in look-ahead mode a flat rule other than the code-span rule returns the state it was given -/
theorem silent_flat_state {cfg : Cfg} {skip tok : IState → Except Panic IState} {fuel : Nat}
    {id : RuleId} (hf : id.isFlat = true) (hne : id ≠ .backticks) {st st' : IState} {o : Option Nat}
    (h : runRule cfg skip tok fuel id st true = .ok (o, st')) : st' = st := by
  unfold runRule at h
  cases id with
  | text =>
    have h' := liftR_ok.mp h
    rw [ruleText_silent] at h'
    split at h'
    · simp at h'
    · split at h'
      · simp at h'
      · simp only [Except.ok.injEq, Prod.mk.injEq] at h'; exact h'.2.symm
  | newline =>
    have h' := liftR_ok.mp h
    rw [ruleNewline_silent] at h'
    split at h'
    · simp at h'
    · split at h'
      · simp at h'
      · simp only [Except.ok.injEq, Prod.mk.injEq] at h'; exact h'.2.symm
  | escape =>
    have h' := liftR_ok.mp h
    rw [ruleEscape_silent] at h'
    split at h'
    · simp at h'
    · split at h'
      · simp at h'
      · simp only [Except.ok.injEq, Prod.mk.injEq] at h'; exact h'.2.symm
  | backticks => exact absurd rfl hne
  | emph mk csw =>
    have h' := liftR_ok.mp h
    rw [ruleEmph_silent] at h'
    simp only [Except.ok.injEq, Prod.mk.injEq] at h'; exact h'.2.symm
  | link => simp [RuleId.isFlat] at hf
  | image => simp [RuleId.isFlat] at hf
  | linkEnd =>
    simp only [Except.ok.injEq, Prod.mk.injEq] at h; exact h.2.symm
  | autolink =>
    have h' := liftR_ok.mp h
    rw [ruleAutolink_silent] at h'
    split at h'
    · simp at h'
    · split at h'
      · simp at h'
      · simp only [Except.ok.injEq, Prod.mk.injEq] at h'; exact h'.2.symm
  | entity =>
    have h' := liftR_ok.mp h
    rw [ruleEntity_silent] at h'
    split at h'
    · simp at h'
    · split at h'
      · simp at h'
      · simp only [Except.ok.injEq, Prod.mk.injEq] at h'; exact h'.2.symm

/-- at a first character other than the backtick the code-span rule declines and returns the state it
    was given, in both modes -/
theorem backticks_other {cfg : Cfg} {skip tok : IState → Except Panic IState} {fuel : Nat}
    {st : IState} {c : Char} {rest : List Char} (hw : st.window = .ok (c :: rest)) (hc : c ≠ '`')
    (silent : Bool) : runRule cfg skip tok fuel .backticks st silent = .ok (none, st) := by
  have hsl := window_eq hw
  unfold runRule
  simp only
  unfold ruleBackticks
  rw [CodePair.run_other CodePair.Variant.current '`' false silent st.backticks
    ((codeSlice_eq _ _ _ _).mpr hsl) hc]
  cases st
  rfl

/-- at a first character other than `[` the link rule declines and returns the state it was given -/
theorem link_other {cfg : Cfg} {skip tok : IState → Except Panic IState} {fuel : Nat}
    {st : IState} {c : Char} {rest : List Char} (hw : st.window = .ok (c :: rest)) (hc : c ≠ '[')
    (silent : Bool) : runRule cfg skip tok fuel .link st silent = .ok (none, st) := by
  unfold runRule
  simp only
  unfold ruleLink
  rw [hw]
  simp only [liftR]
  rw [if_pos hc]

/-- where the window does not start with `![` the image rule declines and returns the state it was
    given -/
theorem image_other {cfg : Cfg} {skip tok : IState → Except Panic IState} {fuel : Nat}
    {st : IState} {w : List Char} (hw : st.window = .ok w) (hc : ∀ t, w ≠ '!' :: '[' :: t)
    (silent : Bool) : runRule cfg skip tok fuel .image st silent = .ok (none, st) := by
  unfold runRule
  simp only
  unfold ruleImage
  rw [hw]
  -- the side condition of the last alternative of the `match` is `hc`
  simp only [liftR]

/-- at a backtick every look-ahead rule call keeps the code-span cache invariant: only the code-span
    rule touches the cache there (the link / image rules decline on the first character) -/
theorem wit_back {cfg : Cfg} {B : List Char → CodePair.Cache → Prop} (hB : BackOK B)
    {skip tok : IState → Except Panic IState} {fuel : Nat} {id : RuleId} {w w1 : IState}
    {rest : List Char} (hw : w.window = .ok ('`' :: rest)) (hb : B w.src w.backticks)
    {o1 : Option Nat} (h : silentBumped (runRule cfg skip tok fuel id) w = .ok (o1, w1)) :
    B w1.src w1.backticks := by
  obtain ⟨wb, hwb, rfl⟩ := silentBumped_ok h
  have hwB : ({ w with level := w.level + 1 } : IState).window = .ok ('`' :: rest) := hw
  show B wb.src wb.backticks
  by_cases hbt : id = .backticks
  · subst hbt
    exact hB _ true _ _ (liftR_ok.mp hwb) hb
  · by_cases hf : id.isFlat = true
    · rw [silent_flat_state hf hbt hwb]; exact hb
    · cases id with
      | link =>
        rw [link_other hwB (by decide) true] at hwb
        simp only [Except.ok.injEq, Prod.mk.injEq] at hwb
        rw [← hwb.2]; exact hb
      | image =>
        rw [image_other hwB (by intro t ht; simp at ht) true] at hwb
        simp only [Except.ok.injEq, Prod.mk.injEq] at hwb
        rw [← hwb.2]; exact hb
      | _ => simp [RuleId.isFlat] at hf

/-! ## one rule: the flat rules -/

section
variable {cfg : Cfg} {B : List Char → CodePair.Cache → Prop} {src : List Char} {Mtop : Nat}
  {f : Nat} {skipG skipM tokG tokM : IState → Except Panic IState}
  {skip0 tok0 : IState → Except Panic IState} {f0 : Nat}
  {m : List (Nat × Nat)} {k le v : Nat} {ch : Char} {rest : List Char} {w x : IState}

/-- `Good` behind a declining real rule call -/
theorem good_after_none (H : NestHyps cfg B src Mtop)
    (C : Callees cfg B src Mtop f skipG skipM tokG tokM) {id : RuleId} (hid : id ∈ cfg.chain)
    {x x' : IState} (hx : NF cfg B src Mtop x) (hlt : x.pos < x.posMax)
    (h : runRule cfg skipG tokG f id x false = .ok (none, x')) : ∃ lo, Good lo x' := by
  obtain ⟨lo, hg⟩ := hx.good
  have hT := runRule_real_T (coherent_hsz H.coh) C.calm C.skT C.tokT C.rng f hid x hg hx.memoB hlt
  have s1 := hT.ok _ _ h
  exact ⟨lo, Good.of_add_zero (by simpa using s1.good)⟩

/-- the flat rules without cache: `FlatL2` -/
theorem rule_flat (H : NestHyps cfg B src Mtop) (C : Callees cfg B src Mtop f skipG skipM tokG tokM)
    (S : StepCtx src Mtop m k le v ch rest) (P : Pair cfg B src Mtop m k le ch w x)
    {id : RuleId} (hid : id ∈ cfg.chain)
    (hfl : id = .text ∨ id = .newline ∨ id = .escape ∨ id = .autolink ∨ id = .entity ∨ id = .linkEnd)
    {o1 : Option Nat} {w1 : IState}
    (hwit : silentBumped (runRule cfg skip0 tok0 f0 id) w = .ok (o1, w1))
    (hsome : ∀ n, o1 = some n → v = k + n) :
    runRule cfg skipG tokG f id x false = runRule cfg skipM tokM f id x false ∧
    ∀ o x', runRule cfg skipG tokG f id x false = .ok (o, x') →
      RulePost cfg B src ch v k le o1 x o x' := by
  constructor
  · rcases hfl with rfl | rfl | rfl | rfl | rfl | rfl <;> rfl
  · intro o x' hreal
    obtain ⟨wb, hwb, _⟩ := silentBumped_ok hwit
    have hflat : id.isFlat = true := by rcases hfl with rfl | rfl | rfl | rfl | rfl | rfl <;> rfl
    have hnb : id ≠ .backticks := by rcases hfl with rfl | rfl | rfl | rfl | rfl | rfl <;> simp
    obtain ⟨l1, l2⟩ := H.flat skip0 tok0 skipG tokG f0 f id hfl { w with level := w.level + 1 } x
      (by rw [P.xmax]; exact (P.winHyp S).bump) P.wi.stop (P.nf.hsrc.trans P.wsrc.symm)
      (P.xpos.trans P.wpos.symm) o1 wb o x' hwb hreal
    obtain ⟨kp, kc, ks, km, _, kb⟩ := H.keep skipG tokG f id hflat x o x' hreal
    have hBx' : B x'.src x'.backticks := by rw [ks, kb hnb]; exact P.nf.back
    refine ⟨kc, ks, km, hBx', ?_⟩
    cases o1 with
    | none =>
      have := l1 rfl; subst this
      exact .inl ⟨rfl, rfl, kp, good_after_none H C hid P.nf (P.xlt S) hreal⟩
    | some n =>
      have hv := hsome n rfl
      have := l2 n rfl (by
        show w.pos + n ≤ x.posMax
        rw [P.wpos, P.xmax]; have := S.vle; omega)
      subst this
      exact .inr (.inl ⟨n, rfl, ⟨n, rfl⟩, by rw [kp, P.xpos]; omega⟩)

/-- the code-span rule: `BackL2` at a backtick, a plain decline elsewhere -/
theorem rule_back (H : NestHyps cfg B src Mtop) (C : Callees cfg B src Mtop f skipG skipM tokG tokM)
    (S : StepCtx src Mtop m k le v ch rest) (P : Pair cfg B src Mtop m k le ch w x)
    (hid : RuleId.backticks ∈ cfg.chain) {o1 : Option Nat} {w1 : IState}
    (hwit : silentBumped (runRule cfg skip0 tok0 f0 .backticks) w = .ok (o1, w1))
    (hsome : ∀ n, o1 = some n → v = k + n) :
    runRule cfg skipG tokG f .backticks x false = runRule cfg skipM tokM f .backticks x false ∧
    ∀ o x', runRule cfg skipG tokG f .backticks x false = .ok (o, x') →
      RulePost cfg B src ch v k le o1 x o x' := by
  refine ⟨rfl, ?_⟩
  intro o x' hreal
  obtain ⟨wb, hwb, _⟩ := silentBumped_ok hwit
  obtain ⟨rest', hwx, hww, _⟩ := P.windows S
  by_cases hch : ch = '`'
  · obtain ⟨l1, l2⟩ := H.back hid skip0 tok0 skipG tokG f0 f { w with level := w.level + 1 } x
      (by rw [P.xmax]; exact (P.winHyp S).bump) P.wsrc P.wmax (P.nf.hsrc.trans P.wsrc.symm)
      (P.xpos.trans P.wpos.symm) (P.wB hch) P.nf.back o1 wb o x' hwb hreal
    obtain ⟨kp, kc, ks, km, _, _⟩ := H.keep skipG tokG f .backticks rfl x o x' hreal
    have hreal' : liftR (ruleBackticks x false) = .ok (o, x') := hreal
    have hBx' : B x'.src x'.backticks := H.hB x false o x' (liftR_ok.mp hreal') P.nf.back
    refine ⟨kc, ks, km, hBx', ?_⟩
    cases o1 with
    | none =>
      have := l1 rfl; subst this
      exact .inl ⟨rfl, rfl, kp, good_after_none H C hid P.nf (P.xlt S) hreal⟩
    | some n =>
      have hv := hsome n rfl
      have := l2 n rfl (by
        show w.pos + n ≤ x.posMax
        rw [P.wpos, P.xmax]; have := S.vle; omega)
      subst this
      exact .inr (.inl ⟨n, rfl, ⟨n, rfl⟩, by rw [kp, P.xpos]; omega⟩)
  · rw [backticks_other hwx hch false] at hreal
    simp only [Except.ok.injEq, Prod.mk.injEq] at hreal
    obtain ⟨rfl, rfl⟩ := hreal
    have hwB : ({ w with level := w.level + 1 } : IState).window = .ok (ch :: rest) := hww
    rw [backticks_other hwB hch true] at hwb
    simp only [Except.ok.injEq, Prod.mk.injEq] at hwb
    exact ⟨rfl, rfl, rfl, P.nf.back, .inl ⟨rfl, hwb.1.symm, rfl, P.nf.good⟩⟩

/-- the emphasis rules: `EmphL2` -/
theorem rule_emph (H : NestHyps cfg B src Mtop) (_C : Callees cfg B src Mtop f skipG skipM tokG tokM)
    (S : StepCtx src Mtop m k le v ch rest) (P : Pair cfg B src Mtop m k le ch w x)
    {mk : Char} {csw : Bool} (hid : RuleId.emph mk csw ∈ cfg.chain) {o1 : Option Nat} {w1 : IState}
    (hwit : silentBumped (runRule cfg skip0 tok0 f0 (.emph mk csw)) w = .ok (o1, w1)) :
    runRule cfg skipG tokG f (.emph mk csw) x false = runRule cfg skipM tokM f (.emph mk csw) x false ∧
    ∀ o x', runRule cfg skipG tokG f (.emph mk csw) x false = .ok (o, x') →
      RulePost cfg B src ch v k le o1 x o x' := by
  refine ⟨rfl, ?_⟩
  intro o x' hreal
  obtain ⟨wb, hwb, _⟩ := silentBumped_ok hwit
  obtain ⟨rest', hwx, hww, _⟩ := P.windows S
  have ho1 : o1 = none := by
    have h'' : liftR (ruleEmph cfg mk csw { w with level := w.level + 1 } true) = .ok (o1, wb) := hwb
    have h' := liftR_ok.mp h''
    rw [ruleEmph_silent] at h'
    simp only [Except.ok.injEq, Prod.mk.injEq] at h'
    exact h'.1.symm
  have hsz := coherent_hsz H.coh mk csw hid
  have hreal' : liftR (ruleEmph cfg mk csw x false) = .ok (o, x') := hreal
  obtain ⟨e1, e2⟩ := H.emph mk csw hsz x o x' (liftR_ok.mp hreal')
  by_cases hc : ch = mk
  · subst hc
    obtain ⟨n, hn, h1, h2, h3⟩ := e2 rest' hwx
    obtain ⟨kp, kc, ks, km, _, kb⟩ := H.keep skipG tokG f (.emph ch csw) rfl x o x' hreal
    have hBx' : B x'.src x'.backticks := by rw [ks, kb (by simp)]; exact P.nf.back
    refine ⟨kc, ks, km, hBx', .inr (.inr ⟨n, hn, kp, ⟨csw, hid⟩, h1, ?_, ?_⟩)⟩
    · rw [P.xpos, P.xmax] at h2; exact h2
    · intro i hi
      have := h3 i hi
      rw [P.nf.hsrc, P.xpos, P.xmax] at this
      exact this
  · obtain ⟨rfl, rfl⟩ := e1 ch rest' hwx hc
    exact ⟨rfl, rfl, rfl, P.nf.back, .inl ⟨rfl, ho1, rfl, P.nf.good⟩⟩

end

/-! ## one rule: link and image -/

theorem parseLink_fuel0 {cfg : Cfg} {skip : IState → Except Panic IState} {s : IState} {p : Nat}
    {en : Bool} : parseLink cfg skip 0 s p en = .error .fuel := by
  unfold parseLink parseLinkLabel labelLoop
  rfl

/-- a completed look-ahead call of the link rule, read backwards -/
theorem linkRule_silent_inv {cfg : Cfg} {skip tok : IState → Except Panic IState} {fuel : Nat}
    {mk : List Nat → Option (List Char) → Val} {en : Bool} {offset : Nat} {st st' : IState}
    {o : Option Nat} (h : linkRule cfg skip tok fuel mk en offset st true = .ok (o, st')) :
    ∃ r0, parseLink cfg skip fuel st (st.pos + offset) en = .ok (r0, st') ∧
      (r0 = none → o = none) ∧
      (∀ res, r0 = some res → st'.pos ≤ res.endPos ∧ o = some (res.endPos - st'.pos)) := by
  unfold linkRule at h
  simp only at h
  split at h
  · simp at h
  · next st1 he =>
    simp only [Except.ok.injEq, Prod.mk.injEq] at h
    obtain ⟨rfl, rfl⟩ := h
    exact ⟨none, he, fun _ => rfl, by intro res hr; simp at hr⟩
  · next res st1 he =>
    simp only [if_true] at h
    split at h
    · simp at h
    · next hnu =>
      simp only [Except.ok.injEq, Prod.mk.injEq] at h
      obtain ⟨rfl, rfl⟩ := h
      refine ⟨some res, he, by intro hr; simp at hr, ?_⟩
      intro res' hr
      simp only [Option.some.injEq] at hr
      subst hr
      exact ⟨by omega, rfl⟩

section
variable {cfg : Cfg} {B : List Char → CodePair.Cache → Prop} {src : List Char} {Mtop : Nat}
  {f : Nat} {skipG skipM tokG tokM : IState → Except Panic IState}
  {skip0 tok0 : IState → Except Panic IState} {f0 : Nat}
  {m : List (Nat × Nat)} {k le v : Nat} {ch : Char} {rest : List Char} {w x : IState}

/-- the one result of `parse_link` for the guarded and the model `skip_token` at the fuel of the step
    (at fuel `0` the label loop is out of fuel whatever the `skip_token`) -/
theorem pl_R (C : Callees cfg B src Mtop f skipG skipM tokG tokM) {x : IState} {offset : Nat}
    {en : Bool} {r0 : Option LinkRes}
    (hR : ∃ R : Except Panic (Option LinkRes),
      (∀ skip, FollowsHits skip →
        parseLink cfg skip f x (x.pos + offset) en =
          match R with
          | .ok r => .ok (r, x)
          | .error e => .error e) ∧
      (∀ r, R = .ok r → r = r0)) :
    ∃ R : Except Panic (Option LinkRes),
      parseLink cfg skipG f x (x.pos + offset) en =
        (match R with
          | .ok r => .ok (r, x)
          | .error e => .error e) ∧
      parseLink cfg skipM f x (x.pos + offset) en =
        (match R with
          | .ok r => .ok (r, x)
          | .error e => .error e) ∧
      (∀ r, R = .ok r → r = r0) := by
  rcases C.hits with h0 | ⟨hG, hM⟩
  · subst h0
    exact ⟨.error .fuel, parseLink_fuel0, parseLink_fuel0, by intro r h; cases h⟩
  · obtain ⟨R, h1, h2⟩ := hR
    exact ⟨R, h1 _ hG, h1 _ hM, h2⟩

/-- **the link rule body**: `ParseLinkL2` for `parse_link`, the nested induction hypothesis
    (`Callees.tokEq`) for the label run -/
theorem linkRule_L2 (_H : NestHyps cfg B src Mtop) (C : Callees cfg B src Mtop f skipG skipM tokG tokM)
    (S : StepCtx src Mtop m k le v ch rest) (P : Pair cfg B src Mtop m k le ch w x)
    (mk mk' : List Nat → Option (List Char) → Val) (en : Bool) (offset : Nat)
    (hpl : ParseLinkL2Part cfg B src Mtop offset en)
    (hshape : (offset = 0 ∧ en = false ∧ ∃ r, slice src k Mtop = .ok ('[' :: r)) ∨
      (offset = 1 ∧ en = true ∧ ∃ r, slice src k Mtop = .ok ('!' :: '[' :: r)))
    (hq0 : CalmFn skip0) (hs0 : SkipHypT skip0) (hg0 : SkipGrowHyp skip0)
    (hbx : Boundary x.src (x.pos + offset + 1)) (hlex : x.pos + offset + 1 ≤ x.posMax)
    (hbw : Boundary w.src (w.pos + offset + 1)) (hlew : w.pos + offset + 1 ≤ w.posMax)
    {o1 : Option Nat} {wb : IState}
    (hwit : linkRule cfg skip0 tok0 f0 mk' en offset { w with level := w.level + 1 } true
      = .ok (o1, wb))
    (hmono : LookupMono wb.cache m)
    (hnone : o1 = none → v = k + 1) (hsome : ∀ n, o1 = some n → v = k + n) :
    linkRule cfg skipG tokG f mk en offset x false = linkRule cfg skipM tokM f mk en offset x false ∧
    ∀ o x', linkRule cfg skipG tokG f mk en offset x false = .ok (o, x') →
      RulePost cfg B src ch v k le o1 x o x' := by
  obtain ⟨r0, hpl0, hr0n, hr0s⟩ := linkRule_silent_inv hwit
  have hiB := P.wi.bump
  have hwbpos : wb.pos = w.pos := parseLink_pos (st := { w with level := w.level + 1 }) hpl0
  have hR := hpl skip0 f0 { w with level := w.level + 1 } wb r0 x v hq0 hs0 hg0 hiB
    P.wsrc P.wmax (P.wpos.trans P.xpos.symm) hpl0 (by rw [P.xcache]; exact hmono) P.nf (P.xlt S)
    (by rw [P.xcache, P.xpos]; exact S.lk) (by rw [P.xmax]; exact S.vle)
    (by rw [P.xpos]; exact hshape)
    (by intro h; rw [P.xpos]; exact hnone (hr0n h))
    (by
      intro res h
      obtain ⟨a, b⟩ := hr0s res h
      have := hsome _ b
      rw [hwbpos, P.wpos] at a this
      omega) f
  obtain ⟨R, hG, hM, hRr⟩ := pl_R C hR
  unfold linkRule
  simp only
  rw [hG, hM]
  cases R with
  | error e => exact ⟨rfl, by intro o x' h; simp at h⟩
  | ok r =>
    have hrr := hRr r rfl
    subst hrr
    cases r with
    | none =>
      simp only
      refine ⟨by trivial, ?_⟩
      intro o x' h
      simp only [Except.ok.injEq, Prod.mk.injEq] at h
      obtain ⟨rfl, rfl⟩ := h
      exact ⟨rfl, rfl, rfl, P.nf.back, .inl ⟨rfl, hr0n rfl, rfl, P.nf.good⟩⟩
    | some res =>
      simp only [Bool.false_eq_true, if_false]
      -- what the witness knows about `res`
      have hplT := (parseLink_T (cfg := cfg) hq0 hs0 f0 _ _ en hiB hbw hlew).2 _ _ hpl0
      have hresT := hplT.2.2.2 res rfl
      obtain ⟨rb, hrb⟩ := hresT.bracket
      obtain ⟨hls, hrec⟩ :=
        parseLink_records (cfg := cfg) hq0 hs0 hg0 f0 _ _ en hiB hbw hlew res wb hpl0
      obtain ⟨hpe, ho1⟩ := hr0s res rfl
      have hv : res.endPos = v := by
        have := hsome _ ho1
        have h1 := hwbpos; have h2 := P.wpos
        omega
      -- the nested frame
      obtain ⟨lo, hg⟩ := P.nf.good
      have hpG : parseLink cfg skipG f x (x.pos + offset) en = .ok (some res, x) := hG
      obtain ⟨lo2, hg2, hm2⟩ := nested_good C.calm C.skT hg P.nf.memoB hbx hlex hpG
      have hnf : NF cfg B src Mtop (IState.mk x.src x.srcmap res.labelStart res.labelEnd
          (x.level + 1) (x.linkLevel + 1) x.cache x.backticks [] []) := by
        refine ⟨P.nf.ctx, P.nf.hsrc, P.nf.back, ⟨lo2, hg2⟩, ⟨rb, ?_⟩, ⟨en, f0, 1, Int.le_refl _, ?_⟩⟩
        · show slice src res.labelEnd Mtop = .ok (']' :: rb)
          rw [← P.wsrc, ← P.wmax]; exact hrb
        · have := hrec x.cache (by rw [P.xcache]; exact hmono)
          show pwalk src Mtop x.cache en f0 1 res.labelStart = .done (some true) res.labelEnd
          rw [hls, ← P.wsrc, ← P.wmax]; exact this
      obtain ⟨heq, hpost⟩ := C.tokEq _ hnf
      have htk := C.tokT lo2 _ hg2 hm2
      rw [← heq]
      cases hGt : tokG (IState.mk x.src x.srcmap res.labelStart res.labelEnd
          (x.level + 1) (x.linkLevel + 1) x.cache x.backticks [] []) with
      | error e => exact ⟨rfl, by intro o x' h; simp at h⟩
      | ok st3 =>
        simp only
        refine ⟨by trivial, ?_⟩
        obtain ⟨f3, _, _⟩ := htk.ok st3 hGt
        obtain ⟨hc3, hb3⟩ := hpost st3 hGt
        intro o x' h
        split at h
        · simp at h
        · split at h
          · simp at h
          · split at h
            · simp at h
            · next hnu =>
              simp only [Except.ok.injEq, Prod.mk.injEq] at h
              obtain ⟨rfl, rfl⟩ := h
              refine ⟨hc3, f3.src, rfl, hb3, .inr (.inl ⟨_, rfl, ⟨_, ho1⟩, ?_⟩)⟩
              simp only at hnu ⊢
              omega

end

section
variable {cfg : Cfg} {B : List Char → CodePair.Cache → Prop} {src : List Char} {Mtop : Nat}
  {f : Nat} {skipG skipM tokG tokM : IState → Except Panic IState}
  {skip0 tok0 : IState → Except Panic IState} {f0 : Nat}
  {m : List (Nat × Nat)} {k le v : Nat} {ch : Char} {rest : List Char} {w x : IState}

/-- the link rule -/
theorem rule_link (H : NestHyps cfg B src Mtop) (C : Callees cfg B src Mtop f skipG skipM tokG tokM)
    (S : StepCtx src Mtop m k le v ch rest) (P : Pair cfg B src Mtop m k le ch w x)
    (hq0 : CalmFn skip0) (hs0 : SkipHypT skip0) (hg0 : SkipGrowHyp skip0)
    (hid : RuleId.link ∈ cfg.chain) {o1 : Option Nat} {w1 : IState}
    (hwit : silentBumped (runRule cfg skip0 tok0 f0 .link) w = .ok (o1, w1))
    (hmono : LookupMono w1.cache m)
    (hnone : ch = '[' → o1 = none → v = k + 1) (hsome : ∀ n, o1 = some n → v = k + n) :
    runRule cfg skipG tokG f .link x false = runRule cfg skipM tokM f .link x false ∧
    ∀ o x', runRule cfg skipG tokG f .link x false = .ok (o, x') →
      RulePost cfg B src ch v k le o1 x o x' := by
  obtain ⟨wb, hwb, rfl⟩ := silentBumped_ok hwit
  obtain ⟨rest', hwx, hww, _⟩ := P.windows S
  have hwB : ({ w with level := w.level + 1 } : IState).window = .ok (ch :: rest) := hww
  by_cases hc : ch = '['
  · subst hc
    have hX : ∀ skip tok, runRule cfg skip tok f .link x false =
        linkRule cfg skip tok f Val.link false 0 x false := by
      intro skip tok
      unfold runRule
      simp only
      unfold ruleLink
      rw [hwx]
      simp only [liftR]
      rw [if_neg (by simp)]
    have hWr : runRule cfg skip0 tok0 f0 .link { w with level := w.level + 1 } true =
        linkRule cfg skip0 tok0 f0 Val.link false 0 { w with level := w.level + 1 } true := by
      unfold runRule
      simp only
      unfold ruleLink
      rw [hwB]
      simp only [liftR]
      rw [if_neg (by simp)]
    rw [hX, hX]
    rw [hWr] at hwb
    obtain ⟨hbx, hlex⟩ := after_first (st := x) (by decide) (window_eq hwx)
    obtain ⟨hbw, hlew⟩ := after_first (st := w) (by decide) (window_eq hww)
    exact linkRule_L2 H C S P Val.link Val.link false 0 (H.plLink hid) (.inl ⟨rfl, rfl, rest, S.sl⟩) hq0 hs0 hg0
      hbx hlex hbw hlew hwb hmono (hnone rfl) hsome
  · rw [link_other hwx hc false, link_other hwx hc false]
    rw [link_other hwB hc true] at hwb
    simp only [Except.ok.injEq, Prod.mk.injEq] at hwb
    refine ⟨rfl, ?_⟩
    intro o x' h
    simp only [Except.ok.injEq, Prod.mk.injEq] at h
    obtain ⟨rfl, rfl⟩ := h
    exact ⟨rfl, rfl, rfl, P.nf.back, .inl ⟨rfl, hwb.1.symm, rfl, P.nf.good⟩⟩

/-- the image rule -/
theorem rule_image (H : NestHyps cfg B src Mtop) (C : Callees cfg B src Mtop f skipG skipM tokG tokM)
    (S : StepCtx src Mtop m k le v ch rest) (P : Pair cfg B src Mtop m k le ch w x)
    (hq0 : CalmFn skip0) (hs0 : SkipHypT skip0) (hg0 : SkipGrowHyp skip0)
    (hid : RuleId.image ∈ cfg.chain) {o1 : Option Nat} {w1 : IState}
    (hwit : silentBumped (runRule cfg skip0 tok0 f0 .image) w = .ok (o1, w1))
    (hmono : LookupMono w1.cache m)
    (hnone : ch = '!' → o1 = none → v = k + 1) (hsome : ∀ n, o1 = some n → v = k + n) :
    runRule cfg skipG tokG f .image x false = runRule cfg skipM tokM f .image x false ∧
    ∀ o x', runRule cfg skipG tokG f .image x false = .ok (o, x') →
      RulePost cfg B src ch v k le o1 x o x' := by
  obtain ⟨wb, hwb, rfl⟩ := silentBumped_ok hwit
  obtain ⟨rest', hwx, hww, hcut⟩ := P.windows S
  by_cases hc : ch = '!' ∧ ∃ t, rest' = '[' :: t
  · obtain ⟨rfl, t, rfl⟩ := hc
    obtain ⟨t2, ht2⟩ : ∃ t2, rest = '[' :: t2 := by
      rcases hcut with e | ⟨r, e⟩
      · simp only [List.cons.injEq, true_and] at e
        exact ⟨t, e⟩
      · simp only [List.cons_append, List.cons.injEq, true_and] at e
        exact ⟨_, e⟩
    subst ht2
    have hwB : ({ w with level := w.level + 1 } : IState).window = .ok ('!' :: '[' :: t2) := hww
    have hX : ∀ skip tok, runRule cfg skip tok f .image x false =
        linkRule cfg skip tok f Val.image true 1 x false := by
      intro skip tok
      unfold runRule
      simp only
      unfold ruleImage
      rw [hwx]
      simp only [liftR]
    have hWr : runRule cfg skip0 tok0 f0 .image { w with level := w.level + 1 } true =
        linkRule cfg skip0 tok0 f0 Val.image true 1 { w with level := w.level + 1 } true := by
      unfold runRule
      simp only
      unfold ruleImage
      rw [hwB]
      simp only [liftR]
    rw [hX, hX]
    rw [hWr] at hwb
    obtain ⟨hbx, hlex⟩ := after_second (st := x) (by decide) (by decide) (window_eq hwx)
    obtain ⟨hbw, hlew⟩ := after_second (st := w) (by decide) (by decide) (window_eq hww)
    exact linkRule_L2 H C S P Val.image Val.image true 1 (H.plImage hid) (.inr ⟨rfl, rfl, t2, S.sl⟩) hq0 hs0 hg0
      hbx hlex hbw hlew hwb hmono (hnone rfl) hsome
  · have hnx : ∀ t, ch :: rest' ≠ '!' :: '[' :: t := by
      intro t e
      simp only [List.cons.injEq] at e
      exact hc ⟨e.1, t, e.2⟩
    have hnw : ∀ t, ch :: rest ≠ '!' :: '[' :: t := by
      intro t e
      simp only [List.cons.injEq] at e
      obtain ⟨rfl, rfl⟩ := e
      rcases hcut with e | ⟨r, e⟩
      · simp only [List.cons.injEq, true_and] at e
        exact hc ⟨rfl, t, e.symm⟩
      · cases rest' with
        | nil =>
          simp only [List.cons_append, List.nil_append, List.cons.injEq, true_and] at e
          exact absurd e.1 (by decide)
        | cons c t' =>
          simp only [List.cons_append, List.cons.injEq, true_and] at e
          exact hc ⟨rfl, t', by rw [e.1]⟩
    have hwB : ({ w with level := w.level + 1 } : IState).window = .ok (ch :: rest) := hww
    rw [image_other hwx hnx false, image_other hwx hnx false]
    rw [image_other hwB hnw true] at hwb
    simp only [Except.ok.injEq, Prod.mk.injEq] at hwb
    refine ⟨rfl, ?_⟩
    intro o x' h
    simp only [Except.ok.injEq, Prod.mk.injEq] at h
    obtain ⟨rfl, rfl⟩ := h
    exact ⟨rfl, rfl, rfl, P.nf.back, .inl ⟨rfl, hwb.1.symm, rfl, P.nf.good⟩⟩

/-- **one rule of the chain**: the witness call (look-ahead at `w`, verdict `o1`) against the real call
    at the nested state `x`; the guarded side equals the model side -/
theorem rule_L2 (H : NestHyps cfg B src Mtop) (C : Callees cfg B src Mtop f skipG skipM tokG tokM)
    (S : StepCtx src Mtop m k le v ch rest) (P : Pair cfg B src Mtop m k le ch w x)
    (hq0 : CalmFn skip0) (hs0 : SkipHypT skip0) (hg0 : SkipGrowHyp skip0)
    {id : RuleId} (hid : id ∈ cfg.chain) {o1 : Option Nat} {w1 : IState}
    (hwit : silentBumped (runRule cfg skip0 tok0 f0 id) w = .ok (o1, w1))
    (hmono : LookupMono w1.cache m)
    (hnone : (id = .link ∧ ch = '[') ∨ (id = .image ∧ ch = '!') → o1 = none → v = k + 1)
    (hsome : ∀ n, o1 = some n → v = k + n) :
    runRule cfg skipG tokG f id x false = runRule cfg skipM tokM f id x false ∧
    ∀ o x', runRule cfg skipG tokG f id x false = .ok (o, x') →
      RulePost cfg B src ch v k le o1 x o x' := by
  cases id with
  | text => exact rule_flat H C S P hid (by simp) hwit hsome
  | newline => exact rule_flat H C S P hid (by simp) hwit hsome
  | escape => exact rule_flat H C S P hid (by simp) hwit hsome
  | backticks => exact rule_back H C S P hid hwit hsome
  | emph mk csw => exact rule_emph H C S P hid hwit
  | link =>
    exact rule_link H C S P hq0 hs0 hg0 hid hwit hmono (fun h1 h2 => hnone (.inl ⟨rfl, h1⟩) h2) hsome
  | image =>
    exact rule_image H C S P hq0 hs0 hg0 hid hwit hmono (fun h1 h2 => hnone (.inr ⟨rfl, h1⟩) h2) hsome
  | linkEnd => exact rule_flat H C S P hid (by simp) hwit hsome
  | autolink => exact rule_flat H C S P hid (by simp) hwit hsome
  | entity => exact rule_flat H C S P hid (by simp) hwit hsome

end

/-! ## the chain -/

/-- at a `!` only the image rule is listed -/
theorem firesAt_bang (id : RuleId) (h : id ≠ .image) : id.firesAt '!' = false := by
  cases id with
  | image => exact absurd rfl h
  | text => decide
  | newline => decide
  | escape => decide
  | backticks => decide
  | emph m c => rfl
  | link => decide
  | linkEnd => rfl
  | autolink => decide
  | entity => decide

/-- a chain none of whose rules is listed at the first character declines in look-ahead mode -/
theorem chain_declines_of {cfg : Cfg} {skip tok : IState → Except Panic IState} (hq : CalmFn skip)
    (hs : SkipHypT skip) (fuel : Nat) {c : Char} {rest : List Char} :
    ∀ (rules : List RuleId), (∀ id ∈ rules, id.firesAt c = false) →
      ∀ (st : IState), LInv st → st.window = .ok (c :: rest) →
      ∀ o st', firstRule (fun id s => silentBumped (runRule cfg skip tok fuel id) s) rules st
          = .ok (o, st') → o = none := by
  intro rules
  induction rules with
  | nil =>
    intro _ st _ _ o st' h
    simp only [firstRule, Except.ok.injEq, Prod.mk.injEq] at h
    exact h.1.symm
  | cons r rs ih =>
    intro hall st hi hw o st' h
    have hlt := lt_of_window_cons hi hw
    unfold firstRule at h
    split at h
    · simp at h
    · next n st1 he =>
      exfalso
      obtain ⟨wb, hwb, _⟩ := silentBumped_ok he
      have hwB : ({ st with level := st.level + 1 } : IState).window = .ok (c :: rest) := hw
      have := silent_declines hwB (hall r (by simp)) _ _ hwb
      simp at this
    · next st1 he =>
      obtain ⟨hi1, hs1, hm1, hp1⟩ := wit_step hq hs fuel r hi hlt he
      exact ih (fun id hid => hall id (List.mem_cons_of_mem _ hid)) st1 hi1
        (by rw [← hw]; exact window_congr hs1 hp1 hm1) o st' h

/-- the look-ahead chain only grows the memo, above its position -/
theorem wit_chain_grow {cfg : Cfg} {skip tok : IState → Except Panic IState} (hq : CalmFn skip)
    (hs : SkipHypT skip) (hg : SkipGrowHyp skip) (fuel : Nat) (rules : List RuleId) {w : IState}
    (hi : LInv w) (hlt : w.pos < w.posMax) {o0 : Option Nat} {w' : IState}
    (h : firstRule (fun id s => silentBumped (runRule cfg skip tok fuel id) s) rules w = .ok (o0, w')) :
    Grow (w.pos + 1) w.posMax w.cache w'.cache := by
  have hT : ∀ id s, LInv s → s.pos < s.posMax →
      SilT s (silentBumped (runRule cfg skip tok fuel id) s) := by
    intro id s his hls
    apply silentBumped_T
    exact runRule_silent_T hq hs fuel id _ his.bump hls
  exact firstRule_silent_grow (run := fun id s => silentBumped (runRule cfg skip tok fuel id) s) hT
    (by
      intro id s his hls
      apply silentBumped_grow
      exact runRule_silent_grow hq hs hg fuel id _ his.bump hls)
    rules w hi hlt _ _ h

theorem count_tail_le {a b : RuleId} {l : List RuleId} (h : (b :: l).count a ≤ 1) : l.count a ≤ 1 := by
  rw [List.count_cons] at h
  omega

theorem not_mem_tail_of_count {a : RuleId} {l : List RuleId} (h : (a :: l).count a ≤ 1) : a ∉ l := by
  rw [List.count_cons_self] at h
  exact List.count_eq_zero.mp (by omega)

section
variable {cfg : Cfg} {B : List Char → CodePair.Cache → Prop} {src : List Char} {Mtop : Nat}
  {f : Nat} {skipG skipM tokG tokM : IState → Except Panic IState}
  {skip0 tok0 : IState → Except Panic IState} {f0 : Nat}
  {m : List (Nat × Nat)} {k le v : Nat} {ch : Char} {rest : List Char}

theorem RulePost.of_same {o0 o : Option Nat} {x x1 x' : IState}
    (h : RulePost cfg B src ch v k le o0 x1 o x') (hc : x1.cache = x.cache) (hs : x1.src = x.src)
    (hm : x1.posMax = x.posMax) (hp : x1.pos = x.pos) : RulePost cfg B src ch v k le o0 x o x' := by
  obtain ⟨a, b, c, d, e⟩ := h
  refine ⟨a.trans hc, b.trans hs, c.trans hm, d, ?_⟩
  rcases e with ⟨e1, e2, e3, e4⟩ | e | ⟨n, e1, e2, e3⟩
  · exact .inl ⟨e1, e2, e3.trans hp, e4⟩
  · exact .inr (.inl e)
  · exact .inr (.inr ⟨n, e1, e2.trans hp, e3⟩)

/-- **the chain comparison**: the witness chain (look-ahead, from `w`, final verdict `o0`, whose memo
    the nested memo `m` extends) against the real chain at the nested state `x`, over a suffix of
    `cfg.chain` — the guarded side equals the model side, and the real chain keeps the memo / `B` and
    ends where the memo entry `k ↦ v` ends, or in a delimiter run of an emphasis marker -/
theorem chain_L2 (H : NestHyps cfg B src Mtop) (C : Callees cfg B src Mtop f skipG skipM tokG tokM)
    (S : StepCtx src Mtop m k le v ch rest)
    (hq0 : CalmFn skip0) (hs0 : SkipHypT skip0) (hg0 : SkipGrowHyp skip0) :
    ∀ (rules : List RuleId), (∀ id ∈ rules, id ∈ cfg.chain) → rules.count .link ≤ 1 →
      rules.count .image ≤ 1 →
      ∀ (w x : IState), Pair cfg B src Mtop m k le ch w x →
      ∀ o0 w', firstRule (fun id s => silentBumped (runRule cfg skip0 tok0 f0 id) s) rules w
          = .ok (o0, w') →
        LookupMono w'.cache m → (o0 = none → v = k + ch.utf8Size) → (∀ n, o0 = some n → v = k + n) →
        firstRule (fun id s => runRule cfg skipG tokG f id s false) rules x =
          firstRule (fun id s => runRule cfg skipM tokM f id s false) rules x ∧
        ∀ o x', firstRule (fun id s => runRule cfg skipG tokG f id s false) rules x = .ok (o, x') →
          RulePost cfg B src ch v k le o0 x o x' := by
  intro rules
  induction rules with
  | nil =>
    intro _ _ _ w x P o0 w' hwit _ _ _
    simp only [firstRule, Except.ok.injEq, Prod.mk.injEq] at hwit
    unfold firstRule
    refine ⟨rfl, ?_⟩
    intro o x' h
    simp only [Except.ok.injEq, Prod.mk.injEq] at h
    obtain ⟨rfl, rfl⟩ := h
    exact ⟨rfl, rfl, rfl, P.nf.back, .inl ⟨rfl, hwit.1.symm, rfl, P.nf.good⟩⟩
  | cons id rs ih =>
    intro hall hcl hci w x P o0 w' hwit hmono hnone0 hsome0
    have hid : id ∈ cfg.chain := hall id (by simp)
    have hwlt := P.wlt S
    obtain ⟨rest', hwx, hww, _⟩ := P.windows S
    unfold firstRule at hwit
    cases hr1 : silentBumped (runRule cfg skip0 tok0 f0 id) w with
    | error e => rw [hr1] at hwit; simp at hwit
    | ok p1 =>
      obtain ⟨o1, w1⟩ := p1
      rw [hr1] at hwit
      obtain ⟨hi1, hs1, hm1, hp1⟩ := wit_step hq0 hs0 f0 id P.wi hwlt hr1
      have hw1 : w1.window = .ok (ch :: rest) := by
        rw [← hww]; exact window_congr hs1 hp1 hm1
      -- the memo of the witness only grows
      have hmono1 : LookupMono w1.cache m := by
        cases o1 with
        | some n =>
          simp only [Except.ok.injEq, Prod.mk.injEq] at hwit
          rw [hwit.2]; exact hmono
        | none =>
          simp only at hwit
          exact (wit_chain_grow hq0 hs0 hg0 f0 rs hi1 (by rw [hp1, hm1]; exact hwlt) hwit).mono.trans
            hmono
      -- a declining link / image rule at `[` / `!`: the rest of the chain declines
      have hnone1 : (id = .link ∧ ch = '[') ∨ (id = .image ∧ ch = '!') → o1 = none → v = k + 1 := by
        intro hcase ho1
        subst ho1
        simp only at hwit
        have hfire : ∀ id' ∈ rs, id'.firesAt ch = false := by
          intro id' hid'
          rcases hcase with ⟨rfl, rfl⟩ | ⟨rfl, rfl⟩
          · exact firesAt_bracket id' (fun e => not_mem_tail_of_count hcl (e ▸ hid'))
          · exact firesAt_bang id' (fun e => not_mem_tail_of_count hci (e ▸ hid'))
        have ho0 := chain_declines_of hq0 hs0 f0 rs hfire w1 hi1 hw1 _ _ hwit
        have := hnone0 ho0
        rcases hcase with ⟨_, rfl⟩ | ⟨_, rfl⟩
        · exact this
        · exact this
      have hsome1 : ∀ n, o1 = some n → v = k + n := by
        intro n ho1
        subst ho1
        simp only [Except.ok.injEq, Prod.mk.injEq] at hwit
        exact hsome0 n hwit.1.symm
      obtain ⟨eq1, post1⟩ := rule_L2 H C S P hq0 hs0 hg0 hid hr1 hmono1 hnone1 hsome1
      unfold firstRule
      rw [← eq1]
      cases hG : runRule cfg skipG tokG f id x false with
      | error e => exact ⟨rfl, by intro o x' h; simp at h⟩
      | ok p =>
        obtain ⟨o, x1⟩ := p
        have hp1' := post1 o x1 hG
        cases o with
        | some n =>
          simp only
          refine ⟨by trivial, ?_⟩
          intro o x' h
          simp only [Except.ok.injEq, Prod.mk.injEq] at h
          obtain ⟨rfl, rfl⟩ := h
          obtain ⟨a, b, c, d, e⟩ := hp1'
          refine ⟨a, b, c, d, ?_⟩
          rcases e with ⟨e1, _⟩ | ⟨len, e1, ⟨n', e2⟩, e3⟩ | e
          · simp at e1
          · subst e2
            simp only [Except.ok.injEq, Prod.mk.injEq] at hwit
            exact .inr (.inl ⟨len, e1, ⟨n', hwit.1.symm⟩, e3⟩)
          · exact .inr (.inr e)
        | none =>
          simp only
          obtain ⟨a, b, c, d, e⟩ := hp1'
          rcases e with ⟨_, e2, e3, e4⟩ | ⟨len, e1, _⟩ | ⟨n, e1, _⟩
          · subst e2
            simp only at hwit
            have P1 : Pair cfg B src Mtop m k le ch w1 x1 :=
              ⟨hi1, hs1.trans P.wsrc, hm1.trans P.wmax, hp1.trans P.wpos,
                fun hc => by subst hc; exact wit_back H.hB hww (P.wB rfl) hr1,
                P.nf.of_same a b c e3 d e4, e3.trans P.xpos, c.trans P.xmax, a.trans P.xcache⟩
            obtain ⟨eq2, post2⟩ := ih (fun id hid => hall id (List.mem_cons_of_mem _ hid))
              (count_tail_le hcl) (count_tail_le hci) w1 x1 P1 o0 w' hwit hmono hnone0 hsome0
            exact ⟨eq2, fun o x' h => (post2 o x' h).of_same a b c e3⟩
          · simp at e1
          · simp at e1

end

/-! ## the witness of a memo entry, unpacked to its chain -/

/-- a completed `skipStep`, read backwards -/
theorem skipStep_inv {cfg : Cfg} {skip tok : IState → Except Panic IState} {fuel : Nat}
    {st st' : IState} (h : skipStep cfg skip tok fuel st = .ok st') :
    ∃ o0 w', firstRule (fun id s => silentBumped (runRule cfg skip tok fuel id) s) cfg.chain st
        = .ok (o0, w') ∧
      st'.cache = cacheInsert w'.cache st.pos st'.pos ∧
      (∀ n, o0 = some n → st'.pos = w'.pos + n) ∧
      (o0 = none → ∃ c, firstChar w' = .ok c ∧ st'.pos = w'.pos + c.utf8Size) := by
  unfold skipStep at h
  simp only at h
  split at h
  · simp at h
  · next len st1 he =>
    simp only [Except.ok.injEq] at h
    subst h
    refine ⟨some len, st1, he, rfl, ?_, by intro hh; simp at hh⟩
    intro n hn
    simp only [Option.some.injEq] at hn
    subst hn
    rfl
  · next st1 he =>
    split at h
    · simp at h
    · next c hc =>
      simp only [Except.ok.injEq] at h
      subst h
      exact ⟨none, st1, he, rfl, by intro n hn; simp at hn, fun _ => ⟨c, hc, rfl⟩⟩

/-- what the look-ahead chain keeps -/
theorem wit_chain_step {cfg : Cfg} {skip tok : IState → Except Panic IState} (hq : CalmFn skip)
    (hs : SkipHypT skip) (fuel : Nat) (rules : List RuleId) {w : IState} (hi : LInv w)
    (hlt : w.pos < w.posMax) {o0 : Option Nat} {w' : IState}
    (h : firstRule (fun id s => silentBumped (runRule cfg skip tok fuel id) s) rules w = .ok (o0, w')) :
    LInv w' ∧ w'.src = w.src ∧ w'.posMax = w.posMax ∧ w'.pos = w.pos := by
  have hT : SilT w
      (firstRule (fun id s => silentBumped (runRule cfg skip tok fuel id) s) rules w) := by
    apply firstRule_silent_T _ rules w hi hlt
    intro id s his hls
    apply silentBumped_T
    exact runRule_silent_T hq hs fuel id _ his.bump hls
  obtain ⟨a, b, c, _⟩ := hT.ok _ _ h
  exact ⟨a, b.src, b.posMax, c⟩

/-- **the witness of the entry `k ↦ v`, as a chain**: the look-ahead chain from a state at `k` under
    the top `pos_max` whose final verdict `o0` explains `v`, and whose memo the memo `m` extends -/
theorem just_chain {cfg : Cfg} {B : List Char → CodePair.Cache → Prop} {src : List Char} {Mtop : Nat}
    {m : List (Nat × Nat)} {k v : Nat} (hJ : Just cfg B src Mtop m k v) {ch : Char} {rest : List Char}
    (hsl : slice src k Mtop = .ok (ch :: rest)) :
    ∃ (skip0 tok0 : IState → Except Panic IState) (f0 : Nat) (st0 : IState) (o0 : Option Nat)
      (w' : IState),
      CalmFn skip0 ∧ SkipHypT skip0 ∧ SkipGrowHyp skip0 ∧
      LInv st0 ∧ st0.src = src ∧ st0.posMax = Mtop ∧ st0.pos = k ∧ B st0.src st0.backticks ∧
      firstRule (fun id s => silentBumped (runRule cfg skip0 tok0 f0 id) s) cfg.chain st0
        = .ok (o0, w') ∧
      LookupMono w'.cache m ∧ (o0 = none → v = k + ch.utf8Size) ∧ (∀ n, o0 = some n → v = k + n) := by
  obtain ⟨skip0, tok0, f0, st0, st0', hq0, hs0, hg0, hi0, hsrc0, hmax0, hpos0, hlt0, hB0, hmiss, hstep,
    hv, hmono⟩ := hJ
  obtain ⟨o0, w', hfr, hcache, hsome, hnone⟩ := skipStep_inv hstep
  obtain ⟨hi', hs', hm', hp'⟩ := wit_chain_step hq0 hs0 f0 cfg.chain hi0 hlt0 hfr
  have hgrow := wit_chain_grow hq0 hs0 hg0 f0 cfg.chain hi0 hlt0 hfr
  refine ⟨skip0, tok0, f0, st0, o0, w', hq0, hs0, hg0, hi0, hsrc0, hmax0, hpos0, hB0, hfr, ?_, ?_, ?_⟩
  · refine LookupMono.trans ?_ hmono
    intro a b hab
    rw [hcache, lookup_cacheInsert]
    by_cases hak : a = st0.pos
    · subst hak
      rw [hgrow.low _ (by omega), hpos0, hmiss] at hab
      cases hab
    · rw [if_neg hak]; exact hab
  · intro ho
    obtain ⟨c, hc, hpc⟩ := hnone ho
    have hw' : w'.window = .ok (ch :: rest) := by
      unfold IState.window
      rw [hs', hp', hm', hsrc0, hpos0, hmax0, hsl]
      rfl
    unfold firstChar at hc
    rw [hw'] at hc
    simp only [liftR, Except.ok.injEq] at hc
    subst hc
    rw [← hv, hpc, hp', hpos0]
  · intro n hn
    rw [← hv, hsome n hn, hp', hpos0]

/-! ## a real delimiter run covers single-character look-ahead tokens -/

theorem outer_marker_run {cfg : Cfg} {B : List Char → CodePair.Cache → Prop} {src : List Char}
    {Mtop : Nat} (hcoh : ChainCoherent cfg = true) {m : List (Nat × Nat)}
    (hctx : NCtx cfg B src Mtop m) {le : Nat} (hle : le < Mtop) {ch : Char}
    (hmk : ∃ csw, RuleId.emph ch csw ∈ cfg.chain) {k : Nat} :
    ∀ n, Outer src Mtop m le k 1 → k + n ≤ le →
      (∀ i, i < n → ∃ r, slice src (k + i) le = .ok (ch :: r)) → Outer src Mtop m le (k + n) 1 := by
  have hf : ∀ a b, (a, b) ∈ m → a < b := fun a b h => (hctx.memo a b h).1
  intro n
  induction n with
  | zero => intro h _ _; exact h
  | succ n ih =>
    intro hO hn hall
    have hOn := ih hO (by omega) (fun i hi => hall i (by omega))
    obtain ⟨r, hr⟩ := hall n (by omega)
    obtain ⟨ch', rest', v', hsl, hlk, hkv, hvle, hOv, _⟩ := outer_step hf hOn (by omega)
    -- the character the top window sees at `k + n` is the marker
    have hch : ch' = ch := by
      obtain ⟨r2, hr2⟩ := slice_head_shrink hsl (slice_boundaries hr).2.1 (by omega) (by omega)
      rw [hr] at hr2
      simp only [Except.ok.injEq, List.cons.injEq] at hr2
      exact hr2.1.symm
    subst hch
    -- the witness of the entry at `k + n` made the single-character step
    rcases hctx.just _ _ (lookup_mem hlk) with hv | hJ
    · omega
    · obtain ⟨skip0, tok0, f0, st0, st0', hq0, hs0, _, hi0, hsrc0, hmax0, hpos0, _, _, _, hstep, hv, _⟩ :=
        hJ
      obtain ⟨csw, hcsw⟩ := hmk
      have hw0 : st0.window = .ok (ch' :: rest') := by
        unfold IState.window
        rw [hsrc0, hpos0, hmax0, hsl]
        rfl
      have := (skipStep_unit_at_marker hcoh hq0 hs0 f0 st0 hi0 hcsw hw0 st0' hstep).1
      have hv' : v' = k + (n + 1) := by omega
      rw [← hv']
      exact hOv

/-! ## one iteration of the loop -/

section
variable {cfg : Cfg} {B : List Char → CodePair.Cache → Prop} {src : List Char} {Mtop : Nat}
  {f : Nat} {skipG skipM tokG tokM : IState → Except Panic IState}

/-- **one iteration of the tokenizer loop inside a nested frame** (below the nesting limit): the
    guarded step is the model's step, the memo is left alone, `NF` is kept -/
theorem nested_step (H : NestHyps cfg B src Mtop) (C : Callees cfg B src Mtop f skipG skipM tokG tokM)
    {s : IState} (hnf : NF cfg B src Mtop s) (hl : s.level < cfg.maxNesting)
    (hlt : s.pos < s.posMax) :
    tokStep cfg skipG tokG f s = tokStep cfg skipM tokM f s ∧
    ∀ s', tokStep cfg skipG tokG f s = .ok s' →
      s'.cache = s.cache ∧ s'.posMax = s.posMax ∧ NF cfg B src Mtop s' := by
  have hf : ∀ k v, (k, v) ∈ s.cache → k < v := fun k v h => (hnf.ctx.memo k v h).1
  obtain ⟨ch, rest, v, hsl, hlk, hkv, hvle, hOv, _⟩ := outer_step hf hnf.outer hlt
  have htop := hnf.top_lt
  have S : StepCtx src Mtop s.cache s.pos s.posMax v ch rest := ⟨hsl, hlk, hvle, hlt⟩
  rcases hnf.ctx.just _ _ (lookup_mem hlk) with hvM | hJ
  · omega
  obtain ⟨skip0, tok0, f0, st0, o0, w', hq0, hs0, hg0, hi0, hsrc0, hmax0, hpos0, hB0, hfr, hmono, hn0,
    hs0'⟩ := just_chain hJ hsl
  have P : Pair cfg B src Mtop s.cache s.pos s.posMax ch st0 s :=
    ⟨hi0, hsrc0, hmax0, hpos0, fun _ => hB0, hnf, rfl, rfl, rfl⟩
  obtain ⟨eq1, post1⟩ := chain_L2 H C S hq0 hs0 hg0 cfg.chain (fun _ h => h) H.one.1 H.one.2 st0 s P
    o0 w' hfr hmono hn0 hs0'
  obtain ⟨lo, hg⟩ := hnf.good
  have hT := tokStep_T (coherent_hsz H.coh) C.calm C.skT C.tokT C.rng f s hg hnf.memoB hlt
  have heq : tokStep cfg skipG tokG f s = tokStep cfg skipM tokM f s := by
    unfold tokStep
    simp only [if_pos hl]
    rw [eq1]
  refine ⟨heq, ?_⟩
  intro s' h
  obtain ⟨hg', _, fr', _⟩ := hT.2 s' h
  have key : s'.cache = s.cache ∧ B s'.src s'.backticks ∧
      Outer src Mtop s.cache s.posMax s'.pos 1 := by
    unfold tokStep at h
    simp only [if_pos hl] at h
    cases hG : firstRule (fun id s => runRule cfg skipG tokG f id s false) cfg.chain s with
    | error e => rw [hG] at h; simp at h
    | ok p =>
      obtain ⟨o, x'⟩ := p
      rw [hG] at h
      obtain ⟨a, b, c, d, e⟩ := post1 o x' hG
      rcases e with ⟨e1, e2, e3, _⟩ | ⟨len, e1, _, e3⟩ | ⟨n, e1, e2, e3⟩
      · subst e1
        simp only at h
        obtain ⟨c', hfc, hp', hc', hb', hs', _, _⟩ := fallback_keeps h
        obtain ⟨rest', hwx, _, _⟩ := P.windows S
        have hwx' : x'.window = .ok (ch :: rest') := by
          rw [← hwx]; exact window_congr b e3 c
        unfold firstChar at hfc
        rw [hwx'] at hfc
        simp only [liftR, Except.ok.injEq] at hfc
        subst hfc
        have hv : v = s.pos + ch.utf8Size := hn0 e2
        refine ⟨hc'.trans a, by rw [hs', hb']; exact d, ?_⟩
        rw [hp', e3, ← hv]
        exact hOv
      · subst e1
        simp only [Except.ok.injEq] at h
        subst h
        refine ⟨a, d, ?_⟩
        show Outer src Mtop s.cache s.posMax (x'.pos + len) 1
        rw [e3]
        exact hOv
      · subst e1
        simp only [Except.ok.injEq] at h
        subst h
        refine ⟨a, d, ?_⟩
        show Outer src Mtop s.cache s.posMax (x'.pos + n) 1
        rw [e2]
        obtain ⟨hmk, _, h2, h3⟩ := e3
        exact outer_marker_run H.coh hnf.ctx htop hmk n hnf.outer h2 h3
  exact ⟨key.1, fr'.posMax,
    ⟨by rw [key.1]; exact hnf.ctx, fr'.src.trans hnf.hsrc, key.2.1, ⟨lo, hg'⟩,
      by rw [fr'.posMax]; exact hnf.cut, by rw [key.1, fr'.posMax]; exact key.2.2⟩⟩

end

/-! ## the induction on fuel -/

section
variable {cfg : Cfg} {B : List Char → CodePair.Cache → Prop} {src : List Char} {Mtop : Nat}

/-- the guarded and the model callees at fuel `f`, given the nested statement at fuel `f` -/
theorem callees_of (H : NestHyps cfg B src Mtop) (f : Nat)
    (ih : ∀ s : IState, NF cfg B src Mtop s →
      tokLoopG cfg true f s.posMax s = tokLoop cfg f s.posMax s ∧
      ∀ s', tokLoopG cfg true f s.posMax s = .ok s' → s'.cache = s.cache ∧ B s'.src s'.backticks) :
    Callees cfg B src Mtop f (fun s => skipTokenG cfg true f s) (fun s => skipToken cfg f s)
      (fun s => tokLoopG cfg true f s.posMax s) (fun s => tokLoop cfg f s.posMax s) := by
  refine ⟨skipTokenG_calm cfg true f, skipTokenG_T cfg f,
    fun lo s hg hm => ((guarded_total cfg (coherent_hsz H.coh) f).2 lo s hg hm).tokT,
    rangesFnG cfg true f, ?_, ih⟩
  cases f with
  | zero => exact .inl rfl
  | succ f' => exact .inr ⟨followsHits_guarded cfg true f', followsHits_model cfg f'⟩

/-- **inside a nested label frame the guarded tokenizer IS the model tokenizer**, at every fuel, and it
    leaves the memo alone and keeps the code-span cache invariant -/
theorem nested_eq (H : NestHyps cfg B src Mtop) : ∀ (f : Nat) (s : IState), NF cfg B src Mtop s →
    tokLoopG cfg true f s.posMax s = tokLoop cfg f s.posMax s ∧
    ∀ s', tokLoopG cfg true f s.posMax s = .ok s' → s'.cache = s.cache ∧ B s'.src s'.backticks := by
  intro f
  induction f with
  | zero =>
    intro s hnf
    unfold tokLoopG tokLoop
    by_cases hlt : s.pos < s.posMax
    · simp only [if_pos hlt]
      exact ⟨by trivial, by intro s' h; simp at h⟩
    · simp only [if_neg hlt]
      refine ⟨by trivial, ?_⟩
      intro s' h
      simp only [Except.ok.injEq] at h; subst h
      exact ⟨rfl, hnf.back⟩
  | succ f ih =>
    intro s hnf
    by_cases hl : s.level < cfg.maxNesting
    · unfold tokLoopG tokLoop
      by_cases hlt : s.pos < s.posMax
      · simp only [if_pos hlt]
        obtain ⟨e1, n1⟩ := nested_step H (callees_of H f ih) hnf hl hlt
        rw [← e1]
        cases hs : tokStep cfg (fun s => skipTokenG cfg true f s)
            (fun s => tokLoopG cfg true f s.posMax s) f s with
        | error e => exact ⟨rfl, by intro s' h; simp at h⟩
        | ok s1 =>
          simp only
          obtain ⟨a, b, c⟩ := n1 s1 hs
          have hrec := ih s1 c
          rw [b] at hrec
          exact ⟨hrec.1, fun s' h => ⟨((hrec.2 s' h).1).trans a, (hrec.2 s' h).2⟩⟩
      · simp only [if_neg hlt]
        refine ⟨by trivial, ?_⟩
        intro s' h
        simp only [Except.ok.injEq] at h; subst h
        exact ⟨rfl, hnf.back⟩
    · obtain ⟨e, n⟩ := over_limit cfg true (f + 1) s.posMax s hl
      refine ⟨e, ?_⟩
      intro s' h
      obtain ⟨a, b, c⟩ := n s' h
      exact ⟨a, by rw [c, b]; exact hnf.back⟩

/-- `nested_eq` in the form the top-frame development consumes (`TokEqAt` of
    `Lemmas/MemoSafeLamTop.lean`, with `P := NF cfg B src Mtop`) -/
theorem nested_tokEq (H : NestHyps cfg B src Mtop) (f : Nat) (s : IState)
    (hnf : NF cfg B src Mtop s) :
    (fun s : IState => tokLoopG cfg true f s.posMax s) s = (fun s : IState => tokLoop cfg f s.posMax s) s ∧
    ∀ s', (fun s : IState => tokLoopG cfg true f s.posMax s) s = .ok s' →
      s'.cache = s.cache ∧ (B s.src s.backticks → B s'.src s'.backticks) :=
  ⟨(nested_eq H f s hnf).1, fun s' h => ⟨((nested_eq H f s hnf).2 s' h).1,
    fun _ => ((nested_eq H f s hnf).2 s' h).2⟩⟩

end

/-! ## examples

`NF` is an invariant of a RUN (its `JustAll` component quantifies over the look-ahead steps that made the
memo), so the examples check the CONCLUSION of `nested_eq` on the nested frame a real run enters, and
show that it fails for a frame entered with a crossing memo entry (where `NF.outer` is false). -/

/-- the nested frame `[1, 7)` of the outer link of `[[a](b)](c)`, as the real link rule enters it: the
    look-ahead of the top frame left the memo `2 ↦ 3`, `1 ↦ 7` -/
def exNested : IState :=
  { src := "[[a](b)](c)".toList, srcmap := [(0, 0)], pos := 1, posMax := 7, level := 1, linkLevel := 1,
    cache := [(1, 7), (2, 3)], backticks := CodePair.Cache.empty, children := [], bottoms := [] }

-- guarded run = model run on the nested frame (same memo, same end, one child: the inner link), and
-- the memo is left alone although the frame contains a link whose rule calls `parse_link` again
example :
    (tokLoopG (entryCfg 100) true 20 exNested.posMax exNested).toOption.map
        (fun s => (s.cache, s.pos, s.children.length)) = some ([(1, 7), (2, 3)], 7, 1) ∧
    (tokLoop (entryCfg 100) 20 exNested.posMax exNested).toOption.map
        (fun s => (s.cache, s.pos, s.children.length)) = some ([(1, 7), (2, 3)], 7, 1) := by
  decide +kernel

/-- `0` a value, `1` out of fuel / guard, `2` a Rust panic -/
def outcome : Except Panic IState → Nat
  | .ok _ => 0
  | .error .fuel => 1
  | .error (.rust _) => 2

/-- the label frame `[3, 7)` of the finding `witness_panics` (`Props/InlineTotal.lean`; incoherent chain:
    an emphasis pair on the backtick in front of the code-span rule), entered with the crossing entry
    `6 ↦ 13`: no label walk over this memo finds the frame end (`NF.outer` fails), the guard trips, the
    model panics — the conclusion of `nested_eq` is false there -/
example :
    outcome (tokLoopG { exCfg 100 with chain := [.emph '`' true, .backticks, .link] } true 20 7
      { src := "[`[a`[`](u) `".toList, srcmap := [(0, 0)], pos := 3, posMax := 7, level := 1,
        linkLevel := 1, cache := [(6, 13)], backticks := CodePair.Cache.empty, children := [],
        bottoms := [] }) = 1 ∧
    outcome (tokLoop { exCfg 100 with chain := [.emph '`' true, .backticks, .link] } 20 7
      { src := "[`[a`[`](u) `".toList, srcmap := [(0, 0)], pos := 3, posMax := 7, level := 1,
        linkLevel := 1, cache := [(6, 13)], backticks := CodePair.Cache.empty, children := [],
        bottoms := [] }) = 2 := by
  decide +kernel

end MdIt.Inline
