/-
  C11, code SPANS, INLINE level: the inline parser on  plain text ++ code span ++ plain text.

  `Props/C11.lean` (`span_verbatim_ctx`) is a statement about ONE call of the code-span rule.  Here that call is
  reached through the inline tokenizer (`Inline.tokenize` / `parseInline`) on a text `pre ++ span ++ post` whose
  context is harmless: `pre`, `post` free of the text rule's stop characters (`PlainTxt`), so that the loop makes
  at most three iterations — the text rule on `pre`, the chain up to the code-span rule on the span (every rule in
  front answers `None` at a backtick: `runRule_quiet_tick`), the text rule on `post` — with the EMPTY code-span
  cache (`CodePair.CacheInv.empty`) when the rule is called.

    `parseInline_span`   `parseInline cfg (pre ++ spanOf k T ++ post) [(0, x)]` is exactly
                         `[Text pre]? ++ [CodeInline[Text (normalise T)]] ++ [Text post]?`, with every range.
-/
import MdIt.Lemmas.InlineRules
import MdIt.Lemmas.C05InlineTables
import MdIt.Props.C11
set_option linter.unusedSimpArgs false
set_option linter.unusedVariables false

namespace MdIt.C11S
open MdIt.Inline
open MdIt.InlineOps (Srcmap getSourcePosFor getMap byteLen slice)
open MdIt.C05 (byteLen_append slice_ok_iff)

/-! ## 1. vocabulary -/

/-- the code span `` `ᵏ⁺¹ ␠ T ␠ `ᵏ⁺¹ `` -/
def spanOf (k : Nat) (T : List Char) : List Char :=
  List.replicate (k + 1) '`' ++ [' '] ++ T ++ [' '] ++ List.replicate (k + 1) '`'

/-- plain text: no character of the text rule's stop set (`\n ! # $ % & * + - : < = > @ [ \ ] ^ _ ` { } ~`) -/
def PlainTxt (s : List Char) : Prop := ∀ c ∈ s, c ∉ Entity.textStop

theorem PlainTxt.tail {c : Char} {s : List Char} (h : PlainTxt (c :: s)) : PlainTxt s :=
  fun d hd => h d (List.mem_cons_of_mem _ hd)

/-- the text rule's run: all of a plain prefix, up to a stop character or the end -/
theorem splitRun_plain : ∀ (a b : List Char), PlainTxt a → (∀ c ∈ b.head?, c ∈ Entity.textStop) →
    Entity.splitRun (fun c => !Entity.textStop.contains c) (a ++ b) = (a, b)
  | [], [], _, _ => rfl
  | [], c :: r, _, hb => by
    have := hb c (by simp)
    simp [Entity.splitRun, this]
  | c :: a, b, ha, hb => by
    have hc := ha c (by simp)
    have ih := splitRun_plain a b ha.tail hb
    have hc' : (!Entity.textStop.contains c) = true := by simp [hc]
    simp only [List.cons_append, Entity.splitRun, hc', if_true, ih]

theorem byteLen_spanOf (k : Nat) (T : List Char) : byteLen (spanOf k T) = 2 * (k + 1) + 2 + byteLen T := by
  have hr : byteLen (List.replicate (k + 1) '`') = k + 1 := by
    rw [← codeByteLen_eq]; exact CodePair.byteLen_replicate CodePair.backtick_size _
  simp only [spanOf, byteLen_append, hr, byteLen, show ' '.utf8Size = 1 by decide]
  omega

theorem spanOf_head (k : Nat) (T : List Char) : ∃ r, spanOf k T = '`' :: r := by
  simp [spanOf, List.replicate_succ]

/-! ## 2. states on the text `c`, table `[(0, x)]` -/

/-- a top-level state over the whole text `c` with the one-entry table -/
structure On (st : IState) (c : List Char) (x : Nat) : Prop where
  src : st.src = c
  map : st.srcmap = [(0, x)]
  posMax : st.posMax = byteLen c
  level : st.level = 0

theorem On.window {st : IState} {c : List Char} {x : Nat} (h : On st c x) (a b : List Char) (hc : c = a ++ b)
    (hp : st.pos = byteLen a) : st.window = .ok b := by
  unfold IState.window
  rw [h.src, h.posMax, hp]
  have : slice c (byteLen a) (byteLen c) = .ok b :=
    (slice_ok_iff _ _ _ _).mpr ⟨a, [], by simp [hc], rfl, by rw [hc, byteLen_append]⟩
  rw [this]; rfl

theorem On.getMap {st : IState} {c : List Char} {x : Nat} (h : On st c x) {a b : Nat} (hab : a ≤ b) :
    st.getMap a b = .ok (x + a, x + b) := by
  unfold IState.getMap InlineOps.getMap
  rw [if_neg (by omega), h.map, C05I.single_translate, C05I.single_translate]; rfl

theorem On.sliceAt {st : IState} {c : List Char} {x : Nat} (h : On st c x) (a mid b : List Char)
    (hc : c = a ++ mid ++ b) : liftOps (InlineOps.slice st.src (byteLen a) (byteLen a + byteLen mid)) = .ok mid := by
  rw [h.src]
  have : InlineOps.slice c (byteLen a) (byteLen a + byteLen mid) = .ok mid :=
    (slice_ok_iff _ _ _ _).mpr ⟨a, b, hc, rfl, rfl⟩
  rw [this]; rfl

/-- the children do not end with a text node (so `trailing_text_push` starts a fresh one) -/
def NoTrailText (cs : List Node) : Prop := ∀ init n, cs = init ++ [n] → n.isText = false

theorem noTrailText_nil : NoTrailText [] := by
  intro init n h
  have := congrArg List.length h
  simp at this

theorem noTrailText_snoc (cs : List Node) (n : Node) (h : n.isText = false) : NoTrailText (cs ++ [n]) := by
  intro init n' e
  have := List.append_inj' e rfl
  simp at this
  rw [← this.2]; exact h

theorem pushText_fresh {st : IState} {c : List Char} {x : Nat} (h : On st c x) (a mid b : List Char)
    (hc : c = a ++ mid ++ b) (hnt : NoTrailText st.children) :
    st.pushText (byteLen a) (byteLen a + byteLen mid) =
      .ok { st with children := st.children ++
        [Node.newText mid (some (x + byteLen a, x + (byteLen a + byteLen mid)))] } := by
  have hs := h.sliceAt a mid b hc
  have hm : liftOps (getMap st.srcmap (byteLen a) (byteLen a + byteLen mid)) =
      .ok (x + byteLen a, x + (byteLen a + byteLen mid)) := h.getMap (Nat.le_add_right _ _)
  unfold IState.pushText trailingTextPush
  simp only [hs, hm]
  cases hpl : popLast st.children with
  | none => rfl
  | some p =>
    obtain ⟨init, last⟩ := p
    rcases popLast_spec st.children with ⟨h0, _⟩ | ⟨i, l, h1, h2⟩
    · rw [hpl] at h0; cases h0
    · rw [hpl] at h1
      simp only [Option.some.injEq, Prod.mk.injEq] at h1
      have := hnt init last (by rw [h1.1, h1.2]; exact h2)
      simp [this]

/-! ## 3. the text rule on a plain stretch -/

/-- the text rule takes a plain stretch `mid` (followed by a stop character or the end of the window) whole
    and pushes it as one text node -/
theorem ruleText_plain {st : IState} {c : List Char} {x : Nat} (h : On st c x) (a mid b : List Char)
    (hc : c = a ++ mid ++ b) (hp : st.pos = byteLen a) (hne : mid ≠ []) (hmid : PlainTxt mid)
    (hb : ∀ ch ∈ b.head?, ch ∈ Entity.textStop) (hnt : NoTrailText st.children) :
    ruleText st false = .ok (some (byteLen mid), { st with children := st.children ++
      [Node.newText mid (some (x + byteLen a, x + (byteLen a + byteLen mid)))] }) := by
  have hw := h.window a (mid ++ b) (by rw [hc, List.append_assoc]) hp
  have hpos : byteLen mid ≠ 0 := by
    intro h0
    cases mid with
    | nil => exact hne rfl
    | cons d r => have := Char.utf8Size_pos d; simp only [byteLen] at h0; omega
  unfold ruleText
  rw [hw]
  simp only [splitRun_plain mid b hmid hb, hpos, if_false, Bool.false_eq_true, hp,
    pushText_fresh h a mid b hc hnt]

/-- at a stop character the text rule answers `None` -/
theorem ruleText_stop {st : IState} {c : List Char} {x : Nat} (h : On st c x) (a b : List Char) (ch : Char)
    (hc : c = a ++ ch :: b) (hp : st.pos = byteLen a) (hs : ch ∈ Entity.textStop) (silent : Bool) :
    ruleText st silent = .ok (none, st) := by
  have hw := h.window a (ch :: b) hc hp
  unfold ruleText
  rw [hw]
  simp [Entity.splitRun, hs, byteLen]


/-! ## 4. the other rules at a backtick -/

/-- the rules that answer `None` at a backtick and hand the state back: all but the code-span rule itself
    and an emphasis rule configured for the backtick -/
def QuietTick (r : RuleId) : Prop := r ≠ .backticks ∧ ∀ csw, r ≠ .emph '`' csw

theorem runRule_quiet_tick (cfg : Cfg) (skip tok : IState → Except Panic IState) (fuel : Nat) {st : IState}
    {rest : List Char} (hw : st.window = .ok ('`' :: rest)) (r : RuleId) (hr : QuietTick r) :
    runRule cfg skip tok fuel r st false = .ok (none, st) := by
  cases r with
  | text =>
    simp [runRule, ruleText, hw, Entity.splitRun, Entity.textStop, byteLen, liftR]
  | newline => simp [runRule, ruleNewline, hw, liftR]
  | escape => simp [runRule, ruleEscape, hw, Entity.escapeCore, liftR]
  | backticks => exact absurd rfl hr.1
  | emph mk csw =>
    have hmk : mk ≠ '`' := fun e => hr.2 csw (by rw [e])
    simp [runRule, ruleEmph, hw, liftR, Ne.symm hmk]
  | link => simp [runRule, ruleLink, hw, liftR]
  | image => simp [runRule, ruleImage, hw, liftR]
  | linkEnd => rfl
  | autolink => simp [runRule, ruleAutolink, hw, liftR]
  | entity => simp [runRule, ruleEntity, hw, liftR]

theorem firstRule_quiet (run : RuleId → IState → RuleRes) (st : IState) :
    ∀ (pre post : List RuleId), (∀ r ∈ pre, run r st = .ok (none, st)) →
      firstRule run (pre ++ post) st = firstRule run post st
  | [], _, _ => rfl
  | r :: rs, post, h => by
    simp only [List.cons_append, firstRule, h r (by simp)]
    exact firstRule_quiet run st rs post (fun q hq => h q (List.mem_cons_of_mem _ hq))

/-! ## 5. the code-span rule on the span -/

/-- the node the code-span rule makes: `CodeInline` over the whole span, one text child over the inside -/
def codeNode (x p k : Nat) (T : List Char) : Node :=
  { val := .codeInline '`' (k + 1), range := some (x + p, x + (p + (2 * (k + 1) + 2 + byteLen T))),
    children := [Node.newText (CodePair.normalise T) (some (x + (p + (k + 1) + 1), x + (p + (k + 1) + 1 + byteLen T)))] }

theorem ruleBackticks_span {st : IState} {c : List Char} {x : Nat} (h : On st c x) (pre T post : List Char) (k : Nat)
    (hc : c = pre ++ spanOf k T ++ post) (hp : st.pos = byteLen pre) (hT : T ≠ [])
    (hruns : ¬ List.replicate (k + 1) '`' <:+: T) (hpost : post.head? ≠ some '`')
    (hcache : st.backticks = CodePair.Cache.empty) :
    ∃ c', ruleBackticks st false = .ok (some (2 * (k + 1) + 2 + byteLen T),
      { st with backticks := c', children := st.children ++ [codeNode x (byteLen pre) k T] }) := by
  have hsrc : pre ++ (List.replicate (k + 1) '`' ++ [' '] ++ T ++ [' '] ++ List.replicate (k + 1) '`') ++ post ++ [] = c := by
    rw [hc]; simp [spanOf]
  have hlen : CodePair.byteLen pre + (2 * (k + 1) + 2 + CodePair.byteLen T) + CodePair.byteLen post = CodePair.byteLen c := by
    simp only [codeByteLen_eq]
    rw [hc, byteLen_append, byteLen_append, byteLen_spanOf]
  have hcut : CodePair.NoCut '`' c (CodePair.byteLen c) := CodePair.noCut_end '`' c
  obtain ⟨c', hrun⟩ := CodePair.span_verbatim_ctx '`' CodePair.backtick_size (by decide) pre T post [] k hT hruns hpost
    false CodePair.Cache.empty (CodePair.CacheInv.empty _ _) rfl (Or.inr (by rw [hsrc, hlen]; exact hcut))
  rw [hsrc, hlen] at hrun
  simp only [codeByteLen_eq] at hrun
  refine ⟨c', ?_⟩
  unfold ruleBackticks
  rw [h.src, hp, h.posMax, hcache, hrun]
  simp only []
  rw [h.getMap (by omega), h.getMap (by omega)]
  rfl


/-! ## 6. the tokenizer loop -/

theorem tokLoop_step (cfg : Cfg) (fuel end_ : Nat) {st st' : IState} (hlt : st.pos < end_)
    (hstep : tokStep cfg (fun s => skipToken cfg fuel s) (fun s => tokLoop cfg fuel s.posMax s) fuel st = .ok st') :
    tokLoop cfg (fuel + 1) end_ st = tokLoop cfg fuel end_ st' := by
  rw [tokLoop.eq_def]
  simp only [hlt, if_true, hstep]

theorem tokLoop_done (cfg : Cfg) (fuel end_ : Nat) {st : IState} (h : ¬ st.pos < end_) :
    tokLoop cfg fuel end_ st = .ok st := by
  rw [tokLoop.eq_def]
  simp only [h, if_false]

/-- the text node for a stretch `mid` at inline offset `p` — none for an empty stretch -/
def textNodes (x p : Nat) (mid : List Char) : List Node :=
  if mid = [] then [] else [Node.newText mid (some (x + p, x + (p + byteLen mid)))]

theorem On.upd {st : IState} {c : List Char} {x : Nat} (h : On st c x) (cs : List Node) (p : Nat)
    (bt : CodePair.Cache) : On { st with children := cs, pos := p, backticks := bt } c x :=
  ⟨h.src, h.map, h.posMax, h.level⟩

/-- a plain stretch (possibly empty) in front of a stop character or the end: at most one iteration, the
    text rule's -/
theorem tokLoop_plain (cfg : Cfg) (hmn : 0 < cfg.maxNesting) (rest : List RuleId) (hchain : cfg.chain = .text :: rest)
    {st : IState} {c : List Char} {x : Nat} (h : On st c x) (a mid b : List Char)
    (hc : c = a ++ mid ++ b) (hp : st.pos = byteLen a) (hmid : PlainTxt mid)
    (hb : ∀ ch ∈ b.head?, ch ∈ Entity.textStop) (hnt : NoTrailText st.children) (F : Nat) (hF : 1 ≤ F) :
    ∃ F', F ≤ F' + 1 ∧ tokLoop cfg F (byteLen c) st =
      tokLoop cfg F' (byteLen c) { st with children := st.children ++ textNodes x (byteLen a) mid,
                                            pos := byteLen a + byteLen mid } := by
  by_cases hne : mid = []
  · subst hne
    refine ⟨F, by omega, ?_⟩
    congr 1
    cases st
    simp only [textNodes, if_true, List.append_nil, byteLen, Nat.add_zero] at hp ⊢
    simp [hp]
  · obtain ⟨G, rfl⟩ : ∃ G, F = G + 1 := ⟨F - 1, by omega⟩
    refine ⟨G, by omega, ?_⟩
    have hrt := ruleText_plain h a mid b hc hp hne hmid hb hnt
    have hpos : 0 < byteLen mid := by
      cases mid with
      | nil => exact absurd rfl hne
      | cons d r => have := Char.utf8Size_pos d; simp only [byteLen]; omega
    have hlt : st.pos < byteLen c := by
      rw [hp, hc, byteLen_append, byteLen_append]; omega
    rw [tokLoop_step cfg G (byteLen c) hlt (st' := { st with children := st.children ++ textNodes x (byteLen a) mid, pos := byteLen a + byteLen mid })]
    have hl : st.level < cfg.maxNesting := by rw [h.level]; exact hmn
    unfold tokStep
    simp only [hl, if_true, hchain, firstRule, runRule, hrt, liftR, textNodes, hne, if_false, hp]

/-- the iteration at the span: every rule in front of the code-span rule answers `None`, the code-span rule
    takes the whole span -/
theorem tokLoop_span (cfg : Cfg) (hmn : 0 < cfg.maxNesting) (c1 c2 : List RuleId)
    (hchain : cfg.chain = c1 ++ .backticks :: c2) (hq : ∀ r ∈ c1, QuietTick r)
    {st : IState} {c : List Char} {x : Nat} (h : On st c x) (pre T post : List Char) (k : Nat)
    (hc : c = pre ++ spanOf k T ++ post) (hp : st.pos = byteLen pre) (hT : T ≠ [])
    (hruns : ¬ List.replicate (k + 1) '`' <:+: T) (hpost : post.head? ≠ some '`')
    (hcache : st.backticks = CodePair.Cache.empty) (F : Nat) :
    ∃ c', tokLoop cfg (F + 1) (byteLen c) st =
      tokLoop cfg F (byteLen c) { st with backticks := c', children := st.children ++ [codeNode x (byteLen pre) k T],
                                          pos := byteLen pre + (2 * (k + 1) + 2 + byteLen T) } := by
  obtain ⟨c', hbt⟩ := ruleBackticks_span h pre T post k hc hp hT hruns hpost hcache
  refine ⟨c', ?_⟩
  obtain ⟨r, hr⟩ := spanOf_head k T
  have hw : st.window = .ok ('`' :: (r ++ post)) := by
    refine h.window pre _ ?_ hp
    rw [hc, hr]; simp
  have hlt : st.pos < byteLen c := by
    rw [hp, hc, byteLen_append, byteLen_append, byteLen_spanOf]; omega
  rw [tokLoop_step cfg F (byteLen c) hlt (st' := { st with backticks := c', children := st.children ++ [codeNode x (byteLen pre) k T], pos := byteLen pre + (2 * (k + 1) + 2 + byteLen T) })]
  have hl : st.level < cfg.maxNesting := by rw [h.level]; exact hmn
  unfold tokStep
  simp only [hl, if_true, hchain]
  rw [firstRule_quiet _ st c1 _ (fun q hq' => runRule_quiet_tick cfg _ _ F hw q (hq q hq'))]
  simp only [firstRule, runRule, hbt, liftR, hp]


/-! ## 7. `parseInline` on plain text, a code span, plain text -/

theorem trimSrc_ends (c : List Char) (f l : Char) (r : List Char) (hc : c = f :: r) (hl : c.getLast? = some l)
    (hf : isSpTab f = false) (hll : isSpTab l = false) : trimSrc c = (0, byteLen c) := by
  obtain ⟨init, hi⟩ := List.getLast?_eq_some_iff.mp hl
  have hrev : c.reverse = l :: init.reverse := by rw [hi]; simp
  have hfront : (init.takeWhile isSpTab).length = 0 := by
    cases init with
    | nil => rfl
    | cons d t =>
      have : d = f := by
        rw [hc] at hi
        simp at hi
        exact hi.1.symm
      subst this
      simp [List.takeWhile, hf]
  unfold trimSrc
  simp only [hrev, List.takeWhile, hll, List.dropWhile, List.length_nil, List.drop_succ_cons, List.drop_zero,
    List.reverse_reverse, hfront, Nat.sub_zero]

theorem tick_stop : '`' ∈ Entity.textStop := by decide

/-- **the inline parser on `pre ++ span ++ post`.**  `pre`, `post` plain text (no character of the text rule's
    stop set; either may be empty), the span `` `ᵏ⁺¹ ␠ T ␠ `ᵏ⁺¹ `` with `T` non-empty and free of runs of `k + 1`
    backticks; the whole text neither starts nor ends with a blank (`trimSrc` takes nothing); the chain has the text
    rule first and reaches the code-span rule through rules other than an emphasis rule for the backtick;
    `max_nesting > 0`; the table has one entry.  The result: the text node of `pre` (if any), ONE `CodeInline`
    node over the span whose single text child is `T` with line feeds turned into spaces — nothing else of `T`
    is touched —, the text node of `post` (if any). -/
theorem parseInline_span (cfg : Cfg) (hmn : 0 < cfg.maxNesting) (c1 c2 : List RuleId)
    (hchain : cfg.chain = .text :: (c1 ++ .backticks :: c2)) (hq : ∀ r ∈ c1, QuietTick r)
    (pre T post : List Char) (k x : Nat) (hpre : PlainTxt pre) (hpost : PlainTxt post) (hT : T ≠ [])
    (hruns : ¬ List.replicate (k + 1) '`' <:+: T)
    (htrim : trimSrc (pre ++ spanOf k T ++ post) = (0, byteLen (pre ++ spanOf k T ++ post))) :
    parseInline cfg (pre ++ spanOf k T ++ post) [(0, x)] =
      .ok (textNodes x 0 pre ++ [codeNode x (byteLen pre) k T] ++
        textNodes x (byteLen pre + (2 * (k + 1) + 2 + byteLen T)) post) := by
  obtain ⟨c, hcdef⟩ : ∃ c, c = pre ++ spanOf k T ++ post := ⟨_, rfl⟩
  rw [← hcdef] at htrim ⊢
  obtain ⟨st0, hst0⟩ : ∃ s : IState, s = ⟨c, [(0, x)], 0, byteLen c, 0, 0, [], CodePair.Cache.empty, [], []⟩ := ⟨_, rfl⟩
  have hinit : IState.init c [(0, x)] = st0 := by rw [hst0]; simp [IState.init, htrim]
  have hon0 : On st0 c x := by rw [hst0]; exact ⟨rfl, rfl, rfl, rfl⟩
  have hfuel : 3 ≤ topFuel cfg c := by
    unfold topFuel
    calc 3 ≤ 2 * 2 := by omega
      _ ≤ (byteLen c + 2) * (cfg.maxNesting + 2) := Nat.mul_le_mul (by omega) (by omega)
  have hposthead : ∀ ch ∈ post.head?, ch ≠ '`' := by
    intro ch hch e
    subst e
    cases post with
    | nil => simp at hch
    | cons d t => simp at hch; subst hch; exact hpost _ (by simp) tick_stop
  -- the plain text in front
  obtain ⟨r0, hr0⟩ := spanOf_head k T
  obtain ⟨F1, hF1, hA⟩ := tokLoop_plain cfg hmn _ hchain hon0 [] pre (spanOf k T ++ post)
    (by rw [hcdef]; simp) (by rw [hst0]; rfl) hpre
    (by intro ch hch; rw [hr0] at hch; simp at hch; subst hch; exact tick_stop)
    (by rw [hst0]; exact noTrailText_nil) (topFuel cfg c) (by omega)
  -- the span
  obtain ⟨G, rfl⟩ : ∃ G, F1 = G + 1 := ⟨F1 - 1, by omega⟩
  obtain ⟨c', hB⟩ := tokLoop_span cfg hmn (.text :: c1) c2 (by rw [hchain]; rfl)
    (fun r hr => by
      rcases List.mem_cons.mp hr with rfl | h
      · exact ⟨(by intro e; cases e), (by intro csw e; cases e)⟩
      · exact hq r h)
    (hon0.upd (st0.children ++ textNodes x (byteLen ([] : List Char)) pre) (byteLen ([] : List Char) + byteLen pre)
      st0.backticks) pre T post k hcdef (by simp [byteLen]) hT hruns
    (by intro e; cases post with
        | nil => simp at e
        | cons d t => simp at e; exact hposthead d (by simp) e)
    (by rw [hst0]) G
  -- the plain text behind
  have hon2 := (hon0.upd (st0.children ++ textNodes x (byteLen ([] : List Char)) pre ++ [codeNode x (byteLen pre) k T])
    (byteLen pre + (2 * (k + 1) + 2 + byteLen T)) c')
  obtain ⟨F3, _, hC⟩ := tokLoop_plain cfg hmn _ hchain hon2 (pre ++ spanOf k T) post []
    (by rw [hcdef]; simp) (by simp [byteLen_append, byteLen_spanOf]) hpost (by simp)
    (noTrailText_snoc _ _ rfl) G (by omega)
  unfold parseInline tokenize
  rw [hinit, hon0.posMax, hA]
  simp only [hst0] at hB hC ⊢
  rw [hB, hC, tokLoop_done _ _ _ (by simp only [hcdef, byteLen_append, byteLen_spanOf]; omega)]
  simp [byteLen, byteLen_append, byteLen_spanOf]

end MdIt.C11S
