/-
  The simp set `blockNF`: statements of the block model that never answer `Panic.fuel`
  (`f args = .error .fuel ↔ False`), collected for `MdIt/Lemmas/BlockTotalFuel.lean`.
-/
import Lean.Meta.Tactic.Simp.RegisterCommand

/-- statements of the block model that never answer `Panic.fuel` -/
register_simp_attr blockNF
