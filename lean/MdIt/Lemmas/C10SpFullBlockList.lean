/-
  Block ranges start at a byte of their own, part 3c: the list rule in lock step on `LX.Y`-related
  states (copy of `MdIt/Lemmas/C10SourceposSimList.lean`).  New: an item's first line is not empty —
  the first item starts on the line the tokenizer loop stopped on (`Live s₁`), every further item on
  a line on which `listContinue` has just read a marker (`listContinue_nonempty`); `get_map` of an
  item is called right after the item's first-line entry has been written back; `get_map` of the
  list is called on the table the rule started with (`listLoop_spec`).  The kinds of the new nodes are
  `.listItem` / the list kind (frames), which the strict value relation `KRelS` needs.
-/
import MdIt.Lemmas.C10SpFullBlockLeaf

namespace MdIt.Block.LX.Y
open MdIt.Block.LE
open MdIt.Lines (LineOffset)
variable {τ : Nat × Nat → Nat × Nat → Prop} {ρ : Nat → Nat → Prop} {G : Geo}

/-! (the small helpers of the `LE` file are reused from there) -/

/-! ## unary facts -/

theorem getLine_nonempty {s : BState} {n : Nat} {c : Char} {r : List Char}
    (h : s.getLine n = .ok (c :: r)) : s.isEmpty n = false := by
  have h' := liftL_ok' h
  unfold Lines.getLine at h'
  unfold BState.isEmpty Lines.isEmpty
  cases ho : s.offs[n]? with
  | none => rfl
  | some o =>
    rw [ho] at h'
    obtain ⟨_, _, _, _, hq⟩ := Lines.slice_eq_ok_iff.mp h'
    have := Lines.utf8Size_pos' c
    simp only [Lines.byteLen_cons] at hq
    simp; omega

theorem skip_nonempty {ordered : Bool} {cur : List Char} {p : Nat}
    (h : (if ordered = true then skipOrdered cur else skipBullet cur) = some p) : ∃ c r, cur = c :: r := by
  cases cur with
  | nil => exfalso; split at h <;> simp [skipOrdered, skipBullet] at h
  | cons c r => exact ⟨c, r, rfl⟩

theorem listContinue_nonempty {test : Test} {ordered : Bool} {mc : Char} {S S' : BState} {n p : Nat}
    (h : listContinue test ordered mc S n = .ok (some p, S')) : S'.isEmpty S.line = false := by
  unfold listContinue at h
  crack h
  have hl := ‹BState.getLine _ _ = Except.ok _›
  have hm := ‹(if ordered = true then _ else _) = some _›
  obtain ⟨c, r, hc⟩ := skip_nonempty hm
  subst hc
  exact getLine_nonempty hl

theorem listItemBody_kind {tok : Tok} (hk : TokSpec tok) {S2 S3 : BState} {m : Nat} {re : Bool}
    (h : listItemBody tok S2 m re = .ok S3) : S3.nodeKind = S2.nodeKind := by
  unfold listItemBody at h
  crack h
  all_goals (try subst_vars)
  · rfl
  · have := (hk.frame _ _ ‹tok _ = _›).nodeKind
    simpa using this
/-! ## `itemRewrite` -/

/-- `&state.line_offsets[n]`, remembering where the entries sit -/
theorem SRel.off_at {s₁ s₂ : BState} (S : SRel τ ρ G s₁ s₂) (n : Nat) :
    FRel (fun o₁ o₂ => ERel ρ G.src₁ G.src₂ o₁ o₂ ∧ s₁.offs[n]? = some o₁ ∧ s₂.offs[n]? = some o₂)
      (s₁.off n) (s₂.off n) := by
  unfold BState.off
  rcases S.get n with ⟨h1, h2⟩ | ⟨o₁, o₂, h1, h2, he⟩
  · rw [h1, h2]; exact frel_err _
  · rw [h1, h2]; exact frel_ok ⟨he, rfl, rfl⟩

/-! ## one list item -/

theorem listItemBody_sim {tok₁ tok₂ : Tok} (TK : TokSim τ ρ G tok₁ tok₂) {s₁ s₂ : BState} (S : SRel τ ρ G s₁ s₂)
    (nextLine : Nat) (reachedEnd : Bool) :
    FRel (SRel τ ρ G) (listItemBody tok₁ s₁ nextLine reachedEnd) (listItemBody tok₂ s₂ nextLine reachedEnd) := by
  unfold listItemBody
  rw [S.isEmpty, S.line, S.lineMax, S.level]
  split
  · refine frel_pure ?_
    srely_fields S
    exact S.children
  · refine frel_bind (TK _ _ ?_) ?_
    · srely_fields S
      exact S.children
    intro a b hab
    rw [hab.level]
    refine frel_bind_same _ ?_
    intro lvl _
    refine frel_pure ?_
    srely_fields hab
    exact hab.children

theorem prevEmptyEndOf_eq {s₁ s₂ : BState} (S : SRel τ ρ G s₁ s₂) (n : Nat) :
    prevEmptyEndOf s₂ n = prevEmptyEndOf s₁ n := by
  unfold prevEmptyEndOf
  rw [S.line]
  simp only [S.isEmpty]

theorem listItem_sim (C : Ctx τ ρ G) {tok₁ tok₂ : Tok} (TK : TokSim τ ρ G tok₁ tok₂) (hk : TokSpec tok₁) {s₁ s₂ : BState}
    (S : SRel τ ρ G s₁ s₂) (nextLine pos : Nat) (pe tight : Bool) (hne : s₁.isEmpty nextLine = false) :
    FRel (fun r₁ r₂ => r₁.2 = r₂.2 ∧ SRel τ ρ G r₁.1 r₂.1)
      (listItem tok₁ s₁ nextLine pos pe tight) (listItem tok₂ s₂ nextLine pos pe tight) := by
  unfold listItem
  refine frel_bind (S.off_at nextLine) ?_
  rintro o₁ o₂ ⟨he, ho1, ho2⟩
  have hir : FRel (fun r₁ r₂ => ERel ρ G.src₁ G.src₂ r₁.1 r₂.1 ∧ r₁.2 = r₂.2 ∧ geom r₁.1 = geom o₁ ∧
      geom r₂.1 = geom o₂) (itemRewrite s₁.src o₁ pos) (itemRewrite s₂.src o₂ pos) := by
    rw [S.src₁, S.src₂]; exact itemRewrite_sim he pos
  refine frel_bind hir ?_
  rintro ⟨o₁', ind₁, re₁⟩ ⟨o₂', ind₂, re₂⟩ ⟨he', h2, hg1, hg2⟩
  simp only [Prod.mk.injEq] at h2
  obtain ⟨rfl, rfl⟩ := h2
  dsimp only
  have SA : SRel τ ρ G
      { s₁ with nodeKind := .listItem, children := [], listIndent := some s₁.blkIndent, blkIndent := ind₁,
                tight := true }
      { s₂ with nodeKind := .listItem, children := [], listIndent := some s₂.blkIndent, blkIndent := ind₁,
                tight := true } := by
    srely_fields S
    exact NRelL.nil
  refine frel_bind' (SA.setOff nextLine he' ?_ ?_) ?_
  · intro o ho
    have : o = o₁ := Option.some.inj (ho.symm.trans ho1)
    rw [this]; exact hg1
  · intro o ho
    have : o = o₂ := Option.some.inj (ho.symm.trans ho2)
    rw [this]; exact hg2
  intro b₁ b₂ hsetB _ SB
  refine frel_bind' (listItemBody_sim TK SB nextLine re₁) ?_
  intro c₁ c₂ hbody _ SC
  have hkind : c₁.nodeKind = .listItem := by
    rw [listItemBody_kind hk hbody, (setOff_ok hsetB).2]
  rw [prevEmptyEndOf_eq SC, SC.listIndent]
  refine frel_bind_same _ ?_
  intro pe' _
  cases hli : c₁.listIndent with
  | none => exact frel_err _
  | some li =>
    dsimp only
    have SD : SRel τ ρ G { c₁ with blkIndent := li, listIndent := s₁.listIndent }
        { c₂ with blkIndent := li, listIndent := s₂.listIndent } := by
      srely_fields SC
      · exact S.listIndent
      · exact SC.children
    refine frel_bind' (SD.setOff nextLine he ?_ ?_) ?_
    · intro o ho
      exact c10l_geom_eq_of_map S.geo₁ SC.geo₁ ho1 ho
    · intro o ho
      exact c10l_geom_eq_of_map S.geo₂ SC.geo₂ ho2 ho
    intro e₁ e₂ hsetE _ SE
    obtain ⟨hlen, he₁⟩ := setOff_ok hsetE
    -- the item's first line is again the entry the item started with
    have hent : e₁.offs[nextLine]? = some o₁ := by
      rw [he₁]; simp only [List.getElem?_set]; simp [hlen]
    have hne₁ : e₁.isEmpty nextLine = false := by
      have := nonempty_of hne ho1
      unfold BState.isEmpty Lines.isEmpty
      rw [hent]; simp; omega
    have hkind₁ : e₁.nodeKind = .listItem := by rw [he₁]; exact hkind
    rw [SE.line]
    refine frel_bind_same _ ?_
    intro e _
    refine frel_bind (SE.getMap C nextLine e hne₁) ?_
    intro r₁ r₂ hr
    refine frel_pure ⟨by rw [SC.tight], ?_⟩
    srely_fields SE
    · exact S.tight
    · exact S.nodeKind
    · exact S.children.push (NRel.mk (KRelS.of_ne (by rw [hkind₁]; intro c m h; cases h)) hr SE.children)

/-! ## is the list continued? -/

theorem listContinue_sim {test₁ test₂ : Test} (TS : TestSim τ ρ G test₁ test₂) (ordered : Bool) (mc : Char)
    {s₁ s₂ : BState} (S : SRel τ ρ G s₁ s₂) (nextLine : Nat) :
    FRel (fun r₁ r₂ => r₁.1 = r₂.1 ∧ SRel τ ρ G r₁.2 r₂.2)
      (listContinue test₁ ordered mc s₁ nextLine) (listContinue test₂ ordered mc s₂ nextLine) := by
  unfold listContinue
  rw [S.lineMax, S.lineIndent, S.line]
  split
  · exact frel_pure ⟨rfl, S⟩
  refine frel_bind_same _ ?_
  intro ind _
  split
  · exact frel_pure ⟨rfl, S⟩
  split
  · exact frel_pure ⟨rfl, S⟩
  refine frel_bind (TS _ _ S) ?_
  rintro ⟨t₁, a₁⟩ ⟨t₂, a₂⟩ ⟨ht, SA⟩
  dsimp only at ht SA ⊢
  subst ht
  have SB : SRel τ ρ G { a₁ with line := s₁.line } { a₂ with line := s₁.line } := SA.withLine _
  split
  · exact frel_pure ⟨rfl, SB⟩
  refine frel_bind (frel_of_eq (SB.getLine _)) ?_
  rintro cur _ rfl
  split
  · exact frel_pure ⟨rfl, SB⟩
  refine frel_bind_same _ ?_
  intro mc' _
  split
  · exact frel_pure ⟨rfl, SB⟩
  · exact frel_pure ⟨rfl, SB⟩

/-! ## the item loop -/

theorem listLoop_sim (C : Ctx τ ρ G) {tok₁ tok₂ : Tok} (TK : TokSim τ ρ G tok₁ tok₂) (hk : TokSpec tok₁)
    {test₁ test₂ : Test} (TS : TestSim τ ρ G test₁ test₂) (ordered : Bool) (mc : Char) :
    ∀ (f₁ f₂ : Nat), f₁ ≤ f₂ → ∀ {s₁ s₂ : BState}, SRel τ ρ G s₁ s₂ → ∀ (nextLine pos : Nat) (pe tight : Bool),
      s₁.isEmpty nextLine = false →
      FRel (fun r₁ r₂ => r₁.1 = r₂.1 ∧ r₁.2.1 = r₂.2.1 ∧ SRel τ ρ G r₁.2.2 r₂.2.2)
        (listLoop tok₁ test₁ ordered mc f₁ s₁ nextLine pos pe tight)
        (listLoop tok₂ test₂ ordered mc f₂ s₂ nextLine pos pe tight) := by
  intro f₁
  induction f₁ with
  | zero =>
    intro f₂ _ s₁ s₂ _ nextLine pos pe tight _
    rw [listLoop]; exact frel_fuel _
  | succ f ih =>
    intro f₂ hf s₁ s₂ S nextLine pos pe tight hne
    obtain ⟨f₂', rfl⟩ : ∃ k, f₂ = k + 1 := ⟨f₂ - 1, by omega⟩
    rw [listLoop, listLoop, S.lineMax]
    split
    · exact frel_ok ⟨rfl, rfl, S⟩
    refine frel_bind (listItem_sim C TK hk S nextLine pos pe tight hne) ?_
    rintro ⟨a₁, t₁, p₁⟩ ⟨a₂, t₂, p₂⟩ ⟨h, SA⟩
    simp only [Prod.mk.injEq] at h
    obtain ⟨rfl, rfl⟩ := h
    dsimp only at SA ⊢
    rw [SA.line]
    refine frel_bind' (listContinue_sim TS ordered mc SA _) ?_
    rintro ⟨c₁, b₁⟩ ⟨c₂, b₂⟩ hcont _ ⟨h, SB⟩
    dsimp only at h SB ⊢
    subst h
    cases c₁ with
    | none => exact frel_ok ⟨rfl, rfl, SB⟩
    | some p => exact ih f₂' (by omega) SB _ _ _ _ (listContinue_nonempty hcont)

/-! ## tight lists -/

theorem markTight_rel : ∀ {l₁ l₂ : List BNode}, NRelL τ ρ l₁ l₂ → NRelL τ ρ (markTight l₁) (markTight l₂)
  | [], [], _ => by simp only [markTight]; exact NRelL.nil
  | [], _ :: _, h => by simp only [NRelL] at h
  | _ :: _, [], h => by simp only [NRelL] at h
  | a :: as, b :: bs, h => by
    obtain ⟨h1, h2⟩ := h.cons_inv
    have ih := markTight_rel h2
    have hk := KRelS.eq_iff h1.kind .paragraph (by intro c m h; cases h)
    simp only [markTight]
    by_cases hp : a.kind = .paragraph
    · rw [if_pos hp, if_pos (hk.mp hp)]; exact h1.children.append ih
    · rw [if_neg hp, if_neg (mt hk.mpr hp)]; exact NRelL.cons h1 ih

theorem tightenItems_sim : ∀ {l₁ l₂ : List BNode}, NRelL τ ρ l₁ l₂ →
    FRel (NRelL τ ρ) (tightenItems l₁) (tightenItems l₂)
  | [], [], _ => by simp only [tightenItems]; exact frel_ok NRelL.nil
  | [], _ :: _, h => by simp only [NRelL] at h
  | _ :: _, [], h => by simp only [NRelL] at h
  | a :: as, b :: bs, h => by
    obtain ⟨h1, h2⟩ := h.cons_inv
    have ih := tightenItems_sim h2
    have hk := KRelS.eq_iff h1.kind .listItem (by intro c m h; cases h)
    simp only [tightenItems]
    by_cases hp : a.kind = .listItem
    · rw [if_neg (fun h => h hp), if_neg (fun h => h (hk.mp hp))]
      rcases ih with hx | ⟨x, y, hx, hy, hxy⟩ | ⟨e, hx, hy⟩
      · rw [hx]; exact frel_fuel _
      · rw [hx, hy]; exact frel_ok (NRelL.cons (NRel.mk h1.kind h1.range (markTight_rel h1.children)) hxy)
      · rw [hx, hy]; exact frel_err _
    · rw [if_pos hp, if_pos (mt hk.mpr hp)]; exact frel_err _


/-! ## the rule -/

theorem listSpecial_eq {s₁ s₂ : BState} (S : SRel τ ρ G s₁ s₂) : listSpecial s₂ = listSpecial s₁ := by
  unfold listSpecial
  rw [S.listIndent, S.line, S.blkIndent]
  cases s₁.listIndent with
  | none => rfl
  | some li =>
    dsimp only
    unfold BState.off
    rcases S.get s₁.line with ⟨h1, h2⟩ | ⟨o₁, o₂, h1, h2, he⟩
    · rw [h1, h2]
    · rw [h1, h2]
      simp only [bind, Except.bind, he.indent]

theorem list_sim (C : Ctx τ ρ G) {tok₁ tok₂ : Tok} (TK : TokSim τ ρ G tok₁ tok₂) (hk : TokSpec tok₁)
    {test₁ test₂ : Test} (TS : TestSim τ ρ G test₁ test₂) (hp : TestPure test₁) {f₁ f₂ : Nat} (hf : f₁ ≤ f₂)
    {s₁ s₂ : BState} (S : SRel τ ρ G s₁ s₂) (silent : Bool) (hne : silent = false → Live s₁) :
    FRel (ResRel τ ρ G) (listRule tok₁ test₁ f₁ s₁ silent) (listRule tok₂ test₂ f₂ s₂ silent) := by
  unfold listRule
  rw [listSpecial_eq S, S.nodeKind, S.line, S.lineIndent, S.getLine, S.level]
  split
  · exact frel_pure ⟨rfl, S⟩
  refine frel_bind_same _ ?_
  intro ind _
  split
  · exact frel_pure ⟨rfl, S⟩
  refine frel_bind_same _ ?_
  intro special _
  split
  · exact frel_pure ⟨rfl, S⟩
  refine frel_bind_same _ ?_
  intro cur _
  refine frel_bind_same _ ?_
  intro detected _
  rcases detected with _ | ⟨pos, mv⟩
  · exact frel_pure ⟨rfl, S⟩
  rcases mv with _ | v
  all_goals
    dsimp only
    split
    · exact frel_pure ⟨rfl, S⟩
    refine frel_bind_same _ ?_
    intro emptyItem _
    split
    · exact frel_pure ⟨rfl, S⟩
    split
    · exact frel_pure ⟨rfl, S⟩
    refine frel_bind_same _ ?_
    intro mc _
    have hlive := hne (silent_false ‹¬ silent = true›)
    refine frel_bind' (listLoop_sim C TK hk TS _ mc f₁ f₂ hf (s₁ := _) (s₂ := _) ?_ _ _ _ _ hlive.2) ?_
    · srely_fields S
      exact NRelL.nil
    rintro ⟨n₁, t₁, a₁⟩ ⟨n₂, t₂, a₂⟩ hloop _ ⟨h1, h2, SA⟩
    dsimp only at h1 h2 SA ⊢
    subst h1 h2
    have hfr := (listLoop_spec hk hp _ _ _ _ _ _ _ _ _ hloop rfl hlive.1).1
    have hkind := hfr.nodeKind
    have hoffs := hfr.offs
    dsimp only at hkind hoffs
    have hne₁ : a₁.isEmpty s₁.line = false := by
      unfold BState.isEmpty; rw [hoffs]; exact hlive.2
    have hch : FRel (NRelL τ ρ) (if t₁ = true then tightenItems a₁.children else pure a₁.children)
        (if t₁ = true then tightenItems a₂.children else pure a₂.children) := by
      split
      · exact tightenItems_sim SA.children
      · exact frel_pure SA.children
    refine frel_bind hch ?_
    intro ch₁ ch₂ hc
    rw [SA.level]
    refine frel_bind_same _ ?_
    intro lvl _
    refine frel_bind_same _ ?_
    intro e _
    refine frel_bind (SA.getMap C _ e hne₁) ?_
    intro r₁ r₂ hr
    refine frel_pure ⟨rfl, ?_⟩
    srely_fields SA
    · exact S.children.push (NRel.mk (KRelS.of_ne (by rw [hkind]; intro c m h; cases h)) hr hc)

end MdIt.Block.LX.Y
