/-
  Helper development for `Props/Inline.lean`: the text normal form through the tokenizer when no
  emphasis-like rule is in the chain (partial correctness, any fuel).
-/
import MdIt.Lemmas.InlineText

namespace MdIt.Inline
open MdIt.InlineOps (Srcmap getSourcePosFor getMap byteLen slice INode)

/-- no empty `Text`, no two adjacent `Text`s in a sibling list (`C14.TextOK` of the projection) -/
def TOK (l : List Node) : Prop := C14.TextOK (eraseList l)

mutual
/-- the same at every depth below a node -/
def DeepTOK : Node → Prop
  | ⟨_, _, cs⟩ => TOK cs ∧ DeepTOKList cs
def DeepTOKList : List Node → Prop
  | [] => True
  | c :: cs => DeepTOK c ∧ DeepTOKList cs
end

theorem DeepTOK_eq (n : Node) : DeepTOK n ↔ TOK n.children ∧ DeepTOKList n.children := by
  cases n; simp [DeepTOK]

theorem deepTOKList_iff (l : List Node) : DeepTOKList l ↔ ∀ n ∈ l, DeepTOK n := by
  induction l with
  | nil => simp [DeepTOKList]
  | cons c cs ih => simp [DeepTOKList, ih]

theorem tok_nil : TOK [] := ⟨by intro n hn; simp [eraseList] at hn, by simp [eraseList, C14.NoAdjText]⟩

theorem tok_snoc_nontext {l : List Node} {n : Node} (h : TOK l) (hn : n.isText = false) :
    TOK (l ++ [n]) := by
  unfold TOK at *
  rw [eraseList_append]
  simp only [eraseList]
  refine ⟨(C14.noEmpty_snoc _ _).mpr ⟨h.noEmpty, ?_⟩, (C14.noAdj_snoc _ _).mpr ⟨h.noAdj, ?_⟩⟩
  · intro ht; rw [erase_isText, hn] at ht; cases ht
  · intro y _ ⟨_, ht⟩; rw [erase_isText, hn] at ht; cases ht

theorem tok_single_text {c : List Char} {r : Option (Nat × Nat)} (hc : c ≠ []) :
    TOK [Node.newText c r] := by
  unfold TOK
  simp only [eraseList, erase_newText]
  refine ⟨?_, by simp [C14.NoAdjText]⟩
  intro n hn _
  simp only [List.mem_singleton] at hn; subst hn
  exact hc

theorem tok_init {init : List Node} {x : Node} (h : TOK (init ++ [x])) : TOK init := by
  unfold TOK at *
  rw [eraseList_append] at h
  simp only [eraseList] at h
  exact ⟨((C14.noEmpty_snoc _ _).mp h.noEmpty).1, ((C14.noAdj_snoc _ _).mp h.noAdj).1⟩

/-- the invariant on a state -/
def TInv (st : IState) : Prop := TOK st.children ∧ DeepTOKList st.children

theorem deepTOK_leaf (v : Val) (r : Option (Nat × Nat)) : DeepTOK (Node.leaf v r) := by
  rw [DeepTOK_eq]; exact ⟨tok_nil, trivial⟩

theorem deepTOK_newText (c : List Char) (r : Option (Nat × Nat)) : DeepTOK (Node.newText c r) := by
  rw [DeepTOK_eq]; exact ⟨tok_nil, trivial⟩

theorem DeepTOKList.append {a b : List Node} (ha : DeepTOKList a) (hb : DeepTOKList b) :
    DeepTOKList (a ++ b) := by
  rw [deepTOKList_iff] at *
  intro n hn
  rcases List.mem_append.mp hn with h | h
  · exact ha n h
  · exact hb n h

theorem DeepTOKList.left {a b : List Node} (h : DeepTOKList (a ++ b)) : DeepTOKList a := by
  rw [deepTOKList_iff] at *
  exact fun n hn => h n (List.mem_append_left _ hn)

theorem DeepTOKList.right {a b : List Node} (h : DeepTOKList (a ++ b)) : DeepTOKList b := by
  rw [deepTOKList_iff] at *
  exact fun n hn => h n (List.mem_append_right _ hn)

theorem DeepTOKList.single {n : Node} (h : DeepTOK n) : DeepTOKList [n] := ⟨h, trivial⟩

/-! ## trailing text -/

theorem trailingTextPush_deep {src : List Char} {m : Srcmap} {cs out : List Node} {a b : Nat}
    (h : trailingTextPush src m cs a b = .ok out) (hc : DeepTOKList cs) : DeepTOKList out := by
  have hfresh : ∀ out, (match liftOps (slice src a b) with
      | .error e => (.error e : Except RPanic (List Node))
      | .ok piece =>
        match liftOps (getMap m a b) with
        | .error e => .error e
        | .ok r => .ok (cs ++ [Node.newText piece (some r)])) = .ok out → DeepTOKList out := by
    intro out h
    split at h
    · simp at h
    · split at h
      · simp at h
      · simp only [Except.ok.injEq] at h; subst h
        exact hc.append (DeepTOKList.single (deepTOK_newText _ _))
  unfold trailingTextPush at h
  simp only at h
  rcases popLast_spec cs with ⟨hp, _⟩ | ⟨init, last, hp, hcs⟩
  · rw [hp] at h; exact hfresh out h
  · rw [hp] at h
    simp only at h
    subst hcs
    have hlast : DeepTOK last := hc.right.1
    split at h
    · split at h
      · simp at h
      · split at h
        · simp only [Except.ok.injEq] at h; subst h
          refine hc.left.append (DeepTOKList.single ?_)
          rw [DeepTOK_eq] at hlast ⊢; exact hlast
        · split at h
          · simp at h
          · simp only [Except.ok.injEq] at h; subst h
            refine hc.left.append (DeepTOKList.single ?_)
            rw [DeepTOK_eq] at hlast ⊢; exact hlast
    · exact hfresh out h

theorem trailingTextPop_deep {cs out : List Node} {count : Nat}
    (h : trailingTextPop cs count = .ok out) (hc : DeepTOKList cs) : DeepTOKList out := by
  unfold trailingTextPop at h
  split at h
  · simp only [Except.ok.injEq] at h; subst h; exact hc
  · rcases popLast_spec cs with ⟨hp, _⟩ | ⟨init, last, hp, hcs⟩
    · rw [hp] at h; simp at h
    · rw [hp] at h
      simp only at h
      subst hcs
      have hlast : DeepTOK last := hc.right.1
      split at h
      · simp at h
      · split at h
        · simp only [Except.ok.injEq] at h; subst h; exact hc.left
        · split at h
          · simp at h
          · split at h
            · simp at h
            · split at h
              · simp only [Except.ok.injEq] at h; subst h
                refine hc.left.append (DeepTOKList.single ?_)
                rw [DeepTOK_eq] at hlast ⊢; exact hlast
              · split at h
                · simp at h
                · simp only [Except.ok.injEq] at h; subst h
                  refine hc.left.append (DeepTOKList.single ?_)
                  rw [DeepTOK_eq] at hlast ⊢; exact hlast

theorem pushText_tinv {st st' : IState} {a b : Nat} (hlt : a < b) (h : st.pushText a b = .ok st')
    (hc : TInv st) : TInv st' := by
  obtain ⟨cs, hcs, rfl⟩ := pushText_eq h
  exact ⟨C14.push_no_adjacent _ _ _ _ _ hc.1 hlt _ (erase_trailingTextPush hcs),
    trailingTextPush_deep hcs hc.2⟩

theorem TInv.push {st : IState} (h : TInv st) {n : Node} (hn : n.isText = false) (hd : DeepTOK n) :
    TInv (st.push n) :=
  ⟨tok_snoc_nontext h.1 hn, h.2.append (DeepTOKList.single hd)⟩

/-! ## the rules -/

theorem ruleText_tinv {st st' : IState} {silent : Bool} {o : Option Nat}
    (h : ruleText st silent = .ok (o, st')) (hc : TInv st) : TInv st' := by
  unfold ruleText at h
  split at h
  · simp at h
  · simp only at h
    split at h
    · simp only [Except.ok.injEq, Prod.mk.injEq] at h; rw [← h.2]; exact hc
    · next hlen =>
      split at h
      · simp only [Except.ok.injEq, Prod.mk.injEq] at h; rw [← h.2]; exact hc
      · split at h
        · simp at h
        · next st2 hp =>
          simp only [Except.ok.injEq, Prod.mk.injEq] at h; rw [← h.2]
          exact pushText_tinv (by omega) hp hc

theorem ruleNewline_tinv {st st' : IState} {silent : Bool} {o : Option Nat}
    (h : ruleNewline st silent = .ok (o, st')) (hc : TInv st) : TInv st' := by
  unfold ruleNewline at h
  split at h
  · simp at h
  · simp at h
  · split at h
    · simp only [Except.ok.injEq, Prod.mk.injEq] at h; rw [← h.2]; exact hc
    · simp only at h
      split at h
      · simp only [Except.ok.injEq, Prod.mk.injEq] at h; rw [← h.2]; exact hc
      · split at h
        · simp at h
        · next cs hpop =>
          split at h
          · simp at h
          · split at h
            · simp at h
            · simp only [Except.ok.injEq, Prod.mk.injEq] at h; rw [← h.2]
              have h1 : TOK cs := C14.pop_no_adjacent _ _ hc.1 _ (erase_trailingTextPop hpop)
              have h2 := trailingTextPop_deep hpop hc.2
              refine ⟨tok_snoc_nontext h1 ?_, h2.append (DeepTOKList.single (deepTOK_leaf _ _))⟩
              split <;> rfl

theorem ruleEscape_tinv {st st' : IState} {silent : Bool} {o : Option Nat}
    (h : ruleEscape st silent = .ok (o, st')) (hc : TInv st) : TInv st' := by
  unfold ruleEscape at h
  split at h
  · simp at h
  · split at h
    · simp at h
    · simp only [Except.ok.injEq, Prod.mk.injEq] at h; rw [← h.2]; exact hc
    · split at h
      · simp only [Except.ok.injEq, Prod.mk.injEq] at h; rw [← h.2]; exact hc
      · split at h
        · simp at h
        · simp only [Except.ok.injEq, Prod.mk.injEq] at h; rw [← h.2]
          exact hc.push rfl (deepTOK_leaf _ _)
    · simp only at h
      split at h
      · simp only [Except.ok.injEq, Prod.mk.injEq] at h; rw [← h.2]; exact hc
      · split at h
        · simp at h
        · simp only [Except.ok.injEq, Prod.mk.injEq] at h; rw [← h.2]
          exact hc.push rfl (deepTOK_leaf _ _)

theorem ruleEntity_tinv {cfg : Cfg} {st st' : IState} {silent : Bool} {o : Option Nat}
    (h : ruleEntity cfg st silent = .ok (o, st')) (hc : TInv st) : TInv st' := by
  unfold ruleEntity at h
  split at h
  · simp at h
  · split at h
    · simp at h
    · split at h
      · simp only [Except.ok.injEq, Prod.mk.injEq] at h; rw [← h.2]; exact hc
      · split at h
        · simp at h
        · split at h
          · simp at h
          · simp only [Except.ok.injEq, Prod.mk.injEq] at h; rw [← h.2]; exact hc
          · simp only at h
            split at h
            · simp only [Except.ok.injEq, Prod.mk.injEq] at h; rw [← h.2]; exact hc
            · split at h
              · simp at h
              · simp only [Except.ok.injEq, Prod.mk.injEq] at h; rw [← h.2]
                exact hc.push rfl (deepTOK_leaf _ _)

/-- a node with one non-empty text child -/
theorem deepTOK_oneText {v : Val} {r ri : Option (Nat × Nat)} {c : List Char} (hc : c ≠ []) :
    DeepTOK { val := v, range := r, children := [Node.newText c ri] } := by
  rw [DeepTOK_eq]
  exact ⟨tok_single_text hc, DeepTOKList.single (deepTOK_newText _ _)⟩

theorem ruleBackticks_tinv {st st' : IState} {silent : Bool} {o : Option Nat}
    (h : ruleBackticks st silent = .ok (o, st')) (hc : TInv st) : TInv st' := by
  unfold ruleBackticks at h
  split at h
  · simp at h
  · simp only [Except.ok.injEq, Prod.mk.injEq] at h; rw [← h.2]; exact hc
  · next oc c hrun =>
    split at h
    · simp only [Except.ok.injEq, Prod.mk.injEq] at h; rw [← h.2]; exact hc
    · next nd hnd =>
      split at h
      · simp at h
      · split at h
        · simp at h
        · simp only [Except.ok.injEq, Prod.mk.injEq] at h; rw [← h.2]
          have hne := run_content_ne _ _ backtick_size _ _ _ _ _ _ _ _ nd hrun hnd
          exact ⟨tok_snoc_nontext hc.1 rfl, hc.2.append (DeepTOKList.single (deepTOK_oneText hne))⟩

theorem ruleAutolink_tinv {st st' : IState} {silent : Bool} {o : Option Nat}
    (h : ruleAutolink st silent = .ok (o, st')) (hc : TInv st) : TInv st' := by
  unfold ruleAutolink at h
  split at h
  · simp at h
  · simp at h
  · split at h
    · simp only [Except.ok.injEq, Prod.mk.injEq] at h; rw [← h.2]; exact hc
    · split at h
      · simp only [Except.ok.injEq, Prod.mk.injEq] at h; rw [← h.2]; exact hc
      · split at h
        · simp at h
        · next url hurl =>
          simp only at h
          split at h
          · simp only [Except.ok.injEq, Prod.mk.injEq] at h; rw [← h.2]; exact hc
          · next hmatch =>
            have hne : url ≠ [] := by
              intro e; subst e
              exact hmatch (by decide)
            split at h
            · simp only [Except.ok.injEq, Prod.mk.injEq] at h; rw [← h.2]; exact hc
            · split at h
              · simp only [Except.ok.injEq, Prod.mk.injEq] at h; rw [← h.2]; exact hc
              · split at h
                · simp at h
                · split at h
                  · simp at h
                  · simp only [Except.ok.injEq, Prod.mk.injEq] at h; rw [← h.2]
                    exact hc.push rfl (deepTOK_oneText hne)

/-! ## the link rule, the loops -/

/-- `tok` keeps the text invariant -/
def TextFn (tok : IState → Except Panic IState) : Prop := ∀ s s', tok s = .ok s' → TInv s → TInv s'

theorem linkRule_tinv {cfg : Cfg} {skip tok : IState → Except Panic IState} (hq : CalmFn skip)
    (ht : TextFn tok) {fuel : Nat} {mk : List Nat → Option (List Char) → Val}
    (hmk : ∀ u t r cs, (Node.mk (mk u t) r cs).isText = false)
    {en : Bool} {offset : Nat} {st : IState} {silent : Bool} {o : Option Nat} {st' : IState}
    (h : linkRule cfg skip tok fuel mk en offset st silent = .ok (o, st')) (hc : TInv st) :
    TInv st' := by
  unfold linkRule at h
  simp only at h
  split at h
  · simp at h
  · next st1 hpl =>
    simp only [Except.ok.injEq, Prod.mk.injEq] at h; rw [← h.2]
    have q := parseLink_calm hq hpl
    unfold TInv; rw [q.children]; exact hc
  · next res st1 hpl =>
    have q := parseLink_calm hq hpl
    have hc1 : TInv st1 := by unfold TInv; rw [q.children]; exact hc
    split at h
    · split at h
      · simp at h
      · simp only [Except.ok.injEq, Prod.mk.injEq] at h; rw [← h.2]; exact hc1
    · split at h
      · simp at h
      · next st3 htok =>
        have hc3 : TInv st3 := ht _ _ htok ⟨tok_nil, trivial⟩
        split at h
        · simp at h
        · split at h
          · simp at h
          · split at h
            · simp at h
            · simp only [Except.ok.injEq, Prod.mk.injEq] at h; rw [← h.2]
              refine ⟨tok_snoc_nontext hc1.1 (hmk _ _ _ _), hc1.2.append (DeepTOKList.single ?_)⟩
              rw [DeepTOK_eq]; exact hc3

theorem runRule_tinv {cfg : Cfg} (hne : ∀ id ∈ cfg.chain, id.isEmph = false)
    {skip tok : IState → Except Panic IState} (hq : CalmFn skip) (ht : TextFn tok) {fuel : Nat}
    {id : RuleId} (hid : id ∈ cfg.chain) {st : IState} {silent : Bool} {o : Option Nat} {st' : IState}
    (h : runRule cfg skip tok fuel id st silent = .ok (o, st')) (hc : TInv st) : TInv st' := by
  unfold runRule at h
  cases id with
  | text => exact ruleText_tinv (liftR_ok.mp h) hc
  | newline => exact ruleNewline_tinv (liftR_ok.mp h) hc
  | escape => exact ruleEscape_tinv (liftR_ok.mp h) hc
  | backticks => exact ruleBackticks_tinv (liftR_ok.mp h) hc
  | emph mk csw => have := hne _ hid; simp [RuleId.isEmph] at this
  | link =>
    simp only at h
    unfold ruleLink at h
    split at h
    · simp at h
    · simp at h
    · split at h
      · simp only [Except.ok.injEq, Prod.mk.injEq] at h; rw [← h.2]; exact hc
      · exact linkRule_tinv hq ht (by intro u t r cs; rfl) h hc
  | image =>
    simp only at h
    unfold ruleImage at h
    split at h
    · simp at h
    · exact linkRule_tinv hq ht (by intro u t r cs; rfl) h hc
    · simp only [Except.ok.injEq, Prod.mk.injEq] at h; rw [← h.2]; exact hc
  | linkEnd => simp only [Except.ok.injEq, Prod.mk.injEq] at h; rw [← h.2]; exact hc
  | autolink => exact ruleAutolink_tinv (liftR_ok.mp h) hc
  | entity => exact ruleEntity_tinv (liftR_ok.mp h) hc

theorem firstRule_tinv {run : RuleId → IState → RuleRes} (rules : List RuleId)
    (hrun : ∀ id ∈ rules, ∀ s o s', run id s = .ok (o, s') → TInv s → TInv s') :
    ∀ (st : IState) (o : Option Nat) (st' : IState), firstRule run rules st = .ok (o, st') →
      TInv st → TInv st' := by
  induction rules with
  | nil =>
    intro st o st' h hc
    simp only [firstRule, Except.ok.injEq, Prod.mk.injEq] at h; rw [← h.2]; exact hc
  | cons r rs ih =>
    intro st o st' h hc
    unfold firstRule at h
    split at h
    · simp at h
    · next n st1 hr =>
      simp only [Except.ok.injEq, Prod.mk.injEq] at h; rw [← h.2]
      exact hrun r (by simp) _ _ _ hr hc
    · next st1 hr =>
      exact ih (fun id hid => hrun id (List.mem_cons_of_mem _ hid)) _ _ _ h
        (hrun r (by simp) _ _ _ hr hc)

theorem tokStep_tinv {cfg : Cfg} (hne : ∀ id ∈ cfg.chain, id.isEmph = false)
    {skip tok : IState → Except Panic IState} (hq : CalmFn skip) (ht : TextFn tok) {fuel : Nat}
    {st st' : IState} (h : tokStep cfg skip tok fuel st = .ok st') (hc : TInv st) : TInv st' := by
  have hok : ∀ o st1, (if st.level < cfg.maxNesting then
        firstRule (fun id s => runRule cfg skip tok fuel id s false) cfg.chain st
      else .ok (none, st)) = .ok (o, st1) → TInv st1 := by
    intro o st1 hh
    split at hh
    · exact firstRule_tinv cfg.chain (fun id hid s o s' hr hcs => runRule_tinv hne hq ht hid hr hcs)
        _ _ _ hh hc
    · simp only [Except.ok.injEq, Prod.mk.injEq] at hh; rw [← hh.2]; exact hc
  unfold tokStep at h
  simp only at h
  split at h
  · simp at h
  · next len st1 hr =>
    simp only [Except.ok.injEq] at h; rw [← h]
    exact (hok _ _ hr : TInv st1)
  · next st1 hr =>
    have hc1 := hok _ _ hr
    split at h
    · simp at h
    · next ch hch =>
      split at h
      · simp at h
      · next st2 hp =>
        simp only [Except.ok.injEq] at h; rw [← h]
        have := Char.utf8Size_pos ch
        exact (pushText_tinv (by omega) (liftR_ok.mp hp) hc1 : TInv st2)

/-- **the text invariant through the whole tokenizer** when the chain has no emphasis-like rule -/
theorem text_induction (cfg : Cfg) (hne : ∀ id ∈ cfg.chain, id.isEmph = false) : ∀ fuel : Nat,
    ∀ (e : Nat) (st st' : IState), tokLoop cfg fuel e st = .ok st' → TInv st → TInv st' := by
  intro fuel
  induction fuel with
  | zero =>
    intro e st st' h hc
    unfold tokLoop at h
    split at h
    · simp at h
    · simp only [Except.ok.injEq] at h; rw [← h]; exact hc
  | succ f ih =>
    intro e st st' h hc
    unfold tokLoop at h
    split at h
    · simp only at h
      split at h
      · simp at h
      · next st1 hstep =>
        have ht : TextFn (fun s => tokLoop cfg f s.posMax s) := fun s s' hh hcs => ih _ _ _ hh hcs
        exact ih _ _ _ h (tokStep_tinv hne (skipToken_calm cfg f) ht hstep hc)
    · simp only [Except.ok.injEq] at h; rw [← h]; exact hc

end MdIt.Inline
