/-
  C05 for ALL sources (split tabs included), inline half, part 2 — the two rules that need the
  translation to be a SHIFT on a stretch of the inline text: the emphasis-marker rule and the
  newline rule, for per-line tables that are only `MapT`.
-/
import MdIt.Lemmas.C05TabsRanges

namespace MdIt.C05T
open MdIt.Inline
open MdIt.InlineOps (Srcmap getSourcePosFor getMap byteLen slice)
open MdIt.C05R (Cut)

/-! ## emphasis -/

theorem tv_slice_nil {a b : Nat} {w : List Char} (h : slice [] a b = .ok w) : w = [] := by
  obtain ⟨p, q, e, _, _⟩ := (C05.slice_ok_iff _ _ _ _).mp h
  have h1 := (List.append_eq_nil_iff.mp e.symm).1
  exact (List.append_eq_nil_iff.mp h1).2

/-- the emphasis-marker rule for a solid one-byte marker: the run `mk … mk` starts with `mk`, so
    the translation is a shift on it (`MapT.shift`) and the new marker leaf has room for its
    delimiters.  Behind the rule the last child is never a `Text` (`nolf` — obtained from
    `scanAndMatch_ranges` at the EMPTY inline text, where a trailing text would have to be empty). -/
theorem tv_ruleEmph {A : Prop} {cfg : Cfg} {mk : Char} {csw : Bool} {lo : Nat} {st st' : IState}
    {o : Option Nat} (hm : MapT st.src st.srcmap) (hmk : mk.utf8Size = 1) (hnl : mk ≠ '\n')
    (hsp : mk ≠ ' ') (hi : tv_RInv A lo st)
    (h : ruleEmph cfg mk csw st false = .ok (o, st')) : tv_StepRI A lo st o st' := by
  unfold ruleEmph at h
  simp only [Bool.false_eq_true, if_false] at h
  split at h
  · simp at h
  · simp at h
  · next c w hw =>
    split at h
    · simp only [Except.ok.injEq, Prod.mk.injEq] at h; obtain ⟨rfl, rfl⟩ := h; exact tv_same hi
    · next hcm =>
      have hcm' : c = mk := Decidable.not_not.mp hcm
      subst hcm'
      split at h
      · simp at h
      · next scanned hsc =>
        obtain ⟨mk', rest, hsl, _, hlen⟩ := scanDelims_length hsc
        unfold IState.window at hw
        rw [hw] at hsl
        simp only [Except.ok.injEq, List.cons.injEq] at hsl
        obtain ⟨rfl, rfl⟩ := hsl
        have hcut : Cut st.src st.pos st.posMax (c :: w) :=
          (C05R.cut_iff_ops _ _ _ _).mp (liftOps_ok.mp hw)
        have hrun := C05R.em_runLen_cut hmk hcut
        rw [← hlen] at hrun
        split at h
        · simp at h
        · next r hr =>
          obtain ⟨rx, ry⟩ := r
          obtain ⟨e1, e2, _⟩ := getMap_eq hr
          -- the translation is a shift on the run
          have hexp : ry = rx + scanned.length := by
            have hrep : List.replicate scanned.length c
                = c :: List.replicate (scanned.length - 1) c := by
              rw [← List.replicate_succ]; congr 1; omega
            rw [hrep] at hrun
            have := hm.shift st.pos (st.pos + scanned.length) c _ st.pos (st.pos + scanned.length)
              rx ry hrun hsp hnl (C05R.em_not_mem_replicate hnl _) (Nat.le_refl _) (by omega)
              (Nat.le_refl _) e1 e2
            omega
          obtain ⟨hT, hhT, hord⟩ := hi.ri.ord
          rw [e1] at hhT; simp only [Except.ok.injEq] at hhT; subst hhT
          -- the state with the marker pushed, at the position behind the run; no clause of it
          -- mentions the inline text (the last child is not a text)
          have hpushed : ∀ src', RI src' st.srcmap lo (st.pos + scanned.length)
              (st.children ++ [Node.leaf (.emphMarker c scanned.length scanned.length scanned.canOpen
                scanned.canClose) (some (rx, ry))]) := by
            intro src'
            refine ⟨⟨ry, e2, hord.snoc (n := Node.leaf _ (some (rx, ry))) rfl (Nat.le_refl _) (by omega)
                (Nat.le_refl _)⟩,
              hi.ri.deep.append (WellRangedList.single (wellRanged_leaf (by omega))),
              hi.ri.markers.append ?_, ?_⟩
            · intro n hn mk' hmk'
              simp only [List.mem_singleton] at hn; subst hn
              simp only [Node.leaf, Node.asMarker, Option.some.injEq] at hmk'
              subst hmk'
              exact ⟨rfl, by simp only; omega, rx, ry, rfl, by simp only; omega⟩
            · intro init' last' hcs' hlt'
              obtain ⟨_, rfl⟩ := snoc_inj hcs'
              cases hlt'
          split at h
          · split at h
            · simp at h
            · next cs b hsm =>
              simp only [Except.ok.injEq, Prod.mk.injEq] at h; obtain ⟨rfl, rfl⟩ := h
              unfold tv_StepRI
              simp only [Option.getD_some, IState.push]
              have hlast : ∀ init last, st.children ++ [Node.leaf (.emphMarker c scanned.length
                  scanned.length scanned.canOpen scanned.canClose) (some (rx, ry))] = init ++ [last] →
                  last.asMarker ≠ none := by
                intro init last hl
                obtain ⟨_, rfl⟩ := snoc_inj hl
                simp [Node.leaf, Node.asMarker]
              refine ⟨scanAndMatch_ranges (hpushed _) hsm hlast, ?_⟩
              intro _ init last hcs hlt
              have hr0 := scanAndMatch_ranges (hpushed []) hsm hlast
              obtain ⟨_, start, xs, xe, hsl0, _⟩ := hr0.trail init last hcs hlt
              rw [tv_slice_nil hsl0]
              exact List.not_mem_nil
          · simp only [Except.ok.injEq, Prod.mk.injEq] at h; obtain ⟨rfl, rfl⟩ := h
            unfold tv_StepRI
            simp only [Option.getD_some, IState.push]
            exact ⟨hpushed _, tv_nolf_snoc rfl⟩

/-! ## the newline rule -/

/-- `tailSpaces` counts the MAXIMAL run of trailing blanks: the character in front of them is not
    a blank -/
theorem tv_tailSpaces_max {pre0 s : List Char} {ch0 : Char} {k : Nat}
    (h : s = pre0 ++ [ch0] ++ List.replicate k ' ') (hk : tailSpaces s = k) : ch0 ≠ ' ' := by
  intro hc; subst hc
  have hrev : s.reverse = List.replicate (k + 1) ' ' ++ pre0.reverse := by
    rw [h, List.reverse_append, List.reverse_append, List.reverse_replicate, List.replicate_succ']
    simp
  have htw : s.reverse.takeWhile (· == ' ')
      = List.replicate (k + 1) ' ' ++ pre0.reverse.takeWhile (· == ' ') := by
    rw [hrev, List.takeWhile_append_of_pos]
    intro a ha; rw [List.eq_of_mem_replicate ha]; rfl
  unfold tailSpaces at hk
  rw [htw] at hk
  simp at hk
  omega

/-- the tree part of the newline rule (`Inline.newline_core` for `MapT`): cut the blanks, push the
    break node.  The blanks stand behind a character of the trailing text that is neither a blank
    nor — in a frame where the newline rule is active — a line feed. -/
theorem tv_newline_core {A : Prop} {src : List Char} {m : Srcmap} {lo pos : Nat} {cs out : List Node}
    (hm : MapT src m) (hA : A) (hi : RIv A src m lo pos cs)
    (hpop : trailingTextPop cs (tailSpaces (trailingTextGet cs)) = .ok out)
    (hge : ¬ pos < tailSpaces (trailingTextGet cs)) {p' rx ry : Nat}
    (e1 : getSourcePosFor m (pos - tailSpaces (trailingTextGet cs)) = .ok rx)
    (e2 : getSourcePosFor m p' = .ok ry) (hle : pos ≤ p') {n : Node}
    (hn : n.range = some (rx, ry)) (ht1 : n.isText = false) (ht2 : n.asMarker = none)
    (hnc : n.children = []) : RI src m lo p' (out ++ [n]) := by
  obtain ⟨hi0, hhi0, hord⟩ := hi.ri.ord
  have hleaf : ∀ {a b : Nat}, a ≤ b → n.range = some (a, b) → WellRanged n := by
    intro a b hab hr
    rw [WellRanged_eq]; simp only [hnc]; exact ⟨⟨a, b, hr, hab, hab⟩, trivial⟩
  rcases pop_tail_cases hpop with ⟨h0, rfl⟩ | ⟨init, last, pre, hcs, hlt, htail, hget, hpre, hcase⟩
  · -- nothing to cut
    rw [h0] at e1
    simp only [Nat.sub_zero] at e1
    exact RI.push hi.ri e1 e2 hn (Nat.le_refl _) (tv_mono hm (by omega) e1 e2) (Nat.le_refl _)
      (hleaf (tv_mono hm (by omega) e1 e2) hn) ht1 ht2
  · -- blanks cut off the trailing text
    rw [hget] at e1 hge
    obtain ⟨hch, start, xs, xe, hsl, hxs, hxe, hrange⟩ := hi.ri.trail init last hcs hlt
    rw [hhi0] at hxe; simp only [Except.ok.injEq] at hxe; subst hxe
    obtain ⟨_, _, hse⟩ := slice_boundaries hsl
    have hbl : byteLen last.content = byteLen pre + tailSpaces last.content := by
      conv => lhs; rw [hpre]
      rw [C05.byteLen_append, byteLen_replicate_space]
    -- the blanks are `src[pos - tail .. pos]`, behind a solid character: a shift
    have hline : pre ≠ [] → hi0 = rx + tailSpaces last.content := by
      intro hpne
      obtain ⟨pre0, ch0, hpre0⟩ : ∃ pre0 ch0, pre = pre0 ++ [ch0] := by
        rcases List.eq_nil_or_concat pre with h | ⟨a, b, h⟩
        · exact absurd h hpne
        · exact ⟨a, b, by rw [h, List.concat_eq_append]⟩
      have hcont : last.content
          = pre0 ++ [ch0] ++ List.replicate (tailSpaces last.content) ' ' := by
        rw [← hpre0]; exact hpre
      have hnsp : ch0 ≠ ' ' := tv_tailSpaces_max hcont rfl
      have hnlf : ch0 ≠ '\n' := by
        intro hc
        apply hi.nolf hA init last hcs hlt
        rw [hcont, hc]; simp
      have hbp : byteLen pre = byteLen pre0 + ch0.utf8Size := by
        rw [hpre0, C05.byteLen_append]; simp [byteLen]
      obtain ⟨p, q, e, l1, l2⟩ := (C05.slice_ok_iff _ _ _ _).mp hsl
      have hcut : Cut src (pos - tailSpaces last.content - ch0.utf8Size) pos
          (ch0 :: List.replicate (tailSpaces last.content) ' ') := by
        refine ⟨p ++ pre0, q, ?_, ?_, ?_⟩
        · rw [e]; conv => lhs; rw [hcont]
          simp
        · rw [C05.byteLen_append]; omega
        · simp only [byteLen]; rw [byteLen_replicate_space]; omega
      have := hm.shift _ _ ch0 _ (pos - tailSpaces last.content) pos rx hi0 hcut hnsp hnlf
        (space_not_lf _) (by omega) (by omega) (Nat.le_refl _) e1 hhi0
      omega
    have hstart : start ≤ pos - tailSpaces last.content := by omega
    have hxsrx := tv_mono hm hstart hxs e1
    subst hcs
    obtain ⟨a, b, hab, hinit, _, _⟩ := hord.last
    rw [hrange] at hab; simp only [Option.some.injEq, Prod.mk.injEq] at hab
    obtain ⟨rfl, rfl⟩ := hab
    have hrxy := tv_mono hm (by omega) e1 e2
    rcases hcase with ⟨hpnil, rfl⟩ | ⟨hpne, a', b', hr', hle', rfl⟩ | ⟨_, hr', _⟩
    · -- the whole node goes: `start = pos - tail`
      subst hpnil
      simp only [byteLen, Nat.zero_add] at hbl
      have : start = pos - tailSpaces last.content := by omega
      subst this
      rw [hxs] at e1; simp only [Except.ok.injEq] at e1; subst e1
      refine ⟨⟨ry, e2, hinit.snoc hn (Nat.le_refl _) hrxy (Nat.le_refl _)⟩,
        hi.ri.deep.left.append (WellRangedList.single (hleaf hrxy hn)), ?_, ?_⟩
      · intro n' hn' mk hmk'
        rcases List.mem_append.mp hn' with h' | h'
        · exact hi.ri.markers n' (List.mem_append_left _ h') mk hmk'
        · simp only [List.mem_singleton] at h'; subst h'; rw [ht2] at hmk'; cases hmk'
      · intro init' last' hcs' hlt'
        obtain ⟨_, rfl⟩ := snoc_inj hcs'
        rw [ht1] at hlt'; cases hlt'
    · -- the node keeps `pre`, its range end moves left by `tail`
      rw [hrange] at hr'; simp only [Option.some.injEq, Prod.mk.injEq] at hr'
      obtain ⟨rfl, rfl⟩ := hr'
      have hend : hi0 - tailSpaces last.content = rx := by
        have := hline hpne; omega
      rw [hend]
      have hlast' : WellRanged (Node.mk (.text pre) (some (xs, rx)) last.children) := by
        rw [WellRanged_eq]; simp only [hch]
        exact ⟨⟨xs, rx, rfl, hxsrx, hxsrx⟩, trivial⟩
      refine ⟨⟨ry, e2, (hinit.snoc (n := Node.mk (.text pre) (some (xs, rx)) last.children) rfl
          (Nat.le_refl _) hxsrx (Nat.le_refl _)).snoc hn (Nat.le_refl _) hrxy (Nat.le_refl _)⟩,
        (hi.ri.deep.left.append (WellRangedList.single hlast')).append
          (WellRangedList.single (hleaf hrxy hn)), ?_, ?_⟩
      · intro n' hn' mk hmk'
        rcases List.mem_append.mp hn' with h' | h'
        · rcases List.mem_append.mp h' with h'' | h''
          · exact hi.ri.markers n' (List.mem_append_left _ h'') mk hmk'
          · simp only [List.mem_singleton] at h''; subst h''
            simp [Node.asMarker] at hmk'
        · simp only [List.mem_singleton] at h'; subst h'; rw [ht2] at hmk'; cases hmk'
      · intro init' last' hcs' hlt'
        obtain ⟨_, rfl⟩ := snoc_inj hcs'
        rw [ht1] at hlt'; cases hlt'
    · rw [hrange] at hr'; cases hr'

/-- the newline rule; `hA` (the frame is one where the newline rule is active) is used only when the
    rule fires -/
theorem tv_ruleNewline {A : Prop} {lo : Nat} {st st' : IState} {o : Option Nat}
    (hm : MapT st.src st.srcmap) (hA : A) (hi : tv_RInv A lo st)
    (h : ruleNewline st false = .ok (o, st')) : tv_StepRI A lo st o st' := by
  unfold ruleNewline at h
  split at h
  · simp at h
  · simp at h
  · next c rest hw =>
    split at h
    · simp only [Except.ok.injEq, Prod.mk.injEq] at h; obtain ⟨rfl, rfl⟩ := h; exact tv_same hi
    · simp only [Bool.false_eq_true, if_false] at h
      split at h
      · simp at h
      · next cs hpop =>
        split at h
        · simp at h
        · next hge =>
          split at h
          · simp at h
          · next r hr =>
            simp only [Except.ok.injEq, Prod.mk.injEq] at h; obtain ⟨rfl, rfl⟩ := h
            obtain ⟨rx, ry⟩ := r
            obtain ⟨e1, e2, _⟩ := getMap_eq hr
            unfold tv_StepRI
            simp only [Option.getD_some]
            have epos : st.pos + (st.pos + 1 + (List.takeWhile isSpTab rest).length - st.pos)
                = st.pos + 1 + (List.takeWhile isSpTab rest).length := by omega
            rw [epos]
            have hnt : (Node.leaf (if tailSpaces (trailingTextGet st.children) ≥ 2 then Val.hardbreak
                else Val.softbreak) (some (rx, ry))).isText = false := by
              split <;> rfl
            refine ⟨tv_newline_core hm hA hi hpop hge e1 e2 (by omega) rfl hnt ?_ rfl,
              tv_nolf_snoc hnt⟩
            split <;> rfl

end MdIt.C05T
