/-
  C05 for ALL sources (split tabs included), third part — the frame invariant `FIV` through the
  inline tokenizer.  Part 3: the link / image rule (nested frame anchored by its `[`), one rule of
  the chain, the chain, one iteration of the loop, the induction on fuel (with `pm = st.posMax`
  constant, `RIv (tv_NlAct cfg level)` carried along by the ranges development), the initial state
  (`trim_src` stops in front of a non-blank), and the deliverable `parseInline_fthV`.
-/
import MdIt.Lemmas.C05TabsText2

namespace MdIt.C05T
open MdIt.Inline
open MdIt.InlineOps (Srcmap getSourcePosFor getMap byteLen slice)
open MdIt.C05R (Cut Bdy Sel Adj Adjd StrictTop TextLike textOf)

/-- `tok` keeps the invariant `FIV` (of whatever frame it is called for); the analogue of
    `tv_RangesFn` -/
def tx_FthFn (cfg : Cfg) (src0 : List Char) (tok : IState → Except Panic IState) : Prop :=
  ∀ lo s s', CtxV src0 s.src s.srcmap → tv_RInv (tv_NlAct cfg s.level) lo s → tx_FInv src0 s →
    tok s = .ok s' → FIV src0 s.src s.srcmap s.posMax s'.pos s'.children

/-- the contract of the emphasis-marker rule, for the markers of the chain only (what the induction
    uses; `EmphOKV` + `SolidMarkers` give it: `tx_emphIn_of`) -/
def tx_EmphIn (cfg : Cfg) (src0 : List Char) : Prop :=
  ∀ (mk : Char) (csw : Bool), RuleId.emph mk csw ∈ cfg.chain →
    ∀ (st st' : IState) (o : Option Nat), CtxV src0 st.src st.srcmap → tx_FInv src0 st →
      ruleEmph cfg mk csw st false = .ok (o, st') →
      FIV src0 st.src st.srcmap st.posMax (st'.pos + o.getD 0) st'.children

theorem tx_emphIn_of {cfg : Cfg} {src0 : List Char} (hmk : SolidMarkers cfg.chain)
    (he : EmphOKV cfg src0) : tx_EmphIn cfg src0 := by
  intro mk csw hid st st' o hctx hf h
  obtain ⟨h1, h2, h3⟩ := hmk mk csw hid
  exact he mk csw st st' o h1 h2 h3 hctx hf h

/-- the empty frame: the cursor on a boundary where a space (if any) is anchored -/
theorem tx_nil {src0 c : List Char} {m : Srcmap} {pm pos : Nat} (hb : Bdy c pos)
    (ha : pos < pm → CharAt c pos ' ' → Anchored c pos) : FIV src0 c m pm pos [] :=
  ⟨hb, trivial, trivial, by intro n hn; simp at hn, by intro init last hcs; simp at hcs,
    by intro init last hcs; simp at hcs, fun _ => ha⟩

/-! ## links and images -/

theorem tx_linkRule {src0 : List Char} {cfg : Cfg} {skip tok : IState → Except Panic IState}
    (hq : CalmFn skip) (ht : tv_RangesFn cfg tok) (hft : tx_FthFn cfg src0 tok)
    (hlc : LinkCloserOK) {fuel : Nat}
    {mk : List Nat → Option (List Char) → Val}
    (hmk1 : ∀ u t c, mk u t ≠ .text c) (hmk2 : ∀ u t x y z, mk u t ≠ .special x y z)
    (hmk3 : ∀ u t m l r o c, mk u t ≠ .emphMarker m l r o c) (hmk4 : ∀ u t, isCode (mk u t) = false)
    {en : Bool} {offset : Nat} {st : IState} {o : Option Nat} {st' : IState}
    (hctx : CtxV src0 st.src st.srcmap) (hf : tx_FInv src0 st)
    (hls : Cut st.src (st.pos + offset) (st.pos + offset + 1) ['['])
    (h : linkRule cfg skip tok fuel mk en offset st false = .ok (o, st')) :
    FIV src0 st.src st.srcmap st.posMax (st'.pos + o.getD 0) st'.children := by
  have h0 := h
  unfold linkRule at h
  simp only at h
  split at h
  · simp at h
  · next st1 hpl =>
    simp only [Except.ok.injEq, Prod.mk.injEq] at h; obtain ⟨rfl, rfl⟩ := h
    have hc := parseLink_calm hq hpl
    have hp := parseLink_pos hpl
    simp only [Option.getD_none, Nat.add_zero]
    rw [hp, hc.children]; exact hf
  · next res st1 hpl =>
    have hc := parseLink_calm hq hpl
    have hp := parseLink_pos hpl
    have hend := (parseLink_end hq hpl).2
    have hls' := parseLink_labelStart hpl
    simp only [Bool.false_eq_true, if_false] at h
    split at h
    · simp at h
    · next st3 htok =>
      split at h
      · simp at h
      · split at h
        · simp at h
        · next r hr =>
          split at h
          · simp at h
          · next hnu =>
            simp only [Except.ok.injEq, Prod.mk.injEq] at h; obtain ⟨rfl, rfl⟩ := h
            -- the nested frame
            have hm : MapT st.src st.srcmap := hctx.map
            have hm1 : MapT st1.src st1.srcmap := by rw [hc.src, hc.srcmap]; exact hm
            have hctx1 : CtxV src0 st1.src st1.srcmap := by rw [hc.src, hc.srcmap]; exact hctx
            obtain ⟨lo', hlo'⟩ := C05.translate_total st1.srcmap hm1.wf res.labelStart
            have hnest : tv_RInv (tv_NlAct cfg (st1.level + 1)) lo'
                (IState.mk st1.src st1.srcmap res.labelStart res.labelEnd
                  (st1.level + 1) (st1.linkLevel + 1) st1.cache st1.backticks [] []) :=
              ⟨⟨⟨lo', hlo', Nat.le_refl _⟩, trivial, markersOK_nil,
                  by intro init last hcs; simp at hcs⟩,
                by intro _ init last hcs; simp at hcs⟩
            have hfnest : tx_FInv src0 (IState.mk st1.src st1.srcmap res.labelStart res.labelEnd
                (st1.level + 1) (st1.linkLevel + 1) st1.cache st1.backticks [] []) := by
              unfold tx_FInv; simp only
              rw [hls', hc.src]
              exact tx_nil hls.bdy_right
                (fun _ _ => tx_anchored_of_cut hls (by decide) (by decide) (by simp))
            obtain ⟨hs3, hm3, _, _⟩ := ht lo' (IState.mk st1.src st1.srcmap res.labelStart
                res.labelEnd (st1.level + 1) (st1.linkLevel + 1) st1.cache st1.backticks [] []) st3
                hm1 htok hnest
            have hf3 := hft lo' (IState.mk st1.src st1.srcmap res.labelStart
                res.labelEnd (st1.level + 1) (st1.linkLevel + 1) st1.cache st1.backticks [] []) st3
                hctx1 hnest hfnest htok
            have hs3' : st3.src = st1.src := hs3
            have hm3' : st3.srcmap = st1.srcmap := hm3
            have hf3' : FIV src0 st.src st.srcmap res.labelEnd st3.pos st3.children := by
              have := hf3; simp only at this
              rw [hc.src, hc.srcmap] at this; exact this
            obtain ⟨rx, ry⟩ := r
            obtain ⟨e1, e2, hle⟩ := getMap_eq (liftR_ok.mp hr)
            rw [hm3', hc.srcmap] at e1 e2
            -- the last character consumed is `)` or `]`
            obtain ⟨hge1, x, hx, hxx⟩ := hlc _ _ _ _ _ _ _ _ _ _ hq h0
            simp only [Option.getD_some]
            have epos : st3.pos + (res.endPos - st3.pos) = res.endPos := by omega
            simp only [epos] at hge1 hx
            rw [epos, hc.children]
            have hanch : Anchored st.src res.endPos := by
              rcases hxx with rfl | rfl
              · exact tx_anchored_of_charAt hx hge1 (by decide) (by decide) (by decide)
              · exact tx_anchored_of_charAt hx hge1 (by decide) (by decide) (by decide)
            exact tx_push hf hend (tx_fthN_plain (hctx.fth.bdy _ _ hf.bpos e1)
              (hctx.fth.bdy _ _ hend e2) (hmk1 _ _) (hmk2 _ _) (hmk3 _ _) hf3'.adj
              (by rw [hmk4]; exact hf3'.deep)) (C05R.fi_not_textLike (hmk1 _ _) (hmk3 _ _))
              (fun _ _ => hanch)

/-! ## one rule of the chain -/

theorem tx_cut_of_slice_mid {c : List Char} {a b : Nat} {u w v : List Char}
    (h : slice c a b = .ok (u ++ w ++ v)) : Cut c (a + byteLen u) (a + byteLen u + byteLen w) w := by
  obtain ⟨P, Q, e, l1, _⟩ := (C05.slice_ok_iff _ _ _ _).mp h
  exact ⟨P ++ u, v ++ Q, by rw [e]; simp, by rw [C05.byteLen_append]; omega, rfl⟩

theorem tx_runRule {A : Prop} {src0 : List Char} {cfg : Cfg}
    {skip tok : IState → Except Panic IState}
    (hq : CalmFn skip) (ht : tv_RangesFn cfg tok) (hft : tx_FthFn cfg src0 tok)
    (he : tx_EmphIn cfg src0) (hcc : CodeCloserOK) (hlc : LinkCloserOK) {fuel : Nat}
    {id : RuleId} (hid : id ∈ cfg.chain) (hnl : id = .newline → A) {lo : Nat} {st : IState}
    {o : Option Nat} {st' : IState}
    (hctx : CtxV src0 st.src st.srcmap) (hi : tv_RInv A lo st) (hf : tx_FInv src0 st)
    (h : runRule cfg skip tok fuel id st false = .ok (o, st')) :
    FIV src0 st.src st.srcmap st.posMax (st'.pos + o.getD 0) st'.children := by
  unfold runRule at h
  cases id with
  | text => exact tx_ruleText hctx hi hf (liftR_ok.mp h)
  | newline => exact tx_ruleNewline hctx (hnl rfl) hi hf (liftR_ok.mp h)
  | escape => exact tx_ruleEscape hctx hf (liftR_ok.mp h)
  | backticks => exact tx_ruleBackticks hctx hcc hf (liftR_ok.mp h)
  | emph mk csw => exact he mk csw hid st st' o hctx hf (liftR_ok.mp h)
  | link =>
    simp only at h
    unfold ruleLink at h
    split at h
    · simp at h
    · simp at h
    · next c rest hw =>
      split at h
      · simp only [Except.ok.injEq, Prod.mk.injEq] at h; obtain ⟨rfl, rfl⟩ := h; exact tx_none hf
      · have hsl := window_eq (liftR_ok.mp hw)
        have hc : c = '[' := by simpa using ‹¬ c ≠ '['›
        subst hc
        have hb : Cut st.src (st.pos + 0) (st.pos + 0 + 1) ['['] := by
          have := tx_cut_of_slice_mid (u := []) (w := ['[']) (v := rest) (by simpa using hsl)
          have e1 : ('[' : Char).utf8Size = 1 := by decide
          simpa [byteLen, e1] using this
        exact tx_linkRule (mk := Val.link) (offset := 0) hq ht hft hlc (by intro u t c e; cases e)
          (by intro u t x y z e; cases e) (by intro u t m l r o c e; cases e) (by intro u t; rfl)
          hctx hf hb h
  | image =>
    simp only at h
    unfold ruleImage at h
    split at h
    · simp at h
    · next rest hw =>
      have hsl := window_eq (liftR_ok.mp hw)
      have hb : Cut st.src (st.pos + 1) (st.pos + 1 + 1) ['['] := by
        have := tx_cut_of_slice_mid (u := ['!']) (w := ['[']) (v := rest) (by simpa using hsl)
        have e1 : ('[' : Char).utf8Size = 1 := by decide
        have e2 : ('!' : Char).utf8Size = 1 := by decide
        simpa [byteLen, e1, e2] using this
      exact tx_linkRule (mk := Val.image) (offset := 1) hq ht hft hlc (by intro u t c e; cases e)
        (by intro u t x y z e; cases e) (by intro u t m l r o c e; cases e) (by intro u t; rfl)
        hctx hf hb h
    · simp only [Except.ok.injEq, Prod.mk.injEq] at h; obtain ⟨rfl, rfl⟩ := h; exact tx_none hf
  | linkEnd =>
    simp only [Except.ok.injEq, Prod.mk.injEq] at h; obtain ⟨rfl, rfl⟩ := h; exact tx_none hf
  | autolink => exact tx_ruleAutolink hctx hf (liftR_ok.mp h)
  | entity => exact tx_ruleEntity hctx hf (liftR_ok.mp h)

/-! ## the chain, one iteration, the loop -/

theorem tx_firstRule {A : Prop} {src0 : List Char} {chain : List RuleId}
    {run : RuleId → IState → RuleRes} {lo : Nat}
    (hrun : ∀ id s o s', id ∈ chain → MapT s.src s.srcmap → tv_RInv A lo s →
      run id s = .ok (o, s') → tv_StepOK A lo s o s')
    (hfi : ∀ id s o s', id ∈ chain → CtxV src0 s.src s.srcmap → tv_RInv A lo s → tx_FInv src0 s →
      run id s = .ok (o, s') → FIV src0 s.src s.srcmap s.posMax (s'.pos + o.getD 0) s'.children) :
    ∀ (rules : List RuleId), (∀ id ∈ rules, id ∈ chain) →
      ∀ (st : IState) (o : Option Nat) (st' : IState),
      CtxV src0 st.src st.srcmap → tv_RInv A lo st → tx_FInv src0 st →
      firstRule run rules st = .ok (o, st') →
      FIV src0 st.src st.srcmap st.posMax (st'.pos + o.getD 0) st'.children := by
  intro rules
  induction rules with
  | nil =>
    intro _ st o st' _ _ hf h
    simp only [firstRule, Except.ok.injEq, Prod.mk.injEq] at h; obtain ⟨rfl, rfl⟩ := h
    exact tx_none hf
  | cons r rs ih =>
    intro hmem st o st' hctx hi hf h
    unfold firstRule at h
    split at h
    · simp at h
    · next n st1 hr =>
      simp only [Except.ok.injEq, Prod.mk.injEq] at h; obtain ⟨rfl, rfl⟩ := h
      exact hfi _ _ _ _ (hmem r (by simp)) hctx hi hf hr
    · next st1 hr =>
      have s1 := hrun _ _ _ _ (hmem r (by simp)) hctx.map hi hr
      have f1 := hfi _ _ _ _ (hmem r (by simp)) hctx hi hf hr
      have hi1 : tv_RInv A lo st1 := by
        have := s1.ri
        simp only [Option.getD_none, Nat.add_zero] at this
        unfold tv_RInv; rw [s1.src, s1.srcmap]; exact this
      have hf1 : tx_FInv src0 st1 := by
        simp only [Option.getD_none, Nat.add_zero] at f1
        unfold tx_FInv; rw [s1.src, s1.srcmap, s1.posMax]; exact f1
      have hctx1 : CtxV src0 st1.src st1.srcmap := by rw [s1.src, s1.srcmap]; exact hctx
      have := ih (fun id hid => hmem id (by simp [hid])) st1 o st' hctx1 hi1 hf1 h
      rw [s1.src, s1.srcmap, s1.posMax] at this; exact this

theorem tx_tokStep {src0 : List Char} {cfg : Cfg} {skip tok : IState → Except Panic IState}
    (hq : CalmFn skip) (ht : tv_RangesFn cfg tok) (hft : tx_FthFn cfg src0 tok)
    (he : tx_EmphIn cfg src0) (hcc : CodeCloserOK) (hlc : LinkCloserOK)
    (hmk : SolidMarkers cfg.chain) {fuel : Nat} {lo : Nat} {st st' : IState}
    (hctx : CtxV src0 st.src st.srcmap) (hi : tv_RInv (tv_NlAct cfg st.level) lo st)
    (hf : tx_FInv src0 st) (h : tokStep cfg skip tok fuel st = .ok st') :
    FIV src0 st.src st.srcmap st.posMax st'.pos st'.children := by
  have hok : ∀ o st1, (if st.level < cfg.maxNesting then
        firstRule (fun id s => runRule cfg skip tok fuel id s false) cfg.chain st
      else .ok (none, st)) = .ok (o, st1) →
      tv_StepOK (tv_NlAct cfg st.level) lo st o st1 ∧
        FIV src0 st.src st.srcmap st.posMax (st1.pos + o.getD 0) st1.children := by
    intro o st1 hh
    split at hh
    · next hlt =>
      refine ⟨(tv_firstRule (A := tv_NlAct cfg st.level) (lo := lo)
          (run := fun id s => runRule cfg skip tok fuel id s false)
          (fun s s' hr c rest hw => tv_newline_declines hr hw) cfg.chain
          (fun id hid s o s' hms his hr => tv_runRule hq ht (fun e => ⟨e ▸ hid, hlt⟩)
            (fun mk csw e => hmk mk csw (e ▸ hid)) hms his hr) _ _ _ hctx.map hi hh).1, ?_⟩
      exact tx_firstRule (A := tv_NlAct cfg st.level) (chain := cfg.chain) (lo := lo)
        (run := fun id s => runRule cfg skip tok fuel id s false)
        (fun id s o s' hid hms his hr => tv_runRule hq ht (fun e => ⟨e ▸ hid, hlt⟩)
          (fun mk csw e => hmk mk csw (e ▸ hid)) hms his hr)
        (fun id s o s' hid hcs his hfs hr => tx_runRule hq ht hft he hcc hlc hid
          (fun e => ⟨e ▸ hid, hlt⟩) hcs his hfs hr)
        cfg.chain (fun id hid => hid) _ _ _ hctx hi hf hh
    · simp only [Except.ok.injEq, Prod.mk.injEq] at hh; obtain ⟨rfl, rfl⟩ := hh
      exact ⟨tv_stepOK_calm hi (Calm.refl _) rfl, tx_none hf⟩
  unfold tokStep at h
  simp only at h
  split at h
  · simp at h
  · next len st1 hr =>
    simp only [Except.ok.injEq] at h; subst h
    obtain ⟨s1, f1⟩ := hok _ _ hr
    simp only [Option.getD_some] at f1
    exact f1
  · next st1 hr =>
    obtain ⟨s1, f1⟩ := hok _ _ hr
    have hi1 : tv_RInv (tv_NlAct cfg st.level) lo st1 := by
      have := s1.ri
      simp only [Option.getD_none, Nat.add_zero] at this
      unfold tv_RInv; rw [s1.src, s1.srcmap]; exact this
    have hf1 : tx_FInv src0 st1 := by
      simp only [Option.getD_none, Nat.add_zero] at f1
      unfold tx_FInv; rw [s1.src, s1.srcmap, s1.posMax]; exact f1
    have hctx1 : CtxV src0 st1.src st1.srcmap := by rw [s1.src, s1.srcmap]; exact hctx
    split at h
    · simp at h
    · next ch hch =>
      split at h
      · simp at h
      · next st2 hp =>
        simp only [Except.ok.injEq] at h; subst h
        have hp' := liftR_ok.mp hp
        have := tx_fallback hctx1 hi1 hf1 hch hp'
        rw [s1.src, s1.srcmap, s1.posMax] at this
        exact this

/-- **the invariant `FIV` through the whole tokenizer** (partial correctness, any fuel); `pm` is the
    `posMax` of the frame, which every rule restores -/
theorem tx_induction {src0 : List Char} (cfg : Cfg) (hmk : SolidMarkers cfg.chain)
    (he : tx_EmphIn cfg src0) (hcc : CodeCloserOK) (hlc : LinkCloserOK) : ∀ fuel : Nat,
    ∀ (e lo : Nat) (st st' : IState), CtxV src0 st.src st.srcmap →
      tv_RInv (tv_NlAct cfg st.level) lo st → tx_FInv src0 st →
      tokLoop cfg fuel e st = .ok st' →
      FIV src0 st.src st.srcmap st.posMax st'.pos st'.children := by
  intro fuel
  induction fuel with
  | zero =>
    intro e lo st st' _ _ hf h
    unfold tokLoop at h
    split at h
    · simp at h
    · simp only [Except.ok.injEq] at h; subst h; exact hf
  | succ f ih =>
    intro e lo st st' hctx hi hf h
    unfold tokLoop at h
    split at h
    · simp only at h
      split at h
      · simp at h
      · next st1 hstep =>
        have ht : tv_RangesFn cfg (fun s => tokLoop cfg f s.posMax s) := tv_rangesFn cfg hmk f
        have hft : tx_FthFn cfg src0 (fun s => tokLoop cfg f s.posMax s) :=
          fun lo s s' hcs his hfs hr => ih _ lo s s' hcs his hfs hr
        obtain ⟨a, b, c, p1, d⟩ := tv_tokStep (skipToken_calm cfg f) ht hmk hctx.map hi hstep
        have hf1 := tx_tokStep (skipToken_calm cfg f) ht hft he hcc hlc hmk hctx hi hf hstep
        have hctx1 : CtxV src0 st1.src st1.srcmap := by rw [a, b]; exact hctx
        have hf1' : tx_FInv src0 st1 := by unfold tx_FInv; rw [a, b, p1]; exact hf1
        have := ih e lo st1 st' hctx1 (by rw [c]; exact d) hf1' h
        rw [a, b, p1] at this; exact this
    · simp only [Except.ok.injEq] at h; subst h; exact hf

/-! ## the initial state -/

/-- `Inline.trimSrc_spec` plus: the middle part does not start with a blank (`trim_src` stops in
    front of a non-blank, or the window is empty) -/
theorem tx_trimSrc_spec (src : List Char) :
    ∃ front mid back, src = front ++ mid ++ back ∧ (∀ c ∈ front, isSpTab c = true) ∧
      (∀ c ∈ back, isSpTab c = true) ∧ (trimSrc src).1 = front.length ∧
      (trimSrc src).2 = byteLen src - back.length ∧ (∀ x r, mid = x :: r → isSpTab x = false) := by
  have hrev : src = (src.reverse.dropWhile isSpTab).reverse ++ (src.reverse.takeWhile isSpTab).reverse := by
    rw [← List.reverse_append, List.takeWhile_append_dropWhile, List.reverse_reverse]
  have hmid : (src.reverse.dropWhile isSpTab).reverse
      = ((src.reverse.dropWhile isSpTab).drop 1).reverse ++ ((src.reverse.dropWhile isSpTab).take 1).reverse := by
    rw [← List.reverse_append, List.take_append_drop]
  have hrest := (List.takeWhile_append_dropWhile (p := isSpTab)
    (l := ((src.reverse.dropWhile isSpTab).drop 1).reverse)).symm
  refine ⟨(((src.reverse.dropWhile isSpTab).drop 1).reverse).takeWhile isSpTab,
    (((src.reverse.dropWhile isSpTab).drop 1).reverse).dropWhile isSpTab
      ++ ((src.reverse.dropWhile isSpTab).take 1).reverse,
    (src.reverse.takeWhile isSpTab).reverse, ?_, ?_, ?_, ?_, ?_, ?_⟩
  · calc src = (src.reverse.dropWhile isSpTab).reverse ++ (src.reverse.takeWhile isSpTab).reverse := hrev
      _ = _ := by rw [hmid]
      _ = _ := by rw [hrest]
      _ = _ := by simp only [List.append_assoc]
  · intro c hc; exact mem_takeWhile_imp hc
  · intro c hc; exact mem_takeWhile_imp (List.mem_reverse.mp hc)
  · unfold trimSrc; rfl
  · unfold trimSrc; simp
  · intro x r hxr
    cases hd : (((src.reverse.dropWhile isSpTab).drop 1).reverse).dropWhile isSpTab with
    | cons y t =>
      rw [hd] at hxr
      simp only [List.cons_append, List.cons.injEq] at hxr
      rw [← hxr.1]; exact tx_dropWhile_head hd
    | nil =>
      rw [hd] at hxr
      simp only [List.nil_append] at hxr
      cases hD : src.reverse.dropWhile isSpTab with
      | nil => rw [hD] at hxr; simp at hxr
      | cons d D' =>
        rw [hD] at hxr
        simp only [List.take_succ_cons, List.take_zero, List.reverse_cons, List.reverse_nil,
          List.nil_append, List.cons.injEq] at hxr
        rw [← hxr.1]; exact tx_dropWhile_head hD

/-- the state `InlineState::new` makes: the cursor is on a boundary, and if the window is not empty
    it does not start with a blank -/
theorem tx_init (src0 c : List Char) (m : Srcmap) : tx_FInv src0 (IState.init c m) := by
  obtain ⟨front, mid, back, hsrc, hfront, hback, h1, h2, hmid⟩ := tx_trimSrc_spec c
  have hbf : byteLen front = front.length := byteLen_ascii _ (fun c hc => isSpTab_size (hfront c hc))
  have hbb : byteLen back = back.length := byteLen_ascii _ (fun c hc => isSpTab_size (hback c hc))
  have hlen : byteLen c = byteLen front + byteLen mid + byteLen back := by
    conv => lhs; rw [hsrc]
    rw [C05.byteLen_append, C05.byteLen_append]
  show FIV src0 c m (trimSrc c).2 (trimSrc c).1 []
  refine tx_nil ⟨front, mid ++ back, by rw [hsrc]; simp, by rw [h1, hbf]⟩ ?_
  intro hlt hca
  exfalso
  obtain ⟨pre, post, e', l'⟩ := hca
  have he : pre ++ (' ' :: post) = front ++ (mid ++ back) := by
    rw [← e']; conv => lhs; rw [hsrc]
    simp
  obtain ⟨_, hr⟩ := C05R.prefix_unique he (by omega)
  cases mid with
  | nil => simp only [byteLen] at hlen; omega
  | cons x r =>
    simp only [List.cons_append, List.cons.injEq] at hr
    have := hmid x r rfl
    rw [← hr.1] at this
    simp [isSpTab] at this

/-! ## the theorems -/

/-- **`parseInline` for ANY table: faithful ranges at every node (with the code-span exemption),
    adjacent mergeable neighbours, non-empty text-like members** — with the contract of the
    emphasis-marker rule for the markers of the chain only -/
theorem parseInline_fthV_chain (cfg : Cfg) {src0 c : List Char} {m : Srcmap} (hctx : CtxV src0 c m)
    (hmk : SolidMarkers cfg.chain) (he : tx_EmphIn cfg src0) (hcc : CodeCloserOK)
    (hlc : LinkCloserOK) {ns : List Inline.Node}
    (h : Inline.parseInline cfg c m = .ok ns) : FthLV src0 false ns ∧ Adjd ns ∧ StrictTop ns := by
  unfold parseInline at h
  split at h
  · simp at h
  · next st hst =>
    simp only [Except.ok.injEq] at h; subst h
    unfold tokenize at hst
    obtain ⟨lo, hlo⟩ := C05.translate_total m hctx.map.wf (trimSrc c).1
    have hinit : tv_RInv (tv_NlAct cfg (IState.init c m).level) lo (IState.init c m) :=
      ⟨⟨⟨lo, hlo, Nat.le_refl _⟩, trivial, markersOK_nil,
          by intro init last hcs; simp [IState.init] at hcs⟩,
        by intro _ init last hcs; simp [IState.init] at hcs⟩
    have hf := tx_induction cfg hmk he hcc hlc _ _ lo _ _ hctx hinit (tx_init src0 c m) hst
    exact ⟨hf.deep, hf.adj, hf.strict⟩

/-- **the deliverable**: for a content `c` with per-line table `m` that is an excerpt of the
    document `src0` in the sense of `CtxV` (`MapT` ∧ `PFthV`: ANY `get_lines` table, virtual-space
    entries of split tabs included), solid single-byte emphasis markers, the contract of the
    emphasis-marker rule and the two closer facts: whatever `parseInline` returns is `FthNV` at
    every node — range ends on character boundaries of `src0`; a `Text` that is not the child of a
    code span selects its content, a `TextSpecial` its markup, an `EmphMarker` covers its
    delimiters —, mergeable neighbours are adjacent, and text-like members have non-empty ranges -/
theorem parseInline_fthV (cfg : Inline.Cfg) {src0 c : List Char} {m : Srcmap} (hctx : CtxV src0 c m)
    (hmk : SolidMarkers cfg.chain) (he : EmphOKV cfg src0) (hcc : CodeCloserOK) (hlc : LinkCloserOK)
    {ns : List Inline.Node} (h : Inline.parseInline cfg c m = .ok ns) :
    FthLV src0 false ns ∧ Adjd ns ∧ StrictTop ns :=
  parseInline_fthV_chain cfg hctx hmk (tx_emphIn_of hmk he) hcc hlc h

end MdIt.C05T
