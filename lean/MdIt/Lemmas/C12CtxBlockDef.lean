/-
  Helper development for C12 in reference context, BLOCK side (namespace `MdIt.Block.C12D`): the
  symbolic run of `Block.parseBlocks` on the THREE-LINE source

        D ⏎ ⏎ [k]            (`D` = a one-line reference definition, no line terminator in it)

    * `parseBlocks_def_use`   the definition is stored (key = the label normalised twice), no node is
                              made for it; then one paragraph holding `[k]`.
-/
import MdIt.Lemmas.C12DocBlock

namespace MdIt.Block.C12D
open MdIt.Lines (LineOffset byteLen NoTerm AllBlank indentWidth lead)
open MdIt.Block.C12 (runChain_first runChain_only usizeAsI32_zero)

/-! ## the line table -/

/-- the line table of  D ⏎ ⏎ [k]  with `n = byteLen D` (`D` begins with a non-blank) -/
def offs3 (n : Nat) : List LineOffset :=
  [⟨0, n, 0, 0⟩, ⟨n + 1, n + 1, n + 1, 0⟩, ⟨n + 2, n + 5, n + 2, 0⟩]

theorem lead_bracket (rest : List Char) : lead ('[' :: rest) = [] := by
  simp [lead, Lines.isBlank]

theorem splitLines_three (D rest : List Char) (hD : D = '[' :: rest) (hnt : NoTerm D) :
    Lines.splitLines (D ++ ['\n', '\n', '[', 'k', ']']) = offs3 (byteLen D) := by
  obtain ⟨fl, hsp⟩ := Lines.splitGo_line D hnt 0 ['\n', '\n', '[', 'k', ']']
  have hl : lead D = [] := by rw [hD]; exact lead_bracket rest
  unfold Lines.splitLines
  rw [hsp, hl, Lines.splitGo_term (Or.inl rfl)]
  simp only [Lines.termStep]
  rw [if_neg (by simp), if_neg (by simp), if_neg (by simp), Lines.splitGo_term (Or.inl rfl)]
  simp only [Lines.termStep]
  rw [if_neg (by simp), if_neg (by simp), if_neg (by simp)]
  rw [Lines.splitGo_other (by decide) (by decide), Lines.splitGo_found_step (by decide),
    Lines.splitGo_found_step (by decide), Lines.splitGo_nil]
  have h1 : ('[' : Char).utf8Size = 1 := by decide
  have h2 : ('k' : Char).utf8Size = 1 := by decide
  have h3 : (']' : Char).utf8Size = 1 := by decide
  simp [offs3, indentWidth, Lines.widthFrom, h1, h2, h3]

/-! ## a state over that source -/

/-- a top-level state over  D ⏎ ⏎ [k]  (`line`, `refs`, `children`, `tight`, `level` are free) -/
structure ThreeLine (s : BState) (D : List Char) : Prop where
  src : s.src = D ++ ['\n', '\n', '[', 'k', ']']
  offs : s.offs = offs3 (byteLen D)
  blk : s.blkIndent = 0
  lineMax : s.lineMax = 3
  li : s.listIndent = none

variable {s : BState} {D : List Char}

theorem byteLen_nlnl : byteLen ['\n', '\n'] = 2 := by decide
theorem byteLen_use : byteLen ['[', 'k', ']'] = 3 := by decide

theorem slice_line0 (D : List Char) :
    Lines.slice (D ++ ['\n', '\n', '[', 'k', ']']) 0 (byteLen D) = .ok D :=
  Lines.slice_eq_ok_iff.mpr ⟨[], ['\n', '\n', '[', 'k', ']'], by simp, rfl, by simp⟩

theorem slice_line2 (D : List Char) :
    Lines.slice (D ++ ['\n', '\n', '[', 'k', ']']) (byteLen D + 2) (byteLen D + 5) = .ok ['[', 'k', ']'] :=
  Lines.slice_eq_ok_iff.mpr ⟨D ++ ['\n', '\n'], [], by simp, by
    rw [Lines.byteLen_append, byteLen_nlnl], by rw [byteLen_use]⟩

theorem slice_ws0 (D : List Char) :
    Lines.slice (D ++ ['\n', '\n', '[', 'k', ']']) 0 0 = .ok [] :=
  Lines.slice_eq_ok_iff.mpr ⟨[], D ++ ['\n', '\n', '[', 'k', ']'], by simp, rfl, by simp⟩

theorem slice_ws2 (D : List Char) :
    Lines.slice (D ++ ['\n', '\n', '[', 'k', ']']) (byteLen D + 2) (byteLen D + 2) = .ok [] :=
  Lines.slice_eq_ok_iff.mpr ⟨D ++ ['\n', '\n'], ['[', 'k', ']'], by simp, by
    rw [Lines.byteLen_append, byteLen_nlnl], by simp⟩

theorem ThreeLine.lineIndent0 (hs : ThreeLine s D) : s.lineIndent 0 = .ok 0 := by
  simp [BState.lineIndent, Lines.lineIndent, hs.offs, hs.blk, offs3, liftL]

theorem ThreeLine.lineIndent2 (hs : ThreeLine s D) : s.lineIndent 2 = .ok 0 := by
  simp [BState.lineIndent, Lines.lineIndent, hs.offs, hs.blk, offs3, liftL]

theorem ThreeLine.getLine0 (hs : ThreeLine s D) : s.getLine 0 = .ok D := by
  simp [BState.getLine, Lines.getLine, hs.offs, hs.src, offs3, slice_line0, liftL]

theorem ThreeLine.getLine2 (hs : ThreeLine s D) : s.getLine 2 = .ok ['[', 'k', ']'] := by
  simp [BState.getLine, Lines.getLine, hs.offs, hs.src, offs3, slice_line2, liftL]

theorem ThreeLine.isEmpty0 (hs : ThreeLine s D) (hne : D ≠ []) : s.isEmpty 0 = false := by
  have : 0 < byteLen D := by
    cases D with
    | nil => exact absurd rfl hne
    | cons c r => have := Lines.utf8Size_pos' c; simp; omega
  simp [BState.isEmpty, Lines.isEmpty, hs.offs, offs3]
  omega

theorem ThreeLine.isEmpty1 (hs : ThreeLine s D) : s.isEmpty 1 = true := by
  simp [BState.isEmpty, Lines.isEmpty, hs.offs, offs3]

theorem ThreeLine.isEmpty2 (hs : ThreeLine s D) : s.isEmpty 2 = false := by
  simp [BState.isEmpty, Lines.isEmpty, hs.offs, offs3]

theorem ThreeLine.getMap2 (hs : ThreeLine s D) : s.getMap 2 2 = .ok (byteLen D + 2, byteLen D + 5) := by
  simp [BState.getMap, Lines.getMap, hs.offs, offs3, liftL]

theorem calcRightWs_nil : Lines.calcRightWs [] 0 = (0, 0) := by decide

theorem ThreeLine.getLines0 (hs : ThreeLine s D) :
    s.getLines 0 1 0 false = .ok (D, [(0, 0)]) := by
  unfold BState.getLines Lines.getLines
  rw [if_neg (by omega)]
  unfold Lines.getLinesGo
  rw [if_pos (by omega)]
  simp only [hs.offs, hs.src, offs3, List.getElem?_cons_zero, slice_ws0, usizeAsI32_zero, Int.sub_zero,
    calcRightWs_nil]
  unfold Lines.getLinesGo
  simp [slice_line0, liftL, Lines.byteLen]

theorem ThreeLine.getLines2 (hs : ThreeLine s D) :
    s.getLines 2 3 0 false = .ok (['[', 'k', ']'], [(0, byteLen D + 2)]) := by
  unfold BState.getLines Lines.getLines
  rw [if_neg (by omega)]
  unfold Lines.getLinesGo
  rw [if_pos (by omega)]
  simp only [hs.offs, hs.src, offs3, List.getElem?_cons_succ, List.getElem?_cons_zero, slice_ws2,
    usizeAsI32_zero, Int.sub_zero, calcRightWs_nil]
  unfold Lines.getLinesGo
  simp [slice_line2, liftL, Lines.byteLen]

theorem fresh_threeLine (D rest : List Char) (hD : D = '[' :: rest) (hnt : NoTerm D) (k : Kind)
    (refs : Refs.RefMap) : ThreeLine (BState.fresh (D ++ ['\n', '\n', '[', 'k', ']']) k refs) D := by
  refine ⟨rfl, ?_, rfl, ?_, rfl⟩
  · simp [BState.fresh, splitLines_three D rest hD hnt]
  · simp [BState.fresh, splitLines_three D rest hD hnt, offs3]

/-! ## the rules on a line that begins with `[` -/

/-- the lazy-continuation scan stops at once in front of a blank line or the end of the input
    (`test` is never called) -/
theorem lazyScan_stop (test : Test) (setext : Bool) (fuel : Nat) (s : BState)
    (hstop : s.line + 1 ≥ s.lineMax ∨ s.isEmpty (s.line + 1) = true) :
    lazyScan test setext (fuel + 1) s s.line = .ok (s.line + 1, 0, s) := by
  simp [lazyScan, hstop]

/-- on a line  `[` ++ rest  of indent 0 (no pending list indent), in front of a blank line or the end
    of the input, every rule but the reference rule and the paragraph rule declines and hands the
    state back -/
theorem runRule_bracket (cfg : Cfg) (tok : Tok) (test : Test) (fuel : Nat) (s : BState)
    (rest : List Char) (hind : s.lineIndent s.line = .ok 0) (hline : s.getLine s.line = .ok ('[' :: rest))
    (hli : s.listIndent = none)
    (hstop : s.line + 1 ≥ s.lineMax ∨ s.isEmpty (s.line + 1) = true)
    (r : RuleId) (hr : r ≠ .paragraph) (hr' : r ≠ .reference) :
    runRule cfg tok test (fuel + 1) r s false = .ok (false, s) := by
  cases r with
  | paragraph => exact absurd rfl hr
  | reference => exact absurd rfl hr'
  | code => simp [runRule, codeRule, hind, pure, Except.pure]
  | fence => simp [runRule, fenceRule, hind, hline, pure, Except.pure]
  | blockquote => simp [runRule, blockquoteRule, hind, hline, pure, Except.pure]
  | hr => simp [runRule, hrRule, hind, hline, pure, Except.pure]
  | list =>
    have hsb : skipBullet ('[' :: rest) = none := by simp [skipBullet]
    have hso : skipOrdered ('[' :: rest) = none := by
      have : isDigit '[' = false := by decide
      simp [skipOrdered, this]
    simp [runRule, listRule, hind, listSpecial, hli, hline, detectMarker, hso, hsb, pure, Except.pure]
  | heading => simp [runRule, headingRule, hind, hline, pure, Except.pure]
  | lheading =>
    simp [runRule, lheadingRule, hind, lazyScan_stop test true fuel s hstop, pure, Except.pure]

/-- … and the reference rule declines too when the quick `[…]:` check fails -/
theorem runRule_reference_quick (cfg : Cfg) (tok : Tok) (test : Test) (fuel : Nat) (s : BState)
    (rest : List Char) (hind : s.lineIndent s.line = .ok 0) (hline : s.getLine s.line = .ok ('[' :: rest))
    (hq : refQuick false rest = false) :
    runRule cfg tok test fuel .reference s false = .ok (false, s) := by
  simp [runRule, referenceRule, hind, hline, hq, pure, Except.pure]

/-- the reference rule on a definition that fills the lines up to the next blank line / the end of
    the input: it is stored under the twice-normalised label, the state moves behind it -/
theorem runRule_reference_fire (cfg : Cfg) (tok : Tok) (test : Test) (fuel : Nat) (s : BState)
    (rest str : List Char) (mp : List (Nat × Nat))
    (hind : s.lineIndent s.line = .ok 0) (hline : s.getLine s.line = .ok ('[' :: rest))
    (hstop : s.line + 1 ≥ s.lineMax ∨ s.isEmpty (s.line + 1) = true)
    (hq : refQuick false rest = true)
    (hget : s.getLines s.line (s.line + 1) s.blkIndent false = .ok (str, mp))
    (raw href : List Nat) (title : Option (List Nat)) (lines : Nat)
    (hparse : refParse cfg (trimStr str) = .ok (some (raw, href, title, lines)))
    (hlab : (Refs.normalize cfg.L cfg.U raw).isEmpty = false) :
    runRule cfg tok test (fuel + 1) .reference s false =
      .ok (true, { s with
        refs := Refs.insertFirst s.refs (Refs.normalize cfg.L cfg.U (Refs.normalize cfg.L cfg.U raw))
                  ⟨href, title⟩,
        line := s.line + lines + 1 }) := by
  simp [runRule, referenceRule, hind, hline, hq, lazyScan_stop test false fuel s hstop, hget, hparse,
    hlab, pure, Except.pure, bind, Except.bind]

/-- the paragraph rule on a single line in front of a blank line / the end of the input -/
theorem runRule_paragraph_one (cfg : Cfg) (tok : Tok) (test : Test) (fuel : Nat) (s : BState)
    (str : List Char) (mp : List (Nat × Nat)) (rg : Nat × Nat)
    (hstop : s.line + 1 ≥ s.lineMax ∨ s.isEmpty (s.line + 1) = true)
    (hget : s.getLines s.line (s.line + 1) s.blkIndent false = .ok (str, mp))
    (hmap : s.getMap s.line s.line = .ok rg) :
    runRule cfg tok test (fuel + 1) .paragraph s false =
      .ok (true, { s with line := s.line + 1, children := s.children ++
        [⟨.paragraph, some rg, [⟨.inlineRoot str mp, none, []⟩]⟩] }) := by
  have hmap' : liftL (Lines.getMap s.offs s.line s.line) = .ok rg := hmap
  simp [runRule, paragraphRule, lazyScan_stop test false fuel s hstop, hget, psub, BState.getMap,
    hmap', BState.push, pure, Except.pure, bind, Except.bind]

/-! ## one iteration of the tokenizer loop, for any state -/

theorem skipEmpty_stay (offs : List LineOffset) (lineMax line : Nat)
    (h : Lines.isEmpty offs line = false) : Lines.skipEmptyLines offs lineMax line = line := by
  rw [Lines.skipEmptyLines]; simp [h]

theorem tokLoop_done (cfg : Cfg) (run : RuleId → BState → Bool → Res) (k : Nat) (he : Bool)
    (s : BState) (h : ¬ s.line < s.lineMax) : tokLoop cfg run (k + 1) he s = .ok s := by
  rw [tokLoop]; simp [h]

/-- an iteration on a non-blank line of non-negative indent where a rule of the chain fires and the
    line behind the block is blank: the loop goes on behind that blank line, `has_empty_lines` set -/
theorem tokLoop_step_blank (cfg : Cfg) (run : RuleId → BState → Bool → Res) (k : Nat) (he : Bool)
    (s s' : BState) (i : Int) (hlt : s.line < s.lineMax) (hne : s.isEmpty s.line = false)
    (hind : s.lineIndent s.line = .ok i) (hi : ¬ i < 0) (hlvl : s.level < cfg.maxNesting)
    (hchain : runChain run cfg.chain s false = .ok (true, s')) (hprog : s'.line > s.line)
    (hlt' : s'.line < s'.lineMax) (hbl : s'.isEmpty s'.line = true) :
    tokLoop cfg run (k + 1) he s =
      tokLoop cfg run k true { s' with tight := !he, line := s'.line + 1 } := by
  have hskip := skipEmpty_stay s.offs s.lineMax s.line hne
  have hlvl' : ¬ (s.level ≥ cfg.maxNesting) := by omega
  have hind' : liftL (Lines.lineIndent s.offs s.blkIndent s.line) = .ok i := hind
  have hle : 1 ≤ s'.line := by omega
  have hbl' : Lines.isEmpty s'.offs s'.line = true := hbl
  obtain ⟨src, offs, blk, line, lineMax, tight, li, level, nk, ch, refs⟩ := s
  simp only at hlt hne hind' hlvl' hchain hprog hskip
  have hlt2 : ¬ lineMax ≤ line := by omega
  rw [tokLoop]
  simp [hskip, hlt2, BState.lineIndent, hind', hi, hlvl', hchain, afterChain, hprog, psub, hle,
    BState.isEmpty, hlt', hbl', pure, Except.pure, bind, Except.bind]

/-- … where the block reaches the end of the input: the loop ends -/
theorem tokLoop_step_last (cfg : Cfg) (run : RuleId → BState → Bool → Res) (k : Nat) (he : Bool)
    (s s' : BState) (i : Int) (hlt : s.line < s.lineMax) (hne : s.isEmpty s.line = false)
    (hind : s.lineIndent s.line = .ok i) (hi : ¬ i < 0) (hlvl : s.level < cfg.maxNesting)
    (hchain : runChain run cfg.chain s false = .ok (true, s')) (hprog : s'.line > s.line)
    (hlt' : ¬ s'.line < s'.lineMax) :
    tokLoop cfg run (k + 2) he s = .ok { s' with tight := !he } := by
  have hskip := skipEmpty_stay s.offs s.lineMax s.line hne
  have hlvl' : ¬ (s.level ≥ cfg.maxNesting) := by omega
  have hind' : liftL (Lines.lineIndent s.offs s.blkIndent s.line) = .ok i := hind
  have hle : 1 ≤ s'.line := by omega
  have hdone := fun b => tokLoop_done cfg run k b { s' with tight := !he } hlt'
  obtain ⟨src, offs, blk, line, lineMax, tight, li, level, nk, ch, refs⟩ := s
  simp only at hlt hne hind' hlvl' hchain hprog hskip
  have hlt2 : ¬ lineMax ≤ line := by omega
  rw [tokLoop]
  simp [hskip, hlt2, BState.lineIndent, hind', hi, hlvl', hchain, afterChain, hprog, psub, hle,
    hlt', hdone, pure, Except.pure, bind, Except.bind]

/-! ## the run on  D ⏎ ⏎ [k] -/

/-- the paragraph the block pass makes of the third line -/
def usePara (n : Nat) : BNode :=
  ⟨.paragraph, some (n + 2, n + 5), [⟨.inlineRoot ['[', 'k', ']'] [(0, n + 2)], none, []⟩]⟩

section run
variable (cfg : Cfg) (pre post : List RuleId) (hchain : cfg.chain = pre ++ RuleId.reference :: post)
  (hpre : RuleId.paragraph ∉ pre) (hpre' : RuleId.reference ∉ pre)
  (tok : Tok) (test : Test) (fuel : Nat)
include hchain hpre hpre'

/-- the chain at line 0: the rules in front of the reference rule decline, the reference rule stores
    the definition and moves to line 1 -/
theorem runChain_line0 (hs : ThreeLine s D) (hl : s.line = 0)
    (rest : List Char) (hD : D = '[' :: rest)
    (hq : refQuick false rest = true) (htrim : trimStr D = D)
    (raw href : List Nat) (title : Option (List Nat))
    (hparse : refParse cfg D = .ok (some (raw, href, title, 0)))
    (hlab : (Refs.normalize cfg.L cfg.U raw).isEmpty = false) :
    runChain (runRule cfg tok test (fuel + 1)) cfg.chain s false =
      .ok (true, { s with
        refs := Refs.insertFirst s.refs (Refs.normalize cfg.L cfg.U (Refs.normalize cfg.L cfg.U raw))
                  ⟨href, title⟩,
        line := s.line + 0 + 1 }) := by
  have hind0 : s.lineIndent s.line = .ok 0 := by rw [hl]; exact hs.lineIndent0
  have hline0 : s.getLine s.line = .ok ('[' :: rest) := by rw [hl, hs.getLine0, hD]
  have hstop0 : s.line + 1 ≥ s.lineMax ∨ s.isEmpty (s.line + 1) = true :=
    Or.inr (by rw [hl]; exact hs.isEmpty1)
  have hget0 : s.getLines s.line (s.line + 1) s.blkIndent false = .ok (D, [(0, 0)]) := by
    rw [hl, hs.blk]; exact hs.getLines0
  have hfire := runRule_reference_fire cfg tok test fuel s rest D _ hind0 hline0 hstop0 hq hget0
    raw href title 0 (by rw [htrim]; exact hparse) hlab
  have hdecl : ∀ r ∈ pre, runRule cfg tok test (fuel + 1) r s false = .ok (false, s) := fun r hr =>
    runRule_bracket cfg tok test fuel s rest hind0 hline0 hs.li hstop0 r
      (fun h => hpre (h ▸ hr)) (fun h => hpre' (h ▸ hr))
  rw [hchain]
  exact runChain_first _ pre post s _ .reference hfire hdecl

end run

/-- the chain at line 2: every rule but the paragraph rule declines (the reference rule: no `]:`),
    the paragraph rule takes `[k]` -/
theorem runChain_line2 (cfg : Cfg) (hpar : RuleId.paragraph ∈ cfg.chain) (tok : Tok) (test : Test)
    (fuel : Nat) (hs : ThreeLine s D) (hl : s.line = 2) :
    runChain (runRule cfg tok test (fuel + 1)) cfg.chain s false =
      .ok (true, { s with line := s.line + 1, children := s.children ++ [usePara (byteLen D)] }) := by
  have hind : s.lineIndent s.line = .ok 0 := by rw [hl]; exact hs.lineIndent2
  have hline : s.getLine s.line = .ok ('[' :: ['k', ']']) := by rw [hl, hs.getLine2]
  have hstop : s.line + 1 ≥ s.lineMax ∨ s.isEmpty (s.line + 1) = true :=
    Or.inl (by rw [hl, hs.lineMax]; omega)
  have hget : s.getLines s.line (s.line + 1) s.blkIndent false =
      .ok (['[', 'k', ']'], [(0, byteLen D + 2)]) := by
    rw [hl, hs.blk]; exact hs.getLines2
  have hmap : s.getMap s.line s.line = .ok (byteLen D + 2, byteLen D + 5) := by
    rw [hl]; exact hs.getMap2
  have hfire := runRule_paragraph_one cfg tok test fuel s _ _ _ hstop hget hmap
  refine runChain_only _ cfg.chain s _ .paragraph hpar hfire (fun r _ hne => ?_)
  by_cases hr : r = .reference
  · subst hr
    exact runRule_reference_quick cfg tok test (fuel + 1) s ['k', ']'] hind hline (by decide)
  · exact runRule_bracket cfg tok test fuel s ['k', ']'] hind hline hs.li hstop r hne hr

/-- the tokenizer loop from line 0 of  D ⏎ ⏎ [k]: two iterations (definition; blank line skipped with
    `has_empty_lines` set; paragraph), then the end of the input -/
theorem tokLoop_three (cfg : Cfg) (pre post : List RuleId)
    (hchain : cfg.chain = pre ++ RuleId.reference :: post)
    (hpre : RuleId.paragraph ∉ pre) (hpre' : RuleId.reference ∉ pre)
    (hpar : RuleId.paragraph ∈ cfg.chain) (tok : Tok) (test : Test) (f : Nat)
    (hs : ThreeLine s D) (hl : s.line = 0) (hlv : s.level < cfg.maxNesting)
    (rest : List Char) (hD : D = '[' :: rest)
    (hq : refQuick false rest = true) (htrim : trimStr D = D)
    (raw href : List Nat) (title : Option (List Nat))
    (hparse : refParse cfg D = .ok (some (raw, href, title, 0)))
    (hlab : (Refs.normalize cfg.L cfg.U raw).isEmpty = false) :
    tokLoop cfg (runRule cfg tok test (f + 3)) (f + 3) false s =
      .ok { s with
        line := 3,
        refs := Refs.insertFirst s.refs (Refs.normalize cfg.L cfg.U (Refs.normalize cfg.L cfg.U raw))
                  ⟨href, title⟩,
        children := s.children ++ [usePara (byteLen D)],
        tight := false } := by
  have hc0 := runChain_line0 cfg pre post hchain hpre hpre' tok test (f + 2) hs hl rest hD hq htrim
    raw href title hparse hlab
  have hne : D ≠ [] := by rw [hD]; simp
  obtain ⟨s1, hs1⟩ : ∃ s1 : BState, s1 = { s with
      refs := Refs.insertFirst s.refs (Refs.normalize cfg.L cfg.U (Refs.normalize cfg.L cfg.U raw))
                ⟨href, title⟩,
      line := s.line + 0 + 1 } := ⟨_, rfl⟩
  rw [← hs1] at hc0
  have hl1 : s1.line = 1 := by rw [hs1]; show s.line + 0 + 1 = 1; omega
  have h1 : ThreeLine s1 D := by rw [hs1]; exact ⟨hs.src, hs.offs, hs.blk, hs.lineMax, hs.li⟩
  obtain ⟨s2, hs2⟩ : ∃ s2 : BState, s2 = { s1 with tight := !false, line := s1.line + 1 } := ⟨_, rfl⟩
  have step1 : tokLoop cfg (runRule cfg tok test (f + 3)) (f + 3) false s =
      tokLoop cfg (runRule cfg tok test (f + 3)) (f + 2) true s2 := by
    rw [hs2]
    exact tokLoop_step_blank cfg (runRule cfg tok test (f + 3)) (f + 2) false s s1 0
      (by rw [hl, hs.lineMax]; omega) (by rw [hl]; exact hs.isEmpty0 hne)
      (by rw [hl]; exact hs.lineIndent0) (by omega) hlv hc0
      (by rw [hl1, hl]; omega) (by rw [hl1, h1.lineMax]; omega) (by rw [hl1]; exact h1.isEmpty1)
  have h2 : ThreeLine s2 D := by rw [hs2]; exact ⟨h1.src, h1.offs, h1.blk, h1.lineMax, h1.li⟩
  have hl2 : s2.line = 2 := by rw [hs2]; show s1.line + 1 = 2; omega
  have hlv2 : s2.level < cfg.maxNesting := by rw [hs2, hs1]; exact hlv
  have hc2 := runChain_line2 cfg hpar tok test (f + 2) h2 hl2
  have step2 := tokLoop_step_last cfg (runRule cfg tok test (f + 3)) f true s2 _ 0
    (by rw [hl2, h2.lineMax]; omega) (by rw [hl2]; exact h2.isEmpty2)
    (by rw [hl2]; exact h2.lineIndent2) (by omega) hlv2 hc2
    (by show s2.line + 1 > s2.line; omega)
    (by show ¬ s2.line + 1 < s2.lineMax; rw [hl2, h2.lineMax]; omega)
  rw [step1, step2, hs2, hs1]
  obtain ⟨src, offs, blk, line, lineMax, tight, li, level, nk, ch, refs⟩ := s
  simp only at hl
  subst hl
  rfl

theorem insertFirst_nil (k : List Nat) (e : Refs.Entry) : Refs.insertFirst [] k e = [(k, e)] := rfl

/-- the block pass on  D ⏎ ⏎ [k]  where `D` is a one-line reference definition: the definition is
    stored (key = the label normalised twice), no node for it; then one paragraph holding `[k]` -/
theorem parseBlocks_def_use (cfg : Cfg) (pre post : List RuleId)
    (hchain : cfg.chain = pre ++ RuleId.reference :: post)
    (hpre : RuleId.paragraph ∉ pre) (hpre' : RuleId.reference ∉ pre)
    (hpar : RuleId.paragraph ∈ cfg.chain) (hmax : 0 < cfg.maxNesting)
    (D rest : List Char) (hD : D = '[' :: rest) (hnt : NoTerm D)
    (hq : refQuick false rest = true) (htrim : trimStr D = D)
    (raw href : List Nat) (title : Option (List Nat))
    (hparse : refParse cfg D = .ok (some (raw, href, title, 0)))
    (hlab : (Refs.normalize cfg.L cfg.U raw).isEmpty = false) :
    parseBlocks cfg (D ++ ['\n', '\n', '[', 'k', ']']) =
      .ok (⟨.root, some (0, byteLen D + 5),
             [⟨.paragraph, some (byteLen D + 2, byteLen D + 5),
               [⟨.inlineRoot ['[', 'k', ']'] [(0, byteLen D + 2)], none, []⟩]⟩]⟩,
           [(Refs.normalize cfg.L cfg.U (Refs.normalize cfg.L cfg.U raw), ⟨href, title⟩)]) := by
  obtain ⟨f, hf⟩ : ∃ f, fuelFor cfg (D ++ ['\n', '\n', '[', 'k', ']']) = f + 3 :=
    ⟨(Lines.splitLines (D ++ ['\n', '\n', '[', 'k', ']'])).length +
        min cfg.maxNesting (byteLen (D ++ ['\n', '\n', '[', 'k', ']'])) + 5, by
      unfold fuelFor; omega⟩
  have hs := fresh_threeLine D rest hD hnt .root []
  have htok := tokLoop_three cfg pre post hchain hpre hpre' hpar (engine cfg (f + 2)).1
    (engine cfg (f + 2)).2 f hs rfl (by show 0 < _; exact hmax) rest hD hq htrim raw href title
    hparse hlab
  have hlen : byteLen (D ++ ['\n', '\n', '[', 'k', ']']) = byteLen D + 5 := by
    rw [Lines.byteLen_append]; rfl
  unfold parseBlocks tokenize
  rw [hf, show (engine cfg (f + 3)).1 = tokLoop cfg (runRule cfg (engine cfg (f + 2)).1
    (engine cfg (f + 2)).2 (f + 3)) (f + 3) false from rfl, htok, hlen]
  rfl

/-! ## the hypotheses are satisfiable -/

/-- the block view of the example configuration (`(Pipeline.exCfg false 100).blockCfg`, field by
    field: stock chain, one-row entity table, ASCII case tables) -/
def exBlockCfg : Cfg :=
  { maxNesting := 100,
    chain := [.code, .fence, .blockquote, .hr, .list, .reference, .heading, .lheading, .paragraph],
    lookup := fun s => if s = ['&', 'a', 'm', 'p', ';'] then some ['&'] else none,
    L := fun c => [if 65 ≤ c ∧ c ≤ 90 then c + 32 else c],
    U := fun c => [if 97 ≤ c ∧ c ≤ 122 then c - 32 else c] }

theorem ok_of_toOption {ε α : Type} {x : Except ε α} {a : α} (h : x.toOption = some a) : x = .ok a := by
  cases x with
  | error e => simp [Except.toOption] at h
  | ok b => simp [Except.toOption] at h; rw [h]

/-- `[k]: /u ⏎ ⏎ [k]` under the stock chain: every hypothesis of `parseBlocks_def_use` holds -/
example :
    parseBlocks exBlockCfg (['[', 'k', ']', ':', ' ', '/', 'u'] ++ ['\n', '\n', '[', 'k', ']']) =
      .ok (⟨.root, some (0, 12),
             [⟨.paragraph, some (9, 12), [⟨.inlineRoot ['[', 'k', ']'] [(0, 9)], none, []⟩]⟩]⟩,
           [([75], ⟨[47, 117], none⟩)]) :=
  parseBlocks_def_use exBlockCfg [.code, .fence, .blockquote, .hr, .list] [.heading, .lheading, .paragraph]
    rfl (by decide) (by decide) (by decide) (by decide)
    ['[', 'k', ']', ':', ' ', '/', 'u'] ['k', ']', ':', ' ', '/', 'u'] rfl
    (by unfold NoTerm; decide) (by decide) (by decide +kernel)
    [107] [47, 117] none (ok_of_toOption (by decide +kernel)) (by decide +kernel)

/-- the quick check is what keeps the reference rule off the paragraph line `[k]` -/
example : refQuick false ['k', ']'] = false := by decide

end MdIt.Block.C12D
