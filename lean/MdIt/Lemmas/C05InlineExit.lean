/-
  C05, inline half — where the inline tokenizer STOPS.

  `Inline.inline_children_ordered` (Props/Inline.lean §3) places the children `parseInline` returns
  inside `[tr pos₀, tr pos_end]` with `pos₀ = (trimSrc content).1` and `pos_end` the cursor of the
  final state, but says nothing about `pos_end`.  Here:

    * `parseInline_ranges_exact` — `pos_end = (trimSrc content).2` EXACTLY (the loop stops at or
                              behind `pos_max`, and the cursor of the top-level frame never runs
                              past it): the children lie inside `[tr pos₀, tr pos_max]`;
    * `parseInline_ranges`  — the requested form: `∃ pos_end, pos₀ ≤ pos_end ≤ (trimSrc content).2 …`;
    * `parseInline_within`  — hence the children lie inside every `[A, B]` that contains the
                              translation of every inline offset of the trimmed window;
    * `pinl_of_mapOK`       — the same as `MdIt.Pipeline.PInl` (Lemmas/C05InlineDefs.lean);
    * `parseFinish_within`  — the same behind the post pass (`finish`).

  All hold for EVERY configuration and every successful run (no no-panic hypothesis, no fuel
  bound, multi-byte emphasis markers included).

  How the bound is obtained (helpers `c05x_*`): a small induction over the TOP-LEVEL loop only.
  One iteration keeps `pos ≤ posMax`, because
    * a rule without look-ahead recursion that answers `some len` has sliced
      `src[pos..posMax]` successfully, and `len` is at most the byte length of that window
      (`inline_rule_progress_<rule>`; for the emphasis marker rule `len` is a number of CHARACTERS
      of the window, `≤` its byte length whatever the width of the marker);
    * the entity rule matches against `src[pos..]`, NOT the window — it can overshoot `posMax` in
      general (`example` below) — but behind the `posMax` of the top-level frame there are only
      blanks (`trim_src`), which cannot continue a reference (`EntStop`, from `init_good`);
    * the link / image rule continues at `result.end`, which is behind a `)` / `]` the label / tail
      scan has sliced out of `src[..posMax]` (`linkRule_bounds`), whatever the nested `tokenize`
      run on the label did to `pos` — so NO statement about the nested frames (where the memo of
      `skip_token` may hold positions computed under another `posMax`) is needed;
    * the fall-back pushes the first character of the window.
  `posMax`, `src`, `srcmap` of the frame are restored by every rule.
-/
import MdIt.Props.Inline
import MdIt.Lemmas.C05InlineDefs

namespace MdIt.Inline
open MdIt.InlineOps (Srcmap getSourcePosFor getMap byteLen slice)
open MdIt.C05 (WFMap MonoMap byteLen_append slice_ok_iff)

/-! ## helpers: one rule -/

theorem c05x_runLen_le (m : Char) (l : List Char) : CodePair.runLen m l ≤ byteLen l := by
  induction l with
  | nil => simp [CodePair.runLen, byteLen]
  | cons c r ih =>
    have := Char.utf8Size_pos c
    unfold CodePair.runLen
    split <;> simp only [byteLen] <;> omega

/-- a successfully sliced window gives the invariant the per-rule progress lemmas need -/
theorem c05x_inv_of_slice {st : IState} {w : List Char}
    (hw : slice st.src st.pos st.posMax = .ok w) (hlt : st.pos < st.posMax)
    (hwf : WFMap st.srcmap) : InlineInv st := by
  obtain ⟨b1, b2, _⟩ := slice_boundaries hw
  exact ⟨hlt, b1, b2, hwf⟩

/-- from "the rule answers something that `Advances`" to the bound for THE answer -/
theorem c05x_adv_end {st st' : IState} {len : Nat} {r : SRes}
    (hex : ∃ o2 st2, r = .ok (o2, st2) ∧ Advances st o2) (h : r = .ok (some len, st')) :
    st.pos + len ≤ st.posMax := by
  obtain ⟨o2, st2, h2, hadv⟩ := hex
  rw [h] at h2
  simp only [Except.ok.injEq, Prod.mk.injEq] at h2
  obtain ⟨rfl, _⟩ := h2
  exact (hadv len rfl).2.1

theorem c05x_text_end {st st' : IState} {silent : Bool} {len : Nat} (hlt : st.pos < st.posMax)
    (hwf : WFMap st.srcmap) (h : ruleText st silent = .ok (some len, st')) :
    st'.pos + len ≤ st.posMax := by
  rw [(ruleText_simple h).pos]
  cases hw : st.window with
  | error e => unfold ruleText at h; rw [hw] at h; simp at h
  | ok w =>
    exact c05x_adv_end (inline_rule_progress_text (c05x_inv_of_slice (window_eq hw) hlt hwf) silent) h

theorem c05x_escape_end {st st' : IState} {silent : Bool} {len : Nat} (hlt : st.pos < st.posMax)
    (hwf : WFMap st.srcmap) (h : ruleEscape st silent = .ok (some len, st')) :
    st'.pos + len ≤ st.posMax := by
  rw [(ruleEscape_simple h).pos]
  cases hw : st.window with
  | error e => unfold ruleEscape at h; rw [hw] at h; simp at h
  | ok w =>
    exact c05x_adv_end (inline_rule_progress_escape (c05x_inv_of_slice (window_eq hw) hlt hwf) silent) h

theorem c05x_autolink_end {st st' : IState} {silent : Bool} {len : Nat} (hlt : st.pos < st.posMax)
    (hwf : WFMap st.srcmap) (h : ruleAutolink st silent = .ok (some len, st')) :
    st'.pos + len ≤ st.posMax := by
  rw [(ruleAutolink_simple h).pos]
  cases hw : st.window with
  | error e => unfold ruleAutolink at h; rw [hw] at h; simp at h
  | ok w =>
    exact c05x_adv_end (inline_rule_progress_autolink (c05x_inv_of_slice (window_eq hw) hlt hwf) silent) h

/-- the entity rule: needs `EntStop` (its regexes see `src[pos..]`) -/
theorem c05x_entity_end {cfg : Cfg} {st st' : IState} {silent : Bool} {len : Nat}
    (hlt : st.pos < st.posMax) (hwf : WFMap st.srcmap) (hstop : EntStop st.src st.posMax)
    (h : ruleEntity cfg st silent = .ok (some len, st')) : st'.pos + len ≤ st.posMax := by
  rw [(ruleEntity_simple h).pos]
  cases hw : st.window with
  | error e => unfold ruleEntity at h; rw [hw] at h; simp at h
  | ok w =>
    exact c05x_adv_end
      (inline_rule_progress_entity cfg (c05x_inv_of_slice (window_eq hw) hlt hwf) hstop silent) h

/-- the newline rule: the verdict is a function of the window, so the look-ahead progress lemma
    (which needs no `TrailOK`) bounds the real-mode answer too -/
theorem c05x_newline_end {st st' : IState} {silent : Bool} {len : Nat} (hlt : st.pos < st.posMax)
    (hwf : WFMap st.srcmap) (h : ruleNewline st silent = .ok (some len, st')) :
    st'.pos + len ≤ st.posMax := by
  rw [(ruleNewline_simple h).pos]
  cases hw : st.window with
  | error e => unfold ruleNewline at h; rw [hw] at h; simp at h
  | ok w =>
    cases w with
    | nil => unfold ruleNewline at h; rw [hw] at h; simp at h
    | cons c rest =>
      have hi := c05x_inv_of_slice (window_eq hw) hlt hwf
      obtain ⟨o2, st2, h2, hadv⟩ := inline_rule_progress_newline hi true (by simp)
      have v1 := ruleNewline_verdict hw h
      have v2 := ruleNewline_verdict hw h2
      have e : o2 = some len := by rw [v2, ← v1]
      exact (hadv len e).2.1

theorem c05x_backticks_end {st st' : IState} {silent : Bool} {len : Nat} (hlt : st.pos < st.posMax)
    (hwf : WFMap st.srcmap) (h : ruleBackticks st silent = .ok (some len, st')) :
    st'.pos + len ≤ st.posMax := by
  rw [(ruleBackticks_simple h).pos]
  cases hs : CodePair.slice st.src st.pos st.posMax with
  | none => unfold ruleBackticks CodePair.run at h; rw [hs] at h; simp at h
  | some w =>
    have hw := (codeSlice_eq _ _ _ _).mp hs
    exact c05x_adv_end (inline_rule_progress_backticks (c05x_inv_of_slice hw hlt hwf) silent) h

/-- the emphasis-marker rule, ANY marker: the answer is the number of characters of the run, which
    is at most the byte length of the window (for a multi-byte marker the cursor may land inside a
    character, but never behind `posMax`) -/
theorem c05x_emph_end {cfg : Cfg} {mk : Char} {csw : Bool} {st st' : IState} {silent : Bool}
    {len : Nat} (h : ruleEmph cfg mk csw st silent = .ok (some len, st')) :
    st'.pos + len ≤ st.posMax := by
  rw [(ruleEmph_simple h).pos]
  unfold ruleEmph at h
  split at h
  · simp at h
  · split at h
    · simp at h
    · simp at h
    · next c w1 hw =>
      split at h
      · simp at h
      · split at h
        · simp at h
        · next scanned hsc =>
          obtain ⟨mk', rest, hsl, _, hlen⟩ := scanDelims_length hsc
          have hsl' : slice st.src st.pos st.posMax = .ok (mk' :: rest) := liftOps_ok.mp hsl
          have hfin : len = scanned.length := by
            split at h
            · simp at h
            · simp only at h
              split at h
              · split at h
                · simp at h
                · simp only [Except.ok.injEq, Prod.mk.injEq, Option.some.injEq] at h; exact h.1.symm
              · simp only [Except.ok.injEq, Prod.mk.injEq, Option.some.injEq] at h; exact h.1.symm
          obtain ⟨_, _, hlen2⟩ := slice_boundaries hsl'
          have h1 := c05x_runLen_le mk' rest
          have h2 := Char.utf8Size_pos mk'
          simp only [byteLen] at hlen2
          omega

/-- the link / image rule restores `posMax` -/
theorem c05x_linkRule_posMax {cfg : Cfg} {skip tok : IState → Except Panic IState} (hq : CalmFn skip)
    {fuel : Nat} {mk : List Nat → Option (List Char) → Val} {en : Bool} {offset : Nat} {st : IState}
    {silent : Bool} {o : Option Nat} {st' : IState}
    (h : linkRule cfg skip tok fuel mk en offset st silent = .ok (o, st')) : st'.posMax = st.posMax := by
  unfold linkRule at h
  simp only at h
  split at h
  · simp at h
  · next st1 hpl =>
    simp only [Except.ok.injEq, Prod.mk.injEq] at h; rw [← h.2]; exact (parseLink_calm hq hpl).posMax
  · next res st1 hpl =>
    have hc := parseLink_calm hq hpl
    split at h
    · split at h
      · simp at h
      · simp only [Except.ok.injEq, Prod.mk.injEq] at h; rw [← h.2]; exact hc.posMax
    · split at h
      · simp at h
      · split at h
        · simp at h
        · split at h
          · simp at h
          · split at h
            · simp at h
            · simp only [Except.ok.injEq, Prod.mk.injEq] at h; rw [← h.2]; exact hc.posMax

/-- what one rule call (or the chain) leaves: the same `posMax`, and a continuation inside it -/
structure C05xStep (st : IState) (o : Option Nat) (st' : IState) : Prop where
  posMax : st'.posMax = st.posMax
  fin : ∀ len, o = some len → st'.pos + len ≤ st.posMax

theorem c05x_xstep_simple {st st' : IState} {silent : Bool} {o : Option Nat}
    (hs : Simple st silent o st') (hfin : ∀ len, o = some len → st'.pos + len ≤ st.posMax) :
    C05xStep st o st' := ⟨hs.frame.posMax, hfin⟩

/-- **one rule** in either mode, any `tok`, any calm `skip` -/
theorem c05x_runRule_end {cfg : Cfg} {skip tok : IState → Except Panic IState} (hq : CalmFn skip)
    {fuel : Nat} {id : RuleId} {st : IState} {silent : Bool} {o : Option Nat} {st' : IState}
    (hlt : st.pos < st.posMax) (hwf : WFMap st.srcmap) (hstop : EntStop st.src st.posMax)
    (h : runRule cfg skip tok fuel id st silent = .ok (o, st')) : C05xStep st o st' := by
  unfold runRule at h
  cases id with
  | text =>
    have h' := liftR_ok.mp h
    exact c05x_xstep_simple (ruleText_simple h') (by intro len hl; subst hl; exact c05x_text_end hlt hwf h')
  | newline =>
    have h' := liftR_ok.mp h
    exact c05x_xstep_simple (ruleNewline_simple h')
      (by intro len hl; subst hl; exact c05x_newline_end hlt hwf h')
  | escape =>
    have h' := liftR_ok.mp h
    exact c05x_xstep_simple (ruleEscape_simple h')
      (by intro len hl; subst hl; exact c05x_escape_end hlt hwf h')
  | backticks =>
    have h' := liftR_ok.mp h
    exact c05x_xstep_simple (ruleBackticks_simple h')
      (by intro len hl; subst hl; exact c05x_backticks_end hlt hwf h')
  | emph mk csw =>
    have h' := liftR_ok.mp h
    exact c05x_xstep_simple (ruleEmph_simple h') (by intro len hl; subst hl; exact c05x_emph_end h')
  | link =>
    simp only at h
    unfold ruleLink at h
    split at h
    · simp at h
    · simp at h
    · split at h
      · simp only [Except.ok.injEq, Prod.mk.injEq] at h; obtain ⟨rfl, rfl⟩ := h
        exact ⟨rfl, by intro len hl; simp at hl⟩
      · exact ⟨c05x_linkRule_posMax hq h, by intro len hl; subst hl; exact (linkRule_bounds hq h).1⟩
  | image =>
    simp only at h
    unfold ruleImage at h
    split at h
    · simp at h
    · exact ⟨c05x_linkRule_posMax hq h, by intro len hl; subst hl; exact (linkRule_bounds hq h).1⟩
    · simp only [Except.ok.injEq, Prod.mk.injEq] at h; obtain ⟨rfl, rfl⟩ := h
      exact ⟨rfl, by intro len hl; simp at hl⟩
  | linkEnd =>
    simp only [Except.ok.injEq, Prod.mk.injEq] at h; obtain ⟨rfl, rfl⟩ := h
    exact ⟨rfl, by intro len hl; simp at hl⟩
  | autolink =>
    have h' := liftR_ok.mp h
    exact c05x_xstep_simple (ruleAutolink_simple h')
      (by intro len hl; subst hl; exact c05x_autolink_end hlt hwf h')
  | entity =>
    have h' := liftR_ok.mp h
    exact c05x_xstep_simple (ruleEntity_simple h')
      (by intro len hl; subst hl; exact c05x_entity_end hlt hwf hstop h')

/-! ## helpers: the chain, one iteration, the top-level loop -/

theorem c05x_firstRule_end {run : RuleId → IState → RuleRes} {lo : Nat}
    (hrun : ∀ id s o s', MapOK s.src s.srcmap → RInv lo s → run id s = .ok (o, s') → StepOK lo s o s')
    (hend : ∀ id s o s', s.pos < s.posMax → WFMap s.srcmap → EntStop s.src s.posMax →
      run id s = .ok (o, s') → C05xStep s o s') :
    ∀ (rules : List RuleId) (st : IState) (o : Option Nat) (st' : IState),
      MapOK st.src st.srcmap → RInv lo st → st.pos < st.posMax → EntStop st.src st.posMax →
      firstRule run rules st = .ok (o, st') → C05xStep st o st' := by
  intro rules
  induction rules with
  | nil =>
    intro st o st' _ _ _ _ h
    simp only [firstRule, Except.ok.injEq, Prod.mk.injEq] at h; obtain ⟨rfl, rfl⟩ := h
    exact ⟨rfl, by intro len hl; simp at hl⟩
  | cons r rs ih =>
    intro st o st' hm hi hlt hstop h
    unfold firstRule at h
    split at h
    · simp at h
    · next n st1 hr =>
      simp only [Except.ok.injEq, Prod.mk.injEq] at h; obtain ⟨rfl, rfl⟩ := h
      exact hend _ _ _ _ hlt hm.wf hstop hr
    · next st1 hr =>
      have s1 := hrun _ _ _ _ hm hi hr
      have x1 := hend _ _ _ _ hlt hm.wf hstop hr
      have hi1 : RInv lo st1 := by
        have := s1.ri
        simp only [Option.getD_none, Nat.add_zero] at this
        unfold RInv; rw [s1.src, s1.srcmap]; exact this
      have hm1 : MapOK st1.src st1.srcmap := by rw [s1.src, s1.srcmap]; exact hm
      have hlt1 : st1.pos < st1.posMax := by rw [s1.pos rfl, x1.posMax]; exact hlt
      have hstop1 : EntStop st1.src st1.posMax := by rw [s1.src, x1.posMax]; exact hstop
      have x2 := ih st1 o st' hm1 hi1 hlt1 hstop1 h
      exact ⟨x2.posMax.trans x1.posMax, by intro len hl; rw [← x1.posMax]; exact x2.fin len hl⟩

/-- **one iteration of the tokenizer loop** entered with `pos < posMax`: the frame invariant of
    `tokStep_ranges`, the same `posMax`, and the cursor still inside the window -/
theorem c05x_tokStep_end {cfg : Cfg} {skip tok : IState → Except Panic IState} (hq : CalmFn skip)
    (ht : RangesFn tok) {fuel : Nat} {lo : Nat} {st st' : IState} (hm : MapOK st.src st.srcmap)
    (hi : RInv lo st) (hlt : st.pos < st.posMax) (hstop : EntStop st.src st.posMax)
    (h : tokStep cfg skip tok fuel st = .ok st') :
    st'.posMax = st.posMax ∧ st'.pos ≤ st.posMax := by
  have hok : ∀ o st1, (if st.level < cfg.maxNesting then
        firstRule (fun id s => runRule cfg skip tok fuel id s false) cfg.chain st
      else .ok (none, st)) = .ok (o, st1) → C05xStep st o st1 ∧ StepOK lo st o st1 := by
    intro o st1 hh
    split at hh
    · exact ⟨c05x_firstRule_end (fun id s o s' hms his hr => runRule_ranges hq ht hms his hr)
          (fun id s o s' hl hw hs hr => c05x_runRule_end hq hl hw hs hr) _ _ _ _ hm hi hlt hstop hh,
        firstRule_ranges (fun id s o s' hms his hr => runRule_ranges hq ht hms his hr) _ _ _ _ hm hi hh⟩
    · simp only [Except.ok.injEq, Prod.mk.injEq] at hh; obtain ⟨rfl, rfl⟩ := hh
      exact ⟨⟨rfl, by intro len hl; simp at hl⟩, stepOK_calm hi (Calm.refl _) rfl⟩
  unfold tokStep at h
  simp only at h
  split at h
  · simp at h
  · next len st1 hr =>
    simp only [Except.ok.injEq] at h; subst h
    obtain ⟨x1, _⟩ := hok _ _ hr
    exact ⟨x1.posMax, x1.fin len rfl⟩
  · next st1 hr =>
    obtain ⟨x1, s1⟩ := hok _ _ hr
    split at h
    · simp at h
    · next ch hch =>
      split at h
      · simp at h
      · next st2 hp =>
        simp only [Except.ok.injEq] at h; subst h
        obtain ⟨cs, _, rfl⟩ := pushText_eq (liftR_ok.mp hp)
        refine ⟨x1.posMax, ?_⟩
        -- the first character of the window lies inside the window
        unfold firstChar at hch
        split at hch
        · simp at hch
        · simp at hch
        · next c rest hw =>
          simp only [Except.ok.injEq] at hch; subst hch
          obtain ⟨_, _, hl⟩ := slice_boundaries (window_eq (liftR_ok.mp hw))
          simp only [byteLen] at hl
          rw [← x1.posMax]
          show st1.pos + c.utf8Size ≤ st1.posMax
          omega

/-- **the loop of one frame**: started with `pos ≤ posMax` and a loop bound `e ≤ posMax`, under
    `EntStop` at `posMax`, every successful run ends with `pos ≤ posMax` (and keeps the frame
    invariant of `ranges_induction`).  The nested runs on link labels are covered by
    `ranges_induction`; nothing about their final cursor is needed. -/
theorem c05x_tokLoop_end (cfg : Cfg) : ∀ fuel : Nat,
    ∀ (e lo : Nat) (st st' : IState), MapOK st.src st.srcmap → RInv lo st → e ≤ st.posMax →
      st.pos ≤ st.posMax → EntStop st.src st.posMax → tokLoop cfg fuel e st = .ok st' →
      st'.pos ≤ st.posMax ∧ st'.posMax = st.posMax ∧ st'.src = st.src ∧ st'.srcmap = st.srcmap ∧
        RInv lo st' := by
  intro fuel
  induction fuel with
  | zero =>
    intro e lo st st' hm hi he hle hstop h
    unfold tokLoop at h
    split at h
    · simp at h
    · simp only [Except.ok.injEq] at h; subst h; exact ⟨hle, rfl, rfl, rfl, hi⟩
  | succ f ih =>
    intro e lo st st' hm hi he hle hstop h
    unfold tokLoop at h
    split at h
    · next hlt =>
      simp only at h
      split at h
      · simp at h
      · next st1 hstep =>
        have ht : RangesFn (fun s => tokLoop cfg f s.posMax s) :=
          fun lo s s' hms hr his => ranges_induction cfg f _ lo s s' hms hr his
        obtain ⟨a, b, c⟩ := tokStep_ranges (skipToken_calm cfg f) ht hm hi hstep
        obtain ⟨p1, p2⟩ := c05x_tokStep_end (skipToken_calm cfg f) ht hm hi (by omega) hstop hstep
        have hm1 : MapOK st1.src st1.srcmap := by rw [a, b]; exact hm
        obtain ⟨q1, q2, q3, q4, q5⟩ := ih e lo st1 st' hm1 c (by rw [p1]; exact he)
          (by rw [p1]; exact p2) (by rw [a, p1]; exact hstop) h
        exact ⟨by rw [← p1]; exact q1, q2.trans p1, q3.trans a, q4.trans b, q5⟩
    · simp only [Except.ok.injEq] at h; subst h; exact ⟨hle, rfl, rfl, rfl, hi⟩

/-- the loop only stops at or behind its bound -/
theorem c05x_tokLoop_exit (cfg : Cfg) : ∀ fuel : Nat, ∀ (e : Nat) (st st' : IState),
    tokLoop cfg fuel e st = .ok st' → e ≤ st'.pos := by
  intro fuel
  induction fuel with
  | zero =>
    intro e st st' h
    unfold tokLoop at h
    split at h
    · simp at h
    · simp only [Except.ok.injEq] at h; subst h; omega
  | succ f ih =>
    intro e st st' h
    unfold tokLoop at h
    split at h
    · simp only at h
      split at h
      · simp at h
      · exact ih _ _ _ h
    · simp only [Except.ok.injEq] at h; subst h; omega

/-! ## the theorems -/

/-- **`parseInline`: the cursor stops exactly at `pos_max`, and the children are ordered inside the
    translated trimmed window.**  For a per-line table that is `MapOK` and EVERY successful run of
    the inline parser (any configuration): the final state has `pos = posMax = (trimSrc content).2`,
    and the children lie, in order and without overlap, inside
    `[tr (trimSrc content).1, tr (trimSrc content).2]`, every node well ranged. -/
theorem parseInline_ranges_exact (cfg : Cfg) {content : List Char} {mapping : Srcmap}
    (hm : MapOK content mapping) {cs : List Node} (h : parseInline cfg content mapping = .ok cs) :
    (trimSrc content).1 ≤ (trimSrc content).2 ∧
    ∃ lo hi, getSourcePosFor mapping (trimSrc content).1 = .ok lo ∧
      getSourcePosFor mapping (trimSrc content).2 = .ok hi ∧
      OrderedN lo hi cs ∧ WellRangedList cs ∧
      ∃ st, tokenize cfg (topFuel cfg content) (IState.init content mapping) = .ok st ∧
        st.children = cs ∧ st.pos = (trimSrc content).2 ∧ st.posMax = (trimSrc content).2 := by
  unfold parseInline at h
  split at h
  · simp at h
  · next st hst0 =>
    have hst := hst0
    unfold tokenize at hst
    simp only [Except.ok.injEq] at h; subst h
    obtain ⟨lo, hlo, hg⟩ := init_good hm
    obtain ⟨q1, q2, _, q4, hri⟩ := c05x_tokLoop_end cfg _ _ lo _ _ hg.map hg.ri (Nat.le_refl _)
      hg.le hg.stop hst
    have q0 := c05x_tokLoop_exit cfg _ _ _ _ hst
    have epos : st.pos = (trimSrc content).2 := Nat.le_antisymm q1 q0
    obtain ⟨hi, hhi, hord⟩ := hri.ord
    have e1 : st.srcmap = mapping := q4
    rw [e1, epos] at hhi
    exact ⟨hg.le, lo, hi, hlo, hhi, hord, hri.deep, st, hst0, rfl, epos, q2⟩

/-- **`parseInline`: ordered ranges inside the translated trimmed window, and where the cursor
    stops.**  For a per-line table that is `MapOK` and EVERY successful run of the inline parser
    (any configuration): with `pos₀ = (trimSrc content).1`, `posMax = (trimSrc content).2` there is
    `posEnd` (the cursor of the final state; in fact `posEnd = posMax`, see
    `parseInline_ranges_exact`) with `pos₀ ≤ posEnd ≤ posMax` such that the children lie, in order
    and without overlap, inside `[tr pos₀, tr posEnd]`, every node well ranged. -/
theorem parseInline_ranges (cfg : Cfg) {content : List Char} {mapping : Srcmap}
    (hm : MapOK content mapping) {cs : List Node} (h : parseInline cfg content mapping = .ok cs) :
    ∃ lo hi posEnd, getSourcePosFor mapping (trimSrc content).1 = .ok lo ∧
      getSourcePosFor mapping posEnd = .ok hi ∧
      (trimSrc content).1 ≤ posEnd ∧ posEnd ≤ (trimSrc content).2 ∧
      OrderedN lo hi cs ∧ WellRangedList cs := by
  obtain ⟨hle, lo, hi, h1, h2, h3, h4, _⟩ := parseInline_ranges_exact cfg hm h
  exact ⟨lo, hi, (trimSrc content).2, h1, h2, hle, Nat.le_refl _, h3, h4⟩

/-- **The children `parseInline` returns lie inside every interval that contains the translated
    trimmed window.**  (`A`, `B`: e.g. the content stretch of the block the inline text was cut
    from.) -/
theorem parseInline_within (cfg : Cfg) {content : List Char} {mapping : Srcmap}
    (hm : MapOK content mapping) {A B : Nat}
    (hAB : ∀ pos x, (trimSrc content).1 ≤ pos → pos ≤ (trimSrc content).2 →
      getSourcePosFor mapping pos = .ok x → A ≤ x ∧ x ≤ B)
    {cs : List Node} (h : parseInline cfg content mapping = .ok cs) :
    OrderedN A B cs ∧ WellRangedList cs := by
  obtain ⟨lo, hi, pe, h1, h2, h3, h4, h5, h6⟩ := parseInline_ranges cfg hm h
  exact ⟨h5.widen (hAB _ _ (Nat.le_refl _) (by omega) h1).1 (hAB _ _ h3 h4 h2).2, h6⟩

/-- the same in the form the splice walk of the pipeline consumes (`Lemmas/C05InlineDefs.lean`) -/
theorem pinl_of_mapOK (cfg : Cfg) {content : List Char} {mapping : Srcmap}
    (hm : MapOK content mapping) {A B : Nat}
    (hAB : ∀ pos x, (trimSrc content).1 ≤ pos → pos ≤ (trimSrc content).2 →
      getSourcePosFor mapping pos = .ok x → A ≤ x ∧ x ≤ B) :
    MdIt.Pipeline.PInl cfg content mapping A B :=
  fun _ h => parseInline_within cfg hm hAB h

/-- the same for the output of `finish` (the post pass keeps order and enclosure) -/
theorem parseFinish_within (cfg : Cfg) {content : List Char} {mapping : Srcmap}
    (hm : MapOK content mapping) {A B : Nat}
    (hAB : ∀ pos x, (trimSrc content).1 ≤ pos → pos ≤ (trimSrc content).2 →
      getSourcePosFor mapping pos = .ok x → A ≤ x ∧ x ≤ B)
    {cs : List Node} (h : parseFinish cfg content mapping = .ok cs) :
    OrderedN A B cs ∧ WellRangedList cs := by
  unfold parseFinish at h
  split at h
  · simp at h
  · next cs0 hp =>
    simp only [Except.ok.injEq] at h; subst h
    have h0 := parseInline_within cfg hm hAB hp
    unfold finish
    split
    · exact od_finish_join h0
    · exact h0

/-! ## non-vacuity, and why `EntStop` is needed for a frame -/

/-- (for the example) a translated offset, if any, is `≤ B` -/
def c05x_okLe (r : Except InlineOps.Panic Nat) (B : Nat) : Bool :=
  match r with
  | .ok y => decide (y ≤ B)
  | .error _ => true

-- `parseInline_within` on the two-line text of `exMapOK` (second line behind a 2-byte block-quote
-- marker in the source: inline offsets 0..7, source offsets 0..9): the run succeeds with four
-- children, which lie in order inside `[0, 9]`
example : ∃ cs, parseInline (exCfg 100) "a *b*\nc".toList [(0, 0), (6, 8)] = .ok cs ∧
    cs.length = 4 ∧ OrderedN 0 9 cs ∧ WellRangedList cs := by
  have hrun : (match parseInline (exCfg 100) "a *b*\nc".toList [(0, 0), (6, 8)] with
      | .ok cs => cs.length == 4
      | .error _ => false) = true := by decide +kernel
  split at hrun
  · next cs hcs =>
    refine ⟨cs, hcs, by simpa using hrun, parseInline_within (exCfg 100) exMapOK ?_ hcs⟩
    intro pos x _ h2 hx
    have e2 : (trimSrc "a *b*\nc".toList).2 = 7 := by decide +kernel
    rw [e2] at h2
    have key : ∀ p, p < 8 → c05x_okLe (getSourcePosFor [(0, 0), (6, 8)] p) 9 = true := by
      decide +kernel
    have hk := key pos (by omega)
    rw [hx] at hk
    simp only [c05x_okLe, decide_eq_true_eq] at hk
    omega
  · simp at hrun

-- the trimmed window really is smaller than the text: blanks at both ends are outside
-- `[pos₀, posMax]`, and the entity reference directly before the trailing blanks ends AT `posMax`
example : trimSrc " a&amp; \t".toList = (1, 7) ∧
    (parseInline (exCfg 100) " a&amp; \t".toList [(0, 0)]).map (fun cs => cs.map (·.range)) =
      .ok [some (1, 2), some (2, 7)] := by decide +kernel

-- `EntStop` is needed for the frame-level statement `c05x_tokLoop_end`: a frame whose `posMax`
-- lies INSIDE a reference (not producible by `trim_src`, whose `posMax` is followed by blanks only,
-- nor by a link label, whose `posMax` is a `]`) ends with the cursor behind `posMax`, because the
-- entity rule matches against `src[pos..]`
example : (tokenize (exCfg 100) 50 { IState.init "a&amp;b".toList [(0, 0)] with posMax := 3 }).map
    (fun s => (s.pos, s.posMax)) = .ok (6, 3) := by decide +kernel

end MdIt.Inline
