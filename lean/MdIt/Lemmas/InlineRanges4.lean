/-
  Helper development for `Props/Inline.lean`: source ranges, part 4 — the newline rule
  (`trailing_text_pop` of the blanks before the line feed, then the break node).
-/
import MdIt.Lemmas.InlineRanges3

namespace MdIt.Inline
open MdIt.InlineOps (Srcmap getSourcePosFor getMap byteLen slice)
open MdIt.C05 (WFMap MonoMap byteLen_append slice_ok_iff)

/-- what `trailing_text_pop(tail)` does when `tail` is the number of trailing blanks of the
    trailing text -/
theorem pop_tail_cases {cs out : List Node}
    (h : trailingTextPop cs (tailSpaces (trailingTextGet cs)) = .ok out) :
    (tailSpaces (trailingTextGet cs) = 0 ∧ out = cs) ∨
    (∃ init last pre, cs = init ++ [last] ∧ last.isText = true ∧
      0 < tailSpaces last.content ∧ trailingTextGet cs = last.content ∧
      last.content = pre ++ List.replicate (tailSpaces last.content) ' ' ∧
      ((pre = [] ∧ out = init) ∨
       (pre ≠ [] ∧ ∃ a b, last.range = some (a, b) ∧ tailSpaces last.content ≤ b ∧
          out = init ++ [Node.mk (.text pre) (some (a, b - tailSpaces last.content)) last.children]) ∨
       (pre ≠ [] ∧ last.range = none ∧ out = init ++ [Node.mk (.text pre) none last.children]))) := by
  unfold trailingTextPop at h
  split at h
  · next h0 => simp only [Except.ok.injEq] at h; left; exact ⟨h0, h.symm⟩
  · next h0 =>
    right
    rcases popLast_spec cs with ⟨hp, _⟩ | ⟨init, last, hp, hcs⟩
    · rw [hp] at h; simp at h
    · rw [hp] at h
      simp only at h
      have hget : trailingTextGet cs = if last.isText then last.content else [] := by
        unfold trailingTextGet; rw [hp]
      by_cases ht : last.isText = true
      · simp only [ht, if_true] at hget
        rw [hget] at h h0
        simp only [ht, Bool.not_true, Bool.false_eq_true, if_false] at h
        obtain ⟨pre, hpre⟩ := tailSpaces_split last.content
        have hbl : byteLen last.content = byteLen pre + tailSpaces last.content := by
          conv => lhs; rw [hpre]
          rw [byteLen_append, byteLen_replicate_space]
        refine ⟨init, last, pre, hcs, ht, by omega, hget, hpre, ?_⟩
        split at h
        · next heq =>
          simp only [Except.ok.injEq] at h
          left
          exact ⟨byteLen_eq_zero (by omega), h.symm⟩
        · next hne =>
          have hpne : pre ≠ [] := by
            intro e; subst e; simp only [byteLen] at hbl; omega
          rw [if_neg (by omega)] at h
          have htr : liftOps (InlineOps.truncate last.content (byteLen last.content - tailSpaces last.content))
              = .ok pre := by
            have : byteLen last.content - tailSpaces last.content = byteLen pre := by omega
            rw [this]
            unfold InlineOps.truncate
            conv => lhs; rw [hpre]
            rw [C05.splitAtByte_append]; rfl
          rw [htr] at h
          simp only at h
          split at h
          · next hr =>
            simp only [Except.ok.injEq] at h
            right; right
            exact ⟨hpne, hr, by rw [← h, hr]⟩
          · next a b hr =>
            split at h
            · simp at h
            · next hle =>
              simp only [Except.ok.injEq] at h
              right; left
              exact ⟨hpne, a, b, hr, by omega, h.symm⟩
      · simp only [ht, Bool.false_eq_true, if_false] at hget
        rw [hget] at h0
        simp [tailSpaces] at h0

theorem space_not_lf (n : Nat) : '\n' ∉ List.replicate n ' ' := by
  intro h
  have := List.eq_of_mem_replicate h
  exact absurd this (by decide)

/-- the tree part of the newline rule: cut the blanks, push the break node -/
theorem newline_core {src : List Char} {m : Srcmap} {lo pos : Nat} {cs out : List Node}
    (hm : MapOK src m) (hi : RI src m lo pos cs)
    (hpop : trailingTextPop cs (tailSpaces (trailingTextGet cs)) = .ok out)
    (hge : ¬ pos < tailSpaces (trailingTextGet cs)) {p' rx ry : Nat}
    (e1 : getSourcePosFor m (pos - tailSpaces (trailingTextGet cs)) = .ok rx)
    (e2 : getSourcePosFor m p' = .ok ry) (hle : pos ≤ p') {n : Node}
    (hn : n.range = some (rx, ry)) (ht1 : n.isText = false) (ht2 : n.asMarker = none)
    (hnc : n.children = []) : RI src m lo p' (out ++ [n]) := by
  obtain ⟨hi0, hhi0, hord⟩ := hi.ord
  have hleaf : ∀ {a b : Nat}, a ≤ b → n.range = some (a, b) → WellRanged n := by
    intro a b hab hr
    rw [WellRanged_eq]; simp only [hnc]; exact ⟨⟨a, b, hr, hab, hab⟩, trivial⟩
  rcases pop_tail_cases hpop with ⟨h0, rfl⟩ | ⟨init, last, pre, hcs, hlt, htail, hget, hpre, hcase⟩
  · -- nothing to cut
    rw [h0] at e1
    simp only [Nat.sub_zero] at e1
    exact RI.push hi e1 e2 hn (Nat.le_refl _) (tr_mono hm (by omega) e1 e2) (Nat.le_refl _)
      (hleaf (tr_mono hm (by omega) e1 e2) hn) ht1 ht2
  · -- blanks cut off the trailing text
    rw [hget] at e1 hge
    obtain ⟨hch, start, xs, xe, hsl, hxs, hxe, hrange⟩ := hi.trail init last hcs hlt
    rw [hhi0] at hxe; simp only [Except.ok.injEq] at hxe; subst hxe
    obtain ⟨_, _, hse⟩ := slice_boundaries hsl
    have hbl : byteLen last.content = byteLen pre + tailSpaces last.content := by
      conv => lhs; rw [hpre]
      rw [byteLen_append, byteLen_replicate_space]
    -- the blanks are `src[pos - tail .. pos]`, on one line
    have hsp : slice src (pos - tailSpaces last.content) pos
        = .ok (List.replicate (tailSpaces last.content) ' ') := by
      obtain ⟨p, q, e, l1, l2⟩ := (slice_ok_iff _ _ _ _).mp hsl
      apply (slice_ok_iff _ _ _ _).mpr
      refine ⟨p ++ pre, q, ?_, ?_, ?_⟩
      · rw [e]; conv => lhs; rw [hpre]
        simp
      · rw [byteLen_append]; omega
      · rw [byteLen_replicate_space]; omega
    have hline := translate_same_line m hm.wf hm.mono (pos - tailSpaces last.content) pos
      (by omega) (no_key_inside hm.lf hsp (space_not_lf _)) rx hi0 e1 hhi0
    have hstart : start ≤ pos - tailSpaces last.content := by omega
    have hxsrx := tr_mono hm hstart hxs e1
    subst hcs
    obtain ⟨a, b, hab, hinit, _, _⟩ := hord.last
    rw [hrange] at hab; simp only [Option.some.injEq, Prod.mk.injEq] at hab
    obtain ⟨rfl, rfl⟩ := hab
    have hrxy := tr_mono hm (by omega) e1 e2
    rcases hcase with ⟨hpnil, rfl⟩ | ⟨hpne, a', b', hr', hle', rfl⟩ | ⟨_, hr', _⟩
    · -- the whole node goes: `start = pos - tail`
      subst hpnil
      simp only [byteLen, Nat.zero_add] at hbl
      have : start = pos - tailSpaces last.content := by omega
      subst this
      rw [hxs] at e1; simp only [Except.ok.injEq] at e1; subst e1
      refine ⟨⟨ry, e2, hinit.snoc hn (Nat.le_refl _) hrxy (Nat.le_refl _)⟩,
        hi.deep.left.append (WellRangedList.single (hleaf hrxy hn)), ?_, ?_⟩
      · intro n' hn' mk hmk'
        rcases List.mem_append.mp hn' with h' | h'
        · exact hi.markers n' (List.mem_append_left _ h') mk hmk'
        · simp only [List.mem_singleton] at h'; subst h'; rw [ht2] at hmk'; cases hmk'
      · intro init' last' hcs' hlt'
        obtain ⟨_, rfl⟩ := snoc_inj hcs'
        rw [ht1] at hlt'; cases hlt'
    · -- the node keeps `pre`, its range end moves left by `tail`
      rw [hrange] at hr'; simp only [Option.some.injEq, Prod.mk.injEq] at hr'
      obtain ⟨rfl, rfl⟩ := hr'
      have hend : hi0 - tailSpaces last.content = rx := by omega
      rw [hend]
      have hlast' : WellRanged (Node.mk (.text pre) (some (xs, rx)) last.children) := by
        rw [WellRanged_eq]; simp only [hch]
        exact ⟨⟨xs, rx, rfl, hxsrx, hxsrx⟩, trivial⟩
      refine ⟨⟨ry, e2, (hinit.snoc (n := Node.mk (.text pre) (some (xs, rx)) last.children) rfl
          (Nat.le_refl _) hxsrx (Nat.le_refl _)).snoc hn (Nat.le_refl _) hrxy (Nat.le_refl _)⟩,
        (hi.deep.left.append (WellRangedList.single hlast')).append
          (WellRangedList.single (hleaf hrxy hn)), ?_, ?_⟩
      · intro n' hn' mk hmk'
        rcases List.mem_append.mp hn' with h' | h'
        · rcases List.mem_append.mp h' with h'' | h''
          · exact hi.markers n' (List.mem_append_left _ h'') mk hmk'
          · simp only [List.mem_singleton] at h''; subst h''
            simp [Node.asMarker] at hmk'
        · simp only [List.mem_singleton] at h'; subst h'; rw [ht2] at hmk'; cases hmk'
      · intro init' last' hcs' hlt'
        obtain ⟨_, rfl⟩ := snoc_inj hcs'
        rw [ht1] at hlt'; cases hlt'
    · rw [hrange] at hr'; cases hr'

theorem ruleNewline_ranges {lo : Nat} {st st' : IState} {o : Option Nat}
    (hm : MapOK st.src st.srcmap) (hi : RInv lo st) (h : ruleNewline st false = .ok (o, st')) :
    StepRI lo st o st' := by
  unfold ruleNewline at h
  split at h
  · simp at h
  · simp at h
  · next c rest hw =>
    split at h
    · simp only [Except.ok.injEq, Prod.mk.injEq] at h; obtain ⟨rfl, rfl⟩ := h; exact stepRI_same hi
    · simp only [Bool.false_eq_true, if_false] at h
      split at h
      · simp at h
      · next cs hpop =>
        split at h
        · simp at h
        · next hge =>
          split at h
          · simp at h
          · next r hr =>
            simp only [Except.ok.injEq, Prod.mk.injEq] at h; obtain ⟨rfl, rfl⟩ := h
            obtain ⟨rx, ry⟩ := r
            obtain ⟨e1, e2, _⟩ := getMap_eq hr
            unfold StepRI
            simp only [Option.getD_some]
            have epos : st.pos + (st.pos + 1 + (List.takeWhile isSpTab rest).length - st.pos)
                = st.pos + 1 + (List.takeWhile isSpTab rest).length := by omega
            rw [epos]
            refine newline_core hm hi hpop hge e1 e2 (by omega) rfl ?_ ?_ rfl
            · split <;> rfl
            · split <;> rfl

end MdIt.Inline
