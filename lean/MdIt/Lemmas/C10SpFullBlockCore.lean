/-
  Block ranges start at a byte of their own, part 1 (core): a third variant of the lock-step
  simulation of the block parser (`MdIt/Lemmas/C10DocCore.lean`, namespace `LE`;
  `MdIt/Lemmas/C10SourceposSimCore.lean`, namespace `LX`) in which the RANGES of two related trees
  are related as whole pairs by a relation `τ : Nat × Nat → Nat × Nat → Prop` that the context
  supplies from the GEOMETRY of the two line tables:

      Ctx.rng :  lines i ≤ j of the two tables, `d` with `line_start₁ᵢ + d < line_end₁ᵢ` on a character
                 boundary of `src₁`   ⟹   τ (line_start₁ᵢ + d, line_end₁ⱼ) (line_start₂ᵢ + d, line_end₂ⱼ)

  Every range the block rules build has this form PROVIDED ITS START LINE IS NOT EMPTY
  (`first_nonspace < line_end`), which is what the extra hypotheses of `SRel.getMap` and of the rule
  simulations say.  The entry relation `LX.ERel` and everything about it is reused from `LX`
  (namespace `MdIt.Block.LX.Y` is nested in `LX` so that `LX` names shadow the opened `LE` ones, and
  the names redefined here shadow both).
-/
import MdIt.Lemmas.C10SourceposSim

namespace MdIt.Block.LX.Y
open MdIt.Lines (LineOffset)
open MdIt.Block.LE

/-! ## trees -/

/-- node values, STRICT form: equal and not an `InlineRoot`, or two `InlineRoot`s with the same text and
    `MRel ρ` tables (`LE.KRel` also accepts two equal `InlineRoot`s without relating their tables) -/
def KRelS (ρ : Nat → Nat → Prop) (k₁ k₂ : Kind) : Prop :=
  (k₁ = k₂ ∧ ∀ c m, k₁ ≠ .inlineRoot c m) ∨
    ∃ c m₁ m₂, k₁ = .inlineRoot c m₁ ∧ k₂ = .inlineRoot c m₂ ∧ MRel ρ m₁ m₂

theorem KRelS.of_ne {ρ : Nat → Nat → Prop} {k : Kind} (h : ∀ c m, k ≠ .inlineRoot c m) : KRelS ρ k k :=
  Or.inl ⟨rfl, h⟩

theorem KRelS.inl {ρ : Nat → Nat → Prop} {c : List Char} {m₁ m₂ : List (Nat × Nat)} (h : MRel ρ m₁ m₂) :
    KRelS ρ (.inlineRoot c m₁) (.inlineRoot c m₂) := Or.inr ⟨c, m₁, m₂, rfl, rfl, h⟩

theorem KRelS.eq_iff {ρ : Nat → Nat → Prop} {k₁ k₂ : Kind} (h : KRelS ρ k₁ k₂) (k : Kind)
    (hk : ∀ c m, k ≠ .inlineRoot c m) : k₁ = k ↔ k₂ = k := by
  rcases h with ⟨rfl, _⟩ | ⟨c, m₁, m₂, rfl, rfl, _⟩
  · exact Iff.rfl
  · constructor <;> intro h <;> exact absurd h.symm (hk _ _)

/-- two related placeholders: the same text, `MRel ρ` tables -/
theorem KRelS.tables {ρ : Nat → Nat → Prop} {c₁ c₂ : List Char} {m₁ m₂ : List (Nat × Nat)}
    (h : KRelS ρ (.inlineRoot c₁ m₁) (.inlineRoot c₂ m₂)) : c₁ = c₂ ∧ MRel ρ m₁ m₂ := by
  rcases h with ⟨_, hne⟩ | ⟨c, a, b, h1, h2, hm⟩
  · exact absurd rfl (hne _ _)
  · cases h1; cases h2; exact ⟨rfl, hm⟩

/-- a value related to a non-placeholder is that value -/
theorem KRelS.eq_of_not_inline {ρ : Nat → Nat → Prop} {k₁ k₂ : Kind} (h : KRelS ρ k₁ k₂)
    (hk : ∀ c m, k₁ ≠ .inlineRoot c m) : k₂ = k₁ := by
  rcases h with ⟨h, _⟩ | ⟨c, m₁, m₂, rfl, rfl, _⟩
  · exact h.symm
  · exact absurd rfl (hk _ _)

theorem mrel_mono {ρ ρ' : Nat → Nat → Prop} (hρ : ∀ a b, ρ a b → ρ' a b) :
    ∀ {a b : List (Nat × Nat)}, MRel ρ a b → MRel ρ' a b
  | [], [], _ => trivial
  | [], _ :: _, h => h.elim
  | _ :: _, [], h => h.elim
  | _ :: _, _ :: _, h => ⟨h.1, hρ _ _ h.2.1, mrel_mono hρ h.2.2⟩

theorem KRelS.toLE {ρ ρ' : Nat → Nat → Prop} (hρ : ∀ a b, ρ a b → ρ' a b) {k₁ k₂ : Kind}
    (h : KRelS ρ k₁ k₂) : LE.KRel ρ' k₁ k₂ := by
  rcases h with ⟨h, _⟩ | ⟨c, m₁, m₂, h1, h2, hm⟩
  · exact Or.inl h
  · exact Or.inr ⟨c, m₁, m₂, h1, h2, mrel_mono hρ hm⟩

/-- `r₁ = none ∧ r₂ = none`, or both present and `τ`-related as pairs -/
def RgRel (τ : Nat × Nat → Nat × Nat → Prop) : Option (Nat × Nat) → Option (Nat × Nat) → Prop
  | none, none => True
  | some x, some y => τ x y
  | _, _ => False

mutual
/-- two block trees that differ in source offsets only: ranges `τ`-related, values `KRelS ρ` -/
def NRel (τ : Nat × Nat → Nat × Nat → Prop) (ρ : Nat → Nat → Prop) : BNode → BNode → Prop
  | ⟨k₁, r₁, c₁⟩, ⟨k₂, r₂, c₂⟩ => KRelS ρ k₁ k₂ ∧ RgRel τ r₁ r₂ ∧ NRelL τ ρ c₁ c₂
def NRelL (τ : Nat × Nat → Nat × Nat → Prop) (ρ : Nat → Nat → Prop) : List BNode → List BNode → Prop
  | [], [] => True
  | a :: as, b :: bs => NRel τ ρ a b ∧ NRelL τ ρ as bs
  | [], _ :: _ => False
  | _ :: _, [] => False
end

section trees
variable {τ : Nat × Nat → Nat × Nat → Prop} {ρ : Nat → Nat → Prop}

theorem NRel.mk {k₁ k₂ : Kind} {r₁ r₂ : Option (Nat × Nat)} {c₁ c₂ : List BNode}
    (hk : KRelS ρ k₁ k₂) (hr : RgRel τ r₁ r₂) (hc : NRelL τ ρ c₁ c₂) : NRel τ ρ ⟨k₁, r₁, c₁⟩ ⟨k₂, r₂, c₂⟩ := by
  simp only [NRel]; exact ⟨hk, hr, hc⟩

theorem NRel.kind {n₁ n₂ : BNode} (h : NRel τ ρ n₁ n₂) : KRelS ρ n₁.kind n₂.kind := by
  cases n₁; cases n₂; simp only [NRel] at h; exact h.1

theorem NRel.range {n₁ n₂ : BNode} (h : NRel τ ρ n₁ n₂) : RgRel τ n₁.range n₂.range := by
  cases n₁; cases n₂; simp only [NRel] at h; exact h.2.1

theorem NRel.children {n₁ n₂ : BNode} (h : NRel τ ρ n₁ n₂) : NRelL τ ρ n₁.children n₂.children := by
  cases n₁; cases n₂; simp only [NRel] at h; exact h.2.2

theorem NRelL.nil : NRelL τ ρ [] [] := by simp only [NRelL]

theorem NRelL.cons {a b : BNode} {as bs : List BNode} (h : NRel τ ρ a b)
    (ht : NRelL τ ρ as bs) : NRelL τ ρ (a :: as) (b :: bs) := by simp only [NRelL]; exact ⟨h, ht⟩

theorem NRelL.cons_inv {a b : BNode} {as bs : List BNode}
    (h : NRelL τ ρ (a :: as) (b :: bs)) : NRel τ ρ a b ∧ NRelL τ ρ as bs := by simpa only [NRelL] using h

theorem NRelL.nil_left {bs : List BNode} (h : NRelL τ ρ [] bs) : bs = [] := by
  cases bs with
  | nil => rfl
  | cons b bs => simp only [NRelL] at h

theorem NRelL.nil_right {as : List BNode} (h : NRelL τ ρ as []) : as = [] := by
  cases as with
  | nil => rfl
  | cons a as => simp only [NRelL] at h

theorem NRelL.append : ∀ {a b c d : List BNode}, NRelL τ ρ a b → NRelL τ ρ c d →
    NRelL τ ρ (a ++ c) (b ++ d)
  | [], [], _, _, _, h => h
  | [], _ :: _, _, _, h, _ => by simp only [NRelL] at h
  | _ :: _, [], _, _, h, _ => by simp only [NRelL] at h
  | _ :: _, _ :: _, _, _, h, h' => by
    obtain ⟨h1, h2⟩ := h.cons_inv
    exact NRelL.cons h1 (NRelL.append h2 h')

theorem NRelL.single {a b : BNode} (h : NRel τ ρ a b) : NRelL τ ρ [a] [b] :=
  NRelL.cons h NRelL.nil

theorem NRelL.push {as bs : List BNode} {a b : BNode} (h : NRelL τ ρ as bs)
    (hn : NRel τ ρ a b) : NRelL τ ρ (as ++ [a]) (bs ++ [b]) := h.append (NRelL.single hn)

theorem NRelL.length : ∀ {a b : List BNode}, NRelL τ ρ a b → a.length = b.length
  | [], [], _ => rfl
  | [], _ :: _, h => by simp only [NRelL] at h
  | _ :: _, [], h => by simp only [NRelL] at h
  | _ :: _, _ :: _, h => by
    have := NRelL.length h.cons_inv.2
    simp [this]

/-- an `InlineRoot` child -/
theorem nrel_inline {c : List Char} {m₁ m₂ : List (Nat × Nat)} (h : MRel ρ m₁ m₂) :
    NRel τ ρ ⟨.inlineRoot c m₁, none, []⟩ ⟨.inlineRoot c m₂, none, []⟩ :=
  NRel.mk (KRelS.inl h) trivial NRelL.nil

mutual
/-- back to the relation of `LE`: any `ρ'` implied by `τ` on both components and by `ρ` -/
theorem NRel.toLE {ρ' : Nat → Nat → Prop} (hτ : ∀ x y, τ x y → ρ' x.1 y.1 ∧ ρ' x.2 y.2)
    (hρ : ∀ a b, ρ a b → ρ' a b) {n₁ n₂ : BNode} (h : NRel τ ρ n₁ n₂) : LE.NRel ρ' n₁ n₂ := by
  match n₁, n₂ with
  | ⟨k₁, r₁, c₁⟩, ⟨k₂, r₂, c₂⟩ =>
    simp only [NRel] at h
    refine LE.NRel.mk (h.1.toLE hρ) ?_ (NRelL.toLE hτ hρ h.2.2)
    match r₁, r₂, h.2.1 with
    | none, none, _ => exact trivial
    | some x, some y, hr => exact hτ x y hr
theorem NRelL.toLE {ρ' : Nat → Nat → Prop} (hτ : ∀ x y, τ x y → ρ' x.1 y.1 ∧ ρ' x.2 y.2)
    (hρ : ∀ a b, ρ a b → ρ' a b) {a b : List BNode} (h : NRelL τ ρ a b) : LE.NRelL ρ' a b := by
  match a, b with
  | [], [] => exact LE.NRelL.nil
  | [], _ :: _ => simp only [NRelL] at h
  | _ :: _, [] => simp only [NRelL] at h
  | x :: xs, y :: ys =>
    obtain ⟨h1, h2⟩ := h.cons_inv
    exact LE.NRelL.cons (NRel.toLE hτ hρ h1) (NRelL.toLE hτ hρ h2)
end

end trees

/-! ## states -/

structure SRel (τ : Nat × Nat → Nat × Nat → Prop) (ρ : Nat → Nat → Prop) (G : Geo) (s₁ s₂ : BState) : Prop where
  src₁ : s₁.src = G.src₁
  src₂ : s₂.src = G.src₂
  len : s₂.offs.length = s₁.offs.length
  ent : ∀ (i : Nat) (o₁ o₂ : LineOffset), s₁.offs[i]? = some o₁ → s₂.offs[i]? = some o₂ → ERel ρ G.src₁ G.src₂ o₁ o₂
  geo₁ : s₁.offs.map geom = G.T₁
  geo₂ : s₂.offs.map geom = G.T₂
  blkIndent : s₂.blkIndent = s₁.blkIndent
  line : s₂.line = s₁.line
  lineMax : s₂.lineMax = s₁.lineMax
  tight : s₂.tight = s₁.tight
  listIndent : s₂.listIndent = s₁.listIndent
  level : s₂.level = s₁.level
  nodeKind : s₂.nodeKind = s₁.nodeKind
  refs : s₂.refs = s₁.refs
  children : NRelL τ ρ s₁.children s₂.children

/-- what the rule simulations assume about the two runs: the tables are in source order, and the
    range relation holds of every pair (offset strictly inside line `i`, end of line `j ≥ i`) -/
structure Ctx (τ : Nat × Nat → Nat × Nat → Prop) (ρ : Nat → Nat → Prop) (G : Geo) : Prop where
  inc₁ : IncT G.T₁
  inc₂ : IncT G.T₂
  rng : ∀ (i j : Nat) (g₁ h₁ g₂ h₂ : Nat × Nat), i ≤ j → G.T₁[i]? = some g₁ → G.T₁[j]? = some h₁ →
    G.T₂[i]? = some g₂ → G.T₂[j]? = some h₂ → ∀ d, g₁.1 + d < g₁.2 →
    Lines.onBoundary G.src₁ (g₁.1 + d) = true → τ (g₁.1 + d, h₁.2) (g₂.1 + d, h₂.2)

/-- verdict and state of a rule call -/
def ResRel (τ : Nat × Nat → Nat × Nat → Prop) (ρ : Nat → Nat → Prop) (G : Geo) (r₁ r₂ : Bool × BState) : Prop :=
  r₁.1 = r₂.1 ∧ SRel τ ρ G r₁.2 r₂.2

/-- the nested tokenizers of the two runs -/
def TokSim (τ : Nat × Nat → Nat × Nat → Prop) (ρ : Nat → Nat → Prop) (G : Geo) (tok₁ tok₂ : Tok) : Prop :=
  ∀ s₁ s₂, SRel τ ρ G s₁ s₂ → FRel (SRel τ ρ G) (tok₁ s₁) (tok₂ s₂)

/-- the look-aheads of the two runs -/
def TestSim (τ : Nat × Nat → Nat × Nat → Prop) (ρ : Nat → Nat → Prop) (G : Geo) (test₁ test₂ : Test) : Prop :=
  ∀ s₁ s₂, SRel τ ρ G s₁ s₂ → FRel (ResRel τ ρ G) (test₁ s₁) (test₂ s₂)

/-- the line a rule starts on exists and is not empty (what `tokLoop` guarantees in real mode) -/
def Live (s : BState) : Prop := s.line < s.lineMax ∧ s.isEmpty s.line = false

section reads
variable {τ : Nat × Nat → Nat × Nat → Prop} {ρ : Nat → Nat → Prop} {G : Geo} {s₁ s₂ : BState}

/-! ### the table -/

/-- the two tables have an entry at the same indices, and the entries are related -/
theorem SRel.get (S : SRel τ ρ G s₁ s₂) (n : Nat) :
    (s₁.offs[n]? = none ∧ s₂.offs[n]? = none) ∨
    ∃ o₁ o₂, s₁.offs[n]? = some o₁ ∧ s₂.offs[n]? = some o₂ ∧ ERel ρ G.src₁ G.src₂ o₁ o₂ := by
  by_cases hn : n < s₁.offs.length
  · right
    have hn2 : n < s₂.offs.length := by rw [S.len]; exact hn
    exact ⟨s₁.offs[n], s₂.offs[n], List.getElem?_eq_getElem hn, List.getElem?_eq_getElem hn2,
      S.ent n _ _ (List.getElem?_eq_getElem hn) (List.getElem?_eq_getElem hn2)⟩
  · left
    exact ⟨List.getElem?_eq_none (by omega), List.getElem?_eq_none (by rw [S.len]; omega)⟩

/-- `&state.line_offsets[n]` -/
theorem SRel.off (S : SRel τ ρ G s₁ s₂) (n : Nat) :
    FRel (ERel ρ G.src₁ G.src₂) (s₁.off n) (s₂.off n) := by
  unfold BState.off
  rcases S.get n with ⟨h1, h2⟩ | ⟨o₁, o₂, h1, h2, he⟩
  · rw [h1, h2]; exact frel_err _
  · rw [h1, h2]; exact frel_ok he

theorem SRel.off_ok (S : SRel τ ρ G s₁ s₂) {n : Nat} {o₁ : LineOffset} (h : s₁.off n = .ok o₁) :
    ∃ o₂, s₂.off n = .ok o₂ ∧ ERel ρ G.src₁ G.src₂ o₁ o₂ := by
  have := S.off n
  rw [h] at this
  exact frel_ok_left this

theorem SRel.lineIndent (S : SRel τ ρ G s₁ s₂) (n : Nat) : s₂.lineIndent n = s₁.lineIndent n := by
  unfold BState.lineIndent Lines.lineIndent
  rcases S.get n with ⟨h1, h2⟩ | ⟨o₁, o₂, h1, h2, he⟩
  · rw [h1, h2]
  · rw [h1, h2]; simp only; rw [he.indent, S.blkIndent]

theorem SRel.isEmpty (S : SRel τ ρ G s₁ s₂) (n : Nat) : s₂.isEmpty n = s₁.isEmpty n := by
  unfold BState.isEmpty Lines.isEmpty
  rcases S.get n with ⟨h1, h2⟩ | ⟨o₁, o₂, h1, h2, he⟩
  · rw [h1, h2]
  · rw [h1, h2]
    have := he.empty
    simp only [ge_iff_le, decide_eq_decide]
    exact this

theorem SRel.getLine (S : SRel τ ρ G s₁ s₂) (n : Nat) : s₂.getLine n = s₁.getLine n := by
  unfold BState.getLine Lines.getLine
  rcases S.get n with ⟨h1, h2⟩ | ⟨o₁, o₂, h1, h2, he⟩
  · rw [h1, h2]
  · rw [h1, h2]; simp only; rw [S.src₁, S.src₂, he.text]

theorem SRel.skipEmpty (S : SRel τ ρ G s₁ s₂) (lineMax : Nat) :
    ∀ line, Lines.skipEmptyLines s₂.offs lineMax line = Lines.skipEmptyLines s₁.offs lineMax line := by
  intro line
  have he : ∀ n, Lines.isEmpty s₂.offs n = Lines.isEmpty s₁.offs n := S.isEmpty
  generalize hk : s₁.offs.length - line = k
  induction k using Nat.strongRecOn generalizing line with
  | _ k ih =>
    rw [Lines.skipEmptyLines]
    conv => rhs; rw [Lines.skipEmptyLines]
    simp only [he line]
    split
    · rename_i h
      have hlt : line < s₁.offs.length := by
        have := h.2
        unfold Lines.isEmpty at this
        split at this
        · rename_i o ho
          exact (List.getElem?_eq_some_iff.mp ho).1
        · simp at this
      exact ih (s₁.offs.length - (line + 1)) (by omega) (line + 1) rfl
    · rfl

/-- the geometry of a table entry is the one recorded in `G` -/
theorem SRel.geoAt₁ (S : SRel τ ρ G s₁ s₂) {n : Nat} {o : LineOffset}
    (h : s₁.offs[n]? = some o) : G.T₁[n]? = some (geom o) := by
  rw [← S.geo₁, List.getElem?_map, h]; rfl

theorem SRel.geoAt₂ (S : SRel τ ρ G s₁ s₂) {n : Nat} {o : LineOffset}
    (h : s₂.offs[n]? = some o) : G.T₂[n]? = some (geom o) := by
  rw [← S.geo₂, List.getElem?_map, h]; rfl

/-- the range relation of the context, read off two related tables -/
theorem SRel.rng (C : Ctx τ ρ G) (S : SRel τ ρ G s₁ s₂) {i j : Nat} (hij : i ≤ j) {o₁ o₂ o₁' o₂' : LineOffset}
    (h1 : s₁.offs[i]? = some o₁) (h2 : s₂.offs[i]? = some o₂) (h1' : s₁.offs[j]? = some o₁')
    (h2' : s₂.offs[j]? = some o₂') (d : Nat) (hd : o₁.lineStart + d < o₁.lineEnd)
    (hb : Lines.onBoundary G.src₁ (o₁.lineStart + d) = true) :
    τ (o₁.lineStart + d, o₁'.lineEnd) (o₂.lineStart + d, o₂'.lineEnd) :=
  C.rng i j (geom o₁) (geom o₁') (geom o₂) (geom o₂') hij (S.geoAt₁ h1) (S.geoAt₁ h1') (S.geoAt₂ h2) (S.geoAt₂ h2')
    d hd hb

/-- `first_nonspace` is a character boundary of the source -/
theorem erel_first_boundary {src₁ src₂ : List Char} {o₁ o₂ : LineOffset} (h : ERel ρ src₁ src₂ o₁ o₂) :
    Lines.onBoundary src₁ o₁.firstNonspace = true := by
  obtain ⟨a, b, p₁, q₁, p₂, q₂, e1, _, hp1, _, h1, _, _, _, _, _⟩ := h
  exact Lines.onBoundary_iff.mpr ⟨p₁ ++ a, b ++ q₁, by rw [e1]; simp, by simp; omega⟩

theorem silent_false {b : Bool} (h : ¬ b = true) : b = false := by simpa using h

/-- `is_empty(n) = false` on an entry that exists -/
theorem nonempty_of {s : BState} {n : Nat} {o : LineOffset} (h : s.isEmpty n = false) (ho : s.offs[n]? = some o) :
    o.firstNonspace < o.lineEnd := by
  unfold BState.isEmpty Lines.isEmpty at h
  rw [ho] at h
  simpa using h

/-- `get_map` of a range whose first line is not empty: the same verdict, `τ`-related ranges -/
theorem SRel.getMap (C : Ctx τ ρ G) (S : SRel τ ρ G s₁ s₂) (a b : Nat) (hne : s₁.isEmpty a = false) :
    FRel (fun r₁ r₂ => RgRel τ (some r₁) (some r₂)) (s₁.getMap a b) (s₂.getMap a b) := by
  unfold BState.getMap Lines.getMap
  by_cases hab : a > b
  · rw [if_pos hab, if_pos hab]; exact frel_err _
  · rw [if_neg hab, if_neg hab]
    rcases S.get a with ⟨h1, h2⟩ | ⟨o₁, o₂, h1, h2, he⟩
    · rw [h1, h2]; exact frel_err _
    · rcases S.get b with ⟨h1', h2'⟩ | ⟨o₁', o₂', h1', h2', he'⟩
      · rw [h1, h2, h1', h2']; exact frel_err _
      · rw [h1, h2, h1', h2']
        refine frel_ok ?_
        have hn := he.nums
        have hlt := nonempty_of hne h1
        have := S.rng C (Nat.le_of_not_gt hab) h1 h2 h1' h2' (o₁.firstNonspace - o₁.lineStart) (by omega)
          (by rw [show o₁.lineStart + (o₁.firstNonspace - o₁.lineStart) = o₁.firstNonspace by omega]
              exact erel_first_boundary he)
        rw [show o₁.lineStart + (o₁.firstNonspace - o₁.lineStart) = o₁.firstNonspace by omega, ← hn.2.2.1] at this
        exact this

/-- writing related entries with the geometry of the entries they replace -/
theorem SRel.setOff (S : SRel τ ρ G s₁ s₂) (n : Nat) {o₁ o₂ : LineOffset}
    (he : ERel ρ G.src₁ G.src₂ o₁ o₂)
    (hg₁ : ∀ o, s₁.offs[n]? = some o → geom o₁ = geom o)
    (hg₂ : ∀ o, s₂.offs[n]? = some o → geom o₂ = geom o) :
    FRel (SRel τ ρ G) (s₁.setOff n o₁) (s₂.setOff n o₂) := by
  unfold BState.setOff
  by_cases hn : n < s₁.offs.length
  · have hn2 : n < s₂.offs.length := by rw [S.len]; exact hn
    rw [if_pos hn, if_pos hn2]
    refine frel_ok ⟨S.src₁, S.src₂, by simp [S.len], ?_, ?_, ?_, S.blkIndent, S.line, S.lineMax, S.tight, S.listIndent,
      S.level, S.nodeKind, S.refs, S.children⟩
    · intro i x y hx hy
      simp only [List.getElem?_set] at hx hy
      by_cases hi : n = i
      · subst hi
        simp only [hn, hn2, if_true] at hx hy
        cases hx; cases hy; exact he
      · simp only [hi, if_false] at hx hy
        exact S.ent i x y hx hy
    · rw [← S.geo₁]
      simp only [List.map_set]
      rw [hg₁ _ (List.getElem?_eq_getElem hn)]
      apply List.ext_getElem?
      intro i
      simp only [List.getElem?_set, List.getElem?_map]
      split
      · rename_i h; subst h; simp [List.getElem?_eq_getElem hn]; exact hn
      · rfl
    · rw [← S.geo₂]
      simp only [List.map_set]
      rw [hg₂ _ (List.getElem?_eq_getElem hn2)]
      apply List.ext_getElem?
      intro i
      simp only [List.getElem?_set, List.getElem?_map]
      split
      · rename_i h; subst h; simp [List.getElem?_eq_getElem hn2]; exact hn2
      · rfl
  · have hn2 : ¬ n < s₂.offs.length := by rw [S.len]; exact hn
    rw [if_neg hn, if_neg hn2]; exact frel_err _


/-! ### `get_lines` -/

/-- the loop of `get_lines` on related tables: the same text, related per-line tables, or the same
    panic -/
theorem getLinesGo_sim (S : SRel τ ρ G s₁ s₂) (end_ indent : Nat) (keep : Bool) :
    ∀ (k line : Nat) (result : List Char) (m₁ m₂ : List (Nat × Nat)), end_ - line = k → MRel ρ m₁ m₂ →
      (∃ c m₁' m₂', Lines.getLinesGo s₁.src s₁.offs end_ indent keep line result m₁ = .ok (c, m₁') ∧
        Lines.getLinesGo s₂.src s₂.offs end_ indent keep line result m₂ = .ok (c, m₂') ∧ MRel ρ m₁' m₂') ∨
      (∃ e, Lines.getLinesGo s₁.src s₁.offs end_ indent keep line result m₁ = .error e ∧
        Lines.getLinesGo s₂.src s₂.offs end_ indent keep line result m₂ = .error e) := by
  intro k
  induction k with
  | zero =>
    intro line result m₁ m₂ hk hm
    left
    rw [Lines.getLinesGo, Lines.getLinesGo, if_neg (by omega), if_neg (by omega)]
    exact ⟨_, _, _, rfl, rfl, hm⟩
  | succ k ih =>
    intro line result m₁ m₂ hk hm
    rw [S.src₁, S.src₂] at *
    rw [Lines.getLinesGo, Lines.getLinesGo, if_pos (by omega), if_pos (by omega)]
    rcases S.get line with ⟨h1, h2⟩ | ⟨o₁, o₂, h1, h2, he⟩
    · right; rw [h1, h2]; exact ⟨_, rfl, rfl⟩
    · rw [h1, h2]
      simp only
      rw [he.ws, he.indent]
      cases hws : Lines.slice G.src₁ o₁.lineStart o₁.firstNonspace with
      | error e => right; exact ⟨_, rfl, rfl⟩
      | ok ws =>
        simp only
        generalize Lines.calcRightWs ws (o₁.indentNonspace - Lines.usizeAsI32 indent) = p
        obtain ⟨ns, first⟩ := p
        simp only
        rw [he.from_ first]
        cases ht : Lines.slice G.src₁ (o₁.lineStart + first) o₁.lineEnd with
        | error e => right; exact ⟨_, rfl, rfl⟩
        | ok t =>
          simp only
          apply ih (line + 1) _ _ _ (by omega)
          -- the slice `src[line_start + first .. line_end]` exists: the offset is inside the line
          have hin : o₁.lineStart + first ≤ o₁.lineEnd := by
            obtain ⟨_, _, _, _, hq⟩ := Lines.slice_eq_ok_iff.mp ht
            omega
          have h1 : MRel ρ (m₁ ++ [(Lines.byteLen result, o₁.lineStart + first)])
              (m₂ ++ [(Lines.byteLen result, o₂.lineStart + first)]) :=
            hm.append (MRel.single (he.at_ first hin))
          split
          · exact h1.append (MRel.single (he.at_ first hin))
          · exact h1

/-- `get_lines` -/
theorem SRel.getLines (S : SRel τ ρ G s₁ s₂) (b e indent : Nat) (keep : Bool) :
    FRel (fun r₁ r₂ => r₁.1 = r₂.1 ∧ MRel ρ r₁.2 r₂.2) (s₁.getLines b e indent keep)
      (s₂.getLines b e indent keep) := by
  unfold BState.getLines Lines.getLines
  by_cases hbe : b > e
  · rw [if_pos hbe, if_pos hbe]; exact frel_err _
  · rw [if_neg hbe, if_neg hbe]
    rcases getLinesGo_sim S e indent keep _ b [] [] [] rfl MRel.nil with
      ⟨c, m₁', m₂', h1, h2, hm⟩ | ⟨e', h1, h2⟩
    · rw [h1, h2]; exact frel_ok ⟨rfl, hm⟩
    · rw [h1, h2]; cases e' <;> exact frel_err _

/-! ### updates that keep the relation -/

theorem SRel.withLine (S : SRel τ ρ G s₁ s₂) (l : Nat) :
    SRel τ ρ G { s₁ with line := l } { s₂ with line := l } :=
  ⟨S.src₁, S.src₂, S.len, S.ent, S.geo₁, S.geo₂, S.blkIndent, rfl, S.lineMax, S.tight, S.listIndent, S.level, S.nodeKind,
    S.refs, S.children⟩

theorem SRel.push (S : SRel τ ρ G s₁ s₂) {n₁ n₂ : BNode} (hn : NRel τ ρ n₁ n₂) :
    SRel τ ρ G (s₁.push n₁) (s₂.push n₂) :=
  ⟨S.src₁, S.src₂, S.len, S.ent, S.geo₁, S.geo₂, S.blkIndent, S.line, S.lineMax, S.tight, S.listIndent, S.level, S.nodeKind,
    S.refs, S.children.push hn⟩

/-- any update of the fields the table relation does not mention -/
theorem SRel.upd (S : SRel τ ρ G s₁ s₂) {t₁ t₂ : BState}
    (h1 : t₁.src = s₁.src ∧ t₁.offs = s₁.offs) (h2 : t₂.src = s₂.src ∧ t₂.offs = s₂.offs)
    (hb : t₂.blkIndent = t₁.blkIndent) (hl : t₂.line = t₁.line) (hm : t₂.lineMax = t₁.lineMax)
    (ht : t₂.tight = t₁.tight) (hli : t₂.listIndent = t₁.listIndent) (hlv : t₂.level = t₁.level)
    (hk : t₂.nodeKind = t₁.nodeKind) (hr : t₂.refs = t₁.refs) (hc : NRelL τ ρ t₁.children t₂.children) :
    SRel τ ρ G t₁ t₂ := by
  refine ⟨h1.1.trans S.src₁, h2.1.trans S.src₂, by rw [h1.2, h2.2]; exact S.len, ?_, by rw [h1.2]; exact S.geo₁,
    by rw [h2.2]; exact S.geo₂, hb, hl, hm, ht, hli, hlv, hk, hr, hc⟩
  rw [h1.2, h2.2]; exact S.ent


/-- `srely_fields S`: prove `SRel τ ρ G t₁ t₂` for states `t₁`, `t₂` that are record updates of `s₁`, `s₂`
    (with `S : SRel τ ρ G s₁ s₂`) leaving `src` and `offs` alone; the scalar fields are closed with
    `S`'s equations, what remains (typically the `children` goal) is left to the caller -/
syntax "srely_fields " ident : tactic
macro_rules
| `(tactic| srely_fields $S:ident) => `(tactic|
    (refine SRel.upd $S ⟨rfl, rfl⟩ ⟨rfl, rfl⟩ ?_ ?_ ?_ ?_ ?_ ?_ ?_ ?_ ?_ <;>
     (try simp only [BState.push, SRel.blkIndent $S, SRel.line $S, SRel.lineMax $S, SRel.tight $S,
        SRel.listIndent $S, SRel.level $S, SRel.nodeKind $S, SRel.refs $S])))


end reads

end MdIt.Block.LX.Y
