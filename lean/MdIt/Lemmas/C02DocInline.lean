/-
  Helper development for `Props/C02Doc.lean` (property C02 on the real parser models), inline part:
  the DEPTH invariant of the inline tokenizer `MdIt.Inline.tokLoop`.

  `idepth n` is the depth of an inline tree NOT counting the emphasis wrappers (`Em`, `Strong`,
  `Strikethrough`: `Val.wrap`), which the delimiter matcher (`scan_and_match_delimiters`, run from
  the emphasis rule) wraps around already parsed siblings and which no level counter sees.

  Invariant (by the induction scheme of `Lemmas/InlineVals2.vals_induction`): a tokenizer entered with
  `state.level = l` pushes only nodes of `idepth ≤ (max_nesting - l) + 1`: text / breaks / escapes /
  markers weigh 1, a code span or an autolink 2 (below the limit only), a link or image 1 + what the
  tokenizer at level `l + 1` pushes; at or beyond the limit only text is pushed.  The delimiter
  matcher moves siblings under a weightless wrapper and rewrites marker VALUES in place
  (`replaceAt`): that the rewritten node is the opener marker itself (and not a wrapper that has
  taken its index) is the index invariant of `matchInner_depth`.
-/
import MdIt.Lemmas.InlineCalm

set_option linter.unusedVariables false

namespace MdIt.Inline
open MdIt.InlineOps (Srcmap getSourcePosFor getMap byteLen slice)

/-- weight of a node value: the emphasis wrappers are free -/
def Val.wcost : Val → Nat
  | .wrap _ _ => 0
  | _ => 1

theorem Val.wcost_le_one (v : Val) : v.wcost ≤ 1 := by cases v <;> simp [Val.wcost]

mutual
/-- depth not counting emphasis wrappers -/
def idepth : Node → Nat
  | ⟨v, _, cs⟩ => v.wcost + idepthList cs
def idepthList : List Node → Nat
  | [] => 0
  | c :: cs => max (idepth c) (idepthList cs)
end

mutual
/-- plain depth (every node weighs 1) -/
def fullDepth : Node → Nat
  | ⟨_, _, cs⟩ => 1 + fullDepthList cs
def fullDepthList : List Node → Nat
  | [] => 0
  | c :: cs => max (fullDepth c) (fullDepthList cs)
end

theorem idepth_eq (n : Node) : idepth n = n.val.wcost + idepthList n.children := by
  cases n; simp [idepth]

theorem idepthList_le_iff (B : Nat) (cs : List Node) :
    idepthList cs ≤ B ↔ ∀ c ∈ cs, idepth c ≤ B := by
  induction cs with
  | nil => simp [idepthList]
  | cons c cs ih => simp [idepthList, Nat.max_le, ih]

/-- every node of the list has wrapper-free depth `≤ B` -/
def DL (B : Nat) (cs : List Node) : Prop := ∀ c ∈ cs, idepth c ≤ B

theorem DL.nil {B : Nat} : DL B [] := fun _ h => by simp at h

theorem DL.append {B : Nat} {a b : List Node} (ha : DL B a) (hb : DL B b) : DL B (a ++ b) := by
  intro n hn
  rcases List.mem_append.mp hn with h | h
  · exact ha n h
  · exact hb n h

theorem DL.left {B : Nat} {a b : List Node} (h : DL B (a ++ b)) : DL B a :=
  fun n hn => h n (List.mem_append_left _ hn)

theorem DL.right {B : Nat} {a b : List Node} (h : DL B (a ++ b)) : DL B b :=
  fun n hn => h n (List.mem_append_right _ hn)

theorem DL.single {B : Nat} {n : Node} (h : idepth n ≤ B) : DL B [n] := by
  intro c hc; simp at hc; subst hc; exact h

theorem DL.last {B : Nat} {a : List Node} {n : Node} (h : DL B (a ++ [n])) : idepth n ≤ B :=
  h n (by simp)

theorem DL.push {B : Nat} {a : List Node} {n : Node} (h : DL B a) (hn : idepth n ≤ B) :
    DL B (a ++ [n]) := h.append (DL.single hn)

theorem DL.take {B : Nat} {l : List Node} (h : DL B l) (k : Nat) : DL B (l.take k) :=
  fun n hn => h n (List.mem_of_mem_take hn)

theorem DL.drop {B : Nat} {l : List Node} (h : DL B l) (k : Nat) : DL B (l.drop k) :=
  fun n hn => h n (List.mem_of_mem_drop hn)

theorem DL.set {B : Nat} {l : List Node} (h : DL B l) (k : Nat) {x : Node} (hx : idepth x ≤ B) :
    DL B (l.set k x) := by
  intro n hn
  rcases List.mem_or_eq_of_mem_set hn with h' | h'
  · exact h n h'
  · rw [h']; exact hx

theorem DL.getElem? {B : Nat} {l : List Node} (h : DL B l) {k : Nat} {x : Node} (hx : l[k]? = some x) :
    idepth x ≤ B := h x (List.mem_of_getElem? hx)

theorem DL.list {B : Nat} {l : List Node} (h : DL B l) : idepthList l ≤ B := (idepthList_le_iff B l).mpr h

/-- value replaced by one that does not weigh more, children kept -/
theorem idepth_withVal {n : Node} {v : Val} (hv : v.wcost ≤ n.val.wcost) (r : Option (Nat × Nat)) :
    idepth { n with val := v, range := r } ≤ idepth n := by
  rw [idepth_eq, idepth_eq]; simp only; omega

theorem isText_wcost {n : Node} (h : n.isText = true) : n.val.wcost = 1 := by
  unfold Node.isText at h
  split at h
  · next hv => rw [hv]; rfl
  · cases h

theorem asMarker_wcost {n : Node} {m : Marker} (h : n.asMarker = some m) : n.val.wcost = 1 := by
  rw [asMarker_val h]; rfl

theorem idepth_leaf (v : Val) (r : Option (Nat × Nat)) : idepth (Node.leaf v r) ≤ 1 := by
  have := v.wcost_le_one
  simp [Node.leaf, idepth, idepthList]; omega

theorem idepth_newText (c : List Char) (r : Option (Nat × Nat)) : idepth (Node.newText c r) = 1 := by
  simp [Node.newText, idepth, idepthList, Val.wcost]

/-! ## trailing text -/

theorem trailingTextPush_depth {B : Nat} (hB : 1 ≤ B) {src : List Char} {m : Srcmap}
    {cs out : List Node} {a b : Nat} (h : trailingTextPush src m cs a b = .ok out)
    (hc : DL B cs) : DL B out := by
  have hfresh : ∀ out, (match liftOps (slice src a b) with
      | .error e => (.error e : Except RPanic (List Node))
      | .ok piece =>
        match liftOps (getMap m a b) with
        | .error e => .error e
        | .ok r => .ok (cs ++ [Node.newText piece (some r)])) = .ok out → DL B out := by
    intro out h
    split at h
    · simp at h
    · split at h
      · simp at h
      · simp only [Except.ok.injEq] at h; subst h
        exact hc.push (by rw [idepth_newText]; exact hB)
  unfold trailingTextPush at h
  simp only at h
  rcases popLast_spec cs with ⟨hp, _⟩ | ⟨init, last, hp, hcs⟩
  · rw [hp] at h; exact hfresh out h
  · rw [hp] at h
    simp only at h
    subst hcs
    have hlast : idepth last ≤ B := hc.last
    split at h
    · next hist =>
      have hw := isText_wcost hist
      split at h
      · simp at h
      · split at h
        · simp only [Except.ok.injEq] at h; subst h
          refine hc.left.push (Nat.le_trans ?_ hlast)
          rw [idepth_eq, idepth_eq, hw]; simp only [Val.wcost]; omega
        · split at h
          · simp at h
          · simp only [Except.ok.injEq] at h; subst h
            refine hc.left.push (Nat.le_trans ?_ hlast)
            rw [idepth_eq, idepth_eq, hw]; simp only [Val.wcost]; omega
    · exact hfresh out h

theorem pushText_depth {B : Nat} (hB : 1 ≤ B) {st st' : IState} {a b : Nat}
    (h : st.pushText a b = .ok st') (hc : DL B st.children) : DL B st'.children := by
  obtain ⟨cs, hcs, rfl⟩ := pushText_eq h
  exact trailingTextPush_depth hB hcs hc

theorem trailingTextPop_depth {B : Nat} {cs out : List Node} {count : Nat}
    (h : trailingTextPop cs count = .ok out) (hc : DL B cs) : DL B out := by
  unfold trailingTextPop at h
  split at h
  · simp only [Except.ok.injEq] at h; subst h; exact hc
  · rcases popLast_spec cs with ⟨hp, _⟩ | ⟨init, last, hp, hcs⟩
    · rw [hp] at h; simp at h
    · rw [hp] at h
      simp only at h
      subst hcs
      have hlast : idepth last ≤ B := hc.last
      split at h
      · simp at h
      · next hist =>
        have hw : last.val.wcost = 1 := isText_wcost (by simpa using hist)
        split at h
        · simp only [Except.ok.injEq] at h; subst h; exact hc.left
        · split at h
          · simp at h
          · split at h
            · simp at h
            · split at h
              · simp only [Except.ok.injEq] at h; subst h
                refine hc.left.push (Nat.le_trans ?_ hlast)
                rw [idepth_eq, idepth_eq, hw]; simp only [Val.wcost]; omega
              · split at h
                · simp at h
                · simp only [Except.ok.injEq] at h; subst h
                  refine hc.left.push (Nat.le_trans ?_ hlast)
                  rw [idepth_eq, idepth_eq, hw]; simp only [Val.wcost]; omega

/-! ## the rules without look-ahead recursion (real or silent mode) -/

theorem ruleText_depth {B : Nat} (hB : 1 ≤ B) {st st' : IState} {silent : Bool}
    {o : Option Nat} (h : ruleText st silent = .ok (o, st')) (hc : DL B st.children) :
    DL B st'.children := by
  unfold ruleText at h
  split at h
  · simp at h
  · simp only at h
    split at h
    · simp only [Except.ok.injEq, Prod.mk.injEq] at h; rw [← h.2]; exact hc
    · split at h
      · simp only [Except.ok.injEq, Prod.mk.injEq] at h; rw [← h.2]; exact hc
      · split at h
        · simp at h
        · next st2 hp =>
          simp only [Except.ok.injEq, Prod.mk.injEq] at h; rw [← h.2]
          exact pushText_depth hB hp hc

theorem ruleNewline_depth {B : Nat} (hB : 1 ≤ B) {st st' : IState}
    {silent : Bool} {o : Option Nat} (h : ruleNewline st silent = .ok (o, st')) (hc : DL B st.children) :
    DL B st'.children := by
  unfold ruleNewline at h
  split at h
  · simp at h
  · simp at h
  · split at h
    · simp only [Except.ok.injEq, Prod.mk.injEq] at h; rw [← h.2]; exact hc
    · simp only at h
      split at h
      · simp only [Except.ok.injEq, Prod.mk.injEq] at h; rw [← h.2]; exact hc
      · split at h
        · simp at h
        · next cs hpop =>
          split at h
          · simp at h
          · split at h
            · simp at h
            · simp only [Except.ok.injEq, Prod.mk.injEq] at h; rw [← h.2]
              exact (trailingTextPop_depth hpop hc).push (Nat.le_trans (idepth_leaf _ _) hB)

theorem ruleEscape_depth {B : Nat} (hB : 1 ≤ B) {st st' : IState}
    {silent : Bool} {o : Option Nat} (h : ruleEscape st silent = .ok (o, st')) (hc : DL B st.children) :
    DL B st'.children := by
  unfold ruleEscape at h
  split at h
  · simp at h
  · split at h
    · simp at h
    · simp only [Except.ok.injEq, Prod.mk.injEq] at h; rw [← h.2]; exact hc
    · split at h
      · simp only [Except.ok.injEq, Prod.mk.injEq] at h; rw [← h.2]; exact hc
      · split at h
        · simp at h
        · simp only [Except.ok.injEq, Prod.mk.injEq] at h; rw [← h.2]
          exact hc.push (Nat.le_trans (idepth_leaf _ _) hB)
    · simp only at h
      split at h
      · simp only [Except.ok.injEq, Prod.mk.injEq] at h; rw [← h.2]; exact hc
      · split at h
        · simp at h
        · simp only [Except.ok.injEq, Prod.mk.injEq] at h; rw [← h.2]
          exact hc.push (Nat.le_trans (idepth_leaf _ _) hB)

theorem ruleEntity_depth {cfg : Cfg} {B : Nat} (hB : 1 ≤ B) {st st' : IState}
    {silent : Bool} {o : Option Nat} (h : ruleEntity cfg st silent = .ok (o, st')) (hc : DL B st.children) :
    DL B st'.children := by
  unfold ruleEntity at h
  split at h
  · simp at h
  · split at h
    · simp at h
    · split at h
      · simp only [Except.ok.injEq, Prod.mk.injEq] at h; rw [← h.2]; exact hc
      · split at h
        · simp at h
        · split at h
          · simp at h
          · simp only [Except.ok.injEq, Prod.mk.injEq] at h; rw [← h.2]; exact hc
          · simp only at h
            split at h
            · simp only [Except.ok.injEq, Prod.mk.injEq] at h; rw [← h.2]; exact hc
            · split at h
              · simp at h
              · simp only [Except.ok.injEq, Prod.mk.injEq] at h; rw [← h.2]
                exact hc.push (Nat.le_trans (idepth_leaf _ _) hB)

theorem ruleBackticks_depth {B : Nat} (hB : 2 ≤ B) {st st' : IState}
    {silent : Bool} {o : Option Nat} (h : ruleBackticks st silent = .ok (o, st')) (hc : DL B st.children) :
    DL B st'.children := by
  unfold ruleBackticks at h
  split at h
  · simp at h
  · simp only [Except.ok.injEq, Prod.mk.injEq] at h; rw [← h.2]; exact hc
  · split at h
    · simp only [Except.ok.injEq, Prod.mk.injEq] at h; rw [← h.2]; exact hc
    · split at h
      · simp at h
      · split at h
        · simp at h
        · simp only [Except.ok.injEq, Prod.mk.injEq] at h; rw [← h.2]
          refine hc.push ?_
          simp [idepth, idepthList, Val.wcost, Node.newText]; omega

theorem ruleAutolink_depth {B : Nat} (hB : 2 ≤ B) {st st' : IState}
    {silent : Bool} {o : Option Nat} (h : ruleAutolink st silent = .ok (o, st')) (hc : DL B st.children) :
    DL B st'.children := by
  unfold ruleAutolink at h
  split at h
  · simp at h
  · simp at h
  · split at h
    · simp only [Except.ok.injEq, Prod.mk.injEq] at h; rw [← h.2]; exact hc
    · split at h
      · simp only [Except.ok.injEq, Prod.mk.injEq] at h; rw [← h.2]; exact hc
      · split at h
        · simp at h
        · simp only at h
          split at h
          · simp only [Except.ok.injEq, Prod.mk.injEq] at h; rw [← h.2]; exact hc
          · split at h
            · simp only [Except.ok.injEq, Prod.mk.injEq] at h; rw [← h.2]; exact hc
            · next full hd =>
              split at h
              · simp only [Except.ok.injEq, Prod.mk.injEq] at h; rw [← h.2]; exact hc
              · split at h
                · simp at h
                · split at h
                  · simp at h
                  · simp only [Except.ok.injEq, Prod.mk.injEq] at h; rw [← h.2]
                    refine hc.push ?_
                    simp [idepth, idepthList, Val.wcost, Node.newText]; omega

/-! ## delimiter matching

  >>> ADAPTATION POINT.  The lemmas from here to `ruleEmph_depth` (`HeavyAt`, `matchInner_depth`,
  `matchOuter_depth`, `scanAndMatch_depth`, `ruleEmph_depth`) are the ONLY ones of the C02Doc
  development that unfold `matchInner` / `matchOuter` / `scanAndMatch` / `ruleEmph`.  Everything else
  uses them through `ruleEmph_depth` alone.  When the delimiter matcher of the model changes (a
  nesting limit for the wrappers), only this section has to be replayed: the statements stay the
  same — they are about the depth NOT counting `.wrap` nodes, which no change to the wrapping
  discipline affects (a wrapper weighs 0 wherever it is put). <<< -/

/-- the node at index `idx` is not a wrapper (it is the opener marker) -/
def HeavyAt (cs : List Node) (idx : Nat) : Prop := ∃ n, cs[idx]? = some n ∧ n.val.wcost = 1

theorem matchInner_depth {B : Nat} (fns : Nat → Option Wrap) (mk : Char) (room idx : Nat) :
    ∀ (fuel : Nat) (opener : Marker) (ms : MatchSt) (opener' : Marker) (ms' : MatchSt),
      matchInner fns mk room idx fuel opener ms = .ok (opener', ms') →
      DL B ms.children → (opener.remaining > 0 → HeavyAt ms.children idx) →
      DL B ms'.children ∧ (opener'.remaining > 0 → HeavyAt ms'.children idx) := by
  intro fuel
  induction fuel with
  | zero =>
    intro opener ms opener' ms' h hd hh
    simp only [matchInner, Except.ok.injEq, Prod.mk.injEq] at h
    obtain ⟨rfl, rfl⟩ := h; exact ⟨hd, hh⟩
  | succ fuel ih =>
    intro opener ms opener' ms' h hd hh
    unfold matchInner at h
    split at h
    · next hcond =>
      -- the nesting-limit `break` returns the state unchanged
      split at h
      · simp only [Except.ok.injEq, Prod.mk.injEq] at h
        obtain ⟨rfl, rfl⟩ := h; exact ⟨hd, hh⟩
      simp only at h
      split at h
      · simp only [Except.ok.injEq, Prod.mk.injEq] at h
        obtain ⟨rfl, rfl⟩ := h; exact ⟨hd, hh⟩
      · next ml w hpick =>
        split at h
        · simp at h
        · split at h
          · simp at h
          · next hlen =>
            split at h
            · simp at h
            · next init otok hpop =>
              have hhead : ms.children.take (idx + 1) = init ++ [otok] := by
                rcases popLast_spec (ms.children.take (idx + 1)) with ⟨hp, _⟩ | ⟨i, l, hp, hl⟩
                · rw [hp] at hpop; simp at hpop
                · rw [hp] at hpop; simp only [Option.some.injEq, Prod.mk.injEq] at hpop
                  rw [hl, hpop.1, hpop.2]
              have hheadOK : DL B (init ++ [otok]) := by
                rw [← hhead]; exact hd.take _
              have hil : init.length = idx := by
                have := congrArg List.length hhead
                simp only [List.length_take, List.length_append, List.length_cons, List.length_nil] at this
                omega
              have hat : ms.children[idx]? = some otok := by
                have h1 : (ms.children.take (idx + 1))[idx]? = ms.children[idx]? := by
                  rw [List.getElem?_take]; simp
                rw [← h1, hhead, ← hil]; simp
              have hwo : otok.val.wcost = 1 := by
                obtain ⟨n, hn, hw⟩ := hh hcond.2
                rw [hat] at hn; simp only [Option.some.injEq] at hn; subst hn; exact hw
              split at h
              · simp at h
              · next otok' smp hcut =>
                have hotok' : idepth otok' = idepth otok ∧ otok'.val = otok.val := by
                  split at hcut
                  · split at hcut
                    · simp at hcut
                    · simp only [Except.ok.injEq, Prod.mk.injEq] at hcut
                      rw [← hcut.1, idepth_eq, idepth_eq]; exact ⟨rfl, rfl⟩
                  · simp only [Except.ok.injEq, Prod.mk.injEq] at hcut
                    rw [← hcut.1]; exact ⟨rfl, rfl⟩
                have hnew : idepth { val := Val.wrap w mk, range := some (smp,
                    (match ms.closerRange with
                      | some (s, e) => (some (s + ml, e), s + ml)
                      | none => (none, 0)).2), children := ms.children.drop (idx + 1) } ≤ B := by
                  rw [idepth_eq]; simp only [Val.wcost]
                  have := (hd.drop (idx + 1)).list
                  omega
                refine ih _ _ _ _ h ?_ ?_
                · simp only
                  refine DL.push ?_ hnew
                  split
                  · exact hheadOK.left
                  · exact hheadOK.left.push (by rw [hotok'.1]; exact hheadOK.last)
                · intro hrem
                  simp only at hrem ⊢
                  refine ⟨otok', ?_, by rw [hotok'.2]; exact hwo⟩
                  rw [if_neg (by omega)]
                  rw [← hil]; simp
    · simp only [Except.ok.injEq, Prod.mk.injEq] at h
      obtain ⟨rfl, rfl⟩ := h; exact ⟨hd, hh⟩

theorem matchOuter_depth {B : Nat} (fns : Nat → Option Wrap) (mk : Char) (room minIdx : Nat) :
    ∀ (k : Nat) (ms ms' : MatchSt), matchOuter fns mk room minIdx k ms = .ok ms' →
      DL B ms.children → DL B ms'.children := by
  intro k
  induction k with
  | zero =>
    intro ms ms' h hm
    simp only [matchOuter, Except.ok.injEq] at h; subst h; exact hm
  | succ k ih =>
    intro ms ms' h hm
    unfold matchOuter at h
    simp only at h
    -- the read of `children[idx + 1]` (for `inner_depth`) changes no node
    split at h
    · simp at h
    next nxt hnxt =>
    split at h
    · simp at h
    · next tok htok =>
      split at h
      · exact ih _ _ h hm
      · next opener hop =>
        have hheavy : HeavyAt ms.children (minIdx + k) := ⟨tok, htok, asMarker_wcost hop⟩
        split at h
        · simp at h
        · next opener' ms1 hgo =>
          have hgo' : DL B ms1.children ∧ (opener'.remaining > 0 → HeavyAt ms1.children (minIdx + k)) := by
            split at hgo
            · exact matchInner_depth fns mk _ _ _ _ _ _ _ hgo hm (fun _ => hheavy)
            · simp only [Except.ok.injEq, Prod.mk.injEq] at hgo
              obtain ⟨rfl, rfl⟩ := hgo; exact ⟨hm, fun _ => hheavy⟩
          split at h
          · next hrem =>
            split at h
            · simp at h
            · next cs hrep =>
              refine ih _ _ h ?_
              unfold replaceAt at hrep
              split at hrep
              · simp at hrep
              · next n hn =>
                simp only [Except.ok.injEq] at hrep; subst hrep
                refine hgo'.1.set _ ?_
                obtain ⟨n', hn', hw⟩ := hgo'.2 hrem
                rw [hn] at hn'; simp only [Option.some.injEq] at hn'; subst hn'
                have := hgo'.1.getElem? hn
                rw [idepth_eq, hw] at this
                rw [idepth_eq]
                simp only [Marker.toVal, Val.wcost]
                omega
          · exact ih _ _ h hgo'.1

theorem scanAndMatch_depth {B : Nat} {fns : Nat → Option Wrap} {mk : Char} {room : Nat}
    {cs out : List Node}
    {b b' : List (Char × List Nat)} (h : scanAndMatch fns mk room cs b = .ok (out, b'))
    (hc : DL B cs) : DL B out := by
  unfold scanAndMatch at h
  split at h
  · simp only [Except.ok.injEq, Prod.mk.injEq] at h; rw [← h.1]; exact hc
  · split at h
    · simp at h
    · next init closerTok hpop =>
      have hcs : cs = init ++ [closerTok] := by
        rcases popLast_spec cs with ⟨hp, _⟩ | ⟨i, l, hp, hl⟩
        · rw [hp] at hpop; simp at hpop
        · rw [hp] at hpop; simp only [Option.some.injEq, Prod.mk.injEq] at hpop
          rw [hl, hpop.1, hpop.2]
      subst hcs
      have hct : idepth closerTok ≤ B := hc.last
      split at h
      · simp at h
      · next closer hcl =>
        have hw := asMarker_wcost hcl
        simp only at h
        split at h
        · simp at h
        · split at h
          · simp at h
          · split at h
            · simp at h
            · next ms hms =>
              have hok := matchOuter_depth fns mk _ _ _ _ _ hms hc.left
              split at h
              · simp only [Except.ok.injEq, Prod.mk.injEq] at h; rw [← h.1]
                refine hok.push (Nat.le_trans ?_ hct)
                rw [idepth_eq, idepth_eq, hw]; simp only [Marker.toVal, Val.wcost]; omega
              · simp only [Except.ok.injEq, Prod.mk.injEq] at h; rw [← h.1]; exact hok

theorem ruleEmph_depth {cfg : Cfg} {B : Nat} (hB : 1 ≤ B) {mk : Char} {csw : Bool}
    {st st' : IState} {silent : Bool} {o : Option Nat}
    (h : ruleEmph cfg mk csw st silent = .ok (o, st')) (hc : DL B st.children) : DL B st'.children := by
  unfold ruleEmph at h
  split at h
  · simp only [Except.ok.injEq, Prod.mk.injEq] at h; rw [← h.2]; exact hc
  · split at h
    · simp at h
    · simp at h
    · split at h
      · simp only [Except.ok.injEq, Prod.mk.injEq] at h; rw [← h.2]; exact hc
      · split at h
        · simp at h
        · next scanned hsc =>
          split at h
          · simp at h
          · next r hr =>
            have hpush : DL B (st.push (Node.leaf (.emphMarker mk scanned.length scanned.length
                scanned.canOpen scanned.canClose) (some r))).children :=
              hc.push (Nat.le_trans (idepth_leaf _ _) hB)
            simp only at h
            split at h
            · split at h
              · simp at h
              · next cs b hsm =>
                simp only [Except.ok.injEq, Prod.mk.injEq] at h; rw [← h.2]
                exact scanAndMatch_depth hsm hpush
            · simp only [Except.ok.injEq, Prod.mk.injEq] at h; rw [← h.2]; exact hpush

/-! ## the link rule, the chain, one step of the loop, the induction on fuel -/

/-- what the link rule needs of the nested tokenizer: the level comes back, and a tokenizer entered
    at level `l` keeps every bound `≥ (N - l) + 1` -/
def TokDI (N : Nat) (tok : IState → Except Panic IState) : Prop :=
  ∀ s s', tok s = .ok s' → s'.level = s.level ∧
    ∀ B, N - s.level + 1 ≤ B → DL B s.children → DL B s'.children

theorem linkRule_depth {cfg : Cfg} {N B : Nat} {skip tok : IState → Except Panic IState}
    (hq : CalmFn skip) (ht : TokDI N tok) {fuel : Nat} {mk : List Nat → Option (List Char) → Val}
    {en : Bool} {offset : Nat} {st : IState} {o : Option Nat} {st' : IState}
    (h : linkRule cfg skip tok fuel mk en offset st false = .ok (o, st'))
    (hl : st.level < N) (hB : N - st.level + 1 ≤ B) (hc : DL B st.children) :
    DL B st'.children ∧ st'.level = st.level := by
  unfold linkRule at h
  simp only at h
  split at h
  · simp at h
  · next st1 hpl =>
    simp only [Except.ok.injEq, Prod.mk.injEq] at h; rw [← h.2]
    have q := parseLink_calm hq hpl
    exact ⟨by rw [q.children]; exact hc, q.level⟩
  · next res st1 hpl =>
    have q := parseLink_calm hq hpl
    have hc1 : DL B st1.children := by rw [q.children]; exact hc
    simp only [Bool.false_eq_true, ↓reduceIte] at h
    split at h
    · simp at h
    · next st3 htok =>
      obtain ⟨hl3, hd3⟩ := ht _ _ htok
      simp only at hl3 hd3
      have hc3 : DL (B - 1) st3.children := hd3 (B - 1) (by rw [q.level]; omega) DL.nil
      split at h
      · simp at h
      · split at h
        · simp at h
        · split at h
          · simp at h
          · simp only [Except.ok.injEq, Prod.mk.injEq] at h; rw [← h.2]
            refine ⟨?_, ?_⟩
            · simp only
              refine hc1.push ?_
              rw [idepth_eq]; simp only
              have := hc3.list
              have := (mk (res.href.getD []) res.title).wcost_le_one
              omega
            · simp only
              rw [hl3, q.level]; omega

theorem runRule_depth {cfg : Cfg} {N B : Nat} {skip tok : IState → Except Panic IState}
    (hq : CalmFn skip) (ht : TokDI N tok) {fuel : Nat} {id : RuleId} {st : IState} {o : Option Nat}
    {st' : IState} (h : runRule cfg skip tok fuel id st false = .ok (o, st'))
    (hl : st.level < N) (hB : N - st.level + 1 ≤ B) (hc : DL B st.children) :
    DL B st'.children ∧ st'.level = st.level := by
  have hB1 : 1 ≤ B := by omega
  have hB2 : 2 ≤ B := by omega
  unfold runRule at h
  cases id with
  | text =>
    have h' := liftR_ok.mp h
    exact ⟨ruleText_depth hB1 h' hc, (ruleText_simple h').frame.level⟩
  | newline =>
    have h' := liftR_ok.mp h
    exact ⟨ruleNewline_depth hB1 h' hc, (ruleNewline_simple h').frame.level⟩
  | escape =>
    have h' := liftR_ok.mp h
    exact ⟨ruleEscape_depth hB1 h' hc, (ruleEscape_simple h').frame.level⟩
  | backticks =>
    have h' := liftR_ok.mp h
    exact ⟨ruleBackticks_depth hB2 h' hc, (ruleBackticks_simple h').frame.level⟩
  | emph mk csw =>
    have h' := liftR_ok.mp h
    exact ⟨ruleEmph_depth hB1 h' hc, (ruleEmph_simple h').frame.level⟩
  | link =>
    simp only at h
    unfold ruleLink at h
    split at h
    · simp at h
    · simp at h
    · split at h
      · simp only [Except.ok.injEq, Prod.mk.injEq] at h; rw [← h.2]
        exact ⟨hc, rfl⟩
      · exact linkRule_depth hq ht h hl hB hc
  | image =>
    simp only at h
    unfold ruleImage at h
    split at h
    · simp at h
    · exact linkRule_depth hq ht h hl hB hc
    · simp only [Except.ok.injEq, Prod.mk.injEq] at h; rw [← h.2]
      exact ⟨hc, rfl⟩
  | linkEnd =>
    simp only [Except.ok.injEq, Prod.mk.injEq] at h; rw [← h.2]
    exact ⟨hc, rfl⟩
  | autolink =>
    have h' := liftR_ok.mp h
    exact ⟨ruleAutolink_depth hB2 h' hc, (ruleAutolink_simple h').frame.level⟩
  | entity =>
    have h' := liftR_ok.mp h
    exact ⟨ruleEntity_depth hB1 h' hc, (ruleEntity_simple h').frame.level⟩

theorem firstRule_depth {N B : Nat} {run : RuleId → IState → RuleRes}
    (hrun : ∀ id s o s', run id s = .ok (o, s') → s.level < N → N - s.level + 1 ≤ B →
      DL B s.children → DL B s'.children ∧ s'.level = s.level) :
    ∀ (rules : List RuleId) (st : IState) (o : Option Nat) (st' : IState),
      firstRule run rules st = .ok (o, st') → st.level < N → N - st.level + 1 ≤ B →
      DL B st.children → DL B st'.children ∧ st'.level = st.level := by
  intro rules
  induction rules with
  | nil =>
    intro st o st' h _ _ hc
    simp only [firstRule, Except.ok.injEq, Prod.mk.injEq] at h; rw [← h.2]
    exact ⟨hc, rfl⟩
  | cons r rs ih =>
    intro st o st' h hl hB hc
    unfold firstRule at h
    split at h
    · simp at h
    · next n st1 hr =>
      simp only [Except.ok.injEq, Prod.mk.injEq] at h; rw [← h.2]
      exact hrun r _ _ _ hr hl hB hc
    · next st1 hr =>
      obtain ⟨c1, l1⟩ := hrun r _ _ _ hr hl hB hc
      obtain ⟨c2, l2⟩ := ih _ _ _ h (by rw [l1]; exact hl) (by rw [l1]; exact hB) c1
      exact ⟨c2, l2.trans l1⟩

theorem tokStep_depth {cfg : Cfg} {B : Nat} {skip tok : IState → Except Panic IState}
    (hq : CalmFn skip) (ht : TokDI cfg.maxNesting tok) {fuel : Nat}
    {st st' : IState} (h : tokStep cfg skip tok fuel st = .ok st')
    (hB : cfg.maxNesting - st.level + 1 ≤ B) (hc : DL B st.children) :
    DL B st'.children ∧ st'.level = st.level := by
  unfold tokStep at h
  simp only at h
  have hchain : ∀ o st1, (if st.level < cfg.maxNesting then
        firstRule (fun id s => runRule cfg skip tok fuel id s false) cfg.chain st
      else .ok (none, st)) = .ok (o, st1) → DL B st1.children ∧ st1.level = st.level := by
    intro o st1 hok
    split at hok
    · next hl =>
      exact firstRule_depth (N := cfg.maxNesting)
        (fun id s o s' hr hl hB hcs => runRule_depth hq ht hr hl hB hcs) _ _ _ _ hok hl hB hc
    · simp only [Except.ok.injEq, Prod.mk.injEq] at hok; rw [← hok.2]; exact ⟨hc, rfl⟩
  split at h
  · simp at h
  · next len st1 hok =>
    simp only [Except.ok.injEq] at h; rw [← h]
    exact hchain (some len) st1 hok
  · next st1 hok =>
    obtain ⟨hc1, hl1⟩ := hchain _ _ hok
    split at h
    · simp at h
    · split at h
      · simp at h
      · next st2 hp =>
        simp only [Except.ok.injEq] at h; rw [← h]
        obtain ⟨cs, hcs, rfl⟩ := pushText_eq (liftR_ok.mp hp)
        exact ⟨trailingTextPush_depth (by omega) hcs hc1, hl1⟩

/-- **the depth invariant through the whole inline tokenizer** (partial correctness, any fuel):
    `tokenize` hands the level back and, entered at level `l`, keeps every bound
    `≥ (max_nesting - l) + 1` on the wrapper-free depth of the children of the current node -/
theorem depth_induction (cfg : Cfg) : ∀ (fuel e : Nat) (st st' : IState),
    tokLoop cfg fuel e st = .ok st' → st'.level = st.level ∧
      ∀ B, cfg.maxNesting - st.level + 1 ≤ B → DL B st.children → DL B st'.children := by
  intro fuel
  induction fuel with
  | zero =>
    intro e st st' h
    unfold tokLoop at h
    split at h
    · simp at h
    · simp only [Except.ok.injEq] at h; rw [← h]; exact ⟨rfl, fun _ _ hc => hc⟩
  | succ f ih =>
    have ht : TokDI cfg.maxNesting (fun s => tokLoop cfg f s.posMax s) := fun s s' h => ih _ _ _ h
    have hq := skipToken_calm cfg f
    intro e st st' h
    unfold tokLoop at h
    split at h
    · simp only at h
      split at h
      · simp at h
      · next st1 hstep =>
        obtain ⟨hl2, hd2⟩ := ih _ _ _ h
        refine ⟨?_, ?_⟩
        · have hl1 := (tokStep_depth (B := max (cfg.maxNesting - st.level + 1) (idepthList st.children))
            hq ht hstep (Nat.le_max_left _ _)
            (fun c hc => Nat.le_trans ((idepthList_le_iff _ _).mp (Nat.le_refl _) c hc)
              (Nat.le_max_right _ _))).2
          exact hl2.trans hl1
        · intro B hB hc
          obtain ⟨hc1, hl1⟩ := tokStep_depth hq ht hstep hB hc
          exact hd2 B (by rw [hl1]; exact hB) hc1
    · simp only [Except.ok.injEq] at h; rw [← h]; exact ⟨rfl, fun _ _ hc => hc⟩

end MdIt.Inline
