/-
  C05 for ALL sources (tabs split or not), after `fix:` "positions inside the virtual spaces of a
  split tab" (`get_source_pos_for` clamped): shared definitions — the interfaces between
    * the table side (Lemmas/C05TabsTable.lean: what `get_lines` guarantees about virtual-space
      entries, `VirtSp`, `PTabs`; Lemmas/C05TabsShift.lean: the translation is a shift on every
      stretch that starts with a "solid" character and holds no line feed, `MapT`),
    * the inline side (Lemmas/C05TabsRanges*.lean: the frame invariant `Inline.RI` of
      Lemmas/InlineRanges2.lean through the whole tokenizer for tables that are only `MapT`).
-/
import MdIt.Props.C05Rest

namespace MdIt.C05T
open MdIt.InlineOps (Srcmap getSourcePosFor byteLen)
open MdIt.Inline (Node Val IState)
open MdIt.C05R (Cut)

/-- the character `x` starts at byte `p` of `s` -/
def CharAt (s : List Char) (p : Nat) (x : Char) : Prop :=
  ∃ pre post, s = pre ++ x :: post ∧ byteLen pre = p

/-- what the inline range theorems need of a per-line table `m` for the inline text `c` — weaker
    than `Inline.MapOK` (which fails when a tab is split):
    `mono`  the translation is monotone EVERYWHERE (`C05.translate_mono_all`);
    `shift` on a stretch `c[p..q]` that starts with a character other than blank-space and line feed
            and holds no line feed, the translation is a shift (no table key, no virtual space and
            no clamping inside: virtual spaces are spaces directly behind a line feed). -/
structure MapT (c : List Char) (m : Srcmap) : Prop where
  wf : C05.WFMap m
  mono : ∀ p p' x x', p ≤ p' → getSourcePosFor m p = .ok x → getSourcePosFor m p' = .ok x' → x ≤ x'
  shift : ∀ p q ch0 w p1 p2 x1 x2, Cut c p q (ch0 :: w) → ch0 ≠ ' ' → ch0 ≠ '\n' → '\n' ∉ w →
    p ≤ p1 → p1 ≤ p2 → p2 ≤ q → getSourcePosFor m p1 = .ok x1 → getSourcePosFor m p2 = .ok x2 →
    x2 = x1 + (p2 - p1)

/-- the virtual-space entries of a `get_lines` table: two consecutive entries `(k0, v)`, `(k, v)`
    with the SAME source offset; the inline text between the two keys consists of spaces (`sp`) and
    starts a line of the inline text (`ls`) -/
structure VirtSp (c : List Char) (m : Srcmap) : Prop where
  sp : ∀ i k0 v k, m[i]? = some (k0, v) → m[i + 1]? = some (k, v) →
    ∀ p, k0 ≤ p → p < k → CharAt c p ' '
  ls : ∀ i k0 v k, m[i]? = some (k0, v) → m[i + 1]? = some (k, v) →
    k0 = 0 ∨ CharAt c (k0 - 1) '\n'

/-- every emphasis-like rule of the chain has a single-byte marker that is neither the line feed
    nor the space (`*`, `_`, `~` in the shipped plugins) -/
def SolidMarkers (chain : List Inline.RuleId) : Prop :=
  ∀ mk csw, Inline.RuleId.emph mk csw ∈ chain → mk.utf8Size = 1 ∧ mk ≠ '\n' ∧ mk ≠ ' '

/-- the frame invariant for `MapT` tables: `Inline.RI` (Lemmas/InlineRanges2.lean) plus: in a frame
    where the newline rule is active (`A`), a trailing `Text` holds no line feed -/
structure RIv (A : Prop) (src : List Char) (m : Srcmap) (lo pos : Nat) (cs : List Node) : Prop where
  ri : Inline.RI src m lo pos cs
  nolf : A → ∀ init last, cs = init ++ [last] → last.isText = true → '\n' ∉ last.content

end MdIt.C05T

namespace MdIt.Block

/-- the claim about a placeholder for ALL sources: `PMapF`, every position of the content translates
    to `≤ b` (`UpToAll`, with the clamp), and the virtual-space entries are spaces at line starts -/
def PTabs (src0 : List Char) : InlP := fun c m a b =>
  PMapF src0 c m a b ∧ C05I.UpToAll c m b ∧ C05T.VirtSp c m

end MdIt.Block
