/-
  The inline node-SHAPE invariant (`Lemmas/C14DocShape.lean`: `Inline.shape_induction`, `parseInline_shapes`)
  lifted to the inline parser with the raw-HTML rule (`Model/InlineH.lean`): `runRule_shape` applies verbatim,
  the html rule pushes a childless `special`, the chain layer and the fuel induction are re-proved over
  `firstRuleG` / `tokStepG` / `tokLoopH` (`skipTokenH_calm` is `Props/InlineH.lean`).
-/
import MdIt.Props.InlineH
import MdIt.Lemmas.C14DocShape

/-! ### the inline shape invariant with the html rule (`Lemmas/C14DocShape.lean` lifted) -/
namespace MdIt.InlineH
open MdIt.Inline
open MdIt.InlineOps (Srcmap)

theorem htmlRule_shape {st st' : IState} {silent : Bool} {o : Option Nat}
    (h : htmlRule st silent = .ok (o, st')) (hc : AllShapeList st.children) : AllShapeList st'.children := by
  rcases htmlRule_cases h with ⟨_, rfl⟩ | ⟨n, _, _, rfl⟩ | ⟨n, ll, nd, _, hs, _, rfl⟩
  · exact hc
  · exact hc
  · exact AllShapeList.append hc (AllShapeList.single (allShape_leaf (by simp [htmlVal, ShapeOK]) _))

theorem runRuleH_shape {cfg : Cfg} {skip tok : IState → Except Panic IState} (hq : CalmFn skip)
    (ht : ShapeFn tok) {fuel : Nat} {id : RuleIdH} {st : IState} {silent : Bool} {o : Option Nat}
    {st' : IState} (h : runRuleH cfg skip tok fuel id st silent = .ok (o, st'))
    (hc : AllShapeList st.children) : AllShapeList st'.children := by
  cases id with
  | base r => exact runRule_shape hq ht h hc
  | html => exact htmlRule_shape h hc

theorem firstRuleG_shape {ι : Type} {run : ι → IState → RuleRes} (rules : List ι)
    (hrun : ∀ id ∈ rules, ∀ s o s', run id s = .ok (o, s') → AllShapeList s.children →
      AllShapeList s'.children) :
    ∀ (st : IState) (o : Option Nat) (st' : IState), firstRuleG run rules st = .ok (o, st') →
      AllShapeList st.children → AllShapeList st'.children := by
  induction rules with
  | nil =>
    intro st o st' h hc
    simp only [firstRuleG, Except.ok.injEq, Prod.mk.injEq] at h; rw [← h.2]; exact hc
  | cons r rs ih =>
    intro st o st' h hc
    unfold firstRuleG at h
    split at h
    · simp at h
    · next n st1 hr =>
      simp only [Except.ok.injEq, Prod.mk.injEq] at h; rw [← h.2]
      exact hrun r (by simp) _ _ _ hr hc
    · next st1 hr =>
      exact ih (fun id hid => hrun id (List.mem_cons_of_mem _ hid)) _ _ _ h
        (hrun r (by simp) _ _ _ hr hc)

theorem tokStepG_shape {cfg : Cfg} {chain : List RuleIdH} {skip tok : IState → Except Panic IState}
    (hq : CalmFn skip) (ht : ShapeFn tok) {fuel : Nat} {st st' : IState}
    (h : tokStepG cfg.maxNesting chain (runRuleH cfg skip tok fuel) st = .ok st')
    (hc : AllShapeList st.children) : AllShapeList st'.children := by
  have hok : ∀ o st1, (if st.level < cfg.maxNesting then
        firstRuleG (fun id s => runRuleH cfg skip tok fuel id s false) chain st
      else .ok (none, st)) = .ok (o, st1) → AllShapeList st1.children := by
    intro o st1 hh
    split at hh
    · exact firstRuleG_shape chain (fun id _ s o s' hr hcs => runRuleH_shape hq ht hr hcs) _ _ _ hh hc
    · simp only [Except.ok.injEq, Prod.mk.injEq] at hh; rw [← hh.2]; exact hc
  unfold tokStepG at h
  simp only at h
  split at h
  · simp at h
  · next len st1 hr =>
    simp only [Except.ok.injEq] at h; rw [← h]
    exact (hok _ _ hr : AllShapeList st1.children)
  · next st1 hr =>
    have hc1 := hok _ _ hr
    split at h
    · simp at h
    · next ch hch =>
      split at h
      · simp at h
      · next st2 hp =>
        simp only [Except.ok.injEq] at h; rw [← h]
        exact (pushText_shape (liftR_ok.mp hp) hc1 : AllShapeList st2.children)

theorem shape_inductionH (cfg : Cfg) (chain : List RuleIdH) : ∀ fuel : Nat, ∀ (e : Nat) (st st' : IState),
    tokLoopH cfg chain fuel e st = .ok st' → AllShapeList st.children → AllShapeList st'.children := by
  intro fuel
  induction fuel with
  | zero =>
    intro e st st' h hc
    unfold tokLoopH at h
    split at h
    · simp at h
    · simp only [Except.ok.injEq] at h; rw [← h]; exact hc
  | succ f ih =>
    intro e st st' h hc
    unfold tokLoopH at h
    split at h
    · simp only at h
      split at h
      · simp at h
      · next st1 hstep =>
        have ht : ShapeFn (fun s => tokLoopH cfg chain f s.posMax s) := fun s s' hh hcs => ih _ _ _ hh hcs
        exact ih _ _ _ h (tokStepG_shape (skipTokenH_calm cfg chain f) ht hstep hc)
    · simp only [Except.ok.injEq] at h; rw [← h]; exact hc

/-- every node the inline parser with the html rule hands out has the shape its value demands (an
    `HtmlInline` — a `special` — is childless) -/
theorem parseInlineH_shapes (cfg : CfgH) {content : List Char} {mapping : Srcmap} {ns : List Node}
    (h : parseInlineH cfg content mapping = .ok ns) : AllShapeList ns := by
  unfold parseInlineH tokenizeH at h
  split at h
  · simp at h
  · next st hst =>
    simp only [Except.ok.injEq] at h; subst h
    exact shape_inductionH cfg.base cfg.chain _ _ _ _ hst (by unfold IState.init; trivial)

end MdIt.InlineH

