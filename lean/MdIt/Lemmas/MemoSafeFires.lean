/-
  Helper development for `Props/MemoSafe.lean`: what `ChainCoherent` (`Props/InlineTotal.lean`) MEANS.

  `RuleId.firesAt id c` lists the first characters at which rule `id` can answer `Some` in look-ahead
  mode.  Here: the list is SOUND — at any other first character the rule declines, whatever
  `skip_token` / `tokenize` it is given (`silent_declines`) — hence, for a `ChainCoherent` chain, at an
  emphasis marker EVERY rule of the chain declines in look-ahead mode (`chain_declines_at_marker`) and
  `skip_token` makes the single-character entry `pos ↦ pos + 1` there (`skipStep_unit_at_marker`):
  the real delimiter run covers single-character look-ahead tokens.  This is the place where
  coherence enters the argument that the real tokenizer follows the look-ahead tiling (L2).
-/
import MdIt.Lemmas.MemoSafeDef
import MdIt.Props.InlineTotal

namespace MdIt.Inline
open MdIt.InlineOps (Srcmap getSourcePosFor getMap byteLen slice)

theorem splitRun_head_false {p : Char → Bool} {c : Char} {r : List Char} (h : p c = false) :
    (Entity.splitRun p (c :: r)).1 = [] := by
  simp [Entity.splitRun, h]

/-- **`firesAt` is sound**: a rule declines in look-ahead mode at a first character not in its list -/
theorem silent_declines {cfg : Cfg} {skip tok : IState → Except Panic IState} {fuel : Nat}
    {id : RuleId} {st : IState} {c : Char} {rest : List Char} (hw : st.window = .ok (c :: rest))
    (hf : id.firesAt c = false) :
    ∀ o st', runRule cfg skip tok fuel id st true = .ok (o, st') → o = none := by
  intro o st' h
  have hsl := window_eq hw
  unfold runRule at h
  cases id with
  | text =>
    have h' := liftR_ok.mp h
    unfold ruleText at h'
    rw [hw] at h'
    simp only at h'
    have hc : (!Entity.textStop.contains c) = false := hf
    rw [splitRun_head_false hc] at h'
    simp only [byteLen, if_true] at h'
    simp only [Except.ok.injEq, Prod.mk.injEq] at h'
    exact h'.1.symm
  | newline =>
    have h' := liftR_ok.mp h
    unfold ruleNewline at h'
    rw [hw] at h'
    simp only at h'
    have hc : c ≠ '\n' := by
      intro e; subst e; simp [RuleId.firesAt] at hf
    rw [if_pos hc] at h'
    simp only [Except.ok.injEq, Prod.mk.injEq] at h'
    exact h'.1.symm
  | escape =>
    have h' := liftR_ok.mp h
    unfold ruleEscape at h'
    rw [hw] at h'
    simp only at h'
    have hc : (c != '\\') = true := by
      simp only [RuleId.firesAt] at hf
      simpa using hf
    have he : Entity.escapeCore (c :: rest) = .ok none := by
      unfold Entity.escapeCore
      simp only [hc, if_true]
    rw [he] at h'
    simp only [Except.ok.injEq, Prod.mk.injEq] at h'
    exact h'.1.symm
  | backticks =>
    have h' := liftR_ok.mp h
    unfold ruleBackticks at h'
    have hc : c ≠ '`' := by
      intro e; subst e; simp [RuleId.firesAt] at hf
    rw [CodePair.run_other CodePair.Variant.current '`' false true st.backticks
      ((codeSlice_eq _ _ _ _).mpr hsl) hc] at h'
    simp only [Except.ok.injEq, Prod.mk.injEq] at h'
    exact h'.1.symm
  | emph mk csw =>
    have h' := liftR_ok.mp h
    rw [ruleEmph_silent] at h'
    simp only [Except.ok.injEq, Prod.mk.injEq] at h'
    exact h'.1.symm
  | link =>
    simp only at h
    unfold ruleLink at h
    rw [hw] at h
    simp only [liftR] at h
    have hc : c ≠ '[' := by
      intro e; subst e; simp [RuleId.firesAt] at hf
    rw [if_pos hc] at h
    simp only [Except.ok.injEq, Prod.mk.injEq] at h
    exact h.1.symm
  | image =>
    simp only at h
    unfold ruleImage at h
    rw [hw] at h
    simp only [liftR] at h
    have hc : c ≠ '!' := by
      intro e; subst e; simp [RuleId.firesAt] at hf
    split at h
    · simp at h
    · next r heq =>
      simp only [Except.ok.injEq, List.cons.injEq] at heq
      exact absurd heq.1 hc
    · simp only [Except.ok.injEq, Prod.mk.injEq] at h
      exact h.1.symm
  | linkEnd =>
    simp only [Except.ok.injEq, Prod.mk.injEq] at h
    exact h.1.symm
  | autolink =>
    have h' := liftR_ok.mp h
    unfold ruleAutolink at h'
    rw [hw] at h'
    simp only at h'
    have hc : c ≠ '<' := by
      intro e; subst e; simp [RuleId.firesAt] at hf
    rw [if_pos hc] at h'
    simp only [Except.ok.injEq, Prod.mk.injEq] at h'
    exact h'.1.symm
  | entity =>
    have h' := liftR_ok.mp h
    unfold ruleEntity at h'
    rw [hw] at h'
    simp only at h'
    have hc : c ≠ '&' := by
      intro e; subst e; simp [RuleId.firesAt] at hf
    rw [if_pos hc] at h'
    simp only [Except.ok.injEq, Prod.mk.injEq] at h'
    exact h'.1.symm

/-- what `ChainCoherent` says about one marker -/
theorem coherent_marker {cfg : Cfg} (hc : ChainCoherent cfg = true) {m : Char} {csw : Bool}
    (hm : RuleId.emph m csw ∈ cfg.chain) :
    m.utf8Size = 1 ∧ ∀ id ∈ cfg.chain, id.firesAt m = false := by
  unfold ChainCoherent at hc
  rw [List.all_eq_true] at hc
  have hmem : m ∈ cfg.emphMarkers := by
    unfold Cfg.emphMarkers
    rw [List.mem_filterMap]
    exact ⟨_, hm, rfl⟩
  have := hc m hmem
  simp only [Bool.and_eq_true, beq_iff_eq, List.all_eq_true, Bool.not_eq_true'] at this
  exact this

theorem coherent_hsz {cfg : Cfg} (hc : ChainCoherent cfg = true) :
    ∀ mk csw, RuleId.emph mk csw ∈ cfg.chain → mk.utf8Size = 1 :=
  fun _ _ h => (coherent_marker hc h).1

theorem window_congr {a b : IState} (h1 : b.src = a.src) (h2 : b.pos = a.pos) (h3 : b.posMax = a.posMax) :
    b.window = a.window := by
  unfold IState.window; rw [h1, h2, h3]

/-- **at an emphasis marker of a coherent chain every rule declines in look-ahead mode** -/
theorem chain_declines_at_marker {cfg : Cfg} (hc : ChainCoherent cfg = true)
    {skip tok : IState → Except Panic IState} (hq : CalmFn skip) (hs : SkipHypT skip) (fuel : Nat)
    {m : Char} {csw : Bool} (hm : RuleId.emph m csw ∈ cfg.chain) {rest : List Char} :
    ∀ (rules : List RuleId), (∀ id ∈ rules, id ∈ cfg.chain) →
      ∀ (st : IState), LInv st → st.window = .ok (m :: rest) →
      ∀ o st', firstRule (fun id s => silentBumped (runRule cfg skip tok fuel id) s) rules st
          = .ok (o, st') →
        o = none ∧ LInv st' ∧ st'.window = .ok (m :: rest) ∧ st'.pos = st.pos := by
  obtain ⟨hsz, hfire⟩ := coherent_marker hc hm
  intro rules
  induction rules with
  | nil =>
    intro _ st hi hw o st' h
    simp only [firstRule, Except.ok.injEq, Prod.mk.injEq] at h
    obtain ⟨rfl, rfl⟩ := h
    exact ⟨rfl, hi, hw, rfl⟩
  | cons r rs ih =>
    intro hall st hi hw o st' h
    have hlt : st.pos < st.posMax := by
      obtain ⟨w, hw2, _, hlen⟩ := hi.window
      rw [hw] at hw2
      simp only [Except.ok.injEq] at hw2
      subst hw2
      simp only [byteLen] at hlen; omega
    -- the call of rule `r`
    have hr : ∀ o1 s1, silentBumped (runRule cfg skip tok fuel r) st = .ok (o1, s1) →
        o1 = none ∧ LInv s1 ∧ s1.window = .ok (m :: rest) ∧ s1.pos = st.pos := by
      intro o1 s1 hb
      have hiB : LInv { st with level := st.level + 1 } :=
        ⟨hi.le, hi.bpos, hi.bmax, hi.wf, hi.stop, hi.memo⟩
      have hwB : ({ st with level := st.level + 1 } : IState).window = .ok (m :: rest) := hw
      have hT := runRule_silent_T (cfg := cfg) (tok := tok) hq hs fuel r _ hiB hlt
      unfold silentBumped at hb
      split at hb
      · simp at hb
      · next r0 s0 he =>
        split at hb
        · simp at hb
        · simp only [Except.ok.injEq, Prod.mk.injEq] at hb
          obtain ⟨rfl, rfl⟩ := hb
          have hnone := silent_declines hwB (hfire r (hall r (by simp))) _ _ he
          obtain ⟨a, b, c, _⟩ := hT.ok _ _ he
          refine ⟨hnone, ⟨a.le, a.bpos, a.bmax, a.wf, a.stop, a.memo⟩, ?_, c⟩
          rw [← hw]
          exact window_congr b.src c b.posMax
    unfold firstRule at h
    split at h
    · simp at h
    · next n st1 he =>
      have := (hr _ _ he).1
      simp at this
    · next st1 he =>
      obtain ⟨_, hi1, hw1, hp1⟩ := hr _ _ he
      obtain ⟨a, b, c, d⟩ := ih (fun id hid => hall id (List.mem_cons_of_mem _ hid)) st1 hi1 hw1 o st' h
      exact ⟨a, b, c, by rw [d, hp1]⟩

/-- **the look-ahead token at an emphasis marker of a coherent chain is the single character**:
    `skip_token` (on a memo miss below the nesting limit) records `pos ↦ pos + 1` -/
theorem skipStep_unit_at_marker {cfg : Cfg} (hc : ChainCoherent cfg = true)
    {skip tok : IState → Except Panic IState} (hq : CalmFn skip) (hs : SkipHypT skip) (fuel : Nat)
    (st : IState) (hi : LInv st) {m : Char} {csw : Bool} (hm : RuleId.emph m csw ∈ cfg.chain)
    {rest : List Char} (hw : st.window = .ok (m :: rest)) :
    ∀ st', skipStep cfg skip tok fuel st = .ok st' →
      st'.pos = st.pos + 1 ∧ st'.cache.lookup st.pos = some (st.pos + 1) := by
  have hsz := (coherent_marker hc hm).1
  intro st' h
  unfold skipStep at h
  simp only at h
  split at h
  · simp at h
  · next len st1 he =>
    have := (chain_declines_at_marker hc hq hs fuel hm cfg.chain (fun _ h => h) st hi hw _ _ he).1
    simp at this
  · next st1 he =>
    obtain ⟨_, _, hw1, hp1⟩ :=
      chain_declines_at_marker hc hq hs fuel hm cfg.chain (fun _ h => h) st hi hw _ _ he
    unfold firstChar at h
    rw [hw1] at h
    simp only [liftR] at h
    simp only [Except.ok.injEq] at h
    subst h
    simp only
    rw [hsz, hp1]
    exact ⟨rfl, lookup_cacheInsert_self _ _ _⟩

end MdIt.Inline
