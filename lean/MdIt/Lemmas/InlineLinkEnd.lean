/-
  Helper development for `Props/Inline.lean`: the extent a successful link / image rule reports
  ends on a character boundary inside the window (partial correctness, any `skip` that is calm).
-/
import MdIt.Lemmas.InlineCalm

namespace MdIt.Inline
open MdIt.InlineOps (Srcmap getSourcePosFor getMap byteLen slice)
open MdIt.C05 (byteLen_append slice_ok_iff)

theorem labelLoop_found {skip : IState → Except Panic IState} (hq : CalmFn skip) (en : Bool) :
    ∀ (n : Nat) (level : Int) (st : IState) (st' : IState),
      labelLoop skip en n level st = .ok (some true, st') →
      ∃ r, slice st.src st'.pos st.posMax = .ok (']' :: r) := by
  intro n
  induction n with
  | zero => intro level st st' h; simp [labelLoop] at h
  | succ n ih =>
    intro level st st' h
    unfold labelLoop at h
    split at h
    · simp at h
    · simp at h
    · next ch rest hw =>
      split at h
      · next hc =>
        simp only [Except.ok.injEq, Prod.mk.injEq] at h; rw [← h.2]
        have := window_eq (liftR_ok.mp hw)
        rw [hc.1] at this
        exact ⟨rest, this⟩
      · simp only at h
        split at h
        · simp at h
        · next st1 hs =>
          have q1 := hq _ _ hs
          have hrec : ∀ level', labelLoop skip en n level' st1 = .ok (some true, st') →
              ∃ r, slice st.src st'.pos st.posMax = .ok (']' :: r) := by
            intro level' hh
            have := ih _ _ _ hh
            rw [q1.src, q1.posMax] at this; exact this
          split at h
          · split at h
            · simp at h
            · split at h
              · exact hrec _ h
              · split at h
                · simp at h
                · exact hrec _ h
          · exact hrec _ h

theorem parseLinkLabel_end {skip : IState → Except Panic IState} (hq : CalmFn skip) {fuel : Nat}
    {st : IState} {start : Nat} {en : Bool} {e : Nat} {st' : IState}
    (h : parseLinkLabel skip fuel st start en = .ok (some e, st')) :
    ∃ r, slice st.src e st.posMax = .ok (']' :: r) := by
  unfold parseLinkLabel at h
  simp only at h
  split at h
  · simp at h
  · simp at h
  · next found st1 hl =>
    simp only [Except.ok.injEq, Prod.mk.injEq] at h
    obtain ⟨h1, _⟩ := h
    split at h1
    · next hf =>
      simp only [Option.some.injEq] at h1; subst h1
      subst hf
      exact labelLoop_found hq en _ _ (IState.mk st.src st.srcmap (start + 1) st.posMax st.level st.linkLevel
        st.cache st.backticks st.children st.bottoms) _ hl
    · simp at h1

/-- behind a `]` at a boundary: the next position is a boundary inside the window -/
theorem after_bracket {src : List Char} {p pm : Nat} {r : List Char}
    (h : slice src p pm = .ok (']' :: r)) : p + 1 ≤ pm ∧ Boundary src (p + 1) := by
  have e1 : (']' : Char).utf8Size = 1 := by decide
  obtain ⟨_, _, hl⟩ := slice_boundaries h
  have hb := boundary_in_slice (u := [']']) (v := r) h
  simp only [byteLen, e1] at hl hb
  exact ⟨by omega, hb⟩

theorem parseLinkRef_end {cfg : Cfg} {skip : IState → Except Panic IState} (hq : CalmFn skip)
    {fuel : Nat} {st : IState} {ls le : Nat} {res : LinkRes} {st' : IState}
    (hle : ∃ r, slice st.src le st.posMax = .ok (']' :: r))
    (h : parseLinkRef cfg skip fuel st ls le = .ok (some res, st')) :
    res.endPos ≤ st.posMax ∧ Boundary st.src res.endPos := by
  obtain ⟨r0, hr0⟩ := hle
  unfold parseLinkRef at h
  split at h
  · simp at h
  · next w hw =>
    clear hw
    simp only at h
    split at h
    · simp at h
    · next ml pos st1 hsec =>
      have hpos : pos ≤ st.posMax ∧ Boundary st.src pos := by
        split at hsec
        · split at hsec
          · simp at hsec
          · next x st2 hl =>
            split at hsec
            · simp at hsec
            · simp only [Except.ok.injEq, Prod.mk.injEq] at hsec
              rw [← hsec.2.1]
              obtain ⟨r, hr⟩ := parseLinkLabel_end hq hl
              exact after_bracket hr
          · simp only [Except.ok.injEq, Prod.mk.injEq] at hsec
            rw [← hsec.2.1]; exact after_bracket hr0
        · simp only [Except.ok.injEq, Prod.mk.injEq] at hsec
          rw [← hsec.2.1]; exact after_bracket hr0
      split at h
      · simp at h
      · split at h
        · simp at h
        · split at h
          · simp at h
          · simp only [Except.ok.injEq, Prod.mk.injEq, Option.some.injEq] at h
            rw [← h.1]; exact hpos

/-- the inline form ends right behind its `)`, inside the window -/
theorem tail_end_bounds {dec : List Char → List Char} {src : List Char} {p max : Nat}
    {il : Link.InlineLink} (h : Link.parseInlineTail dec src p max = .ok (some il)) :
    il.endPos ≤ max ∧ Boundary src il.endPos := by
  unfold Link.parseInlineTail at h
  split at h
  · simp at h
  · split at h
    · simp only at h
      split at h
      · simp at h
      · split at h
        · simp at h
        · next href title pos hstage =>
          split at h
          · simp at h
          · next rest hs =>
            simp only [Except.ok.injEq, Option.some.injEq] at h; subst h
            simp only
            have hs' := (linkSlice_eq _ _ _ _).mp hs
            have e1 : (')' : Char).utf8Size = 1 := by decide
            obtain ⟨_, _, hl⟩ := slice_boundaries hs'
            have hb := boundary_in_slice (u := [')']) (v := rest) hs'
            simp only [byteLen, e1] at hl hb
            exact ⟨by omega, hb⟩
          · simp at h
    · simp at h

theorem parseLink_end {cfg : Cfg} {skip : IState → Except Panic IState} (hq : CalmFn skip)
    {fuel : Nat} {st : IState} {pos : Nat} {en : Bool} {res : LinkRes} {st' : IState}
    (h : parseLink cfg skip fuel st pos en = .ok (some res, st')) :
    res.endPos ≤ st.posMax ∧ Boundary st.src res.endPos := by
  unfold parseLink at h
  split at h
  · simp at h
  · simp at h
  · next le st1 hl =>
    have q1 := parseLinkLabel_calm hq hl
    obtain ⟨r, hr⟩ := parseLinkLabel_end hq hl
    simp only at h
    split at h
    · simp at h
    · next il hil =>
      simp only [Except.ok.injEq, Prod.mk.injEq, Option.some.injEq] at h
      rw [← h.1]
      have := tail_end_bounds hil
      rw [q1.src, q1.posMax] at this; exact this
    · have := parseLinkRef_end hq (by rw [q1.src, q1.posMax]; exact ⟨r, hr⟩) h
      rw [q1.src, q1.posMax] at this; exact this

/-- **the extent of the link rule**: the position the tokenizer continues from (`pos' + len`, in
    either mode) is a character boundary inside the window — for every successful call, whatever
    `tok` does -/
theorem linkRule_bounds {cfg : Cfg} {skip tok : IState → Except Panic IState} (hq : CalmFn skip)
    {fuel : Nat} {mk : List Nat → Option (List Char) → Val} {en : Bool} {offset : Nat} {st : IState}
    {silent : Bool} {len : Nat} {st' : IState}
    (h : linkRule cfg skip tok fuel mk en offset st silent = .ok (some len, st')) :
    st'.pos + len ≤ st.posMax ∧ Boundary st.src (st'.pos + len) := by
  unfold linkRule at h
  simp only at h
  split at h
  · simp at h
  · simp at h
  · next res st1 hpl =>
    have hb := parseLink_end hq hpl
    split at h
    · split at h
      · simp at h
      · next hnu =>
        simp only [Except.ok.injEq, Prod.mk.injEq, Option.some.injEq] at h
        obtain ⟨rfl, rfl⟩ := h
        have : st1.pos + (res.endPos - st1.pos) = res.endPos := by omega
        rw [this]; exact hb
    · split at h
      · simp at h
      · next st3 _ =>
        split at h
        · simp at h
        · split at h
          · simp at h
          · split at h
            · simp at h
            · next hnu =>
              simp only [Except.ok.injEq, Prod.mk.injEq, Option.some.injEq] at h
              obtain ⟨rfl, rfl⟩ := h
              simp only at hnu ⊢
              have : st3.pos + (res.endPos - st3.pos) = res.endPos := by omega
              rw [this]; exact hb

end MdIt.Inline
