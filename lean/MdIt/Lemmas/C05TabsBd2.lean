/-
  C05 for ALL sources (split tabs included), character boundaries — the boundary invariant `BI`
  through the inline tokenizer.  Part 2: the link / image rule, one rule of the chain, the chain,
  one iteration of the loop, the induction on fuel, and the deliverable

    `parseInline_bd : CtxV src0 c m → SolidMarkers cfg.chain → BdEmphOK cfg src0 →
                        parseInline cfg c m = .ok ns → BdL src0 ns`

  Template: Lemmas/C05RestInline3.lean.  The geometric frame invariant carried along is
  `tv_RInv (tv_NlAct cfg level)` of the ranges development (`tv_runRule`, `tv_firstRule`,
  `tv_tokStep`, `tv_induction`, `tv_rangesFn` are called where the template calls
  `runRule_ranges`, `firstRule_ranges`, `tokStep_ranges`, `ranges_induction`).
-/
import MdIt.Lemmas.C05TabsBd

namespace MdIt.C05T
open MdIt.Inline
open MdIt.InlineOps (Srcmap getSourcePosFor getMap byteLen slice)
open MdIt.C05R (Cut Bdy)

/-- `tok` keeps the invariant `BI` (of whatever frame it is called for); the analogue of
    `tv_RangesFn` -/
def bd_FthFn (cfg : Cfg) (src0 : List Char) (tok : IState → Except Panic IState) : Prop :=
  ∀ lo s s', CtxV src0 s.src s.srcmap → tv_RInv (tv_NlAct cfg s.level) lo s → BInv src0 s →
    tok s = .ok s' → BInv src0 s'

/-- the contract of the emphasis-marker rule, for the markers of the chain only (what the induction
    uses; `BdEmphOK` + `SolidMarkers` give it: `bd_emphIn_of`) -/
def bd_EmphIn (cfg : Cfg) (src0 : List Char) : Prop :=
  ∀ (mk : Char) (csw : Bool), RuleId.emph mk csw ∈ cfg.chain →
    ∀ (st st' : IState) (o : Option Nat), CtxV src0 st.src st.srcmap → BInv src0 st →
      ruleEmph cfg mk csw st false = .ok (o, st') →
      BI src0 st.src st.srcmap (st'.pos + o.getD 0) st'.children

theorem bd_emphIn_of {cfg : Cfg} {src0 : List Char} (hmk : SolidMarkers cfg.chain)
    (he : BdEmphOK cfg src0) : bd_EmphIn cfg src0 := by
  intro mk csw hid st st' o hctx hf h
  obtain ⟨h1, h2, h3⟩ := hmk mk csw hid
  exact he mk csw st st' o h1 h2 h3 hctx hf h

/-! ## links and images -/

theorem bd_linkRule {src0 : List Char} {cfg : Cfg} {skip tok : IState → Except Panic IState}
    (hq : CalmFn skip) (ht : tv_RangesFn cfg tok) (hft : bd_FthFn cfg src0 tok) {fuel : Nat}
    {mk : List Nat → Option (List Char) → Val}
    (hmk3 : ∀ u t m l r o c, mk u t ≠ .emphMarker m l r o c)
    {en : Bool} {offset : Nat} {st : IState} {o : Option Nat} {st' : IState}
    (hctx : CtxV src0 st.src st.srcmap) (hf : BInv src0 st)
    (hls : Bdy st.src (st.pos + offset + 1))
    (h : linkRule cfg skip tok fuel mk en offset st false = .ok (o, st')) :
    BI src0 st.src st.srcmap (st'.pos + o.getD 0) st'.children := by
  unfold linkRule at h
  simp only at h
  split at h
  · simp at h
  · next st1 hpl =>
    simp only [Except.ok.injEq, Prod.mk.injEq] at h; obtain ⟨rfl, rfl⟩ := h
    have hc := parseLink_calm hq hpl
    have hp := parseLink_pos hpl
    simp only [Option.getD_none, Nat.add_zero]
    rw [hp, hc.children]; exact hf
  · next res st1 hpl =>
    have hc := parseLink_calm hq hpl
    have hp := parseLink_pos hpl
    have hend := (parseLink_end hq hpl).2
    have hls' := parseLink_labelStart hpl
    simp only [Bool.false_eq_true, if_false] at h
    split at h
    · simp at h
    · next st3 htok =>
      split at h
      · simp at h
      · split at h
        · simp at h
        · next r hr =>
          split at h
          · simp at h
          · next hnu =>
            simp only [Except.ok.injEq, Prod.mk.injEq] at h; obtain ⟨rfl, rfl⟩ := h
            -- the nested frame
            have hm : MapT st.src st.srcmap := hctx.map
            have hm1 : MapT st1.src st1.srcmap := by rw [hc.src, hc.srcmap]; exact hm
            have hctx1 : CtxV src0 st1.src st1.srcmap := by rw [hc.src, hc.srcmap]; exact hctx
            obtain ⟨lo', hlo'⟩ := C05.translate_total st1.srcmap hm1.wf res.labelStart
            have hnest : tv_RInv (tv_NlAct cfg (st1.level + 1)) lo'
                (IState.mk st1.src st1.srcmap res.labelStart res.labelEnd
                  (st1.level + 1) (st1.linkLevel + 1) st1.cache st1.backticks [] []) :=
              ⟨⟨⟨lo', hlo', Nat.le_refl _⟩, trivial, markersOK_nil,
                  by intro init last hcs; simp at hcs⟩,
                by intro _ init last hcs; simp at hcs⟩
            have hfnest : BInv src0 (IState.mk st1.src st1.srcmap res.labelStart res.labelEnd
                (st1.level + 1) (st1.linkLevel + 1) st1.cache st1.backticks [] []) := by
              unfold BInv; simp only
              refine bd_nil ?_
              rw [hls', hc.src]; exact hls
            obtain ⟨hs3, hm3, _, _⟩ := ht lo' (IState.mk st1.src st1.srcmap res.labelStart
                res.labelEnd (st1.level + 1) (st1.linkLevel + 1) st1.cache st1.backticks [] []) st3
                hm1 htok hnest
            have hf3 : BInv src0 st3 := hft lo' (IState.mk st1.src st1.srcmap res.labelStart
                res.labelEnd (st1.level + 1) (st1.linkLevel + 1) st1.cache st1.backticks [] []) st3
                hctx1 hnest hfnest htok
            have hs3' : st3.src = st1.src := hs3
            have hm3' : st3.srcmap = st1.srcmap := hm3
            obtain ⟨rx, ry⟩ := r
            obtain ⟨e1, e2, hle⟩ := getMap_eq (liftR_ok.mp hr)
            rw [hm3', hc.srcmap] at e1 e2
            simp only [Option.getD_some]
            have epos : st3.pos + (res.endPos - st3.pos) = res.endPos := by omega
            rw [epos, hc.children]
            have hf3' : BI src0 st.src st.srcmap st3.pos st3.children := by
              have := hf3; unfold BInv at this
              rw [hs3', hm3', hc.src, hc.srcmap] at this; exact this
            exact bd_push hf hend (bd_bdN_plain (bd_low hctx hf.bpos e1) (bd_low hctx hend e2)
              (hmk3 _ _) hf3'.deep)

/-! ## one rule of the chain -/

/-- **one rule** in real mode.  `hnl`: the newline rule runs only in a frame where it is active
    (`A`); the emphasis-marker rule keeps `BI` for the markers of the chain (`he`). -/
theorem bd_runRule {A : Prop} {src0 : List Char} {cfg : Cfg}
    {skip tok : IState → Except Panic IState}
    (hq : CalmFn skip) (ht : tv_RangesFn cfg tok) (hft : bd_FthFn cfg src0 tok)
    (he : bd_EmphIn cfg src0) {fuel : Nat}
    {id : RuleId} (hid : id ∈ cfg.chain) (hnl : id = .newline → A) {lo : Nat} {st : IState}
    {o : Option Nat} {st' : IState}
    (hctx : CtxV src0 st.src st.srcmap) (hi : tv_RInv A lo st) (hf : BInv src0 st)
    (h : runRule cfg skip tok fuel id st false = .ok (o, st')) :
    BI src0 st.src st.srcmap (st'.pos + o.getD 0) st'.children := by
  unfold runRule at h
  cases id with
  | text => exact bd_ruleText hctx hi.ri hf (liftR_ok.mp h)
  | newline => exact bd_ruleNewline hctx (hnl rfl) hi hf (liftR_ok.mp h)
  | escape => exact bd_ruleEscape hctx hf (liftR_ok.mp h)
  | backticks => exact bd_ruleBackticks hctx hf (liftR_ok.mp h)
  | emph mk csw => exact he mk csw hid st st' o hctx hf (liftR_ok.mp h)
  | link =>
    simp only at h
    unfold ruleLink at h
    split at h
    · simp at h
    · simp at h
    · next c rest hw =>
      split at h
      · simp only [Except.ok.injEq, Prod.mk.injEq] at h; obtain ⟨rfl, rfl⟩ := h; exact bd_none hf
      · have hsl := window_eq (liftR_ok.mp hw)
        have hb : Bdy st.src (st.pos + 0 + 1) := by
          have := boundary_in_slice (u := [c]) (v := rest) hsl
          have hc : c = '[' := by simpa using ‹¬ c ≠ '['›
          have e1 : ('[' : Char).utf8Size = 1 := by decide
          subst hc
          simp only [byteLen, e1] at this
          exact this
        exact bd_linkRule (mk := Val.link) (offset := 0) hq ht hft
          (by intro u t m l r o c e; cases e) hctx hf hb h
  | image =>
    simp only at h
    unfold ruleImage at h
    split at h
    · simp at h
    · next rest hw =>
      have hsl := window_eq (liftR_ok.mp hw)
      have hb : Bdy st.src (st.pos + 1 + 1) := by
        have := boundary_in_slice (u := ['!', '[']) (v := rest) hsl
        have e1 : ('[' : Char).utf8Size = 1 := by decide
        have e2 : ('!' : Char).utf8Size = 1 := by decide
        simp only [byteLen, e1, e2] at this
        exact this
      exact bd_linkRule (mk := Val.image) (offset := 1) hq ht hft
        (by intro u t m l r o c e; cases e) hctx hf hb h
    · simp only [Except.ok.injEq, Prod.mk.injEq] at h; obtain ⟨rfl, rfl⟩ := h; exact bd_none hf
  | linkEnd =>
    simp only [Except.ok.injEq, Prod.mk.injEq] at h; obtain ⟨rfl, rfl⟩ := h; exact bd_none hf
  | autolink => exact bd_ruleAutolink hctx hf (liftR_ok.mp h)
  | entity => exact bd_ruleEntity hctx hf (liftR_ok.mp h)

/-! ## the chain, one iteration, the loop -/

theorem bd_firstRule {A : Prop} {src0 : List Char} {chain : List RuleId}
    {run : RuleId → IState → RuleRes} {lo : Nat}
    (hrun : ∀ id s o s', id ∈ chain → MapT s.src s.srcmap → tv_RInv A lo s →
      run id s = .ok (o, s') → tv_StepOK A lo s o s')
    (hfi : ∀ id s o s', id ∈ chain → CtxV src0 s.src s.srcmap → tv_RInv A lo s → BInv src0 s →
      run id s = .ok (o, s') → BI src0 s.src s.srcmap (s'.pos + o.getD 0) s'.children) :
    ∀ (rules : List RuleId), (∀ id ∈ rules, id ∈ chain) →
      ∀ (st : IState) (o : Option Nat) (st' : IState),
      CtxV src0 st.src st.srcmap → tv_RInv A lo st → BInv src0 st →
      firstRule run rules st = .ok (o, st') →
      BI src0 st.src st.srcmap (st'.pos + o.getD 0) st'.children := by
  intro rules
  induction rules with
  | nil =>
    intro _ st o st' _ _ hf h
    simp only [firstRule, Except.ok.injEq, Prod.mk.injEq] at h; obtain ⟨rfl, rfl⟩ := h
    exact bd_none hf
  | cons r rs ih =>
    intro hmem st o st' hctx hi hf h
    unfold firstRule at h
    split at h
    · simp at h
    · next n st1 hr =>
      simp only [Except.ok.injEq, Prod.mk.injEq] at h; obtain ⟨rfl, rfl⟩ := h
      exact hfi _ _ _ _ (hmem r (by simp)) hctx hi hf hr
    · next st1 hr =>
      have s1 := hrun _ _ _ _ (hmem r (by simp)) hctx.map hi hr
      have f1 := hfi _ _ _ _ (hmem r (by simp)) hctx hi hf hr
      have hi1 : tv_RInv A lo st1 := by
        have := s1.ri
        simp only [Option.getD_none, Nat.add_zero] at this
        unfold tv_RInv; rw [s1.src, s1.srcmap]; exact this
      have hf1 : BInv src0 st1 := by
        simp only [Option.getD_none, Nat.add_zero] at f1
        unfold BInv; rw [s1.src, s1.srcmap]; exact f1
      have hctx1 : CtxV src0 st1.src st1.srcmap := by rw [s1.src, s1.srcmap]; exact hctx
      have := ih (fun id hid => hmem id (by simp [hid])) st1 o st' hctx1 hi1 hf1 h
      rw [s1.src, s1.srcmap] at this; exact this

/-- **one iteration of the tokenizer loop** -/
theorem bd_tokStep {src0 : List Char} {cfg : Cfg} {skip tok : IState → Except Panic IState}
    (hq : CalmFn skip) (ht : tv_RangesFn cfg tok) (hft : bd_FthFn cfg src0 tok)
    (hmk : SolidMarkers cfg.chain) (he : bd_EmphIn cfg src0) {fuel : Nat}
    {lo : Nat} {st st' : IState} (hctx : CtxV src0 st.src st.srcmap)
    (hi : tv_RInv (tv_NlAct cfg st.level) lo st)
    (hf : BInv src0 st) (h : tokStep cfg skip tok fuel st = .ok st') : BInv src0 st' := by
  have hok : ∀ o st1, (if st.level < cfg.maxNesting then
        firstRule (fun id s => runRule cfg skip tok fuel id s false) cfg.chain st
      else .ok (none, st)) = .ok (o, st1) →
      tv_StepOK (tv_NlAct cfg st.level) lo st o st1 ∧
        BI src0 st.src st.srcmap (st1.pos + o.getD 0) st1.children := by
    intro o st1 hh
    split at hh
    · next hlt =>
      have hrun : ∀ id s o s', id ∈ cfg.chain → MapT s.src s.srcmap →
          tv_RInv (tv_NlAct cfg st.level) lo s →
          runRule cfg skip tok fuel id s false = .ok (o, s') →
          tv_StepOK (tv_NlAct cfg st.level) lo s o s' :=
        fun id s o s' hid hms his hr => tv_runRule hq ht (fun e => ⟨e ▸ hid, hlt⟩)
          (fun mk csw e => hmk mk csw (e ▸ hid)) hms his hr
      exact ⟨(tv_firstRule (A := tv_NlAct cfg st.level) (lo := lo)
          (run := fun id s => runRule cfg skip tok fuel id s false)
          (fun s s' hr c rest hw => tv_newline_declines hr hw) cfg.chain
          (fun id hid s o s' hms his hr => hrun id s o s' hid hms his hr) _ _ _ hctx.map hi hh).1,
        bd_firstRule (A := tv_NlAct cfg st.level) (chain := cfg.chain)
          (run := fun id s => runRule cfg skip tok fuel id s false) hrun
          (fun id s o s' hid hcs his hfs hr =>
            bd_runRule hq ht hft he hid (fun e => ⟨e ▸ hid, hlt⟩) hcs his hfs hr)
          cfg.chain (fun id hid => hid) _ _ _ hctx hi hf hh⟩
    · simp only [Except.ok.injEq, Prod.mk.injEq] at hh; obtain ⟨rfl, rfl⟩ := hh
      exact ⟨tv_stepOK_calm hi (Calm.refl _) rfl, bd_none hf⟩
  unfold tokStep at h
  simp only at h
  split at h
  · simp at h
  · next len st1 hr =>
    simp only [Except.ok.injEq] at h; subst h
    obtain ⟨s1, f1⟩ := hok _ _ hr
    simp only [Option.getD_some] at f1
    unfold BInv; simp only; rw [s1.src, s1.srcmap]; exact f1
  · next st1 hr =>
    obtain ⟨s1, f1⟩ := hok _ _ hr
    have hi1 : tv_RInv (tv_NlAct cfg st.level) lo st1 := by
      have := s1.ri
      simp only [Option.getD_none, Nat.add_zero] at this
      unfold tv_RInv; rw [s1.src, s1.srcmap]; exact this
    have hf1 : BInv src0 st1 := by
      simp only [Option.getD_none, Nat.add_zero] at f1
      unfold BInv; rw [s1.src, s1.srcmap]; exact f1
    have hctx1 : CtxV src0 st1.src st1.srcmap := by rw [s1.src, s1.srcmap]; exact hctx
    split at h
    · simp at h
    · next ch hch =>
      split at h
      · simp at h
      · next st2 hp =>
        simp only [Except.ok.injEq] at h; subst h
        have hp' := liftR_ok.mp hp
        have := bd_fallback hctx1 hi1.ri hf1 hch hp'
        obtain ⟨cs, _, rfl⟩ := pushText_eq hp'
        exact this

/-- **the invariant `BI` through the whole tokenizer** (partial correctness, any fuel) -/
theorem bd_induction {src0 : List Char} (cfg : Cfg) (hmk : SolidMarkers cfg.chain)
    (he : bd_EmphIn cfg src0) : ∀ fuel : Nat,
    ∀ (e lo : Nat) (st st' : IState), CtxV src0 st.src st.srcmap →
      tv_RInv (tv_NlAct cfg st.level) lo st → BInv src0 st →
      tokLoop cfg fuel e st = .ok st' → BInv src0 st' := by
  intro fuel
  induction fuel with
  | zero =>
    intro e lo st st' _ _ hf h
    unfold tokLoop at h
    split at h
    · simp at h
    · simp only [Except.ok.injEq] at h; subst h; exact hf
  | succ f ih =>
    intro e lo st st' hctx hi hf h
    unfold tokLoop at h
    split at h
    · simp only at h
      split at h
      · simp at h
      · next st1 hstep =>
        have ht : tv_RangesFn cfg (fun s => tokLoop cfg f s.posMax s) := tv_rangesFn cfg hmk f
        have hft : bd_FthFn cfg src0 (fun s => tokLoop cfg f s.posMax s) :=
          fun lo s s' hcs his hfs hr => ih _ lo s s' hcs his hfs hr
        obtain ⟨a, b, c, _, d⟩ := tv_tokStep (skipToken_calm cfg f) ht hmk hctx.map hi hstep
        have hf1 := bd_tokStep (skipToken_calm cfg f) ht hft hmk he hctx hi hf hstep
        have hctx1 : CtxV src0 st1.src st1.srcmap := by rw [a, b]; exact hctx
        exact ih e lo st1 st' hctx1 (by rw [c]; exact d) hf1 h
    · simp only [Except.ok.injEq] at h; subst h; exact hf

/-- **`parseInline`: character boundaries at every node** — with the contract of the
    emphasis-marker rule for the markers of the chain only -/
theorem bd_parseInline_chain (cfg : Cfg) {src0 c : List Char} {m : Srcmap} (hctx : CtxV src0 c m)
    (hmk : SolidMarkers cfg.chain) (he : bd_EmphIn cfg src0) {ns : List Inline.Node}
    (h : Inline.parseInline cfg c m = .ok ns) : BdL src0 ns := by
  unfold parseInline at h
  split at h
  · simp at h
  · next st hst =>
    simp only [Except.ok.injEq] at h; subst h
    unfold tokenize at hst
    obtain ⟨lo, hlo⟩ := C05.translate_total m hctx.map.wf (trimSrc c).1
    -- the boundary of the initial cursor does not depend on the table
    obtain ⟨_, _, hg⟩ := init_good (C05R.em_ctx_id c).map
    have hb0 : Bdy c (trimSrc c).1 := hg.bpos
    have hinit : tv_RInv (tv_NlAct cfg (IState.init c m).level) lo (IState.init c m) :=
      ⟨⟨⟨lo, hlo, Nat.le_refl _⟩, trivial, markersOK_nil,
          by intro init last hcs; simp [IState.init] at hcs⟩,
        by intro _ init last hcs; simp [IState.init] at hcs⟩
    have hf0 : BInv src0 (IState.init c m) := bd_nil hb0
    exact (bd_induction cfg hmk he _ _ lo _ _ hctx hinit hf0 hst).deep

end MdIt.C05T

namespace MdIt.C05T
open MdIt.InlineOps (Srcmap)

/-- **the deliverable**: for a content `c` with per-line table `m` that is an excerpt of the
    document `src0` for ANY `get_lines` table, virtual-space entries of split tabs included
    (`CtxV` = `MapT` ∧ `PFthV`), solid single-byte emphasis markers, and the contract of the
    emphasis-marker rule: at every node of whatever `parseInline` returns, recursively, both range
    ends are character boundaries of `src0`, and an `EmphMarker` covers exactly its remaining
    delimiters -/
theorem parseInline_bd (cfg : Inline.Cfg) {src0 c : List Char} {m : Srcmap} (hctx : CtxV src0 c m)
    (hmk : SolidMarkers cfg.chain) (he : BdEmphOK cfg src0) {ns : List Inline.Node}
    (h : Inline.parseInline cfg c m = .ok ns) : BdL src0 ns :=
  bd_parseInline_chain cfg hctx hmk (bd_emphIn_of hmk he) h

end MdIt.C05T
