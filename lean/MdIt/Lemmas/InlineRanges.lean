/-
  Helper development for `Props/Inline.lean`: source ranges of the inline tree.
  Part 1: ordered sibling lists on the rich node type, and what a monotone per-line table gives
  (`translate_mono`, expansion, affinity on stretches without a line feed).
-/
import MdIt.Lemmas.InlineVals2

namespace MdIt.Inline
open MdIt.InlineOps (Srcmap getSourcePosFor getMap byteLen slice)
open MdIt.C05 (WFMap MonoMap byteLen_append slice_ok_iff)

/-! ## ordered sibling lists -/

/-- consecutive ranges inside `[lo, hi]` (`C05.Ordered` on the rich node type): every node has a
    range `(a, b)`, `a ≤ b`, each starts at or after the end of its left neighbour -/
def OrderedN : Nat → Nat → List Node → Prop
  | lo, hi, [] => lo ≤ hi
  | lo, hi, n :: rest => ∃ a b, n.range = some (a, b) ∧ lo ≤ a ∧ a ≤ b ∧ OrderedN b hi rest

theorem orderedN_erase (lo hi : Nat) (l : List Node) :
    C05.Ordered lo hi (eraseList l) ↔ OrderedN lo hi l := by
  induction l generalizing lo with
  | nil => simp [eraseList, C05.Ordered, OrderedN]
  | cons n r ih => simp only [eraseList, C05.Ordered, OrderedN, erase_range, ih]

theorem OrderedN.le {lo hi : Nat} {l : List Node} (h : OrderedN lo hi l) : lo ≤ hi := by
  induction l generalizing lo with
  | nil => exact h
  | cons n r ih =>
    obtain ⟨a, b, _, h2, h3, h4⟩ := h
    have := ih h4; omega

theorem OrderedN.widen {lo hi lo' hi' : Nat} {l : List Node} (h : OrderedN lo hi l) (h1 : lo' ≤ lo)
    (h2 : hi ≤ hi') : OrderedN lo' hi' l := by
  induction l generalizing lo lo' with
  | nil => simp only [OrderedN] at h ⊢; omega
  | cons x r ih =>
    obtain ⟨a, b, q1, q2, q3, q4⟩ := h
    exact ⟨a, b, q1, by omega, q3, ih q4 (Nat.le_refl _)⟩

theorem OrderedN.append {lo mid hi : Nat} {l1 l2 : List Node} (h1 : OrderedN lo mid l1)
    (h2 : OrderedN mid hi l2) : OrderedN lo hi (l1 ++ l2) := by
  induction l1 generalizing lo with
  | nil => exact h2.widen h1 (Nat.le_refl _)
  | cons x r ih =>
    obtain ⟨a, b, q1, q2, q3, q4⟩ := h1
    exact ⟨a, b, q1, q2, q3, ih q4⟩

theorem orderedN_single {lo hi a b : Nat} {n : Node} (hr : n.range = some (a, b)) (h1 : lo ≤ a)
    (h2 : a ≤ b) (h3 : b ≤ hi) : OrderedN lo hi [n] := ⟨a, b, hr, h1, h2, h3⟩

theorem OrderedN.snoc {lo mid hi a b : Nat} {l : List Node} {n : Node} (h : OrderedN lo mid l)
    (hr : n.range = some (a, b)) (h1 : mid ≤ a) (h2 : a ≤ b) (h3 : b ≤ hi) :
    OrderedN lo hi (l ++ [n]) :=
  h.append (orderedN_single hr h1 h2 h3)

/-- split an ordered list at an append -/
theorem OrderedN.split {lo hi : Nat} {l1 l2 : List Node} (h : OrderedN lo hi (l1 ++ l2)) :
    ∃ mid, OrderedN lo mid l1 ∧ OrderedN mid hi l2 := by
  induction l1 generalizing lo with
  | nil => exact ⟨lo, Nat.le_refl _, h⟩
  | cons x r ih =>
    obtain ⟨a, b, q1, q2, q3, q4⟩ := h
    obtain ⟨mid, m1, m2⟩ := ih q4
    exact ⟨mid, ⟨a, b, q1, q2, q3, m1⟩, m2⟩

theorem OrderedN.last {lo hi : Nat} {init : List Node} {x : Node} (h : OrderedN lo hi (init ++ [x])) :
    ∃ a b, x.range = some (a, b) ∧ OrderedN lo a init ∧ a ≤ b ∧ b ≤ hi := by
  obtain ⟨mid, m1, m2⟩ := h.split
  obtain ⟨a, b, q1, q2, q3, q4⟩ := m2
  exact ⟨a, b, q1, m1.widen (Nat.le_refl _) q2, q3, q4⟩

mutual
/-- every node has a range, its children are ordered inside it, recursively -/
def WellRanged : Node → Prop
  | ⟨_, r, cs⟩ => (∃ a b, r = some (a, b) ∧ a ≤ b ∧ OrderedN a b cs) ∧ WellRangedList cs
def WellRangedList : List Node → Prop
  | [] => True
  | c :: cs => WellRanged c ∧ WellRangedList cs
end

theorem WellRanged_eq (n : Node) :
    WellRanged n ↔ (∃ a b, n.range = some (a, b) ∧ a ≤ b ∧ OrderedN a b n.children) ∧
      WellRangedList n.children := by
  cases n; simp [WellRanged]

theorem wellRangedList_iff (l : List Node) : WellRangedList l ↔ ∀ n ∈ l, WellRanged n := by
  induction l with
  | nil => simp [WellRangedList]
  | cons c cs ih => simp [WellRangedList, ih]

theorem WellRangedList.append {a b : List Node} (ha : WellRangedList a) (hb : WellRangedList b) :
    WellRangedList (a ++ b) := by
  rw [wellRangedList_iff] at *
  intro n hn
  rcases List.mem_append.mp hn with h | h
  · exact ha n h
  · exact hb n h

theorem WellRangedList.left {a b : List Node} (h : WellRangedList (a ++ b)) : WellRangedList a := by
  rw [wellRangedList_iff] at *
  exact fun n hn => h n (List.mem_append_left _ hn)

theorem WellRangedList.right {a b : List Node} (h : WellRangedList (a ++ b)) : WellRangedList b := by
  rw [wellRangedList_iff] at *
  exact fun n hn => h n (List.mem_append_right _ hn)

theorem WellRangedList.single {n : Node} (h : WellRanged n) : WellRangedList [n] := ⟨h, trivial⟩

/-- a childless node with a proper range -/
theorem wellRanged_leaf {v : Val} {a b : Nat} (h : a ≤ b) : WellRanged (Node.leaf v (some (a, b))) := by
  rw [WellRanged_eq]; exact ⟨⟨a, b, rfl, h, h⟩, trivial⟩

/-- replacing the value and shrinking / moving the range of a childless node -/
theorem wellRanged_childless {n : Node} (hc : n.children = []) {v : Val} {a b : Nat} (h : a ≤ b) :
    WellRanged { n with val := v, range := some (a, b) } := by
  rw [WellRanged_eq]; simp only [hc]; exact ⟨⟨a, b, rfl, h, h⟩, trivial⟩

/-! ## the per-line table -/

/-- source offsets along the table expand: under `MonoMap`, `v_i + (k_j - k_i) ≤ v_j` for `i ≤ j` -/
theorem values_expand (m : Srcmap) (hm : WFMap m) (hv : MonoMap m) (i n : Nat) (k1 v1 k2 v2 : Nat)
    (h1 : m[i]? = some (k1, v1)) (h2 : m[i + n]? = some (k2, v2)) : k1 ≤ k2 ∧ v1 + (k2 - k1) ≤ v2 := by
  induction n generalizing k2 v2 with
  | zero =>
    rw [Nat.add_zero, h1] at h2
    simp only [Option.some.injEq, Prod.mk.injEq] at h2
    omega
  | succ n ih =>
    obtain ⟨⟨k3, v3⟩, h3⟩ := C05.getElem?_some_of_lt m (i + n) (i + (n + 1)) _ h2 (by omega)
    have a := ih k3 v3 h3
    have b := hv (i + n) k3 v3 k2 v2 h3 h2
    obtain ⟨hj3, e3⟩ := C05.getElem?_key m (i + n) k3 v3 h3
    obtain ⟨hj2, e2⟩ := C05.getElem?_key m (i + (n + 1)) k2 v2 h2
    have := MdIt.SourceMap.sorted_strict hm.sorted hj3 hj2 (by omega)
    omega

/-- **the translation expands**: `pos ≤ pos' → tr pos + (pos' - pos) ≤ tr pos'`
    (source text between two inline positions is at least as long as the inline text) -/
theorem translate_expand (m : Srcmap) (hm : WFMap m) (hv : MonoMap m) (pos pos' : Nat)
    (hle : pos ≤ pos') (x x' : Nat)
    (hx : getSourcePosFor m pos = .ok x) (hx' : getSourcePosFor m pos' = .ok x') :
    x + (pos' - pos) ≤ x' := by
  obtain ⟨i, k, v, h1, h2, h3, h4, e⟩ := C05.lineOf_spec_tr m hm pos (C05.clampFree_of_mono m hv pos)
  obtain ⟨i', k', v', h1', h2', h3', h4', e'⟩ :=
    C05.lineOf_spec_tr m hm pos' (C05.clampFree_of_mono m hv pos')
  rw [e] at hx
  rw [e'] at hx'
  simp only [Except.ok.injEq] at hx hx'
  subst hx hx'
  rcases Nat.lt_trichotomy i i' with hlt | heq | hgt
  · obtain ⟨n, hn'⟩ : ∃ n, i' = i + n := ⟨i' - i, by omega⟩
    subst hn'
    have := values_expand m hm hv i n k v k' v' h2 h2'
    omega
  · subst heq
    rw [h2] at h2'
    simp only [Option.some.injEq, Prod.mk.injEq] at h2'
    obtain ⟨rfl, rfl⟩ := h2'
    omega
  · have := h4' i k v hgt h2
    omega

/-- no key of the table lies in `(pos, pos']`: the two positions are on one line and the
    translation is a shift (`MonoMap`: no virtual-space entry, so the clamp of `get_source_pos_for` is
    inactive — inside the virtual spaces of a split tab the translation is constant, not a shift) -/
theorem translate_same_line (m : Srcmap) (hm : WFMap m) (hv : MonoMap m) (pos pos' : Nat)
    (hle : pos ≤ pos')
    (hno : ∀ (i k v : Nat), m[i]? = some (k, v) → ¬ (pos < k ∧ k ≤ pos')) (x x' : Nat)
    (hx : getSourcePosFor m pos = .ok x) (hx' : getSourcePosFor m pos' = .ok x') :
    x' = x + (pos' - pos) := by
  obtain ⟨i, k, v, h1, h2, h3, h4, e⟩ := C05.lineOf_spec_tr m hm pos (C05.clampFree_of_mono m hv pos)
  obtain ⟨i', k', v', h1', h2', h3', h4', e'⟩ :=
    C05.lineOf_spec_tr m hm pos' (C05.clampFree_of_mono m hv pos')
  rw [e] at hx
  rw [e'] at hx'
  simp only [Except.ok.injEq] at hx hx'
  subst hx hx'
  rcases Nat.lt_trichotomy i i' with hlt | heq | hgt
  · have := h4 i' k' v' hlt h2'
    exact absurd ⟨this, h3'⟩ (hno i' k' v' h2')
  · subst heq
    rw [h2] at h2'
    simp only [Option.some.injEq, Prod.mk.injEq] at h2'
    obtain ⟨rfl, rfl⟩ := h2'
    omega
  · have := h4' i k v hgt h2
    omega

/-- the keys of the table (other than 0) are line starts of the inline text: directly behind a
    line feed.  (What `get_lines` produces when no tab is split; the virtual-space entries of a
    split tab are excluded together with `MonoMap`.) -/
def KeysAfterLF (src : List Char) (m : Srcmap) : Prop :=
  ∀ (i k v : Nat), m[i]? = some (k, v) → 0 < k →
    ∃ pre post, src = pre ++ '\n' :: post ∧ byteLen pre + 1 = k

/-- a stretch of the inline text without a line feed contains no line start behind its first byte -/
theorem no_key_inside {src : List Char} {m : Srcmap} (hk : KeysAfterLF src m) {a b : Nat}
    {w : List Char} (hs : slice src a b = .ok w) (hn : '\n' ∉ w) :
    ∀ (i k v : Nat), m[i]? = some (k, v) → ¬ (a < k ∧ k ≤ b) := by
  intro i k v hi ⟨h1, h2⟩
  obtain ⟨pre, post, hsrc, hpre⟩ := hk i k v hi (by omega)
  obtain ⟨p, q, e, l1, l2⟩ := (slice_ok_iff _ _ _ _).mp hs
  -- `pre` ends inside `w`
  have e1 : ('\n' : Char).utf8Size = 1 := by decide
  obtain ⟨x, hx1, hx2⟩ := append_prefix p (w ++ q) pre ('\n' :: post) (by rw [← hsrc, e]; simp)
    (by omega)
  -- `w ++ q = x ++ '\n' :: post` with `|x| < |w|`
  have hxl : byteLen x < byteLen w := by
    have := congrArg byteLen hx1
    rw [byteLen_append] at this
    omega
  obtain ⟨y, hy1, hy2⟩ := append_prefix x ('\n' :: post) w q hx2.symm (by omega)
  cases y with
  | nil => simp at hy1; rw [hy1] at hxl; omega
  | cons c y' =>
    have : c = '\n' := by
      simp only [List.cons_append, List.cons.injEq] at hy2
      exact hy2.1.symm
    subst this
    exact hn (by rw [hy1]; simp)

end MdIt.Inline
