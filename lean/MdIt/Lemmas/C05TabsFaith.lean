/-
  C05 for ALL sources, table side, the CONTENT: `get_lines` is faithful for ANY table, the
  virtual-space entries of split tabs included (`C05T.PFthV`).

  (i)   `tf_pfthV_of_pfth`   `C05R.PFth src c m → PFthV src c m` (tables without virtual entries).
  (ii)  abstract part: `tf_Seg src c x next` — entry `x` is either a VIRTUAL entry (its successor has
        the same source offset `v`, the two keys frame a run of spaces of `c`, `v` is a character
        boundary of `src`) or a REAL one (`C05R.fa_Seg`: a line-feed-free stretch `t` of `c` at its key
        that is `src[v .. v+|t|]`, followed by the end of `c` or ONE line feed, the next entry's offset
        strictly behind `v + |t|`, a line break of `src` at `v + |t|`).
        `tf_locate`          where a position is translated to (clamped function): `v` in a virtual
                             segment, `v + (p − k)` in a real one.
        `tf_pfthV_of_seg`    `WFMap m → MonoMapV m → VirtSp c m → SegAll (tf_Seg src c) m → PFthV src c m`.
  (iii) instantiation: `tf_mapOf_seg` (the table `Lines.mapOf` / the content `joinLines` of
        `get_lines`, a line contributes one real entry, or a virtual and a real one),
        `tf_getLines_pfthV`.
  deliverable: `Block.inlSpec3_ptabsF : InlSpec3 src0 (PTabsF src0)`.
-/
import MdIt.Lemmas.C05TabsTable
import MdIt.Lemmas.C05TabsShift
import MdIt.Lemmas.C05TabsDefs2

namespace MdIt.C05T
open MdIt.InlineOps (Srcmap getSourcePosFor byteLen)
open MdIt.Lines (LineOffset)
open MdIt.C05I (SegAll segAll_get)
open MdIt.C05R (Cut Bdy NoBrk BrkAt PFth fa_Seg)

/-! ## (i) tables without virtual entries -/

/-- the characters of a sub-stretch belong to the stretch -/
theorem tf_cut_sub_mem {c W w' : List Char} {p q p1 p2 : Nat} (hW : Cut c p q W)
    (hw : Cut c p1 p2 w') (h1 : p ≤ p1) (h2 : p2 ≤ q) : ∀ x ∈ w', x ∈ W := by
  have := hw.le
  obtain ⟨W1, W2, rfl, _, c2⟩ := hW.split hw.bdy_left h1 (by omega)
  obtain ⟨W3, W4, rfl, c3, _⟩ := c2.split hw.bdy_right (by omega) h2
  have := c3.unique hw
  subst this
  intro x hx
  simp [hx]

/-- a sub-stretch of a stretch `ch0 :: w` without line feed holds no line feed -/
theorem tf_sub_nolf {c w w' : List Char} {ch0 : Char} {p q p1 p2 : Nat} (hW : Cut c p q (ch0 :: w))
    (h0 : ch0 ≠ '\n') (hn : '\n' ∉ w) (hw : Cut c p1 p2 w') (h1 : p ≤ p1) (h2 : p2 ≤ q) :
    '\n' ∉ w' := by
  intro hm
  have := tf_cut_sub_mem hW hw h1 h2 _ hm
  simp only [List.mem_cons] at this
  rcases this with e | e
  · exact h0 e.symm
  · exact hn e

/-- **`PFth` is the special case**: a faithful table in the sense of `C05R.PFth` is `PFthV` -/
theorem tf_pfthV_of_pfth {src c : List Char} {m : Srcmap} (h : PFth src c m) : PFthV src c m where
  bdy := fun _ _ hp ha => h.bdy hp ha
  copy := fun _ _ _ _ p1 p2 w' a b hc _ h0' hn h1 h2 hc' ha hb =>
    h.copy p1 p2 w' a b hc' (tf_sub_nolf hc h0' hn hc' h1 h2) ha hb
  brk := h.brk

/-! ## (ii) the abstract lemma -/

/-- entry `x` of the table, followed by `next`: VIRTUAL (the successor carries the same source
    offset; the two keys frame a run of spaces of the content; the offset is a character boundary of
    the source) or REAL (`C05R.fa_Seg`) -/
def tf_Seg (src c : List Char) (x : Nat × Nat) (next : Option (Nat × Nat)) : Prop :=
  (∃ k', next = some (k', x.2) ∧ Bdy src x.2 ∧
    ∃ pre n post, c = pre ++ List.replicate n ' ' ++ post ∧ byteLen pre = x.1 ∧ k' = x.1 + n) ∨
  fa_Seg src c x next

/-- **where a position is translated to**: inside a virtual segment to the source offset the
    segment sits on (the clamp), inside a real one by the shift of its entry -/
theorem tf_locate {src c : List Char} {m : Srcmap} (hw : C05.WFMap m)
    (hs : SegAll (tf_Seg src c) m) {p a : Nat} (ha : getSourcePosFor m p = .ok a) :
    (∃ i k v k', m[i]? = some (k, v) ∧ m[i + 1]? = some (k', v) ∧ k ≤ p ∧ p < k' ∧ a = v ∧
      Bdy src v ∧ ∃ pre n post, c = pre ++ List.replicate n ' ' ++ post ∧ byteLen pre = k ∧
        k' = k + n) ∨
    (∃ i k v, m[i]? = some (k, v) ∧ k ≤ p ∧ a = v + (p - k) ∧ fa_Seg src c (k, v) m[i + 1]? ∧
      ∀ y, m[i + 1]? = some y → p < y.1) := by
  obtain ⟨i, k, v, h1, h2, h3, h4⟩ := C05.lineOf_spec m hw p
  rw [C05.getSourcePosFor_of_line_clamp m p i k v h1 h2 h3] at ha
  simp only [Except.ok.injEq] at ha
  rcases segAll_get hs h2 with ⟨k', hn, hb, hdata⟩ | hseg
  · left
    simp only at hn hb hdata
    refine ⟨i, k, v, k', h2, hn, h3, h4 (i + 1) k' v (by omega) hn, ?_, hb, hdata⟩
    unfold C05.clampNext at ha
    rw [hn] at ha
    simp only at ha
    omega
  · right
    refine ⟨i, k, v, h2, h3, ?_, hseg, fun y hy => h4 (i + 1) y.1 y.2 (by omega) hy⟩
    rw [C05.clampNext_eq] at ha
    · exact ha.symm
    · intro k' v' hn
      have hp := h4 (i + 1) k' v' (by omega) hn
      obtain ⟨pre, t, post, _, _, _, _, hnext⟩ := hseg
      rw [hn] at hnext
      obtain ⟨post', _, hy1, hy2, _⟩ := hnext
      simp only at hy1 hy2
      omega

/-- a line-feed-free stretch that starts in a REAL segment is a copy of the source bytes -/
theorem tf_copy_real {src c : List Char} {m : Srcmap} (hw : C05.WFMap m) {p q a b i k v : Nat}
    {w : List Char} (hi : m[i]? = some (k, v)) (hk : k ≤ p) (ha : a = v + (p - k))
    (hseg : fa_Seg src c (k, v) m[i + 1]?) (hlt : ∀ y, m[i + 1]? = some y → p < y.1)
    (hc : Cut c p q w) (hn : '\n' ∉ w) (hb : getSourcePosFor m q = .ok b) : Cut src a b w := by
  obtain ⟨pre, t, post, hcc, hpre, hnt, hsrc, hnext⟩ := hseg
  simp only at hpre hsrc
  have hpq := hc.le
  -- `q` is inside the line
  have hq : q ≤ k + byteLen t := by
    cases hn1 : m[i + 1]? with
    | none =>
      rw [hn1] at hnext
      subst hnext
      have := hc.bdy_right.le
      rw [hcc] at this
      simp only [C05.byteLen_append, List.append_nil] at this
      omega
    | some y =>
      rw [hn1] at hnext
      obtain ⟨post', rfl, hy1, _, _⟩ := hnext
      have hp := hlt y hn1
      rcases Nat.lt_or_ge (k + byteLen t) q with hgt | hle
      · exfalso
        apply hn
        refine C05R.fa_mem_cut (P := pre ++ t) (Q := post') hc (by rw [hcc]) ?_ ?_
        · rw [C05.byteLen_append]; omega
        · rw [C05.byteLen_append]; omega
      · exact hle
  -- so `q` is translated by the same entry, the clamp inactive
  have hb' : getSourcePosFor m q = .ok (v + (q - k)) := by
    apply C05.translate_segment_free m hw q i k v hi (by omega)
    · intro k' v' hn1
      rw [hn1] at hnext
      obtain ⟨post', _, hy1, _, _⟩ := hnext
      simp only at hy1
      omega
    · intro k' v' hn1
      rw [hn1] at hnext
      obtain ⟨post', _, hy1, hy2, _⟩ := hnext
      simp only at hy1 hy2
      omega
  rw [hb'] at hb
  simp only [Except.ok.injEq] at hb
  subst hb ha
  rw [hcc] at hc
  obtain ⟨x, y, hx, hy, hxy⟩ := C05R.fa_cut_inside hc (by omega) (by omega)
  have := C05R.fa_cut_sub hsrc hxy
  rw [show v + (p - k) = v + x by omega, show v + (q - k) = v + y by omega]
  exact this

/-- **(ii)**: a table all of whose entries are `tf_Seg` is faithful in the sense of `PFthV` -/
theorem tf_pfthV_of_seg {src c : List Char} {m : Srcmap} (hw : C05.WFMap m) (hv : C05.MonoMapV m)
    (hvs : VirtSp c m) (hs : SegAll (tf_Seg src c) m) : PFthV src c m := by
  refine ⟨?_, ?_, ?_⟩
  · -- bdy
    intro p a hp ha
    rcases tf_locate hw hs ha with ⟨i, k, v, k', _, _, _, _, rfl, hb, _⟩ | ⟨i, k, v, hi, hk, ha', hseg, hlt⟩
    · exact hb
    · exact (tf_copy_real hw hi hk ha' hseg hlt hp.cut_nil (by simp) ha).bdy_left
  · -- copy
    intro p q ch0 w p1 p2 w' a b hc h0 h0' hn h1 h2 hc' ha hb
    have hle := hc'.le
    rcases tf_locate hw hs ha with ⟨i, k, v, k', hi, hnx, hk, hk', _, _, _⟩ | ⟨i, k, v, hi, hk, ha', hseg, hlt⟩
    · exact (sh_not_virtual hvs hc h0 h0' hn hi hnx h1 (by omega) hk hk').elim
    · exact tf_copy_real hw hi hk ha' hseg hlt hc' (tf_sub_nolf hc h0' hn hc' h1 h2) hb
  · -- brk: look at a line feed of the stretch — its position `g` is the end of a real segment
    intro p q w a b w' hc hn ha hb hw'
    obtain ⟨w1, w2, rfl⟩ := List.append_of_mem hn
    have hqc := hc.bdy_right.le
    obtain ⟨P, Q, e, hP, hq⟩ := hc
    obtain ⟨g, hgdef⟩ : ∃ g, g = p + byteLen w1 := ⟨_, rfl⟩
    have hg : CharAt c g '\n' :=
      ⟨P ++ w1, w2 ++ Q, by rw [e]; simp [List.append_assoc], by rw [C05.byteLen_append]; omega⟩
    have hgq : g < q := by
      rw [C05.byteLen_append] at hq
      simp only [byteLen, show '\n'.utf8Size = 1 by decide] at hq
      omega
    obtain ⟨ag, hag⟩ := C05.translate_total m hw g
    rcases tf_locate hw hs hag with ⟨i, k, v, k', hi, hnx, hk, hk', _, _, pre, n, post, hcc, hpre, hkn⟩ |
      ⟨i, k, v, hi, hk, hag', hseg, hlt⟩
    · exfalso
      have := tb_charAt_replicate (pre := pre) (post := post) (n := n) (j := g - k) (by omega)
      rw [← hcc, show byteLen pre + (g - k) = g by omega] at this
      exact absurd (sh_charAt_unique hg this) (by decide)
    · obtain ⟨pre, t, post, hcc, hpre, hnt, hsrc, hnext⟩ := hseg
      simp only at hpre hsrc
      have hge : k + byteLen t ≤ g := by
        rcases Nat.lt_or_ge g (k + byteLen t) with hlt' | hge
        · exfalso
          obtain ⟨G1, G2, eG, hG⟩ := hg
          have hcut : Cut c k (k + byteLen t) t := ⟨pre, post, hcc, hpre, rfl⟩
          exact hnt (C05R.fa_mem_cut hcut eG (by omega) (by omega))
        · exact hge
      cases hn1 : m[i + 1]? with
      | none =>
        exfalso
        rw [hn1] at hnext
        subst hnext
        rw [hcc] at hqc
        simp only [C05.byteLen_append, List.append_nil] at hqc
        omega
      | some y =>
        rw [hn1] at hnext
        obtain ⟨post', _, hy1, hy2, hbrk⟩ := hnext
        simp only at hy1 hy2 hbrk
        have hgy := hlt y hn1
        have m1 := C05.translate_mono_all m hw hv p g (by omega) a ag ha hag
        obtain ⟨ay, hay⟩ := C05.translate_total m hw y.1
        have hl : InlineOps.lineOf m y.1 = .ok (i + 1) :=
          C05.lineOf_segment m hw y.1 (i + 1) y.1 y.2 hn1 (Nat.le_refl _)
            (fun k2 v2 h2 => sh_keys_lt hw hn1 h2)
        have m2 := C05.translate_ge_entry m hv y.1 (i + 1) y.1 y.2 ay hl hn1 (Nat.le_refl _) hay
        have m3 := C05.translate_mono_all m hw hv y.1 q (by omega) ay b hay hb
        exact hbrk.mem_cut hw' (by omega) (by omega)

/-! ## (iii) the table and the content of `get_lines` -/

open MdIt.Lines (Shows mapOf viewPiece joinLines calcRightWs usizeAsI32 dropB)

theorem tf_byteLen_replicate (n : Nat) : byteLen (List.replicate n ' ') = n := by
  rw [← C05I.linesLen_eq]; exact Lines.byteLen_replicate_space n

/-- what one line contributes, split tab or not: `replicate virt ' ' ++ t`, `t` a line-feed-free copy
    of the source bytes from the table's offset to the end of the line -/
theorem tf_piece {src : List Char} {o : LineOffset} {v : List Char × List Char × Int} {indent : Nat}
    {cc : Nat × Nat} {t : List Char} (hs : Shows src o v) (hn1 : '\n' ∉ v.1) (hn2 : '\n' ∉ v.2.1)
    (hcc : calcRightWs v.1 (v.2.2 - usizeAsI32 indent) = cc) (ht : dropB v.1 cc.2 ++ v.2.1 = t) :
    Cut src (o.lineStart + cc.2) (o.lineStart + cc.2 + byteLen t) t ∧
      o.lineStart + cc.2 + byteLen t = o.lineEnd ∧ '\n' ∉ t ∧
      viewPiece indent v = List.replicate cc.1 ' ' ++ t := by
  subst hcc ht
  have h1 := Lines.slice_from_view hs.1 hs.2.1 (v.2.2 - usizeAsI32 indent)
  have h2 := (C05R.cut_iff_lines _ _ _ _).mp h1
  have h3 : o.lineStart + (calcRightWs v.1 (v.2.2 - usizeAsI32 indent)).2
      + byteLen (dropB v.1 (calcRightWs v.1 (v.2.2 - usizeAsI32 indent)).2 ++ v.2.1) = o.lineEnd := by
    obtain ⟨_, _, _, _, h⟩ := h2
    exact h
  refine ⟨by rw [h3]; exact h2, h3, ?_, by simp [viewPiece, List.append_assoc]⟩
  intro hm
  rcases List.mem_append.mp hm with hm | hm
  · exact hn1 ((Lines.dropB_suffix _ _).subset hm)
  · exact hn2 hm

theorem tf_mapOf_cons (indent p : Nat) (o : LineOffset) (v : List Char × List Char × Int)
    (r : List (LineOffset × (List Char × List Char × Int))) :
    mapOf indent p ((o, v) :: r)
      = ((p, o.lineStart + (calcRightWs v.1 (v.2.2 - usizeAsI32 indent)).2) ::
          (if (calcRightWs v.1 (v.2.2 - usizeAsI32 indent)).1 > 0 then
            [(p + (calcRightWs v.1 (v.2.2 - usizeAsI32 indent)).1,
              o.lineStart + (calcRightWs v.1 (v.2.2 - usizeAsI32 indent)).2)] else []))
        ++ mapOf indent (p + byteLen (viewPiece indent v) + 1) r := by
  rw [← C05I.linesLen_eq]; rfl

/-- the entries of ONE line (a real one, preceded by a virtual one iff `n > 0`) in front of the
    entries `M` of the following lines -/
theorem tf_line_segs {src C pre T POST : List Char} {n V : Nat} {M : Srcmap}
    (hC : C = pre ++ List.replicate n ' ' ++ T ++ POST) (hcut : Cut src V (V + byteLen T) T)
    (hreal : fa_Seg src C (byteLen pre + n, V) M.head?) (hM : SegAll (tf_Seg src C) M) :
    SegAll (tf_Seg src C)
      (((byteLen pre, V) :: (if n > 0 then [(byteLen pre + n, V)] else [])) ++ M) := by
  by_cases hn : n > 0
  · simp only [hn, if_true, List.cons_append, List.nil_append, SegAll, List.head?_cons]
    exact ⟨.inl ⟨byteLen pre + n, rfl, hcut.bdy_left, pre, n, T ++ POST,
      by rw [hC]; simp [List.append_assoc], rfl, rfl⟩, .inr hreal, hM⟩
  · have h0 : n = 0 := by omega
    subst h0
    simp only [Nat.lt_irrefl, if_false, List.cons_append, List.nil_append, SegAll, gt_iff_lt]
    exact ⟨.inr (by simpa using hreal), hM⟩

/-- **(iii)**: every entry of the table of `get_lines` is `tf_Seg` -/
theorem tf_mapOf_seg (src : List Char) (indent : Nat) :
    ∀ (ovs : List (LineOffset × (List Char × List Char × Int))) (pre : List Char),
      (∀ ov ∈ ovs, Shows src ov.1 ov.2 ∧ '\n' ∉ ov.2.1 ∧ '\n' ∉ ov.2.2.1) →
      C05R.fa_Chain src (ovs.map (·.1)) →
      SegAll (tf_Seg src (pre ++ joinLines false (ovs.map fun ov => viewPiece indent ov.2)))
        (mapOf indent (byteLen pre) ovs) := by
  intro ovs
  induction ovs with
  | nil => intro pre _ _; simp [mapOf, SegAll]
  | cons ov rest ih =>
    intro pre hs hc
    obtain ⟨o, v⟩ := ov
    obtain ⟨hsh, hn1, hn2⟩ := hs (o, v) (by simp)
    simp only at hsh hn1 hn2
    obtain ⟨hcut, hend, hnt, hvp⟩ := tf_piece (indent := indent) hsh hn1 hn2 rfl rfl
    have hbl : byteLen (viewPiece indent v) = (calcRightWs v.1 (v.2.2 - usizeAsI32 indent)).1
        + byteLen (dropB v.1 (calcRightWs v.1 (v.2.2 - usizeAsI32 indent)).2 ++ v.2.1) := by
      rw [hvp, C05.byteLen_append, tf_byteLen_replicate]
    rw [tf_mapOf_cons]
    generalize hcc : calcRightWs v.1 (v.2.2 - usizeAsI32 indent) = cc at *
    generalize ht : dropB v.1 cc.2 ++ v.2.1 = T at *
    have hpre' : byteLen (pre ++ List.replicate cc.1 ' ') = byteLen pre + cc.1 := by
      rw [C05.byteLen_append, tf_byteLen_replicate]
    cases rest with
    | nil =>
      have hC : pre ++ joinLines false ([(o, v)].map fun ov => viewPiece indent ov.2)
          = pre ++ List.replicate cc.1 ' ' ++ T ++ [] := by
        simp [joinLines, hvp, List.append_assoc]
      have := tf_line_segs (M := []) hC hcut
        ⟨pre ++ List.replicate cc.1 ' ', T, [], hC, hpre', hnt, hcut, rfl⟩ trivial
      simpa [mapOf] using this
    | cons ov2 rest' =>
      obtain ⟨o2, v2⟩ := ov2
      obtain ⟨hc1, hc2, hc3⟩ := hc
      simp only at hc1 hc2
      have ih' := ih (pre ++ viewPiece indent v ++ ['\n'])
        (fun ov h => hs ov (List.mem_cons_of_mem _ h)) hc3
      have hcontent : pre ++ joinLines false (((o, v) :: (o2, v2) :: rest').map fun ov => viewPiece indent ov.2)
          = (pre ++ viewPiece indent v ++ ['\n']) ++
            joinLines false (((o2, v2) :: rest').map fun ov => viewPiece indent ov.2) := by
        simp [joinLines, List.append_assoc]
      have hpos : byteLen (pre ++ viewPiece indent v ++ ['\n'])
          = byteLen pre + byteLen (viewPiece indent v) + 1 := by
        simp only [C05.byteLen_append, byteLen, show '\n'.utf8Size = 1 by decide]
      have hC : pre ++ joinLines false (((o, v) :: (o2, v2) :: rest').map fun ov => viewPiece indent ov.2)
          = pre ++ List.replicate cc.1 ' ' ++ T ++
            '\n' :: joinLines false (((o2, v2) :: rest').map fun ov => viewPiece indent ov.2) := by
        simp [joinLines, hvp, List.append_assoc]
      rw [hpos, ← hcontent] at ih'
      have hhead := C05I.mapOf_head indent (byteLen pre + byteLen (viewPiece indent v) + 1) o2 v2 rest'
      have hst2 := (Lines.calc_right_le v2.1 (v2.2.2 - usizeAsI32 indent))
      apply tf_line_segs hC hcut _ ih'
      rw [hhead]
      refine ⟨pre ++ List.replicate cc.1 ' ', T, _, hC, hpre', hnt, hcut, _, rfl, ?_, ?_, ?_⟩
      · simp only; omega
      · simp only; omega
      · simp only; rw [hend]; exact hc2

/-! ## from the line table -/

/-- **`get_lines` is faithful for ANY table** (tabs split or not): on a table whose entries cut
    line-feed-free lines out of the source (`LineOk`), strictly separated (`SortedS`), each ending in
    front of a line break or at the end of the source (`TermOk`) -/
theorem tf_getLines_pfthV {src : List Char} {offs : List LineOffset}
    (hT : ∀ (k : Nat) (o : LineOffset), offs[k]? = some o → Block.LineOk src o)
    (hord : Block.SortedS offs) (hterm : C05R.TermOk src offs)
    {b e indent : Nat} {c : List Char} {m : Srcmap} (hbe : b < e)
    (h : Lines.getLines src offs b e indent false = .ok (c, m)) : PFthV src c m := by
  have hlen : e ≤ offs.length := by
    unfold Lines.getLines at h
    rw [if_neg (by omega)] at h
    exact Lines.getLinesGo_ok_len h hbe
  have hvs := tb_getLines_virtSp hT hord.orderD hbe h
  obtain ⟨oe, hoe⟩ : ∃ oe, offs[e - 1]? = some oe :=
    ⟨offs[e - 1]'(by omega), List.getElem?_eq_getElem _⟩
  obtain ⟨hw, hmv, _⟩ := C05I.getLines_table hT hord.orderD hbe h hoe
  obtain ⟨ovs, hvl, hv⟩ := C05R.fa_ovs_of_tableOk hT (e - b) b (by omega)
  obtain ⟨content, hget, hcontent, _⟩ :=
    Lines.get_lines_faithful src offs b indent false ovs (fun j hj => ⟨(hv j hj).1, (hv j hj).2.1⟩)
  rw [hvl, show b + (e - b) = e by omega, h] at hget
  simp only [Except.ok.injEq, Prod.mk.injEq] at hget
  obtain ⟨rfl, rfl⟩ := hget
  have hseg := tf_mapOf_seg src indent ovs [] (by
    intro ov hov
    obtain ⟨j, hj, rfl⟩ := List.getElem_of_mem hov
    exact (hv j hj).2) (by
    apply C05R.fa_chain_of
    intro j a a' ha ha'
    simp only [List.getElem?_map, Option.map_eq_some_iff] at ha ha'
    obtain ⟨x, hx, rfl⟩ := ha
    obtain ⟨y, hy, rfl⟩ := ha'
    obtain ⟨hj, rfl⟩ := List.getElem?_eq_some_iff.mp hx
    obtain ⟨hj', rfl⟩ := List.getElem?_eq_some_iff.mp hy
    have h1 := hord (b + j) (b + (j + 1)) _ _ (by omega) (hv j hj).1 (hv (j + 1) hj').1
    refine ⟨h1, ?_⟩
    rcases hterm _ _ (hv j hj).1 with h2 | h2
    · exfalso
      have := (hT _ _ (hv (j + 1) hj').1).bounds
      rw [C05I.linesLen_eq] at this
      omega
    · exact h2)
  simp only [List.nil_append, byteLen] at hseg
  rw [← hcontent] at hseg
  exact tf_pfthV_of_seg hw hmv hvs hseg

end MdIt.C05T

namespace MdIt.Block
open MdIt.Lines (LineOffset)

/-- **the block pass establishes `PTabsF` at every placeholder**, for ALL sources: `PTabs`, the
    content is a faithful excerpt of the document (`PFthV`), the stretch ends at the end of a line -/
theorem inlSpec3_ptabsF (src0 : List Char) : InlSpec3 src0 (PTabsF src0) := by
  refine ⟨?_, ?_⟩
  · intro s b e c m ob oe hg hgl hbe hob hoe hkept
    refine ⟨(inlSpec2_ptabs src0).lines s b e c m ob oe hg.g2 hgl hbe hob hoe hkept, ?_, ?_⟩
    · have := C05T.tf_getLines_pfthV hg.g2.geo.table hg.g2.strict hg.term hbe (C05I.getLines_lift hgl)
      rw [hg.g2.srcEq] at this
      exact this
    · have := hg.term (e - 1) oe hoe
      rw [hg.g2.srcEq] at this
      exact this
  · intro s o line content textPos textMax hg ho hline hcontent
    have hfull := (inlSpec3_pfull src0).heading s o line content textPos textMax hg ho hline hcontent
    refine ⟨(inlSpec2_ptabs src0).heading s o line content textPos textMax hg.g2 ho hline hcontent,
      ?_, hfull.2.2⟩
    have h1 : Lines.getLine s.src s.offs s.line = .ok line := liftL_ok5 hline
    unfold Lines.getLine at h1
    rw [ho] at h1
    simp only at h1
    obtain ⟨hc, hn⟩ := C05R.fa_heading_cut (hg.g2.geo.table _ _ ho) h1 (liftL_ok5 hcontent)
    rw [hg.g2.srcEq] at hc
    exact C05T.tf_pfthV_of_pfth (C05R.fa_single_pfth hc hn)

end MdIt.Block

/-! ## non-vacuity: the split-tab placeholder of `"-    ` a\n\t\t`"` -/

namespace MdIt.C05T
open MdIt.C05R (Cut Bdy)

/-- every entry of the table `[(0,5),(4,11),(7,11)]` of the content `"` a\n   `"` (`tb_exC`, the
    placeholder of `tb_exSrc`, see Lemmas/C05TabsTable.lean) is `tf_Seg`: a real entry (line 1,
    `src[5..8]`, line break at 8), a virtual one (3 spaces on the source offset 11), a real one
    (`src[11..12]`) -/
theorem tf_ex_seg : C05I.SegAll (tf_Seg tb_exSrc tb_exC) [(0, 5), (4, 11), (7, 11)] :=
  ⟨.inr ⟨[], ['`', ' ', 'a'], ['\n', ' ', ' ', ' ', '`'], by decide, by decide, by decide,
      ⟨['-', ' ', ' ', ' ', ' '], ['\n', '\t', '\t', '`'], by decide, by decide, by decide⟩,
      [' ', ' ', ' ', '`'], rfl, by decide, by decide,
      ⟨['-', ' ', ' ', ' ', ' ', '`', ' ', 'a'], '\n', ['\t', '\t', '`'], by decide, by decide, .inl rfl⟩⟩,
    .inl ⟨7, rfl, ⟨['-', ' ', ' ', ' ', ' ', '`', ' ', 'a', '\n', '\t', '\t'], ['`'], by decide, by decide⟩,
      ['`', ' ', 'a', '\n'], 3, ['`'], by decide, by decide, by decide⟩,
    .inr ⟨['`', ' ', 'a', '\n', ' ', ' ', ' '], ['`'], [], by decide, by decide, by decide,
      ⟨['-', ' ', ' ', ' ', ' ', '`', ' ', 'a', '\n', '\t', '\t'], [], by decide, by decide, by decide⟩,
      rfl⟩,
    trivial⟩

/-- … hence `PFthV` -/
theorem tf_ex_pfthV : PFthV tb_exSrc tb_exC [(0, 5), (4, 11), (7, 11)] :=
  tf_pfthV_of_seg sh_exM_wf sh_exM_monoV (tb_virtSp_of_seg tb_ex_seg) tf_ex_seg

/-- `bdy` inside the virtual spaces (byte 5 of the content ↦ source offset 11, the backtick behind
    the two tabs), `copy` of the closing backtick `c[7..8]` to `src[11..12]` -/
example : Bdy tb_exSrc 11 ∧ Cut tb_exSrc 11 12 ['`'] :=
  ⟨tf_ex_pfthV.bdy 5 11 ⟨['`', ' ', 'a', '\n', ' '], [' ', ' ', '`'], by decide, by decide⟩
      (by decide +kernel),
    tf_ex_pfthV.copy 7 8 '`' [] 7 8 ['`'] 11 12
      ⟨['`', ' ', 'a', '\n', ' ', ' ', ' '], [], by decide, by decide, by decide⟩ (by decide) (by decide)
      (by simp) (Nat.le_refl _) (Nat.le_refl _)
      ⟨['`', ' ', 'a', '\n', ' ', ' ', ' '], [], by decide, by decide, by decide⟩
      (by decide +kernel) (by decide +kernel)⟩

/-- the solid start of `copy` is needed: `c[5..8] = "  `"` (two virtual spaces and the backtick, no
    line feed) is translated to `src[11..12] = "`"` — not a copy -/
example : Cut tb_exC 5 8 [' ', ' ', '`'] ∧ InlineOps.getSourcePosFor [(0, 5), (4, 11), (7, 11)] 5 = .ok 11 ∧
    InlineOps.getSourcePosFor [(0, 5), (4, 11), (7, 11)] 8 = .ok 12 ∧ ¬ Cut tb_exSrc 11 12 [' ', ' ', '`'] := by
  refine ⟨⟨['`', ' ', 'a', '\n', ' '], [], by decide, by decide, by decide⟩, by decide +kernel,
    by decide +kernel, ?_⟩
  rintro ⟨_, _, _, _, h⟩
  simp only [InlineOps.byteLen, show ' '.utf8Size = 1 by decide, show '`'.utf8Size = 1 by decide] at h
  omega

end MdIt.C05T
