/-
  C10 with the sourcepos plugin, ALL sources (split tabs included) — the EXACT lock-step simulation of the
  inline parser under two per-line tables that are only `C05T.MapT`, part 1: the context, the node
  relation, lists, `get_map`, trailing text, the states, and the rules without look-ahead.

  This is `Lemmas/C10SpFullInlineBase.lean` (read its header and that of `Lemmas/C10DocInline.lean`) copied
  into the namespace `MdIt.Inline.XT` with these changes:
    * the context `K` holds two `C05T.MapT` tables (not `MapOK`);
    * the start character of a span is SOLID (`C10SP.CharSolid`: neither line feed nor space);
    * `Span` records `q ≤ |c|` (the translation is no longer strictly monotone, so the end of a stretch
      cannot be recovered from the single-run range theorem); for that the state relation carries
      `posMax ≤ |src|` (`KS`), and every `get_map(p, q)` of an attribute-rendering node has `q ≤ posMax`;
    * `TokInv` records `p + rem ≤ |c|`.
-/
import MdIt.Lemmas.C10DocInline
import MdIt.Lemmas.C10SpTabsDefs
import MdIt.Lemmas.C05TabsDefs
import MdIt.Lemmas.C05InlineExit

namespace MdIt.Inline.XT
open MdIt.InlineOps (Srcmap getSourcePosFor getMap byteLen slice)
open MdIt.Pipeline (MLe)
open MdIt.C10SP (CharSolid)
set_option linter.unusedSimpArgs false
set_option linter.unusedVariables false

/-- the context of one simulation: the inline text and the two tables -/
structure Ctx where
  c : List Char
  m₁ : Srcmap
  m₂ : Srcmap
  ok₁ : C05T.MapT c m₁
  ok₂ : C05T.MapT c m₂

variable {K : Ctx}

/-! ## the relations -/

/-- the two ranges are the translations of ONE stretch `[p, q]` of the inline text whose first
    character is not the line feed (`C10SP.SameSpan` without `p ≤ q ≤ |c|`, which the single-run range
    theorem `parseInline_ranges_exact` gives back at the end) -/
def Span (K : Ctx) (r₁ r₂ : Option (Nat × Nat)) : Prop :=
  ∃ p q a₁ b₁ a₂ b₂, r₁ = some (a₁, b₁) ∧ r₂ = some (a₂, b₂) ∧ q ≤ byteLen K.c ∧ CharSolid K.c p ∧
    getSourcePosFor K.m₁ p = .ok a₁ ∧ getSourcePosFor K.m₁ q = .ok b₁ ∧
    getSourcePosFor K.m₂ p = .ok a₂ ∧ getSourcePosFor K.m₂ q = .ok b₂

/-- THE TOKEN INVARIANT of an `EmphMarker` with `rem` delimiters left: both ranges are the translations
    of ONE stretch `[p, p + rem]` on which both translations are shifts, and a character other than the
    line feed starts at each of `p, …, p + rem - 1` -/
def TokInv (K : Ctx) (rem : Nat) (r₁ r₂ : Option (Nat × Nat)) : Prop :=
  ∃ p a₁ a₂, r₁ = some (a₁, a₁ + rem) ∧ r₂ = some (a₂, a₂ + rem) ∧
    (∀ j, j ≤ rem → getSourcePosFor K.m₁ (p + j) = .ok (a₁ + j) ∧
      getSourcePosFor K.m₂ (p + j) = .ok (a₂ + j)) ∧
    (∀ j, j < rem → CharSolid K.c (p + j)) ∧ p + rem ≤ byteLen K.c

/-- what the two ranges of a node with value `v` satisfy beyond `ROrd` -/
def Extra (K : Ctx) : Val → Option (Nat × Nat) → Option (Nat × Nat) → Prop
  | .codeInline _ _, r₁, r₂ => Span K r₁ r₂
  | .wrap _ _, r₁, r₂ => Span K r₁ r₂
  | .link _ _, r₁, r₂ => Span K r₁ r₂
  | .image _ _, r₁, r₂ => Span K r₁ r₂
  | .autolink _, r₁, r₂ => Span K r₁ r₂
  | .emphMarker _ _ rem _ _, r₁, r₂ => TokInv K rem r₁ r₂
  | _, _, _ => True

/-- `Extra` in strict mode -/
def XRel (K : Ctx) (s : Bool) (v : Val) (r₁ r₂ : Option (Nat × Nat)) : Prop := s = true → Extra K v r₁ r₂

theorem XRel.false (v : Val) (r₁ r₂ : Option (Nat × Nat)) : XRel K false v r₁ r₂ := fun h => by cases h

theorem XRel.text {s : Bool} (ct : List Char) (r₁ r₂ : Option (Nat × Nat)) : XRel K s (.text ct) r₁ r₂ :=
  fun _ => trivial

mutual
/-- same value, related ranges, `Extra`, related children -/
def NRel (K : Ctx) (s : Bool) : Node → Node → Prop
  | ⟨v₁, r₁, cs₁⟩, n₂ => v₁ = n₂.val ∧ RRel s r₁ n₂.range ∧ XRel K s v₁ r₁ n₂.range ∧ LRel K s cs₁ n₂.children
def LRel (K : Ctx) (s : Bool) : List Node → List Node → Prop
  | [], l₂ => l₂ = []
  | a :: as, l₂ =>
    match l₂ with
    | [] => False
    | b :: bs => NRel K s a b ∧ LRel K s as bs
end

theorem NRel_iff (s : Bool) (a b : Node) :
    NRel K s a b ↔ a.val = b.val ∧ RRel s a.range b.range ∧ XRel K s a.val a.range b.range ∧
      LRel K s a.children b.children := by
  cases a; simp [NRel]

@[simp] theorem LRel_nil_nil (s : Bool) : LRel K s [] [] := by simp [LRel]
@[simp] theorem LRel_cons_cons (s : Bool) (a b : Node) (as bs : List Node) :
    LRel K s (a :: as) (b :: bs) ↔ NRel K s a b ∧ LRel K s as bs := by simp [LRel]
@[simp] theorem LRel_nil_cons (s : Bool) (b : Node) (bs : List Node) : ¬ LRel K s [] (b :: bs) := by
  simp [LRel]
@[simp] theorem LRel_cons_nil (s : Bool) (a : Node) (as : List Node) : ¬ LRel K s (a :: as) [] := by
  simp [LRel]

/-! ### lists -/

theorem LRel.length {s : Bool} : ∀ {l₁ l₂ : List Node}, LRel K s l₁ l₂ → l₁.length = l₂.length
  | [], [], _ => rfl
  | [], _ :: _, h => absurd h (LRel_nil_cons _ _ _)
  | _ :: _, [], h => absurd h (LRel_cons_nil _ _ _)
  | _ :: as, _ :: bs, h => by
    have := LRel.length ((LRel_cons_cons _ _ _ _ _).mp h).2
    simp [this]

theorem LRel.append {s : Bool} : ∀ {a b c d : List Node}, LRel K s a b → LRel K s c d → LRel K s (a ++ c) (b ++ d)
  | [], [], _, _, _, h => by simpa using h
  | [], _ :: _, _, _, h, _ => absurd h (LRel_nil_cons _ _ _)
  | _ :: _, [], _, _, h, _ => absurd h (LRel_cons_nil _ _ _)
  | _ :: as, _ :: bs, _, _, h, h' => by
    rw [LRel_cons_cons] at h
    simp only [List.cons_append, LRel_cons_cons]
    exact ⟨h.1, LRel.append h.2 h'⟩

theorem LRel.single {s : Bool} {a b : Node} (h : NRel K s a b) : LRel K s [a] [b] := by simp [h]

theorem LRel.snoc {s : Bool} {a b : List Node} {x y : Node} (h : LRel K s a b) (hx : NRel K s x y) :
    LRel K s (a ++ [x]) (b ++ [y]) := h.append (LRel.single hx)

theorem LRel.take {s : Bool} : ∀ {l₁ l₂ : List Node} (k : Nat), LRel K s l₁ l₂ → LRel K s (l₁.take k) (l₂.take k)
  | [], [], _, _ => by simp
  | [], _ :: _, _, h => absurd h (LRel_nil_cons _ _ _)
  | _ :: _, [], _, h => absurd h (LRel_cons_nil _ _ _)
  | _ :: as, _ :: bs, 0, _ => by simp
  | _ :: as, _ :: bs, k + 1, h => by
    rw [LRel_cons_cons] at h
    simp only [List.take_succ_cons, LRel_cons_cons]
    exact ⟨h.1, LRel.take k h.2⟩

theorem LRel.drop {s : Bool} : ∀ {l₁ l₂ : List Node} (k : Nat), LRel K s l₁ l₂ → LRel K s (l₁.drop k) (l₂.drop k)
  | [], [], _, _ => by simp
  | [], _ :: _, _, h => absurd h (LRel_nil_cons _ _ _)
  | _ :: _, [], _, h => absurd h (LRel_cons_nil _ _ _)
  | _ :: as, _ :: bs, 0, h => by simpa using h
  | _ :: as, _ :: bs, k + 1, h => by
    rw [LRel_cons_cons] at h
    simp only [List.drop_succ_cons]
    exact LRel.drop k h.2

theorem LRel.set {s : Bool} : ∀ {l₁ l₂ : List Node} (k : Nat) {x y : Node}, LRel K s l₁ l₂ → NRel K s x y →
    LRel K s (l₁.set k x) (l₂.set k y)
  | [], [], _, _, _, _, _ => by simp
  | [], _ :: _, _, _, _, h, _ => absurd h (LRel_nil_cons _ _ _)
  | _ :: _, [], _, _, _, h, _ => absurd h (LRel_cons_nil _ _ _)
  | _ :: as, _ :: bs, 0, _, _, h, hx => by
    rw [LRel_cons_cons] at h
    simp only [List.set_cons_zero, LRel_cons_cons]
    exact ⟨hx, h.2⟩
  | _ :: as, _ :: bs, k + 1, _, _, h, hx => by
    rw [LRel_cons_cons] at h
    simp only [List.set_cons_succ, LRel_cons_cons]
    exact ⟨h.1, LRel.set k h.2 hx⟩

theorem LRel.getElem? {s : Bool} : ∀ {l₁ l₂ : List Node} (k : Nat) {x : Node}, LRel K s l₁ l₂ →
    l₁[k]? = some x → ∃ y, l₂[k]? = some y ∧ NRel K s x y
  | [], _, _, _, _, h => by simp at h
  | _ :: _, [], _, _, h, _ => absurd h (LRel_cons_nil _ _ _)
  | a :: as, b :: bs, 0, _, h, hx => by
    rw [LRel_cons_cons] at h
    simp only [List.getElem?_cons_zero, Option.some.injEq] at hx ⊢
    subst hx; exact ⟨b, rfl, h.1⟩
  | _ :: as, _ :: bs, k + 1, _, h, hx => by
    rw [LRel_cons_cons] at h
    simp only [List.getElem?_cons_succ] at hx ⊢
    exact LRel.getElem? k h.2 hx

/-- split a related pair of lists at the last element -/
theorem LRel.of_snoc {s : Bool} : ∀ {a l₂ : List Node} {x : Node}, LRel K s (a ++ [x]) l₂ →
    ∃ b y, l₂ = b ++ [y] ∧ LRel K s a b ∧ NRel K s x y
  | [], [], _, h => absurd h (LRel_cons_nil _ _ _)
  | [], [y], _, h => by
    simp only [List.nil_append, LRel_cons_cons] at h
    exact ⟨[], y, rfl, by simp, h.1⟩
  | [], _ :: _ :: _, _, h => by
    simp only [List.nil_append, LRel_cons_cons] at h
    exact absurd h.2 (LRel_nil_cons _ _ _)
  | _ :: _, [], _, h => absurd h (LRel_cons_nil _ _ _)
  | a :: as, b :: bs, _, h => by
    simp only [List.cons_append, LRel_cons_cons] at h
    obtain ⟨b', y, rfl, h1, h2⟩ := LRel.of_snoc h.2
    exact ⟨b :: b', y, rfl, by simp [h.1, h1], h2⟩

theorem LRel.popLast_some {s : Bool} {l₁ l₂ i₁ : List Node} {x₁ : Node} (h : LRel K s l₁ l₂)
    (hp : popLast l₁ = some (i₁, x₁)) :
    ∃ i₂ x₂, popLast l₂ = some (i₂, x₂) ∧ LRel K s i₁ i₂ ∧ NRel K s x₁ x₂ := by
  rcases popLast_spec l₁ with ⟨h0, _⟩ | ⟨i, l, h1, h2⟩
  · rw [h0] at hp; cases hp
  · rw [h1] at hp; cases hp
    subst h2
    obtain ⟨b, y, rfl, hb, hy⟩ := h.of_snoc
    exact ⟨b, y, popLast_snoc b y, hb, hy⟩

theorem LRel.popLast_none {s : Bool} {l₁ l₂ : List Node} (h : LRel K s l₁ l₂)
    (hp : popLast l₁ = none) : popLast l₂ = none := by
  rcases popLast_spec l₁ with ⟨_, h0⟩ | ⟨i, l, h1, _⟩
  · subst h0
    cases l₂ with
    | nil => rfl
    | cons b bs => exact absurd h (LRel_nil_cons _ _ _)
  · rw [h1] at hp; cases hp

/-! ### what a node relation transports -/

theorem NRel.val {s : Bool} {a b : Node} (h : NRel K s a b) : b.val = a.val := ((NRel_iff _ _ _).mp h).1.symm
theorem NRel.range {s : Bool} {a b : Node} (h : NRel K s a b) : RRel s a.range b.range :=
  ((NRel_iff _ _ _).mp h).2.1
theorem NRel.extra {s : Bool} {a b : Node} (h : NRel K s a b) : XRel K s a.val a.range b.range :=
  ((NRel_iff _ _ _).mp h).2.2.1
theorem NRel.children {s : Bool} {a b : Node} (h : NRel K s a b) : LRel K s a.children b.children :=
  ((NRel_iff _ _ _).mp h).2.2.2
theorem NRel.isText {s : Bool} {a b : Node} (h : NRel K s a b) : b.isText = a.isText := by
  unfold Node.isText; rw [h.val]
theorem NRel.content {s : Bool} {a b : Node} (h : NRel K s a b) : b.content = a.content := by
  unfold Node.content; rw [h.val]
theorem NRel.asMarker {s : Bool} {a b : Node} (h : NRel K s a b) : b.asMarker = a.asMarker := by
  unfold Node.asMarker; rw [h.val]

theorem NRel.mk' {s : Bool} {v : Val} {r₁ r₂ : Option (Nat × Nat)} {c₁ c₂ : List Node}
    (hr : RRel s r₁ r₂) (hx : XRel K s v r₁ r₂) (hc : LRel K s c₁ c₂) : NRel K s ⟨v, r₁, c₁⟩ ⟨v, r₂, c₂⟩ :=
  (NRel_iff _ _ _).mpr ⟨rfl, hr, hx, hc⟩

theorem trailingTextGet_rel {s : Bool} {l₁ l₂ : List Node} (h : LRel K s l₁ l₂) :
    trailingTextGet l₂ = trailingTextGet l₁ := by
  unfold trailingTextGet
  cases hp : popLast l₁ with
  | none => rw [h.popLast_none hp]
  | some p =>
    obtain ⟨i₁, x₁⟩ := p
    obtain ⟨i₂, x₂, hp2, _, hx⟩ := h.popLast_some hp
    rw [hp2]; simp only [hx.isText, hx.content]

/-! ## `get_map` -/

/-- both ranges are the translations of the SAME inline positions `a`, `b` -/
def GM (m₁ m₂ : Srcmap) (a b : Nat) (r₁ r₂ : Nat × Nat) : Prop :=
  getSourcePosFor m₁ a = .ok r₁.1 ∧ getSourcePosFor m₁ b = .ok r₁.2 ∧
  getSourcePosFor m₂ a = .ok r₂.1 ∧ getSourcePosFor m₂ b = .ok r₂.2

theorem getMap_sim {s : Bool} {m₁ m₂ : Srcmap} (hm : MRel s m₁ m₂) {a b : Nat} {r₁ : Nat × Nat}
    (h₁ : getMap m₁ a b = .ok r₁) :
    Sim s (fun r₁ r₂ => RRel s (some r₁) (some r₂) ∧ GM m₁ m₂ a b r₁ r₂) r₁ (getMap m₂ a b) := by
  unfold getMap at h₁ ⊢
  split at h₁
  · simp at h₁
  · next hab =>
    rw [if_neg hab]
    split at h₁
    · simp at h₁
    · next x₁ hx =>
      split at h₁
      · simp at h₁
      · next y₁ hy =>
        simp only [Except.ok.injEq] at h₁; subst h₁
        have sx := gsp_sim hm hx
        have sy := gsp_sim hm hy
        cases hx2 : getSourcePosFor m₂ a with
        | error e => rw [hx2] at sx; simpa using sx
        | ok x₂ =>
          rw [hx2] at sx
          cases hy2 : getSourcePosFor m₂ b with
          | error e => rw [hy2] at sy; simpa using sy
          | ok y₂ =>
            rw [hy2] at sy
            exact ⟨RRel.some sx sy, hx, hy, hx2, hy2⟩

/-- the values without an attribute-rendering range -/
def Plain : Val → Prop
  | .text _ => True
  | .special _ _ _ => True
  | .softbreak => True
  | .hardbreak => True
  | _ => False

theorem XRel.plain {s : Bool} {v : Val} (h : Plain v) (r₁ r₂ : Option (Nat × Nat)) : XRel K s v r₁ r₂ := by
  intro _
  cases v <;> first | trivial | cases h

theorem span_of_GM {a b : Nat} {r₁ r₂ : Nat × Nat} (h : GM K.m₁ K.m₂ a b r₁ r₂) (hc : CharSolid K.c a)
    (hb : b ≤ byteLen K.c) : Span K (some r₁) (some r₂) :=
  ⟨a, b, r₁.1, r₁.2, r₂.1, r₂.2, rfl, rfl, hb, hc, h.1, h.2.1, h.2.2.1, h.2.2.2⟩

theorem newText_rel {s : Bool} (c : List Char) {r₁ r₂ : Option (Nat × Nat)} (h : RRel s r₁ r₂) :
    NRel K s (Node.newText c r₁) (Node.newText c r₂) := NRel.mk' h (XRel.text _ _ _) (by simp)

theorem leaf_rel {s : Bool} (v : Val) {r₁ r₂ : Option (Nat × Nat)} (h : RRel s r₁ r₂)
    (hx : XRel K s v r₁ r₂) : NRel K s (Node.leaf v r₁) (Node.leaf v r₂) := NRel.mk' h hx (by simp)

theorem fresh_sim {s : Bool} {src : List Char} {m₁ m₂ : Srcmap} {c₁ c₂ o₁ : List Node}
    {a b : Nat} (hm : MRel s m₁ m₂) (hc : LRel K s c₁ c₂)
    (h : (match liftOps (slice src a b) with
      | Except.error e => Except.error e
      | Except.ok piece =>
        match liftOps (getMap m₁ a b) with
        | Except.error e => Except.error e
        | Except.ok r => Except.ok (c₁ ++ [Node.newText piece (some r)])) = Except.ok o₁) :
    Sim s (LRel K s) o₁ (match liftOps (slice src a b) with
      | Except.error e => Except.error e
      | Except.ok piece =>
        match liftOps (getMap m₂ a b) with
        | Except.error e => Except.error e
        | Except.ok r => Except.ok (c₂ ++ [Node.newText piece (some r)])) := by
  split at h
  · simp at h
  · next piece hp =>
    split at h
    · simp at h
    · next r₁ hg =>
      simp only [Except.ok.injEq] at h; subst h
      rcases (getMap_sim hm (liftOps_ok.mp hg)).liftOps.cases with ⟨r₂, e2, hr⟩ | ⟨hs, e, e2⟩
      · rw [e2]; exact hc.snoc (newText_rel _ hr.1)
      · rw [e2]; exact hs

theorem trailingTextPush_sim {s : Bool} {src : List Char} {m₁ m₂ : Srcmap} {c₁ c₂ o₁ : List Node}
    {a b : Nat} (hm : MRel s m₁ m₂) (hc : LRel K s c₁ c₂)
    (h : trailingTextPush src m₁ c₁ a b = .ok o₁) :
    Sim s (LRel K s) o₁ (trailingTextPush src m₂ c₂ a b) := by
  unfold trailingTextPush at h ⊢
  simp only at h ⊢
  split at h
  · next hp =>
    rw [hc.popLast_none hp]
    exact fresh_sim hm hc h
  · next i₁ x₁ hp =>
    obtain ⟨i₂, x₂, hp2, hi, hx⟩ := hc.popLast_some hp
    rw [hp2]; simp only [hx.isText, hx.content]
    split at h
    · next ht =>
      simp only [ht, if_true]
      split at h
      · simp at h
      · next piece hpc =>
        have hr := hx.range
        have hch := hx.children
        split at h
        · next hr1 =>
          simp only [Except.ok.injEq] at h; subst h
          split
          · next hr2 =>
            rw [hr1]
            exact hi.snoc (NRel.mk' (by rw [hr1] at hr; exact hr) (XRel.text _ _ _) hch)
          · next ms₂ me₂ hr2 =>
            have hs : s = false := by
              cases s with
              | false => rfl
              | true => rw [hr1, hr2] at hr; exact absurd (hr rfl) (by simp [ROrd])
            subst hs
            split
            · rfl
            · exact hi.snoc (NRel.mk' (fun h => by cases h) (XRel.text _ _ _) hch)
        · next ms₁ me₁ hr1 =>
          split at h
          · simp at h
          · next mapEnd₁ hg =>
            simp only [Except.ok.injEq] at h; subst h
            split
            · next hr2 =>
              have hs : s = false := by
                cases s with
                | false => rfl
                | true => rw [hr1, hr2] at hr; exact absurd (hr rfl) (by simp [ROrd])
              subst hs
              exact hi.snoc (NRel.mk' (fun h => by cases h) (XRel.text _ _ _) hch)
            · next ms₂ me₂ hr2 =>
              rcases (gsp_sim hm (liftOps_ok.mp hg)).liftOps.cases with ⟨e₂, e2, hr'⟩ | ⟨hs, e, e2⟩
              · rw [e2]
                refine hi.snoc (NRel.mk' (RRel.some ?_ hr') (XRel.text _ _ _) hch)
                intro hs; rw [hr1, hr2] at hr; exact (hr hs).1
              · rw [e2]; exact hs
    · next ht =>
      simp only [ht]
      exact fresh_sim hm hc h
theorem trailingTextPop_sim {s : Bool} {c₁ c₂ o₁ : List Node} {count : Nat} (hc : LRel K s c₁ c₂)
    (h : trailingTextPop c₁ count = .ok o₁) :
    Sim s (LRel K s) o₁ (trailingTextPop c₂ count) := by
  unfold trailingTextPop at h ⊢
  split at h
  · next h0 => simp only [Except.ok.injEq] at h; subst h; rw [if_pos h0]; exact hc
  · next h0 =>
    rw [if_neg h0]
    split at h
    · simp at h
    · next i₁ x₁ hp =>
      obtain ⟨i₂, x₂, hp2, hi, hx⟩ := hc.popLast_some hp
      rw [hp2]; simp only [hx.isText, hx.content]
      split at h
      · simp at h
      · next ht =>
        rw [if_neg ht]
        split at h
        · next hb => simp only [Except.ok.injEq] at h; subst h; rw [if_pos hb]; exact hi
        · next hb =>
          rw [if_neg hb]
          split at h
          · simp at h
          · next hb2 =>
            rw [if_neg hb2]
            split at h
            · simp at h
            · next content' htr =>
              have hr := hx.range
              have hch := hx.children
              split at h
              · next hr1 =>
                simp only [Except.ok.injEq] at h; subst h
                rw [hr1] at hr ⊢
                split
                · exact hi.snoc (NRel.mk' hr (XRel.text _ _ _) hch)
                · next ms₂ me₂ hr2 =>
                  rw [hr2] at hr
                  have hs := ROrd_none_some hr
                  subst hs
                  split
                  · rfl
                  · exact hi.snoc (NRel.mk' (RRel.false _ _) (XRel.text _ _ _) hch)
              · next ms₁ me₁ hr1 =>
                split at h
                · simp at h
                · next hme =>
                  simp only [Except.ok.injEq] at h; subst h
                  rw [hr1] at hr
                  split
                  · next hr2 =>
                    rw [hr2] at hr
                    have hs := ROrd_some_none hr
                    subst hs
                    exact hi.snoc (NRel.mk' (RRel.false _ _) (XRel.text _ _ _) hch)
                  · next ms₂ me₂ hr2 =>
                    rw [hr2] at hr
                    split
                    · next hme2 =>
                      cases s with
                      | false => rfl
                      | true => have := hr rfl; simp only [ROrd] at this; omega
                    · next hme2 =>
                      refine hi.snoc (NRel.mk' ?_ (XRel.text _ _ _) hch)
                      intro hs; have := hr hs; simp only [ROrd] at this ⊢; omega

/-! ## the states -/

/-- the two states work on the text and the tables of the context -/
def KS (K : Ctx) (a b : IState) : Prop :=
  a.src = K.c ∧ a.srcmap = K.m₁ ∧ b.srcmap = K.m₂ ∧ a.posMax ≤ byteLen K.c

/-- everything equal except the table and the ranges in the tree under construction -/
structure IRel (K : Ctx) (s : Bool) (a b : IState) : Prop where
  eq : b = { a with srcmap := b.srcmap, children := b.children }
  map : MRel s a.srcmap b.srcmap
  ch : LRel K s a.children b.children
  ks : KS K a b

theorem IRel.out {s : Bool} {a b : IState} (h : IRel K s a b) :
    ∃ m cs, b = { a with srcmap := m, children := cs } ∧ MRel s a.srcmap m ∧ LRel K s a.children cs :=
  ⟨_, _, h.eq, h.map, h.ch⟩

theorem IRel.mk' {s : Bool} {a : IState} {m : Srcmap} {cs : List Node} (hm : MRel s a.srcmap m)
    (hc : LRel K s a.children cs) (hk : KS K a { a with srcmap := m, children := cs }) :
    IRel K s a { a with srcmap := m, children := cs } := ⟨rfl, hm, hc, hk⟩

/-- the result of a rule: same answer, related states -/
def ORel (K : Ctx) (s : Bool) (x y : Option Nat × IState) : Prop := y.1 = x.1 ∧ IRel K s x.2 y.2

theorem pushText_sim {s : Bool} {a b a' : IState} {x y : Nat} (rel : IRel K s a b)
    (h : a.pushText x y = .ok a') : Sim s (IRel K s) a' (b.pushText x y) := by
  obtain ⟨m, cs, rfl, hm, hc⟩ := rel.out
  unfold IState.pushText at h ⊢
  split at h
  · simp at h
  · next o₁ hp =>
    simp only [Except.ok.injEq] at h; subst h
    rcases (trailingTextPush_sim hm hc hp).cases with ⟨o₂, e2, hr⟩ | ⟨hs, e, e2⟩
    · simp only [e2]; exact IRel.mk' hm hr rel.ks
    · simp only [e2]; exact hs

theorem getMapSt_sim {s : Bool} {a : IState} {m : Srcmap} {cs : List Node} (hm : MRel s a.srcmap m)
    {x y : Nat} {r₁ : Nat × Nat} (h : a.getMap x y = .ok r₁) :
    Sim s (fun r₁ r₂ => RRel s (some r₁) (some r₂) ∧ GM a.srcmap m x y r₁ r₂) r₁
      (IState.getMap { a with srcmap := m, children := cs } x y) :=
  (getMap_sim hm (liftOps_ok.mp h)).liftOps

/-! ## where the attribute-rendering nodes start -/

theorem span_of_KS {a : IState} {m : Srcmap} {cs : List Node}
    (hk : KS K a { a with srcmap := m, children := cs }) {x y : Nat} {r₁ r₂ : Nat × Nat}
    (h : GM a.srcmap m x y r₁ r₂) (hc : CharSolid a.src x) (hy : y ≤ a.posMax) :
    Span K (some r₁) (some r₂) := by
  obtain ⟨h1, h2, h3, h4⟩ := hk
  simp only [] at h3
  rw [h1] at hc
  rw [h2, h3] at h
  exact span_of_GM h hc (by omega)

theorem charSolid_of_slice {src : List Char} {a b : Nat} {ch : Char} {rest : List Char}
    (h : slice src a b = .ok (ch :: rest)) (hne : ch ≠ '\n' ∧ ch ≠ ' ') : CharSolid src a ∧ a < b := by
  obtain ⟨p, q, e, hp, hb⟩ := (C05.slice_ok_iff _ _ _ _).mp h
  have := Char.utf8Size_pos ch
  simp only [byteLen] at hb
  exact ⟨⟨p, ch, rest ++ q, by rw [e]; simp, hp, hne.1, hne.2⟩, by omega⟩

theorem charSolid_of_window {a : IState} {ch : Char} {rest : List Char}
    (h : a.window = .ok (ch :: rest)) (hne : ch ≠ '\n' ∧ ch ≠ ' ') :
    CharSolid a.src a.pos ∧ a.pos < a.posMax :=
  charSolid_of_slice (liftOps_ok.mp h) hne

theorem ruleAutolink_start {a a' : IState} {silent : Bool} {n : Nat}
    (h : ruleAutolink a silent = .ok (some n, a')) : CharSolid a.src a.pos ∧ a.pos < a.posMax := by
  unfold ruleAutolink at h
  split at h
  · simp at h
  · simp at h
  · next c rest hw =>
    split at h
    · simp at h
    · next hc =>
      have e : c = '<' := by simpa using hc
      exact charSolid_of_window hw (by rw [e]; decide)

theorem codeRun_start {v : CodePair.Variant} {src : List Char} {pos posMax : Nat} {prev silent : Bool}
    {c c' : CodePair.Cache} {o : CodePair.Outcome}
    (h : CodePair.run v '`' src pos posMax prev silent c = .ok (some o, c')) :
    CharSolid src pos ∧ pos < posMax := by
  unfold CodePair.run at h
  cases hs : CodePair.slice src pos posMax with
  | none => rw [hs] at h; simp at h
  | some w =>
    rw [hs] at h
    cases w with
    | nil => simp at h
    | cons ch rest =>
      simp only [] at h
      split at h
      · simp at h
      · next hch =>
        have e : ch = '`' := by simpa using hch
        exact charSolid_of_slice ((codeSlice_eq _ _ _ _).mp hs) (by rw [e]; decide)

/-! ## the rules without look-ahead -/

theorem ruleText_sim {s : Bool} {a b : IState} {silent : Bool} {r : Option Nat × IState}
    (rel : IRel K s a b) (h : ruleText a silent = .ok r) : Sim s (ORel K s) r (ruleText b silent) := by
  unfold ruleText at h ⊢
  have hw : b.window = a.window := by obtain ⟨m, cs, rfl, hm, hc⟩ := rel.out; rfl
  have hpos : b.pos = a.pos := by obtain ⟨m, cs, rfl, hm, hc⟩ := rel.out; rfl
  rw [hw, hpos]
  split at h
  · simp at h
  · next w hw1 =>
    simp only [] at h ⊢
    split at h
    · next hl => simp only [Except.ok.injEq] at h; subst h; rw [if_pos hl]; exact ⟨rfl, rel⟩
    · next hl =>
      rw [if_neg hl]
      split at h
      · next hs => simp only [Except.ok.injEq] at h; subst h; rw [if_pos hs]; exact ⟨rfl, rel⟩
      · next hs =>
        rw [if_neg hs]
        split at h
        · simp at h
        · next a' hp =>
          simp only [Except.ok.injEq] at h; subst h
          rcases (pushText_sim rel hp).cases with ⟨o₂, e2, hr⟩ | ⟨hs, e, e2⟩
          · simp only [e2]; exact ⟨rfl, hr⟩
          · simp only [e2]; exact hs

theorem push_rel {s : Bool} {a : IState} {m : Srcmap} {cs : List Node} (hm : MRel s a.srcmap m)
    (hc : LRel K s a.children cs) (hk : KS K a { a with srcmap := m, children := cs })
    {n₁ n₂ : Node} (hn : NRel K s n₁ n₂) :
    IRel K s (a.push n₁) (IState.push { a with srcmap := m, children := cs } n₂) :=
  IRel.mk' (a := a.push n₁) hm (hc.snoc hn) hk

theorem ruleEscape_sim {s : Bool} {a b : IState} {silent : Bool} {r : Option Nat × IState}
    (rel : IRel K s a b) (h : ruleEscape a silent = .ok r) : Sim s (ORel K s) r (ruleEscape b silent) := by
  obtain ⟨m, cs, rfl, hm, hc⟩ := rel.out
  unfold ruleEscape IState.window at h ⊢
  simp only [] at h ⊢
  repeat' split at h
  all_goals try (simp at h; done)
  all_goals (simp only [Except.ok.injEq] at h; subst h)
  all_goals try simp only [*, ↓reduceIte, Bool.false_eq_true]
  all_goals first
    | exact ⟨rfl, rel⟩
    | (have hg := ‹a.getMap _ _ = Except.ok _›
       rcases (getMapSt_sim (cs := cs) hm hg).cases with ⟨r₂, e2, hr⟩ | ⟨hs, e, e2⟩
       · simp only [e2]; exact ⟨rfl, push_rel hm hc rel.ks (leaf_rel _ hr.1 (XRel.plain (by trivial) _ _))⟩
       · simp only [e2]; exact hs)

theorem ruleEntity_sim {s : Bool} {cfg : Cfg} {a b : IState} {silent : Bool} {r : Option Nat × IState}
    (rel : IRel K s a b) (h : ruleEntity cfg a silent = .ok r) :
    Sim s (ORel K s) r (ruleEntity cfg b silent) := by
  obtain ⟨m, cs, rfl, hm, hc⟩ := rel.out
  unfold ruleEntity IState.window at h ⊢
  simp only [] at h ⊢
  repeat' split at h
  all_goals try (simp at h; done)
  all_goals (simp only [Except.ok.injEq] at h; subst h)
  all_goals try simp only [*, ↓reduceIte, Bool.false_eq_true, ne_eq, not_false_eq_true, not_true_eq_false]
  all_goals first
    | exact ⟨rfl, rel⟩
    | (have hg := ‹a.getMap _ _ = Except.ok _›
       rcases (getMapSt_sim (cs := cs) hm hg).cases with ⟨r₂, e2, hr⟩ | ⟨hs, e, e2⟩
       · simp only [e2]; exact ⟨rfl, push_rel hm hc rel.ks (leaf_rel _ hr.1 (XRel.plain (by trivial) _ _))⟩
       · simp only [e2]; exact hs)

theorem ruleAutolink_sim {s : Bool} {a b : IState} {silent : Bool} {r : Option Nat × IState}
    (rel : IRel K s a b) (h : ruleAutolink a silent = .ok r) :
    Sim s (ORel K s) r (ruleAutolink b silent) := by
  have hwf : C05.WFMap a.srcmap := rel.ks.2.1 ▸ K.ok₁.wf
  have hst : ∀ n a', r = (some n, a') → CharSolid a.src a.pos ∧ a'.pos + n ≤ a.posMax := fun n a' e =>
    ⟨(ruleAutolink_start (e ▸ h)).1, c05x_autolink_end (ruleAutolink_start (e ▸ h)).2 hwf (e ▸ h)⟩
  obtain ⟨m, cs, rfl, hm, hc⟩ := rel.out
  unfold ruleAutolink IState.window at h ⊢
  simp only [] at h ⊢
  repeat' split at h
  all_goals try (simp at h; done)
  all_goals (simp only [Except.ok.injEq] at h; subst h)
  all_goals try simp only [*, ↓reduceIte, Bool.false_eq_true, ne_eq, not_false_eq_true, not_true_eq_false]
  all_goals first
    | exact ⟨rfl, rel⟩
    | skip
  rename_i hg1 _ _ hg2
  rcases (getMapSt_sim (cs := cs) hm hg1).cases with ⟨r₂, e2, hr⟩ | ⟨hs, e, e2⟩
  · simp only [e2]
    rcases (getMapSt_sim (cs := cs) hm hg2).cases with ⟨r₃, e3, hr3⟩ | ⟨hs, e, e3⟩
    · simp only [e3]
      have hend := (hst _ _ rfl).2
      simp only [IState.push] at hend
      exact ⟨rfl, push_rel hm hc rel.ks (NRel.mk' hr.1
        (fun _ => span_of_KS rel.ks hr.2 (hst _ _ rfl).1 (by omega))
        (LRel.single (newText_rel _ hr3.1)))⟩
    · simp only [e3]; exact hs
  · simp only [e2]; exact hs

theorem ruleBackticks_sim {s : Bool} {a b : IState} {silent : Bool} {r : Option Nat × IState}
    (rel : IRel K s a b) (h : ruleBackticks a silent = .ok r) :
    Sim s (ORel K s) r (ruleBackticks b silent) := by
  have hwf : C05.WFMap a.srcmap := rel.ks.2.1 ▸ K.ok₁.wf
  have hend : ∀ n a', r = (some n, a') → a.pos < a.posMax → a'.pos + n ≤ a.posMax :=
    fun n a' e hlt => c05x_backticks_end hlt hwf (e ▸ h)
  obtain ⟨m, cs, rfl, hm, hc⟩ := rel.out
  unfold ruleBackticks at h ⊢
  simp only [] at h ⊢
  repeat' split at h
  all_goals try (simp at h; done)
  all_goals (simp only [Except.ok.injEq] at h; subst h)
  all_goals try simp only [*, ↓reduceIte, Bool.false_eq_true, ne_eq, not_false_eq_true, not_true_eq_false]
  · exact ⟨rfl, IRel.mk' (a := { a with backticks := _ }) hm hc rel.ks⟩
  · exact ⟨rfl, IRel.mk' (a := { a with backticks := _ }) hm hc rel.ks⟩
  · rename_i hrun _ nd hnd _ _ hg1 _ _ hg2
    have hcn := codeRun_start hrun
    have hrs := (run_node_shape _ _ _ _ _ _ _ _ _ _ _ hrun hnd).1
    have hre := (run_node_shape _ _ _ _ _ _ _ _ _ _ _ hrun hnd).2.1
    have hend' := hend _ _ rfl hcn.2
    simp only [] at hend'
    rcases (getMapSt_sim (cs := cs) hm hg1).cases with ⟨r₂, e2, hr⟩ | ⟨hs, e, e2⟩
    · simp only [e2]
      rcases (getMapSt_sim (cs := cs) hm hg2).cases with ⟨r₃, e3, hr3⟩ | ⟨hs, e, e3⟩
      · simp only [e3]
        exact ⟨rfl, IRel.mk' (a := { a with backticks := _, children := _ }) hm
          (hc.snoc (NRel.mk' hr.1 (fun _ => span_of_KS rel.ks hr.2 (hrs ▸ hcn.1) (by omega))
            (LRel.single (newText_rel _ hr3.1)))) rel.ks⟩
      · simp only [e3]; exact hs
    · simp only [e2]; exact hs

theorem ruleNewline_sim {s : Bool} {a b : IState} {silent : Bool} {r : Option Nat × IState}
    (rel : IRel K s a b) (h : ruleNewline a silent = .ok r) :
    Sim s (ORel K s) r (ruleNewline b silent) := by
  obtain ⟨m, cs, rfl, hm, hc⟩ := rel.out
  unfold ruleNewline IState.window at h ⊢
  simp only [trailingTextGet_rel hc] at h ⊢
  repeat' split at h
  all_goals try (simp at h; done)
  all_goals (simp only [Except.ok.injEq] at h; subst h)
  all_goals try simp only [*, ↓reduceIte, Bool.false_eq_true, ne_eq, not_false_eq_true, not_true_eq_false]
  all_goals first
    | exact ⟨rfl, rel⟩
    | skip
  all_goals (
    rename_i hp _ _ _ hg _
    rcases (trailingTextPop_sim hc hp).cases with ⟨cs₂, e2, hr⟩ | ⟨hs, e, e2⟩
    · simp only [e2]
      rcases (getMapSt_sim (cs := cs) hm hg).cases with ⟨r₃, e3, hr3⟩ | ⟨hs, e, e3⟩
      · simp only [e3]
        exact ⟨rfl, IRel.mk' (a := { a with children := _ }) hm
          (hr.snoc (leaf_rel _ hr3.1 (XRel.plain (by first | trivial | (split <;> trivial)) _ _))) rel.ks⟩
      · simp only [e3]; exact hs
    · simp only [e2]; exact hs)

end MdIt.Inline.XT
