/-
  Helper development for `Props/InlineTotal.lean`: the induction on fuel — the GUARDED tokenizer
  (`tokLoopG cfg true` / `skipTokenG cfg true`, `InlineTotalDef.lean`) meets the totality contracts of
  `InlineTotalFrame.lean` / `InlineTotalStep.lean` at every fuel.
-/
import MdIt.Lemmas.InlineTotalStep
import MdIt.Lemmas.InlineTotalMono

namespace MdIt.Inline
open MdIt.InlineOps (Srcmap getSourcePosFor getMap byteLen slice)
open MdIt.C05 (WFMap MonoMap byteLen_append slice_ok_iff)

/-- what the guarded `tokenize` loop guarantees from a good state -/
structure LoopT (lo : Nat) (st : IState) (r : Except Panic IState) : Prop where
  noRust : NoRust r
  ok : ∀ st', r = .ok st' → Frame st st' ∧ MemoB st' ∧ Good lo st'

theorem LoopT.tokT {lo : Nat} {st : IState} {r : Except Panic IState} (h : LoopT lo st r) : TokT st r :=
  ⟨h.noRust, fun st' hr => ⟨(h.ok st' hr).1, (h.ok st' hr).2.1, (h.ok st' hr).2.2.le⟩⟩

/-- **the guarded tokenizer never panics**, at every fuel: `skip_token` from every state under `LInv`
    with a non-empty window, `tokenize` from every good state -/
theorem guarded_total (cfg : Cfg)
    (hsz : ∀ mk csw, RuleId.emph mk csw ∈ cfg.chain → mk.utf8Size = 1) : ∀ fuel : Nat,
    SkipHypT (fun s => skipTokenG cfg true fuel s) ∧
    (∀ lo st, Good lo st → MemoB st → LoopT lo st (tokLoopG cfg true fuel st.posMax st)) := by
  intro fuel
  induction fuel with
  | zero =>
    constructor
    · intro s _ _
      show SkipT s (skipTokenG cfg true 0 s)
      unfold skipTokenG
      exact ⟨NoRust.fuel, by intro st' h; simp at h⟩
    · intro lo st hg hm
      unfold tokLoopG
      split
      · exact ⟨NoRust.fuel, by intro st' h; simp at h⟩
      · exact ⟨NoRust.ok _, by
          intro st' h; simp only [Except.ok.injEq] at h; subst h; exact ⟨Frame.refl _, hm, hg⟩⟩
  | succ f ih =>
    obtain ⟨ihS, ihT⟩ := ih
    have hq := skipTokenG_calm cfg true f
    have hr := rangesFnG cfg true f
    have ht : TokHypT (fun s => tokLoopG cfg true f s.posMax s) :=
      fun lo s hg hm => (ihT lo s hg hm).tokT
    constructor
    · -- skip_token
      intro st hi hlt
      show SkipT st (skipTokenG cfg true (f + 1) st)
      unfold skipTokenG
      split
      · next x hx =>
        obtain ⟨hkx, hbx⟩ := hi.memo _ _ (lookup_mem hx)
        split
        · exact ⟨NoRust.fuel, by intro st' h; simp at h⟩
        · next hng =>
          refine ⟨NoRust.ok _, ?_⟩
          intro st' h
          simp only [Except.ok.injEq] at h; subst h
          refine ⟨hi.memo, hkx, ?_, hbx⟩
          simp only [true_and, Nat.not_lt] at hng
          exact hng
      · split
        · exact skipStep_T hq ihS f st hi hlt
        · refine ⟨NoRust.ok _, ?_⟩
          intro st' h
          simp only [Except.ok.injEq] at h; subst h
          exact ⟨MemoB.insert hi.memo hlt hi.bmax, hlt, Nat.le_refl _, hi.bmax⟩
    · -- tokenize
      intro lo st hg hm
      unfold tokLoopG
      split
      · next hlt =>
        simp only
        have hstep := tokStep_T hsz hq ihS ht hr f st hg hm hlt
        split
        · next e he =>
          refine ⟨?_, by intro st' h; simp at h⟩
          intro p hp; simp only [Except.error.injEq] at hp; subst hp; exact hstep.1 p he
        · next st1 he =>
          obtain ⟨hg1, hm1, f1, _⟩ := hstep.2 st1 he
          have hrec := ihT lo st1 hg1 hm1
          rw [f1.posMax] at hrec
          refine ⟨hrec.noRust, ?_⟩
          intro st' h
          obtain ⟨a, b, c⟩ := hrec.ok st' h
          exact ⟨f1.trans a, b, c⟩
      · exact ⟨NoRust.ok _, by
          intro st' h; simp only [Except.ok.injEq] at h; subst h; exact ⟨Frame.refl _, hm, hg⟩⟩

end MdIt.Inline
