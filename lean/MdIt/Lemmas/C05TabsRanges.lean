/-
  C05 for ALL sources (split tabs included), inline half, part 1 — the frame invariant
  `Inline.RI` (Lemmas/InlineRanges2.lean), strengthened to `RIv A` (Lemmas/C05TabsDefs.lean: in a
  frame where the newline rule is active, a trailing `Text` holds no line feed), through every rule
  without look-ahead recursion, for per-line tables that are only `MapT` (monotone everywhere, a
  shift on every line-feed-free stretch that starts with a solid character).

  The proofs follow Lemmas/InlineRanges2–5.lean; `MapOK` is used there only through `wf`,
  monotonicity, and the shift at two places:
    * `tv_ruleEmph`     — the run of markers `mk … mk` starts with the solid `mk` (`SolidMarkers`);
    * `tv_newline_core` — the trailing blanks of the trailing text stand behind a character that is
                          neither a blank (`tv_tailSpaces_max`) nor a line feed (`RIv.nolf`).
-/
import MdIt.Lemmas.C05TabsDefs

namespace MdIt.C05T
open MdIt.Inline
open MdIt.InlineOps (Srcmap getSourcePosFor getMap byteLen slice)
open MdIt.C05R (Cut)

/-! ## basics -/

theorem tv_mono {src : List Char} {m : Srcmap} (hm : MapT src m) {p p' x y : Nat} (hle : p ≤ p')
    (hx : getSourcePosFor m p = .ok x) (hy : getSourcePosFor m p' = .ok y) : x ≤ y :=
  hm.mono p p' x y hle hx hy

/-- what a rule leaves behind, seen from the state it started in (`Inline.StepRI` for `RIv`) -/
def tv_StepRI (A : Prop) (lo : Nat) (st : IState) (o : Option Nat) (st' : IState) : Prop :=
  RIv A st.src st.srcmap lo (st'.pos + o.getD 0) st'.children

/-- the invariant of a state -/
def tv_RInv (A : Prop) (lo : Nat) (st : IState) : Prop :=
  RIv A st.src st.srcmap lo st.pos st.children

theorem tv_same {A : Prop} {lo : Nat} {st : IState} (h : tv_RInv A lo st) : tv_StepRI A lo st none st := by
  unfold tv_StepRI; simp only [Option.getD_none, Nat.add_zero]; exact h

/-- a list that ends in a non-text satisfies `nolf` vacuously -/
theorem tv_nolf_snoc {A : Prop} {cs : List Node} {n : Node} (ht : n.isText = false) :
    A → ∀ init last, cs ++ [n] = init ++ [last] → last.isText = true → '\n' ∉ last.content := by
  intro _ init last hcs hlt
  obtain ⟨_, rfl⟩ := snoc_inj hcs
  rw [ht] at hlt; cases hlt

/-- pushing a non-text, non-marker node (`Inline.RI.push`) -/
theorem tv_push {A : Prop} {src : List Char} {m : Srcmap} {lo pos : Nat} {cs : List Node}
    (h : RIv A src m lo pos cs) {n : Node} {p' x y a b : Nat}
    (hx : getSourcePosFor m pos = .ok x) (hy : getSourcePosFor m p' = .ok y)
    (hr : n.range = some (a, b)) (h1 : x ≤ a) (h2 : a ≤ b) (h3 : b ≤ y)
    (hw : WellRanged n) (ht : n.isText = false)
    (hmk : n.asMarker = none) : RIv A src m lo p' (cs ++ [n]) :=
  ⟨RI.push h.ri hx hy hr h1 h2 h3 hw ht hmk, tv_nolf_snoc ht⟩

/-! ## `trailing_text_push` -/

/-- `Inline.RI.pushText` for `MapT` -/
theorem tv_RI_pushText {src : List Char} {m : Srcmap} {lo pos : Nat} {cs out : List Node}
    (h : RI src m lo pos cs) (hm : MapT src m) {stop : Nat} (hle : pos ≤ stop)
    (hp : trailingTextPush src m cs pos stop = .ok out) : RI src m lo stop out := by
  obtain ⟨hi, hhi, hord⟩ := h.ord
  obtain ⟨y, hy⟩ := C05.translate_total m hm.wf stop
  have hxy := tv_mono hm hle hhi hy
  -- the fresh node
  have hfresh : ∀ out, (match liftOps (slice src pos stop) with
      | .error e => (.error e : Except RPanic (List Node))
      | .ok piece =>
        match liftOps (getMap m pos stop) with
        | .error e => .error e
        | .ok r => .ok (cs ++ [Node.newText piece (some r)])) = .ok out →
      (∀ y0, cs.getLast? = some y0 → y0.isText = false) → RI src m lo stop out := by
    intro out ho hnt
    split at ho
    · simp at ho
    · next piece hpiece =>
      split at ho
      · simp at ho
      · next r hr =>
        simp only [Except.ok.injEq] at ho; subst ho
        obtain ⟨rx, ry⟩ := r
        obtain ⟨e1, e2, _⟩ := getMapRaw_eq hr
        rw [hhi] at e1; simp only [Except.ok.injEq] at e1; subst e1
        rw [hy] at e2; simp only [Except.ok.injEq] at e2; subst e2
        refine ⟨⟨_, hy, hord.snoc (n := Node.newText piece (some (hi, y))) rfl (Nat.le_refl _) hxy
          (Nat.le_refl _)⟩, h.deep.append (WellRangedList.single (wellRanged_leaf hxy)), ?_, ?_⟩
        · intro n' hn' mk hmk'
          rcases List.mem_append.mp hn' with h' | h'
          · exact h.markers n' h' mk hmk'
          · simp only [List.mem_singleton] at h'; subst h'; simp [Node.newText, Node.asMarker] at hmk'
        · intro init last hcs _
          obtain ⟨_, rfl⟩ := snoc_inj hcs
          exact ⟨rfl, pos, hi, y, liftOps_ok.mp hpiece, hhi, hy, rfl⟩
  unfold trailingTextPush at hp
  simp only at hp
  rcases popLast_spec cs with ⟨hpop, hnil⟩ | ⟨init, last, hpop, hcs⟩
  · rw [hpop] at hp
    exact hfresh out hp (by intro y0 hy0; rw [hnil] at hy0; simp at hy0)
  · rw [hpop] at hp
    simp only at hp
    split at hp
    · next hlt =>
      -- the trailing text grows
      obtain ⟨hch, start, xs, xe, hsl, hxs, hxe, hrange⟩ := h.trail init last hcs hlt
      rw [hhi] at hxe; simp only [Except.ok.injEq] at hxe; subst hxe
      split at hp
      · simp at hp
      · next piece hpiece =>
        rw [hrange] at hp
        simp only at hp
        rw [hy] at hp
        simp only [liftOps, Except.ok.injEq] at hp; subst hp
        have hsl2 := C05.slice_append src start pos stop _ _ hsl (liftOps_ok.mp hpiece)
        obtain ⟨_, _, hse⟩ := slice_boundaries hsl
        have hstart : start ≤ pos := by omega
        have hxsy := tv_mono hm (by omega : start ≤ stop) hxs hy
        subst hcs
        obtain ⟨a, b, hab, hinit, _, _⟩ := hord.last
        rw [hrange] at hab; simp only [Option.some.injEq, Prod.mk.injEq] at hab
        obtain ⟨rfl, rfl⟩ := hab
        refine ⟨⟨y, hy, hinit.snoc (n := Node.mk (.text (last.content ++ piece)) (some (xs, y)) last.children)
            rfl (Nat.le_refl _) hxsy (Nat.le_refl _)⟩,
          h.deep.left.append (WellRangedList.single (wellRanged_childless hch hxsy)), ?_, ?_⟩
        · intro n' hn' mk hmk'
          rcases List.mem_append.mp hn' with h' | h'
          · exact h.markers n' (List.mem_append_left _ h') mk hmk'
          · simp only [List.mem_singleton] at h'; subst h'; simp [Node.asMarker] at hmk'
        · intro init' last' hcs' _
          obtain ⟨_, rfl⟩ := snoc_inj hcs'
          exact ⟨hch, start, xs, y, by simpa [Node.content] using hsl2, hxs, hy, rfl⟩
    · next hlt =>
      apply hfresh out hp
      intro y0 hy0
      rw [hcs] at hy0; simp at hy0; subst hy0
      simpa using hlt

/-- the content of the last node after `trailing_text_push(pos, stop)`: the pushed piece, alone or
    appended to the old trailing text -/
theorem tv_push_content {src : List Char} {m : Srcmap} {cs out : List Node} {pos stop : Nat}
    (hp : trailingTextPush src m cs pos stop = .ok out) :
    ∃ piece, slice src pos stop = .ok piece ∧
      ((∃ r, out = cs ++ [Node.newText piece r]) ∨
       (∃ init last r, cs = init ++ [last] ∧ last.isText = true ∧
          out = init ++ [Node.mk (.text (last.content ++ piece)) r last.children])) := by
  have hfresh : ∀ out, (match liftOps (slice src pos stop) with
      | .error e => (.error e : Except RPanic (List Node))
      | .ok piece =>
        match liftOps (getMap m pos stop) with
        | .error e => .error e
        | .ok r => .ok (cs ++ [Node.newText piece (some r)])) = .ok out →
      ∃ piece, slice src pos stop = .ok piece ∧ ∃ r, out = cs ++ [Node.newText piece r] := by
    intro out ho
    split at ho
    · simp at ho
    · next piece hpiece =>
      split at ho
      · simp at ho
      · next r _ =>
        simp only [Except.ok.injEq] at ho; subst ho
        exact ⟨piece, liftOps_ok.mp hpiece, some r, rfl⟩
  unfold trailingTextPush at hp
  simp only at hp
  rcases popLast_spec cs with ⟨hpop, _⟩ | ⟨init, last, hpop, hcs⟩
  · rw [hpop] at hp
    obtain ⟨piece, h1, h2⟩ := hfresh out hp
    exact ⟨piece, h1, Or.inl h2⟩
  · rw [hpop] at hp
    simp only at hp
    split at hp
    · next hlt =>
      split at hp
      · simp at hp
      · next piece hpiece =>
        split at hp
        · simp only [Except.ok.injEq] at hp; subst hp
          exact ⟨piece, liftOps_ok.mp hpiece, Or.inr ⟨init, last, _, hcs, hlt, rfl⟩⟩
        · split at hp
          · simp at hp
          · simp only [Except.ok.injEq] at hp; subst hp
            exact ⟨piece, liftOps_ok.mp hpiece, Or.inr ⟨init, last, _, hcs, hlt, rfl⟩⟩
    · obtain ⟨piece, h1, h2⟩ := hfresh out hp
      exact ⟨piece, h1, Or.inl h2⟩

/-- **`trailing_text_push(pos, stop)` keeps `RIv`** when the pushed piece holds no line feed (in a
    frame where the newline rule is active) -/
theorem tv_pushText {A : Prop} {src : List Char} {m : Srcmap} {lo pos : Nat} {cs out : List Node}
    (h : RIv A src m lo pos cs) (hm : MapT src m) {stop : Nat} (hle : pos ≤ stop)
    (hp : trailingTextPush src m cs pos stop = .ok out)
    (hpc : A → ∀ piece, slice src pos stop = .ok piece → '\n' ∉ piece) : RIv A src m lo stop out := by
  refine ⟨tv_RI_pushText h.ri hm hle hp, ?_⟩
  intro hA init' last' hout hlt'
  obtain ⟨piece, hsl, hshape⟩ := tv_push_content hp
  have hpn := hpc hA piece hsl
  rcases hshape with ⟨r, rfl⟩ | ⟨init, last, r, hcs, hlt, rfl⟩
  · obtain ⟨_, rfl⟩ := snoc_inj hout
    exact hpn
  · obtain ⟨_, rfl⟩ := snoc_inj hout
    have hold := h.nolf hA init last hcs hlt
    show '\n' ∉ last.content ++ piece
    intro hmem
    rcases List.mem_append.mp hmem with h' | h'
    · exact hold h'
    · exact hpn h'

/-! ## text, fall-back -/

theorem tv_textStop_lf : Entity.textStop.contains '\n' = true := by decide

theorem tv_ruleText {A : Prop} {lo : Nat} {st st' : IState} {o : Option Nat}
    (hm : MapT st.src st.srcmap) (hi : tv_RInv A lo st) (h : ruleText st false = .ok (o, st')) :
    tv_StepRI A lo st o st' := by
  unfold ruleText at h
  split at h
  · simp at h
  · next w hw =>
    simp only at h
    split at h
    · simp only [Except.ok.injEq, Prod.mk.injEq] at h; obtain ⟨rfl, rfl⟩ := h; exact tv_same hi
    · simp only [Bool.false_eq_true, if_false] at h
      split at h
      · simp at h
      · next st2 hp =>
        simp only [Except.ok.injEq, Prod.mk.injEq] at h; obtain ⟨rfl, rfl⟩ := h
        obtain ⟨cs, hcs, rfl⟩ := pushText_eq hp
        unfold tv_StepRI
        simp only [Option.getD_some]
        refine tv_pushText hi hm (by omega) hcs ?_
        intro _ piece hpiece
        -- the piece is the run of non-stop characters in front of the window
        obtain ⟨hall, hsplit, _⟩ := Entity.splitRun_sound (fun c => !Entity.textStop.contains c) w
        have hwin := window_eq hw
        rw [hsplit] at hwin
        have hcut := (C05R.cut_iff_ops _ _ _ _).mpr (C05R.fi_cut_of_slice_prefix hwin)
        rw [hcut] at hpiece
        simp only [Except.ok.injEq] at hpiece; subst hpiece
        intro hmem
        have := hall _ hmem
        rw [tv_textStop_lf] at this
        cases this

/-- the fall-back of the tokenizer loop: the first character of the window goes to the pending
    text; in a frame where the newline rule is active it is not a line feed -/
theorem tv_fallback {A : Prop} {lo : Nat} {st st' : IState} {ch : Char}
    (hm : MapT st.src st.srcmap) (hi : tv_RInv A lo st) (hch : firstChar st = .ok ch)
    (hnl : A → ch ≠ '\n') (h : st.pushText st.pos (st.pos + ch.utf8Size) = .ok st') :
    RIv A st.src st.srcmap lo (st'.pos + ch.utf8Size) st'.children := by
  obtain ⟨cs, hcs, rfl⟩ := pushText_eq h
  refine tv_pushText hi hm (Nat.le_add_right _ _) hcs ?_
  intro hA piece hpiece
  unfold firstChar at hch
  split at hch
  · simp at hch
  · simp at hch
  · next c rest hw =>
    simp only [Except.ok.injEq] at hch; subst hch
    have hsl := window_eq (liftR_ok.mp hw)
    have hcut := (C05R.cut_iff_ops _ _ _ _).mpr (C05R.fi_cut_of_slice_prefix (u := [c]) (v := rest) hsl)
    simp only [byteLen, Nat.add_zero] at hcut
    rw [hcut] at hpiece
    simp only [Except.ok.injEq] at hpiece; subst hpiece
    intro hmem
    simp only [List.mem_singleton] at hmem
    exact hnl hA hmem.symm

/-! ## escape, entity -/

theorem tv_ruleEscape {A : Prop} {lo : Nat} {st st' : IState} {o : Option Nat}
    (hm : MapT st.src st.srcmap) (hi : tv_RInv A lo st) (h : ruleEscape st false = .ok (o, st')) :
    tv_StepRI A lo st o st' := by
  obtain ⟨hi0, hhi0, _⟩ := hi.ri.ord
  unfold ruleEscape at h
  split at h
  · simp at h
  · split at h
    · simp at h
    · simp only [Except.ok.injEq, Prod.mk.injEq] at h; obtain ⟨rfl, rfl⟩ := h; exact tv_same hi
    · next len hc =>
      obtain ⟨w', _, hlen⟩ := escapeCore_hardbreak hc
      simp only [Bool.false_eq_true, if_false] at h
      split at h
      · simp at h
      · next r hr =>
        simp only [Except.ok.injEq, Prod.mk.injEq] at h; obtain ⟨rfl, rfl⟩ := h
        obtain ⟨rx, ry⟩ := r
        obtain ⟨e1, e2, _⟩ := getMap_eq hr
        obtain ⟨y, hy⟩ := C05.translate_total st.srcmap hm.wf (st.pos + len)
        unfold tv_StepRI
        simp only [Option.getD_some, IState.push]
        rw [e1] at hhi0; simp only [Except.ok.injEq] at hhi0; subst hhi0
        exact tv_push hi e1 hy (n := Node.leaf .hardbreak (some (rx, ry))) rfl (Nat.le_refl _)
          (tv_mono hm (by omega) e1 e2) (tv_mono hm (by omega) e2 hy)
          (wellRanged_leaf (tv_mono hm (by omega) e1 e2)) rfl rfl
    · next sp hc =>
      simp only [Bool.false_eq_true, if_false] at h
      split at h
      · simp at h
      · next r hr =>
        simp only [Except.ok.injEq, Prod.mk.injEq] at h; obtain ⟨rfl, rfl⟩ := h
        obtain ⟨rx, ry⟩ := r
        obtain ⟨e1, e2, _⟩ := getMap_eq hr
        unfold tv_StepRI
        simp only [Option.getD_some, IState.push]
        exact tv_push hi e1 e2 (n := Node.leaf _ (some (rx, ry))) rfl (Nat.le_refl _)
          (tv_mono hm (by omega) e1 e2) (Nat.le_refl _)
          (wellRanged_leaf (tv_mono hm (by omega) e1 e2)) rfl rfl

theorem tv_ruleEntity {A : Prop} {cfg : Cfg} {lo : Nat} {st st' : IState} {o : Option Nat}
    (hm : MapT st.src st.srcmap) (hi : tv_RInv A lo st) (h : ruleEntity cfg st false = .ok (o, st')) :
    tv_StepRI A lo st o st' := by
  unfold ruleEntity at h
  split at h
  · simp at h
  · split at h
    · simp at h
    · split at h
      · simp only [Except.ok.injEq, Prod.mk.injEq] at h; obtain ⟨rfl, rfl⟩ := h; exact tv_same hi
      · split at h
        · simp at h
        · split at h
          · simp at h
          · simp only [Except.ok.injEq, Prod.mk.injEq] at h; obtain ⟨rfl, rfl⟩ := h
            exact tv_same hi
          · simp only [Bool.false_eq_true, if_false] at h
            split at h
            · simp at h
            · next r hr =>
              simp only [Except.ok.injEq, Prod.mk.injEq] at h; obtain ⟨rfl, rfl⟩ := h
              obtain ⟨rx, ry⟩ := r
              obtain ⟨e1, e2, _⟩ := getMap_eq hr
              unfold tv_StepRI
              simp only [Option.getD_some, IState.push]
              exact tv_push hi e1 e2 (n := Node.leaf _ (some (rx, ry))) rfl (Nat.le_refl _)
                (tv_mono hm (by omega) e1 e2) (Nat.le_refl _)
                (wellRanged_leaf (tv_mono hm (by omega) e1 e2)) rfl rfl

/-! ## code spans, autolinks -/

theorem tv_ruleBackticks {A : Prop} {lo : Nat} {st st' : IState} {o : Option Nat}
    (hm : MapT st.src st.srcmap) (hi : tv_RInv A lo st) (h : ruleBackticks st false = .ok (o, st')) :
    tv_StepRI A lo st o st' := by
  unfold ruleBackticks at h
  split at h
  · simp at h
  · simp only [Except.ok.injEq, Prod.mk.injEq] at h; obtain ⟨rfl, rfl⟩ := h
    exact tv_same hi
  · next oc c hrun =>
    split at h
    · next hnone =>
      simp only [Except.ok.injEq, Prod.mk.injEq] at h; obtain ⟨rfl, rfl⟩ := h
      -- real mode always builds the node
      exfalso
      have : ∀ (v : CodePair.Variant) (m : Char) (src : List Char) (pos posMax n p matchEnd : Nat)
          (c : CodePair.Cache) (o : CodePair.Outcome) (c' : CodePair.Cache),
          CodePair.scan v m src pos posMax n p false matchEnd c = .ok (some o, c') → o.node ≠ none := by
        intro v m src pos posMax n p matchEnd c o c' hs
        fun_induction CodePair.scan v m src pos posMax n p false matchEnd c <;> simp_all
        all_goals (try (obtain ⟨rfl, _⟩ := hs; simp))
      have hrn : oc.node ≠ none := by
        unfold CodePair.run at hrun
        repeat' split at hrun
        all_goals first
          | exact this _ _ _ _ _ _ _ _ _ _ _ hrun
          | simp at hrun
      exact hrn hnone
    · next nd hnd =>
      split at h
      · simp at h
      · next r hr =>
        split at h
        · simp at h
        · next ri hri =>
          simp only [Except.ok.injEq, Prod.mk.injEq] at h; obtain ⟨rfl, rfl⟩ := h
          obtain ⟨rx, ry⟩ := r
          obtain ⟨ix, iy⟩ := ri
          obtain ⟨e1, e2, _⟩ := getMap_eq hr
          obtain ⟨f1, f2, _⟩ := getMap_eq hri
          obtain ⟨s1, s2, s3, s4, s5⟩ := run_node_shape _ _ _ _ _ _ _ _ _ _ nd hrun hnd
          rw [s1] at e1
          rw [s2] at e2
          unfold tv_StepRI
          simp only [Option.getD_some]
          have a1 := tv_mono hm (by omega) e1 f1
          have a2 := tv_mono hm s4 f1 f2
          have a3 := tv_mono hm (by rw [s2] at s5; exact s5) f2 e2
          exact tv_push hi e1 e2 (n := Node.mk (.codeInline '`' nd.markerLen) (some (rx, ry))
              [Node.newText nd.content (some (ix, iy))]) rfl (Nat.le_refl _)
            (by omega) (Nat.le_refl _) (wellRanged_oneText a1 a2 a3) rfl rfl

theorem tv_ruleAutolink {A : Prop} {lo : Nat} {st st' : IState} {o : Option Nat}
    (hm : MapT st.src st.srcmap) (hi : tv_RInv A lo st) (h : ruleAutolink st false = .ok (o, st')) :
    tv_StepRI A lo st o st' := by
  unfold ruleAutolink at h
  split at h
  · simp at h
  · simp at h
  · split at h
    · simp only [Except.ok.injEq, Prod.mk.injEq] at h; obtain ⟨rfl, rfl⟩ := h; exact tv_same hi
    · split at h
      · simp only [Except.ok.injEq, Prod.mk.injEq] at h; obtain ⟨rfl, rfl⟩ := h; exact tv_same hi
      · next p hscan =>
        obtain ⟨u, v, _, hp⟩ := autolinkScan_spec hscan
        split at h
        · simp at h
        · simp only at h
          split at h
          · simp only [Except.ok.injEq, Prod.mk.injEq] at h; obtain ⟨rfl, rfl⟩ := h
            exact tv_same hi
          · split at h
            · simp only [Except.ok.injEq, Prod.mk.injEq] at h; obtain ⟨rfl, rfl⟩ := h
              exact tv_same hi
            · simp only [Bool.false_eq_true, if_false] at h
              split at h
              · simp at h
              · next r hr =>
                split at h
                · simp at h
                · next ri hri =>
                  simp only [Except.ok.injEq, Prod.mk.injEq] at h; obtain ⟨rfl, rfl⟩ := h
                  obtain ⟨rx, ry⟩ := r
                  obtain ⟨ix, iy⟩ := ri
                  obtain ⟨e1, e2, _⟩ := getMap_eq hr
                  obtain ⟨f1, f2, _⟩ := getMap_eq hri
                  unfold tv_StepRI
                  simp only [Option.getD_some, IState.push]
                  have e : st.pos + (p - st.pos) = p := by omega
                  rw [e]
                  have a1 := tv_mono hm (by omega) e1 f1
                  have a2 := tv_mono hm (by omega) f1 f2
                  have a3 := tv_mono hm (by omega) f2 e2
                  exact tv_push hi e1 e2 (n := Node.mk (.autolink _) (some (rx, ry))
                      [Node.newText _ (some (ix, iy))]) rfl (Nat.le_refl _)
                    (by omega) (Nat.le_refl _) (wellRanged_oneText a1 a2 a3) rfl rfl

end MdIt.C05T
