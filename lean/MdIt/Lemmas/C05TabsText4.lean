/-
  C05 for ALL sources (split tabs included), third part — the frame invariant `FIV` through the
  inline tokenizer.  Part 4: EXAMPLES ONLY (nothing here is needed by the deliverable
  `parseInline_fthV` of Lemmas/C05TabsText3.lean), and the hypothesis-free corollary
  `tx_parseInline_fthV_closed` obtained by plugging in `emphOKV` (Lemmas/C05TabsTextEmph.lean),
  `codeCloserOK`, `linkCloserOK` (Lemmas/C05TabsClosers.lean).

  * every rule at work on an identity table;
  * the split-tab placeholder of `"-    ` a\n\t\t`"` (Lemmas/C05TabsTable.lean, C05TabsFaith.lean);
  * why the exemption is needed: the `Text` child of the code span of `"-    `\n\t\ta `"` keeps the
    three virtual spaces of the split tab as content, its range selects `a` alone.
-/
import MdIt.Lemmas.C05TabsText3
import MdIt.Lemmas.C05TabsTextEmph
import MdIt.Lemmas.C05TabsClosers
import MdIt.Lemmas.C05TabsFaith

namespace MdIt.C05T
open MdIt.Inline
open MdIt.InlineOps (Srcmap getSourcePosFor getMap byteLen slice)
open MdIt.C05R (Cut Bdy Sel NoBrk Adj Adjd StrictTop TextLike textOf)

/-- **`parseInline_fthV` without the three contracts** (they are theorems) -/
theorem tx_parseInline_fthV_closed (cfg : Inline.Cfg) {src0 c : List Char} {m : Srcmap}
    (hctx : CtxV src0 c m) (hmk : SolidMarkers cfg.chain) {ns : List Inline.Node}
    (h : Inline.parseInline cfg c m = .ok ns) : FthLV src0 false ns ∧ Adjd ns ∧ StrictTop ns :=
  parseInline_fthV cfg hctx hmk (emphOKV cfg src0) codeCloserOK linkCloserOK h

/-- the example configuration (`*` emphasis) has solid markers -/
theorem tx_exSolid (n : Nat) : SolidMarkers (exCfg n).chain := by
  intro mk csw h
  simp [exCfg] at h
  obtain ⟨rfl, _⟩ := h
  decide

/-- what the examples show of a result: value, range and number of children of every top-level
    node -/
def tx_show (r : Except Panic (List Node)) : List (Val × Option (Nat × Nat) × Nat) :=
  match r with
  | .ok cs => cs.map (fun (n : Node) => (n.val, n.range, n.children.length))
  | .error _ => []

/-- … and value and range of the children of the top-level nodes (flattened) -/
def tx_showKids (r : Except Panic (List Node)) : List (Val × Option (Nat × Nat)) :=
  match r with
  | .ok cs => (cs.map (fun (n : Node) => n.children.map (fun (k : Node) => (k.val, k.range)))).flatten
  | .error _ => []

/-! ## every rule, identity table -/

def tx_exSrc : List Char := "a  \n` b `[c](d)<xx:y>&amp;\\*é *e* ![i](u)".toList

-- text, hard break with popped blanks, padded code span, link with a nested run, autolink, entity,
-- escape, fall-back / multi-byte text, an emphasis pair, an image: the run succeeds with eleven
-- children, and they satisfy the conclusion
example : ∃ ns, parseInline (exCfg 100) tx_exSrc [(0, 0)] = .ok ns ∧ ns.length = 11 ∧
    FthLV tx_exSrc false ns ∧ Adjd ns ∧ StrictTop ns := by
  have hrun : (match parseInline (exCfg 100) tx_exSrc [(0, 0)] with
      | .ok cs => cs.length == 11
      | .error _ => false) = true := by decide +kernel
  split at hrun
  · next cs hcs =>
    exact ⟨cs, hcs, by simpa using hrun,
      tx_parseInline_fthV_closed (exCfg 100) (be_ctx_id tx_exSrc) (tx_exSolid 100) hcs⟩
  · simp at hrun

/-! ## the split-tab placeholder of `"-    ` a\n\t\t`"`

  content `tb_exC = "` a\n   `"`, table `[(0,5),(4,11),(7,11)]`: the entries `(4,11)`, `(7,11)` are a
  virtual-space pair (the three spaces `c[4..7)` have no bytes in the source). -/

theorem tx_ex_ctx : CtxV tb_exSrc tb_exC [(0, 5), (4, 11), (7, 11)] := by
  refine ⟨?_, tf_ex_pfthV⟩
  have e : tb_exC = "` a\n   `".toList := by decide +kernel
  rw [e]; exact sh_exTab_mapT

-- the code span `(5,12)` with its `Text` child `"a   "` `(7,11)` — under the exemption: the child
-- holds the three virtual spaces; (here its range happens to hold the line break as well)
example : tx_show (parseInline (exCfg 100) tb_exC [(0, 5), (4, 11), (7, 11)]) =
      [(.codeInline '`' 1, some (5, 12), 1)] ∧
    tx_showKids (parseInline (exCfg 100) tb_exC [(0, 5), (4, 11), (7, 11)]) =
      [(.text ['a', ' ', ' ', ' '], some (7, 11))] := by
  refine ⟨by decide +kernel, by decide +kernel⟩

example : ∃ ns, parseInline (exCfg 100) tb_exC [(0, 5), (4, 11), (7, 11)] = .ok ns ∧
    ns.length = 1 ∧ FthLV tb_exSrc false ns ∧ Adjd ns ∧ StrictTop ns := by
  have hrun : (match parseInline (exCfg 100) tb_exC [(0, 5), (4, 11), (7, 11)] with
      | .ok cs => cs.length == 1
      | .error _ => false) = true := by decide +kernel
  split at hrun
  · next cs hcs =>
    exact ⟨cs, hcs, by simpa using hrun,
      tx_parseInline_fthV_closed (exCfg 100) tx_ex_ctx (tx_exSolid 100) hcs⟩
  · simp at hrun

/-! ## why the exemption is needed: `"-    `\n\t\ta `"`

  The code span starts on line 1, its content starts with the line feed; `normalise` turns the line
  feed into a space and the padding rule strips it, so the inner range starts BEHIND the line feed,
  on the first virtual space.  The child's content is `"   a"`, its range `(9, 10)` selects `a`. -/

def tx_exSrc2 : List Char := ['-', ' ', ' ', ' ', ' ', '`', '\n', '\t', '\t', 'a', ' ', '`']

def tx_exC2 : List Char := ['`', '\n', ' ', ' ', ' ', 'a', ' ', '`']

-- the placeholder the block parser makes
example : (Block.parseBlocks (Pipeline.exCfg false 100).blockCfg tx_exSrc2).toOption.map
      (fun r => Pipeline.inlOf r.1) = some [(tx_exC2, [(0, 5), (2, 9), (5, 9)])] := by
  decide +kernel

-- what the inline parser makes of it
example : tx_show (parseInline (exCfg 100) tx_exC2 [(0, 5), (2, 9), (5, 9)]) =
      [(.codeInline '`' 1, some (5, 12), 1)] ∧
    tx_showKids (parseInline (exCfg 100) tx_exC2 [(0, 5), (2, 9), (5, 9)]) =
      [(.text [' ', ' ', ' ', 'a'], some (9, 10))] := by
  refine ⟨by decide +kernel, by decide +kernel⟩

-- the text clause is false of that child: no line break in `src[9..10] = "a"`, and `"a" ≠ "   a"`
example : Cut tx_exSrc2 9 10 ['a'] ∧ ¬ Sel tx_exSrc2 9 10 [' ', ' ', ' ', 'a'] := by
  have hc : Cut tx_exSrc2 9 10 ['a'] :=
    ⟨['-', ' ', ' ', ' ', ' ', '`', '\n', '\t', '\t'], [' ', '`'], by decide, by decide, by decide⟩
  refine ⟨hc, ?_⟩
  intro hs
  have := hs ['a'] hc ⟨by decide, by decide⟩
  exact absurd this (by decide)

end MdIt.C05T
