/-
  C05 for ALL sources, third part: the text clause at every `Text` that is not the child of a code
  span (the inherent exception: a code span keeps the virtual spaces of a split tab as content,
  and characters without bytes in the source cannot be selected by any range).  Shared
  definitions — the interfaces between
    * the inline side (Lemmas/C05TabsText*.lean: the frame invariant `FIV`; C05TabsTextEmph.lean:
      the delimiter matching; C05TabsClosers.lean: what the last character of a code span / link is),
    * the transport (Lemmas/C05TabsTextSplice.lean: `PInlFV`, `PreV`, `PostV`, `NodeOkX`).
-/
import MdIt.Lemmas.C05TabsDefs2

namespace MdIt.C05T
open MdIt.InlineOps (Srcmap getSourcePosFor byteLen)
open MdIt.Inline (Node Val IState)
open MdIt.C05R (Cut Bdy NoBrk BrkAt Sel Adjd StrictTop TextLike)

/-- the value is a code span -/
def isCode : Val → Bool
  | .codeInline _ _ => true
  | _ => false

mutual
/-- `C05R.FthN` with the exemption: `ex = true` (the node is a child of a code span) switches the
    text clause off -/
def FthNV (src : List Char) (ex : Bool) : Node → Prop
  | ⟨v, r, cs⟩ =>
    (∃ a b, r = some (a, b) ∧ Bdy src a ∧ Bdy src b ∧
      (ex = false → ∀ t, v = .text t → Sel src a b t) ∧
      (∀ ct mu info, v = .special ct mu info → Sel src a b mu) ∧
      (∀ mk l rem o c, v = .emphMarker mk l rem o c →
        Cut src a b (List.replicate rem mk) ∧ mk.utf8Size = 1) ∧
      Adjd cs) ∧ FthLV src (isCode v) cs
def FthLV (src : List Char) (ex : Bool) : List Node → Prop
  | [] => True
  | c :: cs => FthNV src ex c ∧ FthLV src ex cs
end

theorem FthNV_eq (src : List Char) (ex : Bool) (n : Node) :
    FthNV src ex n ↔ (∃ a b, n.range = some (a, b) ∧ Bdy src a ∧ Bdy src b ∧
      (ex = false → ∀ t, n.val = .text t → Sel src a b t) ∧
      (∀ ct mu info, n.val = .special ct mu info → Sel src a b mu) ∧
      (∀ mk l rem o c, n.val = .emphMarker mk l rem o c →
        Cut src a b (List.replicate rem mk) ∧ mk.utf8Size = 1) ∧
      Adjd n.children) ∧ FthLV src (isCode n.val) n.children := by
  cases n; simp [FthNV]

theorem fthLV_iff (src : List Char) (ex : Bool) (l : List Node) :
    FthLV src ex l ↔ ∀ n ∈ l, FthNV src ex n := by
  induction l with
  | nil => simp [FthLV]
  | cons c cs ih => simp [FthLV, ih]

/-- the stretch `[p1, p2]` of `c` lies inside a stretch that starts with a solid character
    (neither space nor line feed) and holds no line feed — where `MapT.shift` and `PFthV.copy`
    apply -/
def Within (c : List Char) (p1 p2 : Nat) : Prop :=
  ∃ p q ch0 w, Cut c p q (ch0 :: w) ∧ ch0 ≠ ' ' ∧ ch0 ≠ '\n' ∧ '\n' ∉ w ∧ p ≤ p1 ∧ p1 ≤ p2 ∧ p2 ≤ q

/-- a solid character sits in front of `pos` on the same line of `c` -/
def Anchored (c : List Char) (pos : Nat) : Prop :=
  ∃ p ch0 w, Cut c p pos (ch0 :: w) ∧ ch0 ≠ ' ' ∧ ch0 ≠ '\n' ∧ '\n' ∉ w

/-- the last child (if any) is not a `Text` -/
def NoTextLast (cs : List Node) : Prop := ∀ init last, cs = init ++ [last] → last.isText = false

/-- **the frame invariant** for any source (beside `RIv`); `pm` is the `posMax` of the frame:
    `C05R.FI` with the exempting `FthLV … false`, and two anchors: a trailing `Text` without line
    feed lies `Within` a solid stretch (`tanch`), and where a NEW text could start with a space, a
    solid character sits in front of it on the same line (`anch`) — so that no `Text` outside a
    code span ever holds a virtual space, unless it holds a line feed as well. -/
structure FIV (src0 c : List Char) (m : Srcmap) (pm pos : Nat) (cs : List Node) : Prop where
  bpos : Bdy c pos
  deep : FthLV src0 false cs
  adj : Adjd cs
  strict : StrictTop cs
  tail : ∀ init last, cs = init ++ [last] → TextLike last →
    ∃ a b, last.range = some (a, b) ∧ getSourcePosFor m pos = .ok b
  tanch : ∀ init last, cs = init ++ [last] → last.isText = true → '\n' ∉ last.content →
    ∃ start, Cut c start pos last.content ∧ Within c start pos
  anch : NoTextLast cs → pos < pm → CharAt c pos ' ' → Anchored c pos

/-- the contract of the emphasis-marker rule (Lemmas/C05TabsTextEmph.lean) -/
def EmphOKV (cfg : Inline.Cfg) (src0 : List Char) : Prop :=
  ∀ (mk : Char) (csw : Bool) (st st' : IState) (o : Option Nat),
    mk.utf8Size = 1 → mk ≠ '\n' → mk ≠ ' ' → CtxV src0 st.src st.srcmap →
    FIV src0 st.src st.srcmap st.posMax st.pos st.children →
    Inline.ruleEmph cfg mk csw st false = .ok (o, st') →
    FIV src0 st.src st.srcmap st.posMax (st'.pos + o.getD 0) st'.children

/-- the last character a successful code-span rule consumes is the closing backtick -/
def CodeCloserOK : Prop :=
  ∀ (st st' : IState) (len : Nat), Inline.ruleBackticks st false = .ok (some len, st') →
    1 ≤ len ∧ CharAt st.src (st.pos + len - 1) '`'

/-- the last character a successful link / image rule consumes is `)` or `]` -/
def LinkCloserOK : Prop :=
  ∀ (cfg : Inline.Cfg) (skip tok : IState → Except Inline.Panic IState) (fuel : Nat)
    (mk : List Nat → Option (List Char) → Val) (en : Bool) (offset : Nat) (st st' : IState) (len : Nat),
    Inline.CalmFn skip →
    Inline.linkRule cfg skip tok fuel mk en offset st false = .ok (some len, st') →
    1 ≤ st'.pos + len ∧ ∃ x, CharAt st.src (st'.pos + len - 1) x ∧ (x = ')' ∨ x = ']')

/-- the claim about a placeholder the splice walk consumes -/
def PInlFV (icfg : Inline.Cfg) (src : List Char) : Block.InlP := fun c m a b =>
  (b = byteLen src ∨ BrkAt src b) ∧
  ∀ ns, Inline.parseInline icfg c m = .ok ns →
    Inline.OrderedN a b ns ∧ Inline.WellRangedList ns ∧ FthLV src false ns ∧ Adjd ns ∧ StrictTop ns

/-! ## the document tree -/

/-- the value of a document node is a code span -/
def isCodeK : Pipeline.Kind → Bool
  | .inl v => isCode v
  | .blk _ => false

mutual
/-- a node of the tree BEFORE the join pass (`C05R.PreOk` with the exemption flag) -/
def PreV (src : List Char) (ex : Bool) : Pipeline.Node → Prop
  | ⟨k, r, _, cs⟩ =>
    (∃ a b, r = some (a, b) ∧ Bdy src a ∧ Bdy src b ∧
      (ex = false → ∀ t, C05R.textOfK k = some t → Sel src a b t) ∧
      (∀ ct mu info, k = .inl (.special ct mu info) → Sel src a b mu) ∧
      C05R.Glued src cs) ∧ PreVL src (isCodeK k) cs
def PreVL (src : List Char) (ex : Bool) : List Pipeline.Node → Prop
  | [] => True
  | c :: cs => PreV src ex c ∧ PreVL src ex cs
end

mutual
/-- a node of the FINISHED tree (`C05R.PostOk` with the exemption flag) -/
def PostV (src : List Char) (ex : Bool) : Pipeline.Node → Prop
  | ⟨k, r, _, cs⟩ =>
    (∃ a b, r = some (a, b) ∧ Bdy src a ∧ Bdy src b ∧
      (ex = false → ∀ t, k = .inl (.text t) → Sel src a b t) ∧
      (∀ ct mu info, k = .inl (.special ct mu info) → Sel src a b mu)) ∧ PostVL src (isCodeK k) cs
def PostVL (src : List Char) (ex : Bool) : List Pipeline.Node → Prop
  | [] => True
  | c :: cs => PostV src ex c ∧ PostVL src ex cs
end

/-- **C05 at one node, for any source**: `Pipeline.NodeOk` with the text clause stated at the PARENT
    for its `Text` children, and switched off when the parent is a code span.  (The root is not a
    `Text`, so every `Text` of a tree has a parent.) -/
def NodeOkX (src : List Char) (n : Pipeline.Node) : Prop :=
  ∃ a b, n.range = some (a, b) ∧ a ≤ b ∧ b ≤ Lines.byteLen src ∧
    Lines.onBoundary src a = true ∧ Lines.onBoundary src b = true ∧
    Pipeline.OrderedD a b n.children ∧
    (isCodeK n.kind = false → ∀ x ∈ n.children, ∀ c, x.kind = .inl (.text c) →
      ∃ a' b', x.range = some (a', b') ∧
        ∀ w, Lines.slice src a' b' = .ok w → '\n' ∉ w → '\r' ∉ w → w = c)

end MdIt.C05T
