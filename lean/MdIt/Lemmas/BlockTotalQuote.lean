/-
  No-panic lemma of the block-quote rule (`Model/Block.lean` §blockquote.rs): under the invariant
  `BInv` (`BlockTotalCore.lean`) the rule fails at most with `.fuel`.

    bqOptSpace_total  `indent_after_marker -= 1` does not underflow
    bqRewrite_val     the value of the rewriting of an entry whose text starts with `>`
    bqRewrite_total   … hence its totality
    bqRewrite_inv     … and what `BInv.setOff` needs of the rewritten entry
    bq_rewrite_step, bq_indent_step   the three assignments to the table keep `BInv`
    bqScan_np         the scan does not panic
    bqScan_inv        the state the scan returns satisfies `BInv` again
    bq_scan_facts, bq_tok_facts       the bookkeeping of the rule behind the scan / the nested call
    blockquote_np     the rule

  Nothing is left open.  `IndentOk` (real mode only) is necessary: see the last two examples.
-/
import MdIt.Lemmas.BlockTotalCore

namespace MdIt.Block
open MdIt.Lines (LineOffset)

/-! ## the rewriting of one entry -/

theorem bq_byteLen_gt : Lines.byteLen ['>'] = 1 := by decide

/-- `indent_after_marker -= 1` cannot underflow: a blank behind the `>` has a positive width -/
theorem bqOptSpace_total {run rest : List Char} (hrest : ∀ c r, rest = c :: r → ¬ (c = ' ' ∨ c = '\t'))
    {w : Nat} (hw : run ≠ [] → 1 ≤ w) : ∃ k, bqOptSpace (run ++ rest) w = .ok k := by
  unfold bqOptSpace
  split
  · rename_i d t hd
    split
    · rename_i hbl
      refine psub_total (hw ?_)
      rintro rfl
      simp only [List.nil_append] at hd
      refine hrest d t hd ?_
      simpa [isBlank] using hbl
    · exact ⟨_, rfl⟩
  · exact ⟨_, rfl⟩

/-- The value of `bqRewrite` on an entry whose text is `'>' :: rest`: the new `first_nonspace` is behind
    the maximal blank run that follows the marker. -/
theorem bqRewrite_val {src : List Char} {o : LineOffset} (hl : LineOk src o) {rest : List Char}
    (hb : Lines.slice src o.firstNonspace o.lineEnd = .ok ('>' :: rest)) :
    ∃ (a run : List Char) (k : Nat) (le : Bool), Lines.AllBlank run ∧
      Lines.slice src o.lineStart o.firstNonspace = .ok a ∧
      Lines.slice src o.lineStart (o.lineStart + (Lines.byteLen a + 1 + run.length)) = .ok (a ++ ['>'] ++ run) ∧
      bqRewrite src o rest =
        .ok ({ o with indentNonspace := (k : Int),
                      firstNonspace := Lines.byteLen a + 1 + run.length + o.lineStart }, le) := by
  obtain ⟨a, run, rest2, rfl, hrun, hrest, h1, h3, h4, h5, hfi, hsl⟩ :=
    rewrite_shape (mid := ['>']) hl hb
  rw [bq_byteLen_gt] at hfi hsl
  have hrel : psub (o.firstNonspace + 1) o.lineStart = .ok (Lines.byteLen a + 1) := by
    unfold psub; rw [if_pos (by omega)]; congr 1; omega
  have hlen : psub o.lineEnd o.lineStart = .ok (Lines.byteLen (a ++ ['>'] ++ run ++ rest2)) := by
    unfold psub; rw [if_pos (by omega)]; congr 1; omega
  obtain ⟨k, hk⟩ := bqOptSpace_total (run := run) hrest
    (w := Lines.indentWidth (a ++ ['>'] ++ run) - Lines.indentWidth (a ++ ['>']))
    (fun hne => by have := indentWidth_run_pos (a ++ ['>']) run hne; omega)
  refine ⟨a, run, k, Lines.byteLen a + 1 + run.length == Lines.byteLen (a ++ ['>'] ++ run ++ rest2),
    hrun, h3, hsl, ?_⟩
  simp only [bqRewrite, h1, hrel, hfi, hlen, hk, liftL, ok_bind]
  rfl

theorem bqRewrite_total {src : List Char} {o : LineOffset} (hl : LineOk src o) {rest : List Char}
    (hb : Lines.slice src o.firstNonspace o.lineEnd = .ok ('>' :: rest)) :
    ∃ r, bqRewrite src o rest = .ok r := by
  obtain ⟨a, run, k, le, _, _, _, h⟩ := bqRewrite_val hl hb
  exact ⟨_, h⟩

/-- what `BInv.setOff` needs of the rewritten entry -/
theorem bqRewrite_inv {src : List Char} {o o' : LineOffset} {rest : List Char} {le : Bool}
    (hl : LineOk src o) (ha : WsAscii src o)
    (hb : Lines.slice src o.firstNonspace o.lineEnd = .ok ('>' :: rest))
    (h : bqRewrite src o rest = .ok (o', le)) :
    LineOk src o' ∧ o'.lineEnd = o.lineEnd ∧ WsAscii src o' := by
  refine ⟨(bqRewrite_spec h).1 hl, (bqRewrite_phi h).1, ?_⟩
  obtain ⟨a, run, k, le', hrun, h3, hsl, hv⟩ := bqRewrite_val hl hb
  rw [hv] at h
  simp only [Except.ok.injEq, Prod.mk.injEq] at h
  rw [← h.1]
  exact wsAscii_rewrite ha h3 (mid := ['>']) (by intro c hc; simp at hc; subst hc; decide) hrun hsl _


/-! ## the scan -/

theorem BInv.bqLine {S : BState} (hI : BInv S) (m : Nat) : BInv { S with line := m } :=
  hI.congr rfl rfl hI.lineMax

/-- the `>` arm keeps the invariant -/
theorem bq_rewrite_step {S S1 : BState} {m : Nat} {o : LineOffset} {rest : List Char}
    {r : LineOffset × Bool} (hI : BInv S) (ho : S.off m = .ok o)
    (hline : S.getLine m = .ok ('>' :: rest)) (hr : bqRewrite S.src o rest = .ok r)
    (hs : S.setOff m r.1 = .ok S1) : BInv S1 := by
  have ho' := off_ok ho
  obtain ⟨h1, h2, h3⟩ := bqRewrite_inv (hI.table _ _ ho') (hI.ascii _ _ ho') (getLine_eq ho' hline)
    (o' := r.1) (le := r.2) hr
  exact hI.setOff hs ho' h1 h2 h3

/-- the two `indent_nonspace`-only assignments keep the invariant -/
theorem bq_indent_step {S S1 : BState} {m : Nat} {o : LineOffset} (x : Int) (hI : BInv S)
    (ho : S.off m = .ok o) (hs : S.setOff m { o with indentNonspace := x } = .ok S1) : BInv S1 :=
  hI.setOff hs (off_ok ho) ((hI.table _ _ (off_ok ho)).indent x) rfl ((hI.ascii _ _ (off_ok ho)).indent x)

theorem bqScan_np {test : Test} (ht : TestPure test) (hto : TestOK test) :
    ∀ (fuel : Nat) (S : BState) (m : Nat) (old : List LineOffset) (le : Bool),
      BInv S → NoPanic (bqScan test fuel S m old le) := by
  intro fuel
  induction fuel with
  | zero => intro S m old le _ e h; simp [bqScan] at h; exact h.symm
  | succ f ih =>
    intro S m old le hI e h
    simp only [bqScan] at h
    crackE h
    all_goals (have hm : m < S.offs.length := by have := hI.lineMax; omega)
    · exact absurd_err h (lineIndent_total hm)
    · exact absurd_err h (getLine_total hI.table hm)
    · exact absurd_err h (off_total hm)
    · rename_i hc _ ho
      obtain ⟨rfl, _⟩ := hc
      have ho' := off_ok ho
      exact absurd_err h (bqRewrite_total (hI.table _ _ ho') (getLine_eq ho' ‹S.getLine m = _›))
    · exact absurd_err h (setOff_total hm)
    · rename_i hc _ ho _ hr _ hs
      obtain ⟨rfl, _⟩ := hc
      exact ih _ _ _ _ (bq_rewrite_step hI ho ‹S.getLine m = _› hr hs) e h
    · exact hto _ (hI.bqLine m) (by simpa using ‹¬¬m < S.lineMax›) e h
    · have e' := ht _ _ ‹test _ = _›
      rw [e'] at h
      exact absurd_err h (off_total hm)
    · have e' := ht _ _ ‹test _ = _›
      rw [e'] at h
      exact absurd_err h (setOff_total hm)
    · have e' := ht _ _ ‹test _ = _›
      rw [e'] at h
      exact absurd_err h (off_total hm)
    · have e' := ht _ _ ‹test _ = _›
      rw [e'] at h
      exact absurd_err h (setOff_total hm)
    · have e' := ht _ _ ‹test _ = _›
      rename_i ho _ hs
      rw [e'] at ho hs
      exact ih _ _ _ _ (bq_indent_step (-1) (hI.bqLine m) ho hs) e h

theorem bqScan_inv {test : Test} (ht : TestPure test) :
    ∀ (fuel : Nat) (S : BState) (m : Nat) (old : List LineOffset) (le : Bool)
      (n : Nat) (old' : List LineOffset) (S' : BState),
      bqScan test fuel S m old le = .ok (n, old', S') → BInv S → BInv S' := by
  intro fuel
  induction fuel with
  | zero => intro S m old le n old' S' h; simp [bqScan] at h
  | succ f ih =>
    intro S m old le n old' S' h hI
    simp only [bqScan] at h
    crack h
    · exact hI
    · exact hI
    · rename_i hc _ ho _ hr _ hs
      obtain ⟨rfl, _⟩ := hc
      exact ih _ _ _ _ _ _ _ h (bq_rewrite_step hI ho ‹S.getLine m = _› hr hs)
    · exact hI
    · have e' := ht _ _ ‹test _ = _›
      rename_i ho _ _ hs
      rw [e'] at ho hs
      exact bq_indent_step _ (hI.bqLine m) ho hs
    · have e' := ht _ _ ‹test _ = _›
      rw [e']
      exact hI.bqLine m
    · have e' := ht _ _ ‹test _ = _›
      rename_i ho _ hs
      rw [e'] at ho hs
      exact ih _ _ _ _ _ _ _ h (bq_indent_step (-1) (hI.bqLine m) ho hs)


/-! ## the rule -/

/-- what the rule needs of the result of its scan -/
theorem bq_scan_facts {test : Test} (ht : TestPure test) {fuel : Nat} {s : BState}
    {r : Nat × List LineOffset × BState} (hI : BInv s) (hl : s.line < s.lineMax)
    (hscan : bqScan test fuel s s.line [] false = .ok r) :
    BInv r.2.2 ∧ s.line ≤ r.1 ∧ r.1 ≤ s.lineMax ∧ r.2.2.lineMax = s.lineMax ∧
      r.2.2.offs.length = s.offs.length ∧ restoreOffs r.2.2.offs s.line r.2.1 = .ok s.offs := by
  obtain ⟨n, old', S'⟩ := r
  obtain ⟨hsb, hmn, hup, _, _, add, hadd, hrest⟩ := bqScan_spec ht _ _ _ _ _ _ _ _ hscan
  simp only [List.nil_append] at hadd
  subst hadd
  exact ⟨bqScan_inv ht _ _ _ _ _ _ _ _ hscan hI, hmn, hup (Nat.le_of_lt hl), hsb.lineMax, hsb.len, hrest⟩

/-- … and of the state the nested tokenizer hands back -/
theorem bq_tok_facts {tok : Tok} {test : Test} (hk : TokSpec tok) (ht : TestPure test) {fuel : Nat}
    {s s2 : BState} {r : Nat × List LineOffset × BState} (hI : BInv s) (hl : s.line < s.lineMax)
    (hi : IndentOk s) {line : List Char} (hline : s.getLine s.line = .ok line)
    (hhead : line.head? = some '>') (hscan : bqScan test fuel s s.line [] false = .ok r)
    (htok : tok { r.2.2 with blkIndent := 0, nodeKind := .blockquote, children := [], line := s.line,
                             lineMax := r.1, level := r.2.2.level + 1 } = .ok s2) :
    s2.level = r.2.2.level + 1 ∧ s2.offs = r.2.2.offs ∧ s.line < s2.line ∧ s2.line ≤ r.1 := by
  obtain ⟨hIS, hmn, _, _, _, _⟩ := bq_scan_facts ht hI hl hscan
  obtain ⟨n, old', S'⟩ := r
  obtain ⟨i, hi, hi0⟩ := hi
  obtain ⟨hlt, o, ho, ho0⟩ := bqScan_first ht hscan hl hi hi0 hline hhead
  have hfr := hk.frame _ _ htok
  have hstrict := hk.strict _ _ htok (by simpa using hlt)
    (Or.inr ⟨_, lineIndent_of_off ho, by simpa using ho0⟩)
  have hupper := hk.upper _ _ htok (fun k o ho => hIS.table k o ho) (by simpa using hmn)
  exact ⟨hfr.level, hfr.offs, hstrict, hupper⟩

theorem blockquote_np {tok : Tok} {test : Test} (hk : TokSpec tok) (ht : TestPure test)
    (hto : TestOK test) (hko : TokOK tok) {fuel : Nat} {s : BState} {silent : Bool}
    (hI : BInv s) (hl : s.line < s.lineMax) (hi : silent = false → IndentOk s) :
    NoPanic (blockquoteRule tok test fuel s silent) := by
  intro e h
  have hm : s.line < s.offs.length := Nat.lt_of_lt_of_le hl hI.lineMax
  unfold blockquoteRule at h
  crackE h
  · exact absurd_err h (lineIndent_total hm)
  · exact absurd_err h (getLine_total hI.table hm)
  · exact bqScan_np ht hto _ _ _ _ _ hI e h
  · -- the nested tokenizer
    rename_i hscan
    obtain ⟨hIS, _, hn, hmax, hlen, _⟩ := bq_scan_facts ht hI hl hscan
    refine hko _ ?_ e h
    refine hIS.congr rfl rfl ?_
    have := hI.lineMax
    simp only; omega
  all_goals
    have hsil : silent = false := by simpa using ‹¬silent = true›
    have hhead : (‹List Char›).head? = some '>' := by simpa using ‹¬(_ : List Char).head? ≠ some '>'›
  · -- `state.level -= 1`
    rename_i hline _ _ _ hscan _ htok
    obtain ⟨hlv, _⟩ := bq_tok_facts hk ht hI hl (hi hsil) hline hhead hscan htok
    exact absurd_err h (psub_total (by omega))
  · -- the swap loop
    rename_i hline _ _ _ hscan _ htok _ _
    obtain ⟨_, hoffs, _⟩ := bq_tok_facts hk ht hI hl (hi hsil) hline hhead hscan htok
    obtain ⟨_, _, _, _, _, hrest⟩ := bq_scan_facts ht hI hl hscan
    rw [hoffs] at h
    exact absurd_err h ⟨_, hrest⟩
  · -- `state.line - 1`
    rename_i hline _ _ _ hscan _ htok _ _ _ _
    obtain ⟨_, _, hlt, _⟩ := bq_tok_facts hk ht hI hl (hi hsil) hline hhead hscan htok
    exact absurd_err h (psub_total (by omega))
  · -- `get_map(start_line, state.line - 1)`
    rename_i hline _ _ _ hscan _ htok _ _ _ hro _ he
    obtain ⟨_, hoffs, hlt, hle⟩ := bq_tok_facts hk ht hI hl (hi hsil) hline hhead hscan htok
    obtain ⟨_, _, hn, _, _, hrest⟩ := bq_scan_facts ht hI hl hscan
    rw [hoffs, hrest] at hro
    cases hro
    obtain ⟨_, rfl⟩ := psub_ok he
    have := hI.lineMax
    exact absurd_err h (getMap_total (by omega) (by simp only; omega))


/-! ## examples -/

section examples

/-- `">\tx"`: the marker splits a tab stop.  The tab behind the `>` (column 1) reaches column 4, so
    `find_indent_of` answers 3 columns for ONE byte; the optional space takes one of them. -/
example : bqRewrite ['>', '\t', 'x'] ⟨0, 3, 0, 0⟩ ['\t', 'x'] = .ok (⟨0, 3, 2, 2⟩, false) := by decide
/-- `" >\tx"`: the tab (column 2) is two columns wide; one is left -/
example : bqRewrite [' ', '>', '\t', 'x'] ⟨0, 4, 1, 1⟩ ['\t', 'x'] = .ok (⟨0, 4, 3, 1⟩, false) := by decide
/-- `"  >\tx"`: the tab (column 3) is ONE column wide — the smallest width a blank can have; the
    subtraction ends at 0 and does not underflow (`indentWidth_run_pos`) -/
example : bqRewrite [' ', ' ', '>', '\t', 'x'] ⟨0, 5, 2, 2⟩ ['\t', 'x'] = .ok (⟨0, 5, 4, 0⟩, false) := by
  decide
/-- `">"`, `"> "`: nothing / only blanks behind the marker (`last_line_empty`) -/
example : bqRewrite ['>'] ⟨0, 1, 0, 0⟩ [] = .ok (⟨0, 1, 1, 0⟩, true) := by decide
example : bqRewrite ['>', ' '] ⟨0, 2, 0, 0⟩ [' '] = .ok (⟨0, 2, 2, 0⟩, true) := by decide

/-- a nested tokenizer and a look-ahead that satisfy the four hypotheses of `blockquote_np` -/
private def toyTok : Tok := fun s => .ok { s with line := max s.line s.lineMax }
private def toyTest : Test := fun s => .ok (false, s)

/-- non-vacuity: the hypotheses of `blockquote_np` are jointly satisfiable (on `">\tx"`, real mode) -/
example : NoPanic (blockquoteRule toyTok toyTest 3 (BState.fresh ['>', '\t', 'x'] .root []) false) := by
  refine blockquote_np ⟨?_, ?_, ?_, ?_⟩ ?_ ?_ ?_ (bInv_fresh _ _ _) (by decide +kernel) ?_
  · intro s s' h; cases h; exact ⟨rfl, rfl, rfl, rfl, rfl, rfl, rfl⟩
  · intro s s' h; cases h; exact Nat.le_max_left _ _
  · intro s s' h _ hle; cases h; exact Nat.max_le.mpr ⟨hle, Nat.le_refl _⟩
  · intro s s' h hlt _; cases h; exact Nat.lt_of_lt_of_le hlt (Nat.le_max_right _ _)
  · intro s r h; cases h; rfl
  · intro s _ _; exact .of_ok rfl
  · intro s _; exact .of_ok rfl
  · intro _; exact ⟨0, by decide +kernel, by decide⟩

/-- … and with the model's own tokenizer / look-ahead the rule does answer on that state -/
example : verdictLine (ruleAt exCfg 5 .blockquote (BState.fresh ['>', '\t', 'x'] .root []) false)
    = some (true, 1) := by decide +kernel

/-- `IndentOk` (which the tokenizer checks before it runs the chain: `if ind < 0 then .ok s`) is
    necessary in real mode.  On an outdented first line (`blk_indent = 1`, an artificial state: `BInv`
    does not read `blk_indent`) the scan stops AT the first line, the nested tokenizer gets an empty
    range and `state.line - 1` underflows (first line of the document) … -/
example : (ruleAt exCfg 5 .blockquote { BState.fresh ['>'] .root [] with blkIndent := 1 } false
    matches .error .sub) = true := by decide +kernel
/-- … or `get_map(start_line, start_line - 1)` trips its `debug_assert!` (any later line) -/
example : (ruleAt exCfg 5 .blockquote
    { BState.fresh ['a', '\n', '>'] .root [] with blkIndent := 1, line := 1 } false
    matches .error .assert) = true := by decide +kernel

end examples

end MdIt.Block
