/-
  No-panic lemma of the block-quote rule (`Model/Block.lean` §blockquote.rs): under the invariant
  `BInv` (`BlockTotalCore.lean`) the rule fails at most with `.fuel`.

    bqRewrite_val     the value of the rewriting of an entry whose text starts with `>`
    bqRewrite_total   … hence its totality
    bqRewrite_inv     … and what the scan needs of the rewritten entry
    bqScan_np         the scan does not panic
    bqScan_inv        the state the scan returns satisfies the invariant again
    blockquote_np     the rule
-/
import MdIt.Lemmas.BlockTotalCore

namespace MdIt.Block
open MdIt.Lines (LineOffset)

/-! ## the rewriting of one entry -/

theorem byteLen_gt : Lines.byteLen ['>'] = 1 := by decide

/-- `indent_after_marker -= 1` cannot underflow: a blank behind the `>` has a positive width -/
theorem bqOptSpace_total {run rest : List Char} (hrest : ∀ c r, rest = c :: r → ¬ (c = ' ' ∨ c = '\t'))
    {w : Nat} (hw : run ≠ [] → 1 ≤ w) : ∃ k, bqOptSpace (run ++ rest) w = .ok k := by
  unfold bqOptSpace
  split
  · rename_i d t hd
    split
    · rename_i hbl
      refine psub_total (hw ?_)
      rintro rfl
      simp only [List.nil_append] at hd
      refine hrest d t hd ?_
      simpa [isBlank] using hbl
    · exact ⟨_, rfl⟩
  · exact ⟨_, rfl⟩

/-- The value of `bqRewrite` on an entry whose text is `'>' :: rest`: the new `first_nonspace` is behind
    the maximal blank run that follows the marker. -/
theorem bqRewrite_val {src : List Char} {o : LineOffset} (hl : LineOk src o) {rest : List Char}
    (hb : Lines.slice src o.firstNonspace o.lineEnd = .ok ('>' :: rest)) :
    ∃ (a run : List Char) (k : Nat) (le : Bool), Lines.AllBlank run ∧
      Lines.slice src o.lineStart o.firstNonspace = .ok a ∧
      Lines.slice src o.lineStart (o.lineStart + (Lines.byteLen a + 1 + run.length)) = .ok (a ++ ['>'] ++ run) ∧
      bqRewrite src o rest =
        .ok ({ o with indentNonspace := (k : Int),
                      firstNonspace := Lines.byteLen a + 1 + run.length + o.lineStart }, le) := by
  obtain ⟨a, run, rest2, rfl, hrun, hrest, h1, h3, h4, h5, hfi, hsl⟩ :=
    rewrite_shape (mid := ['>']) hl hb
  rw [byteLen_gt] at hfi hsl
  have hrel : psub (o.firstNonspace + 1) o.lineStart = .ok (Lines.byteLen a + 1) := by
    unfold psub; rw [if_pos (by omega)]; congr 1; omega
  have hlen : psub o.lineEnd o.lineStart = .ok (Lines.byteLen (a ++ ['>'] ++ run ++ rest2)) := by
    unfold psub; rw [if_pos (by omega)]; congr 1; omega
  obtain ⟨k, hk⟩ := bqOptSpace_total (run := run) hrest
    (w := Lines.indentWidth (a ++ ['>'] ++ run) - Lines.indentWidth (a ++ ['>']))
    (fun hne => by have := indentWidth_run_pos (a ++ ['>']) run hne; omega)
  refine ⟨a, run, k, Lines.byteLen a + 1 + run.length == Lines.byteLen (a ++ ['>'] ++ run ++ rest2),
    hrun, h3, hsl, ?_⟩
  simp only [bqRewrite, h1, hrel, hfi, hlen, hk, liftL, ok_bind]
  rfl

theorem bqRewrite_total {src : List Char} {o : LineOffset} (hl : LineOk src o) {rest : List Char}
    (hb : Lines.slice src o.firstNonspace o.lineEnd = .ok ('>' :: rest)) :
    ∃ r, bqRewrite src o rest = .ok r := by
  obtain ⟨a, run, k, le, _, _, _, h⟩ := bqRewrite_val hl hb
  exact ⟨_, h⟩

/-- what `BInv.setOff` needs of the rewritten entry -/
theorem bqRewrite_inv {src : List Char} {o o' : LineOffset} {rest : List Char} {le : Bool}
    (hl : LineOk src o) (ha : WsAscii src o)
    (hb : Lines.slice src o.firstNonspace o.lineEnd = .ok ('>' :: rest))
    (h : bqRewrite src o rest = .ok (o', le)) :
    LineOk src o' ∧ o'.lineEnd = o.lineEnd ∧ WsAscii src o' := by
  refine ⟨(bqRewrite_spec h).1 hl, (bqRewrite_phi h).1, ?_⟩
  obtain ⟨a, run, k, le', hrun, h3, hsl, hv⟩ := bqRewrite_val hl hb
  rw [hv] at h
  simp only [Except.ok.injEq, Prod.mk.injEq] at h
  rw [← h.1]
  exact wsAscii_rewrite ha h3 (mid := ['>']) (by intro c hc; simp at hc; subst hc; decide) hrun hsl _

end MdIt.Block
