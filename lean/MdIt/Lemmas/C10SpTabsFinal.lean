/-
  C10 with the sourcepos plugin, ALL sources, part 2: the shifted table is a `MapT` table, the result of the
  exact inline simulation (`C10SP.XLT`) gives `InlineExact` and the anchoring of inline nodes, and the two
  invariance theorems follow from ONE remaining ingredient, `InlineExactThmT` (`Lemmas/C10SpTabsInline*.lean`).
-/
import MdIt.Lemmas.C10SpTabsTables
import MdIt.Lemmas.C10SpFullFinal

namespace MdIt.Pipeline
open MdIt
open MdIt.InlineOps (Srcmap getSourcePosFor byteLen)
open MdIt.C05R (Cut fa_Seg)
open MdIt.C05T
open MdIt.C05I (SegAll segAll_get KeysLFV)
open MdIt.Lines (lfToCrlf)

/-! ## the shifted table -/

theorem shiftOf_inj (src : List Char) {a b : Nat}
    (h : a + C10SP.lfBelow src a = b + C10SP.lfBelow src b) : a = b := by
  rcases Nat.lt_trichotomy a b with hlt | he | hgt
  · have := lfBelow_mono src (a := a) (b := b) (by omega); omega
  · exact he
  · have := lfBelow_mono src (a := b) (b := a) (by omega); omega

theorem shiftMap_get_some {src : List Char} {m : Srcmap} {i k v : Nat}
    (h : (shiftMap src m)[i]? = some (k, v)) :
    ∃ v0, m[i]? = some (k, v0) ∧ v = v0 + C10SP.lfBelow src v0 := by
  rw [shiftMap_get] at h
  cases hm : m[i]? with
  | none => rw [hm] at h; simp at h
  | some x =>
    rw [hm] at h
    simp only [Option.map_some, Option.some.injEq, Prod.mk.injEq] at h
    exact ⟨x.2, by rw [← h.1], h.2.symm⟩

theorem mapT_shift {src c : List Char} {m : Srcmap} (h : TabT src c m) : MapT c (shiftMap src m) := by
  refine mapT_of_virt ⟨?_, ?_⟩ ?_ ?_ ⟨?_, ?_⟩
  · obtain ⟨v, rest, hm⟩ := h.wf.first
    exact ⟨v + C10SP.lfBelow src v, shiftMap src rest, by rw [hm]; simp [shiftMap]⟩
  · rw [shiftMap_keys]; exact h.wf.sorted
  · -- `MonoMapV`
    intro i k1 v1 k2 v2 h1 h2
    obtain ⟨a, ha, rfl⟩ := shiftMap_get_some h1
    obtain ⟨b, hb, rfl⟩ := shiftMap_get_some h2
    rcases segAll_get h.seg ha with ⟨k', hn, _⟩ | ⟨pre, t, post, _, _, hnt, hcut, hnext⟩
    · simp only at hn
      rw [hb] at hn
      simp only [Option.some.injEq, Prod.mk.injEq] at hn
      right; rw [hn.2]
    · left
      rw [hb] at hnext
      obtain ⟨post', _, hk, hv, _⟩ := hnext
      simp only at hk hv hcut
      have hlf := lfBelow_cut hcut hnt (byteLen t) (Nat.le_refl _)
      have hmono := lfBelow_mono src (a := a + byteLen t) (b := b) (by omega)
      omega
  · -- `KeysLFV`
    intro i k v h1
    obtain ⟨a, ha, rfl⟩ := shiftMap_get_some h1
    rcases h.keys i k a ha with hl | ⟨k0, h0⟩
    · exact .inl hl
    · right
      exact ⟨k0, by rw [shiftMap_get, h0]; rfl⟩
  · intro i k0 v k h1 h2 p hp1 hp2
    obtain ⟨a, ha, e1⟩ := shiftMap_get_some h1
    obtain ⟨b, hb, e2⟩ := shiftMap_get_some h2
    have := shiftOf_inj src (e1.symm.trans e2)
    subst this
    exact h.virt.sp i k0 a k ha hb p hp1 hp2
  · intro i k0 v k h1 h2
    obtain ⟨a, ha, e1⟩ := shiftMap_get_some h1
    obtain ⟨b, hb, e2⟩ := shiftMap_get_some h2
    have := shiftOf_inj src (e1.symm.trans e2)
    subst this
    exact h.virt.ls i k0 a k ha hb

/-! ## from `XLT` to `InlineExact` and to the anchoring claim -/

theorem rendersAttrs_inlT (v : Inline.Val) : (Kind.inl v).rendersAttrs = C10SP.attrValT v := by
  cases v <;> rfl

mutual
theorem xnT_rmap {src c : List Char} {m : Srcmap} (h : TabT src c m) :
    ∀ (n₁ n₂ : Inline.Node), C10SP.XNT c m (shiftMap src m) n₁ n₂ →
      rmap id true (ofInline n₂) = rmap (shiftOf src) true (ofInline n₁)
  | ⟨v₁, r₁, cs₁⟩, ⟨v₂, r₂, cs₂⟩, hx => by
    simp only [C10SP.XNT] at hx
    obtain ⟨hv, hs, hl⟩ := hx
    subst hv
    simp only [ofInline, rmap, xlT_rmap h cs₁ cs₂ hl, Node.mk.injEq, true_and, and_true]
    unfold rangeOf
    rw [rendersAttrs_inlT]
    cases hav : C10SP.attrValT v₁ with
    | false => simp
    | true =>
      obtain ⟨p, q, a₁, b₁, a₂, b₂, e₁, e₂, hq, hc, t1, t2, t3, t4⟩ := hs hav
      subst e₁ e₂
      have s1 := tr_shiftT h (Nat.le_of_lt (charSolid_lt hc)) t1
      have s2 := tr_shiftT h hq t2
      rw [t3] at s1; rw [t4] at s2
      simp only [Except.ok.injEq] at s1 s2
      simp [mapRange, shiftOf, s1, s2]
theorem xlT_rmap {src c : List Char} {m : Srcmap} (h : TabT src c m) :
    ∀ (l₁ l₂ : List Inline.Node), C10SP.XLT c m (shiftMap src m) l₁ l₂ →
      rmapList id true (ofInlineList l₂) = rmapList (shiftOf src) true (ofInlineList l₁)
  | [], [], _ => rfl
  | [], _ :: _, hx => by simp only [C10SP.XLT] at hx
  | _ :: _, [], hx => by simp only [C10SP.XLT] at hx
  | a :: as, b :: bs, hx => by
    simp only [C10SP.XLT] at hx
    simp only [ofInlineList, rmapList, xnT_rmap h a b hx.1, xlT_rmap h as bs hx.2]
end

mutual
theorem xnT_every {src c : List Char} {m : Srcmap} (h : TabT src c m) :
    ∀ (n₁ n₂ : Inline.Node), C10SP.XNT c m m n₁ n₂ → Every (fun n => AnchK src n.kind n.range) (ofInline n₁)
  | ⟨v₁, r₁, cs₁⟩, ⟨v₂, r₂, cs₂⟩, hx => by
    simp only [C10SP.XNT] at hx
    obtain ⟨_, hs, hl⟩ := hx
    simp only [ofInline]
    refine .mk _ ?_ (xlT_every h cs₁ cs₂ hl)
    intro hk a b hr
    simp only at hk hr
    rw [rendersAttrs_inlT] at hk
    obtain ⟨p, q, a₁, b₁, a₂, b₂, e₁, _, _, hc, t1, _, _, _⟩ := hs hk
    rw [e₁] at hr
    simp only [Option.some.injEq, Prod.mk.injEq] at hr
    obtain ⟨rfl, rfl⟩ := hr
    exact tr_onByteT h hc t1
theorem xlT_every {src c : List Char} {m : Srcmap} (h : TabT src c m) :
    ∀ (l₁ l₂ : List Inline.Node), C10SP.XLT c m m l₁ l₂ →
      ∀ n ∈ ofInlineList l₁, Every (fun n => AnchK src n.kind n.range) n
  | [], _, _ => by simp [ofInlineList]
  | _ :: _, [], hx => by simp only [C10SP.XLT] at hx
  | a :: as, b :: bs, hx => by
    simp only [C10SP.XLT] at hx
    intro n hn
    simp only [ofInlineList, List.mem_cons] at hn
    rcases hn with rfl | hn
    · exact xnT_every h a b hx.1
    · exact xlT_every h as bs hx.2 n hn
end

/-! ## the document theorems from the exact inline simulation -/

/-- the statement of the exact inline simulation for `MapT` tables -/
def InlineExactThmT (icfg : Inline.Cfg) : Prop :=
  ∀ (c : List Char) (m₁ m₂ : Srcmap), MapT c m₁ → MapT c m₂ → MLe m₁ m₂ →
    ∀ ns₁, Inline.parseInline icfg c m₁ = .ok ns₁ →
      ∃ ns₂, Inline.parseInline icfg c m₂ = .ok ns₂ ∧ C10SP.XLT c m₁ m₂ ns₁ ns₂

theorem inlineExact_of_tabT {icfg : Inline.Cfg} (hx : InlineExactThmT icfg) {src c : List Char} {m : Srcmap}
    (h : TabT src c m) : InlineExact icfg (shiftOf src) c m (shiftMap src m) := by
  intro ns₁ ns₂ h₁ h₂
  obtain ⟨ns₂', h₂', hxl⟩ := hx c m (shiftMap src m) h.mapT (mapT_shift h) (mle_shift src m) ns₁ h₁
  rw [h₂] at h₂'
  simp only [Except.ok.injEq] at h₂'
  subst h₂'
  exact xlT_rmap h ns₁ ns₂ hxl

theorem inline_anchoredT {icfg : Inline.Cfg} (hx : InlineExactThmT icfg) {src c : List Char} {m : Srcmap}
    (h : TabT src c m) {ns : List Inline.Node} (hp : Inline.parseInline icfg c m = .ok ns) :
    ∀ n ∈ ofInlineList ns, Every (fun n => AnchK src n.kind n.range) n := by
  obtain ⟨ns₂, _, hxl⟩ := hx c m m h.mapT h.mapT (mle_refl m) ns hp
  exact xlT_every h ns ns₂ hxl

/-- every attribute-rendering node of the parsed tree starts at a byte that is not a line feed — ALL sources -/
theorem doc_anchoredT (cfg : DocCfg) (src : List Char) (hsp : cfg.sourcepos = true)
    (hx : ∀ refs, InlineExactThmT (cfg.inlineCfg refs))
    (hsmall : 4 * Lines.byteLen src + 8 < 2147483648) (hpara : cfg.hasPara = true)
    {t : Node} (h : parseDoc cfg src = .ok t) : Every (fun n => AnchK src n.kind n.range) t := by
  unfold parseDoc at h
  split at h
  · cases h
  · rename_i root refs hb
    obtain ⟨hroot, _⟩ := Block.parseBlocks_wf hb
    have htab := doc_placeholder_segsT cfg src hsmall hpara hb
    have hnr := Block.parseBlocks_inlNoRange hb
    have hanch := Block.parseBlocks_anchored cfg.blockCfg src hb
    rw [afterBlocks_sp cfg hsp] at h
    split at h
    · cases h
    · rename_i t0 hs
      simp only [Except.ok.injEq] at h
      subst h
      apply spPure_everyKR
      apply joined_everyK (fun k r hk => anchK_nr src k r hk)
      refine spliceNode_everyKR (Q := AnchK src)
        (Pb := fun _ r => ∀ a b, r = some (a, b) → a < b ∧ Block.OnByte src a)
        (Pi := fun c m => TabT src c m) ?_ ?_ root t0 ?_ ?_ hs
      · intro k r hp _ a b hr
        exact onByteLf_of_onByte (hp a b hr).2
      · intro ct m ns hp hns
        exact inline_anchoredT (hx refs) hp hns
      · rw [hroot]; exact anchK_nr src _ _ rfl
      · exact bok_of_facts root hanch htab.child hnr.child

/-- the two checks, from the anchoring claim and the order clause of C05 -/
theorem checks_of_every_ord {src : List Char} {t : Node}
    (h1 : Every (fun n => AnchK src n.kind n.range) t) (h2 : Every (NodeOrd src) t) :
    allN (rendered (insideB src)) t = true ∧ allN (rendered (anchLeB src)) t = true := by
  have h := Every.and h1 h2
  constructor
  · refine allN_of_every ?_ t h
    intro n ⟨ha, a, b, hr, hab, hb, _⟩
    unfold rendered
    cases hk : n.kind.rendersAttrs with
    | false => rfl
    | true =>
      obtain ⟨_, hlt⟩ := onByteLf_facts (ha hk a b hr)
      rw [lines_sm_len] at hb
      simp [hr, insideB, C10SP.Inside, hlt, hb]
  · refine allN_of_every ?_ t h
    intro n ⟨ha, a, b, hr, hab, hb, _⟩
    unfold rendered
    cases hk : n.kind.rendersAttrs with
    | false => rfl
    | true =>
      obtain ⟨hn, _⟩ := onByteLf_facts (ha hk a b hr)
      simp [hr, anchLeB, hn, hab]

/-- **C10 with sourcepos, final newline, ALL sources**, from the exact inline simulation -/
theorem doc_final_newline_sp_of_inlineT (x : Bool) (cfg : DocCfg) (src : List Char) (hsp : cfg.sourcepos = true)
    (hlast : src.getLast? ≠ some '\n' ∧ src.getLast? ≠ some '\r')
    (hx : ∀ refs, InlineExactThmT (cfg.inlineCfg refs))
    (hsmall : 4 * Lines.byteLen src + 8 < 2147483648) (hpara : cfg.hasPara = true)
    (hmk : SolidMarkers cfg.inlineChain) :
    renderDoc x cfg (src ++ ['\n']) = renderDoc x cfg src := by
  refine renderDoc_of_blocks_eq_sp x cfg _ _ hsp
    (Block.LE.parseBlocks_final_newline cfg.blockCfg src hlast (.inr (Block.parseBlocks_fuel _ _)))
    (insideB src) ?_ ?_
  · intro r h
    have hi : C10SP.Inside src r := by simpa [insideB] using h
    have h3 : C10SP.endOff r.2 + 1 ≤ SourceMap.byteLen src := by
      unfold C10SP.endOff; split <;> have := hi.1 <;> have := hi.2 <;> omega
    simp only [posAttr]
    rw [C10SP.runSt_append_left src ['\n'] 1 0 _ (by have := hi.1; omega) (.inl hlast.2),
      C10SP.runSt_append_left src ['\n'] 1 0 _ h3 (.inl hlast.2)]
  · intro t ht
    exact (checks_of_every_ord (doc_anchoredT cfg src hsp hx hsmall hpara ht)
      (doc_ranges_ordered_all cfg src t hsmall hpara hmk ht).2).1

/-- **C10 with sourcepos, LF ↦ CR LF, ALL CR-free sources**, from the exact inline simulation -/
theorem doc_crlf_sp_of_inlineT (x : Bool) (cfg : DocCfg) (src : List Char) (hsp : cfg.sourcepos = true)
    (hcr : '\r' ∉ src) (hinl : ∀ e, parseDoc cfg src ≠ .error (.inline e))
    (hx : ∀ refs, InlineExactThmT (cfg.inlineCfg refs))
    (hsmall : 4 * Lines.byteLen src + 8 < 2147483648) (hpara : cfg.hasPara = true)
    (hmk : SolidMarkers cfg.inlineChain) :
    renderDoc x cfg (lfToCrlf src) = renderDoc x cfg src := by
  have hstrict := Block.LX.Y.parseBlocks_crlf_strict cfg.blockCfg src hcr
  have hle : Block.LE.BRes (C10SP.crlfRel src) (Block.parseBlocks cfg.blockCfg src)
      (Block.parseBlocks cfg.blockCfg (lfToCrlf src)) :=
    Block.LX.Y.BRes.toLE (fun x y h => h) (fun a b h => h) hstrict
  refine doc_crlf_sp_of_blocks_q x cfg src hsp hcr hle hinl ?_ (anchLeB src)
    (fun r h => posAttr_crlf_le src hcr r h) ?_
  · intro root₁ refs₁ root₂ refs₂ h1 h2
    rcases hstrict with ⟨a, b, e1, e2, _, hc, _⟩ | ⟨e, e1, _⟩
    · rw [h1] at e1; rw [h2] at e2
      simp only [Except.ok.injEq] at e1 e2
      subst e1 e2
      have htab := doc_placeholder_segsT cfg src hsmall hpara h1
      have hnr := Block.parseBlocks_inlNoRange h1
      obtain ⟨k₁, r₁, c₁⟩ := root₁
      obtain ⟨k₂, r₂, c₂⟩ := root₂
      simp only [PlN2]
      exact plL2_of_nrelL (Q := fun c m => TabT src c m)
        (fun c m hq => inlineExact_of_tabT (hx refs₁) hq) c₁ c₂ hc htab.child hnr.child
    · rw [h1] at e1; cases e1
  · intro t ht
    exact (checks_of_every_ord (doc_anchoredT cfg src hsp hx hsmall hpara ht)
      (doc_ranges_ordered_all cfg src t hsmall hpara hmk ht).2).2

end MdIt.Pipeline
