/-
  C05 for ALL sources (split tabs included), inline half, part 3 — the link rule, one step of the
  tokenizer loop, the induction on fuel, where the loop stops, and the deliverable

    `pinl_of_mapT : MapT c m → SolidMarkers cfg.chain → (window translates into [A, B]) →
                      Pipeline.PInl cfg c m A B`

  (`Inline.pinl_of_mapOK`, Lemmas/C05InlineExit.lean, for tables that are only `MapT`).

  The frame invariant is `RIv (tv_NlAct cfg level)`: `Inline.RI` plus "a trailing `Text` holds no
  line feed" in every frame where the newline rule is active (it is in the chain and the level is
  below the nesting limit).  That clause is kept because
    * the text rule never takes a line feed (`'\n' ∈ Entity.textStop`, `tv_ruleText`);
    * the fall-back pushes the first character of the window only after EVERY rule of the chain
      declined at a state with the same window — in particular the newline rule, which declines
      only if that character is not a line feed (`tv_firstRule`, second half);
    * every other rule leaves a non-text last child.
-/
import MdIt.Lemmas.C05TabsRanges2

namespace MdIt.C05T
open MdIt.Inline
open MdIt.InlineOps (Srcmap getSourcePosFor getMap byteLen slice)
open MdIt.C05 (WFMap)
open MdIt.C05R (Cut)

/-- the newline rule is active in a frame at nesting level `lvl` -/
def tv_NlAct (cfg : Cfg) (lvl : Nat) : Prop :=
  RuleId.newline ∈ cfg.chain ∧ lvl < cfg.maxNesting

/-- what a rule call in real mode leaves behind (`Inline.StepOK` with `RIv`, plus the level and
    `posMax` of the frame) -/
structure tv_StepOK (A : Prop) (lo : Nat) (st : IState) (o : Option Nat) (st' : IState) : Prop where
  src : st'.src = st.src
  srcmap : st'.srcmap = st.srcmap
  level : st'.level = st.level
  posMax : st'.posMax = st.posMax
  ri : RIv A st.src st.srcmap lo (st'.pos + o.getD 0) st'.children
  pos : o = none → st'.pos = st.pos

/-- `tok` keeps the frame invariant (of whatever frame it is called for) and the level -/
def tv_RangesFn (cfg : Cfg) (tok : IState → Except Panic IState) : Prop :=
  ∀ lo s s', MapT s.src s.srcmap → tok s = .ok s' → tv_RInv (tv_NlAct cfg s.level) lo s →
    s'.src = s.src ∧ s'.srcmap = s.srcmap ∧ s'.level = s.level ∧
      tv_RInv (tv_NlAct cfg s.level) lo s'

theorem tv_StepOK.ofSimple {A : Prop} {lo : Nat} {st st' : IState} {o : Option Nat}
    (hs : Simple st false o st') (h : tv_StepRI A lo st o st') : tv_StepOK A lo st o st' :=
  ⟨hs.frame.src, hs.frame.srcmap, hs.frame.level, hs.frame.posMax, h, fun _ => hs.pos⟩

theorem tv_stepOK_calm {A : Prop} {lo : Nat} {st st' : IState} (hi : tv_RInv A lo st)
    (hc : Calm st st') (hp : st'.pos = st.pos) : tv_StepOK A lo st none st' := by
  refine ⟨hc.src, hc.srcmap, hc.level, hc.posMax, ?_, fun _ => hp⟩
  simp only [Option.getD_none, Nat.add_zero]
  rw [hp, hc.children]; exact hi

/-! ## the link rule -/

theorem tv_linkRule {A : Prop} {cfg : Cfg} {skip tok : IState → Except Panic IState}
    (hq : CalmFn skip) (ht : tv_RangesFn cfg tok) {fuel : Nat}
    {mk : List Nat → Option (List Char) → Val}
    (hmk : ∀ u t, ∀ c, mk u t ≠ .text c) (hmk2 : ∀ u t r cs, (Node.mk (mk u t) r cs).asMarker = none)
    {en : Bool} {offset : Nat} {lo : Nat} {st : IState} {o : Option Nat} {st' : IState}
    (hm : MapT st.src st.srcmap) (hi : tv_RInv A lo st)
    (h : linkRule cfg skip tok fuel mk en offset st false = .ok (o, st')) :
    tv_StepOK A lo st o st' := by
  unfold linkRule at h
  simp only at h
  split at h
  · simp at h
  · next st1 hpl =>
    simp only [Except.ok.injEq, Prod.mk.injEq] at h; obtain ⟨rfl, rfl⟩ := h
    exact tv_stepOK_calm hi (parseLink_calm hq hpl) (parseLink_pos hpl)
  · next res st1 hpl =>
    have hc := parseLink_calm hq hpl
    have hp := parseLink_pos hpl
    simp only [Bool.false_eq_true, if_false] at h
    split at h
    · simp at h
    · next st3 htok =>
      split at h
      · simp at h
      · next hlev0 =>
        split at h
        · simp at h
        · next r hr =>
          split at h
          · simp at h
          · next hnu =>
            simp only [Except.ok.injEq, Prod.mk.injEq] at h; obtain ⟨rfl, rfl⟩ := h
            -- the nested frame
            have hm1 : MapT st1.src st1.srcmap := by rw [hc.src, hc.srcmap]; exact hm
            obtain ⟨lo', hlo'⟩ := C05.translate_total st1.srcmap hm1.wf res.labelStart
            have hnest : tv_RInv (tv_NlAct cfg (st1.level + 1)) lo'
                (IState.mk st1.src st1.srcmap res.labelStart res.labelEnd
                  (st1.level + 1) (st1.linkLevel + 1) st1.cache st1.backticks [] []) :=
              ⟨⟨⟨lo', hlo', Nat.le_refl _⟩, trivial, markersOK_nil,
                  by intro init last hcs; simp at hcs⟩,
                by intro _ init last hcs; simp at hcs⟩
            obtain ⟨hs3, hm3, hl3, hri3⟩ := ht lo' (IState.mk st1.src st1.srcmap res.labelStart
                res.labelEnd (st1.level + 1) (st1.linkLevel + 1) st1.cache st1.backticks [] []) st3
                hm1 htok hnest
            have hs3' : st3.src = st1.src := hs3
            have hm3' : st3.srcmap = st1.srcmap := hm3
            have hl3' : st3.level = st1.level + 1 := hl3
            have hri3' : RI st3.src st3.srcmap lo' st3.pos st3.children := hri3.ri
            clear hs3 hm3 hl3 hri3
            have hs3 := hs3'
            have hm3 := hm3'
            obtain ⟨rx, ry⟩ := r
            obtain ⟨e1, e2, hle⟩ := getMap_eq (liftR_ok.mp hr)
            rw [hm3, hc.srcmap] at e1 e2
            obtain ⟨h3, hh3, hord3⟩ := hri3'.ord
            rw [hm3, hc.srcmap] at hh3
            rw [hc.srcmap] at hlo'
            refine ⟨by simp only; rw [hs3]; exact hc.src, by simp only; rw [hm3]; exact hc.srcmap,
              by simp only; rw [hl3', ← hc.level]; omega, by simp only; exact hc.posMax, ?_,
              by intro hh; simp at hh⟩
            simp only [Option.getD_some]
            have epos : st3.pos + (res.endPos - st3.pos) = res.endPos := by omega
            rw [epos, hc.children]
            -- children of the new node lie inside its range
            have hls := parseLink_labelStart hpl
            have hlo1 := tv_mono hm (by omega : st.pos ≤ res.labelStart) e1 hlo'
            have hhi1 := tv_mono hm (by omega : st3.pos ≤ res.endPos) hh3 e2
            have hwr : WellRanged (Node.mk (mk (res.href.getD []) res.title) (some (rx, ry)) st3.children) := by
              rw [WellRanged_eq]
              exact ⟨⟨rx, ry, rfl, tv_mono hm hle e1 e2, hord3.widen hlo1 hhi1⟩, hri3'.deep⟩
            have hnt : (Node.mk (mk (res.href.getD []) res.title) (some (rx, ry)) st3.children).isText = false := by
              unfold Node.isText
              have := hmk (res.href.getD []) res.title
              cases hv : mk (res.href.getD []) res.title <;> simp_all
            exact tv_push hi e1 e2 rfl (Nat.le_refl _) (tv_mono hm hle e1 e2) (Nat.le_refl _) hwr hnt
              (hmk2 _ _ _ _)

/-! ## one rule, the chain -/

/-- **one rule** in real mode.  `hnl`: the newline rule runs only in a frame where it is active;
    `hem`: the emphasis marker is solid. -/
theorem tv_runRule {A : Prop} {cfg : Cfg} {skip tok : IState → Except Panic IState}
    (hq : CalmFn skip) (ht : tv_RangesFn cfg tok) {fuel : Nat} {id : RuleId} {lo : Nat} {st : IState}
    {o : Option Nat} {st' : IState} (hnl : id = .newline → A)
    (hem : ∀ mk csw, id = .emph mk csw → mk.utf8Size = 1 ∧ mk ≠ '\n' ∧ mk ≠ ' ')
    (hm : MapT st.src st.srcmap) (hi : tv_RInv A lo st)
    (h : runRule cfg skip tok fuel id st false = .ok (o, st')) : tv_StepOK A lo st o st' := by
  unfold runRule at h
  cases id with
  | text =>
    have h' := liftR_ok.mp h
    exact tv_StepOK.ofSimple (ruleText_simple h') (tv_ruleText hm hi h')
  | newline =>
    have h' := liftR_ok.mp h
    exact tv_StepOK.ofSimple (ruleNewline_simple h') (tv_ruleNewline hm (hnl rfl) hi h')
  | escape =>
    have h' := liftR_ok.mp h
    exact tv_StepOK.ofSimple (ruleEscape_simple h') (tv_ruleEscape hm hi h')
  | backticks =>
    have h' := liftR_ok.mp h
    exact tv_StepOK.ofSimple (ruleBackticks_simple h') (tv_ruleBackticks hm hi h')
  | emph mk csw =>
    have h' := liftR_ok.mp h
    obtain ⟨k1, k2, k3⟩ := hem mk csw rfl
    exact tv_StepOK.ofSimple (ruleEmph_simple h') (tv_ruleEmph hm k1 k2 k3 hi h')
  | link =>
    simp only at h
    unfold ruleLink at h
    split at h
    · simp at h
    · simp at h
    · split at h
      · simp only [Except.ok.injEq, Prod.mk.injEq] at h; obtain ⟨rfl, rfl⟩ := h
        exact tv_stepOK_calm hi (Calm.refl _) rfl
      · exact tv_linkRule hq ht (by intro u t c hc; cases hc) (by intro u t r cs; rfl) hm hi h
  | image =>
    simp only at h
    unfold ruleImage at h
    split at h
    · simp at h
    · exact tv_linkRule hq ht (by intro u t c hc; cases hc) (by intro u t r cs; rfl) hm hi h
    · simp only [Except.ok.injEq, Prod.mk.injEq] at h; obtain ⟨rfl, rfl⟩ := h
      exact tv_stepOK_calm hi (Calm.refl _) rfl
  | linkEnd =>
    simp only [Except.ok.injEq, Prod.mk.injEq] at h; obtain ⟨rfl, rfl⟩ := h
    exact tv_stepOK_calm hi (Calm.refl _) rfl
  | autolink =>
    have h' := liftR_ok.mp h
    exact tv_StepOK.ofSimple (ruleAutolink_simple h') (tv_ruleAutolink hm hi h')
  | entity =>
    have h' := liftR_ok.mp h
    exact tv_StepOK.ofSimple (ruleEntity_simple h') (tv_ruleEntity hm hi h')

/-- the newline rule declines only in front of a character that is not a line feed -/
theorem tv_newline_declines {cfg : Cfg} {skip tok : IState → Except Panic IState} {fuel : Nat}
    {s s' : IState} (h : runRule cfg skip tok fuel .newline s false = .ok (none, s'))
    {c : Char} {rest : List Char} (hw : s.window = .ok (c :: rest)) : c ≠ '\n' := by
  unfold runRule at h
  have h' := liftR_ok.mp h
  have hv := ruleNewline_verdict hw h'
  intro hc
  rw [if_neg (by simpa using hc)] at hv
  cases hv

/-- **the chain**: the frame invariant; and when EVERY rule of a chain that holds the newline rule
    declined, the window does not start with a line feed -/
theorem tv_firstRule {A : Prop} {run : RuleId → IState → RuleRes} {lo : Nat}
    (hnlrun : ∀ s s', run .newline s = .ok (none, s') → ∀ c rest, s.window = .ok (c :: rest) →
      c ≠ '\n') :
    ∀ (rules : List RuleId),
      (∀ id, id ∈ rules → ∀ s o s', MapT s.src s.srcmap → tv_RInv A lo s → run id s = .ok (o, s') →
        tv_StepOK A lo s o s') →
      ∀ (st : IState) (o : Option Nat) (st' : IState),
        MapT st.src st.srcmap → tv_RInv A lo st → firstRule run rules st = .ok (o, st') →
        tv_StepOK A lo st o st' ∧
          (o = none → RuleId.newline ∈ rules → ∀ c rest, st.window = .ok (c :: rest) → c ≠ '\n') := by
  intro rules
  induction rules with
  | nil =>
    intro _ st o st' hm hi h
    simp only [firstRule, Except.ok.injEq, Prod.mk.injEq] at h; obtain ⟨rfl, rfl⟩ := h
    exact ⟨tv_stepOK_calm hi (Calm.refl _) rfl, by intro _ hmem; simp at hmem⟩
  | cons r rs ih =>
    intro hrun st o st' hm hi h
    unfold firstRule at h
    split at h
    · simp at h
    · next n st1 hr =>
      simp only [Except.ok.injEq, Prod.mk.injEq] at h; obtain ⟨rfl, rfl⟩ := h
      exact ⟨hrun r (by simp) _ _ _ hm hi hr, by intro hh; simp at hh⟩
    · next st1 hr =>
      have s1 := hrun r (by simp) _ _ _ hm hi hr
      have hi1 : tv_RInv A lo st1 := by
        have := s1.ri
        simp only [Option.getD_none, Nat.add_zero] at this
        unfold tv_RInv; rw [s1.src, s1.srcmap]; exact this
      have hm1 : MapT st1.src st1.srcmap := by rw [s1.src, s1.srcmap]; exact hm
      obtain ⟨s2, n2⟩ := ih (fun id hid => hrun id (List.mem_cons_of_mem _ hid)) st1 o st' hm1 hi1 h
      refine ⟨⟨s2.src.trans s1.src, s2.srcmap.trans s1.srcmap, s2.level.trans s1.level,
        s2.posMax.trans s1.posMax, ?_, ?_⟩, ?_⟩
      · have := s2.ri; rw [s1.src, s1.srcmap] at this; exact this
      · intro ho; rw [s2.pos ho, s1.pos rfl]
      · intro ho hmem c rest hw
        rcases List.mem_cons.mp hmem with hr0 | hr0
        · subst hr0
          exact hnlrun _ _ hr c rest hw
        · have hw1 : st1.window = .ok (c :: rest) := by
            rw [← hw]; unfold IState.window; rw [s1.src, s1.pos rfl, s1.posMax]
          exact n2 ho hr0 c rest hw1

/-! ## one iteration, the induction -/

/-- **one iteration of the tokenizer loop** -/
theorem tv_tokStep {cfg : Cfg} {skip tok : IState → Except Panic IState} (hq : CalmFn skip)
    (ht : tv_RangesFn cfg tok) (hmk : SolidMarkers cfg.chain) {fuel : Nat} {lo : Nat}
    {st st' : IState} (hm : MapT st.src st.srcmap) (hi : tv_RInv (tv_NlAct cfg st.level) lo st)
    (h : tokStep cfg skip tok fuel st = .ok st') :
    st'.src = st.src ∧ st'.srcmap = st.srcmap ∧ st'.level = st.level ∧ st'.posMax = st.posMax ∧
      tv_RInv (tv_NlAct cfg st.level) lo st' := by
  have hok : ∀ o st1, (if st.level < cfg.maxNesting then
        firstRule (fun id s => runRule cfg skip tok fuel id s false) cfg.chain st
      else .ok (none, st)) = .ok (o, st1) →
      tv_StepOK (tv_NlAct cfg st.level) lo st o st1 ∧
        (o = none → tv_NlAct cfg st.level → ∀ c rest, st.window = .ok (c :: rest) → c ≠ '\n') := by
    intro o st1 hh
    split at hh
    · next hlt =>
      obtain ⟨s1, n1⟩ := tv_firstRule (A := tv_NlAct cfg st.level) (lo := lo)
        (run := fun id s => runRule cfg skip tok fuel id s false)
        (fun s s' hr c rest hw => tv_newline_declines hr hw) cfg.chain
        (fun id hid s o s' hms his hr => tv_runRule hq ht (fun e => ⟨e ▸ hid, hlt⟩)
          (fun mk csw e => hmk mk csw (e ▸ hid)) hms his hr) _ _ _ hm hi hh
      exact ⟨s1, fun ho hA => n1 ho hA.1⟩
    · next hge =>
      simp only [Except.ok.injEq, Prod.mk.injEq] at hh; obtain ⟨rfl, rfl⟩ := hh
      exact ⟨tv_stepOK_calm hi (Calm.refl _) rfl, fun _ hA => absurd hA.2 hge⟩
  unfold tokStep at h
  simp only at h
  split at h
  · simp at h
  · next len st1 hr =>
    simp only [Except.ok.injEq] at h; subst h
    obtain ⟨s1, _⟩ := hok _ _ hr
    refine ⟨s1.src, s1.srcmap, s1.level, s1.posMax, ?_⟩
    have := s1.ri
    simp only [Option.getD_some] at this
    unfold tv_RInv; simp only; rw [s1.src, s1.srcmap]; exact this
  · next st1 hr =>
    obtain ⟨s1, n1⟩ := hok _ _ hr
    have hi1 : tv_RInv (tv_NlAct cfg st.level) lo st1 := by
      have := s1.ri
      simp only [Option.getD_none, Nat.add_zero] at this
      unfold tv_RInv; rw [s1.src, s1.srcmap]; exact this
    have hm1 : MapT st1.src st1.srcmap := by rw [s1.src, s1.srcmap]; exact hm
    split at h
    · simp at h
    · next ch hch =>
      split at h
      · simp at h
      · next st2 hp =>
        simp only [Except.ok.injEq] at h; subst h
        have hp' := liftR_ok.mp hp
        -- the newline rule declined: the character is not a line feed
        have hnl : tv_NlAct cfg st.level → ch ≠ '\n' := by
          intro hA
          have hch' := hch
          unfold firstChar at hch'
          split at hch'
          · simp at hch'
          · simp at hch'
          · next c rest hw =>
            simp only [Except.ok.injEq] at hch'; subst hch'
            have hw1 : st1.window = .ok (c :: rest) := liftR_ok.mp hw
            have hw0 : st.window = .ok (c :: rest) := by
              rw [← hw1]; unfold IState.window; rw [s1.src, s1.pos rfl, s1.posMax]
            exact n1 rfl hA c rest hw0
        have := tv_fallback hm1 hi1 hch hnl hp'
        obtain ⟨cs, _, rfl⟩ := pushText_eq hp'
        refine ⟨s1.src, s1.srcmap, s1.level, s1.posMax, ?_⟩
        unfold tv_RInv
        exact this

/-- **the frame invariant `RIv` through the whole tokenizer** (partial correctness, any fuel) -/
theorem tv_induction (cfg : Cfg) (hmk : SolidMarkers cfg.chain) : ∀ fuel : Nat,
    ∀ (e lo : Nat) (st st' : IState), MapT st.src st.srcmap → tokLoop cfg fuel e st = .ok st' →
      tv_RInv (tv_NlAct cfg st.level) lo st →
      st'.src = st.src ∧ st'.srcmap = st.srcmap ∧ st'.level = st.level ∧
        tv_RInv (tv_NlAct cfg st.level) lo st' := by
  intro fuel
  induction fuel with
  | zero =>
    intro e lo st st' hm h hi
    unfold tokLoop at h
    split at h
    · simp at h
    · simp only [Except.ok.injEq] at h; subst h; exact ⟨rfl, rfl, rfl, hi⟩
  | succ f ih =>
    intro e lo st st' hm h hi
    unfold tokLoop at h
    split at h
    · simp only at h
      split at h
      · simp at h
      · next st1 hstep =>
        have ht : tv_RangesFn cfg (fun s => tokLoop cfg f s.posMax s) :=
          fun lo s s' hms hr his => ih _ lo s s' hms hr his
        obtain ⟨a, b, c, _, d⟩ := tv_tokStep (skipToken_calm cfg f) ht hmk hm hi hstep
        have hm1 : MapT st1.src st1.srcmap := by rw [a, b]; exact hm
        obtain ⟨a', b', c', d'⟩ := ih e lo st1 st' hm1 h (by rw [c]; exact d)
        exact ⟨a'.trans a, b'.trans b, c'.trans c, by rw [c] at d'; exact d'⟩
    · simp only [Except.ok.injEq] at h; subst h; exact ⟨rfl, rfl, rfl, hi⟩

theorem tv_rangesFn (cfg : Cfg) (hmk : SolidMarkers cfg.chain) (f : Nat) :
    tv_RangesFn cfg (fun s => tokLoop cfg f s.posMax s) :=
  fun lo s s' hms hr his => tv_induction cfg hmk f _ lo s s' hms hr his

/-! ## where the loop stops (`Inline.c05x_*` for `MapT`) -/

theorem tv_firstRule_end {A : Prop} {run : RuleId → IState → RuleRes} {lo : Nat}
    (hend : ∀ id s o s', s.pos < s.posMax → WFMap s.srcmap → EntStop s.src s.posMax →
      run id s = .ok (o, s') → C05xStep s o s') :
    ∀ (rules : List RuleId),
      (∀ id, id ∈ rules → ∀ s o s', MapT s.src s.srcmap → tv_RInv A lo s → run id s = .ok (o, s') →
        tv_StepOK A lo s o s') →
      ∀ (st : IState) (o : Option Nat) (st' : IState),
        MapT st.src st.srcmap → tv_RInv A lo st → st.pos < st.posMax → EntStop st.src st.posMax →
        firstRule run rules st = .ok (o, st') → C05xStep st o st' := by
  intro rules
  induction rules with
  | nil =>
    intro _ st o st' _ _ _ _ h
    simp only [firstRule, Except.ok.injEq, Prod.mk.injEq] at h; obtain ⟨rfl, rfl⟩ := h
    exact ⟨rfl, by intro len hl; simp at hl⟩
  | cons r rs ih =>
    intro hrun st o st' hm hi hlt hstop h
    unfold firstRule at h
    split at h
    · simp at h
    · next n st1 hr =>
      simp only [Except.ok.injEq, Prod.mk.injEq] at h; obtain ⟨rfl, rfl⟩ := h
      exact hend _ _ _ _ hlt hm.wf hstop hr
    · next st1 hr =>
      have s1 := hrun r (by simp) _ _ _ hm hi hr
      have x1 := hend _ _ _ _ hlt hm.wf hstop hr
      have hi1 : tv_RInv A lo st1 := by
        have := s1.ri
        simp only [Option.getD_none, Nat.add_zero] at this
        unfold tv_RInv; rw [s1.src, s1.srcmap]; exact this
      have hm1 : MapT st1.src st1.srcmap := by rw [s1.src, s1.srcmap]; exact hm
      have hlt1 : st1.pos < st1.posMax := by rw [s1.pos rfl, x1.posMax]; exact hlt
      have hstop1 : EntStop st1.src st1.posMax := by rw [s1.src, x1.posMax]; exact hstop
      have x2 := ih (fun id hid => hrun id (List.mem_cons_of_mem _ hid)) st1 o st' hm1 hi1 hlt1
        hstop1 h
      exact ⟨x2.posMax.trans x1.posMax, by intro len hl; rw [← x1.posMax]; exact x2.fin len hl⟩

/-- one iteration entered with `pos < posMax` leaves the cursor inside the window -/
theorem tv_tokStep_end {cfg : Cfg} {skip tok : IState → Except Panic IState} (hq : CalmFn skip)
    (ht : tv_RangesFn cfg tok) (hmk : SolidMarkers cfg.chain) {fuel : Nat} {lo : Nat}
    {st st' : IState} (hm : MapT st.src st.srcmap) (hi : tv_RInv (tv_NlAct cfg st.level) lo st)
    (hlt : st.pos < st.posMax) (hstop : EntStop st.src st.posMax)
    (h : tokStep cfg skip tok fuel st = .ok st') : st'.pos ≤ st.posMax := by
  have hok : ∀ o st1, (if st.level < cfg.maxNesting then
        firstRule (fun id s => runRule cfg skip tok fuel id s false) cfg.chain st
      else .ok (none, st)) = .ok (o, st1) → C05xStep st o st1 := by
    intro o st1 hh
    split at hh
    · next hl =>
      exact tv_firstRule_end (A := tv_NlAct cfg st.level) (lo := lo)
        (run := fun id s => runRule cfg skip tok fuel id s false)
        (fun id s o s' hl hw hs hr => c05x_runRule_end hq hl hw hs hr) cfg.chain
        (fun id hid s o s' hms his hr => tv_runRule hq ht (fun e => ⟨e ▸ hid, hl⟩)
          (fun mk csw e => hmk mk csw (e ▸ hid)) hms his hr) _ _ _ hm hi hlt hstop hh
    · simp only [Except.ok.injEq, Prod.mk.injEq] at hh; obtain ⟨rfl, rfl⟩ := hh
      exact ⟨rfl, by intro len hl; simp at hl⟩
  unfold tokStep at h
  simp only at h
  split at h
  · simp at h
  · next len st1 hr =>
    simp only [Except.ok.injEq] at h; subst h
    exact (hok _ _ hr).fin len rfl
  · next st1 hr =>
    have x1 := hok _ _ hr
    split at h
    · simp at h
    · next ch hch =>
      split at h
      · simp at h
      · next st2 hp =>
        simp only [Except.ok.injEq] at h; subst h
        obtain ⟨cs, _, rfl⟩ := pushText_eq (liftR_ok.mp hp)
        -- the first character of the window lies inside the window
        unfold firstChar at hch
        split at hch
        · simp at hch
        · simp at hch
        · next c rest hw =>
          simp only [Except.ok.injEq] at hch; subst hch
          obtain ⟨_, _, hl⟩ := slice_boundaries (window_eq (liftR_ok.mp hw))
          simp only [byteLen] at hl
          rw [← x1.posMax]
          show st1.pos + c.utf8Size ≤ st1.posMax
          omega

/-- **the loop of one frame** (`Inline.c05x_tokLoop_end` for `MapT`) -/
theorem tv_tokLoop_end (cfg : Cfg) (hmk : SolidMarkers cfg.chain) : ∀ fuel : Nat,
    ∀ (e lo : Nat) (st st' : IState), MapT st.src st.srcmap →
      tv_RInv (tv_NlAct cfg st.level) lo st → e ≤ st.posMax →
      st.pos ≤ st.posMax → EntStop st.src st.posMax → tokLoop cfg fuel e st = .ok st' →
      st'.pos ≤ st.posMax ∧ st'.posMax = st.posMax ∧ st'.src = st.src ∧ st'.srcmap = st.srcmap ∧
        tv_RInv (tv_NlAct cfg st.level) lo st' := by
  intro fuel
  induction fuel with
  | zero =>
    intro e lo st st' hm hi he hle hstop h
    unfold tokLoop at h
    split at h
    · simp at h
    · simp only [Except.ok.injEq] at h; subst h; exact ⟨hle, rfl, rfl, rfl, hi⟩
  | succ f ih =>
    intro e lo st st' hm hi he hle hstop h
    unfold tokLoop at h
    split at h
    · next hlt =>
      simp only at h
      split at h
      · simp at h
      · next st1 hstep =>
        have ht := tv_rangesFn cfg hmk f
        obtain ⟨a, b, c, p1, d⟩ := tv_tokStep (skipToken_calm cfg f) ht hmk hm hi hstep
        have p2 := tv_tokStep_end (skipToken_calm cfg f) ht hmk hm hi (by omega) hstop hstep
        have hm1 : MapT st1.src st1.srcmap := by rw [a, b]; exact hm
        obtain ⟨q1, q2, q3, q4, q5⟩ := ih e lo st1 st' hm1 (by rw [c]; exact d)
          (by rw [p1]; exact he) (by rw [p1]; exact p2) (by rw [a, p1]; exact hstop) h
        exact ⟨by rw [← p1]; exact q1, q2.trans p1, q3.trans a, q4.trans b, by rw [c] at q5; exact q5⟩
    · simp only [Except.ok.injEq] at h; subst h; exact ⟨hle, rfl, rfl, rfl, hi⟩

/-! ## the theorems -/

/-- **`parseInline` under `MapT`: the cursor stops exactly at `pos_max`, and the children are
    ordered inside the translated trimmed window** (`Inline.parseInline_ranges_exact` for tables
    with virtual-space entries) -/
theorem tv_parseInline_ranges_exact (cfg : Cfg) {content : List Char} {mapping : Srcmap}
    (hm : MapT content mapping) (hmk : SolidMarkers cfg.chain) {cs : List Node}
    (h : parseInline cfg content mapping = .ok cs) :
    (trimSrc content).1 ≤ (trimSrc content).2 ∧
    ∃ lo hi, getSourcePosFor mapping (trimSrc content).1 = .ok lo ∧
      getSourcePosFor mapping (trimSrc content).2 = .ok hi ∧
      OrderedN lo hi cs ∧ WellRangedList cs := by
  unfold parseInline at h
  split at h
  · simp at h
  · next st hst0 =>
    have hst := hst0
    unfold tokenize at hst
    simp only [Except.ok.injEq] at h; subst h
    obtain ⟨lo, hlo⟩ := C05.translate_total mapping hm.wf (trimSrc content).1
    -- `pos ≤ posMax` and `EntStop` of the initial state do not depend on the table
    obtain ⟨_, _, hg⟩ := init_good (C05R.em_ctx_id content).map
    have hle : (trimSrc content).1 ≤ (trimSrc content).2 := hg.le
    have hstop : EntStop content (trimSrc content).2 := hg.stop
    have hinit : tv_RInv (tv_NlAct cfg (IState.init content mapping).level) lo
        (IState.init content mapping) :=
      ⟨⟨⟨lo, hlo, Nat.le_refl _⟩, trivial, markersOK_nil,
          by intro init last hcs; simp [IState.init] at hcs⟩,
        by intro _ init last hcs; simp [IState.init] at hcs⟩
    obtain ⟨q1, _, _, q4, hri⟩ := tv_tokLoop_end cfg hmk _ _ lo _ _ hm hinit (Nat.le_refl _)
      hle hstop hst
    have q0 := c05x_tokLoop_exit cfg _ _ _ _ hst
    have epos : st.pos = (trimSrc content).2 := Nat.le_antisymm q1 q0
    obtain ⟨hi, hhi, hord⟩ := hri.ri.ord
    have e1 : st.srcmap = mapping := q4
    rw [e1, epos] at hhi
    exact ⟨hle, lo, hi, hlo, hhi, hord, hri.ri.deep⟩

/-- the children `parseInline` returns lie inside every interval that contains the translated
    trimmed window -/
theorem tv_parseInline_within (cfg : Cfg) {content : List Char} {mapping : Srcmap}
    (hm : MapT content mapping) (hmk : SolidMarkers cfg.chain) {A B : Nat}
    (hAB : ∀ pos x, (trimSrc content).1 ≤ pos → pos ≤ (trimSrc content).2 →
      getSourcePosFor mapping pos = .ok x → A ≤ x ∧ x ≤ B)
    {cs : List Node} (h : parseInline cfg content mapping = .ok cs) :
    OrderedN A B cs ∧ WellRangedList cs := by
  obtain ⟨hle, lo, hi, h1, h2, h5, h6⟩ := tv_parseInline_ranges_exact cfg hm hmk h
  exact ⟨h5.widen (hAB _ _ (Nat.le_refl _) hle h1).1 (hAB _ _ hle (Nat.le_refl _) h2).2, h6⟩

/-- **the deliverable**: `Inline.pinl_of_mapOK` for tables that are only `MapT` -/
theorem pinl_of_mapT (cfg : Inline.Cfg) {c : List Char} {m : Srcmap} (hm : MapT c m)
    (hmk : SolidMarkers cfg.chain) {A B : Nat}
    (hAB : ∀ pos x, (Inline.trimSrc c).1 ≤ pos → pos ≤ (Inline.trimSrc c).2 →
      getSourcePosFor m pos = .ok x → A ≤ x ∧ x ≤ B) :
    MdIt.Pipeline.PInl cfg c m A B :=
  fun _ h => tv_parseInline_within cfg hm hmk hAB h

/-- the same for the output of `finish` (`Inline.parseFinish_within` for `MapT`) -/
theorem tv_parseFinish_within (cfg : Cfg) {content : List Char} {mapping : Srcmap}
    (hm : MapT content mapping) (hmk : SolidMarkers cfg.chain) {A B : Nat}
    (hAB : ∀ pos x, (trimSrc content).1 ≤ pos → pos ≤ (trimSrc content).2 →
      getSourcePosFor mapping pos = .ok x → A ≤ x ∧ x ≤ B)
    {cs : List Node} (h : parseFinish cfg content mapping = .ok cs) :
    OrderedN A B cs ∧ WellRangedList cs := by
  unfold parseFinish at h
  split at h
  · simp at h
  · next cs0 hp =>
    simp only [Except.ok.injEq] at h; subst h
    have h0 := tv_parseInline_within cfg hm hmk hAB hp
    unfold finish
    split
    · exact od_finish_join h0
    · exact h0

end MdIt.C05T
