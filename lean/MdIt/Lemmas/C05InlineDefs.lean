/-
  C05, inline half: shared definitions (interfaces between the block invariant, the inline range
  theorems and the transport through the splice / join / sourcepos passes).
-/
import MdIt.Props.C05Doc

namespace MdIt.Pipeline

/-- C05 at one node, geometry only: a valid range inside the source, the children inside it in
    source order without overlap (`NodeOk` of Props/C05Doc.lean without the character-boundary and
    the text-faithfulness clauses) -/
def NodeOrd (src : List Char) (n : Node) : Prop :=
  ∃ a b, n.range = some (a, b) ∧ a ≤ b ∧ b ≤ Lines.byteLen src ∧ OrderedD a b n.children

/-- the claim about an `InlineRoot` placeholder the splice walk consumes: whatever the inline parser
    returns for it is a list of well-ranged nodes, in order, inside the stretch `[a, b]` -/
def PInl (icfg : Inline.Cfg) : Block.InlP := fun c m a b =>
  ∀ ns, Inline.parseInline icfg c m = .ok ns → Inline.OrderedN a b ns ∧ Inline.WellRangedList ns

end MdIt.Pipeline
