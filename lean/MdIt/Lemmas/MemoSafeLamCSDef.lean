/-
  Helper development for `Props/MemoSafe.lean`, fourth part (code spans with runs of backticks): shared
  definitions, in the namespace `MdIt.Inline.CS` — the copies `MemoSafeLamCSTop.lean` /
  `MemoSafeLamCSNest.lean` of the top-frame / nested-frame developments re-use the names of the
  originals inside this namespace.

  What is added to the invariants of the second part (all conditional on the code-span rule being in the
  chain), each validated by brute force (checks K1, K2 of `/verif/work/w9-memo/Brute.lean`):
    * `IFP s`  — a state whose position is strictly inside a backtick run (`Interior`) has its position
                 in `inside_failed`;
    * `MK s`   — every unit memo entry `p ↦ p+1` whose end is strictly inside a backtick run has `p+1` in
                 the CURRENT `inside_failed`;
    * the witness of a memo entry (`Just`) additionally knows `IFP` of its state;
    * `BackOK` has the premise that the `pos_max` of the call does not cut a backtick run (`NoCut`), so
      that run-complete marks (`InsideFull`) can be part of the cache invariant.
  With `IFP` of the witness state and of the nested real state, `back_L2` applies at every position:
  strictly inside a run both `inside_failed` contain it, elsewhere neither does
  (`inside_agree_of_not_interior`).
  The text hypothesis: `NoEscTickTick` — no backslash-backtick-backtick — makes the unit step at a backtick
  the ONLY token that ends strictly inside a run (`EndHyp`).
-/
import MdIt.Lemmas.MemoSafeLamFinal
import MdIt.Lemmas.MemoSafeLamBack2

namespace MdIt.Inline.CS
open MdIt.Inline
open MdIt.InlineOps (Srcmap getSourcePosFor getMap byteLen slice)

/-- `p` is strictly inside a backtick run: a backtick before it and a backtick at it -/
def Interior (src : List Char) (p : Nat) : Prop :=
  0 < p ∧ CodePair.charAt src (p - 1) = some '`' ∧ CodePair.charAt src p = some '`'

/-- a state at a position strictly inside a backtick run has the position in `inside_failed` -/
def IFP (s : IState) : Prop :=
  Interior s.src s.pos → s.backticks.insideFailed.contains s.pos = true

/-- every unit memo entry whose end is strictly inside a backtick run is marked in the current cache -/
def MK (s : IState) : Prop :=
  ∀ p, (p, p + 1) ∈ s.cache → Interior s.src (p + 1) → s.backticks.insideFailed.contains (p + 1) = true

/-- `inside_failed` only grows -/
def InsideSub (c c' : CodePair.Cache) : Prop :=
  ∀ q, c.insideFailed.contains q = true → c'.insideFailed.contains q = true

theorem InsideSub.refl (c : CodePair.Cache) : InsideSub c c := fun _ h => h
theorem InsideSub.trans {a b c : CodePair.Cache} (h1 : InsideSub a b) (h2 : InsideSub b c) :
    InsideSub a c := fun q h => h2 q (h1 q h)

/-- `MK` survives a step that leaves text and memo alone and only grows `inside_failed` -/
theorem MK.of_sub {s s' : IState} (h : MK s) (hsrc : s'.src = s.src) (hc : s'.cache = s.cache)
    (hsub : InsideSub s.backticks s'.backticks) : MK s' := by
  intro p hp hi
  rw [hc] at hp
  rw [hsrc] at hi
  exact hsub _ (h p hp hi)

/-- no backslash-backtick-backtick in the text -/
def NoEscTickTick (src : List Char) : Prop := ¬ ['\\', '`', '`'] <:+: src

instance (src : List Char) : Decidable (NoEscTickTick src) := by unfold NoEscTickTick; infer_instance

/-- the code-span cache invariant used for `B`: the closer table is sound, `inside_failed` holds only
    positions strictly inside runs, and marks are run-complete -/
def BC (src : List Char) (c : CodePair.Cache) : Prop := BInv src c ∧ InsideFull src c

theorem BC.empty (src : List Char) : BC src CodePair.Cache.empty := ⟨BInv.empty src, InsideFull.empty src⟩

/-- `B` is preserved by the code-span rule at states whose `pos_max` does not cut a backtick run -/
def BackOK (B : List Char → CodePair.Cache → Prop) : Prop :=
  ∀ (st : IState) (silent : Bool) (o : Option Nat) (st' : IState),
    ruleBackticks st silent = .ok (o, st') → CodePair.NoCut '`' st.src st.posMax →
    B st.src st.backticks → B st'.src st'.backticks

theorem backOK_BC : BackOK BC := by
  intro st silent o st' h hnc hb
  exact ⟨backOK_BInv st silent o st' h hb.1, insideFull_ruleBackticks h hnc hb.2⟩

/-- the code-span rule only grows `inside_failed` -/
theorem insideSub_ruleBackticks {st st' : IState} {silent : Bool} {o : Option Nat}
    (h : ruleBackticks st silent = .ok (o, st')) : InsideSub st.backticks st'.backticks := by
  intro q hq
  have := ruleBackticks_inside_mono h q (by simpa using hq)
  simpa using this

/-- **the only token that ends strictly inside a backtick run is the unit step at a backtick**
    (statement; proved in `Lemmas/MemoSafeLamCSEnd.lean` for texts with `NoEscTickTick` and a top
    `pos_max` that does not cut a run) -/
def EndHyp (cfg : Cfg) (B : List Char → CodePair.Cache → Prop) (src : List Char) (Mtop : Nat) : Prop :=
  ∀ m p k, Inline.Just cfg B src Mtop m p k → Interior src k → k = p + 1

/-! ## the witness of a memo entry, with `IFP` of its state -/

/-- `Inline.Just` plus: the witness state satisfies `IFP` (when the code-span rule is in the chain) -/
def Just (cfg : Cfg) (B : List Char → CodePair.Cache → Prop) (src : List Char) (Mtop : Nat)
    (m : List (Nat × Nat)) (k v : Nat) : Prop :=
  ∃ (skip0 tok0 : IState → Except Panic IState) (f0 : Nat) (st0 st0' : IState),
    CalmFn skip0 ∧ SkipHypT skip0 ∧ SkipGrowHyp skip0 ∧
    LInv st0 ∧ st0.src = src ∧ st0.posMax = Mtop ∧ st0.pos = k ∧ st0.pos < st0.posMax ∧
    B st0.src st0.backticks ∧ st0.cache.lookup k = none ∧
    skipStep cfg skip0 tok0 f0 st0 = .ok st0' ∧ st0'.pos = v ∧ LookupMono st0'.cache m ∧
    (RuleId.backticks ∈ cfg.chain → IFP st0)

theorem Just.toJust {cfg : Cfg} {B : List Char → CodePair.Cache → Prop} {src : List Char} {Mtop : Nat}
    {m : List (Nat × Nat)} {k v : Nat} (h : Just cfg B src Mtop m k v) :
    Inline.Just cfg B src Mtop m k v := by
  obtain ⟨skip0, tok0, f0, st0, st0', a1, a2, a3, a4, a5, a6, a7, a8, a9, a10, a11, a12, a13, _⟩ := h
  exact ⟨skip0, tok0, f0, st0, st0', a1, a2, a3, a4, a5, a6, a7, a8, a9, a10, a11, a12, a13⟩

theorem Just.mono {cfg : Cfg} {B : List Char → CodePair.Cache → Prop} {src : List Char} {Mtop : Nat}
    {m m' : List (Nat × Nat)} {k v : Nat} (h : Just cfg B src Mtop m k v) (hm : LookupMono m m') :
    Just cfg B src Mtop m' k v := by
  obtain ⟨skip0, tok0, f0, st0, st0', a1, a2, a3, a4, a5, a6, a7, a8, a9, a10, a11, a12, a13, a14⟩ := h
  exact ⟨skip0, tok0, f0, st0, st0', a1, a2, a3, a4, a5, a6, a7, a8, a9, a10, a11, a12, a13.trans hm, a14⟩

/-- every memo entry is an over-limit entry (`v = Mtop`) or has its witness -/
def JustAll (cfg : Cfg) (B : List Char → CodePair.Cache → Prop) (src : List Char) (Mtop : Nat)
    (m : List (Nat × Nat)) : Prop :=
  ∀ k v, (k, v) ∈ m → v = Mtop ∨ Just cfg B src Mtop m k v

theorem JustAll.toJustAll {cfg : Cfg} {B : List Char → CodePair.Cache → Prop} {src : List Char}
    {Mtop : Nat} {m : List (Nat × Nat)} (h : JustAll cfg B src Mtop m) :
    Inline.JustAll cfg B src Mtop m :=
  fun k v hkv => (h k v hkv).imp id Just.toJust

theorem JustAll.nil (cfg : Cfg) (B : List Char → CodePair.Cache → Prop) (src : List Char) (Mtop : Nat) :
    JustAll cfg B src Mtop [] := by
  intro k v h; simp at h

theorem JustAll.grow {cfg : Cfg} {B : List Char → CodePair.Cache → Prop} {src : List Char} {Mtop : Nat}
    {m m' : List (Nat × Nat)} (h : JustAll cfg B src Mtop m) (hm : LookupMono m m')
    (hnew : ∀ k v, (k, v) ∈ m' → (k, v) ∈ m ∨ v = Mtop ∨ Just cfg B src Mtop m' k v) :
    JustAll cfg B src Mtop m' := by
  intro k v hkv
  rcases hnew k v hkv with h1 | h1 | h1
  · rcases h k v h1 with h2 | h2
    · exact .inl h2
    · exact .inr (h2.mono hm)
  · exact .inl h1
  · exact .inr h1

/-- the invariant of the states of the TOP frame: `Inline.TopInv` with the new witnesses, `MK`, and a top
    `pos_max` that does not cut a backtick run -/
structure TopInv (cfg : Cfg) (B : List Char → CodePair.Cache → Prop) (src : List Char) (Mtop : Nat)
    (s : IState) : Prop where
  hsrc : s.src = src
  hmax : s.posMax = Mtop
  back : B s.src s.backticks
  le : ∀ k v, (k, v) ∈ s.cache → v ≤ Mtop
  just : JustAll cfg B src Mtop s.cache
  nocut : CodePair.NoCut '`' src Mtop
  hmk : RuleId.backticks ∈ cfg.chain → MK s

theorem TopInv.closed {cfg : Cfg} {B : List Char → CodePair.Cache → Prop} {src : List Char} {Mtop : Nat}
    {s : IState} (h : TopInv cfg B src Mtop s) : Closed s.cache 0 s.posMax := by
  intro k v hkv _ _
  rw [h.hmax]; exact h.le k v hkv

/-- **`IFP` of the state a `skip_token` call returns**, from the entry it followed or made: the end of
    an entry strictly inside a run is the end of a unit step (`EndHyp`), which is marked (`MK`); the top
    `pos_max` itself is not strictly inside a run -/
theorem ifp_of_entry {cfg : Cfg} {B : List Char → CodePair.Cache → Prop} {src : List Char} {Mtop : Nat}
    (hend : EndHyp cfg B src Mtop) {s' : IState} (ht : TopInv cfg B src Mtop s')
    (hbt : RuleId.backticks ∈ cfg.chain) {p : Nat} (hp : (p, s'.pos) ∈ s'.cache) : IFP s' := by
  intro hi
  rw [ht.hsrc] at hi
  rcases ht.just p s'.pos hp with hv | hj
  · exact absurd (show Interior src Mtop by rw [← hv]; exact hi) ht.nocut
  · have hk := hend _ _ _ hj.toJust hi
    rw [hk] at hp
    have := ht.hmk hbt p hp (by rw [ht.hsrc, ← hk]; exact hi)
    rw [hk]; exact this

/-- behind a `[` no position is strictly inside a backtick run -/
theorem not_interior_after_bracket {src : List Char} {p M : Nat} {r : List Char}
    (h : slice src p M = .ok ('[' :: r)) : ¬ Interior src (p + 1) := by
  rintro ⟨_, h1, _⟩
  have hc : CodePair.charAt src p = some '[' := by
    have := charAt_next (u := []) (b := '[') (v := r) (a := p) (q := M) (by simpa using h)
    simpa [byteLen] using this
  rw [Nat.add_sub_cancel, hc] at h1
  cases h1

/-- **the look-ahead step that makes a unit entry at a backtick inside a run marks its end** (statement;
    proved in `Lemmas/MemoSafeLamCSEnd.lean` for `B := BC`) -/
def MarksHyp (cfg : Cfg) (B : List Char → CodePair.Cache → Prop) : Prop :=
  ∀ (skip tok : IState → Except Panic IState) (fuel : Nat) (st st' : IState),
    B st.src st.backticks → RuleId.backticks ∈ cfg.chain → Interior st.src (st.pos + 1) →
    st.pos + 1 < st.posMax → skipStep cfg skip tok fuel st = .ok st' → st'.pos = st.pos + 1 →
    st'.backticks.insideFailed.contains (st.pos + 1) = true

/-- the code-span comparison WITH the agreement of the two `inside_failed` at the position
    (`back_L2_runRule` for `B := BC`) -/
def BackL2 (cfg : Cfg) (B : List Char → CodePair.Cache → Prop) (src : List Char) (Mtop : Nat) : Prop :=
  ∀ (skip tok skip' tok' : IState → Except Panic IState) (fuel fuel' : Nat) (st0 s : IState),
    WinHyp st0 s.posMax → st0.src = src → st0.posMax = Mtop → s.src = st0.src → s.pos = st0.pos →
    B st0.src st0.backticks → B s.src s.backticks →
    st0.backticks.insideFailed.contains st0.pos = s.backticks.insideFailed.contains s.pos →
    ∀ o0 st0' o s', runRule cfg skip tok fuel .backticks st0 true = .ok (o0, st0') →
      runRule cfg skip' tok' fuel' .backticks s false = .ok (o, s') →
      (o0 = none → o = none) ∧ (∀ n, o0 = some n → st0.pos + n ≤ s.posMax → o = some n)

/-- outside backtick runs the caches agree on `inside_failed` (`inside_agree_of_not_interior` for
    `B := BC`) -/
def AgreeHyp (B : List Char → CodePair.Cache → Prop) (src : List Char) : Prop :=
  ∀ (c d : CodePair.Cache) (pos : Nat), B src c → B src d → ¬ Interior src pos →
    c.insideFailed.contains pos = d.insideFailed.contains pos

end MdIt.Inline.CS
