/-
  C05 for ALL sources, text clause: the last character a successful code-span rule / link rule
  consumes.
    * `codeCloserOK` : the code span ends with a backtick (the last marker of the closing run);
    * `linkCloserOK` : a link / image ends with `)` (inline form) or `]` (reference forms).
  Both characters are "solid" (neither space nor line feed): a `Text` that starts with a space right
  behind such a node is anchored on the same line, hence does not start inside the virtual spaces
  of a split tab.
-/
import MdIt.Lemmas.C05TabsDefs3
import MdIt.Lemmas.InlineLinkEnd

namespace MdIt.C05T
open MdIt.Inline
open MdIt.InlineOps (byteLen slice)
open MdIt.C05 (byteLen_append slice_ok_iff)

/-! ## `CharAt` from slices -/

/-- the first character of a slice sits at the slice's start -/
theorem cl_charAt_of_slice {src : List Char} {p pm : Nat} {x : Char} {r : List Char}
    (h : slice src p pm = .ok (x :: r)) : CharAt src p x := by
  obtain ⟨pre, post, e, l1, _⟩ := (slice_ok_iff _ _ _ _).mp h
  exact ⟨pre, r ++ post, by simp [e], l1⟩

/-- the same for the slices of `MdIt.CodePair` -/
theorem cl_charAt_of_codeSlice {src : List Char} {p pm : Nat} {x : Char} {r : List Char}
    (h : CodePair.slice src p pm = some (x :: r)) : CharAt src p x :=
  cl_charAt_of_slice ((codeSlice_eq _ _ _ _).mp h)

/-- a character inside a slice: `src[a..b] = u ++ x :: v` puts `x` at `a + |u|` -/
theorem cl_charAt_in_codeSlice {src : List Char} {a b : Nat} {u v : List Char} {x : Char}
    (h : CodePair.slice src a b = some (u ++ x :: v)) : CharAt src (a + byteLen u) x := by
  obtain ⟨pre, post, e, l1, _⟩ := (slice_ok_iff _ _ _ _).mp ((codeSlice_eq _ _ _ _).mp h)
  exact ⟨pre ++ u, v ++ post, by simp [e], by rw [byteLen_append, l1]⟩

/-! ## the code span -/

/-- `find` located the marker: the slice splits at `off` right in front of a marker -/
theorem cl_findB_some {m : Char} {s : List Char} {off : Nat} (h : CodePair.findB m s = some off) :
    ∃ a r, s = a ++ m :: r ∧ byteLen a = off := by
  induction s generalizing off with
  | nil => simp [CodePair.findB] at h
  | cons c t ih =>
    unfold CodePair.findB at h
    split at h
    · next hc =>
      simp only [Option.some.injEq] at h; subst h; subst hc
      exact ⟨[], t, rfl, rfl⟩
    · cases hf : CodePair.findB m t with
      | none => simp [hf] at h
      | some o =>
        simp only [hf, Option.map_some, Option.some.injEq] at h
        obtain ⟨a, r, e, l⟩ := ih hf
        exact ⟨c :: a, r, by simp [e], by simp only [byteLen]; omega⟩

theorem cl_byteLen_replicate {m : Char} (hm : m.utf8Size = 1) (k : Nat) :
    byteLen (List.replicate k m) = k := by
  induction k with
  | zero => rfl
  | succ k ih => simp only [List.replicate_succ, byteLen, ih, hm]; omega

/-- the last marker of the closing run: the marker found at `ms` followed by `runLen m s'` further
    markers puts a marker at `ms + runLen m s'` -/
theorem cl_run_last {m : Char} (hm : m.utf8Size = 1) {src : List Char} {ms pm : Nat}
    {s' : List Char} (h0 : CharAt src ms m) (hs' : CodePair.slice src (ms + 1) pm = some s') :
    CharAt src (ms + CodePair.runLen m s') m := by
  cases hk : CodePair.runLen m s' with
  | zero => simpa using h0
  | succ k =>
    obtain ⟨t, ht, _⟩ := CodePair.runLen_split m s'
    rw [hk, List.replicate_succ', List.append_assoc] at ht
    rw [ht] at hs'
    have := cl_charAt_in_codeSlice (u := List.replicate k m) (x := m) (v := t) hs'
    rw [cl_byteLen_replicate hm] at this
    have e : ms + (k + 1) = ms + 1 + k := by omega
    rw [e]; exact this

/-- the loop of the code-span rule: on success the consumed stretch is not empty and its last
    byte is a marker -/
theorem cl_scan_closer (v : CodePair.Variant) (m : Char) (hm : m.utf8Size = 1) (src : List Char)
    (pos posMax n p : Nat) (silent : Bool) (matchEnd : Nat) (c : CodePair.Cache)
    (o : CodePair.Outcome) (c' : CodePair.Cache) (hpm : pos ≤ matchEnd)
    (h : CodePair.scan v m src pos posMax n p silent matchEnd c = .ok (some o, c')) :
    1 ≤ o.len ∧ CharAt src (pos + o.len - 1) m := by
  fun_induction CodePair.scan v m src pos posMax n p silent matchEnd c
  case case1 => simp at h
  case case2 => simp at h
  case case3 => simp at h
  case case4 => simp at h
  case case5 matchEnd c s hs off hf s' hs' hrun hge hsil =>
    simp only [Except.ok.injEq, Prod.mk.injEq, Option.some.injEq] at h
    obtain ⟨rfl, _⟩ := h
    obtain ⟨a, r, e, l⟩ := cl_findB_some hf
    rw [e] at hs
    have h0 := cl_charAt_in_codeSlice hs
    rw [l] at h0
    have h1 := cl_run_last hm h0 hs'
    refine ⟨by simp only; omega, ?_⟩
    have e2 : pos + (matchEnd + off + (1 + CodePair.runLen m s') - pos) - 1
        = matchEnd + off + CodePair.runLen m s' := by omega
    simp only [e2]; exact h1
  case case6 => simp at h
  case case7 matchEnd c s hs off hf s' hs' hrun hge hsil nd hmk =>
    simp only [Except.ok.injEq, Prod.mk.injEq, Option.some.injEq] at h
    obtain ⟨rfl, _⟩ := h
    obtain ⟨a, r, e, l⟩ := cl_findB_some hf
    rw [e] at hs
    have h0 := cl_charAt_in_codeSlice hs
    rw [l] at h0
    have h1 := cl_run_last hm h0 hs'
    refine ⟨by simp only; omega, ?_⟩
    have e2 : pos + (matchEnd + off + (1 + CodePair.runLen m s') - pos) - 1
        = matchEnd + off + CodePair.runLen m s' := by omega
    simp only [e2]; exact h1
  case case8 => simp at h
  case case9 ih => exact ih (by omega) h

/-- the rule of `MdIt.CodePair`: on success the consumed stretch ends with a marker -/
theorem cl_run_closer (v : CodePair.Variant) (m : Char) (hm : m.utf8Size = 1) (src : List Char)
    (pos posMax : Nat) (prev silent : Bool) (c : CodePair.Cache) (o : CodePair.Outcome)
    (c' : CodePair.Cache)
    (h : CodePair.run v m src pos posMax prev silent c = .ok (some o, c')) :
    1 ≤ o.len ∧ CharAt src (pos + o.len - 1) m := by
  unfold CodePair.run at h
  repeat' split at h
  all_goals first
    | exact cl_scan_closer _ _ hm _ _ _ _ _ _ _ _ _ _ (by omega) h
    | simp at h

/-- **the last character a successful code-span rule consumes is the closing backtick** -/
theorem codeCloserOK : CodeCloserOK := by
  intro st st' len h
  unfold ruleBackticks at h
  split at h
  · simp at h
  · simp at h
  · next o c hrun =>
    have hc := cl_run_closer _ _ (by decide) _ _ _ _ _ _ _ _ hrun
    split at h
    · simp only [Except.ok.injEq, Prod.mk.injEq, Option.some.injEq] at h
      rw [← h.1]; exact hc
    · split at h
      · simp at h
      · split at h
        · simp at h
        · simp only [Except.ok.injEq, Prod.mk.injEq, Option.some.injEq] at h
          rw [← h.1]; exact hc

/-! ## links and images -/

/-- the position `e` lies right behind the character `)` or `]` -/
def cl_Closed (src : List Char) (e : Nat) : Prop :=
  1 ≤ e ∧ ∃ x, CharAt src (e - 1) x ∧ (x = ')' ∨ x = ']')

theorem cl_after_bracket {src : List Char} {p pm : Nat} {r : List Char}
    (h : slice src p pm = .ok (']' :: r)) : cl_Closed src (p + 1) :=
  ⟨by omega, ']', by simpa using cl_charAt_of_slice h, Or.inr rfl⟩

theorem cl_parseLinkRef_end {cfg : Cfg} {skip : IState → Except Panic IState} (hq : CalmFn skip)
    {fuel : Nat} {st : IState} {ls le : Nat} {res : LinkRes} {st' : IState}
    (hle : ∃ r, slice st.src le st.posMax = .ok (']' :: r))
    (h : parseLinkRef cfg skip fuel st ls le = .ok (some res, st')) :
    cl_Closed st.src res.endPos := by
  obtain ⟨r0, hr0⟩ := hle
  unfold parseLinkRef at h
  split at h
  · simp at h
  · next w hw =>
    clear hw
    simp only at h
    split at h
    · simp at h
    · next ml pos st1 hsec =>
      have hpos : cl_Closed st.src pos := by
        split at hsec
        · split at hsec
          · simp at hsec
          · next x st2 hl =>
            split at hsec
            · simp at hsec
            · simp only [Except.ok.injEq, Prod.mk.injEq] at hsec
              rw [← hsec.2.1]
              obtain ⟨r, hr⟩ := parseLinkLabel_end hq hl
              exact cl_after_bracket hr
          · simp only [Except.ok.injEq, Prod.mk.injEq] at hsec
            rw [← hsec.2.1]; exact cl_after_bracket hr0
        · simp only [Except.ok.injEq, Prod.mk.injEq] at hsec
          rw [← hsec.2.1]; exact cl_after_bracket hr0
      split at h
      · simp at h
      · split at h
        · simp at h
        · split at h
          · simp at h
          · simp only [Except.ok.injEq, Prod.mk.injEq, Option.some.injEq] at h
            rw [← h.1]; exact hpos

/-- the inline form ends right behind its `)` -/
theorem cl_tail_end {dec : List Char → List Char} {src : List Char} {p max : Nat}
    {il : Link.InlineLink} (h : Link.parseInlineTail dec src p max = .ok (some il)) :
    cl_Closed src il.endPos := by
  unfold Link.parseInlineTail at h
  split at h
  · simp at h
  · split at h
    · simp only at h
      split at h
      · simp at h
      · split at h
        · simp at h
        · next href title pos hstage =>
          split at h
          · simp at h
          · next rest hs =>
            simp only [Except.ok.injEq, Option.some.injEq] at h; subst h
            simp only
            have hs' := (linkSlice_eq _ _ _ _).mp hs
            exact ⟨by omega, ')', by simpa using cl_charAt_of_slice hs', Or.inl rfl⟩
          · simp at h
    · simp at h

theorem cl_parseLink_end {cfg : Cfg} {skip : IState → Except Panic IState} (hq : CalmFn skip)
    {fuel : Nat} {st : IState} {pos : Nat} {en : Bool} {res : LinkRes} {st' : IState}
    (h : parseLink cfg skip fuel st pos en = .ok (some res, st')) :
    cl_Closed st.src res.endPos := by
  unfold parseLink at h
  split at h
  · simp at h
  · simp at h
  · next le st1 hl =>
    have q1 := parseLinkLabel_calm hq hl
    obtain ⟨r, hr⟩ := parseLinkLabel_end hq hl
    simp only at h
    split at h
    · simp at h
    · next il hil =>
      simp only [Except.ok.injEq, Prod.mk.injEq, Option.some.injEq] at h
      rw [← h.1]
      have := cl_tail_end hil
      rw [q1.src] at this; exact this
    · have := cl_parseLinkRef_end hq (by rw [q1.src, q1.posMax]; exact ⟨r, hr⟩) h
      rw [q1.src] at this; exact this

/-- the link rule in either mode: the position the tokenizer continues from lies right behind
    `)` or `]` -/
theorem cl_linkRule_closed {cfg : Cfg} {skip tok : IState → Except Panic IState} (hq : CalmFn skip)
    {fuel : Nat} {mk : List Nat → Option (List Char) → Val} {en : Bool} {offset : Nat} {st : IState}
    {silent : Bool} {len : Nat} {st' : IState}
    (h : linkRule cfg skip tok fuel mk en offset st silent = .ok (some len, st')) :
    cl_Closed st.src (st'.pos + len) := by
  unfold linkRule at h
  simp only at h
  split at h
  · simp at h
  · simp at h
  · next res st1 hpl =>
    have hb := cl_parseLink_end hq hpl
    split at h
    · split at h
      · simp at h
      · next hnu =>
        simp only [Except.ok.injEq, Prod.mk.injEq, Option.some.injEq] at h
        obtain ⟨rfl, rfl⟩ := h
        have : st1.pos + (res.endPos - st1.pos) = res.endPos := by omega
        rw [this]; exact hb
    · split at h
      · simp at h
      · next st3 _ =>
        split at h
        · simp at h
        · split at h
          · simp at h
          · split at h
            · simp at h
            · next hnu =>
              simp only [Except.ok.injEq, Prod.mk.injEq, Option.some.injEq] at h
              obtain ⟨rfl, rfl⟩ := h
              simp only at hnu ⊢
              have : st3.pos + (res.endPos - st3.pos) = res.endPos := by omega
              rw [this]; exact hb

/-- **the last character a successful link / image rule consumes is `)` or `]`** -/
theorem linkCloserOK : LinkCloserOK := by
  intro cfg skip tok fuel mk en offset st st' len hq h
  exact cl_linkRule_closed hq h

/-! ## non-vacuity: the hypotheses are satisfiable, the closers are where the theorems say -/

/-- `(st'.pos, len)` of a successful rule -/
def cl_verdict (r : RuleRes) : Option (Nat × Nat) :=
  match r with
  | .ok (some len, st') => some (st'.pos, len)
  | _ => none

/-- the configuration of `Props/Inline.lean` with the reference `[r]: u` -/
def cl_exCfg : Cfg := { exCfg 100 with refs := some [(['r'.toNat], ⟨['u'.toNat], none⟩)] }

def cl_exSt (src : List Char) (pos : Nat) : IState := { IState.init src [(0, 0)] with pos := pos }

def cl_link (src : List Char) (pos : Nat) : RuleRes :=
  linkRule cl_exCfg (fun s => skipToken cl_exCfg 50 s) (fun s => tokLoop cl_exCfg 50 s.posMax s) 50
    Val.link false 0 (cl_exSt src pos) false

-- a code span over a line feed with a double closer: 7 bytes from byte 1, the last one (byte 7) a
-- backtick; for links note `st'.pos` is where the nested run over the label stopped, not `st.pos`
example : cl_verdict (liftR (ruleBackticks (cl_exSt "x``a\n ``y".toList 1) false)) = some (1, 7) := by
  decide +kernel
example : CharAt "x``a\n ``y".toList (1 + 7 - 1) '`' := ⟨"x``a\n `".toList, ['y'], by decide, by decide⟩
-- the inline form ends with `)`
example : cl_verdict (cl_link "x[a](b)y".toList 1) = some (3, 4) := by decide +kernel
example : CharAt "x[a](b)y".toList (3 + 4 - 1) ')' := ⟨"x[a](b".toList, ['y'], by decide, by decide⟩
-- full, collapsed and shortcut reference end with `]`
example : cl_verdict (cl_link "x[a][r]y".toList 1) = some (3, 4) := by decide +kernel
example : cl_verdict (cl_link "x[r][]y".toList 1) = some (3, 3) := by decide +kernel
example : cl_verdict (cl_link "x[r]y".toList 1) = some (3, 1) := by decide +kernel
example : CharAt "x[r]y".toList (3 + 1 - 1) ']' := ⟨"x[r".toList, ['y'], by decide, by decide⟩
-- the calm hypothesis holds of the real `skip_token`
example : CalmFn (fun s => skipToken cl_exCfg 50 s) := skipToken_calm cl_exCfg 50

end MdIt.C05T
