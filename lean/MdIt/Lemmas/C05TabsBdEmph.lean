/-
  C05 for ALL sources, character boundaries: the emphasis-marker rule and the delimiter matching
  (`scan_and_match_delimiters`) keep the boundary invariant `BI` of Lemmas/C05TabsDefs2.lean, for
  ANY table (virtual-space entries of split tabs included).

  Template: Lemmas/C05RestEmph.lean (the same code for the richer invariant `FI` under `Ctx`).
  `BI` has only the cursor boundary and `BdL` at the children, so everything about `Adjd`,
  `StrictTop`, `TextLike` and the "last child ends at" clause is gone:
  (a) list lemmas about `BdL`, (b) `be_matchInner` (invariant `be_IShape`), (c) `be_matchOuter`
  (`be_MInv`), (d) `be_scanAndMatch`, (e) `be_ruleEmph` and the deliverable
  `bdEmphOK : BdEmphOK cfg src0`; at the end a worked instance (`be_ex_hyps`).

  Two differences to the template:
  * `0 < opener.remaining` on entering the inner loop is not available from the invariant (no
    `StrictTop`).  An opener token with `remaining = 0` goes into the SECOND alternative of
    `be_IShape` right away (`matchInner` returns at once, `matchOuter` does not replace it).
  * the table hypothesis enters at ONE place, the new leaf in `be_ruleEmph`: the run of markers in
    front of the cursor starts with a solid character (`mk ≠ ' '`, `mk ≠ '\n'`) and holds no line
    feed, so `PFthV.copy` lowers it to the document.
-/
import MdIt.Lemmas.C05TabsDefs2
import MdIt.Lemmas.C05TabsShift

namespace MdIt.C05T
open MdIt.Inline
open MdIt.InlineOps (Srcmap getSourcePosFor getMap byteLen slice)
open MdIt.C05R (Cut Bdy)

/-! ## (a) sibling lists -/

theorem be_bdL_append {src : List Char} {a b : List Node} (ha : BdL src a) (hb : BdL src b) :
    BdL src (a ++ b) := by
  rw [bdL_iff] at *
  intro n hn
  rcases List.mem_append.mp hn with h | h
  · exact ha n h
  · exact hb n h

theorem be_bdL_left {src : List Char} {a b : List Node} (h : BdL src (a ++ b)) : BdL src a := by
  rw [bdL_iff] at *
  exact fun n hn => h n (List.mem_append_left _ hn)

theorem be_bdL_right {src : List Char} {a b : List Node} (h : BdL src (a ++ b)) : BdL src b := by
  rw [bdL_iff] at *
  exact fun n hn => h n (List.mem_append_right _ hn)

theorem be_bdL_single {src : List Char} {n : Node} (h : BdN src n) : BdL src [n] := ⟨h, trivial⟩

theorem be_bdL_mem {src : List Char} {l : List Node} (h : BdL src l) {n : Node} (hn : n ∈ l) :
    BdN src n := (bdL_iff src l).mp h n hn

theorem be_bdN_wrap {src0 : List Char} {w : Wrap} {mk : Char} {a b : Nat} {cs : List Node}
    (ha : Bdy src0 a) (hb : Bdy src0 b) (hf : BdL src0 cs) :
    BdN src0 (Node.mk (.wrap w mk) (some (a, b)) cs) := by
  rw [BdN_eq]
  refine ⟨⟨a, b, rfl, ha, hb, ?_⟩, hf⟩
  intro mk' l rem o c ht; cases ht

theorem be_bdN_marker {src0 : List Char} {m : Marker} {a b : Nat} {cs : List Node}
    (hc : Cut src0 a b (List.replicate m.remaining m.marker)) (hu : m.marker.utf8Size = 1)
    (hf : BdL src0 cs) : BdN src0 (Node.mk m.toVal (some (a, b)) cs) := by
  rw [BdN_eq]
  refine ⟨⟨a, b, rfl, hc.bdy_left, hc.bdy_right, ?_⟩, hf⟩
  intro mk' l rem o c ht
  simp only [Marker.toVal, Val.emphMarker.injEq] at ht
  obtain ⟨rfl, _, rfl, _, _⟩ := ht
  exact ⟨hc, hu⟩

/-! ## (b) the inner loop -/

/-- the closer part of the matching state: its range `(s, eC)` selects exactly its remaining
    delimiters -/
def be_CloserOK (src0 : List Char) (eC s : Nat) (ms : MatchSt) : Prop :=
  ms.closerRange = some (s, eC) ∧
  Cut src0 s eC (List.replicate ms.closer.remaining ms.closer.marker) ∧
  ms.closer.marker.utf8Size = 1

/-- the shape of the children while the opener at index `pre.length` (range start `oS`) is being
    matched: the nodes before it, the opener token unless it has been used up — its VALUE still
    holds the old `remaining`, its range has been cut to the tracked `opener.remaining` — and what
    follows.  (An opener token that arrives with `remaining = 0` is part of `tail` in the second
    alternative.) -/
def be_IShape (src0 : List Char) (eC : Nat) (pre : List Node) (oS : Nat) (opener : Marker)
    (ms : MatchSt) : Prop :=
  ∃ oE s, be_CloserOK src0 eC s ms ∧
    Cut src0 oS oE (List.replicate opener.remaining opener.marker) ∧ opener.marker.utf8Size = 1 ∧
    ((0 < opener.remaining ∧ ∃ otok tail, otok.range = some (oS, oE) ∧
        BdL src0 otok.children ∧ ms.children = pre ++ [otok] ++ tail ∧ BdL src0 tail) ∨
     (opener.remaining = 0 ∧ ∃ tail, ms.children = pre ++ tail ∧ BdL src0 tail))

theorem be_matchInner {src0 : List Char} {eC : Nat} {fns : Nat → Option Wrap} {mk : Char} {room : Nat}
    {pre : List Node} {oS : Nat} :
    ∀ (fuel : Nat) (opener : Marker) (ms : MatchSt) (opener' : Marker) (ms' : MatchSt),
      matchInner fns mk room pre.length fuel opener ms = .ok (opener', ms') →
      be_IShape src0 eC pre oS opener ms → be_IShape src0 eC pre oS opener' ms' := by
  intro fuel
  induction fuel with
  | zero =>
    intro opener ms opener' ms' h hs
    simp only [matchInner, Except.ok.injEq, Prod.mk.injEq] at h
    obtain ⟨rfl, rfl⟩ := h; exact hs
  | succ fuel ih =>
    intro opener ms opener' ms' h hs
    unfold matchInner at h
    split at h
    · next hpos =>
      split at h
      · simp only [Except.ok.injEq, Prod.mk.injEq] at h
        obtain ⟨rfl, rfl⟩ := h; exact hs
      simp only at h
      split at h
      · simp only [Except.ok.injEq, Prod.mk.injEq] at h
        obtain ⟨rfl, rfl⟩ := h; exact hs
      · next ml w hpick =>
        obtain ⟨hml1, hml2⟩ := pickLen_le hpick
        obtain ⟨oE, s, ⟨hcr, hcc, hcu⟩, hoc, hou, hshape⟩ := hs
        rcases hshape with ⟨_, otok, tail, hor, hof, hch, hft⟩ | ⟨h0, _⟩
        · split at h
          · simp at h
          · split at h
            · simp at h
            · -- `head = pre ++ [otok]`, `tail` moves into the wrapper
              have hlen : pre.length + 1 = (pre ++ [otok]).length := by simp
              have htake : ms.children.take (pre.length + 1) = pre ++ [otok] := by
                rw [hch, hlen, List.take_left]
              have hdrop : ms.children.drop (pre.length + 1) = tail := by
                rw [hch, hlen, List.drop_left]
              rw [htake, hdrop, popLast_snoc, hcr] at h
              simp only [hor] at h
              split at h
              · simp at h
              · next otok' smp hcut =>
                split at hcut
                · simp at hcut
                · next hnu =>
                  simp only [Except.ok.injEq, Prod.mk.injEq] at hcut
                  obtain ⟨rfl, rfl⟩ := hcut
                  apply ih _ _ _ _ h
                  -- the state after one match
                  obtain ⟨hcE, _, cc2, _, _⟩ := C05R.em_cut_replicate_split hcu hcc
                    (show ml ≤ ms.closer.remaining by omega)
                  obtain ⟨hoE, _, _, oc3, _⟩ := C05R.em_cut_replicate_split hou hoc
                    (show ml ≤ opener.remaining by omega)
                  have hnew : BdN src0 (Node.mk (.wrap w mk) (some (oE - ml, s + ml)) tail) :=
                    be_bdN_wrap oc3.bdy_right cc2.bdy_left hft
                  refine ⟨oE - ml, s + ml, ⟨rfl, cc2, hcu⟩, oc3, hou, ?_⟩
                  by_cases hz : opener.remaining - ml = 0
                  · right
                    refine ⟨hz, [_], ?_, be_bdL_single hnew⟩
                    simp only [hz, if_true]
                  · left
                    refine ⟨by simp only; omega, Node.mk otok.val (some (oS, oE - ml)) otok.children,
                      [_], rfl, hof, ?_, be_bdL_single hnew⟩
                    simp only [hz, if_false]
        · omega
    · simp only [Except.ok.injEq, Prod.mk.injEq] at h
      obtain ⟨rfl, rfl⟩ := h; exact hs

/-! ## (c) the outer loop -/

/-- the invariant of the outer loop -/
def be_MInv (src0 : List Char) (eC : Nat) (ms : MatchSt) : Prop :=
  BdL src0 ms.children ∧ ∃ s, be_CloserOK src0 eC s ms

theorem be_matchOuter {src0 : List Char} {eC : Nat} {fns : Nat → Option Wrap} {mk : Char}
    (room minIdx : Nat) :
    ∀ (k : Nat) (ms ms' : MatchSt), matchOuter fns mk room minIdx k ms = .ok ms' →
      be_MInv src0 eC ms → be_MInv src0 eC ms' := by
  intro k
  induction k with
  | zero =>
    intro ms ms' h hm
    simp only [matchOuter, Except.ok.injEq] at h; subst h; exact hm
  | succ k ih =>
    intro ms ms' h hm
    unfold matchOuter at h
    simp only at h
    split at h
    · simp at h
    next nxt hnxt =>
    -- the depth bookkeeping does not touch what `be_MInv` / `be_IShape` talk about
    have hm' : be_MInv src0 eC { ms with innerDepth := max ms.innerDepth (wrapDepth nxt) } := hm
    split at h
    · simp at h
    · next tok htok =>
      split at h
      · exact ih _ _ h hm'
      · next opener hop =>
        obtain ⟨hfl, s, hcl⟩ := hm
        obtain ⟨hsplit, hlen⟩ := split_at_getElem? htok
        obtain ⟨pre, hpredef⟩ : ∃ pre, pre = ms.children.take (minIdx + k) := ⟨_, rfl⟩
        obtain ⟨tl, htldef⟩ : ∃ tl, tl = ms.children.drop (minIdx + k + 1) := ⟨_, rfl⟩
        rw [← hpredef] at hlen
        rw [← hpredef, ← htldef] at hsplit
        -- the three parts of the list
        have hf3 := hfl
        rw [hsplit] at hf3
        have hpre : BdL src0 pre := be_bdL_left (be_bdL_left hf3)
        have htlF : BdL src0 tl := be_bdL_right hf3
        have htokF : BdN src0 tok := be_bdL_mem hfl (List.mem_of_getElem? htok)
        have htokF' := htokF
        rw [BdN_eq] at htokF'
        obtain ⟨⟨oS, oE, hor, _, _, hmkc⟩, hof⟩ := htokF'
        obtain ⟨hou, hoc⟩ := hmkc opener.marker opener.length opener.remaining opener.open_
          opener.close (C05R.em_asMarker_val hop)
        -- the shape before the inner loop
        have hshape0 : be_IShape src0 eC pre oS opener
            { ms with innerDepth := max ms.innerDepth (wrapDepth nxt) } := by
          refine ⟨oE, s, hcl, hou, hoc, ?_⟩
          by_cases hz : opener.remaining = 0
          · right
            refine ⟨hz, [tok] ++ tl, ?_, be_bdL_append (be_bdL_single htokF) htlF⟩
            show ms.children = pre ++ ([tok] ++ tl)
            rw [hsplit]; simp
          · left
            exact ⟨by omega, tok, tl, hor, hof, hsplit, htlF⟩
        split at h
        · simp at h
        · next opener' ms1 hgo =>
          have hshape : be_IShape src0 eC pre oS opener' ms1 := by
            split at hgo
            · rw [← hlen] at hgo
              exact be_matchInner _ _ _ _ _ hgo hshape0
            · simp only [Except.ok.injEq, Prod.mk.injEq] at hgo
              obtain ⟨rfl, rfl⟩ := hgo; exact hshape0
          obtain ⟨oE', s', ⟨hcr', hcc', hcu'⟩, hou', hoc', hsh⟩ := hshape
          split at h
          · next hpos =>
            split at h
            · simp at h
            · next cs hrep =>
              apply ih _ _ h
              rcases hsh with ⟨_, otok', tail', hor', hof', hch', hft'⟩ | ⟨h0, _⟩
              · -- the opener token gets its new value
                unfold replaceAt at hrep
                rw [hch', ← hlen, getElem?_mid] at hrep
                simp only [Except.ok.injEq] at hrep
                rw [set_mid] at hrep
                subst hrep
                have hnewF : BdN src0 (Node.mk opener'.toVal otok'.range otok'.children) := by
                  rw [hor']; exact be_bdN_marker hou' hoc' hof'
                exact ⟨be_bdL_append (be_bdL_append hpre (be_bdL_single hnewF)) hft',
                  s', hcr', hcc', hcu'⟩
              · omega
          · next hpos =>
            apply ih _ _ h
            rcases hsh with ⟨hp, _⟩ | ⟨h0, tail', hch', hft'⟩
            · omega
            · exact ⟨by rw [hch']; exact be_bdL_append hpre hft', s', hcr', hcc', hcu'⟩

/-! ## (d) `scan_and_match_delimiters` -/

theorem be_scanAndMatch {src0 : List Char} {fns : Nat → Option Wrap} {mk : Char}
    {room : Nat} {cs out : List Node} {b b' : List (Char × List Nat)} (hi : BdL src0 cs)
    (h : scanAndMatch fns mk room cs b = .ok (out, b')) : BdL src0 out := by
  unfold scanAndMatch at h
  split at h
  · simp only [Except.ok.injEq, Prod.mk.injEq] at h; rw [← h.1]; exact hi
  · split at h
    · simp at h
    · next init closerTok hpop =>
      have hcs : cs = init ++ [closerTok] := by
        rcases popLast_spec cs with ⟨hp, _⟩ | ⟨i, l, hp, hl⟩
        · rw [hp] at hpop; simp at hpop
        · rw [hp] at hpop; simp only [Option.some.injEq, Prod.mk.injEq] at hpop
          rw [hl, hpop.1, hpop.2]
      subst hcs
      split at h
      · simp at h
      · next closer hcl =>
        have hcF : BdN src0 closerTok := be_bdL_mem hi (by simp)
        rw [BdN_eq] at hcF
        obtain ⟨⟨cS, cE, hcr, _, _, hmkc⟩, hcf⟩ := hcF
        obtain ⟨hcu, hcc⟩ := hmkc closer.marker closer.length closer.remaining closer.open_
          closer.close (C05R.em_asMarker_val hcl)
        simp only at h
        split at h
        · simp at h
        · split at h
          · simp at h
          · split at h
            · simp at h
            · next ms hms =>
              have hm0 : be_MInv src0 cE
                  { closer := closer, closerRange := closerTok.range, children := init,
                    newMin := init.length - 1 } :=
                ⟨be_bdL_left hi, cS, hcr, hcu, hcc⟩
              obtain ⟨hfl, s, hcr', hcu', hcc'⟩ := be_matchOuter _ _ _ _ _ hms hm0
              split at h
              · next hpos =>
                simp only [Except.ok.injEq, Prod.mk.injEq] at h; rw [← h.1]
                have hF : BdN src0 (Node.mk ms.closer.toVal ms.closerRange closerTok.children) := by
                  rw [hcr']; exact be_bdN_marker hcu' hcc' hcf
                exact be_bdL_append hfl (be_bdL_single hF)
              · next hpos =>
                simp only [Except.ok.injEq, Prod.mk.injEq] at h; rw [← h.1]
                exact hfl

/-! ## (e) the rule -/

theorem be_ruleEmph {cfg : Cfg} {src0 : List Char} {mk : Char} {csw : Bool} {st st' : IState}
    {o : Option Nat} (hmk : mk.utf8Size = 1) (hnl : mk ≠ '\n') (hsp : mk ≠ ' ')
    (hc : CtxV src0 st.src st.srcmap) (hf : BInv src0 st)
    (h : ruleEmph cfg mk csw st false = .ok (o, st')) :
    BI src0 st.src st.srcmap (st'.pos + o.getD 0) st'.children := by
  have hf' : BI src0 st.src st.srcmap st.pos st.children := hf
  unfold ruleEmph at h
  simp only [Bool.false_eq_true, if_false] at h
  split at h
  · simp at h
  · simp at h
  · next c w hw =>
    split at h
    · simp only [Except.ok.injEq, Prod.mk.injEq] at h; obtain ⟨rfl, rfl⟩ := h
      simpa using hf'
    · next hcm =>
      have hcm' : c = mk := Decidable.not_not.mp hcm
      subst hcm'
      split at h
      · simp at h
      · next scanned hsc =>
        obtain ⟨mk', rest, hsl, _, hlen⟩ := scanDelims_length hsc
        unfold IState.window at hw
        rw [hw] at hsl
        simp only [Except.ok.injEq, List.cons.injEq] at hsl
        obtain ⟨rfl, rfl⟩ := hsl
        have hcut : Cut st.src st.pos st.posMax (c :: w) :=
          (C05R.cut_iff_ops _ _ _ _).mp (liftOps_ok.mp hw)
        have hrun := C05R.em_runLen_cut hmk hcut
        rw [← hlen] at hrun
        split at h
        · simp at h
        · next r hr =>
          obtain ⟨rx, ry⟩ := r
          obtain ⟨e1, e2, _⟩ := getMap_eq hr
          -- the run starts with a solid character and holds no line feed: a copy of source bytes
          have hlen1 : scanned.length = (scanned.length - 1) + 1 := by omega
          have hrun' : Cut st.src st.pos (st.pos + scanned.length)
              (c :: List.replicate (scanned.length - 1) c) := by
            rw [← List.replicate_succ, ← hlen1]; exact hrun
          have hlow : Cut src0 rx ry (List.replicate scanned.length c) :=
            hc.fth.copy _ _ _ _ _ _ _ _ _ hrun' hsp hnl (C05R.em_not_mem_replicate hnl _)
              (Nat.le_refl _) (Nat.le_refl _) hrun e1 e2
          have hleaf : BdN src0 (Node.leaf (.emphMarker c scanned.length scanned.length
              scanned.canOpen scanned.canClose) (some (rx, ry))) :=
            be_bdN_marker (m := ⟨c, scanned.length, scanned.length, scanned.canOpen,
              scanned.canClose⟩) hlow hmk trivial
          have hpushed : BdL src0 (st.children ++ [Node.leaf (.emphMarker c scanned.length
              scanned.length scanned.canOpen scanned.canClose) (some (rx, ry))]) :=
            be_bdL_append hf'.deep (be_bdL_single hleaf)
          split at h
          · split at h
            · simp at h
            · next cs b hsm =>
              simp only [Except.ok.injEq, Prod.mk.injEq] at h; obtain ⟨rfl, rfl⟩ := h
              simp only [Option.getD_some, IState.push]
              exact ⟨hrun.bdy_right, be_scanAndMatch hpushed hsm⟩
          · simp only [Except.ok.injEq, Prod.mk.injEq] at h; obtain ⟨rfl, rfl⟩ := h
            simp only [Option.getD_some, IState.push]
            exact ⟨hrun.bdy_right, hpushed⟩

/-- **the contract of the emphasis-marker rule for any table** -/
theorem bdEmphOK (cfg : Inline.Cfg) (src0 : List Char) : BdEmphOK cfg src0 := by
  intro mk csw st st' o hmk hnl hsp hc hf h
  exact be_ruleEmph hmk hnl hsp hc hf h

/-! ## the contract is not vacuous -/

/-- a content that is its own document (identity table) -/
theorem be_ctx_id (c : List Char) : CtxV c c [(0, 0)] := by
  refine ⟨mapT_of_mapOK (C05R.em_ctx_id c).map, ?_, ?_, ?_⟩
  · intro p a hp ha
    rw [C05R.em_tr_id] at ha
    simp only [Except.ok.injEq] at ha; subst ha; exact hp
  · intro p q ch0 w p1 p2 w' a b _ _ _ _ _ _ hc ha hb
    rw [C05R.em_tr_id] at ha hb
    simp only [Except.ok.injEq] at ha hb; subst ha hb; exact hc
  · intro p q w a b w' hc hn ha hb hc' hnb
    rw [C05R.em_tr_id] at ha hb
    simp only [Except.ok.injEq] at ha hb; subst ha hb
    rw [hc'.unique hc] at hnb
    exact hnb.1 hn

-- the state of the template (`*a` has been read from `*a*`, the cursor is in front of the closing
-- `*`; the rule fires, matches the opener and wraps the text — see the `example` in front of
-- `C05R.em_ex_hyps`): all hypotheses of `BdEmphOK` hold of it
theorem be_ex_hyps : ('*' : Char).utf8Size = 1 ∧ ('*' : Char) ≠ '\n' ∧ ('*' : Char) ≠ ' ' ∧
    CtxV ['*', 'a', '*'] C05R.em_exSt.src C05R.em_exSt.srcmap ∧
    BInv ['*', 'a', '*'] C05R.em_exSt := by
  have c01 : Cut ['*', 'a', '*'] 0 1 ['*'] := ⟨[], ['a', '*'], rfl, rfl, rfl⟩
  have c12 : Cut ['*', 'a', '*'] 1 2 ['a'] := ⟨['*'], ['*'], rfl, rfl, rfl⟩
  refine ⟨by decide, by decide, by decide, be_ctx_id _, ⟨['*', 'a'], ['*'], rfl, rfl⟩, ?_, ?_, trivial⟩
  · exact be_bdN_marker (m := ⟨'*', 1, 1, true, false⟩) c01 (by decide) trivial
  · rw [BdN_eq]
    refine ⟨⟨1, 2, rfl, c12.bdy_left, c12.bdy_right, ?_⟩, trivial⟩
    intro mk l rem o c ht; simp [Node.newText] at ht

example : C05R.em_step (ruleEmph (exCfg 100) '*' true C05R.em_exSt false) = some (some 1, 2) ∧
    C05R.em_show (ruleEmph (exCfg 100) '*' true C05R.em_exSt false) =
      [(.wrap .em '*', some (0, 3), [.text ['a']])] := by decide +kernel

end MdIt.C05T
